(* C04 — Plain and quoted scalars yield exactly the text YAML assigns to them.
   Specification side: Spec/FlowFold.v (escapes of 5.7, hexadecimal values, fold_lines, presentations: a scalar is a
   first line/segment and a list of (break layout, line/segment); plain_layout_wf / dq_layout_wf / sq_layout_wf say
   which presentations the YAML 1.2.2 productions allow, plain_render / dq_render / sq_render how they are written,
   plain_text / dq_text which text they denote).  It imports nothing from the model.
   Lemmas: Proofs/FlowScalarProofs.v (tables, hexadecimal, the character loop), Proofs/PlainScalarProofs.v
   (scan_plain_scalar), Proofs/QuotedFoldProofs.v (scan_flow_scalar over several lines).
   Model: Model/SScalar.v (scan_flow_scalar, consume_nonws, flow_blanks, resolve_escape, read_hex, scan_plain_scalar,
   plain_chunk, plain_blanks) over the string input str_ops; generated tables Gen/Escapes.v, Gen/CharTraits.v
   (regenerated from parser/src/scanner.rs and char_traits.rs on every run).

   THE COMPLETE STATEMENT at scanner level is C04_full below (the scanner state stands for the syntactic context:
   flow level, indentation, column).  It IS PROVED (C04_full_proved):
     T1  the generated escape table IS the table of section 5.7 (every character, both directions), the numeric
         escapes are x/2, u/4, U/8;
     T2  hexadecimal digits and numbers: as_hex on every digit, read_hex on every digit list, resolve_escape on
         every named and every numeric escape (non-scalar values rejected);
     T3  the character loop for ALL words with and without escapes, the single-line quoted scalar (kept: they give
         the exact final state and span, which T5 does not);
     T4  C04_plain_full: for EVERY presentation of a plain scalar that the productions allow (first line, any number
         of folded breaks with trailing padding, empty lines, continuation indentation with tabs after the required
         spaces; block and flow context) followed by anything that ends a plain scalar, scan_plain_scalar returns the
         scalar with exactly plain_text: single line -> the line, one break -> space, k+1 breaks -> k line feeds,
         blanks around a break dropped, interior blanks kept, ':' '#' '-' and flow indicators where legal kept;
     T5  C04_quoted_full: for EVERY presentation of a single- or double-quoted scalar (literals, '' , named and
         numeric escapes, folded breaks, escaped breaks that keep the blanks before the backslash and join without a
         space, empty lines, indentation) followed by anything that may follow it, scan_flow_scalar returns exactly
         dq_text in the right style.
   Breaks inside a scalar are written LF, CR or CR LF (bl_nl: one kind per break layout); the blank lines that may
   follow a plain scalar likewise.
   NOT covered by a theorem (differential run only): the buffered (iterator) input, the token-to-event path above the
   scanner (C02/C07/C13 cover it), characters the productions exclude that saphyr nevertheless accepts. *)
From Coq Require Import List NArith ZArith Bool.
Import ListNotations.
Require Import Parser SBase SPrim SDir SScalar SFetch Pipe FlowFold FlowScalarProofs PlainScalarProofs QuotedFoldProofs FoldPhysicalProofs.
Require Import Drivers FlowText ScalarContextQuoted ScalarContextFlow ScalarContext2Plain ScalarContext2PlainDoc ScalarContext2BlockSib ScalarContext2PlainSib ScalarContext2PlainSibDoc ScalarContext2Quoted ScalarContext2QuotedSibDoc.
Open Scope N_scope.

Definition C04_full : Prop := C04_quoted_full /\ C04_plain_full.

(* ---- T1: escape tables --------------------------------------------------------------------------------- *)
(* the finite domain, stated: every key of the generated table and every key of the specification's table *)
Theorem C04_escape_tables_agree_on_their_keys :
  forallb (fun c => opt_eqb (assocc c escape_table) (spec_escape c))
          (map fst escape_table ++ map fst spec_named_escapes) = true.
Proof. exact tables_agree_on_domain. Qed.
Print Assumptions C04_escape_tables_agree_on_their_keys.

Theorem C04_generated_escapes_are_spec : forall e v, In (e, v) escape_table -> spec_escape e = Some v.
Proof. exact every_generated_pair_is_in_spec. Qed.
Print Assumptions C04_generated_escapes_are_spec.

Theorem C04_spec_escapes_are_generated : forall e v, In (e, v) spec_named_escapes -> assocc e escape_table = Some v.
Proof. exact every_spec_pair_is_generated. Qed.
Print Assumptions C04_spec_escapes_are_generated.

(* hence for EVERY character after a backslash the scanner's table lookup is the specification's *)
Theorem C04_escape_lookup_is_spec : forall c, assocc c escape_table = spec_escape c.
Proof. exact escape_table_is_spec. Qed.
Print Assumptions C04_escape_lookup_is_spec.

Theorem C04_numeric_escape_lengths : code_length_table = [(120, 2%nat); (117, 4%nat); (85, 8%nat)].
Proof. exact code_length_table_is_spec. Qed.
Print Assumptions C04_numeric_escape_lengths.

(* ---- T2: hexadecimal --------------------------------------------------------------------------------- *)
Theorem C04_hex_digit_value : forall c, is_hex c = true -> hex_digit_value c = Some (as_hex c).
Proof. exact as_hex_correct. Qed.
Print Assumptions C04_hex_digit_value.

Theorem C04_hex_digits_are_the_22 : forall c, is_hex c = true <-> In c (map fst hex_digits).
Proof. exact is_hex_iff_listed. Qed.
Print Assumptions C04_hex_digits_are_the_22.

Theorem C04_read_hex : forall start s0 l m w ds v rest,
  hex_value ds = Some v ->
  read_hex str_ops (length ds) 0 0 start (st_with s0 (ds ++ rest) l m w) = Ok (v, st_with s0 (ds ++ rest) l m w).
Proof. exact read_hex_value. Qed.
Print Assumptions C04_read_hex.

(* backslash, named escape character e: the code point of 5.7; two characters consumed *)
Theorem C04_named_escape : forall start s0 e v rest l m w,
  spec_escape e = Some v ->
  resolve_escape str_ops start (st_with s0 (92 :: e :: rest) l m w) = Ok (v, st_with s0 rest l (adv 2 m) false).
Proof. exact resolve_escape_named. Qed.
Print Assumptions C04_named_escape.

(* backslash, x|u|U, exactly 2|4|8 hexadecimal digits of value v: v if it is a Unicode scalar value, else an error *)
Theorem C04_numeric_escape : forall start s0 e n ds v rest l m w,
  In (e, n) spec_numeric_escapes -> length ds = n -> hex_value ds = Some v ->
  resolve_escape str_ops start (st_with s0 (92 :: e :: ds ++ rest) l m w)
  = if spec_scalar_value v then Ok (v, st_with s0 rest (Nat.max l n) (adv (N.of_nat n) (adv 2 m)) false)
    else Err 32 start.
Proof. exact resolve_escape_numeric. Qed.
Print Assumptions C04_numeric_escape.

(* ---- T3: the character loop ----------------------------------------------------------------------------- *)
(* ALL words: t made of ordinary characters (not blank, break, NUL; for double quotes not the quote, not the
   backslash), written inside the quotes (a single quote doubled), up to a blank or the closing quote:
   the word is appended unchanged and the scanner stops exactly there.  Any scanner state (st_with s0 ...). *)
Theorem C04_word_partial : forall single t fuel acc start s0 x rest l m w,
  forallb (ordinary single) t = true -> stops single x rest -> (length t < fuel)%nat ->
  consume_nonws str_ops fuel single acc start (st_with s0 (enc single t ++ x :: rest) l m w)
  = Ok ((rev t ++ acc, false),
        st_with s0 (x :: rest) (Nat.max l 2) (adv (N.of_nat (length (enc single t))) m)
                (match t with [] => w | _ => false end)).
Proof. exact consume_nonws_word. Qed.
Print Assumptions C04_word_partial.

(* ALL double-quoted words with escapes: any sequence of literal characters, named escapes and numeric escapes
   decodes to the sequence of their code points *)
Theorem C04_word_with_escapes_partial : forall items fuel acc start s0 x rest l m w,
  Forall item_ok items -> stops false x rest -> (length items < fuel)%nat ->
  exists l' w',
    consume_nonws str_ops fuel false acc start (st_with s0 (flat_map item_src items ++ x :: rest) l m w)
    = Ok ((rev (map item_val items) ++ acc, false),
          st_with s0 (x :: rest) l' (adv (N.of_nat (length (flat_map item_src items))) m) w').
Proof. exact consume_nonws_items. Qed.
Print Assumptions C04_word_with_escapes_partial.

(* ALL single-line escape-free texts (ordinary characters and blanks anywhere), both styles, from ANY scanner
   state whose input starts with the quoted scalar, whose indentation does not exceed the column after the
   opening quote, the scalar being followed by a break or the end of input: the token is the scalar with
   exactly that text, the right style, the span from the opening quote to just after the closing quote. *)
Theorem C04_single_line_partial : forall F single (s : sc strin) t rest,
  forallb (text_char single) t = true -> (length t < F)%nat ->
  si_chars (sc_in s) = quote_of single :: enc single t ++ quote_of single :: rest ->
  (single = true -> (nth 0 rest 0 =? 39) = false) ->
  is_breakz (nth 0 rest 0) = true ->
  (sc_indent s <= Z.of_N (m_col (sc_mark s)) + 1)%Z ->
  exists s',
    scan_flow_scalar str_ops F single s
    = Ok (({| sp_start := sc_mark s; sp_end := adv (N.of_nat (length (enc single t)) + 2) (sc_mark s) |},
           TScalar (style_of single) t), s')
    /\ si_chars (sc_in s') = rest.
Proof. exact scan_flow_scalar_single_line. Qed.
Print Assumptions C04_single_line_partial.

(* ---- T4: plain scalars ------------------------------------------------------------------------------------ *)
(* C04_plain_full (Proofs/PlainScalarProofs.v), spelled out: for every fuel F, required indentation n, first line,
   continuation lines [more] with their break layouts, follower [rest] and scanner state s (over the string input)
     - plain_layout_wf flow n first more: the lines are ns-plain lines of the context (flow = inside a flow
       collection), the breaks are folded breaks whose empty lines / indentation satisfy l-empty(n) / s-flow-line-prefix(n),
       no continuation line is a document marker in column 0;
     - the input is plain_render first more ++ rest, and rest ends the scalar (plain_follower_ok: blanks, then the end
       of input; a break and any number of lines of spaces, then nothing / in block context a line that is not
       indented deeper than the block / a comment / a document marker in column 0 / in flow context , [ ] { } or
       ": "; " #"; in flow context , [ ] { }; ": ");
     - the block is less indented than n and than the scalar's first column (eff_indent: the indentation
       unroll_non_block_indents leaves), the scalar does not start as a document marker in column 0;
     - F covers the input (the pipeline gives 2 * length + 10);
   scan_plain_scalar returns a Plain scalar token with text plain_text first more, starting at the current mark. *)
Theorem C04_plain_full_proved : C04_plain_full.
Proof. exact scan_plain_scalar_text. Qed.
Print Assumptions C04_plain_full_proved.

(* ---- T5: quoted scalars ----------------------------------------------------------------------------------- *)
(* C04_quoted_full (Proofs/QuotedFoldProofs.v): the same for single- and double-quoted scalars: presentation
   (first segment, (break layout, segment) list) allowed by sq_layout_wf / dq_layout_wf, input = quote, rendering, quote,
   rest; rest may follow a quoted scalar (quoted_follower_ok: blanks, then end of line / input, a comment, in flow
   context , ] }, a colon - in block context only after a single-line scalar); scan_flow_scalar returns the scalar
   of that style with text dq_text first more. *)
Theorem C04_quoted_full_proved : C04_quoted_full.
Proof. exact scan_flow_scalar_text. Qed.
Print Assumptions C04_quoted_full_proved.

Theorem C04_full_proved : C04_full.
Proof. exact (conj scan_flow_scalar_text scan_plain_scalar_text). Qed.
Print Assumptions C04_full_proved.

(* the folding rules the texts are built with (Spec/FlowFold.v: break_text), stated: one break is a space, a break
   followed by k+1 empty lines is k+1 line feeds, an escaped break followed by k empty lines is k line feeds (none:
   the lines are joined) *)
Theorem C04_fold_rules : forall k,
  break_text (Folded 0) = [32] /\ break_text (Folded (S k)) = repeat 10 (S k) /\ break_text (Escaped k) = repeat 10 k
  /\ break_text (Escaped 0) = [].
Proof. exact (fun k => conj eq_refl (conj eq_refl (conj eq_refl eq_refl))). Qed.
Print Assumptions C04_fold_rules.

(* ---- the two formulations of folding agree (specification only) ------------------------------------------ *)
(* The text a presentation denotes does not depend on how the source is cut into a presentation: it is the result of
   the folding rules applied to the PHYSICAL lines of the source (cut at the line feeds; the first line loses its
   trailing blanks, the last its leading blanks, inner lines both; inner lines of blanks only are empty lines;
   a break followed by k empty lines gives a space if k = 0 and k line feeds otherwise). *)
Theorem C04_plain_text_is_physical_folding : forall flow n first more,
  plain_layout_wf flow n first more = true -> forallb (fun p => nl_is_lf (bl_nl (fst p))) more = true ->
  fold_physical (split_lf [] (plain_render first more)) = plain_text first more.
Proof. exact plain_text_is_physical_folding. Qed.
Print Assumptions C04_plain_text_is_physical_folding.

(* hence what scan_plain_scalar returns is the folding of the physical lines of the scalar's source *)
Theorem C04_plain_scanned_is_physical_folding :
  forall (F n : nat) (first : list N) (more : list (brk_layout * list N)) (rest : list N) (s : sc strin),
    plain_layout_wf (0 <? sc_flow_level s) n first more = true ->
    forallb (fun p => nl_is_lf (bl_nl (fst p))) more = true ->                    (* breaks written LF *)
    si_chars (sc_in s) = plain_render first more ++ rest ->
    plain_follower_ok (0 <? sc_flow_level s) (eff_indent s) rest = true ->
    (eff_indent s < Z.of_nat n)%Z ->
    (eff_indent s < Z.of_N (m_col (sc_mark s)))%Z ->
    (sc_lws s = true -> m_col (sc_mark s) = 0 -> marker_at_col0 [] first = false) ->
    (2 * length (si_chars (sc_in s)) + 10 <= F)%nat ->
    exists sp s',
      scan_plain_scalar str_ops F s
      = Ok ((sp, TScalar Plain (fold_physical (split_lf [] (plain_render first more)))), s')
      /\ sp_start sp = sc_mark s.
Proof.
  exact (fun F n first more rest s Hwf Hlf Hsrc Hfol Hn Hcol Hmk HF =>
           eq_ind_r (fun t => exists sp s', scan_plain_scalar str_ops F s = Ok ((sp, TScalar Plain t), s') /\ sp_start sp = sc_mark s)
                    (scan_plain_scalar_text F n first more rest s Hwf Hsrc Hfol Hn Hcol Hmk HF)
                    (plain_text_is_physical_folding _ n first more Hwf Hlf)).
Qed.
Print Assumptions C04_plain_scanned_is_physical_folding.

(* ---- examples (whole pipeline run_str, by computation) ------------------------------------------------- *)
(* the specification functions are not trivial *)
Example C04_spec_examples :
  spec_escape 110 = Some 10 /\ spec_escape 78 = Some 133 /\ spec_escape 113 = None
  /\ hex_value [49; 70; 54; 48; 48] = Some 128512 /\ hex_value [49; 103] = None
  /\ spec_scalar_value 55296 = false /\ spec_scalar_value 1114111 = true /\ spec_scalar_value 1114112 = false
  /\ fold_lines [97] [(Folded 0, [98]); (Folded 2, [99]); (Escaped 0, [100]); (Escaped 1, [101])]
     = [97; 32; 98; 10; 10; 99; 100; 10; 101].
Proof. vm_compute. repeat split. Qed.

(* a folded multi-line double-quoted scalar: one break -> space, two breaks -> one line feed, blanks around breaks
   dropped; the specification's physical folding gives the same text *)
Example C04_example_folded_double :
  scalars_of (run_str [34; 97; 32; 98; 32; 10; 32; 32; 99; 10; 10; 32; 9; 32; 100; 34; 10]) = ([(DoubleQuoted, [97; 32; 98; 32; 99; 10; 100])], true)
  /\ fold_physical (split_lf [] [97; 32; 98; 32; 10; 32; 32; 99; 10; 10; 32; 9; 32; 100]) = [97; 32; 98; 32; 99; 10; 100].
Proof. vm_compute. split; reflexivity. Qed.

(* an escaped break joins without a space and keeps the blank before the backslash; the x, u, U and n escapes decode *)
Example C04_example_escaped_break :
  scalars_of (run_str [107; 58; 32; 34; 97; 32; 92; 10; 32; 32; 32; 32; 98; 92; 120; 52; 49; 92; 117; 48; 48; 101; 57; 92; 85; 48; 48; 48; 49; 70; 54; 48; 48; 92; 110; 34; 10]) = ([(Plain, [107]); (DoubleQuoted, [97; 32; 98; 65; 233; 128512; 10])], true).
Proof. vm_compute. reflexivity. Qed.

(* two quotes inside single quotes are one quote, interior blanks are kept *)
Example C04_example_single_quoted :
  scalars_of (run_str [45; 32; 39; 105; 116; 39; 39; 115; 32; 32; 115; 111; 39; 10]) = ([(SingleQuoted, [105; 116; 39; 115; 32; 32; 115; 111])], true)
  /\ sq_undouble [105; 116; 39; 39; 115; 32; 32; 115; 111] = [105; 116; 39; 115; 32; 32; 115; 111].
Proof. vm_compute. split; reflexivity. Qed.

(* a plain multi-line scalar *)
Example C04_example_plain_multiline :
  scalars_of (run_str [107; 58; 32; 97; 32; 98; 10; 32; 32; 32; 99; 10; 10; 32; 32; 32; 100; 10; 122; 58; 32; 119; 10]) = ([(Plain, [107]); (Plain, [97; 32; 98; 32; 99; 10; 100]); (Plain, [122]); (Plain, [119])], true).
Proof. vm_compute. reflexivity. Qed.

(* an instance of C04_quoted_full (multi-line with escapes): its hypotheses are satisfiable and its conclusion is what
   the model computes *)
Example C04_quoted_full_instance :
  let b := {| bl_escaped := false; bl_pad := [32]; bl_empties := [[]]; bl_indent := [32; 32; 9]; bl_nl := NlLF |} in
  let e := {| bl_escaped := true; bl_pad := []; bl_empties := []; bl_indent := [32]; bl_nl := NlLF |} in
  let first := [ILit 97; ILit 32; INamed 116 9] in
  let more := [(b, [ILit 98; ILit 32]); (e, [IHex 120 [52; 49] 65])] in
  dq_layout_wf 1 first more = true
  /\ dq_text first more = [97; 32; 9; 10; 98; 32; 65]
  /\ match scan_flow_scalar str_ops 100 false
             (init_sc {| si_chars := 34 :: dq_render first more ++ [34; 10]; si_look := 0 |}) with
     | Ok ((_, TScalar DoubleQuoted v), _) => v = dq_text first more
     | _ => False
     end.
Proof. vm_compute. repeat split. Qed.

(* the two repaired findings (263b504: a document marker ends a plain scalar only in column 0; 0b5f0e0: only the
   FIRST character of a plain scalar may not be '-' before a flow indicator), on the model *)
Example C04_fixed_finding_witnesses :
  scalars_of (run_str [91; 97; 32; 45; 93; 10]) = ([(Plain, [97; 32; 45])], true)
  /\ scalars_of (run_str [97; 10; 32; 45; 45; 45; 10]) = ([(Plain, [97; 32; 45; 45; 45])], true)
  /\ scalars_of (run_str [107; 58; 10; 32; 32; 45; 45; 45; 32; 97; 10]) = ([(Plain, [107]); (Plain, [45; 45; 45; 32; 97])], true)
  /\ snd (scalars_of (run_str [91; 45; 93; 10])) = false
  /\ scalars_of (run_str [97; 10; 45; 45; 45; 10]) = ([(Plain, [97]); (Plain, [126])], true).
Proof. vm_compute. repeat split. Qed.

(* an instance of C04_plain_full: "a  b" + padding, an empty line, a tab in the continuation indentation, "c:d", an
   indented "---", "x#e", at top level, followed by a comment; the hypotheses hold and the model computes plain_text *)
Example C04_plain_full_instance :
  let b := {| bl_escaped := false; bl_pad := [32; 9]; bl_empties := [[]]; bl_indent := [32; 32; 9]; bl_nl := NlLF |} in
  let b2 := {| bl_escaped := false; bl_pad := []; bl_empties := []; bl_indent := [32]; bl_nl := NlLF |} in
  let first := [97; 32; 32; 98] in
  let more := [(b, [99; 58; 100]); (b2, [45; 45; 45]); (b2, [120; 35; 101])] in
  let rest := [32; 35; 32; 120; 10] in
  let s := init_sc {| si_chars := plain_render first more ++ rest; si_look := 0 |} in
  plain_layout_wf false 1 first more = true
  /\ plain_follower_ok false (eff_indent s) rest = true
  /\ plain_text first more = [97; 32; 32; 98; 10; 99; 58; 100; 32; 45; 45; 45; 32; 120; 35; 101]
  /\ match scan_plain_scalar str_ops 100 s with
     | Ok ((_, TScalar Plain v), _) => v = plain_text first more
     | _ => False
     end.
Proof. vm_compute. repeat split. Qed.

(* the hypotheses of the two theorems are not vacuous in flow context either: [ 'it''s<LF> so' , a<LF>  - ] *)
Example C04_flow_context_instances :
  let b := {| bl_escaped := false; bl_pad := []; bl_empties := []; bl_indent := [32]; bl_nl := NlLF |} in
  sq_layout_wf 0 [ILit 105; ILit 116; ILit 39; ILit 115] [(b, [ILit 115; ILit 111])] = true
  /\ dq_text [ILit 105; ILit 116; ILit 39; ILit 115] [(b, [ILit 115; ILit 111])] = [105; 116; 39; 115; 32; 115; 111]
  /\ quoted_follower_ok true true [32; 44] = true
  /\ plain_layout_wf true 0 [97] [(b, [45])] = true
  /\ plain_follower_ok true (-1) [32; 93] = true
  /\ plain_text [97] [(b, [45])] = [97; 32; 45]
  /\ scalars_of (run_str [91; 39; 105; 116; 39; 39; 115; 10; 32; 115; 111; 39; 32; 44; 32; 97; 10; 32; 45; 32; 93; 10])
     = ([(SingleQuoted, [105; 116; 39; 115; 32; 115; 111]); (Plain, [97; 32; 45])], true).
Proof. vm_compute. repeat split. Qed.

(* what the well-formedness predicates exclude: a continuation line that is a document marker in column 0, a plain
   line ending in ':' , a '#' after a blank, a segment that ends in a blank before a folded break *)
Example C04_wf_is_not_trivial :
  let b0 := {| bl_escaped := false; bl_pad := []; bl_empties := []; bl_indent := []; bl_nl := NlLF |} in
  plain_layout_wf false 0 [97] [(b0, [45; 45; 45])] = false
  /\ plain_layout_wf false 0 [97; 58] [] = false
  /\ plain_layout_wf false 0 [97; 32; 35; 98] [] = false
  /\ plain_layout_wf true 0 [97; 44] [] = false
  /\ dq_layout_wf 0 [ILit 97; ILit 32] [(b0, [ILit 98])] = false
  /\ dq_layout_wf 0 [ILit 97; INamed 32 32] [(b0, [ILit 98])] = true.
Proof. vm_compute. repeat split. Qed.

(* breaks written CR LF and CR: the same texts (instances of both theorems, hypotheses evaluated) *)
Example C04_crlf_instances :
  let b := {| bl_escaped := false; bl_pad := [32]; bl_empties := [[]; [32]]; bl_indent := [32; 32]; bl_nl := NlCRLF |} in
  let c := {| bl_escaped := false; bl_pad := []; bl_empties := []; bl_indent := [32]; bl_nl := NlCR |} in
  let e := {| bl_escaped := true; bl_pad := []; bl_empties := [[]]; bl_indent := []; bl_nl := NlCRLF |} in
  let s1 := init_sc {| si_chars := plain_render [97] [(b, [98]); (c, [99])] ++ [10]; si_look := 0 |} in
  let s2 := init_sc {| si_chars := 34 :: dq_render [ILit 97] [(b, [ILit 98]); (e, [ILit 99]); (c, [])] ++ [34; 10]; si_look := 0 |} in
  plain_layout_wf false 1 [97] [(b, [98]); (c, [99])] = true
  /\ plain_render [97] [(b, [98]); (c, [99])] = [97; 32; 13; 10; 13; 10; 32; 13; 10; 32; 32; 98; 13; 32; 99]
  /\ plain_text [97] [(b, [98]); (c, [99])] = [97; 10; 10; 98; 32; 99]
  /\ match scan_plain_scalar str_ops 100 s1 with Ok ((_, TScalar Plain v), _) => v = [97; 10; 10; 98; 32; 99] | _ => False end
  /\ dq_layout_wf 0 [ILit 97] [(b, [ILit 98]); (e, [ILit 99]); (c, [])] = true
  /\ dq_text [ILit 97] [(b, [ILit 98]); (e, [ILit 99]); (c, [])] = [97; 10; 10; 98; 10; 99; 32]
  /\ match scan_flow_scalar str_ops 100 false s2 with
     | Ok ((_, TScalar DoubleQuoted v), _) => v = [97; 10; 10; 98; 10; 99; 32] | _ => False end.
Proof. vm_compute. repeat split. Qed.

(* ---- T7: quoted scalars in DOCUMENT context, text -> tokens -> events (Proofs/ScalarContext*.v) --------------------- *)
(* T5 for a follower of spaces and line feeds WITH the input that is left (the blanks behind the closing quote are consumed,
   the line feeds are left to skip_to_next_token): T5 itself hides the final scanner state. *)
Theorem C04_quoted_ws_partial :
  forall (F : nat) (single : bool) (n : nat) (first : list dq_item) (more : list (brk_layout * list dq_item))
         (rest : list N) (s : sc strin),
    (if single then sq_layout_wf n first more else dq_layout_wf n first more) = true ->
    let src := if single then sq_render first more else dq_render first more in
    si_chars (sc_in s) = quote_of single :: src ++ quote_of single :: rest ->
    ws_only rest = true ->
    (sc_indent s < Z.of_nat n)%Z ->
    (sc_indent s <= Z.of_N (m_col (sc_mark s)) + 1)%Z ->
    (2 * length (si_chars (sc_in s)) + 10 <= F)%nat ->
    exists sp s',
      scan_flow_scalar str_ops F single s = Ok ((sp, TScalar (style_of single) (dq_text first more)), s')
      /\ sp_start sp = sc_mark s /\ si_chars (sc_in s') = drop_leading rest.
Proof. exact scan_flow_scalar_ws. Qed.
Print Assumptions C04_quoted_ws_partial.

(* For EVERY presentation (first segment, (break layout, segment) list) of a single- or double-quoted scalar that
   sq_layout_wf n / dq_layout_wf n allow -- escapes, folded and escaped breaks, empty lines, LF / CR / CR LF inside the
   scalar -- followed by spaces and line feeds only ([ws_only rest]: the scalar ends the input), the whole model pipeline on
   the text  quote, rendering, quote, rest  (q_text), alone / behind "key: " / behind "- ", delivers the scalar event with
   exactly dq_text in the written style.  n is the least indentation of the continuation lines: any n at top level, n >= 1 as
   a sequence entry, n >= 2 as a mapping value (T5 compares n with the scanner's indentation, which roll_one_col_indent has
   raised to 1 behind "key:"; a value continued at column 1 is accepted by the scanner but not covered by T5). *)
Theorem C04_quoted_document_top : forall (single : bool) (n : nat) first more rest,
  (if single then sq_layout_wf n first more else dq_layout_wf n first more) = true -> ws_only rest = true ->
  map fst (fst (run_str (q_text single first more rest)))
  = [EStreamStart; EDocumentStart false; EScalar (dq_text first more) (style_of single) 0 None; EDocumentEnd; EStreamEnd]
  /\ snd (run_str (q_text single first more rest)) = PDone.
Proof. exact run_quoted_top. Qed.
Print Assumptions C04_quoted_document_top.

Theorem C04_quoted_document_value : forall kw (single : bool) (n : nat) first more rest,
  key_ok kw = true -> (if single then sq_layout_wf n first more else dq_layout_wf n first more) = true -> ws_only rest = true ->
  (2 <= n)%nat ->
  map fst (fst (run_str (kw ++ 58 :: 32 :: q_text single first more rest)))
  = [EStreamStart; EDocumentStart false; EMappingStart 0 None; EScalar kw Plain 0 None;
     EScalar (dq_text first more) (style_of single) 0 None; EMappingEnd; EDocumentEnd; EStreamEnd]
  /\ snd (run_str (kw ++ 58 :: 32 :: q_text single first more rest)) = PDone.
Proof. exact run_quoted_value. Qed.
Print Assumptions C04_quoted_document_value.

Theorem C04_quoted_document_entry : forall (single : bool) (n : nat) first more rest,
  (if single then sq_layout_wf n first more else dq_layout_wf n first more) = true -> ws_only rest = true -> (1 <= n)%nat ->
  map fst (fst (run_str (45 :: 32 :: q_text single first more rest)))
  = [EStreamStart; EDocumentStart false; ESequenceStart 0 None; EScalar (dq_text first more) (style_of single) 0 None; ESequenceEnd;
     EDocumentEnd; EStreamEnd]
  /\ snd (run_str (45 :: 32 :: q_text single first more rest)) = PDone.
Proof. exact run_quoted_entry. Qed.
Print Assumptions C04_quoted_document_entry.

(* the text is what the specification renders *)
Example C04_q_text_is_render : forall (single : bool) first more rest,
  q_text single first more rest
  = quote_of single :: (if single then sq_render first more else dq_render first more) ++ quote_of single :: rest.
Proof. reflexivity. Qed.

(* instances, every hypothesis evaluated.  Double-quoted over three lines: a folded break with an empty line behind trailing
   padding, an escaped break, a named and a hexadecimal escape; followed by a blank and a line feed.
   "a \t <LF><LF>  <TAB>b \<LF> \x41" <LF> *)
Definition ctx_b : brk_layout := {| bl_escaped := false; bl_pad := [32]; bl_empties := [[]]; bl_indent := [32; 32; 9]; bl_nl := NlLF |}.
Definition ctx_e : brk_layout := {| bl_escaped := true; bl_pad := []; bl_empties := []; bl_indent := [32; 32]; bl_nl := NlLF |}.
Definition ctx_first : list dq_item := [ILit 97; ILit 32; INamed 116 9].
Definition ctx_more : list (brk_layout * list dq_item) := [(ctx_b, [ILit 98; ILit 32]); (ctx_e, [IHex 120 [52; 49] 65])].
Example C04_quoted_document_instances :
  dq_layout_wf 2 ctx_first ctx_more = true /\ dq_text ctx_first ctx_more = [97; 32; 9; 10; 98; 32; 65] /\
  q_text false ctx_first ctx_more [32; 10]
  = [34; 97; 32; 92; 116; 32; 10; 10; 32; 32; 9; 98; 32; 92; 10; 32; 32; 92; 120; 52; 49; 34; 32; 10] /\
  (* top level *)
  map fst (fst (run_str (q_text false ctx_first ctx_more [32; 10])))
  = [EStreamStart; EDocumentStart false; EScalar [97; 32; 9; 10; 98; 32; 65] DoubleQuoted 0 None; EDocumentEnd; EStreamEnd] /\
  (* mapping value: "key: " in front, the same text *)
  map fst (fst (run_str ([107; 101; 121] ++ 58 :: 32 :: q_text false ctx_first ctx_more [32; 10])))
  = [EStreamStart; EDocumentStart false; EMappingStart 0 None; EScalar [107; 101; 121] Plain 0 None;
     EScalar [97; 32; 9; 10; 98; 32; 65] DoubleQuoted 0 None; EMappingEnd; EDocumentEnd; EStreamEnd] /\
  (* sequence entry *)
  map fst (fst (run_str (45 :: 32 :: q_text false ctx_first ctx_more [32; 10])))
  = [EStreamStart; EDocumentStart false; ESequenceStart 0 None; EScalar [97; 32; 9; 10; 98; 32; 65] DoubleQuoted 0 None; ESequenceEnd;
     EDocumentEnd; EStreamEnd].
Proof.
  split; [reflexivity|]. split; [reflexivity|]. split; [reflexivity|].
  split; [exact (proj1 (run_quoted_top false 2 ctx_first ctx_more [32; 10] eq_refl eq_refl))|].
  split; [exact (proj1 (run_quoted_value [107; 101; 121] false 2 ctx_first ctx_more [32; 10] eq_refl eq_refl eq_refl ltac:(repeat constructor)))|].
  exact (proj1 (run_quoted_entry false 2 ctx_first ctx_more [32; 10] eq_refl eq_refl ltac:(repeat constructor))).
Qed.
(* single-quoted, a doubled quote, a folded CR LF break, no final line break: - 'it''s<CR><LF> so' *)
Definition ctx_c : brk_layout := {| bl_escaped := false; bl_pad := []; bl_empties := []; bl_indent := [32]; bl_nl := NlCRLF |}.
Example C04_quoted_document_single_instance :
  sq_layout_wf 1 [ILit 105; ILit 116; ILit 39; ILit 115] [(ctx_c, [ILit 115; ILit 111])] = true /\
  45 :: 32 :: q_text true [ILit 105; ILit 116; ILit 39; ILit 115] [(ctx_c, [ILit 115; ILit 111])] []
  = [45; 32; 39; 105; 116; 39; 39; 115; 13; 10; 32; 115; 111; 39] /\
  map fst (fst (run_str (45 :: 32 :: q_text true [ILit 105; ILit 116; ILit 39; ILit 115] [(ctx_c, [ILit 115; ILit 111])] [])))
  = [EStreamStart; EDocumentStart false; ESequenceStart 0 None; EScalar [105; 116; 39; 115; 32; 115; 111] SingleQuoted 0 None;
     ESequenceEnd; EDocumentEnd; EStreamEnd].
Proof.
  split; [reflexivity|]. split; [reflexivity|].
  exact (proj1 (run_quoted_entry true 1 [ILit 105; ILit 116; ILit 39; ILit 115] [(ctx_c, [ILit 115; ILit 111])] [] eq_refl eq_refl ltac:(repeat constructor))).
Qed.
(* ws_only is a real restriction: a comment or a sibling key behind the scalar is outside the class *)
Example C04_ws_only_excludes : ws_only [32; 35; 99] = false /\ ws_only [10; 98; 58; 32; 49] = false /\ ws_only [32; 10; 10] = true.
Proof. repeat split. Qed.

(* ---- T8: PLAIN scalars in DOCUMENT context, text -> tokens -> events (Proofs/ScalarContext2Plain*.v) ---------------- *)
(* T4 for a follower of spaces and line feeds WITH the input that is left: none (plain_blanks consumes the trailing blanks
   and line breaks up to the end of the input).  T4 itself hides the final scanner state; its follower analysis is redone
   for this class with a postcondition that keeps the state. *)
Theorem C04_plain_ws_partial :
  forall (F n : nat) (first : list N) (more : list (brk_layout * list N)) (rest : list N) (s : sc strin),
    plain_layout_wf (0 <? sc_flow_level s) n first more = true ->
    si_chars (sc_in s) = plain_render first more ++ rest ->
    ws_only rest = true ->
    (eff_indent s < Z.of_nat n)%Z ->
    (eff_indent s < Z.of_N (m_col (sc_mark s)))%Z ->
    (sc_lws s = true -> m_col (sc_mark s) = 0 -> marker_at_col0 [] first = false) ->
    (2 * length (si_chars (sc_in s)) + 10 <= F)%nat ->
    exists sp s',
      scan_plain_scalar str_ops F s = Ok ((sp, TScalar Plain (plain_text first more)), s')
      /\ sp_start sp = sc_mark s /\ si_chars (sc_in s') = [].
Proof. exact scan_plain_scalar_ws. Qed.
Print Assumptions C04_plain_ws_partial.

(* For EVERY presentation (first line, (break layout, line) list) of a plain scalar that plain_layout_wf false n allows in
   block context -- a first character that is no indicator or - ? : in front of a non-space character, inner blanks and tabs,
   ':' and '#' inside words, folded breaks with padding, empty lines, tabs behind the indentation, LF / CR / CR LF, no
   document marker at column 0 of a continuation line -- followed by spaces and line feeds only ([ws_only rest]: the scalar
   ends the input), the whole model pipeline on the text  rendering ++ rest, alone / behind "key: " / behind "- ", delivers the
   scalar event with exactly plain_text, style Plain.  n is the least indentation of the continuation lines: any n at top
   level (there the first line must not be a document marker: c-forbidden), n >= 1 as a mapping value and as a sequence entry
   (scan_plain_scalar compares with the indentation of the enclosing block collection; the one-column raise behind "key:" is
   taken back by unroll_non_block_indents, so unlike for quoted scalars a value continued at column 1 is covered).
   A one-line scalar at top level is a possible simple key when the input ends, a multi-line one has gone stale: both paths
   are in [end_unit]. *)
Theorem C04_plain_document_top : forall (n : nat) first more rest,
  plain_layout_wf false n first more = true -> ws_only rest = true -> marker_at_col0 [] first = false ->
  map fst (fst (run_str (plain_render first more ++ rest)))
  = [EStreamStart; EDocumentStart false; EScalar (plain_text first more) Plain 0 None; EDocumentEnd; EStreamEnd]
  /\ snd (run_str (plain_render first more ++ rest)) = PDone.
Proof. exact run_plain_top. Qed.
Print Assumptions C04_plain_document_top.

Theorem C04_plain_document_value : forall kw (n : nat) first more rest,
  key_ok kw = true -> plain_layout_wf false n first more = true -> ws_only rest = true -> (1 <= n)%nat ->
  map fst (fst (run_str (kw ++ 58 :: 32 :: plain_render first more ++ rest)))
  = [EStreamStart; EDocumentStart false; EMappingStart 0 None; EScalar kw Plain 0 None;
     EScalar (plain_text first more) Plain 0 None; EMappingEnd; EDocumentEnd; EStreamEnd]
  /\ snd (run_str (kw ++ 58 :: 32 :: plain_render first more ++ rest)) = PDone.
Proof. exact run_plain_value. Qed.
Print Assumptions C04_plain_document_value.

Theorem C04_plain_document_entry : forall (n : nat) first more rest,
  plain_layout_wf false n first more = true -> ws_only rest = true -> (1 <= n)%nat ->
  map fst (fst (run_str (45 :: 32 :: plain_render first more ++ rest)))
  = [EStreamStart; EDocumentStart false; ESequenceStart 0 None; EScalar (plain_text first more) Plain 0 None; ESequenceEnd;
     EDocumentEnd; EStreamEnd]
  /\ snd (run_str (45 :: 32 :: plain_render first more ++ rest)) = PDone.
Proof. exact run_plain_entry. Qed.
Print Assumptions C04_plain_document_entry.

(* instances, every hypothesis evaluated.  Three lines: the first starts with '-' in front of a letter and has an inner
   blank; a folded break with trailing padding, an empty line and a tab behind the indentation; '#' and ':' inside a word; a
   CR LF break; followed by a blank and two line feeds.
   -a b <LF><LF>  <TAB>c#d:e<CR><LF>  f <LF><LF> *)
Definition pctx_b1 : brk_layout := {| bl_escaped := false; bl_pad := [32]; bl_empties := [[]]; bl_indent := [32; 32; 9]; bl_nl := NlLF |}.
Definition pctx_b2 : brk_layout := {| bl_escaped := false; bl_pad := []; bl_empties := []; bl_indent := [32; 32]; bl_nl := NlCRLF |}.
Definition pctx_first : list N := [45; 97; 32; 98].
Definition pctx_more : list (brk_layout * list N) := [(pctx_b1, [99; 35; 100; 58; 101]); (pctx_b2, [102])].
Example C04_plain_document_instances :
  plain_layout_wf false 2 pctx_first pctx_more = true /\
  plain_text pctx_first pctx_more = [45; 97; 32; 98; 10; 99; 35; 100; 58; 101; 32; 102] /\
  plain_render pctx_first pctx_more ++ [32; 10; 10]
  = [45; 97; 32; 98; 32; 10; 10; 32; 32; 9; 99; 35; 100; 58; 101; 13; 10; 32; 32; 102; 32; 10; 10] /\
  (* top level *)
  map fst (fst (run_str (plain_render pctx_first pctx_more ++ [32; 10; 10])))
  = [EStreamStart; EDocumentStart false; EScalar [45; 97; 32; 98; 10; 99; 35; 100; 58; 101; 32; 102] Plain 0 None; EDocumentEnd; EStreamEnd] /\
  (* mapping value: "key: " in front, the same text *)
  map fst (fst (run_str ([107; 101; 121] ++ 58 :: 32 :: plain_render pctx_first pctx_more ++ [32; 10; 10])))
  = [EStreamStart; EDocumentStart false; EMappingStart 0 None; EScalar [107; 101; 121] Plain 0 None;
     EScalar [45; 97; 32; 98; 10; 99; 35; 100; 58; 101; 32; 102] Plain 0 None; EMappingEnd; EDocumentEnd; EStreamEnd] /\
  (* sequence entry *)
  map fst (fst (run_str (45 :: 32 :: plain_render pctx_first pctx_more ++ [32; 10; 10])))
  = [EStreamStart; EDocumentStart false; ESequenceStart 0 None; EScalar [45; 97; 32; 98; 10; 99; 35; 100; 58; 101; 32; 102] Plain 0 None;
     ESequenceEnd; EDocumentEnd; EStreamEnd].
Proof.
  split; [reflexivity|]. split; [reflexivity|]. split; [reflexivity|].
  split; [exact (proj1 (run_plain_top 2 pctx_first pctx_more [32; 10; 10] eq_refl eq_refl eq_refl))|].
  split; [exact (proj1 (run_plain_value [107; 101; 121] 2 pctx_first pctx_more [32; 10; 10] eq_refl eq_refl eq_refl ltac:(repeat constructor)))|].
  exact (proj1 (run_plain_entry 2 pctx_first pctx_more [32; 10; 10] eq_refl eq_refl ltac:(repeat constructor))).
Qed.
(* top level: a continuation line at column 0 (n = 0), no final line break; and the one-line scalar "a" that ends the input
   (the pending-simple-key path); "key: a<LF> b" continued at column 1 *)
Definition pctx_b0 : brk_layout := {| bl_escaped := false; bl_pad := []; bl_empties := []; bl_indent := []; bl_nl := NlLF |}.
Definition pctx_b3 : brk_layout := {| bl_escaped := false; bl_pad := []; bl_empties := []; bl_indent := [32]; bl_nl := NlLF |}.
Example C04_plain_document_top_instances :
  plain_layout_wf false 0 [97] [(pctx_b0, [98])] = true /\ plain_render [97] [(pctx_b0, [98])] ++ [] = [97; 10; 98] /\
  map fst (fst (run_str (plain_render [97] [(pctx_b0, [98])] ++ [])))
  = [EStreamStart; EDocumentStart false; EScalar [97; 32; 98] Plain 0 None; EDocumentEnd; EStreamEnd] /\
  map fst (fst (run_str (plain_render [97] [] ++ [])))
  = [EStreamStart; EDocumentStart false; EScalar [97] Plain 0 None; EDocumentEnd; EStreamEnd] /\
  [107] ++ 58 :: 32 :: plain_render [97] [(pctx_b3, [98])] ++ [10] = [107; 58; 32; 97; 10; 32; 98; 10] /\
  map fst (fst (run_str ([107] ++ 58 :: 32 :: plain_render [97] [(pctx_b3, [98])] ++ [10])))
  = [EStreamStart; EDocumentStart false; EMappingStart 0 None; EScalar [107] Plain 0 None;
     EScalar [97; 32; 98] Plain 0 None; EMappingEnd; EDocumentEnd; EStreamEnd].
Proof.
  split; [reflexivity|]. split; [reflexivity|].
  split; [exact (proj1 (run_plain_top 0 [97] [(pctx_b0, [98])] [] eq_refl eq_refl eq_refl))|].
  split; [exact (proj1 (run_plain_top 0 [97] [] [] eq_refl eq_refl eq_refl))|].
  split; [reflexivity|].
  exact (proj1 (run_plain_value [107] 1 [97] [(pctx_b3, [98])] [10] eq_refl eq_refl eq_refl ltac:(repeat constructor))).
Qed.
(* the side conditions are real restrictions: a document marker as the first line at top level, ": " inside a line, a
   continuation line that is a marker at column 0, a continuation line at column 0 for n = 1 *)
Example C04_plain_document_excludes :
  marker_at_col0 [] [45; 45; 45] = true /\ marker_at_col0 [] [45; 45; 45; 32; 97] = true /\ marker_at_col0 [] [45; 45; 45; 97] = false /\
  plain_layout_wf false 0 [97; 58; 32; 98] [] = false /\
  plain_layout_wf false 0 [97] [(pctx_b0, [46; 46; 46])] = false /\
  plain_layout_wf false 1 [97] [(pctx_b0, [98])] = false.
Proof. repeat split. Qed.

(* ---- T9: a FOLLOWER behind a plain scalar in document context (Proofs/ScalarContext2Pos.v, ScalarContext2PlainSib*.v) - *)
(* T4 for the follower class "sibling line": white space (spaces, line feeds), a line feed, then a line that starts at column
   0 with a character that is neither blank nor break nor NUL (sib_head) -- inside a block collection (effective indentation
   >= 0) that line ends the scalar -- WITH the input that is left (the sibling line) and the flags the scanner leaves
   (leading_whitespace, hence simple_key_allowed: a key may start on the sibling line). *)
Theorem C04_plain_sibling_partial :
  forall (F n : nat) (first : list N) (more : list (brk_layout * list N)) (ws : list N) (x : N) (r : list N) (s : sc strin),
    plain_layout_wf false n first more = true -> sc_flow_level s = 0 ->
    si_chars (sc_in s) = plain_render first more ++ ws ++ 10 :: x :: r ->
    ws_only ws = true -> (is_blank x = false /\ is_break x = false /\ (x =? 0) = false) ->
    (0 <= eff_indent s)%Z ->
    (eff_indent s < Z.of_nat n)%Z ->
    (eff_indent s < Z.of_N (m_col (sc_mark s)))%Z ->
    (2 * length (si_chars (sc_in s)) + 10 <= F)%nat ->
    exists sp s',
      scan_plain_scalar str_ops F s = Ok ((sp, TScalar Plain (plain_text first more)), s')
      /\ sp_start sp = sc_mark s /\ si_chars (sc_in s') = x :: r /\ sc_lws s' = true /\ sc_ska s' = true.
Proof. exact scan_plain_scalar_sib. Qed.
Print Assumptions C04_plain_sibling_partial.

(* The plain scalar -- EVERY presentation plain_layout_wf false n allows, n >= 1, multi-line included -- is the value of the
   FIRST pair of a two-pair top-level mapping / the FIRST entry of a two-entry top-level sequence:
       kw ": " rendering ws LF kw2 ": " w tail          "- " rendering ws LF "- " w tail
   ws, tail: spaces and line feeds; kw, kw2 one-word plain keys; w a one-line plain scalar of the specification
   (plain_layout_wf false 0 w []); the text holds no NUL (the position theorem of C12 that locates the scanner behind the
   scalar is stated for NUL-free inputs).  The whole model pipeline yields the scalar event with plain_text FOLLOWED BY the
   sibling's events.  Behind the scalar the scanner stands at column 0 of a later line (position invariant MarkOK of
   Proofs/ScanPos.v, established at the scalar by the skeleton lemmas restated with explicit positions), so the simple key
   saved for the scalar is stale and the token is handed out; the stack left by scan_plain_scalar (unchanged, or without the
   one-column raise of "key:") fetches like r3c03's at_tok state. *)
Theorem C04_plain_document_value_sibling : forall kw (n : nat) first more ws kw2 w tail,
  key_ok kw = true -> plain_layout_wf false n first more = true -> (1 <= n)%nat -> ws_only ws = true ->
  key_ok kw2 = true -> plain_layout_wf false 0 w [] = true -> ws_only tail = true ->
  forallb (fun c => negb (c =? 0)) (kw ++ 58 :: 32 :: plain_render first more ++ ws ++ 10 :: kw2 ++ 58 :: 32 :: w ++ tail) = true ->
  map fst (fst (run_str (kw ++ 58 :: 32 :: plain_render first more ++ ws ++ 10 :: kw2 ++ 58 :: 32 :: w ++ tail)))
  = [EStreamStart; EDocumentStart false; EMappingStart 0 None; EScalar kw Plain 0 None; EScalar (plain_text first more) Plain 0 None;
     EScalar kw2 Plain 0 None; EScalar w Plain 0 None; EMappingEnd; EDocumentEnd; EStreamEnd]
  /\ snd (run_str (kw ++ 58 :: 32 :: plain_render first more ++ ws ++ 10 :: kw2 ++ 58 :: 32 :: w ++ tail)) = PDone.
Proof. exact run_plain_value_sib. Qed.
Print Assumptions C04_plain_document_value_sibling.

Theorem C04_plain_document_entry_sibling : forall (n : nat) first more ws w tail,
  plain_layout_wf false n first more = true -> (1 <= n)%nat -> ws_only ws = true ->
  plain_layout_wf false 0 w [] = true -> ws_only tail = true ->
  forallb (fun c => negb (c =? 0)) (45 :: 32 :: plain_render first more ++ ws ++ 10 :: 45 :: 32 :: w ++ tail) = true ->
  map fst (fst (run_str (45 :: 32 :: plain_render first more ++ ws ++ 10 :: 45 :: 32 :: w ++ tail)))
  = [EStreamStart; EDocumentStart false; ESequenceStart 0 None; EScalar (plain_text first more) Plain 0 None; EScalar w Plain 0 None;
     ESequenceEnd; EDocumentEnd; EStreamEnd]
  /\ snd (run_str (45 :: 32 :: plain_render first more ++ ws ++ 10 :: 45 :: 32 :: w ++ tail)) = PDone.
Proof. exact run_plain_entry_sib. Qed.
Print Assumptions C04_plain_document_entry_sibling.

(* instances, every hypothesis evaluated: the three-line scalar of C04_plain_document_instances, a blank and an empty line behind
   it, the sibling "k2: v w" / "- v w" and a final line feed.
   key: -a b <LF><LF>  <TAB>c#d:e<CR><LF>  f <LF><LF>k2: v w<LF> *)
Example C04_plain_document_sibling_instances :
  [107; 101; 121] ++ 58 :: 32 :: plain_render pctx_first pctx_more ++ [32; 10] ++ 10 :: [107; 50] ++ 58 :: 32 :: [118; 32; 119] ++ [10]
  = [107; 101; 121; 58; 32; 45; 97; 32; 98; 32; 10; 10; 32; 32; 9; 99; 35; 100; 58; 101; 13; 10; 32; 32; 102; 32; 10; 10;
     107; 50; 58; 32; 118; 32; 119; 10] /\
  map fst (fst (run_str ([107; 101; 121] ++ 58 :: 32 :: plain_render pctx_first pctx_more ++ [32; 10] ++ 10 :: [107; 50] ++ 58 :: 32 :: [118; 32; 119] ++ [10])))
  = [EStreamStart; EDocumentStart false; EMappingStart 0 None; EScalar [107; 101; 121] Plain 0 None;
     EScalar [45; 97; 32; 98; 10; 99; 35; 100; 58; 101; 32; 102] Plain 0 None;
     EScalar [107; 50] Plain 0 None; EScalar [118; 32; 119] Plain 0 None; EMappingEnd; EDocumentEnd; EStreamEnd] /\
  map fst (fst (run_str (45 :: 32 :: plain_render pctx_first pctx_more ++ [32; 10] ++ 10 :: 45 :: 32 :: [118; 32; 119] ++ [10])))
  = [EStreamStart; EDocumentStart false; ESequenceStart 0 None; EScalar [45; 97; 32; 98; 10; 99; 35; 100; 58; 101; 32; 102] Plain 0 None;
     EScalar [118; 32; 119] Plain 0 None; ESequenceEnd; EDocumentEnd; EStreamEnd] /\
  (* one-line scalars: "k: a<LF>j: b" (no final line break) *)
  map fst (fst (run_str ([107] ++ 58 :: 32 :: plain_render [97] [] ++ [] ++ 10 :: [106] ++ 58 :: 32 :: [98] ++ [])))
  = [EStreamStart; EDocumentStart false; EMappingStart 0 None; EScalar [107] Plain 0 None; EScalar [97] Plain 0 None;
     EScalar [106] Plain 0 None; EScalar [98] Plain 0 None; EMappingEnd; EDocumentEnd; EStreamEnd].
Proof.
  split; [reflexivity|].
  split; [exact (proj1 (run_plain_value_sib [107; 101; 121] 2 pctx_first pctx_more [32; 10] [107; 50] [118; 32; 119] [10]
                          eq_refl eq_refl ltac:(repeat constructor) eq_refl eq_refl eq_refl eq_refl eq_refl))|].
  split; [exact (proj1 (run_plain_entry_sib 2 pctx_first pctx_more [32; 10] [118; 32; 119] [10]
                          eq_refl ltac:(repeat constructor) eq_refl eq_refl eq_refl eq_refl))|].
  exact (proj1 (run_plain_value_sib [107] 1 [97] [] [] [106] [98] [] eq_refl eq_refl ltac:(repeat constructor) eq_refl eq_refl eq_refl eq_refl eq_refl)).
Qed.

(* ---- T10: a FOLLOWER behind a quoted scalar in document context (Proofs/ScalarContext2Quoted*.v) --------------------- *)
(* T5 / C04_quoted_ws_partial for every follower whose first character behind the blanks is a line feed or the end of the
   input (single-quoted: the closing quote is not followed by a quote), WITH the input that is left. *)
Theorem C04_quoted_brk_partial :
  forall (F : nat) (single : bool) (n : nat) (first : list dq_item) (more : list (brk_layout * list dq_item))
         (rest : list N) (s : sc strin),
    (if single then sq_layout_wf n first more else dq_layout_wf n first more) = true ->
    let src := if single then sq_render first more else dq_render first more in
    si_chars (sc_in s) = quote_of single :: src ++ quote_of single :: rest ->
    (nth 0 (drop_leading rest) 0 = 0 \/ nth 0 (drop_leading rest) 0 = 10) ->
    (single = true -> (nth 0 rest 0 =? 39) = false) ->
    (sc_indent s < Z.of_nat n)%Z ->
    (sc_indent s <= Z.of_N (m_col (sc_mark s)) + 1)%Z ->
    (2 * length (si_chars (sc_in s)) + 10 <= F)%nat ->
    exists sp s',
      scan_flow_scalar str_ops F single s = Ok ((sp, TScalar (style_of single) (dq_text first more)), s')
      /\ sp_start sp = sc_mark s /\ si_chars (sc_in s') = drop_leading rest.
Proof. exact scan_flow_scalar_brk. Qed.
Print Assumptions C04_quoted_brk_partial.

(* The quoted scalar -- single or double, EVERY presentation sq_layout_wf n / dq_layout_wf n allow -- is the value of the FIRST
   pair of a two-pair top-level mapping (n >= 2) / the FIRST entry of a two-entry top-level sequence (n >= 1):
       kw ": " quote rendering quote ws LF kw2 ": " w tail          "- " quote rendering quote ws LF "- " w tail
   with ws, tail, kw, kw2, w and the NUL-freeness as in T9.  fetch_flow_scalar itself skips to the sibling line
   (skip_to_next_token: the line feed allows a simple key there); the position behind it comes from the position invariant
   through scan_flow_scalar and skip_to_next_token. *)
Theorem C04_quoted_document_value_sibling : forall kw (single : bool) (n : nat) first more ws kw2 w tail,
  key_ok kw = true -> (if single then sq_layout_wf n first more else dq_layout_wf n first more) = true -> (2 <= n)%nat ->
  ws_only ws = true -> key_ok kw2 = true -> plain_layout_wf false 0 w [] = true -> ws_only tail = true ->
  forallb (fun c => negb (c =? 0)) (kw ++ 58 :: 32 :: q_text single first more (ws ++ 10 :: kw2 ++ 58 :: 32 :: w ++ tail)) = true ->
  map fst (fst (run_str (kw ++ 58 :: 32 :: q_text single first more (ws ++ 10 :: kw2 ++ 58 :: 32 :: w ++ tail))))
  = [EStreamStart; EDocumentStart false; EMappingStart 0 None; EScalar kw Plain 0 None;
     EScalar (dq_text first more) (style_of single) 0 None;
     EScalar kw2 Plain 0 None; EScalar w Plain 0 None; EMappingEnd; EDocumentEnd; EStreamEnd]
  /\ snd (run_str (kw ++ 58 :: 32 :: q_text single first more (ws ++ 10 :: kw2 ++ 58 :: 32 :: w ++ tail))) = PDone.
Proof. exact run_quoted_value_sib. Qed.
Print Assumptions C04_quoted_document_value_sibling.

Theorem C04_quoted_document_entry_sibling : forall (single : bool) (n : nat) first more ws w tail,
  (if single then sq_layout_wf n first more else dq_layout_wf n first more) = true -> (1 <= n)%nat ->
  ws_only ws = true -> plain_layout_wf false 0 w [] = true -> ws_only tail = true ->
  forallb (fun c => negb (c =? 0)) (45 :: 32 :: q_text single first more (ws ++ 10 :: 45 :: 32 :: w ++ tail)) = true ->
  map fst (fst (run_str (45 :: 32 :: q_text single first more (ws ++ 10 :: 45 :: 32 :: w ++ tail))))
  = [EStreamStart; EDocumentStart false; ESequenceStart 0 None; EScalar (dq_text first more) (style_of single) 0 None;
     EScalar w Plain 0 None; ESequenceEnd; EDocumentEnd; EStreamEnd]
  /\ snd (run_str (45 :: 32 :: q_text single first more (ws ++ 10 :: 45 :: 32 :: w ++ tail))) = PDone.
Proof. exact run_quoted_entry_sib. Qed.
Print Assumptions C04_quoted_document_entry_sibling.

(* instances, every hypothesis evaluated: the three-line double-quoted scalar of C04_quoted_document_instances, a blank behind
   the closing quote, an empty line, the sibling "k2: v w" / "- v w";  a single-quoted entry with '' and a CR LF fold *)
Example C04_quoted_document_sibling_instances :
  [107; 101; 121] ++ 58 :: 32 :: q_text false ctx_first ctx_more ([32; 10] ++ 10 :: [107; 50] ++ 58 :: 32 :: [118; 32; 119] ++ [10])
  = [107; 101; 121; 58; 32; 34; 97; 32; 92; 116; 32; 10; 10; 32; 32; 9; 98; 32; 92; 10; 32; 32; 92; 120; 52; 49; 34; 32; 10; 10;
     107; 50; 58; 32; 118; 32; 119; 10] /\
  map fst (fst (run_str ([107; 101; 121] ++ 58 :: 32 :: q_text false ctx_first ctx_more ([32; 10] ++ 10 :: [107; 50] ++ 58 :: 32 :: [118; 32; 119] ++ [10]))))
  = [EStreamStart; EDocumentStart false; EMappingStart 0 None; EScalar [107; 101; 121] Plain 0 None;
     EScalar [97; 32; 9; 10; 98; 32; 65] DoubleQuoted 0 None;
     EScalar [107; 50] Plain 0 None; EScalar [118; 32; 119] Plain 0 None; EMappingEnd; EDocumentEnd; EStreamEnd] /\
  45 :: 32 :: q_text true [ILit 105; ILit 116; ILit 39; ILit 115] [(ctx_c, [ILit 115; ILit 111])] ([] ++ 10 :: 45 :: 32 :: [118] ++ [])
  = [45; 32; 39; 105; 116; 39; 39; 115; 13; 10; 32; 115; 111; 39; 10; 45; 32; 118] /\
  map fst (fst (run_str (45 :: 32 :: q_text true [ILit 105; ILit 116; ILit 39; ILit 115] [(ctx_c, [ILit 115; ILit 111])] ([] ++ 10 :: 45 :: 32 :: [118] ++ []))))
  = [EStreamStart; EDocumentStart false; ESequenceStart 0 None; EScalar [105; 116; 39; 115; 32; 115; 111] SingleQuoted 0 None;
     EScalar [118] Plain 0 None; ESequenceEnd; EDocumentEnd; EStreamEnd].
Proof.
  split; [reflexivity|].
  split; [exact (proj1 (run_quoted_value_sib [107; 101; 121] false 2 ctx_first ctx_more [32; 10] [107; 50] [118; 32; 119] [10]
                          eq_refl eq_refl ltac:(repeat constructor) eq_refl eq_refl eq_refl eq_refl eq_refl))|].
  split; [reflexivity|].
  exact (proj1 (run_quoted_entry_sib true 1 [ILit 105; ILit 116; ILit 39; ILit 115] [(ctx_c, [ILit 115; ILit 111])] [] [118] []
                  eq_refl ltac:(repeat constructor) eq_refl eq_refl eq_refl eq_refl)).
Qed.
