(* C12 — Reported positions are true positions in the input.
   Spec: Spec/Positions.v (pos_at: line = 1 + breaks before the index, CR LF counted once; col = characters since
   the last break; marker_ok).  The scanner-side invariant "mark = pos_at consumed" is monitored on every run
   (extracted marker_ok applied to every marker the implementation reports); what is a theorem today is the
   characterisation of the recount itself, which makes the oracle trustworthy. *)
From Coq Require Import List NArith Bool.
Import ListNotations.
Require Import Positions PosProofs.
Open Scope N_scope.

(* In a CR-free input made of complete lines [ls] followed by a partial line [cur], the j-th character of [cur]
   is at line 1 + |ls|, column j: the recount is exactly "count line breaks and characters". *)
Theorem C12_recount_is_line_and_column : forall ls cur rest j,
  Forall is_line ls -> Forall (fun c => c <> 13) (concat ls ++ cur ++ rest) ->
  Forall (fun c => c <> 10) cur -> (j <= length cur)%nat ->
  pos_at (concat ls ++ cur ++ rest) (N.of_nat (length (concat ls) + j)) = (1 + N.of_nat (length ls), N.of_nat j).
Proof. exact pos_line_col. Qed.
Print Assumptions C12_recount_is_line_and_column.

Example C12_example : pos_at [97; 10; 98; 99; 13; 10; 100] 6 = (3, 0) /\ marker_ok [97; 10; 98] 2 2 0 = true
                      /\ marker_ok [97; 10; 98] 2 2 1 = false.
Proof. vm_compute. repeat split. Qed.
