(* C12 — Reported positions are true positions in the input.
   Spec: Spec/Positions.v (pos_at: line = 1 + breaks before the index, CR LF counted once; col = characters since
   the last break; marker_ok).  Three theorems: the characterisation of the recount itself (which makes the oracle
   trustworthy), and - for EVERY NUL-free input and every fuel - every token span of the scanner model and every
   event span and error marker of the whole model pipeline is made of true positions (joint proof ScanPos*.v: the
   invariant "the mark is the recount of the characters consumed" carried through every scanner function, true
   marks carried through the token queue, the simple-key table and every parser state).
   The extracted marker_ok is applied to every marker the implementation reports on every run. *)
From Coq Require Import List NArith Bool.
Import ListNotations.
Require Import Parser SBase SBuf SFetch Pipe Positions PosProofs ScanPos ScanPosTop BufferedTransfer.
Open Scope N_scope.

(* In a CR-free input made of complete lines [ls] followed by a partial line [cur], the j-th character of [cur]
   is at line 1 + |ls|, column j: the recount is exactly "count line breaks and characters". *)
Theorem C12_recount_is_line_and_column : forall ls cur rest j,
  Forall is_line ls -> Forall (fun c => c <> 13) (concat ls ++ cur ++ rest) ->
  Forall (fun c => c <> 10) cur -> (j <= length cur)%nat ->
  pos_at (concat ls ++ cur ++ rest) (N.of_nat (length (concat ls) + j)) = (1 + N.of_nat (length ls), N.of_nat j).
Proof. exact pos_line_col. Qed.
Print Assumptions C12_recount_is_line_and_column.

Example C12_example : pos_at [97; 10; 98; 99; 13; 10; 100] 6 = (3, 0) /\ marker_ok [97; 10; 98] 2 2 0 = true
                      /\ marker_ok [97; 10; 98] 2 2 1 = false.
Proof. vm_compute. repeat split. Qed.

(* Every span of every token the scanner produces, and the marker of the error it may end with, are true positions
   of the input (index within the input; line and column equal to the recount) - any NUL-free input, any fuel. *)
Theorem C12_scanner_positions_true : forall orig, Forall (fun c => c <> 0%N) orig -> forall F fuel,
  let '(toks, se) := scan_all str_ops F fuel (init_sc {| si_chars := orig; si_look := 0 |}) [] in
  Forall (true_tok orig) toks /\ (forall site m, se = SError site m -> true_mark orig m).
Proof. exact scanner_positions_true. Qed.
Print Assumptions C12_scanner_positions_true.

(* The same for the whole pipeline: every event span, the scan error and the parse error.  (site 0 is the
   placeholder the model uses for "unexpected end of tokens", which carries no position.) *)
Theorem C12_pipeline_positions_true : forall orig, Forall (fun c => c <> 0%N) orig ->
  let '(evs, r) := run_str orig in
  Forall (fun es => true_span orig (snd es)) evs
  /\ (forall site m, r = PScanErr site m -> site <> 0%N -> true_mark orig m)
  /\ (forall site m, r = PParseErr site m -> true_mark orig m).
Proof. exact pipeline_positions_true. Qed.
Print Assumptions C12_pipeline_positions_true.

(* non-vacuity: a NUL-free input with breaks of all three kinds, tokens on several lines *)
Example C12_pipeline_example :
  let orig := [97; 58; 10; 32; 32; 45; 32; 98; 13; 10; 32; 32; 45; 32; 99; 13; 100; 58; 32; 101] in
  forallb (fun c => negb (c =? 0)) orig = true /\ snd (run_str orig) = PDone /\ length (fst (run_str orig)) = 13%nat.
Proof. vm_compute. repeat split. Qed.

(* The same over the BUFFERED input back-end of ANY capacity >= 8 (Parser::new_from_iter, Yaml::load_from_str):
   unconditionally, since the buffered pipeline returns exactly what the string pipeline returns
   (C10_pipeline_backends_equal; bounded work is proved for the buffered instance too: C01_pipeline_terminates_linear_buffered). *)
Theorem C12_pipeline_positions_true_buffered : forall (orig : list N) cap,
  (8 <= cap)%nat -> Forall (fun c => c <> 0%N) orig ->
  let '(evs, r) := run_buf cap orig in
  Forall (fun es => true_span orig (snd es)) evs
  /\ (forall site m, r = PScanErr site m -> site <> 0%N -> true_mark orig m)
  /\ (forall site m, r = PParseErr site m -> true_mark orig m).
Proof. exact pipeline_positions_true_buffered_total. Qed.
Print Assumptions C12_pipeline_positions_true_buffered.

Example C12_buffered_example :
  let orig := [97; 58; 10; 32; 32; 45; 32; 98; 13; 10; 32; 32; 45; 32; 99; 13; 100; 58; 32; 101] in
  snd (run_buf 8 orig) = PDone /\ snd (run_buf 16 orig) = PDone /\ run_buf 16 orig = run_str orig.
Proof. vm_compute. repeat split. Qed.
