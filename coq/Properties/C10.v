(* C10 — All input back-ends behave identically.  (theorems: Proofs/InputRefine.v) *)
From Coq Require Import List NArith Bool.
Import ListNotations.
Require Import Parser SBase SFetch Pipe SBuf InputRefine ScanWP ScanSafeTop ScanRelTop ScanRelAll ScanFuelBufAll.
Open Scope nat_scope.

(* Per-operation refinement between the buffered input of any capacity and the string input: related states
   answer every in-contract operation identically and stay related. *)
Theorem C10_peek_nth : forall cap s b n, Rel s b -> n < length (b_buf b) ->
  peek_nth (buf_ops cap) n b = peek_nth str_ops n s.
Proof. exact rel_peek_nth. Qed.
Print Assumptions C10_peek_nth.

Theorem C10_skip : forall cap s b, Rel s b -> b_buf b <> [] -> Rel (skip1 str_ops s) (skip1 (buf_ops cap) b).
Proof. exact rel_skip1. Qed.
Print Assumptions C10_skip.

(* Every capacity >= 8 honours the scanner's lookahead discipline: on no input does the buffered instance hit a
   contract violation (this is what makes "any input source that honours the input contract" meaningful). *)
Theorem C10_lookahead_discipline : forall cap, (8 <= cap)%nat -> forall input n,
  snd (run_buf cap input) <> PPanic n.
Proof. exact pipeline_never_panics_buffered. Qed.
Print Assumptions C10_lookahead_discipline.

(* VALUE LEVEL.  For every input and every capacity >= 8, the scanner model over the buffered input and over the
   string input deliver the same token list (same kinds, text, spans) and the same end (SEnded, or the same error
   site at the same marker) - for ALL fuels; the only escape is a run that breaks off (fuel; the buffered side never
   panics by C10_lookahead_discipline), and then the run that broke off has delivered a PREFIX of the other one.
   scan_agree r1 r2 := r1 = r2 \/ (se_bad (snd r1) /\ fst r1 prefix of fst r2) \/ (se_bad (snd r2) /\ fst r2 prefix of fst r1). *)
Theorem C10_scanner_backends_agree : forall (orig : list chr) cap, (8 <= cap)%nat -> forall F K,
  scan_agree (scan_all str_ops F K (init_sc {| si_chars := orig; si_look := 0 |}) [])
             (scan_all (buf_ops cap) F K (init_sc {| b_buf := []; b_rest := orig |}) []).
Proof. exact scan_backends_agree. Qed.
Print Assumptions C10_scanner_backends_agree.

Theorem C10_scanner_backends_equal : forall (orig : list chr) cap, (8 <= cap)%nat -> forall F K,
  se_proper (snd (scan_all str_ops F K (init_sc {| si_chars := orig; si_look := 0 |}) [])) ->
  se_proper (snd (scan_all (buf_ops cap) F K (init_sc {| b_buf := []; b_rest := orig |}) [])) ->
  scan_all str_ops F K (init_sc {| si_chars := orig; si_look := 0 |}) [] =
  scan_all (buf_ops cap) F K (init_sc {| b_buf := []; b_rest := orig |}) [].
Proof. exact scan_backends_equal. Qed.
Print Assumptions C10_scanner_backends_equal.

(* The whole pipelines (scanner + parser): same events with the same spans and the same end (PDone, or the same
   scan / parse error at the same marker), unless the string run ends in fuel or panic, or the buffered run in fuel. *)
Theorem C10_pipeline_backends_agree : forall (orig : list N) cap, (8 <= cap)%nat ->
  run_str orig = run_buf cap orig \/ pend_bad (snd (run_str orig)) \/ snd (run_buf cap orig) = PFuel.
Proof. exact pipeline_backends_agree. Qed.
Print Assumptions C10_pipeline_backends_agree.

(* non-vacuity: a run where both sides end properly and agree *)
Example C10_agree_example :
  run_str [97; 58; 32; 91; 98; 44; 32; 34; 99; 34; 93; 10]%N = run_buf 8 [97; 58; 32; 91; 98; 44; 32; 34; 99; 34; 93; 10]%N
  /\ snd (run_str [97; 58; 32; 91; 98; 44; 32; 34; 99; 34; 93; 10]%N) = PDone.
Proof. vm_compute. split; reflexivity. Qed.

(* with total correctness of the string run (C01_pipeline_ends_properly): equal results unless the BUFFERED run exhausts
   its fuel (bounded work is proved for the string instance only) *)
Theorem C10_pipeline_backends_agree_total : forall (orig : list N) cap, (8 <= cap)%nat ->
  run_str orig = run_buf cap orig \/ snd (run_buf cap orig) = PFuel.
Proof. exact pipeline_backends_agree_total. Qed.
Print Assumptions C10_pipeline_backends_agree_total.

(* ... and with bounded work proved for the BUFFERED instance too (C01_pipeline_terminates_linear_buffered; fuel transfer
   through the strengthened relational calculus of Proofs/ScanFuelBuf.v) NO exception is left: for every input and every
   capacity >= 8 the buffered pipeline (the back-end behind Parser::new_from_iter and Yaml::load_from_str at capacity 16)
   returns exactly what the string pipeline returns - same events, same spans, same end. *)
Theorem C10_pipeline_backends_equal : forall cap (x : list N), (8 <= cap)%nat -> run_buf cap x = run_str x.
Proof. exact pipeline_backends_equal. Qed.
Print Assumptions C10_pipeline_backends_equal.

(* the scanners alone, with the fuels of the pipelines: the same token list and the same end *)
Theorem C10_scanner_backends_equal_total : forall cap (orig : list chr), (8 <= cap)%nat ->
  let F := (2 * length orig + 10)%nat in
  scan_all (buf_ops cap) F (4 * F + 20) (init_sc {| b_buf := []; b_rest := orig |}) []
  = scan_all str_ops F (4 * F + 20) (init_sc {| si_chars := orig; si_look := 0 |}) [].
Proof. exact scanner_backends_equal. Qed.
Print Assumptions C10_scanner_backends_equal_total.

(* non-vacuity: capacity 8 on a plain scalar much longer than the chunk (refresh every 7 characters) and a block scalar
   indented beyond capacity - 2 (the wide path of skip_block_scalar_indent) *)
Example C10_equal_example :
  let x := [97;98;99;100;101;102;103;104;105;106;107;108;109;110;111;112;113;114;115;116;117;118;119;120;121;122;58;32;124;10;
            32;32;32;32;32;32;32;32;32;32;120;10;32;32;32;32;32;32;32;32;32;32;121;10]%N in
  run_buf 8 x = run_str x /\ snd (run_buf 8 x) = PDone.
Proof. vm_compute. split; reflexivity. Qed.
