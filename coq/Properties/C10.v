(* C10 — All input back-ends behave identically.  (theorems: Proofs/InputRefine.v) *)
From Coq Require Import List NArith Bool.
Import ListNotations.
Require Import Parser SBase SFetch Pipe SBuf InputRefine ScanWP ScanSafeTop ScanRelTop ScanRelAll.
Open Scope nat_scope.

(* Per-operation refinement between the buffered input of any capacity and the string input: related states
   answer every in-contract operation identically and stay related. *)
Theorem C10_peek_nth : forall cap s b n, Rel s b -> n < length (b_buf b) ->
  peek_nth (buf_ops cap) n b = peek_nth str_ops n s.
Proof. exact rel_peek_nth. Qed.
Print Assumptions C10_peek_nth.

Theorem C10_skip : forall cap s b, Rel s b -> b_buf b <> [] -> Rel (skip1 str_ops s) (skip1 (buf_ops cap) b).
Proof. exact rel_skip1. Qed.
Print Assumptions C10_skip.

(* Every capacity >= 8 honours the scanner's lookahead discipline: on no input does the buffered instance hit a
   contract violation (this is what makes "any input source that honours the input contract" meaningful). *)
Theorem C10_lookahead_discipline : forall cap, (8 <= cap)%nat -> forall input n,
  snd (run_buf cap input) <> PPanic n.
Proof. exact pipeline_never_panics_buffered. Qed.
Print Assumptions C10_lookahead_discipline.

(* VALUE LEVEL.  For every input and every capacity >= 8, the scanner model over the buffered input and over the
   string input deliver the same token list (same kinds, text, spans) and the same end (SEnded, or the same error
   site at the same marker) - for ALL fuels; the only escape is a run that breaks off (fuel; the buffered side never
   panics by C10_lookahead_discipline), and then the run that broke off has delivered a PREFIX of the other one.
   scan_agree r1 r2 := r1 = r2 \/ (se_bad (snd r1) /\ fst r1 prefix of fst r2) \/ (se_bad (snd r2) /\ fst r2 prefix of fst r1). *)
Theorem C10_scanner_backends_agree : forall (orig : list chr) cap, (8 <= cap)%nat -> forall F K,
  scan_agree (scan_all str_ops F K (init_sc {| si_chars := orig; si_look := 0 |}) [])
             (scan_all (buf_ops cap) F K (init_sc {| b_buf := []; b_rest := orig |}) []).
Proof. exact scan_backends_agree. Qed.
Print Assumptions C10_scanner_backends_agree.

Theorem C10_scanner_backends_equal : forall (orig : list chr) cap, (8 <= cap)%nat -> forall F K,
  se_proper (snd (scan_all str_ops F K (init_sc {| si_chars := orig; si_look := 0 |}) [])) ->
  se_proper (snd (scan_all (buf_ops cap) F K (init_sc {| b_buf := []; b_rest := orig |}) [])) ->
  scan_all str_ops F K (init_sc {| si_chars := orig; si_look := 0 |}) [] =
  scan_all (buf_ops cap) F K (init_sc {| b_buf := []; b_rest := orig |}) [].
Proof. exact scan_backends_equal. Qed.
Print Assumptions C10_scanner_backends_equal.

(* The whole pipelines (scanner + parser): same events with the same spans and the same end (PDone, or the same
   scan / parse error at the same marker), unless the string run ends in fuel or panic, or the buffered run in fuel. *)
Theorem C10_pipeline_backends_agree : forall (orig : list N) cap, (8 <= cap)%nat ->
  run_str orig = run_buf cap orig \/ pend_bad (snd (run_str orig)) \/ snd (run_buf cap orig) = PFuel.
Proof. exact pipeline_backends_agree. Qed.
Print Assumptions C10_pipeline_backends_agree.

(* non-vacuity: a run where both sides end properly and agree *)
Example C10_agree_example :
  run_str [97; 58; 32; 91; 98; 44; 32; 34; 99; 34; 93; 10]%N = run_buf 8 [97; 58; 32; 91; 98; 44; 32; 34; 99; 34; 93; 10]%N
  /\ snd (run_str [97; 58; 32; 91; 98; 44; 32; 34; 99; 34; 93; 10]%N) = PDone.
Proof. vm_compute. split; reflexivity. Qed.

(* with total correctness of the string run (C01_pipeline_ends_properly): equal results unless the BUFFERED run exhausts
   its fuel (bounded work is proved for the string instance only) *)
Theorem C10_pipeline_backends_agree_total : forall (orig : list N) cap, (8 <= cap)%nat ->
  run_str orig = run_buf cap orig \/ snd (run_buf cap orig) = PFuel.
Proof. exact pipeline_backends_agree_total. Qed.
Print Assumptions C10_pipeline_backends_agree_total.
