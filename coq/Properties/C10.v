(* C10 — All input back-ends behave identically.  (theorems: Proofs/InputRefine.v) *)
From Coq Require Import List NArith Bool.
Import ListNotations.
Require Import Parser SBase SPrim SFetch Pipe SBuf InputRefine ScanWP ScanSafeTop ScanRelTop ScanRelAll ScanFuelBufAll.
Require Import TagSpec StrBytes StrBytesProofs StrBytesSim.
Open Scope nat_scope.

(* Per-operation refinement between the buffered input of any capacity and the string input: related states
   answer every in-contract operation identically and stay related. *)
Theorem C10_peek_nth : forall cap s b n, Rel s b -> n < length (b_buf b) ->
  peek_nth (buf_ops cap) n b = peek_nth str_ops n s.
Proof. exact rel_peek_nth. Qed.
Print Assumptions C10_peek_nth.

Theorem C10_skip : forall cap s b, Rel s b -> b_buf b <> [] -> Rel (skip1 str_ops s) (skip1 (buf_ops cap) b).
Proof. exact rel_skip1. Qed.
Print Assumptions C10_skip.

(* Every capacity >= 8 honours the scanner's lookahead discipline: on no input does the buffered instance hit a
   contract violation (this is what makes "any input source that honours the input contract" meaningful). *)
Theorem C10_lookahead_discipline : forall cap, (8 <= cap)%nat -> forall input n,
  snd (run_buf cap input) <> PPanic n.
Proof. exact pipeline_never_panics_buffered. Qed.
Print Assumptions C10_lookahead_discipline.

(* VALUE LEVEL.  For every input and every capacity >= 8, the scanner model over the buffered input and over the
   string input deliver the same token list (same kinds, text, spans) and the same end (SEnded, or the same error
   site at the same marker) - for ALL fuels; the only escape is a run that breaks off (fuel; the buffered side never
   panics by C10_lookahead_discipline), and then the run that broke off has delivered a PREFIX of the other one.
   scan_agree r1 r2 := r1 = r2 \/ (se_bad (snd r1) /\ fst r1 prefix of fst r2) \/ (se_bad (snd r2) /\ fst r2 prefix of fst r1). *)
Theorem C10_scanner_backends_agree : forall (orig : list chr) cap, (8 <= cap)%nat -> forall F K,
  scan_agree (scan_all str_ops F K (init_sc {| si_chars := orig; si_look := 0 |}) [])
             (scan_all (buf_ops cap) F K (init_sc {| b_buf := []; b_rest := orig |}) []).
Proof. exact scan_backends_agree. Qed.
Print Assumptions C10_scanner_backends_agree.

Theorem C10_scanner_backends_equal : forall (orig : list chr) cap, (8 <= cap)%nat -> forall F K,
  se_proper (snd (scan_all str_ops F K (init_sc {| si_chars := orig; si_look := 0 |}) [])) ->
  se_proper (snd (scan_all (buf_ops cap) F K (init_sc {| b_buf := []; b_rest := orig |}) [])) ->
  scan_all str_ops F K (init_sc {| si_chars := orig; si_look := 0 |}) [] =
  scan_all (buf_ops cap) F K (init_sc {| b_buf := []; b_rest := orig |}) [].
Proof. exact scan_backends_equal. Qed.
Print Assumptions C10_scanner_backends_equal.

(* The whole pipelines (scanner + parser): same events with the same spans and the same end (PDone, or the same
   scan / parse error at the same marker), unless the string run ends in fuel or panic, or the buffered run in fuel. *)
Theorem C10_pipeline_backends_agree : forall (orig : list N) cap, (8 <= cap)%nat ->
  run_str orig = run_buf cap orig \/ pend_bad (snd (run_str orig)) \/ snd (run_buf cap orig) = PFuel.
Proof. exact pipeline_backends_agree. Qed.
Print Assumptions C10_pipeline_backends_agree.

(* non-vacuity: a run where both sides end properly and agree *)
Example C10_agree_example :
  run_str [97; 58; 32; 91; 98; 44; 32; 34; 99; 34; 93; 10]%N = run_buf 8 [97; 58; 32; 91; 98; 44; 32; 34; 99; 34; 93; 10]%N
  /\ snd (run_str [97; 58; 32; 91; 98; 44; 32; 34; 99; 34; 93; 10]%N) = PDone.
Proof. vm_compute. split; reflexivity. Qed.

(* with total correctness of the string run (C01_pipeline_ends_properly): equal results unless the BUFFERED run exhausts
   its fuel (bounded work is proved for the string instance only) *)
Theorem C10_pipeline_backends_agree_total : forall (orig : list N) cap, (8 <= cap)%nat ->
  run_str orig = run_buf cap orig \/ snd (run_buf cap orig) = PFuel.
Proof. exact pipeline_backends_agree_total. Qed.
Print Assumptions C10_pipeline_backends_agree_total.

(* ... and with bounded work proved for the BUFFERED instance too (C01_pipeline_terminates_linear_buffered; fuel transfer
   through the strengthened relational calculus of Proofs/ScanFuelBuf.v) NO exception is left: for every input and every
   capacity >= 8 the buffered pipeline (the back-end behind Parser::new_from_iter and Yaml::load_from_str at capacity 16)
   returns exactly what the string pipeline returns - same events, same spans, same end. *)
Theorem C10_pipeline_backends_equal : forall cap (x : list N), (8 <= cap)%nat -> run_buf cap x = run_str x.
Proof. exact pipeline_backends_equal. Qed.
Print Assumptions C10_pipeline_backends_equal.

(* the scanners alone, with the fuels of the pipelines: the same token list and the same end *)
Theorem C10_scanner_backends_equal_total : forall cap (orig : list chr), (8 <= cap)%nat ->
  let F := (2 * length orig + 10)%nat in
  scan_all (buf_ops cap) F (4 * F + 20) (init_sc {| b_buf := []; b_rest := orig |}) []
  = scan_all str_ops F (4 * F + 20) (init_sc {| si_chars := orig; si_look := 0 |}) [].
Proof. exact scanner_backends_equal. Qed.
Print Assumptions C10_scanner_backends_equal_total.

(* non-vacuity: capacity 8 on a plain scalar much longer than the chunk (refresh every 7 characters) and a block scalar
   indented beyond capacity - 2 (the wide path of skip_block_scalar_indent) *)
Example C10_equal_example :
  let x := [97;98;99;100;101;102;103;104;105;106;107;108;109;110;111;112;113;114;115;116;117;118;119;120;121;122;58;32;124;10;
            32;32;32;32;32;32;32;32;32;32;120;10;32;32;32;32;32;32;32;32;32;32;121;10]%N in
  run_buf 8 x = run_str x /\ snd (run_buf 8 x) = PDone.
Proof. vm_compute. split; reflexivity. Qed.

(* ------------------------------------------------------------------------------------------------------------------
   BYTE LEVEL.  `StrInput` (parser/src/input/str.rs) overrides most provided methods of `Input` with fast paths on the
   bytes of the `&str`.  Model/StrBytes.v transliterates every method of `impl Input for StrInput` at byte level
   (state: the remaining bytes + the lookahead counter; Rust panics are explicit outcomes); the theorems below say that
   on the UTF-8 encoding of ANY text of Unicode scalar values each of them never panics and returns exactly what the
   character-level instance [str_ops] / the generic provided-method definition of Model/SPrim.v returns: the same
   boolean / character / COUNT of characters, and the remaining bytes are the encoding of the remaining characters.
     RB s b := sb_bytes b = bytes_of (si_chars s) /\ scalars (si_chars s) /\ look_rel (si_look s) (sb_look b)
     q_refines pre g f := forall s b, RB (sc_in s) b -> pre s -> exists a, g s = Ok (a, s) /\ f b = Ok a
     m_refines pre g f := forall s b, RB (sc_in s) b -> pre s ->
                          exists a i' b', g s = Ok (a, set_in i' s) /\ f b = Ok (a, b') /\ RB i' b'
   ------------------------------------------------------------------------------------------------------------------ *)
Open Scope N_scope.

(* the required methods (= the primitives of InputOps) of the byte-level instance against the character-level one *)
Theorem C10_bytes_primitives : forall s b, RB s b ->
  (forall n, exists s' b', lookahead str_ops n s = Ok s' /\ lookahead bytes_ops n b = Ok b' /\ RB s' b')
  /\ look_rel (buflen str_ops s) (buflen bytes_ops b)
  /\ ((1 <= buflen bytes_ops b)%nat -> buflen bytes_ops b = buflen str_ops s)
  /\ bufmaxlen bytes_ops = bufmaxlen str_ops
  /\ (forall n, peek_nth bytes_ops n b = peek_nth str_ops n s)
  /\ RB (skip1 str_ops s) (skip1 bytes_ops b)
  /\ (forall n, exists s' b', skip_n str_ops n s = Ok s' /\ skip_n bytes_ops n b = Ok b' /\ RB s' b')
  /\ (exists o s' b', raw_read_non_breakz str_ops s = Ok (o, s') /\ raw_read_non_breakz bytes_ops b = Ok (o, b') /\ RB s' b').
Proof. exact bytes_ops_refines_str_ops. Qed.
Print Assumptions C10_bytes_primitives.

(* the most delicate overrides, one by one *)
Theorem C10_bytes_next_can_be_plain_scalar : forall fl,
  q_refines nonempty_in (next_can_be_plain_scalar str_ops fl) (sb_next_can_be_plain_scalar fl).
Proof. exact sb_next_can_be_plain_scalar_refines. Qed.
Print Assumptions C10_bytes_next_can_be_plain_scalar.

Theorem C10_bytes_next_is_document_indicator :
  q_refines (looked 4) (next_is_document_indicator str_ops) sb_next_is_document_indicator.
Proof. exact sb_next_is_document_indicator_refines. Qed.
Print Assumptions C10_bytes_next_is_document_indicator.

Theorem C10_bytes_next_is_document_start :
  q_refines (looked 4) (next_is_document_start str_ops) sb_next_is_document_start.
Proof. exact sb_next_is_document_start_refines. Qed.
Print Assumptions C10_bytes_next_is_document_start.

Theorem C10_bytes_next_is_document_end :
  q_refines (looked 4) (next_is_document_end str_ops) sb_next_is_document_end.
Proof. exact sb_next_is_document_end_refines. Qed.
Print Assumptions C10_bytes_next_is_document_end.

Theorem C10_bytes_skip_ws_to_eol : forall fuel st,
  m_refines (fun s => (length (si_chars (sc_in s)) < fuel)%nat)
            (in_skip_ws_to_eol str_ops fuel st false false 0) (sb_skip_ws_to_eol st).
Proof. exact sb_skip_ws_to_eol_refines. Qed.
Print Assumptions C10_bytes_skip_ws_to_eol.

Theorem C10_bytes_skip_while_non_breakz : forall fuel,
  m_refines (fun s => (length (si_chars (sc_in s)) < fuel)%nat) (in_skip_while_non_breakz str_ops fuel) sb_skip_while_non_breakz.
Proof. exact sb_skip_while_non_breakz_refines. Qed.
Print Assumptions C10_bytes_skip_while_non_breakz.

Theorem C10_bytes_skip_while_blank : forall fuel,
  m_refines (fun s => (length (si_chars (sc_in s)) < fuel)%nat) (in_skip_while_blank str_ops fuel) sb_skip_while_blank.
Proof. exact sb_skip_while_blank_refines. Qed.
Print Assumptions C10_bytes_skip_while_blank.

Theorem C10_bytes_fetch_while_is_alpha : forall fuel acc out s b,
  RB (sc_in s) b -> (length (si_chars (sc_in s)) < fuel)%nat ->
  exists letters i' b',
    in_fetch_while_alpha str_ops fuel acc s = Ok ((rev letters ++ acc, N.of_nat (length letters)), set_in i' s)
    /\ sb_fetch_while_is_alpha out b = Ok ((out ++ bytes_of letters, N.of_nat (length letters)), b')
    /\ RB i' b'.
Proof. exact sb_fetch_while_is_alpha_refines. Qed.
Print Assumptions C10_bytes_fetch_while_is_alpha.

(* the single-byte class tests (next_is_blank, next_is_breakz, ...): the first byte decides, as the first character does *)
Theorem C10_bytes_first_byte_tests : forall on_empty p, ascii_only p -> p 0 = on_empty ->
  q_refines any (next_is str_ops p) (first_byte_is on_empty p).
Proof. exact first_byte_refines. Qed.
Print Assumptions C10_bytes_first_byte_tests.

(* next_2_are / next_3_are for the non-NUL characters the scanner asks for *)
Theorem C10_bytes_next_2_are : forall a c, a <> 0 -> c <> 0 ->
  q_refines (looked 2) (next_2_are str_ops a c) (sb_next_2_are a c).
Proof. exact sb_next_2_are_refines. Qed.
Print Assumptions C10_bytes_next_2_are.

Theorem C10_bytes_next_3_are : forall a c d, a <> 0 -> c <> 0 -> d <> 0 ->
  q_refines (looked 3) (next_3_are str_ops a c d) (sb_next_3_are a c d).
Proof. exact sb_next_3_are_refines. Qed.
Print Assumptions C10_bytes_next_3_are.

(* EVERYTHING AT ONCE: every method of `impl Input for StrInput` (the primitives, raw_read_ch, peek, peek_nth, look_ch,
   next_char_is, nth_char_is, next_2_are, next_3_are, the three document tests, next_can_be_plain_scalar, the nine
   class tests, skip_ws_to_eol, skip_while_non_breakz, skip_while_blank, fetch_while_is_alpha). *)
Theorem C10_str_bytes_refines_chars :
  (forall s b, RB s b ->
     (forall n, exists s' b', lookahead str_ops n s = Ok s' /\ lookahead bytes_ops n b = Ok b' /\ RB s' b')
     /\ look_rel (buflen str_ops s) (buflen bytes_ops b)
     /\ ((1 <= buflen bytes_ops b)%nat -> buflen bytes_ops b = buflen str_ops s)
     /\ bufmaxlen bytes_ops = bufmaxlen str_ops
     /\ (forall n, peek_nth bytes_ops n b = peek_nth str_ops n s)
     /\ RB (skip1 str_ops s) (skip1 bytes_ops b)
     /\ (forall n, exists s' b', skip_n str_ops n s = Ok s' /\ skip_n bytes_ops n b = Ok b' /\ RB s' b')
     /\ (exists o s' b', raw_read_non_breakz str_ops s = Ok (o, s') /\ raw_read_non_breakz bytes_ops b = Ok (o, b') /\ RB s' b')
     /\ (exists b', sb_raw_read_ch b = Ok (nth 0 (si_chars s) 0, b') /\ RB (skip1 str_ops s) b'))
  /\ q_refines any (peek str_ops) sb_peek
  /\ (forall n, q_refines any (peekn str_ops n) (sb_peek_nth n))
  /\ m_refines any (look_ch str_ops) sb_look_ch
  /\ (forall c, q_refines any (next_char_is str_ops c) (sb_next_char_is c))
  /\ (forall n c, q_refines any (nth_char_is str_ops n c) (sb_nth_char_is n c))
  /\ (forall a c, a <> 0 -> c <> 0 -> q_refines (looked 2) (next_2_are str_ops a c) (sb_next_2_are a c))
  /\ (forall a c d, a <> 0 -> c <> 0 -> d <> 0 -> q_refines (looked 3) (next_3_are str_ops a c d) (sb_next_3_are a c d))
  /\ q_refines (looked 4) (next_is_document_indicator str_ops) sb_next_is_document_indicator
  /\ q_refines (looked 4) (next_is_document_start str_ops) sb_next_is_document_start
  /\ q_refines (looked 4) (next_is_document_end str_ops) sb_next_is_document_end
  /\ (forall fl, q_refines nonempty_in (next_can_be_plain_scalar str_ops fl) (sb_next_can_be_plain_scalar fl))
  /\ q_refines any (next_is str_ops (fun c => is_blank c || is_break c)) sb_next_is_blank_or_break
  /\ q_refines any (next_is str_ops is_blank_or_breakz) sb_next_is_blank_or_breakz
  /\ q_refines any (next_is str_ops is_blank) sb_next_is_blank
  /\ q_refines any (next_is str_ops is_break) sb_next_is_break
  /\ q_refines any (next_is str_ops is_breakz) sb_next_is_breakz
  /\ q_refines any (next_is str_ops is_z) sb_next_is_z
  /\ q_refines any (next_is str_ops is_flow) sb_next_is_flow
  /\ q_refines any (next_is str_ops is_digit) sb_next_is_digit
  /\ q_refines any (next_is str_ops is_alpha) sb_next_is_alpha
  /\ (forall fuel st, m_refines (fun s => (length (si_chars (sc_in s)) < fuel)%nat)
                        (in_skip_ws_to_eol str_ops fuel st false false 0) (sb_skip_ws_to_eol st))
  /\ (forall fuel, m_refines (fun s => (length (si_chars (sc_in s)) < fuel)%nat)
                        (in_skip_while_non_breakz str_ops fuel) sb_skip_while_non_breakz)
  /\ (forall fuel, m_refines (fun s => (length (si_chars (sc_in s)) < fuel)%nat)
                        (in_skip_while_blank str_ops fuel) sb_skip_while_blank)
  /\ (forall fuel acc out s b, RB (sc_in s) b -> (length (si_chars (sc_in s)) < fuel)%nat ->
        exists letters i' b',
          in_fetch_while_alpha str_ops fuel acc s = Ok ((rev letters ++ acc, N.of_nat (length letters)), set_in i' s)
          /\ sb_fetch_while_is_alpha out b = Ok ((out ++ bytes_of letters, N.of_nat (length letters)), b')
          /\ RB i' b').
Proof. exact str_bytes_refines_chars. Qed.
Print Assumptions C10_str_bytes_refines_chars.

(* the relation is satisfiable for every text, its byte side consists of bytes, and it determines the characters *)
Theorem C10_bytes_relation_total : forall cs, scalars cs ->
  RB {| si_chars := cs; si_look := 0 |} {| sb_bytes := bytes_of cs; sb_look := 0 |}
  /\ Forall (fun b => b < 256) (bytes_of cs)
  /\ (forall cs', scalars cs' -> bytes_of cs' = bytes_of cs -> cs' = cs).
Proof. exact bytes_relation_total. Qed.
Print Assumptions C10_bytes_relation_total.

(* WHERE THE OVERRIDES REALLY DIFFER from the provided methods (all outside what the scanner does):
   1. on the empty buffer next_can_be_plain_scalar indexes byte 0 and panics (the provided method answers true); every
      call of the scanner is guarded by !next_is_blank_or_breakz(), which is true on the empty buffer;
   2. next_2_are(x, '\0') on the last character x: true for the provided method (peek_nth pads with NUL), false for
      the override (`chars.next().is_some_and(..)`); the scanner asks for '\r','\n' / '-' / '.' only;
   3. the four consuming overrides do not call lookahead(1): afterwards buflen() can be 0 where the provided method
      leaves 1 (look_rel); every later lookahead(n >= 1) closes the gap. *)
Theorem C10_bytes_plain_scalar_panics_on_empty : forall fl l,
  sb_next_can_be_plain_scalar fl {| sb_bytes := []; sb_look := l |} = Panic 300.
Proof. exact sb_next_can_be_plain_scalar_empty. Qed.
Print Assumptions C10_bytes_plain_scalar_panics_on_empty.

Theorem C10_bytes_next_2_are_nul_differs :
  exists s b, RB (sc_in s) b /\ looked 2 s /\ next_2_are str_ops 120 0 s = Ok (true, s) /\ sb_next_2_are 120 0 b = Ok false.
Proof. exact next_2_are_nul_differs. Qed.
Print Assumptions C10_bytes_next_2_are_nul_differs.

Theorem C10_bytes_consuming_overrides_skip_lookahead :
  let s := init_sc {| si_chars := []; si_look := 0 |} in
  let b := {| sb_bytes := []; sb_look := 0 |} in
  RB (sc_in s) b
  /\ in_skip_while_blank str_ops 1 s = Ok (0, set_in {| si_chars := []; si_look := 1 |} s)
  /\ sb_skip_while_blank b = Ok (0, {| sb_bytes := []; sb_look := 0 |}).
Proof. exact consuming_overrides_skip_lookahead. Qed.
Print Assumptions C10_bytes_consuming_overrides_skip_lookahead.

(* COMPOSITION inside the scanner monad (Proofs/StrBytesSim.v).  RS s t: the scanner states are the same except that the
   input of t is an RB-related byte-level input.  simp P m n: from RS-related states satisfying P, whatever the
   character-level computation m returns properly (a value, or an error site at a marker) the byte-level computation
   n returns too, and the states are RS-related again.  The per-method theorems lift to simp (lift_q / lift_m put an
   override into the scanner monad), simp is closed under bind, and whole scanner loops rebuilt over the overrides
   simulate the loops of the model. *)
Theorem C10_bytes_sim_bind : forall {A B} P (Q : A -> sc strin -> Prop) (m : @M strin A) n (f : A -> @M strin B) g,
  simp P m n -> (forall a, simp (Q a) (f a) (g a)) -> (forall s a s', P s -> m s = Ok (a, s') -> Q a s') ->
  simp P (bind m f) (bind n g).
Proof. exact @simp_bind. Qed.
Print Assumptions C10_bytes_sim_bind.

Theorem C10_bytes_sim_of_query : forall {A} P (g : @M strin A) f, q_refines P g f -> simp P g (lift_q f).
Proof. exact @simp_of_q. Qed.
Print Assumptions C10_bytes_sim_of_query.

Theorem C10_bytes_sim_of_consumer : forall {A} P (g : @M strin A) f, m_refines P g f -> simp P g (lift_m f).
Proof. exact @simp_of_m. Qed.
Print Assumptions C10_bytes_sim_of_consumer.

(* Scanner::skip_ws_to_eol (scanner.rs 906: the override, then mark += count, then the error at the mark) *)
Theorem C10_bytes_scanner_skip_ws_to_eol : forall fuel st,
  simp (fueled fuel) (skip_ws_to_eol str_ops fuel st) (b_skip_ws_to_eol st).
Proof. exact simp_skip_ws_to_eol. Qed.
Print Assumptions C10_bytes_scanner_skip_ws_to_eol.

(* skip_linebreak over the overrides next_2_are('\r','\n'), peek and skip *)
Theorem C10_bytes_scanner_skip_linebreak : simp (looked 2) (skip_linebreak str_ops) b_skip_linebreak.
Proof. exact simp_skip_linebreak. Qed.
Print Assumptions C10_bytes_scanner_skip_linebreak.

(* a whole loop of the scanner, skip_yaml_whitespace (scanner.rs 873-904), rebuilt over look_ch, skip, lookahead,
   next_2_are, peek and skip_while_non_breakz of the byte-level StrInput: it returns what the model's loop returns *)
Theorem C10_bytes_scanner_skip_yaml_whitespace : forall fuel,
  simp (fueled fuel) (skip_yaml_whitespace str_ops fuel) (b_skip_yaml_whitespace fuel).
Proof. exact simp_skip_yaml_whitespace. Qed.
Print Assumptions C10_bytes_scanner_skip_yaml_whitespace.

(* non-vacuity: the byte-level methods on "a: \u{e9}\t# \u{20ac}\u{1f600}x\n-" (1-, 2-, 3-, 4-byte characters) *)
Example C10_bytes_example :
  let cs := [97; 58; 32; 233; 9; 35; 32; 8364; 128512; 120; 10; 45] in
  let b k := {| sb_bytes := bytes_of (skipn k cs); sb_look := 0 |} in
  length (bytes_of cs) = 18%nat
  /\ sb_next_can_be_plain_scalar false (b 1%nat) = Ok false
  /\ sb_next_can_be_plain_scalar false (b 3%nat) = Ok true
  /\ sb_skip_ws_to_eol SkipYes (b 4%nat) = Ok ((6, Some (true, false)), b 10%nat)
  /\ sb_skip_ws_to_eol SkipNo (b 5%nat) = Ok ((0, None), b 5%nat)
  /\ sb_skip_while_non_breakz (b 3%nat) = Ok (7, b 10%nat)
  /\ sb_fetch_while_is_alpha [33] (b 0%nat) = Ok (([33; 97], 1), b 1%nat)
  /\ sb_peek_nth 5 (b 3%nat) = Ok 128512.
Proof. vm_compute. repeat split; reflexivity. Qed.

(* non-vacuity of the simulation: " #\u{e9}\n x" — the loop over the byte-level overrides and the model's loop end on
   the same character with the same mark (index 5: characters, not bytes) *)
Example C10_bytes_sim_example :
  let cs := [32; 35; 233; 10; 32; 120] in
  match skip_yaml_whitespace str_ops 10 (init_sc {| si_chars := cs; si_look := 0 |}),
        b_skip_yaml_whitespace 10 (init_sc {| sb_bytes := bytes_of cs; sb_look := 0 |}) with
  | Ok (_, s), Ok (_, t) =>
      si_chars (sc_in s) = [120] /\ sb_bytes (sc_in t) = [120] /\ sc_mark s = sc_mark t /\ m_index (sc_mark t) = 5
      /\ m_line (sc_mark t) = 2 /\ sc_ska s = sc_ska t
  | _, _ => False
  end.
Proof. vm_compute. repeat split; reflexivity. Qed.
