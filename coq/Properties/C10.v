(* C10 — All input back-ends behave identically.  (theorems: Proofs/InputRefine.v) *)
From Coq Require Import List NArith Bool.
Import ListNotations.
Require Import Parser SBase SFetch Pipe SBuf InputRefine ScanWP ScanSafeTop.
Open Scope nat_scope.

(* Per-operation refinement between the buffered input of any capacity and the string input: related states
   answer every in-contract operation identically and stay related. *)
Theorem C10_peek_nth : forall cap s b n, Rel s b -> n < length (b_buf b) ->
  peek_nth (buf_ops cap) n b = peek_nth str_ops n s.
Proof. exact rel_peek_nth. Qed.
Print Assumptions C10_peek_nth.

Theorem C10_skip : forall cap s b, Rel s b -> b_buf b <> [] -> Rel (skip1 str_ops s) (skip1 (buf_ops cap) b).
Proof. exact rel_skip1. Qed.
Print Assumptions C10_skip.

(* Every capacity >= 8 honours the scanner's lookahead discipline: on no input does the buffered instance hit a
   contract violation (this is what makes "any input source that honours the input contract" meaningful). *)
Theorem C10_lookahead_discipline : forall cap, (8 <= cap)%nat -> forall input n,
  snd (run_buf cap input) <> PPanic n.
Proof. exact pipeline_never_panics_buffered. Qed.
Print Assumptions C10_lookahead_discipline.
