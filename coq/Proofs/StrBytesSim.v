(* C10 — composing the per-method refinements of Proofs/StrBytesProofs.v inside the scanner monad.

   The scanner model is written over [InputOps] and calls the provided-method definitions of Model/SPrim.v; a scanner
   that calls the byte-level overrides of Model/StrBytes.v instead is the same monadic program with each such call
   replaced by the lifted override ([lift_q] / [lift_m] below).  This file gives the simulation calculus that makes
   the replacement argument checkable: [simp P m n] (from RS-related scanner states satisfying P, whatever the
   character-level computation m returns properly — a value, or an error site at a marker — the byte-level computation
   n returns too, and the states are related again), its closure under ret / bind / the state operations that do not
   touch the input, the lifting of every per-method theorem, and three composite scanner primitives redone over the
   overrides: the scanner's own skip_ws_to_eol wrapper (scanner.rs 906), skip_blank / skip_nl, and skip_linebreak. *)
From Coq Require Import List NArith ZArith Bool Lia.
Import ListNotations.
Require Import Parser SBase SPrim TagSpec StrBytes StrBytesProofs.
Open Scope N_scope.
Open Scope mon_scope.

(* the same scanner state around another input *)
Definition retag {I J} (j : J) (s : sc I) : sc J :=
  {| sc_in := j; sc_mark := sc_mark s; sc_tokens := sc_tokens s;
     sc_stream_start := sc_stream_start s; sc_stream_end := sc_stream_end s; sc_adjacent := sc_adjacent s;
     sc_ska := sc_ska s; sc_sks := sc_sks s; sc_indent := sc_indent s; sc_indents := sc_indents s;
     sc_flow_level := sc_flow_level s; sc_tokens_parsed := sc_tokens_parsed s;
     sc_token_available := sc_token_available s; sc_lws := sc_lws s; sc_ifms := sc_ifms s |}.
Definition RS (s : sc strin) (t : sc bstr) : Prop := RB (sc_in s) (sc_in t) /\ t = retag (sc_in t) s.

Definition simp {A} (P : sc strin -> Prop) (m : @M strin A) (n : @M bstr A) : Prop :=
  forall s t, RS s t -> P s ->
    match m s with
    | Ok (a, s') => exists t', n t = Ok (a, t') /\ RS s' t'
    | Err e k => n t = Err e k
    | Panic _ => True          (* the model's asserts on buflen(), which StrInput does not have *)
    | OutOfFuel => True
    end.

Lemma simp_weaken {A} (P P' : sc strin -> Prop) (m : @M strin A) n : (forall s, P' s -> P s) -> simp P m n -> simp P' m n.
Proof. intros H S s t R Hp. apply S; [exact R|apply H; exact Hp]. Qed.
Lemma simp_ret {A} P (a : A) : simp P (ret a) (ret a).
Proof. intros s t R _. cbn. exists t. split; [reflexivity|exact R]. Qed.
Lemma simp_fail {A} P e : simp P (fun s => @fail strin A e (sc_mark s) s) (fun t => @fail bstr A e (sc_mark t) t).
Proof. intros s t [_ ->] _. reflexivity. Qed.
Lemma simp_bind {A B} P (Q : A -> sc strin -> Prop) (m : @M strin A) n (f : A -> @M strin B) g :
  simp P m n -> (forall a, simp (Q a) (f a) (g a)) -> (forall s a s', P s -> m s = Ok (a, s') -> Q a s') ->
  simp P (bind m f) (bind n g).
Proof.
  intros Sm Sf HQ s t R Hp. unfold bind. specialize (Sm s t R Hp).
  destruct (m s) as [[a s']|e k|k|] eqn:E; [|rewrite Sm; reflexivity|exact I|exact I].
  destruct Sm as (t' & -> & R'). apply Sf; [exact R'|]. eapply HQ; eauto.
Qed.
(* state operations that do not look at the input *)
Lemma simp_gets {A} P (f : sc strin -> A) (g : sc bstr -> A) : (forall s t, RS s t -> f s = g t) -> simp P (gets f) (gets g).
Proof. intros H s t R _. cbn. exists t. rewrite (H s t R). split; [reflexivity|exact R]. Qed.
Lemma simp_modify P (f : sc strin -> sc strin) (g : sc bstr -> sc bstr) :
  (forall s t, RS s t -> RS (f s) (g t)) -> simp P (modify f) (modify g).
Proof. intros H s t R _. cbn. eexists. split; [reflexivity|apply H; exact R]. Qed.
Lemma RS_set_mark m s t : RS s t -> RS (set_mark m s) (set_mark m t).
Proof. intros [R ->]. split; [exact R|reflexivity]. Qed.
Lemma RS_set_lws b s t : RS s t -> RS (set_lws b s) (set_lws b t).
Proof. intros [R ->]. split; [exact R|reflexivity]. Qed.
Lemma RS_set_in s t i j : RS s t -> RB i j -> RS (set_in i s) (set_in j t).
Proof. intros [_ ->] R. split; [exact R|reflexivity]. Qed.
Lemma RS_mark s t : RS s t -> sc_mark s = sc_mark t.
Proof. intros [_ ->]. reflexivity. Qed.

(* ---- lifting the overrides into the scanner monad, and the per-method theorems into [simp] ---- *)
Definition lift_q {A} (f : bstr -> outcome A) : @M bstr A :=
  fun t => match f (sc_in t) with Ok a => Ok (a, t) | Err e k => Err e k | Panic k => Panic k | OutOfFuel => OutOfFuel end.
Definition lift_m {A} (f : bstr -> outcome (A * bstr)) : @M bstr A :=
  fun t => match f (sc_in t) with Ok (a, b) => Ok (a, set_in b t) | Err e k => Err e k | Panic k => Panic k | OutOfFuel => OutOfFuel end.
Definition lift_u (f : bstr -> outcome bstr) : @M bstr unit :=
  fun t => match f (sc_in t) with Ok b => Ok (tt, set_in b t) | Err e k => Err e k | Panic k => Panic k | OutOfFuel => OutOfFuel end.

Lemma simp_of_q {A} P (g : @M strin A) f : q_refines P g f -> simp P g (lift_q f).
Proof.
  intros H s t R Hp. destruct (H s (sc_in t) (proj1 R) Hp) as (a & -> & E). exists t. unfold lift_q. rewrite E.
  split; [reflexivity|exact R].
Qed.
Lemma simp_of_m {A} P (g : @M strin A) f : m_refines P g f -> simp P g (lift_m f).
Proof.
  intros H s t R Hp. destruct (H s (sc_in t) (proj1 R) Hp) as (a & i' & b' & -> & E & R'). exists (set_in b' t).
  unfold lift_m. rewrite E. split; [reflexivity|apply RS_set_in; assumption].
Qed.

Lemma q_refines_weaken {A} (P P' : sc strin -> Prop) (g : @M strin A) f :
  (forall s, P' s -> P s) -> q_refines P g f -> q_refines P' g f.
Proof. intros H Q s b R Hp. apply Q; [exact R|apply H; exact Hp]. Qed.
Lemma m_refines_weaken {A} (P P' : sc strin -> Prop) (g : @M strin A) f :
  (forall s, P' s -> P s) -> m_refines P g f -> m_refines P' g f.
Proof. intros H Q s b R Hp. apply Q; [exact R|apply H; exact Hp]. Qed.

(* the primitives, as the scanner model uses them *)
Lemma simp_look P n : simp P (look str_ops n) (fun t => Ok (tt, set_in (sb_lookahead n (sc_in t)) t)).
Proof.
  intros s t R _. destruct (rb_lookahead _ _ n (proj1 R)) as (s' & b' & E1 & E2 & R'). unfold look. rewrite E1.
  cbn [lookahead bytes_ops] in E2. inversion E2; subst b'. eexists. split; [reflexivity|apply RS_set_in; assumption].
Qed.
Lemma simp_in_skip P : simp P (in_skip str_ops) (lift_u sb_skip).
Proof.
  intros s t R _. destruct (sb_skip_spec _ _ (proj1 R)) as (b' & E & R'). unfold in_skip, modify, lift_u. rewrite E.
  eexists. split; [reflexivity|apply RS_set_in; assumption].
Qed.
Lemma simp_in_skip_n P n : simp P (in_skip_n str_ops n) (lift_u (sb_skip_n n)).
Proof.
  intros s t R _. destruct (rb_skip_n _ _ n (proj1 R)) as (s' & b' & E1 & E2 & R'). unfold in_skip_n, lift_u. rewrite E1.
  cbn [skip_n bytes_ops] in E2. rewrite E2. eexists. split; [reflexivity|apply RS_set_in; assumption].
Qed.
Lemma simp_raw_read P : simp P (raw_read str_ops) (lift_m (fun b => bindo (sb_raw_read_non_breakz_ch b) (fun ob => Ok ob))).
Proof.
  intros s t R _. destruct (rb_raw_read_non_breakz _ _ (proj1 R)) as (o & s' & b' & E1 & E2 & R'). unfold raw_read, lift_m.
  rewrite E1. cbn [raw_read_non_breakz bytes_ops] in E2. rewrite E2. cbn [bindo]. eexists. split; [reflexivity|apply RS_set_in; assumption].
Qed.

(* ---- composite 1: Scanner::skip_ws_to_eol (scanner.rs 906) over the override ---- *)
Definition b_skip_ws_to_eol (st : skiptabs) : @M bstr (bool * bool) :=
  r <- lift_m (sb_skip_ws_to_eol st) ;;
  adv_mark (fst r) ;;;
  match snd r with
  | Some tw => ret tw
  | None => m <- mark ;; fail 40 m
  end.
Definition fueled (fuel : nat) (s : sc strin) : Prop := (length (si_chars (sc_in s)) < fuel)%nat.
Definition anyq {A} (_ : A) (_ : sc strin) : Prop := True.

Lemma simp_adv_mark P n : simp P (adv_mark n) (adv_mark n).
Proof. apply simp_modify. intros s t R. rewrite (RS_mark _ _ R). apply RS_set_mark. exact R. Qed.
Lemma simp_mark_fail {A} P e : simp P (m <- mark ;; @fail strin A e m) (m <- mark ;; @fail bstr A e m).
Proof. intros s t R _. cbn. rewrite (RS_mark _ _ R). reflexivity. Qed.

Theorem simp_skip_ws_to_eol fuel st : simp (fueled fuel) (skip_ws_to_eol str_ops fuel st) (b_skip_ws_to_eol st).
Proof.
  unfold skip_ws_to_eol, b_skip_ws_to_eol.
  eapply (simp_bind _ anyq); [apply simp_of_m; apply sb_skip_ws_to_eol_refines| |intros; exact I].
  intros r. eapply (simp_bind _ anyq); [apply simp_adv_mark| |intros; exact I].
  intros ?. cbv beta. destruct (snd r); [apply simp_ret|apply simp_mark_fail].
Qed.

(* ---- composite 2: skip_blank / skip_non_blank / skip_nl / skip_linebreak over skip, next_2_are, peek ---- *)
Definition b_skip_blank : @M bstr unit := lift_u sb_skip ;;; adv_mark 1.
Definition b_skip_nl : @M bstr unit := lift_u sb_skip ;;; modify (fun s => set_lws true (set_mark (nlm (sc_mark s)) s)).
Definition b_skip_linebreak : @M bstr unit :=
  crlf <- lift_q (sb_next_2_are 13 10) ;;
  if crlf then b_skip_blank ;;; b_skip_nl
  else c <- lift_q sb_peek ;; if is_break c then b_skip_nl else ret tt.

Lemma simp_skip_blank P : simp P (skip_blank str_ops) b_skip_blank.
Proof.
  unfold skip_blank, b_skip_blank. eapply (simp_bind _ anyq); [apply simp_in_skip| |intros; exact I].
  intros ?. cbv beta. apply simp_adv_mark.
Qed.
Lemma simp_skip_nl P : simp P (skip_nl str_ops) b_skip_nl.
Proof.
  unfold skip_nl, b_skip_nl. eapply (simp_bind _ anyq); [apply simp_in_skip| |intros; exact I].
  intros ?. cbv beta. apply simp_modify. intros s t R. rewrite (RS_mark _ _ R). apply RS_set_lws, RS_set_mark. exact R.
Qed.
Theorem simp_skip_linebreak : simp (looked 2) (skip_linebreak str_ops) b_skip_linebreak.
Proof.
  unfold skip_linebreak, b_skip_linebreak.
  eapply (simp_bind _ anyq); [apply simp_of_q; apply sb_next_2_are_refines; discriminate| |intros; exact I].
  intros crlf. destruct crlf.
  - eapply (simp_bind _ anyq); [apply simp_skip_blank| |intros; exact I]. intros ?. cbv beta. apply simp_skip_nl.
  - eapply (simp_bind _ anyq); [apply simp_of_q; apply (q_refines_weaken _ _ _ _ (fun _ _ => I) sb_peek_refines)| |intros; exact I].
    intros c. destruct (is_break c); [apply simp_skip_nl|apply simp_ret].
Qed.

(* ---- composite 3: a whole scanner loop, skip_yaml_whitespace (scanner.rs 873-904), over the overrides:
        look_ch, skip, lookahead, next_2_are, peek, skip_while_non_breakz ---- *)
Definition b_look_ch : @M bstr chr := lift_m sb_look_ch.
Definition b_look (n : nat) : @M bstr unit := fun t => Ok (tt, set_in (sb_lookahead n (sc_in t)) t).
Definition b_syw_go (fuel : nat) :=
  fix go (f : nat) (need : bool) : @M bstr unit :=
     match f with
     | O => oof
     | S f' =>
       c <- b_look_ch ;;
       if c =? 32 then b_skip_blank ;;; go f' false
       else if (c =? 10) || (c =? 13) then
         b_look 2 ;;; b_skip_linebreak ;;; fl <- flow_level ;;
         (if fl =? 0 then allow_simple_key else ret tt) ;;; go f' false
       else if c =? 35 then n <- lift_m sb_skip_while_non_breakz ;; adv_mark n ;;; go f' need
       else if need then m <- mark ;; fail 42 m else ret tt
     end.
Definition b_skip_yaml_whitespace (fuel : nat) : @M bstr unit := b_syw_go fuel fuel true.
(* the loop of Model/SPrim.v skip_yaml_whitespace, named *)
Definition syw_go (fuel : nat) :=
  fix go (f : nat) (need : bool) : @M strin unit :=
     match f with
     | O => oof
     | S f' =>
       c <- look_ch str_ops ;;
       if c =? 32 then skip_blank str_ops ;;; go f' false
       else if (c =? 10) || (c =? 13) then
         look str_ops 2 ;;; skip_linebreak str_ops ;;; fl <- flow_level ;;
         (if fl =? 0 then allow_simple_key else ret tt) ;;; go f' false
       else if c =? 35 then n <- in_skip_while_non_breakz str_ops fuel ;; adv_mark n ;;; go f' need
       else if need then m <- mark ;; fail 42 m else ret tt
     end.
Lemma skip_yaml_whitespace_go fuel : skip_yaml_whitespace str_ops fuel = syw_go fuel fuel true.
Proof. reflexivity. Qed.

(* the character-level pieces never make the text longer *)
Definition keeps (fuel : nat) {A} (m : @M strin A) : Prop :=
  forall s a s', fueled fuel s -> m s = Ok (a, s') -> fueled fuel s'.
Lemma keeps_look_ch fuel : keeps fuel (look_ch str_ops).
Proof. intros s a s' H E. cbv [look_ch look peek peekn bind] in E. cbn [lookahead peek_nth str_ops] in E. inversion E; subst. exact H. Qed.
Lemma keeps_look fuel n : keeps fuel (look str_ops n).
Proof. intros s a s' H E. cbv [look] in E. cbn [lookahead str_ops] in E. inversion E; subst. exact H. Qed.
Lemma fueled_tl fuel (s : sc strin) : fueled fuel s -> fueled fuel (set_in (skip1 str_ops (sc_in s)) s).
Proof.
  unfold fueled. cbn [sc_in set_in upd skip1 str_ops si_chars]. destruct (si_chars (sc_in s)); cbn [tl length]; lia.
Qed.
Lemma keeps_skip_blank fuel : keeps fuel (skip_blank str_ops).
Proof. intros s a s' H E. cbv [skip_blank in_skip adv_mark modify bind] in E. inversion E; subst. apply (fueled_tl _ _ H). Qed.
Lemma keeps_skip_nl fuel : keeps fuel (skip_nl str_ops).
Proof. intros s a s' H E. cbv [skip_nl in_skip modify bind] in E. inversion E; subst. apply (fueled_tl _ _ H). Qed.
Lemma keeps_bind fuel {A B} (m : @M strin A) (f : A -> @M strin B) : keeps fuel m -> (forall a, keeps fuel (f a)) -> keeps fuel (bind m f).
Proof.
  intros Hm Hf s b s' H E. unfold bind in E. destruct (m s) as [[a s1]| | |] eqn:E1; try discriminate.
  eapply Hf; [eapply Hm; eauto|exact E].
Qed.
Lemma keeps_ret fuel {A} (a : A) : keeps fuel (@ret strin A a).
Proof. intros s a' s' H E. inversion E; subst. exact H. Qed.
Lemma keeps_skip_linebreak fuel : keeps fuel (skip_linebreak str_ops).
Proof.
  unfold skip_linebreak. apply keeps_bind.
  - intros s a s' H E. unfold next_2_are, assert_buflen, bind in E. destruct (Nat.ltb _ _); [discriminate|].
    cbv [peek peekn ret] in E. cbn [peek_nth str_ops] in E. inversion E; subst. exact H.
  - intros crlf. destruct crlf.
    + apply keeps_bind; [apply keeps_skip_blank|intros _; apply keeps_skip_nl].
    + apply keeps_bind.
      * intros s a s' H E. cbv [peek peekn] in E. cbn [peek_nth str_ops] in E. inversion E; subst. exact H.
      * intros c. destruct (is_break c); [apply keeps_skip_nl|apply keeps_ret].
Qed.
Lemma keeps_state fuel {A} (m : @M strin A) : (forall s a s', m s = Ok (a, s') -> sc_in s' = sc_in s) -> keeps fuel m.
Proof. intros H s a s' Hf E. unfold fueled. rewrite (H _ _ _ E). exact Hf. Qed.
Lemma keeps_skip_while_non_breakz fuel : keeps fuel (in_skip_while_non_breakz str_ops fuel).
Proof.
  intros s a s' H E. unfold in_skip_while_non_breakz in E. rewrite in_skip_while_go in E.
  destruct (sc_in s) as [cs l] eqn:Ei. unfold fueled in H. rewrite Ei in H. cbn [si_chars] in H.
  erewrite while_go_str in E; [|reflexivity|exact Ei|exact H]. inversion E; subst. unfold fueled. cbn [stin sc_in set_in upd si_chars].
  pose proof (lead_rest (fun c => negb (is_breakz c)) cs) as LR. apply (f_equal (@length N)) in LR. rewrite app_length in LR.
  unfold chr in *. lia.
Qed.

Lemma simp_syw_go fuel : forall f need, simp (fueled fuel) (syw_go fuel f need) (b_syw_go fuel f need).
Proof.
  induction f as [|f IH]; intros need.
  - intros s t R _. exact I.
  - eapply (simp_bind _ (fun _ => fueled fuel)).
    { apply simp_of_m. apply (m_refines_weaken _ _ _ _ (fun _ _ => I) sb_look_ch_refines). }
    2:{ intros sx ax sx' H E. eapply keeps_look_ch; eauto. }
    intros c. destruct (c =? 32).
    { eapply (simp_bind _ (fun _ => fueled fuel)); [apply simp_skip_blank|intros []; apply IH|].
      intros sx ax sx' H E. eapply keeps_skip_blank; eauto. }
    destruct ((c =? 10) || (c =? 13)).
    { eapply (simp_bind _ (fun _ s => fueled fuel s /\ looked 2 s)); [apply simp_look| |].
      2:{ intros sx ax sx' H E. split; [eapply keeps_look; eauto|]. cbv [look] in E. cbn [lookahead str_ops] in E. inversion E; subst.
          unfold looked. cbn [sc_in set_in upd si_look]. lia. }
      intros []. eapply (simp_bind _ (fun _ => fueled fuel)).
      { eapply simp_weaken; [|apply simp_skip_linebreak]. intros s [_ H]. exact H. }
      2:{ intros sx ax sx' [H _] E. eapply keeps_skip_linebreak; eauto. }
      intros []. eapply (simp_bind _ (fun _ => fueled fuel)).
      { apply simp_gets. intros s t [_ ->]. reflexivity. }
      2:{ intros sx ax sx' H E. inversion E; subst. exact H. }
      intros fl. eapply (simp_bind _ (fun _ => fueled fuel)); [| intros []; apply IH |].
      { destruct (fl =? 0); [|apply simp_ret]. apply simp_modify. intros s t [R ->]. split; [exact R|reflexivity]. }
      intros sx ax sx' H E. destruct (fl =? 0); inversion E; subst; exact H. }
    destruct (c =? 35).
    { eapply (simp_bind _ (fun _ => fueled fuel)); [apply simp_of_m; apply sb_skip_while_non_breakz_refines| |].
      2:{ intros sx ax sx' H E. eapply keeps_skip_while_non_breakz; eauto. }
      intros n. eapply (simp_bind _ (fun _ => fueled fuel)); [apply simp_adv_mark|intros []; apply IH|].
      intros sx ax sx' H E. inversion E; subst. exact H. }
    destruct need; [apply simp_mark_fail|apply simp_ret].
Qed.
Theorem simp_skip_yaml_whitespace fuel : simp (fueled fuel) (skip_yaml_whitespace str_ops fuel) (b_skip_yaml_whitespace fuel).
Proof. rewrite skip_yaml_whitespace_go. apply simp_syw_go. Qed.

(* the rule for computations that read the whole scanner state ([s <- get ;; ...]): the two states are RS-related, so
   every field other than the input is the same on both sides *)
Lemma simp_get_bind {B} P (f : sc strin -> @M strin B) (g : sc bstr -> @M bstr B) :
  (forall s0 t0, RS s0 t0 -> simp (fun s => P s /\ s = s0) (f s0) (g t0)) -> simp P (bind get f) (bind get g).
Proof. intros H s t R Hp. unfold bind, get. apply (H s t R s t R). split; [exact Hp|reflexivity]. Qed.
