(* C04 — quoted scalars over several lines: scan_flow_scalar (Model/SScalar.v) over the string input returns exactly
   the text that the specification (Spec/FlowFold.v: dq_layout_wf / sq_layout_wf, dq_render / sq_render, dq_text)
   assigns to the presentation: line folding (one break -> space, k+1 breaks -> k line feeds, blanks around a break
   dropped), escaped breaks, escapes, doubled quotes. *)
From Coq Require Import List NArith ZArith Bool Arith Lia.
Import ListNotations.
Require Import Parser SBase SPrim SDir SScalar SFetch Pipe FlowFold FlowScalarProofs PlainScalarProofs.
Open Scope N_scope.

Arguments N.add : simpl never.
Arguments N.sub : simpl never.
Arguments N.mul : simpl never.
Arguments N.eqb : simpl never.
Arguments N.ltb : simpl never.
Arguments N.leb : simpl never.
Arguments Nat.max : simpl never.
Arguments Nat.leb : simpl never.
Arguments Nat.ltb : simpl never.
Arguments Nat.sub : simpl never.
Open Scope mon_scope.

(* ================================================================================================= *)
(* the blank loop of scan_flow_scalar, step by step                                                  *)
(* ================================================================================================= *)
Section FB.
Variable s0 : sc strin.
Notation ops := str_ops.
Notation st := (st_with s0).
Notation fblanks := (flow_blanks ops).

Definition colq_ok (m : marker) : Prop := (sc_indent s0 <= Z.of_N (m_col m))%Z.
Lemma colq_ok_adv k m : colq_ok m -> colq_ok (adv k m).
Proof. unfold colq_ok. rewrite adv_col. lia. Qed.


Lemma fb_blank_ws fb lb tb ws b r l m w :
  is_blank b = true ->
  fblanks (S fb) false lb tb ws (st (b :: r) l m w) = fblanks fb false lb tb (b :: ws) (st r (Nat.max l 1) (adv 1 m) w).
Proof.
  intros Hb. cbn [flow_blanks]. unfold peek. mstep (peekn_st 0 s0 (b :: r) l m w). cbn [nth]. rewrite Hb.
  mstep (skip_blank_st s0 (b :: r) l m w). cbn [tl].
  mstep (look_st 1 s0 r l (adv 1 m) w). reflexivity.
Qed.

Lemma fb_blank_skip fb lb tb ws b r l m w :
  is_blank b = true -> (b = 9 -> (sc_indent s0 <= Z.of_N (m_col m))%Z) ->
  fblanks (S fb) true lb tb ws (st (b :: r) l m w) = fblanks fb true lb tb ws (st r (Nat.max l 1) (adv 1 m) w).
Proof.
  intros Hb Ht. cbn [flow_blanks]. unfold peek. mstep (peekn_st 0 s0 (b :: r) l m w). cbn [nth]. rewrite Hb.
  assert (Hlt : col_lt_indent (st (b :: r) l m w) = Ok ((Z.of_N (m_col m) <? sc_indent s0)%Z, st (b :: r) l m w)) by reflexivity.
  mstep Hlt.
  replace ((b =? 9) && (Z.of_N (m_col m) <? sc_indent s0)%Z) with false.
  2:{ symmetry. destruct (N.eqb_spec b 9) as [E|E]; [|reflexivity]. cbn [andb]. apply Z.ltb_ge. exact (Ht E). }
  mstep (skip_blank_st s0 (b :: r) l m w). cbn [tl].
  mstep (look_st 1 s0 r l (adv 1 m) w). reflexivity.
Qed.

Lemma fb_nl_first k fb lb tb ws r l m w :
  cr_ok k r ->
  fblanks (S fb) false lb tb ws (st (nl_src k ++ r) l m w) = fblanks fb true true tb [] (st r (Nat.max (Nat.max l 2) 1) (nl_mark k m) true).
Proof.
  intros Hk. destruct (nl_head k r) as [H1 H2].
  cbn [flow_blanks]. unfold peek. mstep (peekn_st 0 s0 (nl_src k ++ r) l m w). rewrite H1, H2.
  mstep (look_st 2 s0 (nl_src k ++ r) l m w).
  mstep (skip_break_nl s0 k r (Nat.max l 2) m w Hk).
  mstep (look_st 1 s0 r (Nat.max l 2) (nl_mark k m) true). reflexivity.
Qed.

Lemma fb_nl_more k fb lb tb ws r l m w :
  cr_ok k r ->
  fblanks (S fb) true lb tb ws (st (nl_src k ++ r) l m w) = fblanks fb true lb (tb + 1) ws (st r (Nat.max (Nat.max l 2) 1) (nl_mark k m) true).
Proof.
  intros Hk. destruct (nl_head k r) as [H1 H2].
  cbn [flow_blanks]. unfold peek. mstep (peekn_st 0 s0 (nl_src k ++ r) l m w). rewrite H1, H2.
  mstep (look_st 2 s0 (nl_src k ++ r) l m w).
  mstep (skip_break_nl s0 k r (Nat.max l 2) m w Hk).
  mstep (look_st 1 s0 r (Nat.max l 2) (nl_mark k m) true). reflexivity.
Qed.

Lemma fb_stop fb lbl lb tb ws c l m w :
  is_blank (nth 0 c 0) = false -> is_break (nth 0 c 0) = false ->
  fblanks (S fb) lbl lb tb ws (st c l m w) = Ok ((lbl, lb, tb, ws), st c l m w).
Proof.
  intros Hb Hk. cbn [flow_blanks]. unfold peek. mstep (peekn_st 0 s0 c l m w). rewrite Hb, Hk. reflexivity.
Qed.

(* runs of blanks *)
Lemma fb_blanks_ws : forall bs fb lb tb ws r l m w,
  forallb is_sp bs = true ->
  exists l', fblanks (length bs + fb) false lb tb ws (st (bs ++ r) l m w)
             = fblanks fb false lb tb (rev bs ++ ws) (st r l' (adv (N.of_nat (length bs)) m) w).
Proof.
  induction bs as [|b bs IH]; intros fb lb tb ws r l m w H.
  - exists l. cbn [length app rev Nat.add]. change (N.of_nat 0) with 0. rewrite adv_0. reflexivity.
  - cbn [forallb] in H. apply andb_prop in H. destruct H as [Hb H].
    destruct (IH fb lb tb (b :: ws) r (Nat.max l 1) (adv 1 m) w H) as [l' E]. exists l'.
    cbn [length app Nat.add]. rewrite fb_blank_ws by exact Hb. rewrite E.
    rewrite adv_1_n. cbn [rev]. rewrite <- app_assoc. reflexivity.
Qed.

Lemma fb_blanks_skip : forall bs fb lb tb ws r l m w,
  forallb is_sp bs = true -> tabs_ok s0 (m_col m) bs ->
  exists l', fblanks (length bs + fb) true lb tb ws (st (bs ++ r) l m w)
             = fblanks fb true lb tb ws (st r l' (adv (N.of_nat (length bs)) m) w).
Proof.
  induction bs as [|b bs IH]; intros fb lb tb ws r l m w H Ht.
  - exists l. cbn [length app Nat.add]. change (N.of_nat 0) with 0. rewrite adv_0. reflexivity.
  - cbn [forallb] in H. apply andb_prop in H. destruct H as [Hb H]. destruct Ht as [Ht1 Ht2].
    destruct (IH fb lb tb ws r (Nat.max l 1) (adv 1 m) w H Ht2) as [l' E]. exists l'.
    cbn [length app Nat.add]. rewrite fb_blank_skip; [|exact Hb|intros E9; specialize (Ht1 E9); lia].
    rewrite E. rewrite adv_1_n. reflexivity.
Qed.

(* the lines of a break *)
Variable n : nat.
Hypothesis Hn : (sc_indent s0 < Z.of_nat n)%Z.
Let Hn' : (sc_indent s0 + 1 <= Z.of_nat n)%Z.
Proof. lia. Qed.

Lemma empties_blank_q es : forallb (empty_wf n) es = true -> Forall (fun e => forallb is_sp e = true) es.
Proof.
  intros H. apply Forall_forall. intros e Hin.
  exact (proj1 (empty_wf_facts s0 128 (le_n _) n Hn' e (proj1 (forallb_forall _ _) H e Hin))).
Qed.

Lemma fb_empties k : forall es fb lb tb ws r l m w,
  forallb (empty_wf n) es = true -> m_col m = 0 -> cr_ok k r ->
  exists l' m', m_col m' = 0 /\
    fblanks (ecost es + fb) true lb tb ws (st (flat_map (fun e => e ++ nl_src k) es ++ r) l m w)
    = fblanks fb true lb (tb + N.of_nat (length es)) ws (st r l' m' (match es with [] => w | _ => true end)).
Proof.
  induction es as [|e es IH]; intros fb lb tb ws r l m w H Hm Hr.
  - exists l, m. split; [exact Hm|]. cbn [ecost flat_map length app Nat.add]. change (N.of_nat 0) with 0. rewrite N.add_0_r. reflexivity.
  - assert (Hbl := empties_blank_q _ H).
    cbn [forallb] in H. apply andb_prop in H. destruct H as [He H].
    destruct (empty_wf_facts s0 128 (le_n _) n Hn' e He) as [Hs Ht].
    unfold ecost in *. cbn [flat_map]. rewrite !app_length, <- !app_assoc. cbn [length app].
    match goal with |- context [(length e + 1 + ?c + fb)%nat] =>
      replace (length e + 1 + c + fb)%nat with (length e + S (c + fb))%nat by lia end.
    destruct (fb_blanks_skip e (S (length (flat_map (fun e0 => e0 ++ [10]) es) + fb)) lb tb ws
                (nl_src k ++ flat_map (fun e0 => e0 ++ nl_src k) es ++ r) l m w Hs ltac:(rewrite Hm; exact Ht)) as [l1 E1].
    destruct (IH fb lb (tb + 1) ws r (Nat.max (Nat.max l1 2) 1) (nl_mark k (adv (N.of_nat (length e)) m)) true H (nl_mark_col _ _) Hr)
      as [l' [m' [Hm' E]]].
    exists l', m'. split; [exact Hm'|].
    rewrite E1. rewrite fb_nl_more.
    2:{ inversion Hbl; subst. apply cr_ok_flat; assumption. }
    rewrite E.
    replace (match es with [] => true | _ :: _ => true end) with true by (destruct es; reflexivity).
    f_equal. lia.
Qed.

(* a folded break, from its trailing blank padding to the first character of the next segment *)
Lemma fb_brk b fb x r l m w :
  brk_wf n b = true -> bl_escaped b = false -> is_blank x = false -> is_break x = false ->
  exists l' m', m_col m' = N.of_nat (length (bl_indent b)) /\ colq_ok m' /\
    fblanks (brk_cost b + S fb) false false 0 [] (st (render_brk b ++ x :: r) l m w)
    = Ok ((true, true, N.of_nat (length (bl_empties b)), []), st (x :: r) l' m' true).
Proof.
  intros Hw He Hx Hk. unfold brk_wf in Hw. rewrite He in Hw. cbn [negb orb] in Hw.
  do 3 (apply andb_prop in Hw; destruct Hw as [Hw ?]).
  match goal with H : indent_wf n _ = true |- _ => destruct (indent_wf_facts s0 mk0 128 (le_n _) n Hn' _ H) as [Hi1 [Hi2 Hi3]] end.
  match goal with H : forallb (empty_wf n) _ = true |- _ => rename H into Hes end.
  assert (Hcr : cr_ok (bl_nl b) (bl_indent b ++ x :: r)) by (apply cr_ok_blanks; assumption).
  unfold render_brk, brk_cost. rewrite He. cbn [app]. rewrite <- !app_assoc.
  replace (length (bl_pad b) + S (ecost (bl_empties b) + length (bl_indent b)) + S fb)%nat
    with (length (bl_pad b) + S (ecost (bl_empties b) + (length (bl_indent b) + S fb)))%nat by lia.
  destruct (fb_blanks_ws (bl_pad b) (S (ecost (bl_empties b) + (length (bl_indent b) + S fb)))
              false 0 [] (nl_src (bl_nl b) ++ flat_map (fun e => e ++ nl_src (bl_nl b)) (bl_empties b) ++ bl_indent b ++ x :: r) l m w Hw) as [l1 E1].
  destruct (fb_empties (bl_nl b) (bl_empties b) (length (bl_indent b) + S fb) true 0 [] (bl_indent b ++ x :: r)
              (Nat.max (Nat.max l1 2) 1) (nl_mark (bl_nl b) (adv (N.of_nat (length (bl_pad b))) m)) true Hes (nl_mark_col _ _) Hcr)
    as [l2 [m2 [Hm2 E2]]].
  destruct (fb_blanks_skip (bl_indent b) (S fb) true (0 + N.of_nat (length (bl_empties b))) [] (x :: r) l2 m2
              (match bl_empties b with [] => true | _ => true end) Hi1 ltac:(rewrite Hm2; exact Hi2)) as [l3 E3].
  exists l3, (adv (N.of_nat (length (bl_indent b))) m2). split; [rewrite adv_col, Hm2; lia|]. split.
  { unfold colq_ok. unfold col_ok in Hi3. rewrite adv_col, Hm2. rewrite adv_col, nlm_col in Hi3. lia. }
  rewrite E1. rewrite fb_nl_first by (apply cr_ok_flat; [apply empties_blank_q; exact Hes|exact Hcr]).
  rewrite E2. rewrite E3.
  rewrite fb_stop by assumption. rewrite N.add_0_l.
  replace (match bl_empties b with [] => true | _ :: _ => true end) with true by (destruct (bl_empties b); reflexivity).
  reflexivity.
Qed.

(* an escaped break, after the backslash and the break have been consumed *)
Lemma fb_brk_escaped b fb x r l m :
  brk_wf n b = true -> is_blank x = false -> is_break x = false -> m_col m = 0 ->
  exists l' m' w', m_col m' = N.of_nat (length (bl_indent b)) /\ colq_ok m' /\
    fblanks (ecost (bl_empties b) + length (bl_indent b) + S fb) true false 0 []
            (st (flat_map (fun e => e ++ nl_src (bl_nl b)) (bl_empties b) ++ bl_indent b ++ x :: r) l m true)
    = Ok ((true, false, N.of_nat (length (bl_empties b)), []), st (x :: r) l' m' w').
Proof.
  intros Hw Hx Hk Hm. unfold brk_wf in Hw.
  do 3 (apply andb_prop in Hw; destruct Hw as [Hw ?]).
  match goal with H : indent_wf n _ = true |- _ => destruct (indent_wf_facts s0 mk0 128 (le_n _) n Hn' _ H) as [Hi1 [Hi2 Hi3]] end.
  match goal with H : forallb (empty_wf n) _ = true |- _ => rename H into Hes end.
  assert (Hcr : cr_ok (bl_nl b) (bl_indent b ++ x :: r)) by (apply cr_ok_blanks; assumption).
  replace (ecost (bl_empties b) + length (bl_indent b) + S fb)%nat with (ecost (bl_empties b) + (length (bl_indent b) + S fb))%nat by lia.
  destruct (fb_empties (bl_nl b) (bl_empties b) (length (bl_indent b) + S fb) false 0 [] (bl_indent b ++ x :: r) l m true Hes Hm Hcr)
    as [l2 [m2 [Hm2 E2]]].
  destruct (fb_blanks_skip (bl_indent b) (S fb) false (0 + N.of_nat (length (bl_empties b))) [] (x :: r) l2 m2
              (match bl_empties b with [] => true | _ => true end) Hi1 ltac:(rewrite Hm2; exact Hi2)) as [l3 E3].
  exists l3, (adv (N.of_nat (length (bl_indent b))) m2), (match bl_empties b with [] => true | _ => true end).
  split; [rewrite adv_col, Hm2; lia|]. split.
  { unfold colq_ok. unfold col_ok in Hi3. rewrite adv_col, Hm2. rewrite adv_col, nlm_col in Hi3. lia. }
  rewrite E2, E3. rewrite fb_stop by assumption. rewrite N.add_0_l. reflexivity.
Qed.
End FB.

(* ================================================================================================= *)
(* items: what a segment of a quoted scalar is made of                                                *)
(* ================================================================================================= *)
Definition iwf (single : bool) : dq_item -> bool := if single then sq_item_wf else item_wf.
Definition isrc (single : bool) : dq_item -> list N := if single then sq_src else item_src.
Definition ssrc (single : bool) (seg : list dq_item) : list N := flat_map (isrc single) seg.

(* does the segment (or, when it is empty, what precedes it: [d]) end with a literal blank? *)
Definition ends_blank (d : bool) (items : list dq_item) : bool :=
  match rev items with i :: _ => is_lit_blank i | [] => d end.
Lemma ends_blank_cons d i items : ends_blank d (i :: items) = ends_blank (is_lit_blank i) items.
Proof.
  unfold ends_blank. cbn [rev]. destruct (rev items) as [|j r]; reflexivity.
Qed.
Lemma ends_blank_last items : ends_blank false items = last_is_lit_blank items.
Proof. reflexivity. Qed.

Lemma lit_blank_inv single i : iwf single i = true -> is_lit_blank i = true ->
  exists c, i = ILit c /\ is_sp c = true /\ isrc single i = [c] /\ item_val i = c.
Proof.
  intros _ H. destruct i as [c| |]; try discriminate H. exists c. cbn [is_lit_blank] in H.
  repeat split; [exact H|]. destruct single; [|reflexivity]. cbn [isrc sq_src].
  destruct (is_sp_cases c H) as [->| ->]; reflexivity.
Qed.

Lemma dq_literal_ordinary c : spec_dq_literal c = true -> ordinary false c = true.
Proof.
  unfold spec_dq_literal, ordinary. intros H. repeat (apply andb_prop in H; destruct H as [H ?]).
  apply N.ltb_lt in H.
  match goal with H1 : negb (c =? 34) = true, H2 : negb (c =? 92) = true |- _ => rewrite H1, H2 end.
  cbn [orb andb]. rewrite andb_true_r. apply negb_true_iff.
  unfold is_blank_or_breakz, is_blank, is_breakz, is_break, is_z.
  repeat match goal with |- context [c =? ?k] => destruct (N.eqb_spec c k); [lia|] end. reflexivity.
Qed.
Lemma sq_literal_ordinary c : (32 <? c) && (c <=? 1114111) = true -> ordinary true c = true.
Proof.
  unfold ordinary. intros H. apply andb_prop in H. destruct H as [H _]. apply N.ltb_lt in H.
  cbn [orb]. rewrite andb_true_r. apply negb_true_iff.
  unfold is_blank_or_breakz, is_blank, is_breakz, is_break, is_z.
  repeat match goal with |- context [c =? ?k] => destruct (N.eqb_spec c k); [lia|] end. reflexivity.
Qed.
Lemma opt_N_eqb_eq a b : opt_N_eqb a b = true -> a = b.
Proof. destruct a, b; cbn; intros H; try discriminate; try reflexivity. apply N.eqb_eq in H. subst. reflexivity. Qed.

(* a well-formed item that is not a literal blank is what FlowScalarProofs.item_ok demands (double quotes) *)
Lemma item_wf_ok i : item_wf i = true -> is_lit_blank i = false -> item_ok i.
Proof.
  destruct i as [c|e v|e ds v]; cbn [item_wf is_lit_blank item_ok]; intros H Hb.
  - rewrite Hb in H. rewrite orb_false_r in H. apply dq_literal_ordinary. exact H.
  - apply opt_N_eqb_eq. exact H.
  - apply andb_prop in H. destruct H as [H Hs]. apply andb_prop in H. destruct H as [He Hv].
    split; [|split; [apply opt_N_eqb_eq; exact Hv|exact Hs]].
    apply existsb_exists in He. destruct He as [[e' n'] [Hin Hp]]. cbn [fst snd] in Hp.
    apply andb_prop in Hp. destruct Hp as [H1 H2]. apply N.eqb_eq in H1. apply Nat.eqb_eq in H2. subst. exact Hin.
Qed.

Section QLoop.
Variable F : nat.
Variable single : bool.
Variable start : marker.
Variable s0 : sc strin.
Notation ops := str_ops.
Notation st := (st_with s0).
Notation q := (quote_of single).
Notation go_t := (list chr -> bool -> N -> list chr -> @M strin (list chr)).

(* one item that is not a literal blank, inside the character loop *)
Lemma item_step i fuel acc l m w tail (K : list chr * bool -> @M strin (list chr)) :
  iwf single i = true -> is_lit_blank i = false ->
  exists l',
    bind (consume_nonws ops (S fuel) single acc start) K (st (isrc single i ++ tail) l m w)
    = bind (consume_nonws ops fuel single (item_val i :: acc) start) K
           (st tail l' (adv (N.of_nat (length (isrc single i))) m) false).
Proof.
  intros Hwf Hb. destruct single eqn:Es; cbn [iwf isrc] in *.
  - (* single quotes: literal characters only *)
    destruct i as [c| |]; try discriminate Hwf. cbn [sq_item_wf is_lit_blank] in *. rewrite Hb, orb_false_r in Hwf.
    pose proof (sq_literal_ordinary c Hwf) as Ho.
    exists (Nat.max l 2). apply bind_congr.
    pose proof (consume_nonws_step true c fuel acc start s0 tail l m w Ho) as S1.
    unfold enc1 in S1. cbn [andb sq_src item_val] in *. exact S1.
  - pose proof (item_wf_ok i Hwf Hb) as Hok.
    destruct i as [c|e v|e ds v]; cbn [item_ok item_src item_val] in *.
    + exists (Nat.max l 2). apply bind_congr.
      exact (consume_nonws_step false c fuel acc start s0 tail l m w Hok).
    + exists (Nat.max l 2). cbn [app].
      rewrite (bind_congr _ _ _ _ _ (consume_nonws_escape fuel acc start s0 e tail l m w (named_not_break e v Hok))).
      rewrite bind_assoc. mstep (resolve_escape_named start s0 e v tail (Nat.max l 2) m w Hok). reflexivity.
    + destruct Hok as [Hin [Hv Hsv]]. exists (Nat.max (Nat.max l 2) (length ds)). cbn [app].
      rewrite (bind_congr _ _ _ _ _ (consume_nonws_escape fuel acc start s0 e (ds ++ tail) l m w (numeric_not_break e _ Hin))).
      rewrite bind_assoc.
      pose proof (resolve_escape_numeric start s0 e (length ds) ds v tail (Nat.max l 2) m w Hin eq_refl Hv) as R.
      rewrite Hsv in R. mstep R. cbv beta. rewrite adv_adv.
      replace (N.of_nat (length (92 :: e :: ds))) with (2 + N.of_nat (length ds)) by (cbn [length]; lia).
      reflexivity.
Qed.

(* the first character of an item that is not a literal blank: not a blank, a break, NUL; not '-' or '.' only matters
   at the start of a line (handled through marker_at_col0) *)
Lemma item_first i : iwf single i = true -> is_lit_blank i = false ->
  exists x0 r0, isrc single i = x0 :: r0 /\ plain_head x0 /\ (single = false -> x0 <> 34).
Proof.
  intros Hwf Hb. destruct single eqn:Es; cbn [iwf isrc] in *.
  - destruct i as [c| |]; try discriminate Hwf. cbn [sq_item_wf is_lit_blank] in *. rewrite Hb, orb_false_r in Hwf.
    destruct (ordinary_not_bbz true c (sq_literal_ordinary c Hwf)) as [H1 [H2 H3]].
    cbn [sq_src]. destruct (c =? 39) eqn:E.
    + apply N.eqb_eq in E. subst c. exists 39, [39]. split; [reflexivity|]. split; [repeat split|discriminate].
    + exists c, []. split; [reflexivity|]. split; [repeat split; assumption|discriminate].
  - pose proof (item_wf_ok i Hwf Hb) as Hok.
    destruct i as [c|e v|e ds v]; cbn [item_ok item_src] in *.
    + exists c, []. split; [reflexivity|]. split; [exact (ordinary_not_bbz false c Hok)|].
      intros _ ->. discriminate Hok.
    + exists 92, [e]. split; [reflexivity|]. split; [repeat split|discriminate].
    + exists 92, (e :: ds). split; [reflexivity|]. split; [repeat split|discriminate].
Qed.

(* ---- the head of an iteration ---- *)
Lemma loop_body_head (go : go_t) acc lb tb ws x tail l m w :
  is_z x = false -> (m_col m = 0 -> doc_ind (x :: tail) = false) -> colq_ok s0 m ->
  loop_body F single start go acc lb tb ws (st (x :: tail) l m w)
  = bind (consume_nonws ops F single acc start) (after_word F single go lb tb ws) (st (x :: tail) (Nat.max l 4) m w).
Proof.
  intros Hz Hdi Hi. unfold loop_body.
  mstep (look_st 4 s0 (x :: tail) l m w).
  mstep (get_st s0 (x :: tail) (Nat.max l 4) m w).
  cbn [sc_mark st_with].
  assert (Edi : (if m_col m =? 0 then next_is_document_indicator ops else ret false) (st (x :: tail) (Nat.max l 4) m w)
                = Ok (false, st (x :: tail) (Nat.max l 4) m w)).
  { destruct (N.eqb_spec (m_col m) 0) as [E|E]; [|reflexivity]. rewrite nidi_st by lia. rewrite (Hdi E). reflexivity. }
  mstep Edi. cbv iota.
  unfold next_is, peek. rewrite bind_assoc. mstep (peekn_st 0 s0 (x :: tail) (Nat.max l 4) m w).
  cbn [nth]. rewrite Hz. rewrite (bind_Ok (ret false) _ _ false _ eq_refl). cbv iota.
  assert (Hlt : col_lt_indent (st (x :: tail) (Nat.max l 4) m w)
                = Ok ((Z.of_N (m_col m) <? sc_indent s0)%Z, st (x :: tail) (Nat.max l 4) m w)) by reflexivity.
  mstep Hlt. replace (Z.of_N (m_col m) <? sc_indent s0)%Z with false by (symmetry; apply Z.ltb_ge; exact Hi).
  reflexivity.
Qed.

Lemma after_word_quote (go : go_t) lb tb ws acc lbl r l m w :
  after_word F single go lb tb ws (acc, lbl) (st (q :: r) l m w) = Ok (acc, st (q :: r) (Nat.max l 1) m w).
Proof.
  cbn [after_word]. unfold look_ch, peek. rewrite bind_assoc.
  mstep (look_st 1 s0 (q :: r) l m w). mstep (peekn_st 0 s0 (q :: r) (Nat.max l 1) m w). cbn [nth].
  destruct single; reflexivity.
Qed.
Lemma after_word_blanks (go : go_t) lb tb ws acc lbl c l m w :
  (single && (nth 0 c 0 =? 39)) || (negb single && (nth 0 c 0 =? 34)) = false ->
  after_word F single go lb tb ws (acc, lbl) (st c l m w)
  = bind (flow_blanks ops F lbl lb tb ws) (after_blanks go acc) (st c (Nat.max l 1) m w).
Proof.
  intros H. cbn [after_word]. unfold look_ch, peek. rewrite bind_assoc.
  mstep (look_st 1 s0 c l m w). mstep (peekn_st 0 s0 c (Nat.max l 1) m w). rewrite H. reflexivity.
Qed.
Lemma not_quote_blank c : is_blank c = true -> (single && (c =? 39)) || (negb single && (c =? 34)) = false.
Proof. intros H. destruct (blank_cases c H) as [->| ->]; destruct single; reflexivity. Qed.

(* ---- one segment ---- *)
Section Seg.
Variable x : N.
Variable tail : list N.
Variable Q : list chr -> marker -> outcome (list chr * sc strin) -> Prop.
Variable B : nat.
Hypothesis Hafter : forall fc f acc l m w, (B <= fc)%nat -> (B <= f)%nat -> colq_ok s0 m ->
  Q acc m (bind (consume_nonws ops fc single acc start) (after_word F single (loop F single start f) false 0 []) (st (x :: tail) l m w)).
Hypothesis Hxz : is_z x = false.

Definition PWq (items : list dq_item) : Prop := forall fc f acc l m w,
  forallb (iwf single) items = true -> (ends_blank false items = true -> plain_head x) ->
  (B + length items <= fc)%nat -> (B + length items <= f)%nat -> (B + length items + 2 <= F)%nat -> colq_ok s0 m ->
  Q (rev (map item_val items) ++ acc) (adv (N.of_nat (length (ssrc single items))) m)
    (bind (consume_nonws ops fc single acc start) (after_word F single (loop F single start f) false 0 [])
          (st (ssrc single items ++ x :: tail) l m w)).

Definition PBq (b : N) (items : list dq_item) : Prop := forall fb f acc ws l m w,
  is_sp b = true -> forallb (iwf single) items = true -> (ends_blank true items = true -> plain_head x) ->
  (length items + 1 < fb)%nat -> (B + length items + 1 <= f)%nat -> (B + length items + 2 <= F)%nat -> colq_ok s0 m ->
  Q (rev (map item_val items) ++ b :: ws ++ acc) (adv (N.of_nat (S (length (ssrc single items)))) m)
    (bind (flow_blanks ops fb false false 0 ws) (after_blanks (loop F single start f) acc)
          (st (b :: ssrc single items ++ x :: tail) l m w)).

Lemma adv_col_ne0 m : m_col (adv 1 m) <> 0.
Proof. rewrite adv_col. lia. Qed.

Lemma PWq_PBq : forall items, PWq items /\ (forall b, PBq b items).
Proof.
  induction items as [|i items [IHW IHB]].
  - split.
    + intros fc f acc l m w _ _ Hfc Hf _ Hm. cbn [ssrc flat_map app length map rev].
      change (N.of_nat 0) with 0. rewrite adv_0. apply Hafter; [lia|lia|exact Hm].
    + intros b fb f acc ws l m w Hb _ Hend Hfb Hf HF Hm.
      destruct (Hend eq_refl) as [Hx1 [Hx2 _]].
      destruct fb as [|[|fb]]; [cbn in Hfb; lia|cbn in Hfb; lia|].
      cbn [ssrc flat_map app length map rev].
      rewrite (bind_congr _ _ _ _ _ (fb_blank_ws s0 (S fb) false 0 ws b (x :: tail) l m w Hb)).
      rewrite (bind_Ok _ _ _ _ _ (fb_stop s0 fb false false 0 (b :: ws) (x :: tail) _ _ w Hx1 Hx2)).
      cbn [after_blanks]. destruct f as [|f]; [cbn in Hf; lia|]. cbn [loop].
      rewrite loop_body_head; [|exact Hxz|intros E; exfalso; exact (adv_col_ne0 m E)|apply colq_ok_adv; exact Hm].
      apply Hafter; [cbn in HF; lia|cbn in Hf; lia|apply colq_ok_adv; exact Hm].
  - assert (W : PWq (i :: items)).
    { intros fc f acc l m w Hwf Hend Hfc Hf HF Hm.
      cbn [forallb] in Hwf. apply andb_prop in Hwf. destruct Hwf as [Hi Hwf].
      rewrite ends_blank_cons in Hend.
      destruct fc as [|fc]; [cbn in Hfc; lia|].
      cbn [ssrc flat_map]. fold (ssrc single items). rewrite <- app_assoc.
      cbn [map rev]. rewrite <- app_assoc. cbn [app].
      rewrite app_length, Nat2N.inj_add, <- adv_adv.
      destruct (is_lit_blank i) eqn:Eb.
      - (* a literal blank: the word is over *)
        destruct (lit_blank_inv single i Hi Eb) as [c [-> [Hc [Hsrc Hval]]]].
        rewrite Hsrc. cbn [item_val app length]. change (N.of_nat 1) with 1.
        rewrite (bind_Ok _ _ _ _ _ (consume_nonws_stop single c _ fc acc start s0 l m w (or_introl Hc))).
        rewrite after_word_blanks by (cbn [nth]; apply not_quote_blank; exact Hc).
        rewrite adv_1_n.
        apply (IHB c F f acc [] _ m w); try assumption; cbn [length] in *; lia.
      - (* an ordinary character or an escape *)
        destruct (item_step i fc acc l m w (ssrc single items ++ x :: tail)
                    (after_word F single (loop F single start f) false 0 []) Hi Eb) as [l' E].
        rewrite E.
        apply (IHW fc f (item_val i :: acc) l' _ false); try assumption; try (cbn [length] in *; lia).
        apply colq_ok_adv. exact Hm. }
    split; [exact W|].
    intros b fb f acc ws l m w Hb Hwf Hend Hfb Hf HF Hm.
    assert (Hwf' := Hwf). cbn [forallb] in Hwf'. apply andb_prop in Hwf'. destruct Hwf' as [Hi Hwf'].
    destruct fb as [|fb]; [cbn in Hfb; lia|].
    rewrite (bind_congr _ _ _ _ _ (fb_blank_ws s0 fb false 0 ws b (ssrc single (i :: items) ++ x :: tail) l m w Hb)).
    destruct (is_lit_blank i) eqn:Eb.
    + (* another blank *)
      destruct (lit_blank_inv single i Hi Eb) as [c [-> [Hc [Hsrc Hval]]]].
      rewrite ends_blank_cons in Hend. cbn [is_lit_blank] in Hend. rewrite Hc in Hend.
      cbn [ssrc flat_map]. fold (ssrc single items). rewrite Hsrc. cbn [app length map rev item_val].
      rewrite <- app_assoc. cbn [app].
      replace (adv (N.of_nat (S (S (length (ssrc single items))))) m)
        with (adv (N.of_nat (S (length (ssrc single items)))) (adv 1 m)) by (rewrite adv_1_n; reflexivity).
      apply (IHB c fb f acc (b :: ws) _ (adv 1 m) w); try assumption; try (cbn [length] in *; lia).
      apply colq_ok_adv. exact Hm.
    + (* the next word starts: a new iteration *)
      destruct (item_first i Hi Eb) as [x0 [r0 [Ex [[Hx1 [Hx2 Hx3]] _]]]].
      assert (Ee : ssrc single (i :: items) ++ x :: tail = x0 :: (r0 ++ ssrc single items ++ x :: tail)).
      { cbn [ssrc flat_map]. fold (ssrc single items). rewrite Ex. cbn [app]. rewrite <- app_assoc. reflexivity. }
      destruct fb as [|fb]; [cbn in Hfb; lia|].
      rewrite Ee.
      rewrite (bind_Ok _ _ _ _ _ (fb_stop s0 fb false false 0 (b :: ws) (x0 :: r0 ++ ssrc single items ++ x :: tail) _ _ w Hx1 Hx2)).
      cbn [after_blanks]. destruct f as [|f]; [cbn in Hf; lia|]. cbn [loop].
      rewrite loop_body_head; [|exact Hx3|intros E; exfalso; exact (adv_col_ne0 m E)|apply colq_ok_adv; exact Hm].
      rewrite <- Ee.
      replace (adv (N.of_nat (S (length (ssrc single (i :: items))))) m)
        with (adv (N.of_nat (length (ssrc single (i :: items)))) (adv 1 m)) by (rewrite adv_1_n; reflexivity).
      replace (rev (map item_val (i :: items)) ++ b :: ws ++ acc)
        with (rev (map item_val (i :: items)) ++ (b :: ws) ++ acc) by reflexivity.
      apply (W F f ((b :: ws) ++ acc) _ (adv 1 m) w); try assumption; try (cbn [length] in *; lia).
      * rewrite ends_blank_cons in Hend |- *. exact Hend.
      * apply colq_ok_adv. exact Hm.
Qed.
End Seg.

(* ---- the separators between segments ---- *)
Lemma consume_nonws_bbz x r fuel acc l m w :
  is_blank_or_breakz x = true ->
  consume_nonws ops (S fuel) single acc start (st (x :: r) l m w) = Ok ((acc, false), st (x :: r) (Nat.max l 2) m w).
Proof.
  intros H. cbn [consume_nonws]. mstep (look_st 2 s0 (x :: r) l m w). unfold peek.
  mstep (peekn_st 0 s0 (x :: r) (Nat.max l 2) m w). cbn [nth]. rewrite H. reflexivity.
Qed.

Lemma skip_linebreak_nl k r l m w : (2 <= l)%nat -> cr_ok k r ->
  skip_linebreak ops (st (nl_src k ++ r) l m w) = Ok (tt, st r l (nl_mark k m) true).
Proof.
  intros Hl Hk. unfold skip_linebreak, next_2_are.
  assert (A2 : forall c, assert_buflen ops 2 103 (st c l m w) = Ok (tt, st c l m w)).
  { intros c. unfold assert_buflen. cbn [buflen str_ops sc_in st_with si_look].
    replace (Nat.ltb l 2) with false by (symmetry; apply Nat.ltb_ge; exact Hl). reflexivity. }
  rewrite !bind_assoc. mstep (A2 (nl_src k ++ r)). unfold peek. rewrite !bind_assoc.
  mstep (peekn_st 0 s0 (nl_src k ++ r) l m w). rewrite !bind_assoc. mstep (peekn_st 1 s0 (nl_src k ++ r) l m w).
  destruct k; cbn [nl_src app nth].
  - change (10 =? 13) with false. cbn [andb]. rewrite (bind_Ok (ret false) _ _ _ _ eq_refl). cbv iota.
    mstep (peekn_st 0 s0 (10 :: r) l m w). reflexivity.
  - change (13 =? 13) with true. rewrite (Hk eq_refl). cbn [andb]. rewrite (bind_Ok (ret false) _ _ _ _ eq_refl). cbv iota.
    mstep (peekn_st 0 s0 (13 :: r) l m w). reflexivity.
  - reflexivity.
Qed.

(* backslash + break inside double quotes: both are consumed, nothing is appended, "leading blanks" is set *)
Lemma consume_nonws_escbrk k r fuel acc l m w :
  single = false -> cr_ok k r ->
  consume_nonws ops (S fuel) single acc start (st (92 :: nl_src k ++ r) l m w)
  = Ok ((acc, true), st r (Nat.max (Nat.max l 2) 3) (nl_mark k (adv 1 m)) true).
Proof.
  intros Es Hk. rewrite Es. cbn [consume_nonws]. mstep (look_st 2 s0 (92 :: nl_src k ++ r) l m w). unfold peek.
  mstep (peekn_st 0 s0 (92 :: nl_src k ++ r) (Nat.max l 2) m w). cbn [nth].
  change (is_blank_or_breakz 92) with false. cbv iota.
  mstep (peekn_st 1 s0 (92 :: nl_src k ++ r) (Nat.max l 2) m w). cbn [nth].
  change (92 =? 39) with false. change (92 =? 34) with false. change (92 =? 92) with true.
  rewrite (proj2 (nl_head k r)).
  cbn [andb negb]. cbv iota.
  mstep (look_st 3 s0 (92 :: nl_src k ++ r) (Nat.max l 2) m w).
  mstep (skip_non_blank_st s0 (92 :: nl_src k ++ r) (Nat.max (Nat.max l 2) 3) m w). cbn [tl].
  mstep (skip_linebreak_nl k r (Nat.max (Nat.max l 2) 3) (adv 1 m) false ltac:(lia) Hk). reflexivity.
Qed.

(* what stands between / after segments never is NUL, '-' or '.' *)
Definition sep_head (x : N) : Prop := is_z x = false /\ x <> 45 /\ x <> 46.

Lemma src_no_nul i : iwf single i = true -> Forall (fun c => c <> 0) (isrc single i).
Proof.
  intros Hwf. destruct (is_lit_blank i) eqn:Eb.
  - destruct (lit_blank_inv single i Hwf Eb) as [c [-> [Hc [Hsrc _]]]]. rewrite Hsrc. constructor; [|constructor].
    intros ->. discriminate Hc.
  - destruct single eqn:Es; cbn [iwf isrc] in *.
    + destruct i as [c| |]; try discriminate Hwf. cbn [sq_item_wf is_lit_blank] in *. rewrite Eb, orb_false_r in Hwf.
      apply andb_prop in Hwf. destruct Hwf as [H _]. apply N.ltb_lt in H. cbn [sq_src].
      destruct (c =? 39); repeat constructor; lia.
    + pose proof (item_wf_ok i Hwf Eb) as Hok.
      destruct i as [c|e v|e ds v]; cbn [item_ok item_src] in *.
      * constructor; [|constructor]. intros ->. discriminate Hok.
      * constructor; [discriminate|]. constructor; [|constructor]. intros ->. discriminate Hok.
      * destruct Hok as [Hin [Hv _]]. constructor; [discriminate|]. constructor.
        { destruct Hin as [H|[H|[H|[]]]]; inversion H; discriminate. }
        pose proof (hex_value_digits ds v Hv) as Hd. clear -Hd. induction Hd as [|d r Hd _ IH]; constructor; [|exact IH].
        intros ->. discriminate Hd.
Qed.
Lemma ssrc_no_nul seg : forallb (iwf single) seg = true -> Forall (fun c => c <> 0) (ssrc single seg).
Proof.
  induction seg as [|i seg IH]; intros H; [constructor|].
  cbn [forallb] in H. apply andb_prop in H. destruct H as [Hi H]. cbn [ssrc flat_map].
  apply Forall_app. split; [apply src_no_nul; exact Hi|apply IH; exact H].
Qed.

Lemma q_no_marker S x tail :
  Forall (fun c => c <> 0) S -> marker_at_col0 [] S = false -> sep_head x ->
  doc_ind (S ++ x :: tail) = false.
Proof.
  intros Hnz Hm [_ [H45 H46]]. unfold doc_ind.
  destruct (((nth 0 (S ++ x :: tail) 0 =? 46) && (nth 1 (S ++ x :: tail) 0 =? 46) && (nth 2 (S ++ x :: tail) 0 =? 46))
            || ((nth 0 (S ++ x :: tail) 0 =? 45) && (nth 1 (S ++ x :: tail) 0 =? 45) && (nth 2 (S ++ x :: tail) 0 =? 45))) eqn:E;
    [|apply andb_false_r].
  rewrite andb_true_r.
  assert (Hd : forall a b c, ((a =? 46) && (b =? 46) && (c =? 46)) || ((a =? 45) && (b =? 45) && (c =? 45)) = true ->
               (a = 45 \/ a = 46) /\ (b = 45 \/ b = 46) /\ (c = 45 \/ c = 46)).
  { intros a b c H. apply orb_prop in H. destruct H as [H|H]; apply andb_prop in H; destruct H as [H H3];
      apply andb_prop in H; destruct H as [H1 H2]; apply N.eqb_eq in H1, H2, H3; subst; auto. }
  destruct S as [|a [|b [|c [|d r]]]]; cbn [app nth] in *.
  - exfalso. destruct (Hd _ _ _ E) as [[H|H] _]; contradiction.
  - exfalso. destruct (Hd _ _ _ E) as [_ [[H|H] _]]; contradiction.
  - exfalso. destruct (Hd _ _ _ E) as [_ [_ [H|H]]]; contradiction.
  - exfalso. cbn [marker_at_col0] in Hm. rewrite andb_true_r in Hm. rewrite orb_comm in Hm. congruence.
  - cbn [marker_at_col0] in Hm. rewrite orb_comm in Hm. rewrite E in Hm. cbn [andb] in Hm.
    unfold is_blank_or_breakz, is_blank, is_breakz, is_break, is_z.
    apply orb_false_elim in Hm. destruct Hm as [Hm1 Hm2]. apply orb_false_elim in Hm1. destruct Hm1 as [Hm0 Hm1].
    unfold is_sp in Hm0. rewrite Hm0, Hm1, Hm2. cbn [orb].
    inversion Hnz as [|? ? _ H1]; subst. inversion H1 as [|? ? _ H2]; subst. inversion H2 as [|? ? _ H3]; subst.
    inversion H3 as [|? ? Hd0 _]; subst. apply N.eqb_neq. exact Hd0.
Qed.

Lemma fold_acc k (go : go_t) acc :
  after_blanks go acc (true, true, N.of_nat k, []) = go (rev (break_text (Folded k)) ++ acc) false 0 [].
Proof.
  cbn [after_blanks negb]. destruct k as [|k]; [reflexivity|].
  replace (N.of_nat (S k) =? 0) with false by (symmetry; apply N.eqb_neq; lia).
  rewrite nls_repeat. cbn [break_text]. rewrite rev_repeat10. reflexivity.
Qed.
Lemma esc_acc k (go : go_t) acc :
  after_blanks go acc (true, false, N.of_nat k, []) = go (rev (break_text (Escaped k)) ++ acc) false 0 [].
Proof.
  cbn [after_blanks negb]. rewrite nls_repeat. cbn [break_text]. rewrite rev_repeat10. reflexivity.
Qed.

(* ---- a break and the segment after it ---- *)
Variable n : nat.
Hypothesis Hn : (sc_indent s0 < Z.of_nat n)%Z.

Lemma render_brk_len b : (1 <= length (render_brk b))%nat.
Proof. unfold render_brk. rewrite !app_length. pose proof (nl_src_len (bl_nl b)). lia. Qed.

(* from the head of the iteration that starts a segment (marker-aware conclusion) *)
Lemma seg_from_head_m x' tail' (Q : list chr -> marker -> outcome (list chr * sc strin) -> Prop) B
  (Hafter' : forall fc f acc l m w, (B <= fc)%nat -> (B <= f)%nat -> colq_ok s0 m ->
     Q acc m (bind (consume_nonws ops fc single acc start) (after_word F single (loop F single start f) false 0 []) (st (x' :: tail') l m w)))
  (Hsep' : sep_head x') seg f acc l m w :
  forallb (iwf single) seg = true ->
  (m_col m = 0 -> marker_at_col0 [] (ssrc single seg) = false) ->
  (ends_blank false seg = true -> plain_head x') ->
  (B + length seg + 1 <= f)%nat -> (B + length seg + 2 <= F)%nat -> colq_ok s0 m ->
  Q (rev (map item_val seg) ++ acc) (adv (N.of_nat (length (ssrc single seg))) m)
    (loop F single start f acc false 0 [] (st (ssrc single seg ++ x' :: tail') l m w)).
Proof.
  intros Hwf Hmk Hend Hf HF Hm.
  destruct f as [|f]; [lia|]. cbn [loop].
  assert (Hhead : exists y r, ssrc single seg ++ x' :: tail' = y :: r /\ is_z y = false).
  { pose proof (ssrc_no_nul seg Hwf) as Hnz.
    destruct (ssrc single seg) as [|y r]; [exists x', tail'; split; [reflexivity|exact (proj1 Hsep')]|].
    exists y, (r ++ x' :: tail'). split; [reflexivity|]. inversion Hnz as [|? ? Hy _]; subst. apply N.eqb_neq. exact Hy. }
  destruct Hhead as [y [r [Ey Hy]]]. rewrite Ey.
  rewrite loop_body_head; [|exact Hy| |exact Hm].
  2:{ intros E. rewrite <- Ey. apply q_no_marker; [apply ssrc_no_nul; exact Hwf|exact (Hmk E)|exact Hsep']. }
  rewrite <- Ey.
  destruct (PWq_PBq x' tail' Q B Hafter' (proj1 Hsep') seg) as [W _].
  apply (W F f acc _ m w); try assumption; lia.
Qed.

Section Step.
Variable x' : N.
Variable tail' : list N.
Variable Q' : list chr -> outcome (list chr * sc strin) -> Prop.
Variable B : nat.
Hypothesis Hafter' : forall fc f acc l m w, (B <= fc)%nat -> (B <= f)%nat -> colq_ok s0 m ->
  Q' acc (bind (consume_nonws ops fc single acc start) (after_word F single (loop F single start f) false 0 []) (st (x' :: tail') l m w)).
Hypothesis Hsep' : sep_head x'.

(* from the head of the iteration that starts the segment *)
Lemma seg_from_head seg f acc l m w :
  forallb (iwf single) seg = true -> first_is_lit_blank seg = false ->
  (m_col m = 0 -> marker_at_col0 [] (ssrc single seg) = false) ->
  (ends_blank false seg = true -> plain_head x') ->
  (B + length seg + 1 <= f)%nat -> (B + length seg + 2 <= F)%nat -> colq_ok s0 m ->
  Q' (rev (map item_val seg) ++ acc) (loop F single start f acc false 0 [] (st (ssrc single seg ++ x' :: tail') l m w)).
Proof.
  intros Hwf _ Hmk Hend Hf HF Hm.
  exact (seg_from_head_m x' tail' (fun a _ o => Q' a o) B Hafter' Hsep' seg f acc l m w Hwf Hmk Hend Hf HF Hm).
Qed.

Lemma seg_step_folded b seg fc f acc l m w :
  brk_wf n b = true -> bl_escaped b = false ->
  forallb (iwf single) seg = true -> first_is_lit_blank seg = false ->
  marker_at_col0 (bl_indent b) (ssrc single seg) = false ->
  (ends_blank false seg = true -> plain_head x') -> (seg = [] -> plain_head x') ->
  (1 <= fc)%nat -> (B + length seg + 2 <= f)%nat -> (B + length seg + length (render_brk b) + 2 <= F)%nat -> colq_ok s0 m ->
  Q' (rev (map item_val seg) ++ rev (break_text (brk_of b)) ++ acc)
     (bind (consume_nonws ops fc single acc start) (after_word F single (loop F single start f) false 0 [])
           (st (render_brk b ++ ssrc single seg ++ x' :: tail') l m w)).
Proof.
  intros Hb He Hwf Hfirst Hmk Hend Hnil Hfc Hf HF Hm.
  assert (Hpad : forallb is_sp (bl_pad b) = true).
  { unfold brk_wf in Hb. do 3 (apply andb_prop in Hb; destruct Hb as [Hb ?]). exact Hb. }
  (* the first character of the break: a blank of the padding or the line feed *)
  assert (Hy : exists y r, render_brk b ++ ssrc single seg ++ x' :: tail' = y :: r /\ is_blank_or_breakz y = true
                           /\ (single && (y =? 39)) || (negb single && (y =? 34)) = false).
  { unfold render_brk. rewrite He. destruct (bl_pad b) as [|p ps].
    - cbn [app]. destruct (bl_nl b); cbn [nl_src app]; eexists; eexists; (split; [reflexivity|]); (split; [reflexivity|]); destruct single; reflexivity.
    - cbn [forallb] in Hpad. apply andb_prop in Hpad. destruct Hpad as [Hp _]. cbn [app].
      eexists; eexists. split; [reflexivity|]. split; [unfold is_blank_or_breakz; rewrite is_blank_sp, Hp; reflexivity|].
      apply not_quote_blank. exact Hp. }
  destruct Hy as [y [r [Ey [Hy1 Hy2]]]].
  destruct fc as [|fc]; [lia|].
  rewrite Ey. rewrite (bind_Ok _ _ _ _ _ (consume_nonws_bbz y r fc acc l m w Hy1)).
  rewrite after_word_blanks by (cbn [nth]; exact Hy2).
  rewrite <- Ey.
  (* the first character after the break *)
  assert (Hx1 : exists x1 r1, ssrc single seg ++ x' :: tail' = x1 :: r1 /\ is_blank x1 = false /\ is_break x1 = false).
  { destruct seg as [|i seg].
    - destruct (Hnil eq_refl) as [H1 [H2 _]]. exists x', tail'. auto.
    - cbn [forallb] in Hwf. apply andb_prop in Hwf. destruct Hwf as [Hi _]. cbn [first_is_lit_blank] in Hfirst.
      destruct (item_first i Hi Hfirst) as [x0 [r0 [Ex [[H1 [H2 _]] _]]]].
      cbn [ssrc flat_map]. rewrite Ex. cbn [app]. eauto. }
  destruct Hx1 as [x1 [r1 [Ex1 [Hb1 Hk1]]]]. rewrite Ex1.
  pose proof (brk_cost_le b) as Hcost.
  destruct (fb_brk s0 n Hn b (F - brk_cost b - 1) x1 r1 (Nat.max (Nat.max l 2) 1) m w Hb He Hb1 Hk1) as [l' [m' [Hcol [Hm' E]]]].
  replace (brk_cost b + S (F - brk_cost b - 1))%nat with F in E by lia.
  rewrite (bind_Ok _ _ _ _ _ E). rewrite fold_acc. rewrite <- Ex1.
  unfold brk_of. rewrite He.
  apply seg_from_head; try assumption; try lia.
  intros Hz. rewrite Hz in Hcol.
  assert (Hi : bl_indent b = []) by (destruct (bl_indent b); [reflexivity|cbn [length] in Hcol; lia]).
  rewrite Hi in Hmk. exact Hmk.
Qed.

Lemma seg_step_escaped b seg fc f acc l m w :
  single = false ->
  brk_wf n b = true -> bl_escaped b = true ->
  forallb (iwf single) seg = true -> first_is_lit_blank seg = false ->
  marker_at_col0 (bl_indent b) (ssrc single seg) = false ->
  (ends_blank false seg = true -> plain_head x') ->
  (seg = [] -> x' = q /\ forall acc l m w, Q' acc (Ok (acc, st (x' :: tail') l m w))) ->
  (1 <= fc)%nat -> (B + length seg + 2 <= f)%nat -> (B + length seg + length (render_brk b) + 2 <= F)%nat -> colq_ok s0 m ->
  Q' (rev (map item_val seg) ++ rev (break_text (brk_of b)) ++ acc)
     (bind (consume_nonws ops fc single acc start) (after_word F single (loop F single start f) false 0 [])
           (st (render_brk b ++ ssrc single seg ++ x' :: tail') l m w)).
Proof.
  intros Es Hb He Hwf Hfirst Hmk Hend HQ Hfc Hf HF Hm.
  assert (Hb0 := Hb).
  unfold brk_wf in Hb0. do 2 (apply andb_prop in Hb0; destruct Hb0 as [Hb0 ?]). apply andb_prop in Hb0. destruct Hb0 as [_ Hp].
  match goal with H : forallb (empty_wf n) _ = true |- _ => rename H into Hes end.
  match goal with H : indent_wf n _ = true |- _ => rename H into Hind end.
  assert (Hpad : bl_pad b = []).
  { rewrite He in Hp. cbn [negb orb] in Hp. destruct (bl_pad b); [reflexivity|discriminate Hp]. }
  set (E := flat_map (fun e => e ++ nl_src (bl_nl b)) (bl_empties b)) in *.
  assert (Hlen : (ecost (bl_empties b) + length (bl_indent b) + 2 <= length (render_brk b))%nat).
  { unfold render_brk. rewrite He, Hpad. cbn [app length]. rewrite !app_length.
    pose proof (nl_src_len (bl_nl b)). pose proof (ecost_le (bl_nl b) (bl_empties b)). lia. }
  assert (Hsrc : render_brk b ++ ssrc single seg ++ x' :: tail' = 92 :: nl_src (bl_nl b) ++ (E ++ bl_indent b) ++ ssrc single seg ++ x' :: tail').
  { unfold render_brk. rewrite He, Hpad. cbn [app]. rewrite <- !app_assoc. reflexivity. }
  rewrite Hsrc. clear Hsrc.
  destruct fc as [|fc]; [lia|].
  unfold brk_of. rewrite He.
  (* the first character of the next segment (or, if it is empty, of what follows) *)
  assert (Hx1 : exists x1 r1, ssrc single seg ++ x' :: tail' = x1 :: r1 /\ is_blank x1 = false /\ is_break x1 = false
                              /\ (seg <> [] -> x1 <> 34)).
  { destruct seg as [|i seg].
    - destruct (HQ eq_refl) as [Hq _]. exists x', tail'. rewrite Hq, Es. repeat split. intros H; contradiction.
    - cbn [forallb] in Hwf. apply andb_prop in Hwf. destruct Hwf as [Hi _]. cbn [first_is_lit_blank] in Hfirst.
      destruct (item_first i Hi Hfirst) as [x0 [r0 [Ex [[H1 [H2 _]] H34]]]].
      cbn [ssrc flat_map]. rewrite Ex. cbn [app]. exists x0. eexists. repeat split; auto. }
  destruct Hx1 as [x1 [r1 [Ex1 [Hb1 [Hk1 H34]]]]].
  assert (Hcr : cr_ok (bl_nl b) ((E ++ bl_indent b) ++ ssrc single seg ++ x' :: tail')).
  { rewrite <- app_assoc. rewrite Ex1. subst E. apply cr_ok_flat; [apply (empties_blank_q s0 n Hn); exact Hes|].
    apply cr_ok_blanks; [|exact Hk1]. unfold indent_wf in Hind. apply andb_prop in Hind. tauto. }
  rewrite (bind_Ok _ _ _ _ _ (consume_nonws_escbrk (bl_nl b) _ fc acc l m w Es Hcr)).
  (* is the very next character the closing quote? *)
  assert (Hcase : (E ++ bl_indent b = [] /\ seg = [])
                  \/ (single && (nth 0 ((E ++ bl_indent b) ++ ssrc single seg ++ x' :: tail') 0 =? 39))
                      || (negb single && (nth 0 ((E ++ bl_indent b) ++ ssrc single seg ++ x' :: tail') 0 =? 34)) = false).
  { rewrite Es. cbn [andb negb orb].
    destruct (bl_empties b) as [|e es] eqn:Ees.
    - subst E. cbn [flat_map app]. destruct (bl_indent b) as [|c cs] eqn:Eind.
      + cbn [app]. destruct seg as [|i seg'] eqn:Eseg; [left; split; reflexivity|].
        right. rewrite Es in Ex1. rewrite Ex1. cbn [nth]. apply N.eqb_neq. apply H34. discriminate.
      + right. cbn [app nth]. unfold indent_wf in Hind. apply andb_prop in Hind. destruct Hind as [Hsp _].
        cbn [forallb] in Hsp. apply andb_prop in Hsp. destruct Hsp as [Hc _].
        destruct (is_sp_cases c Hc) as [->| ->]; reflexivity.
    - right. subst E. cbn [flat_map]. cbn [forallb] in Hes. apply andb_prop in Hes. destruct Hes as [He1 _].
      destruct e as [|c e'].
      + cbn [app]. destruct (bl_nl b); reflexivity.
      + cbn [app nth].
        assert (Hc : is_sp c = true).
        { unfold empty_wf, indent_wf in He1. apply orb_prop in He1. destruct He1 as [H1|H1]; apply andb_prop in H1; destruct H1 as [H1 _];
            cbn [forallb] in H1; apply andb_prop in H1; destruct H1 as [H1 _]; [exact H1|].
          apply N.eqb_eq in H1. subst c. reflexivity. }
        destruct (is_sp_cases c Hc) as [->| ->]; reflexivity. }
  destruct Hcase as [[Hnil Hseg]|Hnq].
  - (* an escaped break right before the closing quote *)
    destruct (HQ Hseg) as [Hq HQ']. rewrite Hnil, Hseg. cbn [app ssrc flat_map map rev].
    assert (Hk : bl_empties b = []).
    { subst E. destruct (bl_empties b) as [|e es]; [reflexivity|]. cbn [flat_map] in Hnil.
      apply (f_equal (@length N)) in Hnil. rewrite !app_length in Hnil. pose proof (nl_src_len (bl_nl b)). cbn [length] in Hnil. lia. }
    rewrite Hk. cbn [length break_text repeat rev app].
    rewrite Hq. rewrite after_word_quote. rewrite <- Hq. apply HQ'.
  - rewrite after_word_blanks by exact Hnq.
    rewrite <- app_assoc. rewrite Ex1.
    destruct (fb_brk_escaped s0 n Hn b (F - (ecost (bl_empties b) + length (bl_indent b)) - 1) x1 r1
                (Nat.max (Nat.max (Nat.max l 2) 3) 1) (nl_mark (bl_nl b) (adv 1 m)) Hb Hb1 Hk1 (nl_mark_col _ _)) as [l' [m' [w' [Hcol [Hm' Eb]]]]].
    fold E in Eb.
    replace (ecost (bl_empties b) + length (bl_indent b) + S (F - (ecost (bl_empties b) + length (bl_indent b)) - 1))%nat with F in Eb by lia.
    rewrite (bind_Ok _ _ _ _ _ Eb). rewrite esc_acc. rewrite <- Ex1.
    apply seg_from_head; try assumption; try lia.
    intros Hz. rewrite Hz in Hcol.
    assert (Hi : bl_indent b = []) by (destruct (bl_indent b); [reflexivity|cbn [length] in Hcol; lia]).
    rewrite Hi in Hmk. exact Hmk.
Qed.
End Step.

(* ---- all the segments after the first ---- *)
Variable rest : list N.
Hypothesis Hclose : single = true -> (nth 0 rest 0 =? 39) = false.

Definition rest_src (more : list (brk_layout * list dq_item)) : list N :=
  flat_map (fun p => render_brk (fst p) ++ ssrc single (snd p)) more.
Fixpoint qrest_text (more : list (brk_layout * list dq_item)) : list N :=
  match more with [] => [] | (b, seg) :: r => break_text (brk_of b) ++ map item_val seg ++ qrest_text r end.

Definition Qfin (more : list (brk_layout * list dq_item)) (acc : list chr) (o : outcome (list chr * sc strin)) : Prop :=
  exists l w m', o = Ok (rev (qrest_text more) ++ acc, st (q :: rest) l m' w).

Lemma at_quote fc f acc l m w : (1 <= fc)%nat ->
  bind (consume_nonws ops fc single acc start) (after_word F single (loop F single start f) false 0 []) (st (q :: rest) l m w)
  = Ok (acc, st (q :: rest) (Nat.max (Nat.max l 2) 1) m w).
Proof.
  intros Hfc. destruct fc as [|fc]; [lia|].
  assert (Hs : stops single q rest) by (right; split; [reflexivity|exact Hclose]).
  rewrite (bind_Ok _ _ _ _ _ (consume_nonws_stop single q rest fc acc start s0 l m w Hs)).
  apply after_word_quote.
Qed.

Lemma sep_head_quote : sep_head q /\ plain_head q.
Proof. destruct single; repeat split; discriminate. Qed.

Lemma segs_run : forall more prev,
  seg_rest_wf (iwf single) (isrc single) n prev more = true ->
  (single = true -> forallb (fun p => negb (bl_escaped (fst p))) more = true) ->
  (exists x tail, rest_src more ++ q :: rest = x :: tail /\ sep_head x /\ (last_is_lit_blank prev = true -> plain_head x)) /\
  (forall fc f acc l m w,
     (1 <= fc)%nat -> (length (rest_src more) + length more + 2 <= f)%nat -> (length (rest_src more) + length more + 4 <= F)%nat ->
     colq_ok s0 m ->
     Qfin more acc (bind (consume_nonws ops fc single acc start) (after_word F single (loop F single start f) false 0 [])
                         (st (rest_src more ++ q :: rest) l m w))).
Proof.
  induction more as [|[b seg] more IH]; intros prev Hwf Hsq.
  - split.
    + exists q, rest. split; [reflexivity|]. destruct sep_head_quote as [H1 H2]. split; [exact H1|intros _; exact H2].
    + intros fc f acc l m w Hfc _ _ _. cbn [rest_src flat_map app]. rewrite at_quote by exact Hfc.
      eexists; eexists; eexists. reflexivity.
  - cbn [seg_rest_wf] in Hwf.
    apply andb_prop in Hwf. destruct Hwf as [Hwf Hrest].
    apply andb_prop in Hwf. destruct Hwf as [Hwf Hinner].
    apply andb_prop in Hwf. destruct Hwf as [Hwf Hmk]. apply negb_true_iff in Hmk.
    apply andb_prop in Hwf. destruct Hwf as [Hwf Hfirst]. apply negb_true_iff in Hfirst.
    apply andb_prop in Hwf. destruct Hwf as [Hwf Hprev].
    apply andb_prop in Hwf. destruct Hwf as [Hb Hitems].
    assert (Hsq' : single = true -> forallb (fun p => negb (bl_escaped (fst p))) more = true).
    { intros E. specialize (Hsq E). cbn [forallb] in Hsq. apply andb_prop in Hsq. tauto. }
    destruct (IH seg Hrest Hsq') as [[x' [tail' [Eafter [Hsep' Hend']]]] Hrun]. clear IH.
    assert (Esrc : rest_src ((b, seg) :: more) ++ q :: rest = render_brk b ++ ssrc single seg ++ x' :: tail').
    { cbn [rest_src flat_map fst snd]. fold (rest_src more). rewrite <- !app_assoc. rewrite Eafter. reflexivity. }
    assert (Hpad : forallb is_sp (bl_pad b) = true).
    { unfold brk_wf in Hb. do 3 (apply andb_prop in Hb; destruct Hb as [Hb ?]). exact Hb. }
    split.
    + (* the first character of the break *)
      rewrite Esrc. unfold render_brk. destruct (bl_escaped b) eqn:He.
      * assert (Hp0 : bl_pad b = []).
        { unfold brk_wf in Hb. do 2 (apply andb_prop in Hb; destruct Hb as [Hb ?]). apply andb_prop in Hb. destruct Hb as [_ Hb].
          rewrite He in Hb. cbn [negb orb] in Hb. destruct (bl_pad b); [reflexivity|discriminate Hb]. }
        rewrite Hp0. cbn [app]. eexists; eexists. split; [reflexivity|]. split; [repeat split; discriminate|].
        intros _. repeat split.
      * cbn [orb] in Hprev. apply negb_true_iff in Hprev.
        destruct (bl_pad b) as [|p ps].
        -- cbn [app]. destruct (bl_nl b); cbn [nl_src app]; eexists; eexists; (split; [reflexivity|]);
             (split; [repeat split; discriminate|]); intros E; congruence.
        -- cbn [forallb] in Hpad. apply andb_prop in Hpad. destruct Hpad as [Hp _]. cbn [app].
           eexists; eexists. split; [reflexivity|]. split; [|intros E; congruence].
           destruct (is_sp_cases p Hp) as [->| ->]; repeat split; discriminate.
    + intros fc f acc l m w Hfc Hf HF Hm. rewrite Esrc.
      assert (Hlen : length (rest_src ((b, seg) :: more)) = (length (render_brk b) + length (ssrc single seg) + length (rest_src more))%nat).
      { cbn [rest_src flat_map fst snd]. fold (rest_src more). rewrite !app_length. lia. }
      assert (Hsl : (length seg <= length (ssrc single seg))%nat).
      { clear. induction seg as [|i seg IH]; [cbn; lia|]. cbn [ssrc flat_map length]. fold (ssrc single seg). rewrite app_length.
        assert (1 <= length (isrc single i))%nat; [|lia].
        destruct single, i as [c| |]; cbn [isrc sq_src item_src length]; try lia. destruct (c =? 39); cbn [length]; lia. }
      pose proof (render_brk_len b) as Hbl.
      cbn [length] in Hf, HF.
      assert (Hgoal : forall o, Qfin more (rev (map item_val seg) ++ rev (break_text (brk_of b)) ++ acc) o -> Qfin ((b, seg) :: more) acc o).
      { intros o [l1 [w1 [m1 E]]]. exists l1, w1, m1. rewrite E. cbn [qrest_text]. rewrite !rev_app_distr, <- !app_assoc. reflexivity. }
      apply Hgoal.
      assert (Hlast : seg = [] -> more = []).
      { intros ->. destruct more; [reflexivity|discriminate Hinner]. }
      destruct (bl_escaped b) eqn:He.
      * assert (Es : single = false).
        { destruct single; [|reflexivity]. specialize (Hsq eq_refl). cbn [forallb fst] in Hsq. rewrite He in Hsq. discriminate Hsq. }
        apply (seg_step_escaped x' tail' (Qfin more) (length (rest_src more) + length more + 2)%nat); try assumption; try lia.
        -- intros fc' f' acc' l' m' w' H1 H2 H3. rewrite <- Eafter. apply Hrun; try assumption; lia.
        -- intros Hs. rewrite (Hlast Hs) in *. cbn [rest_src flat_map app] in Eafter. inversion Eafter; subst.
           split; [reflexivity|]. intros acc' l' m' w'. eexists; eexists; eexists. reflexivity.
      * apply (seg_step_folded x' tail' (Qfin more) (length (rest_src more) + length more + 2)%nat); try assumption; try lia.
        -- intros fc' f' acc' l' m' w' H1 H2 H3. rewrite <- Eafter. apply Hrun; try assumption; lia.
        -- intros Hs. rewrite (Hlast Hs) in *. cbn [rest_src flat_map app] in Eafter. inversion Eafter; subst.
           exact (proj2 sep_head_quote).
Qed.
End QLoop.

(* ================================================================================================= *)
(* after the closing quote                                                                           *)
(* ================================================================================================= *)
(* what may follow a quoted scalar: blanks, then end of line / input, a comment (after a blank), in a flow
   collection one of , ] } and a colon (a key: in block context only when the scalar is on one line) *)
Definition quoted_follower_ok (flow multi : bool) (rest : list N) : bool :=
  let r := drop_leading rest in
  let c := hd 0 r in
  is_breakz c || (flow && ((c =? 44) || (c =? 93) || (c =? 125))) || ((c =? 58) && (flow || negb multi))
  || ((c =? 35) && negb (Nat.eqb (length r) (length rest))).

Section Finish.
Variable s0 : sc strin.
Notation ops := str_ops.
Notation st := (st_with s0).

Lemma in_skip_st c l m w : in_skip ops (st c l m w) = Ok (tt, st (tl c) l m w).
Proof. reflexivity. Qed.
Lemma look_ch_st c l m w : look_ch ops (st c l m w) = Ok (nth 0 c 0, st c (Nat.max l 1) m w).
Proof. reflexivity. Qed.

Lemma ws_blank fuel tab ws k b r l m w :
  is_sp b = true ->
  in_skip_ws_to_eol ops (S fuel) SkipYes tab ws k (st (b :: r) l m w)
  = in_skip_ws_to_eol ops fuel SkipYes (tab || (b =? 9)) (ws || (b =? 32)) (k + 1) (st r (Nat.max l 1) m w).
Proof.
  intros Hb. cbn [in_skip_ws_to_eol]. unfold look_ch, peek. rewrite bind_assoc.
  mstep (look_st 1 s0 (b :: r) l m w). mstep (peekn_st 0 s0 (b :: r) (Nat.max l 1) m w). cbn [nth].
  destruct (is_sp_cases b Hb) as [->| ->].
  - change (32 =? 32) with true. cbv iota. mstep (in_skip_st (32 :: r) (Nat.max l 1) m w).
    change (32 =? 9) with false. rewrite orb_false_r, orb_true_r. reflexivity.
  - change (9 =? 32) with false. change (9 =? 9) with true. cbn [andb]. cbv iota.
    mstep (in_skip_st (9 :: r) (Nat.max l 1) m w). rewrite orb_false_r, orb_true_r. reflexivity.
Qed.

Definition has (c : N) (bs : list N) : bool := existsb (N.eqb c) bs.
Lemma ws_blanks : forall bs fuel tab ws k r l m w,
  forallb is_sp bs = true ->
  exists l',
    in_skip_ws_to_eol ops (length bs + fuel) SkipYes tab ws k (st (bs ++ r) l m w)
    = in_skip_ws_to_eol ops fuel SkipYes (tab || has 9 bs) (ws || has 32 bs) (k + N.of_nat (length bs)) (st r l' m w).
Proof.
  induction bs as [|b bs IH]; intros fuel tab ws k r l m w H.
  - exists l. cbn [length app Nat.add has existsb]. change (N.of_nat 0) with 0. rewrite N.add_0_r, !orb_false_r. reflexivity.
  - cbn [forallb] in H. apply andb_prop in H. destruct H as [Hb H].
    destruct (IH fuel (tab || (b =? 9)) (ws || (b =? 32)) (k + 1) r (Nat.max l 1) m w H) as [l' E].
    exists l'. cbn [length app Nat.add]. rewrite ws_blank by exact Hb. rewrite E.
    unfold has. cbn [existsb]. rewrite (N.eqb_sym 9 b), (N.eqb_sym 32 b), !orb_assoc. f_equal. lia.
Qed.
Lemma blanks_flag bs tab ws : forallb is_sp bs = true -> bs <> [] -> negb (tab || has 9 bs) && negb (ws || has 32 bs) = false.
Proof.
  intros H Hne. destruct bs as [|b bs]; [contradiction|]. cbn [forallb] in H. apply andb_prop in H. destruct H as [Hb _].
  unfold has. cbn [existsb]. destruct (is_sp_cases b Hb) as [->| ->].
  - change (32 =? 32) with true. rewrite !orb_true_r. cbn [negb]. apply andb_false_r.
  - change (9 =? 9) with true. rewrite !orb_true_r. reflexivity.
Qed.

Lemma ws_stop fuel tab ws k c l m w :
  (nth 0 c 0 =? 32) = false -> (nth 0 c 0 =? 9) = false -> (nth 0 c 0 =? 35) = false ->
  in_skip_ws_to_eol ops (S fuel) SkipYes tab ws k (st c l m w) = Ok ((k, Some (tab, ws)), st c (Nat.max l 1) m w).
Proof.
  intros H1 H2 H3. cbn [in_skip_ws_to_eol]. unfold look_ch, peek. rewrite bind_assoc.
  mstep (look_st 1 s0 c l m w). mstep (peekn_st 0 s0 c (Nat.max l 1) m w). rewrite H1, H2, H3. reflexivity.
Qed.

(* a comment: '#', characters up to the end of the line *)
Lemma comment_loop fuel tab ws : forall cs f k z l m w,
  (1 <= fuel)%nat -> (length cs < f)%nat ->
  forallb (fun c => negb (is_breakz c)) cs = true -> is_breakz (nth 0 z 0) = true ->
  exists l',
    (fix comment (f : nat) (k : N) : @M strin (N * option (bool * bool)) :=
       match f with
       | O => oof
       | S f => c <- look_ch ops ;; if is_breakz c then in_skip_ws_to_eol ops fuel SkipYes tab ws (k + 1)
                                    else in_skip ops ;;; comment f (k + 1)
       end) f k (st (cs ++ z) l m w)
    = Ok ((k + N.of_nat (length cs) + 1, Some (tab, ws)), st z l' m w).
Proof.
  induction cs as [|c cs IH]; intros f k z l m w Hfuel Hf Hcs Hz.
  - destruct f as [|f]; [cbn in Hf; lia|]. cbn [app length].
    mstep (look_ch_st z l m w).
    rewrite Hz. destruct fuel as [|fuel']; [lia|].
    assert (Hz' : (nth 0 z 0 =? 32) = false /\ (nth 0 z 0 =? 9) = false /\ (nth 0 z 0 =? 35) = false).
    { destruct (breakz_cases _ Hz) as [E|[E|E]]; rewrite E; repeat split. }
    destruct Hz' as [H1 [H2 H3]]. rewrite ws_stop by assumption. exists (Nat.max (Nat.max l 1) 1).
    change (N.of_nat 0) with 0. rewrite N.add_0_r. reflexivity.
  - destruct f as [|f]; [cbn in Hf; lia|].
    cbn [forallb] in Hcs. apply andb_prop in Hcs. destruct Hcs as [Hc Hcs]. apply negb_true_iff in Hc.
    cbn [app length].
    mstep (look_ch_st (c :: cs ++ z) l m w). cbn [nth]. rewrite Hc.
    mstep (in_skip_st (c :: cs ++ z) (Nat.max l 1) m w). cbn [tl].
    destruct (IH f (k + 1) z (Nat.max l 1) m w Hfuel ltac:(cbn in Hf; lia) Hcs Hz) as [l' E].
    exists l'. rewrite E. do 2 f_equal. f_equal. lia.
Qed.

Lemma ws_comment cs fuel tab ws k z l m w :
  negb tab && negb ws = false -> forallb (fun c => negb (is_breakz c)) cs = true -> is_breakz (nth 0 z 0) = true ->
  (length cs < fuel)%nat ->
  exists l', in_skip_ws_to_eol ops (S fuel) SkipYes tab ws k (st (35 :: cs ++ z) l m w)
             = Ok ((k + N.of_nat (length cs) + 1, Some (tab, ws)), st z l' m w).
Proof.
  intros Hflag Hcs Hz Hfuel.
  cbn [in_skip_ws_to_eol]. mstep (look_ch_st (35 :: cs ++ z) l m w). cbn [nth].
  change (35 =? 32) with false. change (35 =? 9) with false. change (35 =? 35) with true. cbn [andb]. cbv iota.
  rewrite Hflag. mstep (in_skip_st (35 :: cs ++ z) (Nat.max l 1) m w). cbn [tl].
  apply comment_loop; try assumption. lia.
Qed.

Fixpoint take_nb (l : list N) : list N :=
  match l with c :: r => if is_breakz c then [] else c :: take_nb r | [] => [] end.
Fixpoint drop_nb (l : list N) : list N :=
  match l with c :: r => if is_breakz c then l else drop_nb r | [] => [] end.
Lemma split_nb l : l = take_nb l ++ drop_nb l /\ forallb (fun c => negb (is_breakz c)) (take_nb l) = true
                   /\ is_breakz (nth 0 (drop_nb l) 0) = true.
Proof.
  induction l as [|c l [IH1 [IH2 IH3]]]; [repeat split|].
  cbn [take_nb drop_nb]. destruct (is_breakz c) eqn:E.
  - repeat split. exact E.
  - cbn [app forallb]. rewrite E. repeat split; [f_equal; exact IH1|exact IH2|exact IH3].
Qed.

Lemma adv_line k m : m_line (adv k m) = m_line m.
Proof. reflexivity. Qed.

Lemma finish_run F single start str rest l m w multi :
  quoted_follower_ok (0 <? sc_flow_level s0) multi rest = true ->
  (multi = false -> m_line m = m_line start) ->
  (length rest + 2 <= F)%nat ->
  exists sp s',
    finish_flow_scalar F single start str (st (quote_of single :: rest) l m w)
    = Ok ((sp, TScalar (style_of single) (rev str)), s') /\ sp_start sp = start.
Proof.
  intros Hfol Hline HF. unfold finish_flow_scalar.
  mstep (skip_non_blank_st s0 (quote_of single :: rest) l m w). cbn [tl].
  unfold skip_ws_to_eol. rewrite bind_assoc.
  destruct (split_leading rest) as [Hsplit [Hbs Hhd]].
  set (bs := take_leading rest) in *. set (r := drop_leading rest) in *.
  assert (Hlen : length rest = (length bs + length r)%nat) by (rewrite Hsplit at 1; apply app_length).
  unfold quoted_follower_ok in Hfol. fold r in Hfol.
  (* what the blank / comment skipper returns *)
  assert (Hskip : exists k tab ws l' z,
             in_skip_ws_to_eol ops F SkipYes false false 0 (st rest l (adv 1 m) false) = Ok ((k, Some (tab, ws)), st z l' (adv 1 m) false)
             /\ ((nth 0 z 0 = hd 0 r /\ (hd 0 r =? 35) = false) \/ is_breakz (nth 0 z 0) = true)).
  { rewrite Hsplit.
    destruct (N.eqb_spec (hd 0 r) 35) as [E35|E35].
    - (* a comment *)
      assert (Hne : bs <> []).
      { intros E. rewrite E35 in Hfol. change (is_breakz 35) with false in Hfol. change (35 =? 44) with false in Hfol.
        change (35 =? 93) with false in Hfol. change (35 =? 125) with false in Hfol. change (35 =? 58) with false in Hfol.
        rewrite !andb_false_r in Hfol. cbn [orb andb] in Hfol. apply negb_true_iff in Hfol. apply Nat.eqb_neq in Hfol.
        rewrite E in Hlen. cbn [length] in Hlen. lia. }
      destruct r as [|c r'] eqn:Er; [discriminate E35|]. cbn [hd] in E35. subst c.
      destruct (split_nb r') as [Hs2 [Hcs Hz]].
      destruct (ws_blanks bs (F - length bs) false false 0 (35 :: r') l (adv 1 m) false Hbs) as [l1 E1].
      replace (length bs + (F - length bs))%nat with F in E1 by (cbn [length] in Hlen; lia).
      assert (Hlen2 : length r' = (length (take_nb r') + length (drop_nb r'))%nat) by (rewrite Hs2 at 1; apply app_length).
      destruct (ws_comment (take_nb r') (F - length bs - 1) (false || has 9 bs) (false || has 32 bs) (0 + N.of_nat (length bs))
                  (drop_nb r') l1 (adv 1 m) false (blanks_flag bs false false Hbs Hne) Hcs Hz ltac:(cbn [length] in Hlen; lia)) as [l2 E2].
      replace (S (F - length bs - 1)) with (F - length bs)%nat in E2 by (cbn [length] in Hlen; lia).
      rewrite <- Hs2 in E2.
      eexists; eexists; eexists; eexists; eexists. split; [rewrite E1; exact E2|]. right. exact Hz.
    - (* no comment *)
      destruct (ws_blanks bs (F - length bs) false false 0 r l (adv 1 m) false Hbs) as [l1 E1].
      replace (length bs + (F - length bs))%nat with F in E1 by lia.
      assert (H329 : (nth 0 r 0 =? 32) = false /\ (nth 0 r 0 =? 9) = false).
      { rewrite <- hd_nth. destruct r as [|c r']; [split; reflexivity|]. cbn [hd] in *.
        unfold is_sp in Hhd. apply orb_false_elim in Hhd. exact Hhd. }
      destruct H329 as [H32 H9].
      replace (F - length bs)%nat with (S (F - length bs - 1)) in E1 by lia.
      rewrite ws_stop in E1; [|exact H32|exact H9|rewrite <- hd_nth; apply N.eqb_neq; exact E35].
      eexists; eexists; eexists; eexists; eexists. split; [exact E1|]. left. split; [symmetry; apply hd_nth|reflexivity]. }
  destruct Hskip as [k [tab [ws [l' [z [E Hz]]]]]].
  mstep E. cbn [fst snd]. rewrite bind_assoc.
  assert (E2 : adv_mark k (st z l' (adv 1 m) false) = Ok (tt, st z l' (adv k (adv 1 m)) false)) by reflexivity.
  mstep E2. rewrite (bind_Ok (ret (tab, ws)) _ _ _ _ eq_refl).
  unfold peek. mstep (peekn_st 0 s0 z l' (adv k (adv 1 m)) false).
  mstep (get_st s0 z l' (adv k (adv 1 m)) false).
  cbn [sc_flow_level sc_mark st_with].
  match goal with |- context [if ?c then _ else _] => assert (Hacc : c = true) end.
  { destruct Hz as [[Hz H35]|Hz]; [|rewrite Hz; rewrite orb_true_r; reflexivity].
    rewrite Hz. rewrite H35 in Hfol. rewrite andb_false_l, orb_false_r in Hfol.
    apply orb_prop in Hfol. destruct Hfol as [Hfol|Hfol]; [apply orb_prop in Hfol; destruct Hfol as [Hfol|Hfol]|].
    - rewrite Hfol. rewrite orb_true_r. reflexivity.
    - apply andb_prop in Hfol. destruct Hfol as [Hf Hc]. rewrite Hf. rewrite andb_true_r.
      replace ((hd 0 r =? 44) || (hd 0 r =? 125) || (hd 0 r =? 93)) with true; [reflexivity|].
      symmetry. destruct (hd 0 r =? 44), (hd 0 r =? 93), (hd 0 r =? 125); try reflexivity; discriminate Hc.
    - apply andb_prop in Hfol. destruct Hfol as [Hc Hfm]. rewrite Hc. cbn [andb].
      destruct (0 <? sc_flow_level s0) eqn:Efl; [rewrite !orb_true_r; reflexivity|].
      cbn [orb negb] in Hfm. apply negb_true_iff in Hfm. cbn [negb andb].
      rewrite !adv_line. rewrite (Hline Hfm). rewrite N.eqb_refl. rewrite !orb_true_r. reflexivity. }
  rewrite Hacc. eexists; eexists. split; [destruct single; reflexivity|reflexivity].
Qed.
End Finish.

(* ================================================================================================= *)
(* the theorem                                                                                       *)
(* ================================================================================================= *)
Lemma dq_text_rest first more : dq_text first more = map item_val first ++ qrest_text more.
Proof.
  unfold dq_text. generalize (map item_val first) as t. induction more as [|[b seg] more IH]; intros t; [cbn; rewrite app_nil_r; reflexivity|].
  cbn [map fold_lines qrest_text fst snd]. rewrite IH. reflexivity.
Qed.

Definition C04_quoted_full : Prop :=
  forall (F : nat) (single : bool) (n : nat) (first : list dq_item) (more : list (brk_layout * list dq_item))
         (rest : list N) (s : sc strin),
    (if single then sq_layout_wf n first more else dq_layout_wf n first more) = true ->
    let src := if single then sq_render first more else dq_render first more in
    si_chars (sc_in s) = quote_of single :: src ++ quote_of single :: rest ->
    (single = true -> (nth 0 rest 0 =? 39) = false) ->
    quoted_follower_ok (0 <? sc_flow_level s) (match more with [] => false | _ => true end) rest = true ->
    (sc_indent s < Z.of_nat n)%Z ->                               (* continuation lines are indented deeper than the block *)
    (sc_indent s <= Z.of_N (m_col (sc_mark s)) + 1)%Z ->
    (2 * length (si_chars (sc_in s)) + 10 <= F)%nat ->
    exists sp s',
      scan_flow_scalar str_ops F single s = Ok ((sp, TScalar (style_of single) (dq_text first more)), s')
      /\ sp_start sp = sc_mark s.

Lemma scan_flow_scalar_text : C04_quoted_full.
Proof.
  intros F single n first more rest s Hwf src Hsrc Hclose Hfol Hn Hcol HF.
  (* the layout, uniformly in the style *)
  assert (Hlay : forallb (iwf single) first = true /\ seg_rest_wf (iwf single) (isrc single) n first more = true
                 /\ (single = true -> forallb (fun p => negb (bl_escaped (fst p))) more = true)
                 /\ src = ssrc single first ++ rest_src single more).
  { subst src. destruct single.
    - unfold sq_layout_wf in Hwf. apply andb_prop in Hwf. destruct Hwf as [Hwf H3]. apply andb_prop in Hwf. destruct Hwf as [H1 H2].
      repeat split; auto.
    - unfold dq_layout_wf in Hwf. apply andb_prop in Hwf. destruct Hwf as [H1 H2]. repeat split; auto. discriminate. }
  destruct Hlay as [Hfirst [Hrest [Hsq Esrc]]]. clearbody src. subst src. clear Hwf.
  set (q := quote_of single) in *.
  assert (Hrun : scan_flow_scalar str_ops F single s
                 = (start <- mark ;; skip_non_blank str_ops ;;; str <- loop F single start F [] false 0 [] ;; finish_flow_scalar F single start str)
                     (st_with s (q :: (ssrc single first ++ rest_src single more) ++ q :: rest) (si_look (sc_in s)) (sc_mark s) (sc_lws s))).
  { rewrite scan_flow_scalar_phases. f_equal. rewrite <- Hsrc. apply st_with_id. }
  rewrite Hrun. clear Hrun.
  set (l := si_look (sc_in s)). set (m := sc_mark s). set (w := sc_lws s).
  mstep (mark_st s (q :: (ssrc single first ++ rest_src single more) ++ q :: rest) l m w).
  mstep (skip_non_blank_st s (q :: (ssrc single first ++ rest_src single more) ++ q :: rest) l m w). cbn [tl].
  rewrite <- app_assoc.
  rewrite Hsrc in HF. cbn [length] in HF. rewrite !app_length in HF. cbn [length] in HF.
  destruct (segs_run F single m s n Hn rest Hclose more first Hrest Hsq) as [[x' [tail' [Eafter [Hsep' Hend']]]] Hruns].
  assert (Hml : (length more <= length (rest_src single more))%nat).
  { clear. induction more as [|[b seg] more IH]; [cbn; lia|]. cbn [rest_src flat_map length fst snd]. fold (rest_src single more).
    rewrite !app_length. assert (1 <= length (render_brk b))%nat by (unfold render_brk; rewrite !app_length; pose proof (nl_src_len (bl_nl b)); lia). lia. }
  assert (Hsl : (length first <= length (ssrc single first))%nat).
  { clear. induction first as [|i first IH]; [cbn; lia|]. cbn [ssrc flat_map length]. fold (ssrc single first). rewrite app_length.
    assert (1 <= length (isrc single i))%nat; [|lia].
    destruct single, i as [c| |]; cbn [isrc sq_src item_src length]; try lia. destruct (c =? 39); cbn [length]; lia. }
  assert (Hm1 : colq_ok s (adv 1 m)) by (unfold colq_ok; rewrite adv_col; unfold m; lia).
  rewrite dq_text_rest. subst q.
  destruct more as [|[b1 seg1] more'] eqn:Emore.
  - (* one line: the position of the closing quote is known, a colon may follow in block context *)
    cbn [rest_src flat_map app] in *.
    pose proof (seg_from_head_m F single m s n (quote_of single) rest
                  (fun a m' o => exists l' w', o = Ok (a, st_with s (quote_of single :: rest) l' m' w')) 1%nat) as SH.
    assert (HA : forall fc f acc l0 m0 w0, (1 <= fc)%nat -> (1 <= f)%nat -> colq_ok s m0 ->
              exists l' w', bind (consume_nonws str_ops fc single acc m) (after_word F single (loop F single m f) false 0 [])
                                 (st_with s (quote_of single :: rest) l0 m0 w0) = Ok (acc, st_with s (quote_of single :: rest) l' m0 w')).
    { intros fc f acc l0 m0 w0 Hfc _ _. eexists; eexists. apply (at_quote F single m s n rest Hclose); exact Hfc. }
    destruct (SH HA (proj1 (sep_head_quote single rest Hclose)) first F [] l (adv 1 m) false Hfirst) as [l' [w' E]].
    + intros E0. exfalso. rewrite adv_col in E0. lia.
    + intros _. exact (proj2 (sep_head_quote single rest Hclose)).
    + lia.
    + lia.
    + exact Hm1.
    + mstep E.
      destruct (finish_run s F single m (rev (map item_val first) ++ []) rest l' (adv (N.of_nat (length (ssrc single first))) (adv 1 m)) w' false Hfol) as [sp [s' [Ef Hsp]]].
      * intros _. rewrite !adv_line. reflexivity.
      * lia.
      * exists sp, s'. split; [|exact Hsp]. rewrite Ef. rewrite app_nil_r, rev_involutive. cbn [qrest_text]. rewrite app_nil_r. reflexivity.
  - rewrite <- Emore in *. rewrite Eafter.
    assert (HB : forall fc f acc l0 m0 w0, (length (rest_src single more) + length more + 2 <= fc)%nat ->
              (length (rest_src single more) + length more + 2 <= f)%nat -> colq_ok s m0 ->
              Qfin single s rest more acc
                (bind (consume_nonws str_ops fc single acc m) (after_word F single (loop F single m f) false 0 [])
                      (st_with s (x' :: tail') l0 m0 w0))).
    { intros fc f acc l0 m0 w0 Hfc Hf Hm0. rewrite <- Eafter. apply Hruns; try assumption; lia. }
    destruct (seg_from_head_m F single m s n x' tail' (fun a _ o => Qfin single s rest more a o)
                (length (rest_src single more) + length more + 2)%nat HB
                Hsep' first F [] l (adv 1 m) false Hfirst) as [l' [w' [m' E]]].
    + intros E0. exfalso. rewrite adv_col in E0. lia.
    + rewrite ends_blank_last. exact Hend'.
    + lia.
    + lia.
    + exact Hm1.
    + mstep E.
      destruct (finish_run s F single m (rev (qrest_text more) ++ rev (map item_val first) ++ []) rest l' m' w' true) as [sp [s' [Ef Hsp]]].
      * exact Hfol.
      * discriminate.
      * lia.
      * exists sp, s'. split; [|exact Hsp]. rewrite Ef. rewrite app_nil_r, rev_app_distr, !rev_involutive. reflexivity.
Qed.
