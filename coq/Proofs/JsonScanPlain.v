(* C13, scanner half (4): a JSON number or literal (a plain one-word scalar) and the insignificant whitespace behind it.
   scan_plain_scalar reads on over blanks and line breaks (a plain scalar may continue on the next line) and stops at
   ',' ']' '}' or at the end of the input.  Built from the loop lemmas of C04 (Proofs/PlainScalarProofs.v). *)
From Coq Require Import List NArith ZArith Bool Arith Lia.
Import ListNotations.
Require Import Parser SBase SPrim SDir SScalar SFetch Pipe Json FlowFold FlowScalarProofs PlainScalarProofs QuotedFoldProofs JsonScanBase JsonScanTok.
Open Scope N_scope.
Open Scope mon_scope.

Arguments scan_plain_scalar : simpl never.
Arguments plain_chunk : simpl never.

(* the characters of JSON numbers and literals: digits, - + . E, lower-case letters *)
Definition wchar (c : N) : bool :=
  ((48 <=? c) && (c <=? 57)) || (c =? 45) || (c =? 43) || (c =? 46) || (c =? 69) || ((97 <=? c) && (c <=? 122)).
(* a word: such characters, not starting with '.', a leading '-' followed by a digit *)
Definition jword (w : list N) : bool :=
  match w with
  | [] => false
  | c :: r => forallb wchar w && negb (c =? 46) && (negb (c =? 45) || is_digit (nth 0 r 0))
  end.

Lemma wchar_ne c k : wchar c = true -> wchar k = false -> (c =? k) = false.
Proof. intros Hc Hk. destruct (N.eqb_spec c k) as [->|]; [congruence|reflexivity]. Qed.

Lemma wchar_facts c : wchar c = true ->
  is_blank_or_breakz c = false /\ is_flow c = false /\ (c =? 58) = false /\ (c =? 35) = false.
Proof.
  intros H. unfold is_blank_or_breakz, is_blank, is_breakz, is_break, is_z, is_flow.
  rewrite !(wchar_ne c _ H) by reflexivity. repeat split.
Qed.
Lemma wchar_cbf fl c nc : wchar c = true -> cbf fl c nc = true.
Proof. intros H. destruct (wchar_facts c H) as (_ & Hf & H58 & _). unfold cbf. rewrite H58, Hf, andb_false_r. reflexivity. Qed.

(* ---------- the characters of the word ---------- *)
Lemma chunk_word s0 L (HL : (128 <= L)%nat) : forall wd fuel j acc after m,
  forallb wchar wd = true -> stops_chunk s0 after -> (2 * length wd + 2 <= fuel)%nat ->
  plain_chunk str_ops fuel j acc (st_with s0 (wd ++ after) L m false)
  = Ok (rev wd ++ acc, st_with s0 after L (adv (N.of_nat (length wd)) m) false).
Proof.
  induction wd as [|c wd IH]; intros fuel j acc after m Hw Hs Hf.
  - destruct fuel as [|[|fuel]]; [cbn in Hf; lia|cbn in Hf; lia|]. cbn [app rev length].
    rewrite (chunk_stop s0 L HL fuel j acc after m Hs). change (N.of_nat 0) with 0. rewrite adv_0. reflexivity.
  - cbn [forallb] in Hw. apply andb_prop in Hw as [Hc Hw]. cbn [length] in Hf.
    destruct fuel as [|[|fuel]]; [lia|lia|]. cbn [app].
    destruct (chunk_step s0 L HL fuel j acc c (wd ++ after) m (proj1 (wchar_facts c Hc)) (wchar_cbf _ c _ Hc)) as (j' & _ & E).
    rewrite E. rewrite IH; [|exact Hw|exact Hs|destruct (Nat.leb 127 j); cbv iota; unfold chr in *; lia].
    rewrite adv_adv. cbn [rev length]. rewrite <- app_assoc. cbn [app]. replace (1 + N.of_nat (length wd)) with (N.of_nat (S (length wd))) by lia. reflexivity.
Qed.

(* ---------- the insignificant whitespace behind the word: plain_blanks ---------- *)
Lemma pblanks_ws F s0 start L (HL : (128 <= L)%nat) : sc_indent s0 = (-1)%Z ->
  forall n w1, (length w1 <= n)%nat -> forall fb lb tb ws rest2 m w,
  wsb w1 = true -> tokstart rest2 -> (n < fb)%nat ->
  exists r m' w',
    plain_blanks str_ops F fb (sc_indent s0 + 1)%Z start lb tb ws (st_with s0 (w1 ++ rest2) L m w)
    = Ok (r, st_with s0 rest2 L m' w').
Proof.
  intros Hind. assert (Hcol : forall m, col_ok s0 m) by (intros m; unfold col_ok; rewrite Hind; lia).
  induction n as [|n IH]; intros w1 Hlen fb lb tb ws rest2 m w Hw [Hts H35] Hfb.
  - destruct w1; [|cbn in Hlen; lia]. destruct fb as [|fb]; [lia|]. cbn [app].
    apply is_ws_false in Hts as (H32 & H9 & H10 & H13).
    rewrite pb_stop; [eauto| unfold is_blank; rewrite H32, H9; reflexivity | unfold is_break; rewrite H10, H13; reflexivity].
  - destruct w1 as [|c w1]; [apply (IH [] ltac:(cbn; lia)); try assumption; [split; assumption|lia]|].
    destruct fb as [|fb]; [lia|]. cbn [wsb forallb] in Hw. apply andb_prop in Hw as [Hc Hw]. cbn [length] in Hlen. cbn [app].
    assert (Hblank : forall b, is_blank b = true -> b = c ->
              exists r m' w', plain_blanks str_ops F (S fb) (sc_indent s0 + 1)%Z start lb tb ws (st_with s0 (b :: w1 ++ rest2) L m w)
                              = Ok (r, st_with s0 rest2 L m' w')).
    { intros b Hb _. destruct w.
      - rewrite (pb_blank_skip F s0 start L HL fb lb tb ws b (w1 ++ rest2) m Hb (fun _ => Hcol m)).
        apply (IH w1); try assumption; [lia|split; assumption|lia].
      - rewrite (pb_blank_ws F s0 start L HL fb lb tb ws b (w1 ++ rest2) m Hb).
        apply (IH w1); try assumption; [lia|split; assumption|lia]. }
    assert (Hnl : forall k r2, c :: w1 ++ rest2 = nl_src k ++ r2 -> cr_ok k r2 ->
              (exists w2, r2 = w2 ++ rest2 /\ wsb w2 = true /\ (length w2 <= n)%nat) ->
              exists r m' w', plain_blanks str_ops F (S fb) (sc_indent s0 + 1)%Z start lb tb ws (st_with s0 (c :: w1 ++ rest2) L m w)
                              = Ok (r, st_with s0 rest2 L m' w')).
    { intros k r2 E Hcr (w2 & -> & Hw2 & Hl2). rewrite E. destruct w.
      - rewrite (pb_nl_more F s0 start L HL k fb lb tb ws (w2 ++ rest2) m Hcr).
        apply (IH w2); try assumption; [split; assumption|lia].
      - rewrite (pb_nl_first F s0 start L HL k fb lb tb ws (w2 ++ rest2) m Hcr).
        apply (IH w2); try assumption; [split; assumption|lia]. }
    destruct (is_ws_cases c Hc) as [-> | [-> | [-> | ->]]].
    + apply (Hblank 32); reflexivity.
    + apply (Hblank 9); reflexivity.
    + apply (Hnl NlLF (w1 ++ rest2)); [reflexivity|intros E; discriminate E|exists w1; repeat split; [exact Hw|lia]].
    + destruct w1 as [|c2 w1].
      * apply (Hnl NlCR rest2); [reflexivity| |exists []; repeat split; cbn; lia].
        intros _. apply is_ws_false in Hts. tauto.
      * cbn [forallb] in Hw. apply andb_prop in Hw as [Hc2 Hw]. cbn [length] in Hlen.
        destruct (N.eqb_spec c2 10) as [->|Hne].
        -- apply (Hnl NlCRLF (w1 ++ rest2)); [reflexivity|intros E; discriminate E|exists w1; repeat split; [exact Hw|lia]].
        -- apply (Hnl NlCR ((c2 :: w1) ++ rest2)); [reflexivity| |exists (c2 :: w1); repeat split; [cbn [wsb forallb]; rewrite Hc2; exact Hw|cbn [length]; lia]].
           intros _. cbn [app nth]. apply N.eqb_neq. exact Hne.
Qed.

(* ---------- scan_plain_scalar on a word ---------- *)
(* what follows a number or literal (after whitespace): the end of the input; in a collection , ] } *)
Definition pfollow (fl : N) (y : N) : bool := is_z y || ((0 <? fl) && ((y =? 44) || (y =? 93) || (y =? 125))).

Lemma pfollow_ends fl y nc : pfollow fl y = true -> is_z y = true \/ cbf (0 <? fl) y nc = false.
Proof.
  unfold pfollow. intros H. apply orb_prop in H as [H|H]; [left; exact H|right].
  apply andb_prop in H as [Hfl H]. rewrite Hfl. unfold cbf, is_flow.
  repeat (apply orb_prop in H as [H|H]); apply N.eqb_eq in H; subst y; reflexivity.
Qed.

Lemma jword_head c wd after : jword (c :: wd) = true ->
  wchar c = true /\ forallb wchar wd = true /\ doc_ind (c :: wd ++ after) = false
  /\ ((c =? 45) && is_flow (nth 0 (wd ++ after) 0)) = false
  /\ ((c =? 45) && is_blank_or_breakz (nth 0 (wd ++ after) 0)) = false
  /\ nodoc (c :: wd ++ after).
Proof.
  unfold jword. intros H. apply andb_prop in H as [H H45]. apply andb_prop in H as [H H46].
  cbn [forallb] in H. apply andb_prop in H as [Hc Hw]. apply negb_true_iff in H46.
  assert (Hd : (c =? 45) = true -> exists d wd', wd = d :: wd' /\ is_digit d = true).
  { intros E. rewrite E in H45. cbn in H45. destruct wd as [|d wd']; [discriminate|]. eauto. }
  assert (Hdig : forall d, is_digit d = true -> wchar d = true).
  { intros d Hdd. unfold wchar. unfold is_digit in Hdd. rewrite Hdd. reflexivity. }
  split; [exact Hc|]. split; [exact Hw|].
  destruct (c =? 45) eqn:E45.
  - destruct (Hd eq_refl) as (d & wd' & -> & Hdd). cbn [app nth].
    pose proof (Hdig d Hdd) as Hwd. destruct (wchar_facts d Hwd) as (Hb & Hf & _).
    assert (H45d : (d =? 45) = false).
    { unfold is_digit in Hdd. apply andb_prop in Hdd as [A B]. apply N.leb_le in A. apply N.eqb_neq. lia. }
    unfold doc_ind, nodoc. cbn [nth]. rewrite H46, E45, H45d, Hb, Hf. cbn. rewrite ?andb_false_r.
    repeat split; try reflexivity. apply N.eqb_eq in E45. subst c. reflexivity.
  - unfold doc_ind, nodoc. cbn [nth]. rewrite H46, E45. cbn. rewrite ?andb_false_r. repeat split; try reflexivity.
    apply wchar_ne; [exact Hc|reflexivity].
Qed.

Lemma word_scan F c wd w1 rest2 l mk q adj ska sks fl tp ta lws ifms :
  jword (c :: wd) = true -> wsb w1 = true -> tokstart rest2 -> pfollow fl (nth 0 rest2 0) = true ->
  (2 * length (wd ++ w1) + 8 <= F)%nat ->
  exists l' mk' lws' ska' sp,
    scan_plain_scalar str_ops F (mkst (c :: wd ++ w1 ++ rest2) l mk q adj ska sks fl tp ta lws ifms)
    = Ok ((sp, TScalar Plain (c :: wd)), mkst rest2 l' mk' q adj ska' sks fl tp ta lws' ifms).
Proof.
  intros Hj Hw Hts Hfol HF. rewrite app_length in HF.
  destruct (jword_head c wd (w1 ++ rest2) Hj) as (Hc & Hwd & Hdoc & H76 & _ & _).
  destruct (wchar_facts c Hc) as (Hb & Hfc & H58 & H35).
  set (s0 := mkst [] 0 mk0 q adj ska sks fl tp ta false ifms).
  set (L := Nat.max (Nat.max l 4) 128). assert (HL : (128 <= L)%nat) by (unfold L; lia).
  assert (Hind : sc_indent s0 = (-1)%Z) by reflexivity.
  assert (Hcolok : forall m, col_ok s0 m) by (intros m; unfold col_ok; rewrite Hind; lia).
  destruct Hts as [Hts H35r]. pose proof (is_ws_false _ Hts) as (R32 & R9 & R10 & R13).
  assert (Rb : is_blank (nth 0 rest2 0) = false) by (unfold is_blank; rewrite R32, R9; reflexivity).
  assert (Rk : is_break (nth 0 rest2 0) = false) by (unfold is_break; rewrite R10, R13; reflexivity).
  (* the loop *)
  assert (Hloop : exists mk' lws' endm,
            ploop F (sc_indent s0 + 1)%Z mk F [] false 0 [] mk (st_with s0 (c :: wd ++ w1 ++ rest2) l mk lws)
            = Ok ((rev wd ++ [c], endm), st_with s0 rest2 L mk' lws')).
  { destruct F as [|[|F2]]; [lia|lia|]. cbn [ploop].
    rewrite (pbody_word (S (S F2)) s0 mk L HL 0%nat _ [] false 0 [] mk c (wd ++ w1 ++ rest2) l mk lws [] false 0 []).
    2:{ intros _. exact Hdoc. }
    2:{ intros E. subst c. discriminate H35. }
    2:{ cbn [andb]. change (sc_flow_level s0) with fl. destruct (0 <? fl); [|reflexivity]. cbn [andb]. exact H76. }
    2:{ exact Hb. }
    2:{ apply wchar_cbf. exact Hc. }
    2:{ destruct lws; reflexivity. }
    fold L.
    assert (Hstop : stops_chunk s0 (w1 ++ rest2)).
    { destruct w1 as [|c0 w1'].
      - cbn [app]. destruct (pfollow_ends fl _ (nth 1 rest2 0) Hfol) as [Hz|Hcb].
        + left. unfold is_blank_or_breakz, is_breakz. rewrite Hz. rewrite !orb_true_r. reflexivity.
        + right. exact Hcb.
      - left. cbn [app nth]. cbn [wsb forallb] in Hw. apply andb_prop in Hw as [Hc0 _].
        destruct (is_ws_cases c0 Hc0) as [-> | [-> | [-> | ->]]]; reflexivity. }
    rewrite (bind_Ok _ _ _ _ _ (chunk_word s0 L HL wd (S (S F2)) 0%nat [c] (w1 ++ rest2) (adv 1 mk) Hwd Hstop ltac:(lia))).
    rewrite after_chunk_st.
    destruct w1 as [|c0 w1'].
    - cbn [app]. rewrite ptail_stop by assumption. eauto.
    - rewrite (ptail_blanks (S (S F2)) s0 mk L HL 0%nat).
      2:{ cbn [app nth]. cbn [wsb forallb] in Hw. apply andb_prop in Hw as [Hc0 _].
          destruct (is_ws_cases c0 Hc0) as [-> | [-> | [-> | ->]]]; reflexivity. }
      destruct (pblanks_ws (S (S F2)) s0 mk L HL Hind (length (c0 :: w1')) (c0 :: w1') (le_n _) (S (S F2)) false 0 [] rest2
                  (adv (N.of_nat (length wd)) (adv 1 mk)) false Hw (conj Hts H35r) ltac:(cbn [length] in *; lia))
        as ([[lb' tb'] ws'] & m' & w' & Eb).
      rewrite (bind_Ok _ _ _ _ _ Eb). rewrite pafter_blanks_go by apply Hcolok.
      cbn [ploop]. rewrite (pbody_end (S (S F2)) s0 mk L HL 0%nat); try assumption.
      + replace (Nat.max L 4) with L by (unfold L; lia). eauto.
      + destruct (rev wd); discriminate.
      + destruct (pfollow_ends fl _ (nth 1 rest2 0) Hfol) as [Hz|Hcb]; [right; left; exact Hz|right; right; left; exact Hcb]. }
  destruct Hloop as (mk' & lws' & endm & Eloop).
  rewrite scan_plain_scalar_phases.
  assert (Epre : forall (K : sc strin -> @M strin token),
            bind unroll_non_block_indents (fun _ => bind get K) (mkst (c :: wd ++ w1 ++ rest2) l mk q adj ska sks fl tp ta lws ifms)
            = K (st_with s0 (c :: wd ++ w1 ++ rest2) l mk lws) (st_with s0 (c :: wd ++ w1 ++ rest2) l mk lws)).
  { intros K. reflexivity. }
  rewrite Epre. cbv zeta. cbn [sc_flow_level sc_indent sc_mark st_with s0 mkst].
  change (-1 + 1)%Z with 0%Z. rewrite col_not_neg, andb_false_r.
  change 0%Z with (sc_indent s0 + 1)%Z. rewrite (bind_Ok _ _ _ _ _ Eloop).
  exists L, mk', lws', (if lws' then true else ska), {| sp_start := mk; sp_end := endm |}.
  unfold pfinish, st_with, s0, mkst. cbn. destruct lws'; cbn;
    (destruct (rev wd ++ [c]) as [|a0 t0] eqn:Er; [destruct (rev wd); discriminate|]);
    rewrite <- Er, rev_app_distr, rev_involutive; reflexivity.
Qed.

(* ---------- fetch_plain_scalar ---------- *)
Lemma word_tail F c wd w1 rest2 l mk q adj ska p tn km tls fl tp ta lws ifms :
  jword (c :: wd) = true -> wsb w1 = true -> tokstart rest2 -> pfollow fl (nth 0 rest2 0) = true ->
  (2 * length (wd ++ w1) + 8 <= F)%nat ->
  exists l' mk' lws' ska' sp mks,
    fnt_tail F (mkst (c :: wd ++ w1 ++ rest2) l mk q adj ska (skey p tn km :: tls) fl tp ta lws ifms)
    = Ok (tt, mkst rest2 l' mk' (q ++ [(sp, TScalar Plain (c :: wd))]) adj ska'
                ((if ska then skey true (tp + N.of_nat (length q)) mks else skey p tn km) :: tls) fl tp ta lws' ifms).
Proof.
  intros Hj Hw Hts Hfol HF.
  set (top' := if ska then skey true (tp + N.of_nat (length q)) mk else skey p tn km).
  destruct (word_scan F c wd w1 rest2 l mk q adj false (top' :: tls) fl tp ta lws ifms Hj Hw Hts Hfol HF)
    as (l' & mk' & lws' & ska' & sp & E).
  exists l', mk', lws', ska', sp, mk.
  destruct (jword_head c wd (w1 ++ rest2) Hj) as (Hc & _ & _ & _ & Hbz & _).
  assert (Hdisp : disp F (mkst (c :: wd ++ w1 ++ rest2) l mk q adj ska (skey p tn km :: tls) fl tp ta lws ifms)
                         (mkst (c :: wd ++ w1 ++ rest2) l mk q adj ska (skey p tn km :: tls) fl tp ta lws ifms)
                  = fetch_plain_scalar str_ops F (mkst (c :: wd ++ w1 ++ rest2) l mk q adj ska (skey p tn km :: tls) fl tp ta lws ifms)).
  { unfold disp, mkst. cbn. rewrite col_not_lt_indent. cbn. unfold chr in *.
    rewrite ?(wchar_ne c 91 Hc eq_refl). rewrite ?(wchar_ne c 123 Hc eq_refl). rewrite ?(wchar_ne c 93 Hc eq_refl). rewrite ?(wchar_ne c 125 Hc eq_refl). rewrite ?(wchar_ne c 44 Hc eq_refl). rewrite ?(wchar_ne c 63 Hc eq_refl). rewrite ?(wchar_ne c 58 Hc eq_refl). rewrite ?(wchar_ne c 42 Hc eq_refl). rewrite ?(wchar_ne c 38 Hc eq_refl). rewrite ?(wchar_ne c 33 Hc eq_refl). rewrite ?(wchar_ne c 124 Hc eq_refl). rewrite ?(wchar_ne c 62 Hc eq_refl). rewrite ?(wchar_ne c 39 Hc eq_refl). rewrite ?(wchar_ne c 34 Hc eq_refl). rewrite ?(wchar_ne c 37 Hc eq_refl). rewrite ?(wchar_ne c 64 Hc eq_refl). rewrite ?(wchar_ne c 96 Hc eq_refl). rewrite Hbz. cbn.
    destruct ((c =? 45) && negb (is_blank_or_breakz (nth 0 (wd ++ w1 ++ rest2) 0))); reflexivity. }
  unfold fnt_tail. cbn [bind get]. rewrite Hdisp.
  unfold fetch_plain_scalar.
  assert (Esave : (save_simple_key ;;; disallow_simple_key)
                    (mkst (c :: wd ++ w1 ++ rest2) l mk q adj ska (skey p tn km :: tls) fl tp ta lws ifms)
                  = Ok (tt, mkst (c :: wd ++ w1 ++ rest2) l mk q adj false (top' :: tls) fl tp ta lws ifms)).
  { unfold save_simple_key, disallow_simple_key, mkst, top'. destruct ska; cbn.
    - rewrite indent_ne_col, andb_false_r. cbn. reflexivity.
    - reflexivity. }
  rewrite <- bind_assoc. rewrite (bind_Ok _ _ _ _ _ Esave). rewrite (bind_Ok _ _ _ _ _ E). reflexivity.
Qed.
