From Coq Require Import List NArith Bool Lia.
Import ListNotations.
Require Import Parser Grammar C02base.

Ltac rw_stacks := repeat match goal with H : p_states _ = _ |- _ => rewrite H in * end.

Ltac finish_start HR := unfold empty_scalar_with, empty_scalar;
  cbn [post gstep on_stream]; rewrite (node_ok_stack _ HR);
  eexists; split; [reflexivity|]; unfold Inv; fields;
  cbn [InvS cur_frames]; split; [try exact HR | eexists; split; reflexivity].

Ltac do_pop HR :=
  match goal with
  | |- context [pop_state ?q] =>
      let s := fresh "s" in let r := fresh "r" in let F' := fresh "F'" in
      let Hst := fresh "Hst" in let Hpop := fresh "Hpop" in let HF := fresh "HF" in let HI := fresh "HI" in
      destruct (pop_state_spec q HR) as (s & r & F' & Hst & Hpop & HF & HI);
      rewrite Hpop
  end.

Ltac finish_pop HF HI := unfold empty_scalar_with, empty_scalar;
  cbn [post gstep on_stream]; rewrite HF; cbn [option_map];
  eexists; split; [reflexivity|]; unfold Inv; fields; exact HI.

Lemma node_content_post p aid tg b i :
  Rooted (p_states p) -> post (GStream (stack_frames (p_states p))) (node_content p aid tg b i).
Proof.
  intros HR. unfold node_content. step_peek.
  assert (HR' : Rooted (p_states q)) by (rewrite Hk; exact HR).
  rewrite <- Hk.
  destruct tk; try destruct i; try destruct b; unfold empty_or_err; try destruct (has_props aid tg); try exact I;
    first [ finish_start HR'
          | match goal with |- context [pop_state ?q] =>
              let s := fresh "s" in let r := fresh "r" in let F' := fresh "F'" in
              let Hst := fresh "Hst" in let Hpop := fresh "Hpop" in let HF := fresh "HF" in let HI := fresh "HI" in
              destruct (pop_state_spec q HR') as (s & r & F' & Hst & Hpop & HF & HI);
              rewrite Hpop; finish_pop HF HI
            end ].
Qed.

Lemma parse_node_post p b i :
  Rooted (p_states p) -> post (GStream (stack_frames (p_states p))) (parse_node p b i).
Proof.
  intros HR. unfold parse_node. step_peek.
  assert (HR' : Rooted (p_states q)) by (rewrite Hk; exact HR).
  rewrite <- Hk.
  destruct tk;
  try (match goal with |- context [node_props ?q ?t] =>
         pose proof (node_props_ok q t) as HP;
         destruct (node_props q t) as [[[aid tg] q2]|?|?]; [destruct HP as [Hs2 Hk2] | exact I | contradiction]
       end;
       rewrite <- Hk2; apply node_content_post; rewrite Hk2; exact HR').
  (* alias *)
  destruct (pop_state_spec q HR') as (s & r & F' & Hst & Hpop & HF & HI).
  rewrite Hpop. fields. destruct (assoc n _); [|exact I].
  finish_pop HF HI.
Qed.

Lemma skip_measure p t : p_token p = Some t -> S (tmeasure (skip p)) = tmeasure p.
Proof. unfold tmeasure, skip. cbn. intros ->. lia. Qed.

Lemma process_directives_ok fuel : forall p vs tags,
  tmeasure p < fuel ->
  match process_directives fuel p vs tags with
  | Panic _ => False
  | Err _ => True
  | Ok q => p_state q = p_state p /\ p_states q = p_states p /\ tmeasure q <= tmeasure p
  end.
Proof.
  induction fuel as [|fuel IH]; intros p vs tags Hm; [lia|].
  cbn [process_directives]. step_peek.
  destruct tk; try (unfold tmeasure in *; cbn; repeat split; try congruence; lia).
  - destruct vs; [exact I|].
    match goal with |- context [process_directives fuel ?q' true ?tg] => specialize (IH q' true tg) end.
    assert (Hlt : tmeasure (skip q) < fuel).
    { pose proof (skip_measure q _ Ht). lia. }
    specialize (IH Hlt). destruct (process_directives fuel _ true _); auto.
    destruct IH as (A & B & C). fields. repeat split; try congruence.
    pose proof (skip_measure q _ Ht). lia.
  - destruct (negb (is_empty_str h) && has_key h tags); [exact I|].
    match goal with |- context [process_directives fuel ?q' vs ?tg] => specialize (IH q' vs tg) end.
    assert (Hlt : tmeasure (skip q) < fuel).
    { pose proof (skip_measure q _ Ht). lia. }
    specialize (IH Hlt). destruct (process_directives fuel _ vs _); auto.
    destruct IH as (A & B & C). fields. repeat split; try congruence.
    pose proof (skip_measure q _ Ht). lia.
Qed.

Lemma skip_document_ends_ok fuel : forall p,
  tmeasure p < fuel ->
  match skip_document_ends fuel p with
  | Panic _ => False
  | Err _ => True
  | Ok q => p_state q = p_state p /\ p_states q = p_states p /\ tmeasure q <= tmeasure p
  end.
Proof.
  induction fuel as [|fuel IH]; intros p Hm; [lia|].
  cbn [skip_document_ends]. step_peek.
  destruct tk; try (repeat split; try congruence; lia).
  specialize (IH (skip q)).
  assert (Hlt : tmeasure (skip q) < fuel) by (pose proof (skip_measure q _ Ht); lia).
  specialize (IH Hlt). destruct (skip_document_ends fuel (skip q)); auto.
  destruct IH as (A & B & C). fields. repeat split; try congruence.
  pose proof (skip_measure q _ Ht). lia.
Qed.

Lemma tmeasure_bound p : tmeasure p < S (S (length (p_toks p))).
Proof. unfold tmeasure. destruct (p_token p); lia. Qed.

(* ---------- generic finishing lemmas ---------- *)
Lemma post_parse_node G q S stk b i :
  p_states q = stk -> Rooted stk -> cont_ok S = true ->
  G = GStream (cont_frames S ++ stack_frames stk) ->
  post G (parse_node (push_state q S) b i).
Proof.
  intros E HR HS ->. 
  replace (GStream (cont_frames S ++ stack_frames stk)) with (GStream (stack_frames (p_states (push_state q S)))).
  - apply parse_node_post. fields. rewrite E. constructor; assumption.
  - fields. rewrite E. reflexivity.
Qed.

Lemma post_pop G q stk e sp (k : parser -> parser) :
  p_states q = stk -> Rooted stk ->
  (forall x, p_state (k x) = p_state x /\ p_states (k x) = p_states x) ->
  gstep G e = option_map GStream (complete (stack_frames stk)) ->
  post G (do x <- pop_state q; Ok ((e, sp), k x)).
Proof. intros E HR Hk He. apply pop_post; rewrite ?E; auto. Qed.

Lemma post_ok G e sp q' g' :
  gstep G e = Some g' -> Inv q' g' -> post G (Ok ((e, sp), q')).
Proof. intros. cbn. eauto. Qed.

(* normalise stack equalities to the form [p_states qi = stk] *)
Ltac norm_stk :=
  repeat match goal with
         | H : p_states ?a = ?b, H2 : p_states _ = p_states ?a |- _ => rewrite H in H2
         end.
Ltac sp := step_peek; norm_stk.

Ltac stack_eq := fields; first [ eassumption | congruence ].

Ltac fin HR :=
  unfold empty_scalar;
  first
    [ exact I
    | eapply post_parse_node; [stack_eq | exact HR | reflexivity | reflexivity]
    | eapply post_pop; [stack_eq | exact HR | intros; split; reflexivity | reflexivity]
    | eapply post_ok; [ cbn [gstep on_stream complete option_map]; reflexivity
                      | unfold Inv; fields;
                        repeat match goal with H : p_states _ = _ |- _ => rewrite H end;
                        cbn [InvS cur_frames]; first [ split; [exact HR | eexists; split; reflexivity ] | split; reflexivity ] ] ].


