(* String input: flow, plain and block scalars (Model/SScalar.v) never panic and keep the skeleton.
   Site 110 ([debug_assert!(is_break(c))] in skip_break): every call is in front of a character that was just
   tested with [is_break] (or, in the block-scalar content loop, is the [is_breakz]-and-not-[is_z] character the
   content line stopped at); site 121 ([bufmaxlen < 2]) is a constant fact of the string back-end. *)
From Coq Require Import List NArith ZArith Bool Arith Lia.
Import ListNotations.
Require Import Parser SBase SPrim SDir SScalar SFetch ScanSafeStrWP ScanSafeStrPrim.
Local Open Scope nat_scope.

Local Notation st := (sc strin).
Local Notation M := (@SBase.M strin).

(* ---------------- flow scalars ---------------- *)
Lemma safe_read_hex start : forall n i acc k, safe k (read_hex sops n i acc start).
Proof. induction n as [|n IH]; intros i acc k; cbn [read_hex]; sgo. Qed.
#[export] Hint Resolve safe_read_hex : safedb.
Lemma safe_resolve_escape start k : safe k (resolve_escape sops start).
Proof. unfold resolve_escape. sgo. Qed.
#[export] Hint Resolve safe_resolve_escape : safedb.

Lemma safe_consume_nonws : forall fuel single acc start k, safe k (consume_nonws sops fuel single acc start).
Proof. induction fuel as [|fuel IH]; intros single acc start k; cbn [consume_nonws]; [apply safe_oof|]. sgo. Qed.

Lemma safe_flow_blanks : forall fuel lbl lb tb ws k, safe k (flow_blanks sops fuel lbl lb tb ws).
Proof.
  induction fuel as [|fuel IH]; intros lbl lb tb ws k; cbn [flow_blanks]; [apply safe_oof|].
  apply safe_peek_bind_val; intros c. hgo.
Qed.
#[export] Hint Resolve safe_consume_nonws safe_flow_blanks : safedb.

Theorem safe_scan_flow_scalar F single k : safe k (scan_flow_scalar sops F single).
Proof.
  unfold scan_flow_scalar. sstep; [sgo|]. sstep; [sgo|]. sstep; [|sgo].
  match goal with |- safe _ (?L F [] false 0%N []) => assert (HL : forall f a lb tb ws k, safe k (L f a lb tb ws)) end.
  { induction f as [|f IH]; intros a' lb tb ws k'; lazy beta iota; [apply safe_oof|]. sgo. }
  apply HL.
Qed.

(* ---------------- plain scalars ---------------- *)
Lemma safe_plain_chunk : forall fuel j acc k, safe k (plain_chunk sops fuel j acc).
Proof. induction fuel as [|fuel IH]; intros j acc k; cbn [plain_chunk]; [apply safe_oof|]. sgo. Qed.

Lemma safe_plain_blanks F : forall fuel indent start lb tb ws k, safe k (plain_blanks sops F fuel indent start lb tb ws).
Proof.
  induction fuel as [|fuel IH]; intros indent start lb tb ws k; cbn [plain_blanks]; [apply safe_oof|].
  apply safe_peek_bind_val; intros c. hgo.
Qed.
#[export] Hint Resolve safe_plain_chunk safe_plain_blanks : safedb.

Theorem safe_scan_plain_scalar F k : safe k (scan_plain_scalar sops F).
Proof.
  unfold scan_plain_scalar. sstep; [sgo|]. sstep; [sgo|]. sstep; [sgo|]. sstep; [|sgo].
  match goal with |- safe _ (?L F [] false 0%N [] ?m) =>
    assert (HL : forall f a lb tb ws e k, safe k (L f a lb tb ws e)) end.
  { induction f as [|f IH]; intros a' lb tb ws e k'; lazy beta iota; [apply safe_oof|]. sgo. }
  apply HL.
Qed.

(* ---------------- block scalars ---------------- *)
Lemma is_breakz_split c : is_breakz c = true -> is_z c = false -> is_break c = true.
Proof. unfold is_breakz. intros H E. rewrite E, orb_false_r in H. exact H. Qed.

(* the content line stops in front of a break or at the end of the input *)
Lemma safeQ_content_line F acc k :
  safeQ k (scan_block_scalar_content_line sops F acc) (fun c => is_breakz c = true).
Proof.
  intros s Hk. unfold scan_block_scalar_content_line. apply ws_bind.
  match goal with |- wps (?L F acc) _ _ =>
    assert (HL : forall f a s1, K s s1 ->
              wps (L f a) (fun _ s' => K s s' /\ (lk s' = 0 \/ is_breakz (c0 s') = true)) s1) end.
  { induction f as [|f IH]; intros a s1 K1; lazy beta iota; [exact I|].
    apply ws_bind, ws_buf_is_empty. destruct (Nat.eqb (lk s1) 0) eqn:E.
    { apply ws_ret. split; [exact K1|left; apply Nat.eqb_eq, E]. }
    apply ws_bind, ws_peek_val. destruct (is_breakz (c0 s1)) eqn:Ez.
    { apply ws_ret. split; [exact K1|right; exact Ez]. }
    apply ws_bind, ws_skip_blank. intros s2 K2 L2 _. apply IH.
    eapply K_trans; [exact K1|]. split; [exact K2|lia]. }
  eapply ws_mono; [apply HL, K_refl|]. intros acc1 s1 [K1 D]. cbv beta.
  apply ws_bind, ws_buf_is_empty. destruct (Nat.eqb (lk s1) 0) eqn:E.
  - match goal with |- wps (?L F acc1 0%N) _ _ =>
      assert (HR : forall f a n s2, K s s2 ->
                wps (L f a n) (fun _ s' => K s s' /\ is_breakz (c0 s') = true) s2) end.
    { induction f as [|f IH]; intros a n s2 K2; lazy beta iota; [exact I|].
      apply ws_bind, ws_raw_read. intros c s3 S3 L3 Hc.
      assert (K3 : K s s3) by (eapply K_trans; [exact K2|apply K_input; [exact S3|lia]]).
      destruct c as [c|]; [apply IH, K3|].
      apply ws_bind, ws_adv_mark. intros s4 K4 L4 C4. apply ws_ret. split.
      - eapply K_trans; [exact K3|]. split; [exact K4|lia].
      - unfold c0. rewrite C4. apply Hc. reflexivity. }
    apply HR, K1.
  - apply ws_ret. split; [exact K1|]. destruct D as [D|D]; [|exact D].
    apply Nat.eqb_neq in E. contradiction.
Qed.

Lemma safe_skip_spaces_to : forall fuel indent cb k, safe k (skip_spaces_to sops fuel indent cb).
Proof. induction fuel as [|fuel IH]; intros indent cb k; cbn [skip_spaces_to]; [apply safe_oof|]. sgo. Qed.
#[export] Hint Resolve safe_skip_spaces_to : safedb.

Lemma safe_skip_block_scalar_indent F : forall fuel indent breaks k, safe k (skip_block_scalar_indent sops F fuel indent breaks).
Proof.
  induction fuel as [|fuel IH]; intros indent breaks k; cbn [skip_block_scalar_indent]; [apply safe_oof|].
  apply safe_bind; [|intros _].
  { (* site 121: bufmaxlen = 128 *)
    destruct (Nat.ltb (bufmaxlen sops) 2) eqn:E; [|sgo]. apply safe_panic_absurd. vm_compute in E. discriminate E. }
  apply safe_bind; [|intros _].
  { destruct (_ <? _)%N; [sgo|].
    apply safe_bind; [|intros; sgo].
    match goal with |- safe _ (?L F) => assert (HL : forall f k, safe k (L f)) end.
    { induction f as [|f IHf]; intros k'; lazy beta iota; [apply safe_oof|]. sgo. }
    apply HL. }
  apply safe_next_is_bind_val; intros c. hgo.
Qed.

Lemma safe_skip_first_line_indent F : forall fuel maxi breaks k, safe k (skip_first_line_indent sops F fuel maxi breaks).
Proof.
  induction fuel as [|fuel IH]; intros maxi breaks k; cbn [skip_first_line_indent]; [apply safe_oof|].
  apply safe_bind; [|intros _].
  { match goal with |- safe _ (?L F) => assert (HL : forall f k, safe k (L f)) end.
    { induction f as [|f IHf]; intros k'; lazy beta iota; [apply safe_oof|]. sgo. }
    apply HL. }
  apply safe_bind; [sgo|intros col]. cbv zeta.
  apply safe_next_is_bind_val; intros c. hgo.
Qed.
#[export] Hint Resolve safe_skip_block_scalar_indent safe_skip_first_line_indent : safedb.

Theorem safe_scan_block_scalar F literal k : safe k (scan_block_scalar sops F literal).
Proof.
  unfold scan_block_scalar.
  apply safe_bind; [sgo|intros start]. cbv zeta.
  apply safe_bind; [sgo|intros _]. apply safe_bind; [sgo|intros _].
  apply safe_bind; [sgo|intros c].
  apply safe_bind; [sgo|intros hd]. destruct hd as [chomp increment].
  apply safe_bind; [sgo|intros _]. apply safe_look_bind; intros _.
  apply safe_peek_bind_val; intros c1.
  destruct (negb (is_breakz c1)); [apply safeH_weak; sgo|].
  apply safeH_bind; [hgo|intros cbreak].
  apply safe_bind; [sgo|intros c2]. destruct (c2 =? 9)%N; [sgo|].
  apply safe_bind; [sgo|intros s]. cbv zeta.
  apply safe_bind; [sgo|intros ib]. destruct ib as [indent tbreaks].
  apply safe_bind; [sgo|intros z]. apply safe_bind; [sgo|intros s1].
  destruct z; [sgo|].
  apply safe_bind; [sgo|intros wrong]. destruct wrong; [sgo|].
  apply safe_bind; [sgo|intros s2]. cbv zeta.
  apply safe_bind; [|intros r; sgo].
  match goal with |- safe _ (?L F [] 0%N tbreaks false) =>
    assert (HL : forall f a lb tb b k, safe k (L f a lb tb b)) end.
  { induction f as [|f IH]; intros a lb tb b k'; lazy beta iota; [apply safe_oof|].
    apply safe_bind; [sgo|intros col]. apply safe_bind; [sgo|intros z].
    destruct (negb (col =? indent)%N || z); [sgo|].
    apply safe_bind; [sgo|intros de]. destruct de; [sgo|].
    apply safe_bind; [sgo|intros trailing_blank]. cbv zeta.
    eapply safeQ_bind; [apply safeQ_content_line|intros acc1].
    apply safeH_look_bind; intros _.
    apply safeH_next_is_bind; intros c' Hc'. unfold is_z at 1.
    destruct (c' =? 0)%N eqn:Ez; [apply safeH_weak; sgo|].
    apply safeH_bind; [apply safeH_skip_break; intros ? <-; apply is_breakz_split; assumption|intros _].
    sgo. }
  apply HL.
Qed.

Print Assumptions safe_scan_flow_scalar.
Print Assumptions safe_scan_plain_scalar.
Print Assumptions safe_scan_block_scalar.
