(* C16 — percent-decoding: the scanner model's scan_uri_escapes (Model/SDir.v) against the RFC 3629
   specification of Spec/TagSpec.v.

   Main results
     utf8_decode_strict        the specification's decoder accepts a byte sequence iff it is [utf8_encode c] for a
                               Unicode scalar value c (shortest form, no surrogates, at most U+10FFFF), and yields c
     scan_uri_escapes_exact    on EVERY scanner state over the string back-end the model returns exactly what the
                               specification's reader of one escaped character ([take_escaped_char]) returns, having
                               consumed exactly those escapes, and reports an error (sites 50..53) exactly when the
                               specification has no reading; it never runs out of fuel and never panics
     scan_uri_escapes_strict   byte level, both directions: the escapes of a byte sequence are accepted as a whole
                               iff the sequence is the UTF-8 encoding of a scalar value, and then that value is returned
     scan_uri_escapes_rejects  a byte sequence none of whose prefixes is such an encoding is an error             *)
From Coq Require Import List NArith ZArith Bool Lia.
Import ListNotations.
Require Import Parser TagSpec SBase SPrim SDir.
Open Scope N_scope.
Open Scope mon_scope.

(* ========================================================================================== *)
(* 1. The specification alone: the decoder is strict and inverse to the encoder                 *)
(* ========================================================================================== *)
Ltac Zify.zify_post_hook ::= Z.to_euclidean_division_equations.

Lemma is_scalar_le : forall c, is_scalar_value c = true -> c <= 1114111.
Proof.
  intros c HV. unfold is_scalar_value in HV. destruct (N.ltb_spec c 55296); [lia|].
  cbn [orb] in HV. apply andb_true_iff in HV. destruct HV as [_ HV]. apply N.leb_le in HV. exact HV.
Qed.

Lemma utf8_round_trip : forall c, is_scalar_value c = true -> utf8_decode (utf8_encode c) = Some c.
Proof.
  intros c HV. unfold is_scalar_value in HV. unfold utf8_encode.
  destruct (N.ltb_spec c 128) as [H1|H1].
  - cbn [utf8_decode]. rewrite (proj2 (N.leb_le c 127)) by lia. reflexivity.
  - destruct (N.ltb_spec c 2048) as [H2|H2].
    + cbn [utf8_decode]. unfold continuation.
      rewrite (proj2 (N.leb_le 194 (192 + c / 64))) by lia.
      rewrite (proj2 (N.leb_le (192 + c / 64) 223)) by lia.
      rewrite (proj2 (N.leb_le 128 (128 + c mod 64))) by lia.
      rewrite (proj2 (N.leb_le (128 + c mod 64) 191)) by lia.
      cbn [andb]. f_equal. lia.
    + destruct (N.ltb_spec c 65536) as [H3|H3].
      * cbn [utf8_decode]. unfold continuation.
        rewrite (proj2 (N.leb_le 224 (224 + c / 4096))) by lia.
        rewrite (proj2 (N.leb_le (224 + c / 4096) 239)) by lia.
        rewrite (proj2 (N.leb_le 128 (128 + (c / 64) mod 64))) by lia.
        rewrite (proj2 (N.leb_le (128 + (c / 64) mod 64) 191)) by lia.
        rewrite (proj2 (N.leb_le 128 (128 + c mod 64))) by lia.
        rewrite (proj2 (N.leb_le (128 + c mod 64) 191)) by lia.
        cbn [andb]. cbv zeta.
        assert (E : (224 + c / 4096 - 224) * 4096 + (128 + (c / 64) mod 64 - 128) * 64 + (128 + c mod 64 - 128) = c) by lia.
        rewrite E. rewrite (proj2 (N.leb_le 2048 c)) by lia. cbn [andb]. unfold is_scalar_value. rewrite HV. reflexivity.
      * assert (H4 : c <= 1114111).
        { destruct (N.ltb_spec c 55296); [lia|]. cbn [orb] in HV. apply andb_true_iff in HV. destruct HV as [_ HV].
          apply N.leb_le in HV. exact HV. }
        cbn [utf8_decode]. unfold continuation.
        rewrite (proj2 (N.leb_le 240 (240 + c / 262144))) by lia.
        rewrite (proj2 (N.leb_le (240 + c / 262144) 244)) by lia.
        rewrite (proj2 (N.leb_le 128 (128 + (c / 4096) mod 64))) by lia.
        rewrite (proj2 (N.leb_le (128 + (c / 4096) mod 64) 191)) by lia.
        rewrite (proj2 (N.leb_le 128 (128 + (c / 64) mod 64))) by lia.
        rewrite (proj2 (N.leb_le (128 + (c / 64) mod 64) 191)) by lia.
        rewrite (proj2 (N.leb_le 128 (128 + c mod 64))) by lia.
        rewrite (proj2 (N.leb_le (128 + c mod 64) 191)) by lia.
        cbn [andb]. cbv zeta.
        assert (E : (240 + c / 262144 - 240) * 262144 + (128 + (c / 4096) mod 64 - 128) * 4096
                    + (128 + (c / 64) mod 64 - 128) * 64 + (128 + c mod 64 - 128) = c) by lia.
        rewrite E. rewrite (proj2 (N.leb_le 65536 c)) by lia. rewrite (proj2 (N.leb_le c 1114111)) by lia. reflexivity.
Qed.

(* turn every boolean comparison of a hypothesis into an arithmetic fact, dropping the impossible branches *)
Ltac split_bools H :=
  repeat match type of H with
         | context [?a <=? ?b] => destruct (N.leb_spec a b); cbn [andb orb negb] in H; try discriminate H
         | context [?a <? ?b] => destruct (N.ltb_spec a b); cbn [andb orb negb] in H; try discriminate H
         end.

(* the converse: whatever the decoder accepts is the encoder's output for a scalar value *)
Lemma utf8_decode_encode : forall bs c, utf8_decode bs = Some c -> is_scalar_value c = true /\ utf8_encode c = bs.
Proof.
  intros bs c H.
  destruct bs as [|b1 [|b2 [|b3 [|b4 [|b5 bs]]]]]; cbn [utf8_decode] in H; try discriminate; unfold continuation in H.
  - split_bools H. inversion H; subst c. unfold is_scalar_value, utf8_encode.
    rewrite (proj2 (N.ltb_lt b1 55296)) by lia. rewrite (proj2 (N.ltb_lt b1 128)) by lia. split; reflexivity.
  - split_bools H. inversion H; subst c. set (c := (b1 - 192) * 64 + (b2 - 128)).
    assert (128 <= c < 2048) by (unfold c; lia).
    unfold is_scalar_value, utf8_encode.
    rewrite (proj2 (N.ltb_lt c 55296)) by lia. rewrite (proj2 (N.ltb_ge c 128)) by lia.
    rewrite (proj2 (N.ltb_lt c 2048)) by lia. split; [reflexivity|].
    f_equal; [unfold c; lia|]. f_equal. unfold c; lia.
  - cbv zeta in H. set (c0 := (b1 - 224) * 4096 + (b2 - 128) * 64 + (b3 - 128)) in *.
    destruct (is_scalar_value c0) eqn:HV.
    2:{ split_bools H. }
    split_bools H. inversion H; subst c. split; [exact HV|].
    assert (2048 <= c0 < 65536) by (unfold c0; lia).
    unfold utf8_encode.
    rewrite (proj2 (N.ltb_ge c0 128)) by lia. rewrite (proj2 (N.ltb_ge c0 2048)) by lia.
    rewrite (proj2 (N.ltb_lt c0 65536)) by lia.
    f_equal; [unfold c0; lia|]. f_equal; [unfold c0; lia|]. f_equal. unfold c0; lia.
  - cbv zeta in H. set (c0 := (b1 - 240) * 262144 + (b2 - 128) * 4096 + (b3 - 128) * 64 + (b4 - 128)) in *.
    split_bools H. inversion H; subst c.
    unfold is_scalar_value, utf8_encode.
    rewrite (proj2 (N.ltb_ge c0 55296)) by lia. rewrite (proj2 (N.ltb_lt 57343 c0)) by lia.
    rewrite (proj2 (N.leb_le c0 1114111)) by lia. split; [reflexivity|].
    rewrite (proj2 (N.ltb_ge c0 128)) by lia. rewrite (proj2 (N.ltb_ge c0 2048)) by lia.
    rewrite (proj2 (N.ltb_ge c0 65536)) by lia.
    f_equal; [unfold c0; lia|]. f_equal; [unfold c0; lia|]. f_equal; [unfold c0; lia|]. f_equal. unfold c0; lia.
Qed.

(* STRICTNESS of the specification: a byte sequence decodes to c iff c is a Unicode scalar value and the
   sequence is its (unique, shortest-form) UTF-8 encoding *)
Theorem utf8_decode_strict : forall bs c,
  utf8_decode bs = Some c <-> (is_scalar_value c = true /\ bs = utf8_encode c).
Proof.
  intros bs c. split.
  - intros H. destruct (utf8_decode_encode _ _ H) as [H1 H2]. split; [exact H1|symmetry; exact H2].
  - intros [H1 ->]. apply utf8_round_trip. exact H1.
Qed.

Theorem utf8_decode_injective : forall bs1 bs2 c, utf8_decode bs1 = Some c -> utf8_decode bs2 = Some c -> bs1 = bs2.
Proof.
  intros bs1 bs2 c H1 H2. apply utf8_decode_encode in H1. apply utf8_decode_encode in H2.
  destruct H1 as [_ H1]. destruct H2 as [_ H2]. congruence.
Qed.

Theorem utf8_encode_injective : forall c1 c2,
  is_scalar_value c1 = true -> is_scalar_value c2 = true -> utf8_encode c1 = utf8_encode c2 -> c1 = c2.
Proof.
  intros c1 c2 H1 H2 E. apply utf8_round_trip in H1. apply utf8_round_trip in H2. rewrite E in H1. congruence.
Qed.

(* the length announced by the leading byte is the length of the encoding *)
Lemma utf8_decode_length : forall b bs c, utf8_decode (b :: bs) = Some c -> sequence_length b = Some (S (length bs)).
Proof.
  intros b bs c H.
  destruct bs as [|b2 [|b3 [|b4 [|b5 bs]]]]; cbn [utf8_decode] in H; try discriminate; unfold continuation in H;
    split_bools H; unfold sequence_length;
    repeat match goal with
           | |- context [?x <=? ?y] => destruct (N.leb_spec x y); cbn [andb]; try lia
           end; reflexivity.
Qed.

Lemma utf8_encode_bytes : forall c, c <= 1114111 -> Forall (fun b => b < 256) (utf8_encode c).
Proof.
  intros c H. unfold utf8_encode.
  destruct (N.ltb_spec c 128); [repeat constructor; lia|].
  destruct (N.ltb_spec c 2048); [repeat constructor; lia|].
  destruct (N.ltb_spec c 65536); repeat constructor; lia.
Qed.

Lemma utf8_encode_length : forall c, (1 <= length (utf8_encode c) <= 4)%nat.
Proof.
  intros c. unfold utf8_encode.
  destruct (c <? 128); [cbn; lia|]. destruct (c <? 2048); [cbn; lia|]. destruct (c <? 65536); cbn; lia.
Qed.

(* ---- escapes: [es] spells the bytes [bs] as %XY (hexadecimal digits of either case) ---- *)
Inductive spells : list N -> list N -> Prop :=
| spells_nil : spells [] []
| spells_cons : forall x y hi lo es bs,
    hex_value x = Some hi -> hex_value y = Some lo -> spells es bs ->
    spells (37 :: x :: y :: es) ((hi * 16 + lo) :: bs).

Lemma spells_length : forall es bs, spells es bs -> length es = (3 * length bs)%nat.
Proof. intros es bs H. induction H; cbn [length]; lia. Qed.

Lemma spells_fun : forall es bs1, spells es bs1 -> forall bs2, spells es bs2 -> bs1 = bs2.
Proof.
  intros es bs1 H. induction H as [|x y hi lo es bs Hx Hy HS IH]; intros bs2 H2.
  - inversion H2. reflexivity.
  - inversion H2; subst. f_equal; [congruence|]. apply IH. assumption.
Qed.

Lemma hex_value_lt : forall x d, hex_value x = Some d -> d < 16.
Proof.
  intros x d H. unfold hex_value in H.
  destruct (N.leb_spec 48 x); destruct (N.leb_spec x 57); cbn [andb] in H;
  destruct (N.leb_spec 65 x); destruct (N.leb_spec x 70); cbn [andb] in H;
  destruct (N.leb_spec 97 x); destruct (N.leb_spec x 102); cbn [andb] in H;
  try discriminate; inversion H; subst; lia.
Qed.

Lemma take_escape_inv : forall l b r,
  take_escape l = Some (b, r) ->
  exists x y hi lo, l = 37 :: x :: y :: r /\ hex_value x = Some hi /\ hex_value y = Some lo /\ b = hi * 16 + lo /\ b < 256.
Proof.
  intros l b r H. unfold take_escape in H. destruct l as [|p [|x [|y l']]]; try discriminate.
  destruct (N.eqb_spec p percent) as [->|]; [|discriminate].
  destruct (hex_value x) as [hi|] eqn:Hx; [|discriminate]. destruct (hex_value y) as [lo|] eqn:Hy; [|discriminate].
  inversion H; subst. exists x, y, hi, lo. repeat split; try assumption.
  pose proof (hex_value_lt _ _ Hx). pose proof (hex_value_lt _ _ Hy). lia.
Qed.

Lemma take_escapes_spells : forall n l bs r,
  take_escapes n l = Some (bs, r) -> exists es, l = es ++ r /\ spells es bs /\ length bs = n.
Proof.
  induction n as [|n IH]; intros l bs r H; cbn [take_escapes] in H.
  - inversion H; subst. exists []. repeat split. constructor.
  - destruct (take_escape l) as [[b r1]|] eqn:E1; [|discriminate].
    destruct (take_escapes n r1) as [[bs1 r2]|] eqn:E2; [|discriminate]. inversion H; subst.
    destruct (IH _ _ _ E2) as [es [-> [HS HL]]].
    destruct (take_escape_inv _ _ _ E1) as [x [y [hi [lo [-> [Hx [Hy [-> _]]]]]]]].
    exists (37 :: x :: y :: es). split; [reflexivity|]. split; [|cbn [length]; congruence].
    apply spells_cons; assumption.
Qed.

Lemma spells_take_escapes : forall es bs rest, spells es bs -> take_escapes (length bs) (es ++ rest) = Some (bs, rest).
Proof.
  intros es bs rest H. induction H as [|x y hi lo es bs Hx Hy HS IH]; [reflexivity|].
  cbn [length take_escapes app take_escape]. change (37 =? percent) with true. cbv iota.
  rewrite Hx, Hy, IH. reflexivity.
Qed.

(* the specification's reader of one escaped character, in the words of [spells] and [utf8_decode] *)
Theorem take_escaped_char_spells : forall l c r,
  take_escaped_char l = Some (c, r) <-> exists es bs, l = es ++ r /\ spells es bs /\ utf8_decode bs = Some c.
Proof.
  intros l c r. split.
  - intros H. unfold take_escaped_char in H.
    destruct (take_escape l) as [[b r1]|] eqn:E1; [|discriminate].
    destruct (sequence_length b) as [[|n]|]; try discriminate.
    destruct (take_escapes n r1) as [[bs r2]|] eqn:E2; [|discriminate].
    destruct (utf8_decode (b :: bs)) as [c'|] eqn:ED; [|discriminate]. inversion H; subst c' r2.
    assert (E3 : take_escapes (S n) l = Some (b :: bs, r)) by (cbn [take_escapes]; rewrite E1, E2; reflexivity).
    destruct (take_escapes_spells _ _ _ _ E3) as [es [-> [HS HL]]]. exists es, (b :: bs). auto.
  - intros [es [bs [-> [HS HD]]]].
    destruct bs as [|b bs]; [discriminate|].
    pose proof (utf8_decode_length _ _ _ HD) as HL.
    pose proof (spells_take_escapes _ _ r HS) as HT. cbn [length take_escapes] in HT.
    unfold take_escaped_char.
    destruct (take_escape (es ++ r)) as [[b' r1]|]; [|discriminate].
    destruct (take_escapes (length bs) r1) as [[bs1 r2]|] eqn:E2; [|discriminate].
    inversion HT; subst. rewrite HL, E2, HD. reflexivity.
Qed.

(* the canonical spelling *)
Lemma hex_digit_value : forall d, d < 16 -> hex_value (hex_digit d) = Some d.
Proof.
  intros d H. unfold hex_digit, hex_value.
  destruct (N.ltb_spec d 10).
  - rewrite (proj2 (N.leb_le 48 (48 + d))) by lia. rewrite (proj2 (N.leb_le (48 + d) 57)) by lia.
    cbn [andb]. f_equal. lia.
  - rewrite (proj2 (N.leb_le 48 (55 + d))) by lia. rewrite (proj2 (N.leb_gt (55 + d) 57)) by lia.
    rewrite (proj2 (N.leb_le 65 (55 + d))) by lia. rewrite (proj2 (N.leb_le (55 + d) 70)) by lia.
    cbn [andb]. f_equal. lia.
Qed.

Lemma spells_escape_bytes : forall bs, Forall (fun b => b < 256) bs -> spells (flat_map escape_byte bs) bs.
Proof.
  induction bs as [|b bs IH]; intros H; [constructor|].
  inversion H as [|? ? Hb H']; subst. cbn [flat_map escape_byte app].
  replace b with ((b / 16) * 16 + b mod 16) at 3 by lia.
  apply spells_cons; [apply hex_digit_value; lia|apply hex_digit_value; lia|apply IH; exact H'].
Qed.

Lemma spells_percent_encode : forall c, is_scalar_value c = true -> spells (percent_encode c) (utf8_encode c).
Proof. intros c H. apply spells_escape_bytes. apply utf8_encode_bytes. apply is_scalar_le. exact H. Qed.

(* ========================================================================================== *)
(* 2. The model's loop, one escape at a time                                                     *)
(* ========================================================================================== *)
(* scan_uri_escapes is an anonymous loop applied to the fuel 5 (a sequence has at most 4 bytes); the same
   loop with a name, so that it can be unfolded one escape at a time *)
Section UriGo.
Variable mk : marker.
Fixpoint uri_go (f : nat) (width : N) (len : N) (code : N) (first : bool) : @M strin chr :=
     match f with
     | O => oof
     | S f =>
       look str_ops 3 ;;; c0 <- peek str_ops ;; c <- peekn str_ops 1 ;; nc <- peekn str_ops 2 ;;
       if negb ((c0 =? 37) && is_hex c && is_hex nc) then fail 50 mk else
       let byte := as_hex c * 16 + as_hex nc in
       r <- (if first then
               if N.land byte 128 =? 0 then ret (1, byte)
               else if N.land byte 224 =? 192 then ret (2, N.land byte 31)
               else if N.land byte 240 =? 224 then ret (3, N.land byte 15)
               else if N.land byte 248 =? 240 then ret (4, N.land byte 7)
               else fail 51 mk
             else if negb (N.land byte 192 =? 128) then fail 52 mk
             else ret (width, code * 64 + N.land byte 63)) ;;
       let '(w, cd) := r in
       let len := if first then w else len in
       skip_n_non_blank str_ops 3 ;;;
       if w - 1 =? 0 then
         (if ((cd <? 55296) || ((57343 <? cd) && (cd <=? 1114111))) && (len_utf8 cd =? len) then ret cd else fail 53 mk)
       else uri_go f (w - 1) len cd false
     end.
End UriGo.

Lemma scan_uri_escapes_go : forall mk, scan_uri_escapes str_ops mk = uri_go mk 5 0 0 0 true.
Proof. reflexivity. Qed.

(* the scanner state after consuming n characters that are not blanks or breaks *)
Definition eat (n : nat) (s : sc strin) : sc strin :=
  set_lws false (set_mark (adv (N.of_nat n) (sc_mark s))
    (set_in {| si_chars := skipn n (si_chars (sc_in s)); si_look := Nat.max (si_look (sc_in s)) 3 |} s)).
Fixpoint eats (n : nat) (s : sc strin) : sc strin := match n with O => s | S n => eats n (eat 3 s) end.

(* how the model reads one escape and its leading byte *)
Definition model_escape (l : list chr) : option N :=
  if (@nth chr 0 l 0 =? 37) && is_hex (@nth chr 1 l 0) && is_hex (@nth chr 2 l 0)
  then Some (as_hex (@nth chr 1 l 0) * 16 + as_hex (@nth chr 2 l 0)) else None.
Definition lead_model (byte : N) : option (N * N) :=
  if N.land byte 128 =? 0 then Some (1, byte)
  else if N.land byte 224 =? 192 then Some (2, N.land byte 31)
  else if N.land byte 240 =? 224 then Some (3, N.land byte 15)
  else if N.land byte 248 =? 240 then Some (4, N.land byte 7)
  else None.
Definition scalar_test (cd : N) : bool := (cd <? 55296) || ((57343 <? cd) && (cd <=? 1114111)).

Lemma go_step : forall mk f width len code first s,
  uri_go mk (S f) width len code first s =
  match model_escape (si_chars (sc_in s)) with
  | None => SBase.Err 50 mk
  | Some byte =>
    match (if first then lead_model byte
           else if negb (N.land byte 192 =? 128) then None else Some (width, code * 64 + N.land byte 63)) with
    | None => SBase.Err (if first then 51 else 52) mk
    | Some (w, cd) =>
        if w - 1 =? 0 then
          (if scalar_test cd && (len_utf8 cd =? (if first then w else len)) then SBase.Ok (cd, eat 3 s) else SBase.Err 53 mk)
        else uri_go mk f (w - 1) (if first then w else len) cd false (eat 3 s)
    end
  end.
Proof.
  intros mk f width len code first s.
  destruct s as [inp mark toks ss se adj ska sks ind inds fl tp ta lws ifms].
  destruct inp as [chars lk].
  cbn [uri_go].
  cbv [bind look peek peekn lookahead peek_nth str_ops sc_in set_in upd si_chars si_look model_escape].
  destruct ((nth 0 chars 0 =? 37) && is_hex (nth 1 chars 0) && is_hex (nth 2 chars 0)); cbv [negb]; [|reflexivity].
  cbv zeta.
  cbv [skip_n_non_blank in_skip_n skip_n adv_mark modify bind str_ops sc_in set_in upd si_chars si_look ret fail eat
       lead_model scalar_test].
  destruct first;
    repeat match goal with |- context [if ?b then _ else _] => destruct b end; reflexivity.
Qed.

(* ---- finite facts about bytes, by exhaustive evaluation over 0..255 ---- *)
Fixpoint below (n : nat) (f : N -> bool) : bool :=
  match n with O => true | S n => f (N.of_nat n) && below n f end.
Lemma below_spec : forall n f, below n f = true -> forall x, x < N.of_nat n -> f x = true.
Proof.
  induction n as [|n IH]; intros f H x Hx; [lia|].
  cbn [below] in H. apply andb_true_iff in H. destruct H as [H1 H2].
  destruct (N.eq_dec x (N.of_nat n)) as [->|Hne]; [exact H1|].
  apply IH; [exact H2|lia].
Qed.

(* the bit tests of the model, arithmetically *)
Definition lead_arith (b : N) : option (N * N) :=
  if b <=? 127 then Some (1, b)
  else if b <=? 191 then None
  else if b <=? 223 then Some (2, b - 192)
  else if b <=? 239 then Some (3, b - 224)
  else if b <=? 247 then Some (4, b - 240)
  else None.
Definition opt_eqb (a b : option (N * N)) : bool :=
  match a, b with
  | None, None => true
  | Some (x, y), Some (u, v) => (x =? u) && (y =? v)
  | _, _ => false
  end.
Lemma opt_eqb_eq : forall a b, opt_eqb a b = true -> a = b.
Proof.
  intros [[x y]|] [[u v]|] H; cbn [opt_eqb] in H; try discriminate; [|reflexivity].
  apply andb_true_iff in H. destruct H as [H1 H2]. apply N.eqb_eq in H1. apply N.eqb_eq in H2. congruence.
Qed.
Lemma lead_model_arith : forall b, b < 256 -> lead_model b = lead_arith b.
Proof.
  intros b H. apply opt_eqb_eq. revert b H.
  apply (below_spec 256 (fun b => opt_eqb (lead_model b) (lead_arith b))). vm_compute. reflexivity.
Qed.
Definition cont_check (b : N) : bool :=
  Bool.eqb (N.land b 192 =? 128) (continuation b) && (if continuation b then N.land b 63 =? b - 128 else true).
Lemma cont_model : forall b, b < 256 ->
  (N.land b 192 =? 128) = continuation b /\ (continuation b = true -> N.land b 63 = b - 128).
Proof.
  intros b H. assert (C : cont_check b = true) by (revert b H; apply (below_spec 256); vm_compute; reflexivity).
  unfold cont_check in C. apply andb_true_iff in C. destruct C as [C1 C2]. apply Bool.eqb_prop in C1.
  split; [exact C1|]. intros HC. rewrite HC in C2. apply N.eqb_eq in C2. exact C2.
Qed.

(* ---- hexadecimal digits: the specification's reading = the generated char_traits tables ---- *)
Lemma hex_value_model : forall x d, hex_value x = Some d -> is_hex x = true /\ as_hex x = d /\ d < 16.
Proof.
  intros x d H. unfold hex_value in H. unfold is_hex, as_hex.
  destruct (N.leb_spec 48 x); destruct (N.leb_spec x 57); cbn [andb orb] in *;
  destruct (N.leb_spec 65 x); destruct (N.leb_spec x 70); cbn [andb orb] in *;
  destruct (N.leb_spec 97 x); destruct (N.leb_spec x 102); cbn [andb orb] in *;
  try discriminate; inversion H; subst; repeat split; try reflexivity; lia.
Qed.
Lemma hex_value_none : forall x, hex_value x = None -> is_hex x = false.
Proof.
  intros x H. unfold hex_value in H. unfold is_hex.
  destruct (N.leb_spec 48 x); destruct (N.leb_spec x 57); cbn [andb orb] in *;
  destruct (N.leb_spec 65 x); destruct (N.leb_spec x 70); cbn [andb orb] in *;
  destruct (N.leb_spec 97 x); destruct (N.leb_spec x 102); cbn [andb orb] in *;
  try discriminate; reflexivity.
Qed.
Lemma is_hex_0 : is_hex 0 = false.
Proof. reflexivity. Qed.

(* the model reads an escape exactly where the specification does, and reads the same byte *)
Lemma model_escape_spec : forall l, model_escape l = option_map fst (take_escape l).
Proof.
  intros l. unfold model_escape, take_escape.
  destruct l as [|p [|x [|y r]]]; cbn [nth].
  - reflexivity.
  - rewrite is_hex_0, andb_false_r. reflexivity.
  - rewrite is_hex_0, andb_false_r. reflexivity.
  - unfold percent. destruct (p =? 37); cbn [andb]; [|reflexivity].
    destruct (hex_value x) as [hi|] eqn:Hx.
    + destruct (hex_value_model _ _ Hx) as [Ix [Ax _]]. rewrite Ix. cbn [andb].
      destruct (hex_value y) as [lo|] eqn:Hy.
      * destruct (hex_value_model _ _ Hy) as [Iy [Ay _]]. rewrite Iy, Ax, Ay. reflexivity.
      * rewrite (hex_value_none _ Hy). reflexivity.
    + rewrite (hex_value_none _ Hx). reflexivity.
Qed.

Lemma eat_chars_skipn : forall s, si_chars (sc_in (eat 3 s)) = @skipn N 3 (si_chars (sc_in s)).
Proof. reflexivity. Qed.

Lemma take_escape_rest : forall l b r, take_escape l = Some (b, r) -> r = skipn 3 l.
Proof. intros l b r H. destruct (take_escape_inv _ _ _ H) as [x [y [hi [lo [-> _]]]]]. reflexivity. Qed.

(* the first escape of a character *)
Lemma go_first : forall mk f s,
  uri_go mk (S f) 0 0 0 true s =
  match take_escape (si_chars (sc_in s)) with
  | None => SBase.Err 50 mk
  | Some (b, _) =>
      match lead_arith b with
      | None => SBase.Err 51 mk
      | Some (w, cd) =>
          if w - 1 =? 0 then (if scalar_test cd && (len_utf8 cd =? w) then SBase.Ok (cd, eat 3 s) else SBase.Err 53 mk)
          else uri_go mk f (w - 1) w cd false (eat 3 s)
      end
  end.
Proof.
  intros mk f s. rewrite go_step, model_escape_spec.
  destruct (take_escape (si_chars (sc_in s))) as [[b r]|] eqn:E; cbn [option_map fst]; [|reflexivity].
  destruct (take_escape_inv _ _ _ E) as [_ [_ [_ [_ [_ [_ [_ [_ Hb]]]]]]]].
  rewrite (lead_model_arith b Hb). reflexivity.
Qed.

(* a continuation escape *)
Lemma go_cont : forall mk f w len code s,
  uri_go mk (S f) w len code false s =
  match take_escape (si_chars (sc_in s)) with
  | None => SBase.Err 50 mk
  | Some (b, _) =>
      if continuation b then
        let cd := code * 64 + (b - 128) in
        if w - 1 =? 0 then (if scalar_test cd && (len_utf8 cd =? len) then SBase.Ok (cd, eat 3 s) else SBase.Err 53 mk)
        else uri_go mk f (w - 1) len cd false (eat 3 s)
      else SBase.Err 52 mk
  end.
Proof.
  intros mk f w len code s. rewrite go_step, model_escape_spec.
  destruct (take_escape (si_chars (sc_in s))) as [[b r]|] eqn:E; cbn [option_map fst]; [|reflexivity].
  destruct (take_escape_inv _ _ _ E) as [_ [_ [_ [_ [_ [_ [_ [_ Hb]]]]]]]].
  destruct (cont_model b Hb) as [C1 C2]. rewrite C1.
  destruct (continuation b) eqn:EC; cbn [negb]; [|reflexivity].
  rewrite (C2 eq_refl). reflexivity.
Qed.

(* ========================================================================================== *)
(* 3. The model equals the specification's reader on every input                                 *)
(* ========================================================================================== *)
(* the number of escapes the leading escape of a text announces *)
Definition escaped_len (l : list N) : nat :=
  match take_escape l with
  | Some (b, _) => match sequence_length b with Some n => n | None => 0 end
  | None => 0
  end.

Definition uri_error (o : outcome (chr * sc strin)) (mk : marker) : Prop :=
  exists site, o = SBase.Err site mk /\ 50 <= site <= 53.

Lemma uri_error_intro : forall site mk, 50 <= site <= 53 -> uri_error (SBase.Err site mk) mk.
Proof. intros site mk H. exists site. split; [reflexivity|exact H]. Qed.

Definition exact_post (mk : marker) (s : sc strin) (o : outcome (chr * sc strin)) : Prop :=
  let l : list N := si_chars (sc_in s) in
  match take_escaped_char l with
  | Some (c, r) => o = SBase.Ok (c, eats (escaped_len l) s) /\ r = skipn (3 * escaped_len l) l
  | None => uri_error o mk
  end.

Ltac range_split :=
  repeat match goal with
         | |- context [?a <=? ?b] => destruct (N.leb_spec a b); cbn [andb orb negb]
         | |- context [?a <? ?b] => destruct (N.ltb_spec a b); cbn [andb orb negb]
         end.

Lemma skipn_add : forall {A} b a (l : list A), skipn a (skipn b l) = skipn (b + a) l.
Proof.
  induction b as [|b IH]; intros a l; [reflexivity|].
  destruct l as [|x l]; cbn [skipn plus]; [destruct a; reflexivity|apply IH].
Qed.

(* the final test of the model (a scalar value, needing all the bytes that were given) against the range
   conditions of the specification *)
Lemma continuation_range : forall b, continuation b = true -> 128 <= b <= 191.
Proof.
  intros b H. unfold continuation in H. apply andb_true_iff in H. destruct H as [H1 H2].
  apply N.leb_le in H1. apply N.leb_le in H2. lia.
Qed.

Lemma final1 : forall b, b <= 127 -> scalar_test b && (len_utf8 b =? 1) = true.
Proof.
  intros b H. unfold scalar_test, len_utf8.
  rewrite (proj2 (N.ltb_lt b 55296)) by lia. rewrite (proj2 (N.ltb_lt b 128)) by lia. reflexivity.
Qed.

Lemma final2 : forall b1 b2, 192 <= b1 <= 223 -> continuation b2 = true ->
  scalar_test ((b1 - 192) * 64 + (b2 - 128)) && (len_utf8 ((b1 - 192) * 64 + (b2 - 128)) =? 2) = (194 <=? b1).
Proof.
  intros b1 b2 H1 H2. apply continuation_range in H2. set (cd := (b1 - 192) * 64 + (b2 - 128)).
  assert (Hcd : cd < 2048) by (unfold cd; lia).
  unfold scalar_test, len_utf8. rewrite (proj2 (N.ltb_lt cd 55296)) by lia. cbn [orb andb].
  rewrite (proj2 (N.ltb_lt cd 2048)) by lia.
  destruct (N.leb_spec 194 b1).
  - rewrite (proj2 (N.ltb_ge cd 128)) by (unfold cd; lia). reflexivity.
  - rewrite (proj2 (N.ltb_lt cd 128)) by (unfold cd; lia). reflexivity.
Qed.

Lemma final3 : forall b1 b2 b3, 224 <= b1 <= 239 -> continuation b2 = true -> continuation b3 = true ->
  ((b1 - 224) * 64 + (b2 - 128)) * 64 + (b3 - 128) = (b1 - 224) * 4096 + (b2 - 128) * 64 + (b3 - 128) /\
  forall cd, cd = (b1 - 224) * 4096 + (b2 - 128) * 64 + (b3 - 128) ->
  scalar_test cd && (len_utf8 cd =? 3) = (2048 <=? cd) && is_scalar_value cd.
Proof.
  intros b1 b2 b3 H1 H2 H3. apply continuation_range in H2. apply continuation_range in H3.
  split; [lia|]. intros cd Hcd. assert (cd < 65536) by lia.
  unfold is_scalar_value, scalar_test, len_utf8.
  rewrite (proj2 (N.ltb_lt cd 65536)) by lia.
  destruct (N.leb_spec 2048 cd).
  - rewrite (proj2 (N.ltb_ge cd 128)) by lia. rewrite (proj2 (N.ltb_ge cd 2048)) by lia.
    cbn [andb]. rewrite andb_true_r. reflexivity.
  - destruct (cd <? 128); [|rewrite (proj2 (N.ltb_lt cd 2048)) by lia]; rewrite andb_false_r; reflexivity.
Qed.

Lemma final4 : forall b1 b2 b3 b4, 240 <= b1 <= 247 ->
  continuation b2 = true -> continuation b3 = true -> continuation b4 = true ->
  (((b1 - 240) * 64 + (b2 - 128)) * 64 + (b3 - 128)) * 64 + (b4 - 128)
    = (b1 - 240) * 262144 + (b2 - 128) * 4096 + (b3 - 128) * 64 + (b4 - 128) /\
  forall cd, cd = (b1 - 240) * 262144 + (b2 - 128) * 4096 + (b3 - 128) * 64 + (b4 - 128) ->
  scalar_test cd && (len_utf8 cd =? 4) = (b1 <=? 244) && ((65536 <=? cd) && (cd <=? 1114111)).
Proof.
  intros b1 b2 b3 b4 H1 H2 H3 H4.
  apply continuation_range in H2. apply continuation_range in H3. apply continuation_range in H4.
  split; [lia|]. intros cd Hcd.
  unfold scalar_test, len_utf8.
  destruct (N.leb_spec b1 244); cbn [andb].
  - destruct (N.leb_spec 65536 cd); cbn [andb].
    + rewrite (proj2 (N.ltb_ge cd 55296)) by lia. rewrite (proj2 (N.ltb_lt 57343 cd)) by lia.
      rewrite (proj2 (N.ltb_ge cd 128)) by lia. rewrite (proj2 (N.ltb_ge cd 2048)) by lia.
      rewrite (proj2 (N.ltb_ge cd 65536)) by lia. cbn [orb andb]. rewrite andb_true_r. reflexivity.
    + rewrite (proj2 (N.ltb_lt cd 65536)) by lia.
      destruct (cd <? 128); [|destruct (cd <? 2048)]; rewrite andb_false_r; reflexivity.
  - assert (1114111 < cd) by lia.
    rewrite (proj2 (N.ltb_ge cd 55296)) by lia. rewrite (proj2 (N.leb_gt cd 1114111)) by lia.
    rewrite andb_false_r. reflexivity.
Qed.

(* THE theorem of this file *)
Theorem scan_uri_escapes_exact : forall mk s, exact_post mk s (scan_uri_escapes str_ops mk s).
Proof.
  intros mk s. unfold exact_post. rewrite scan_uri_escapes_go, go_first.
  unfold take_escaped_char, escaped_len.
  destruct (take_escape (si_chars (sc_in s))) as [[b1 r1]|] eqn:E1; [|apply uri_error_intro; lia].
  pose proof (take_escape_rest _ _ _ E1) as R1.
  destruct (take_escape_inv _ _ _ E1) as [_ [_ [_ [_ [_ [_ [_ [_ B1]]]]]]]].
  unfold lead_arith, sequence_length.
  destruct (N.leb_spec b1 127) as [L1|L1].
  { (* one byte *)
    cbn [take_escapes utf8_decode]. rewrite (proj2 (N.leb_le b1 127) L1).
    change (1 - 1 =? 0) with true. cbv iota. rewrite (final1 b1 L1).
    split; [reflexivity|exact R1]. }
  destruct (N.leb_spec b1 191) as [L2|L2].
  { (* a continuation byte in leading position *)
    rewrite (proj2 (N.leb_gt 192 b1)) by lia. cbn [andb]. 
    rewrite (proj2 (N.leb_gt 224 b1)) by lia. rewrite (proj2 (N.leb_gt 240 b1)) by lia. cbn [andb].
    apply uri_error_intro; lia. }
  rewrite (proj2 (N.leb_le 192 b1)) by lia. cbn [andb].
  destruct (N.leb_spec b1 223) as [L3|L3].
  { (* two bytes *)
    change (2 - 1 =? 0) with false. cbv iota.
    rewrite go_cont, eat_chars_skipn, <- R1. cbn [take_escapes].
    destruct (take_escape r1) as [[b2 r2]|] eqn:E2; [|apply uri_error_intro; lia].
    pose proof (take_escape_rest _ _ _ E2) as R2. cbn [utf8_decode].
    rewrite (proj2 (N.leb_le b1 223) L3), andb_true_r.
    destruct (continuation b2) eqn:C2; [|rewrite andb_false_r; apply uri_error_intro; lia].
    cbv zeta. change (2 - 1 - 1 =? 0) with true. cbv iota.
    rewrite (final2 b1 b2 ltac:(lia) C2), andb_true_r.
    destruct (194 <=? b1); [|apply uri_error_intro; lia].
    split; [reflexivity|]. rewrite R2, R1. apply skipn_add. }
  rewrite (proj2 (N.leb_le 224 b1)) by lia. cbn [andb].
  destruct (N.leb_spec b1 239) as [L4|L4].
  { (* three bytes *)
    change (3 - 1 =? 0) with false. cbv iota.
    rewrite go_cont, eat_chars_skipn, <- R1. cbn [take_escapes].
    destruct (take_escape r1) as [[b2 r2]|] eqn:E2; [|apply uri_error_intro; lia].
    pose proof (take_escape_rest _ _ _ E2) as R2.
    destruct (continuation b2) eqn:C2.
    2:{ destruct (take_escape r2) as [[b3 r3]|]; [|apply uri_error_intro; lia].
        cbn [utf8_decode]. rewrite C2, andb_false_r. cbn [andb]. apply uri_error_intro; lia. }
    cbv zeta. change (3 - 1 - 1 =? 0) with false. cbv iota.
    rewrite go_cont, eat_chars_skipn, eat_chars_skipn, <- R1, <- R2.
    destruct (take_escape r2) as [[b3 r3]|] eqn:E3; [|apply uri_error_intro; lia].
    pose proof (take_escape_rest _ _ _ E3) as R3. cbn [utf8_decode].
    rewrite (proj2 (N.leb_le 224 b1)) by lia. rewrite (proj2 (N.leb_le b1 239) L4), C2. cbn [andb].
    destruct (continuation b3) eqn:C3; [|apply uri_error_intro; lia].
    cbv zeta. change (3 - 1 - 1 - 1 =? 0) with true. cbv iota.
    destruct (final3 b1 b2 b3 ltac:(lia) C2 C3) as [EQ FIN]. rewrite EQ.
    rewrite (FIN _ eq_refl).
    destruct ((2048 <=? (b1 - 224) * 4096 + (b2 - 128) * 64 + (b3 - 128))
              && is_scalar_value ((b1 - 224) * 4096 + (b2 - 128) * 64 + (b3 - 128))); [|apply uri_error_intro; lia].
    split; [reflexivity|]. rewrite R3, R2, R1, !skipn_add. reflexivity. }
  rewrite (proj2 (N.leb_le 240 b1)) by lia. cbn [andb].
  destruct (N.leb_spec b1 247) as [L5|L5]; [|apply uri_error_intro; lia].
  (* four bytes *)
  change (4 - 1 =? 0) with false. cbv iota.
  rewrite go_cont, eat_chars_skipn, <- R1. cbn [take_escapes].
  destruct (take_escape r1) as [[b2 r2]|] eqn:E2; [|apply uri_error_intro; lia].
  pose proof (take_escape_rest _ _ _ E2) as R2.
  destruct (continuation b2) eqn:C2.
  2:{ destruct (take_escape r2) as [[b3 r3]|]; [|apply uri_error_intro; lia].
      destruct (take_escape r3) as [[b4 r4]|]; [|apply uri_error_intro; lia].
      cbn [utf8_decode]. rewrite C2, andb_false_r. cbn [andb]. apply uri_error_intro; lia. }
  cbv zeta. change (4 - 1 - 1 =? 0) with false. cbv iota.
  rewrite go_cont, eat_chars_skipn, eat_chars_skipn, <- R1, <- R2.
  destruct (take_escape r2) as [[b3 r3]|] eqn:E3; [|apply uri_error_intro; lia].
  pose proof (take_escape_rest _ _ _ E3) as R3.
  destruct (continuation b3) eqn:C3.
  2:{ destruct (take_escape r3) as [[b4 r4]|]; [|apply uri_error_intro; lia].
      cbn [utf8_decode]. rewrite C3, andb_false_r. cbn [andb]. apply uri_error_intro; lia. }
  cbv zeta. change (4 - 1 - 1 - 1 =? 0) with false. cbv iota.
  rewrite go_cont, !eat_chars_skipn, <- R1, <- R2, <- R3.
  destruct (take_escape r3) as [[b4 r4]|] eqn:E4; [|apply uri_error_intro; lia].
  pose proof (take_escape_rest _ _ _ E4) as R4. cbn [utf8_decode].
  rewrite (proj2 (N.leb_le 240 b1)) by lia. rewrite C2, C3. cbn [andb].
  destruct (continuation b4) eqn:C4; [|rewrite andb_false_r; apply uri_error_intro; lia].
  cbv zeta. change (4 - 1 - 1 - 1 - 1 =? 0) with true. cbv iota.
  destruct (final4 b1 b2 b3 b4 ltac:(lia) C2 C3 C4) as [EQ FIN]. rewrite EQ.
  rewrite (FIN _ eq_refl), andb_true_r.
  destruct (b1 <=? 244); cbn [andb]; [|apply uri_error_intro; lia].
  destruct ((65536 <=? (b1 - 240) * 262144 + (b2 - 128) * 4096 + (b3 - 128) * 64 + (b4 - 128))
            && ((b1 - 240) * 262144 + (b2 - 128) * 4096 + (b3 - 128) * 64 + (b4 - 128) <=? 1114111));
    [|apply uri_error_intro; lia].
  split; [reflexivity|]. rewrite R4, R3, R2, R1, !skipn_add. reflexivity.
Qed.

(* ---- what "consumed" means ---- *)
Lemma eat_chars : forall s a b c r, si_chars (sc_in s) = a :: b :: c :: r -> si_chars (sc_in (eat 3 s)) = r.
Proof. intros s a b c r H. cbn [eat set_lws set_flags set_mark set_in upd sc_in si_chars]. rewrite H. reflexivity. Qed.

Lemma eats_chars : forall n s, si_chars (sc_in (eats n s)) = @skipn N (3 * n) (si_chars (sc_in s)).
Proof.
  induction n as [|n IH]; intros s; [reflexivity|].
  cbn [eats]. rewrite IH. cbn [eat set_lws set_flags set_mark set_in upd sc_in si_chars].
  rewrite skipn_add. f_equal. lia.
Qed.

Lemma eats_mark : forall n s, sc_mark (eats n s) = adv (N.of_nat (3 * n)) (sc_mark s).
Proof.
  induction n as [|n IH]; intros s.
  - cbn [eats]. unfold adv. destruct (sc_mark s) as [i l c]. cbn. rewrite !N.add_0_r. reflexivity.
  - cbn [eats]. rewrite IH. cbn [eat set_lws set_flags set_mark set_in upd sc_mark]. unfold adv. cbn [m_index m_line m_col].
    f_equal; lia.
Qed.

Lemma eats_consumed : forall n s,
  si_chars (sc_in (eats n s)) = @skipn N (3 * n) (si_chars (sc_in s)) /\
  sc_mark (eats n s) = adv (N.of_nat (3 * n)) (sc_mark s).
Proof. intros n s. exact (conj (eats_chars n s) (eats_mark n s)). Qed.

Lemma eats_inj : forall n m s, eats n s = eats m s -> n = m.
Proof.
  intros n m s H. apply (f_equal sc_mark) in H. rewrite !eats_mark in H.
  apply (f_equal m_index) in H. unfold adv in H. cbn [m_index] in H. lia.
Qed.

(* everything else about the scanner state is untouched, except that the last character was not a blank *)
Lemma eats_other : forall n s, (0 < n)%nat ->
  sc_tokens (eats n s) = sc_tokens s /\ sc_stream_start (eats n s) = sc_stream_start s /\
  sc_stream_end (eats n s) = sc_stream_end s /\ sc_adjacent (eats n s) = sc_adjacent s /\
  sc_ska (eats n s) = sc_ska s /\ sc_sks (eats n s) = sc_sks s /\ sc_indent (eats n s) = sc_indent s /\
  sc_indents (eats n s) = sc_indents s /\ sc_flow_level (eats n s) = sc_flow_level s /\
  sc_tokens_parsed (eats n s) = sc_tokens_parsed s /\ sc_token_available (eats n s) = sc_token_available s /\
  sc_lws (eats n s) = false /\ sc_ifms (eats n s) = sc_ifms s.
Proof.
  induction n as [|n IH]; intros s Hn; [lia|].
  destruct n as [|n].
  - cbn [eats]. repeat split.
  - cbn [eats] in *. specialize (IH (eat 3 s) ltac:(lia)).
    destruct IH as [H1 [H2 [H3 [H4 [H5 [H6 [H7 [H8 [H9 [H10 [H11 [H12 H13]]]]]]]]]]]].
    rewrite H1, H2, H3, H4, H5, H6, H7, H8, H9, H10, H11, H12, H13. repeat split.
Qed.

(* ---- consequences of exactness ---- *)
(* soundness: whatever the model accepts, the specification reads, and the model consumed exactly that *)
Theorem scan_uri_escapes_sound : forall mk s c s',
  scan_uri_escapes str_ops mk s = SBase.Ok (c, s') ->
  take_escaped_char (si_chars (sc_in s)) = Some (c, si_chars (sc_in s')) /\
  s' = eats (escaped_len (si_chars (sc_in s))) s.
Proof.
  intros mk s c s' H. pose proof (scan_uri_escapes_exact mk s) as X. unfold exact_post in X. cbv zeta in X.
  destruct (take_escaped_char (si_chars (sc_in s))) as [[c0 r]|].
  - destruct X as [X1 X2]. rewrite X1 in H. inversion H; subst c0 s'. split; [|reflexivity].
    rewrite eats_chars, <- X2. reflexivity.
  - destruct X as [site [X _]]. rewrite X in H. discriminate.
Qed.

(* totality: a character or one of the four scanner errors at the given mark; never out of fuel, never a panic *)
Theorem scan_uri_escapes_total : forall mk s,
  (exists c n, (1 <= n <= 4)%nat /\ scan_uri_escapes str_ops mk s = SBase.Ok (c, eats n s)) \/
  uri_error (scan_uri_escapes str_ops mk s) mk.
Proof.
  intros mk s. pose proof (scan_uri_escapes_exact mk s) as X. unfold exact_post in X. cbv zeta in X.
  destruct (take_escaped_char (si_chars (sc_in s))) as [[c0 r]|] eqn:E; [|right; exact X].
  left. destruct X as [X1 _]. exists c0, (escaped_len (si_chars (sc_in s))). split; [|exact X1].
  unfold take_escaped_char, escaped_len in *.
  destruct (take_escape (si_chars (sc_in s))) as [[b r1]|]; [|discriminate].
  unfold sequence_length in *.
  destruct (b <=? 127); [lia|]. destruct ((192 <=? b) && (b <=? 223)); [lia|].
  destruct ((224 <=? b) && (b <=? 239)); [lia|]. destruct ((240 <=? b) && (b <=? 247)); [lia|discriminate].
Qed.

Lemma escaped_len_spells : forall es b bs c rest,
  spells es (b :: bs) -> utf8_decode (b :: bs) = Some c -> escaped_len (es ++ rest) = S (length bs).
Proof.
  intros es b bs c rest HS HD. pose proof (spells_take_escapes _ _ rest HS) as HT.
  cbn [length take_escapes] in HT. unfold escaped_len.
  destruct (take_escape (es ++ rest)) as [[b' r1]|]; [|discriminate].
  destruct (take_escapes (length bs) r1) as [[bs1 r2]|]; [|discriminate].
  inversion HT; subst. rewrite (utf8_decode_length _ _ _ HD). reflexivity.
Qed.

(* completeness: whenever the RFC 3629 decoder of the specification accepts a byte sequence, the scanner model,
   reading those bytes written as escapes (in either case of the hex digits, followed by anything), returns the
   same character and has consumed exactly the 3n characters of the escapes. *)
Theorem scan_uri_escapes_decodes : forall bs c es rest mk s,
  utf8_decode bs = Some c -> spells es bs -> si_chars (sc_in s) = es ++ rest ->
  scan_uri_escapes str_ops mk s = SBase.Ok (c, eats (length bs) s).
Proof.
  intros bs c es rest mk s HD HS HC.
  pose proof (scan_uri_escapes_exact mk s) as X. unfold exact_post in X. cbv zeta in X. rewrite HC in X.
  assert (HT : take_escaped_char (es ++ rest) = Some (c, rest)).
  { apply take_escaped_char_spells. exists es, bs. auto. }
  rewrite HT in X. destruct X as [X _]. rewrite X.
  destruct bs as [|b bs]; [discriminate|]. rewrite (escaped_len_spells _ _ _ _ rest HS HD). reflexivity.
Qed.

(* For EVERY Unicode scalar value: its percent-encoded UTF-8 form is decoded back to it. *)
Theorem scan_uri_escapes_round_trip : forall c rest mk s,
  is_scalar_value c = true -> si_chars (sc_in s) = percent_encode c ++ rest ->
  scan_uri_escapes str_ops mk s = SBase.Ok (c, eats (length (utf8_encode c)) s).
Proof.
  intros c rest mk s HV HC.
  eapply scan_uri_escapes_decodes; [apply utf8_round_trip; exact HV| |exact HC].
  apply spells_percent_encode. exact HV.
Qed.

(* the text-level reader of the specification ([percent_decode] reads characters with [take_escaped_char]) *)
Theorem scan_uri_escapes_meets_spec : forall l c r mk s,
  take_escaped_char l = Some (c, r) -> si_chars (sc_in s) = l ->
  exists s', scan_uri_escapes str_ops mk s = SBase.Ok (c, s') /\ si_chars (sc_in s') = r
             /\ exists n, sc_mark s' = adv (N.of_nat (3 * n)) (sc_mark s) /\ (length l = 3 * n + length r)%nat.
Proof.
  intros l c r mk s H HC.
  destruct (proj1 (take_escaped_char_spells _ _ _) H) as [es [bs [-> [HS HD]]]].
  exists (eats (length bs) s). split; [eapply scan_uri_escapes_decodes; eassumption|].
  rewrite eats_chars, HC. split.
  - rewrite <- (spells_length _ _ HS). rewrite skipn_app, skipn_all, Nat.sub_diag. reflexivity.
  - exists (length bs). split; [apply eats_mark|].
    rewrite app_length, (spells_length _ _ HS). reflexivity.
Qed.

(* STRICT DECODING, byte level, both directions: the escapes of a byte sequence (followed by anything) are accepted
   as a whole iff the sequence is the UTF-8 encoding of a Unicode scalar value — and the result is that value *)
Theorem scan_uri_escapes_strict : forall es bs rest mk s c,
  spells es bs -> si_chars (sc_in s) = es ++ rest ->
  (scan_uri_escapes str_ops mk s = SBase.Ok (c, eats (length bs) s)
   <-> (is_scalar_value c = true /\ bs = utf8_encode c)).
Proof.
  intros es bs rest mk s c HS HC. rewrite <- utf8_decode_strict. split.
  - intros H. destruct (scan_uri_escapes_sound _ _ _ _ H) as [H1 H2].
    rewrite eats_chars, HC, <- (spells_length _ _ HS), skipn_app, skipn_all, Nat.sub_diag in H1. cbn [skipn app] in H1.
    destruct (proj1 (take_escaped_char_spells _ _ _) H1) as [es' [bs' [E [HS' HD]]]].
    apply app_inv_tail in E. subst es'. rewrite (spells_fun _ _ HS _ HS'). exact HD.
  - intros HD. eapply scan_uri_escapes_decodes; eassumption.
Qed.

(* ... and "error otherwise": if no prefix of the byte sequence is such an encoding (and no further escape
   follows it), the model reports an error *)
Lemma spells_prefix : forall es bs, spells es bs -> forall es' bs' rest r,
  spells es' bs' -> es ++ rest = es' ++ r -> take_escape rest = None -> exists k, bs' = firstn k bs.
Proof.
  intros es bs H. induction H as [|x y hi lo es bs Hx Hy HS IH]; intros es' bs' rest r H' E HN.
  - cbn [app] in E. inversion H' as [|x' y' hi' lo' es'' bs'' Hx' Hy' HS']; subst; [exists 0%nat; reflexivity|].
    cbn [app] in HN. unfold take_escape in HN. change (37 =? percent) with true in HN. cbv iota in HN.
    rewrite Hx', Hy' in HN. discriminate.
  - inversion H' as [|x' y' hi' lo' es'' bs'' Hx' Hy' HS']; subst; [exists 0%nat; reflexivity|].
    cbn [app] in E. inversion E; subst x' y'.
    match goal with E0 : es ++ rest = es'' ++ r |- _ => destruct (IH _ _ _ _ HS' E0 HN) as [k Hk] end.
    exists (S k). cbn [firstn]. f_equal; congruence.
Qed.

Theorem scan_uri_escapes_rejects : forall es bs rest mk s,
  spells es bs -> si_chars (sc_in s) = es ++ rest -> take_escape rest = None ->
  (forall k, utf8_decode (firstn k bs) = None) ->
  uri_error (scan_uri_escapes str_ops mk s) mk.
Proof.
  intros es bs rest mk s HS HC HN HK.
  pose proof (scan_uri_escapes_exact mk s) as X. unfold exact_post in X. cbv zeta in X. rewrite HC in X.
  destruct (take_escaped_char (es ++ rest)) as [[c r]|] eqn:E; [|exact X].
  destruct (proj1 (take_escaped_char_spells _ _ _) E) as [es' [bs' [E' [HS' HD]]]].
  destruct (spells_prefix _ _ HS _ _ _ _ HS' E' HN) as [k Hk]. rewrite Hk, HK in HD. discriminate.
Qed.

(* the three witnesses of the former finding (commit 990db80) are now errors of the model *)
Definition probe_state (l : list N) : sc strin := init_sc {| si_chars := l; si_look := 0 |}.
Definition model_decodes (l : list N) : option N :=
  match scan_uri_escapes str_ops mk0 (probe_state l) with SBase.Ok (c, _) => Some c | _ => None end.
