(* C04 — the two formulations of line folding in Spec/FlowFold.v agree: the text a PRESENTATION of a plain scalar
   denotes (plain_text: the lines joined by break_text) is the text the folding rules give on the PHYSICAL lines of
   its source (fold_physical of split_lf: first line without its trailing blanks, last line without its leading
   blanks, inner lines without both, blank-only inner lines counted as empty lines).  Pure list reasoning; nothing
   from the model. *)
From Coq Require Import List NArith ZArith Bool Arith Lia.
Import ListNotations.
Require Import FlowFold.
Open Scope N_scope.

Arguments N.eqb : simpl never.
Arguments N.ltb : simpl never.
Arguments N.leb : simpl never.

Definition no_lf (l : list N) : Prop := Forall (fun c => c <> 10) l.

Lemma split_lf_nolf : forall a cur s, no_lf a -> split_lf cur (a ++ s) = split_lf (rev a ++ cur) s.
Proof.
  induction a as [|c a IH]; intros cur s H; [reflexivity|].
  inversion H as [|? ? Hc Ha]; subst. cbn [app split_lf]. apply N.eqb_neq in Hc. rewrite Hc.
  rewrite IH by exact Ha. cbn [rev]. rewrite <- app_assoc. reflexivity.
Qed.
Lemma split_lf_line a s : no_lf a -> split_lf [] (a ++ 10 :: s) = a :: split_lf [] s.
Proof.
  intros H. rewrite split_lf_nolf by exact H. cbn [split_lf]. change (10 =? 10) with true. cbv iota.
  rewrite app_nil_r, rev_involutive. reflexivity.
Qed.
Lemma split_lf_last a : no_lf a -> split_lf [] a = [a].
Proof.
  intros H. rewrite <- (app_nil_r a) at 1. rewrite split_lf_nolf by exact H. cbn [split_lf]. rewrite app_nil_r, rev_involutive. reflexivity.
Qed.

Lemma blanks_no_lf l : forallb is_sp l = true -> no_lf l.
Proof.
  induction l as [|c l IH]; intros H; [constructor|]. cbn [forallb] in H. apply andb_prop in H. destruct H as [Hc H].
  constructor; [|apply IH; exact H]. intros ->. discriminate Hc.
Qed.
Lemma drop_leading_blanks bs l : forallb is_sp bs = true -> drop_leading (bs ++ l) = drop_leading l.
Proof.
  induction bs as [|b bs IH]; intros H; [reflexivity|]. cbn [forallb] in H. apply andb_prop in H. destruct H as [Hb H].
  cbn [app drop_leading]. rewrite Hb. apply IH. exact H.
Qed.
Lemma drop_leading_all bs : forallb is_sp bs = true -> drop_leading bs = [].
Proof. intros H. rewrite <- (app_nil_r bs). rewrite drop_leading_blanks by exact H. reflexivity. Qed.
Lemma drop_leading_head c l : is_sp c = false -> drop_leading (c :: l) = c :: l.
Proof. intros H. cbn [drop_leading]. rewrite H. reflexivity. Qed.
Lemma forallb_rev {A} (f : A -> bool) l : forallb f (rev l) = forallb f l.
Proof.
  induction l as [|x l IH]; [reflexivity|]. cbn [rev forallb]. rewrite forallb_app, IH. cbn [forallb]. rewrite andb_true_r. apply andb_comm.
Qed.

(* a line of text: not empty, no blank at either end, no line feed inside *)
Definition text_line (l : list N) : Prop :=
  l <> [] /\ is_sp (hd 0 l) = false /\ is_sp (last l 0) = false /\ no_lf l.

Lemma drop_trailing_pad l pad : l <> [] -> is_sp (last l 0) = false -> forallb is_sp pad = true -> drop_trailing (l ++ pad) = l.
Proof.
  intros Hne Hl Hp. unfold drop_trailing. rewrite rev_app_distr.
  rewrite drop_leading_blanks by (rewrite forallb_rev; exact Hp).
  destruct (rev l) as [|c r] eqn:E.
  - apply (f_equal (@rev N)) in E. rewrite rev_involutive in E. contradiction.
  - assert (Hc : c = last l 0).
    { apply (f_equal (@rev N)) in E. rewrite rev_involutive in E. subst l. cbn [rev]. rewrite last_last. reflexivity. }
    rewrite drop_leading_head by (rewrite Hc; exact Hl). rewrite <- E. apply rev_involutive.
Qed.
Lemma drop_leading_line ind l : forallb is_sp ind = true -> l <> [] -> is_sp (hd 0 l) = false -> drop_leading (ind ++ l) = l.
Proof.
  intros Hi Hne Hh. rewrite drop_leading_blanks by exact Hi. destruct l as [|c l]; [contradiction|]. apply drop_leading_head. exact Hh.
Qed.

(* the physical lines of a presentation: [cur] is the text of the current physical line so far *)
Fixpoint lines_of (cur : list N) (more : list (brk_layout * list N)) : list (list N) :=
  match more with
  | [] => [cur]
  | (b, l) :: r => (cur ++ bl_pad b) :: bl_empties b ++ lines_of (bl_indent b ++ l) r
  end.
Lemma lines_of_ne cur more : lines_of cur more <> [].
Proof. destruct more as [|[b l] r]; discriminate. Qed.

(* the physical formulation cuts at LF: "CR LF and CR are normalised by the caller", so the breaks are LF here *)
Definition nl_is_lf (k : nl_kind) : bool := match k with NlLF => true | _ => false end.
Definition brk_ok (b : brk_layout) : Prop :=
  bl_escaped b = false /\ forallb is_sp (bl_pad b) = true /\ Forall (fun e => forallb is_sp e = true) (bl_empties b)
  /\ forallb is_sp (bl_indent b) = true /\ bl_nl b = NlLF.

Fixpoint src_of (more : list (brk_layout * list N)) : list N :=
  match more with [] => [] | (b, l) :: r => render_brk b ++ l ++ src_of r end.

Lemma split_empties es s : Forall (fun e => forallb is_sp e = true) es ->
  split_lf [] (flat_map (fun e => e ++ [10]) es ++ s) = es ++ split_lf [] s.
Proof.
  induction es as [|e es IH]; intros H; [reflexivity|]. inversion H as [|? ? He Hes]; subst.
  cbn [flat_map]. rewrite <- !app_assoc. cbn [app]. rewrite split_lf_line by (apply blanks_no_lf; exact He).
  rewrite IH by exact Hes. reflexivity.
Qed.

Lemma split_presentation : forall more cur,
  no_lf cur -> Forall (fun p => brk_ok (fst p) /\ text_line (snd p)) more ->
  split_lf [] (cur ++ src_of more) = lines_of cur more.
Proof.
  induction more as [|[b l] more IH]; intros cur Hcur H.
  - cbn [src_of lines_of]. rewrite app_nil_r. apply split_lf_last. exact Hcur.
  - inversion H as [|? ? [[He [Hp [Hes [Hi Hnl]]]] [_ [_ [_ Hl]]]] Hmore]; subst. cbn [fst snd] in *.
    cbn [src_of lines_of]. unfold render_brk. rewrite He, Hnl. cbn [nl_src app]. rewrite <- !app_assoc. cbn [app].
    rewrite app_assoc. rewrite split_lf_line by (apply Forall_app; split; [exact Hcur|apply blanks_no_lf; exact Hp]).
    rewrite <- !app_assoc. rewrite split_empties by exact Hes. f_equal. f_equal.
    rewrite app_assoc. apply IH; [|exact Hmore]. apply Forall_app. split; [apply blanks_no_lf; exact Hi|exact Hl].
Qed.

Fixpoint lines_text (more : list (brk_layout * list N)) : list N :=
  match more with [] => [] | (b, l) :: r => break_text (brk_of b) ++ l ++ lines_text r end.
Lemma plain_text_lines_text first more : plain_text first more = first ++ lines_text more.
Proof.
  unfold plain_text. revert first. induction more as [|[b l] more IH]; intros first; [cbn; rewrite app_nil_r; reflexivity|].
  cbn [map fold_lines lines_text fst snd]. rewrite IH. reflexivity.
Qed.

Lemma fold_rest_cons k l r : r <> [] ->
  fold_rest k (l :: r) = match drop_leading l with
                         | [] => fold_rest (S k) r
                         | _ => break_text (Folded k) ++ drop_trailing (drop_leading l) ++ fold_rest 0 r
                         end.
Proof. destruct r; [contradiction|reflexivity]. Qed.

Lemma fold_rest_empties : forall es k ls, Forall (fun e => forallb is_sp e = true) es -> ls <> [] ->
  fold_rest k (es ++ ls) = fold_rest (length es + k) ls.
Proof.
  induction es as [|e es IH]; intros k ls H Hne; [reflexivity|]. inversion H as [|? ? He Hes]; subst.
  cbn [app]. rewrite fold_rest_cons.
  2:{ intros E. apply app_eq_nil in E. destruct E as [_ E]. contradiction. }
  rewrite drop_leading_all by exact He. rewrite IH by assumption. f_equal. cbn [length]. lia.
Qed.

Lemma fold_rest_lines : forall more k ind l,
  forallb is_sp ind = true -> text_line l -> Forall (fun p => brk_ok (fst p) /\ text_line (snd p)) more ->
  fold_rest k (lines_of (ind ++ l) more) = break_text (Folded k) ++ l ++ lines_text more.
Proof.
  induction more as [|[b l'] more IH]; intros k ind l Hi [Hne [Hh [Hl Hnl]]] H.
  - cbn [lines_of fold_rest lines_text]. rewrite drop_leading_line by assumption. rewrite app_nil_r. reflexivity.
  - inversion H as [|? ? [[He [Hp [Hes [Hi' _]]]] Hl'] Hmore]; subst. cbn [fst snd] in *.
    cbn [lines_of lines_text].
    assert (Hr : bl_empties b ++ lines_of (bl_indent b ++ l') more <> []).
    { intros E. apply app_eq_nil in E. destruct E as [_ E]. exact (lines_of_ne _ _ E). }
    rewrite fold_rest_cons by exact Hr. rewrite <- (app_assoc ind l (bl_pad b)). rewrite drop_leading_line; [|exact Hi| |].
    2:{ destruct l; [contradiction|discriminate]. }
    2:{ destruct l; [contradiction|exact Hh]. }
    rewrite drop_trailing_pad by assumption.
    destruct (l ++ bl_pad b) as [|c0 r0] eqn:E2; [destruct l; [contradiction|discriminate E2]|].
    rewrite fold_rest_empties by (try exact Hes; apply lines_of_ne).
    rewrite IH by assumption. unfold brk_of. rewrite He. rewrite Nat.add_0_r. rewrite <- ?app_assoc. reflexivity.
Qed.

Theorem fold_physical_presentation first more :
  text_line first -> Forall (fun p => brk_ok (fst p) /\ text_line (snd p)) more ->
  fold_physical (split_lf [] (first ++ src_of more)) = first ++ lines_text more.
Proof.
  intros [Hne [Hh [Hl Hnl]]] H. rewrite split_presentation by assumption.
  destruct more as [|[b l] more].
  - cbn [lines_of fold_physical lines_text]. rewrite app_nil_r. reflexivity.
  - inversion H as [|? ? [[He [Hp [Hes [Hi _]]]] Hl'] Hmore]; subst. cbn [fst snd] in *.
    cbn [lines_of lines_text].
    assert (Hr : bl_empties b ++ lines_of (bl_indent b ++ l) more <> []).
    { intros E. apply app_eq_nil in E. destruct E as [_ E]. exact (lines_of_ne _ _ E). }
    destruct (bl_empties b ++ lines_of (bl_indent b ++ l) more) as [|x y] eqn:E; [contradiction|].
    unfold fold_physical. rewrite drop_trailing_pad by assumption. rewrite <- E.
    rewrite fold_rest_empties by (try exact Hes; apply lines_of_ne).
    rewrite fold_rest_lines by assumption. unfold brk_of. rewrite He. rewrite Nat.add_0_r. reflexivity.
Qed.

(* ---- well-formed plain presentations satisfy the hypotheses ---- *)
Lemma plain_chars_no_lf flow : forall l prev, plain_line_chars_wf flow prev l = true -> no_lf l.
Proof.
  induction l as [|c l IH]; intros prev H; [constructor|]. cbn [plain_line_chars_wf] in H. apply andb_prop in H. destruct H as [Hc H].
  constructor; [|exact (IH c H)]. intros ->. vm_compute in Hc. destruct flow; discriminate Hc.
Qed.
Lemma plain_line_text flow l : plain_line_wf flow l = true -> text_line l.
Proof.
  unfold plain_line_wf. destruct l as [|c l]; [discriminate|]. intros H.
  apply andb_prop in H. destruct H as [H Hch]. apply andb_prop in H. destruct H as [H0 Hl].
  apply negb_true_iff in H0, Hl. repeat split; [discriminate|exact H0|exact Hl|exact (plain_chars_no_lf flow _ _ Hch)].
Qed.
Lemma brk_wf_ok n b : brk_wf n b = true -> bl_escaped b = false -> bl_nl b = NlLF -> brk_ok b.
Proof.
  unfold brk_wf. intros H He Hnl. do 3 (apply andb_prop in H; destruct H as [H ?]).
  repeat split; [exact He|exact H| | |exact Hnl].
  - match goal with H : forallb (empty_wf n) _ = true |- _ => rename H into Hes end.
    apply Forall_forall. intros e Hin. pose proof (proj1 (forallb_forall _ _) Hes e Hin) as Hw.
    unfold empty_wf, indent_wf in Hw. apply orb_prop in Hw. destruct Hw as [Hw|Hw]; apply andb_prop in Hw; destruct Hw as [Hw _]; [exact Hw|].
    clear -Hw. induction e as [|c e IH]; [reflexivity|]. cbn [forallb] in *. apply andb_prop in Hw. destruct Hw as [Hc Hw].
    apply N.eqb_eq in Hc. subst c. rewrite IH by exact Hw. reflexivity.
  - match goal with H : indent_wf n _ = true |- _ => unfold indent_wf in H; apply andb_prop in H; destruct H as [H _]; exact H end.
Qed.

Lemma src_of_render first more : plain_render first more = first ++ src_of more.
Proof.
  unfold plain_render. f_equal. induction more as [|[b l] more IH]; [reflexivity|].
  cbn [flat_map src_of fst snd]. rewrite IH, <- app_assoc. reflexivity.
Qed.

(* the text of a well-formed presentation of a plain scalar is the folding of the physical lines of its source *)
Theorem plain_text_is_physical_folding flow n first more :
  plain_layout_wf flow n first more = true -> forallb (fun p => nl_is_lf (bl_nl (fst p))) more = true ->
  fold_physical (split_lf [] (plain_render first more)) = plain_text first more.
Proof.
  unfold plain_layout_wf. intros H Hlf. apply andb_prop in H. destruct H as [H Hmore]. apply andb_prop in H. destruct H as [_ Hline].
  rewrite src_of_render, plain_text_lines_text. apply fold_physical_presentation; [exact (plain_line_text flow first Hline)|].
  apply Forall_forall. intros [b l] Hin. pose proof (proj1 (forallb_forall _ _) Hmore (b, l) Hin) as Hw. cbn [fst snd] in *.
  do 3 (apply andb_prop in Hw; destruct Hw as [Hw ?]).
  match goal with H : negb (bl_escaped b) = true |- _ => apply negb_true_iff in H; rename H into He end.
  pose proof (proj1 (forallb_forall _ _) Hlf (b, l) Hin) as Hk. cbn [fst] in Hk.
  split; [apply (brk_wf_ok n b Hw He); destruct (bl_nl b); [reflexivity|discriminate Hk|discriminate Hk]|]. eapply plain_line_text. eassumption.
Qed.
