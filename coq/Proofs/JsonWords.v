(* C13, scanner half (0): the lexical side of Spec/Json.v against the vocabulary of the scanner proofs.
   - the text between the quotes of a JSON string (str_text) is a segment of well-formed double-quoted items
     (Spec/FlowFold.v: literal characters, named escapes, \uXXXX) with the same source and the same value;
   - an RFC 8259 number and the three literals are words (JsonScanPlain.jword). *)
From Coq Require Import List NArith ZArith Bool Arith Lia.
Import ListNotations.
Require Import Parser SBase Resolver CoreSchema CoreNumber Json FlowFold JsonScanBase JsonScanPlain.
Open Scope N_scope.

Ltac uc := unfold Resolver.chr, SBase.chr, Resolver.str, Parser.str in *.

(* ---------- strings ---------- *)
Lemma to_digit16_hex c x : to_digit 16 c = Some x -> hex_digit_value c = Some x /\ x < 16.
Proof.
  unfold to_digit, hex_digit_value.
  destruct ((48 <=? c) && (c <=? 57)) eqn:E1.
  - destruct (c - 48 <? 16) eqn:L; [|discriminate]. intros H. inversion H; subst. apply N.ltb_lt in L. auto.
  - destruct ((97 <=? c) && (c <=? 122)) eqn:E2.
    + destruct (c - 97 + 10 <? 16) eqn:L; [|discriminate]. intros H. inversion H; subst. apply N.ltb_lt in L.
      apply andb_prop in E2 as [A B]. apply N.leb_le in A.
      replace ((65 <=? c) && (c <=? 70)) with false by (symmetry; apply andb_false_iff; right; apply N.leb_gt; lia).
      replace ((97 <=? c) && (c <=? 102)) with true by (symmetry; apply andb_true_iff; split; apply N.leb_le; lia).
      split; [f_equal; lia|exact L].
    + destruct ((65 <=? c) && (c <=? 90)) eqn:E3; [|discriminate].
      destruct (c - 65 + 10 <? 16) eqn:L; [|discriminate]. intros H. inversion H; subst. apply N.ltb_lt in L.
      apply andb_prop in E3 as [A B]. apply N.leb_le in A.
      replace ((65 <=? c) && (c <=? 70)) with true by (symmetry; apply andb_true_iff; split; apply N.leb_le; lia).
      split; [f_equal; lia|exact L].
Qed.

Lemma hex4_value a b c d x : hex4 a b c d = Some x -> hex_value [a; b; c; d] = Some x /\ x < 65536.
Proof.
  unfold hex4. destruct (to_digit 16 a) as [xa|] eqn:Ea; [|discriminate]. destruct (to_digit 16 b) as [xb|] eqn:Eb; [|discriminate].
  destruct (to_digit 16 c) as [xc|] eqn:Ec; [|discriminate]. destruct (to_digit 16 d) as [xd|] eqn:Ed; [|discriminate].
  intros H. inversion H; subst. clear H.
  destruct (to_digit16_hex _ _ Ea) as [Ha La]. destruct (to_digit16_hex _ _ Eb) as [Hb Lb].
  destruct (to_digit16_hex _ _ Ec) as [Hc Lc]. destruct (to_digit16_hex _ _ Ed) as [Hd Ld].
  unfold hex_value. cbn [hex_value_from]. rewrite Ha, Hb, Hc, Hd. split; [f_equal; lia|lia].
Qed.

Lemma str_items s t : str_text s t ->
  exists items, forallb item_wf items = true /\ flat_map item_src items = t /\ map item_val items = s /\ (length items <= length t)%nat.
Proof.
  induction 1 as [|c s t H32 Hmax H34 H92 Hsur _ IH|e c s t Hin _ IH|a b c d x s t Hhex Hsur _ IH].
  - exists []. repeat split; auto.
  - destruct IH as (items & Hwf & Hsrc & Hval & Hlen). exists (ILit c :: items).
    cbn [forallb flat_map map item_src item_val item_wf app length]. rewrite Hwf, Hsrc, Hval. repeat split; [|lia].
    rewrite andb_true_r. unfold spec_dq_literal, is_sp, Resolver.ch in *. rewrite Hmax, H34, H92. cbn [negb andb].
    rewrite !andb_true_r. apply N.leb_le in H32. destruct (N.eqb_spec c 32) as [->|Hne]; [reflexivity|].
    replace (32 <? c) with true by (symmetry; apply N.ltb_lt; lia). reflexivity.
  - destruct IH as (items & Hwf & Hsrc & Hval & Hlen). exists (INamed e c :: items).
    cbn [forallb flat_map map item_src item_val item_wf app length]. rewrite Hwf, Hsrc, Hval. repeat split; [|lia].
    rewrite andb_true_r. unfold simple_escapes in Hin. cbn [In] in Hin.
    repeat (destruct Hin as [Hin|Hin]; [inversion Hin; subst; reflexivity|]). contradiction.
  - destruct IH as (items & Hwf & Hsrc & Hval & Hlen). exists (IHex 117 [a; b; c; d] x :: items).
    destruct (hex4_value a b c d x Hhex) as [Hv Hlt].
    cbn [forallb flat_map map item_src item_val item_wf app length]. rewrite Hwf, Hsrc, Hval. repeat split; [|lia].
    rewrite andb_true_r. rewrite Hv. cbn [opt_N_eqb]. rewrite N.eqb_refl. cbn.
    unfold spec_scalar_value. unfold surrogate in Hsur.
    destruct (55296 <=? x) eqn:A.
    + cbn [andb] in Hsur. apply N.leb_gt in Hsur.
      replace (57344 <=? x) with true by (symmetry; apply N.leb_le; lia).
      replace (x <=? 1114111) with true by (symmetry; apply N.leb_le; lia). apply orb_true_r.
    + apply N.leb_gt in A. replace (x <=? 55295) with true by (symmetry; apply N.leb_le; lia). reflexivity.
Qed.

(* ---------- numbers and literals ---------- *)
Lemma dig_wchar c : is_dig c = true -> wchar c = true.
Proof. unfold is_dig, wchar. intros ->. reflexivity. Qed.
Lemma digs_wchar l : forallb is_dig l = true -> forallb wchar l = true.
Proof. induction l as [|c l IH]; [reflexivity|]. cbn [forallb]. intros H. apply andb_prop in H as [A B]. rewrite (dig_wchar c A), (IH B). reflexivity. Qed.

Lemma json_exp_wchar r : json_exp r = true -> forallb wchar r = true.
Proof.
  destruct r as [|c r']; [reflexivity|]. cbn [json_exp forallb]. intros H. apply andb_prop in H as [Hc H].
  assert (Hcw : wchar c = true).
  { unfold Resolver.ch in Hc. apply orb_prop in Hc as [Hc|Hc]; apply N.eqb_eq in Hc; subst c; reflexivity. }
  rewrite Hcw. cbn [andb]. unfold sign_split in H. destruct r' as [|x r'']; [discriminate|].
  unfold Resolver.ch in H. destruct (N.eqb_spec x 43) as [->|H43].
  - apply andb_prop in H as [_ H]. cbn [forallb]. change (wchar 43) with true. cbn [andb]. apply digs_wchar. exact H.
  - destruct (N.eqb_spec x 45) as [->|H45].
    + apply andb_prop in H as [_ H]. cbn [forallb]. change (wchar 45) with true. cbn [andb]. apply digs_wchar. exact H.
    + apply andb_prop in H as [_ H]. apply digs_wchar. exact H.
Qed.

Lemma json_unsigned_word b : json_unsigned b = true ->
  forallb wchar b = true /\ exists d r, b = d :: r /\ is_dig d = true.
Proof.
  unfold json_unsigned. destruct (span_digits b) as [ip r1] eqn:E. destruct (span_digits_spec _ _ _ E) as [-> Hip].
  intros H. apply andb_prop in H as [Hok H].
  assert (Hne : exists d ip', ip = d :: ip') by (destruct ip as [|d ip']; [discriminate|eauto]).
  destruct Hne as (d & ip' & ->). split.
  - uc. rewrite forallb_app. rewrite (digs_wchar _ Hip). cbn [andb].
    destruct r1 as [|c r]; [reflexivity|]. unfold Resolver.ch in H. destruct (N.eqb_spec c 46) as [->|Hne].
    + destruct (span_digits r) as [fp r2] eqn:E2. destruct (span_digits_spec _ _ _ E2) as [-> Hfp].
      apply andb_prop in H as [_ H]. cbn [forallb]. change (wchar 46) with true. cbn [andb].
      uc. rewrite forallb_app. rewrite (digs_wchar _ Hfp), (json_exp_wchar _ H). reflexivity.
    + apply json_exp_wchar. exact H.
  - exists d, (ip' ++ r1). split; [reflexivity|]. cbn [forallb] in Hip. apply andb_prop in Hip as [A _]. exact A.
Qed.

Lemma is_dig_digit c : is_dig c = is_digit c.
Proof. reflexivity. Qed.

Lemma json_number_jword t : json_number t = true -> jword t = true.
Proof.
  unfold json_number. destruct t as [|c r]; [discriminate|]. unfold Resolver.ch. destruct (N.eqb_spec c 45) as [->|Hne].
  - intros H. destruct (json_unsigned_word r H) as [Hw (d & r' & -> & Hd)].
    unfold jword. cbn [forallb]. change (wchar 45) with true. cbn [andb nth]. uc. cbn [forallb] in Hw. rewrite Hw. cbn [andb negb orb].
    change (45 =? 46) with false. cbn [negb andb]. change (45 =? 45) with true. cbn [negb orb]. rewrite <- is_dig_digit. exact Hd.
  - intros H. destruct (json_unsigned_word (c :: r) H) as [Hw (d & r' & E & Hd)]. inversion E; subst d r'.
    unfold jword. uc. rewrite Hw. cbn [andb].
    assert (H46 : (c =? 46) = false).
    { unfold is_dig in Hd. apply andb_prop in Hd as [A B]. apply N.leb_le in A. apply N.eqb_neq. lia. }
    rewrite H46. apply N.eqb_neq in Hne. rewrite Hne. reflexivity.
Qed.

Lemma literal_jword : jword s_null = true /\ jword s_true = true /\ jword s_false = true.
Proof. repeat split; reflexivity. Qed.
