(* C15, text level: hypothesis (i) [boundary_reached A B] of ScanShiftDoc.v DISCHARGED - prefix stability of the
   scanner at a document-end marker line - and the composition theorem without it.

     prefix_tokens            for every NUL-free text A that ends with a line break (or is empty), whose scan ends
                              properly at flow level 0, and every B: the scanner of  A "...\n" B  delivers, up to the
                              DocumentEnd token of the marker line, the tokens of A alone without StreamEnd - up to
                              [TS]: equal, except that an EMPTY block scalar running into the end of A has the span
                              [indicator, end] in A alone and the empty span [end, end] before the marker line (a finding
                              about the real scanner) - and then stands in the marker configuration at the line break.
     boundary_reached_total   if no token of A is such a block scalar ([no_eof_block A]): [boundary_reached A B].
     text_composition_total   the composition theorem of ScanShiftDoc.v without hypothesis (i). *)
From Coq Require Import List NArith ZArith Bool Arith Lia.
Import ListNotations.
Require Import Parser SBase SPrim SDir SScalar SFetch Pipe C02run DocRun DocShift DocIndep DocIndepRun DocScan LazyScan.
Require Import ScanShift ScanShiftTop ScanShiftDoc.
Require ScanPrefix ScanPrefixTop RejectScan.
Local Open Scope nat_scope.

(* ---- the side conditions, all decidable ---- *)
Definition ends_with_break (A : list chr) : Prop := A = [] \/ is_break (last A 0%N) = true.
Definition nonul (A : list chr) : Prop := Forall (fun c => c <> 0%N) A.
(* the scan of A ends outside every flow collection *)
Definition closed_flow (A : list chr) : Prop :=
  sc_flow_level (ScanPrefixTop.scan_last (str_F A) (4 * str_F A + 20) (init_sc {| si_chars := A; si_look := 0 |})) = 0%N.
(* no token of A is a block scalar made of line feeds only with a non-empty span: the empty block scalar that runs into
   the end of input *)
Definition marker_eqb (a b : marker) : bool :=
  ((m_index a =? m_index b) && (m_line a =? m_line b) && (m_col a =? m_col b))%N.
Definition ok_tok (t : token) : bool :=
  match snd t with
  | TScalar st v => negb (ScanPrefix.blk_style st && forallb (N.eqb 10) v) || marker_eqb (sp_start (fst t)) (sp_end (fst t))
  | _ => true
  end.
Definition no_eof_block (A : list chr) : Prop := forallb ok_tok (fst (str_scan A)) = true.

Lemma marker_eqb_eq a b : marker_eqb a b = true -> a = b.
Proof.
  destruct a, b. unfold marker_eqb. cbn. intros H.
  apply andb_true_iff in H. destruct H as [H H3]. apply andb_true_iff in H. destruct H as [H1 H2].
  apply N.eqb_eq in H1, H2, H3. subst. reflexivity.
Qed.
Lemma forallb_nls n : forallb (N.eqb 10) (nls n []) = true.
Proof.
  unfold nls. induction n as [|n IH] using N.peano_ind; [reflexivity|].
  rewrite N.iter_succ. cbn [forallb]. rewrite IH. reflexivity.
Qed.
Lemma TS_ok d t1 t2 : ScanPrefix.TS d t1 t2 -> ok_tok t1 = true -> t2 = t1.
Proof.
  intros [->|(st & n & a & e & HB & -> & ->)] HO; [reflexivity|].
  unfold ok_tok in HO. cbn [snd fst sp_start sp_end] in HO. rewrite HB, forallb_nls in HO. cbn [andb negb orb] in HO.
  apply marker_eqb_eq in HO. subst. reflexivity.
Qed.
Lemma TSs_ok d l1 l2 : Forall2 (ScanPrefix.TS d) l1 l2 -> forallb ok_tok l1 = true -> l2 = l1.
Proof.
  induction 1 as [|a b l1 l2 H _ IH]; intros HO; [reflexivity|]. cbn [forallb] in HO. apply andb_true_iff in HO.
  destruct HO as [Ha Hl]. rewrite (TS_ok d _ _ H Ha), (IH Hl). reflexivity.
Qed.
Lemma forallb_removelast {A} (f : A -> bool) l : forallb f l = true -> forallb f (removelast l) = true.
Proof.
  induction l as [|a l IH]; [reflexivity|]. cbn [forallb]. intros H. apply andb_true_iff in H. destruct H as [Ha Hl].
  destruct l as [|b l]; [reflexivity|]. change (removelast (a :: b :: l)) with (a :: removelast (b :: l)).
  cbn [forallb]. rewrite Ha. exact (IH Hl).
Qed.

(* ---- the two initial states are related ---- *)
Lemma init_related A B : ends_with_break A -> nonul A ->
  ScanPrefixTop.LI B (init_sc {| si_chars := A; si_look := 0 |}) (init_sc {| si_chars := glue_text A B; si_look := 0 |}).
Proof.
  intros HE HN. unfold ScanPrefixTop.LI. split.
  - constructor.
    + constructor; reflexivity.
    + constructor.
    + reflexivity.
    + exact HE.
    + exact HN.
    + intros _. split; reflexivity.
  - split; [intros t []|]. split; [reflexivity|]. split; apply SkInv_init.
Qed.

Lemma deliver_same F k (s : bst) : ScanShiftTop.deliver F k s = ScanPrefixTop.deliver F k s.
Proof. revert s. induction k as [|k IH]; intros s; [reflexivity|]. cbn [ScanShiftTop.deliver ScanPrefixTop.deliver].
  destruct (next_token sops F s) as [[[t|] s']| | |]; try reflexivity. Qed.

Lemma boundary_text_lf (sm : bst) B : ScanPrefix.rm sm = 10%N :: B -> boundary_text sm = B.
Proof.
  destruct sm as [[ch lk0] mk tk ss se adj ska sks ind inds fl tp ta lws ifm]. unfold ScanPrefix.rm. cbn [sc_in si_chars].
  intros ->. reflexivity.
Qed.

(* ---- prefix stability, up to the span of an empty block scalar at the end of A ---- *)
Theorem prefix_tokens A B :
  ends_with_break A -> nonul A -> snd (str_scan A) = SEnded -> closed_flow A ->
  exists k spd (sm : bst) l2,
    ScanShiftTop.deliver (str_F (glue_text A B)) k (init_sc {| si_chars := glue_text A B; si_look := 0 |})
      = Some (l2 ++ [(spd, TDocumentEnd)], sm)
    /\ Forall2 (ScanPrefix.TS B) (removelast (fst (str_scan A))) l2
    /\ k <= 4 * str_F (glue_text A B) + 20
    /\ marker_config sm /\ is_break (rn sm 0) = true
    /\ sc_tokens sm = [] /\ sc_token_available sm = false /\ sc_stream_end sm = false /\ (1 <= sc_tokens_parsed sm)%N
    /\ boundary_text sm = B.
Proof.
  intros HE HN HS HC.
  pose proof (str_scan_proper (glue_text A B)) as HP.
  unfold closed_flow in HC. unfold str_scan in HS, HP |- *.
  assert (EF1 : str_F A = S (2 * length A + 9)) by (unfold str_F; lia).
  assert (EF2 : str_F (glue_text A B) = S (2 * length (glue_text A B) + 9)) by (unfold str_F; lia).
  rewrite EF1 in HS, HC |- *. rewrite EF2 in HP |- *.
  destruct (scan_all sops (S (2 * length A + 9)) (4 * S (2 * length A + 9) + 20) (init_sc {| si_chars := A; si_look := 0 |}) [])
    as [toks se] eqn:ES. cbn [snd fst] in *. subst se.
  destruct (ScanPrefixTop.run_rel B _ _ _ _ _ _ [] [] toks (init_related A B HE HN) ES HP HC)
    as (k & l1 & l2 & x & spd & sm & ET & EX & ED & HF & (MC & RM & TK & TA & SE & TP)).
  cbn [rev app] in ET. subst toks. rewrite removelast_last.
  exists (S k), spd, sm, l2. rewrite deliver_same. split; [exact ED|]. split; [exact HF|].
  split.
  { destruct (Nat.le_gt_cases (S k) (4 * S (2 * length (glue_text A B) + 9) + 20)) as [HL|HL]; [exact HL|]. exfalso.
    rewrite (ScanPrefixTop.deliver_fuel _ _ _ [] _ _ _ ED HL) in HP. exact HP. }
  split; [exact MC|]. split.
  { change (rn sm 0) with (ScanPrefix.rn sm 0). unfold ScanPrefix.rn. rewrite RM. reflexivity. }
  split; [exact TK|]. split; [exact TA|]. split; [exact SE|]. split; [exact TP|]. apply boundary_text_lf. exact RM.
Qed.

(* ---- hypothesis (i) of ScanShiftDoc.v ---- *)
Theorem boundary_reached_total A B :
  ends_with_break A -> nonul A -> snd (str_scan A) = SEnded -> closed_flow A -> no_eof_block A -> boundary_reached A B.
Proof.
  intros HE HN HS HC HO.
  destruct (prefix_tokens A B HE HN HS HC) as (k & spd & sm & l2 & ED & HF & REST).
  rewrite (TSs_ok B _ _ HF (forallb_removelast _ _ HO)) in ED.
  exists k, spd, sm. split; [exact ED|exact REST].
Qed.

(* an accepted text scans without error *)
Lemma accepted_scan_ended A evA : run_str A = (evA, PDone) -> snd (str_scan A) = SEnded.
Proof.
  intros HA. pose proof (str_scan_proper A) as HP.
  destruct (snd (str_scan A)) as [|e m|n|] eqn:E; [reflexivity| |destruct HP|destruct HP].
  exfalso. apply (RejectScan.scan_error_rejected A); [left; exists e, m; exact E|rewrite HA; reflexivity].
Qed.

(* ---- the composition theorem without hypothesis (i) ---- *)
Theorem text_composition_total A B evA evB :
  ends_with_break A -> nonul A -> closed_flow A -> no_eof_block A ->
  run_str A = (evA, PDone) -> run_str B = (evB, PDone) ->
  exists evC, run_str (glue_text A B) = (evC, PDone)
              /\ evs_of evC = removelast (evs_of evA) ++ map (shift_ev (count_anchored (evs_of evA))) (tl (evs_of evB)).
Proof.
  intros HE HN HC HO HA HB. apply (text_composition A B evA evB HA HB).
  apply boundary_reached_total; try assumption. eapply accepted_scan_ended; exact HA.
Qed.

Print Assumptions prefix_tokens.
Print Assumptions boundary_reached_total.
Print Assumptions text_composition_total.
