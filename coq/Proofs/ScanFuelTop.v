(* C01, bounded work - assembly (SCANFUEL.md): with the fuel that run_str hands out (F = 2 * length + 10 for every
   loop, 4 * F + 20 scanner iterations, 4 * tokens + 40 parser steps) neither the scanner nor the parser model ever
   stops because the fuel ran out: the fuel, which is affine in the input length, is never the reason a run ends.
   The nine character-level fuel contracts of ScanFuel.v are hypotheses of the Section (proved in the other
   ScanFuel*.v files); the frame lemmas come from ScanFuelFrame.v, the parser potential from ScanFuelParse.v. *)
From Coq Require Import List NArith ZArith Bool Arith Lia.
Import ListNotations.
Require Import Parser SBase SPrim SDir SScalar SFetch Pipe.
Require Import ScanFuel ScanFuelFrameDef ScanFuelFrame ScanFuelFetch ScanFuelParse.
Local Open Scope nat_scope.

Section FuelTop.
Hypothesis H_stnt : fuel_skip_to_next_token.
Hypothesis H_ws : fuel_skip_ws_to_eol.
Hypothesis H_yw : fuel_skip_yaml_whitespace.
Hypothesis H_dir : fuel_scan_directive.
Hypothesis H_tag : fuel_scan_tag.
Hypothesis H_anchor : fuel_scan_anchor.
Hypothesis H_flow : fuel_scan_flow_scalar.
Hypothesis H_plain : fuel_scan_plain_scalar.
Hypothesis H_block : fuel_scan_block_scalar.

(* (1) one call of fetch_next_token never runs out of fuel; it is the stream-start step, or consumes a character,
   or is the stream-end step *)
Theorem fetch_next_token_never_out_of_fuel : forall F s, fuel_ok F s -> fwp (fetch_next_token str_ops F) (fnt_post s) s.
Proof using H_stnt H_ws H_yw H_dir H_tag H_anchor H_flow H_plain H_block.
  intros F s FO.
  exact (fw_fetch_next_token H_stnt H_ws H_yw H_dir H_tag H_anchor H_flow H_plain H_block
           (frames_skip_to_next_token str_ops) (frames_skip_ws_to_eol str_ops) (frames_skip_yaml_whitespace str_ops)
           (frames_scan_directive str_ops) (frames_scan_tag str_ops) (frames_scan_anchor str_ops)
           (frames_scan_flow_scalar str_ops) (frames_scan_plain_scalar str_ops) (frames_scan_block_scalar str_ops)
           F s FO).
Qed.

Lemma next_token_fuel F B s : GI F B s ->
  fwp (next_token str_ops F)
      (fun o s' => (sc_stream_end s' = true \/ GI F B s') /\ (o <> None -> tpn s' = tpn s + 1 /\ tpn s' <= B)) s.
Proof using H_stnt H_ws H_yw H_dir H_tag H_anchor H_flow H_plain H_block.
  exact (fw_next_token H_stnt H_ws H_yw H_dir H_tag H_anchor H_flow H_plain H_block
           (frames_skip_to_next_token str_ops) (frames_skip_ws_to_eol str_ops) (frames_skip_yaml_whitespace str_ops)
           (frames_scan_directive str_ops) (frames_scan_tag str_ops) (frames_scan_anchor str_ops)
           (frames_scan_flow_scalar str_ops) (frames_scan_plain_scalar str_ops) (frames_scan_block_scalar str_ops)
           F B s).
Qed.

Lemma next_token_ended F (s : fst_) : sc_stream_end s = true -> next_token str_ops F s = SBase.Ok (None, s).
Proof using. intros SE. unfold next_token, bind, get. rewrite SE. reflexivity. Qed.

(* (2) the iteration: every call hands out one token, and at most B tokens are ever handed out *)
Lemma scan_all_fuel F B : forall fuel s acc,
  (sc_stream_end s = true \/ GI F B s) -> tpn s <= B -> B + 1 <= fuel + tpn s ->
  snd (scan_all str_ops F fuel s acc) <> SFuel.
Proof using H_stnt H_ws H_yw H_dir H_tag H_anchor H_flow H_plain H_block.
  induction fuel as [|fuel IH]; intros s acc HI HT HF; [lia|]. cbn [scan_all].
  destruct HI as [SE|G].
  - rewrite (next_token_ended F s SE). cbn [snd]. discriminate.
  - pose proof (next_token_fuel F B s G) as W. unfold fwp in W.
    destruct (next_token str_ops F s) as [[[t|] s']| | |]; cbn [snd]; try discriminate; [|contradiction W].
    destruct W as [HI' HT']. destruct (HT' ltac:(discriminate)) as [T1 T2].
    apply IH; [exact HI'|exact T2|lia].
Qed.

Lemma gi_init orig : GI (2 * length orig + 10) (5 * length orig + 2) (init_sc {| si_chars := orig; si_look := 0 |}).
Proof using.
  split.
  - unfold fuel_ok, rl, frem. cbn [init_sc sc_in si_chars]. lia.
  - right. unfold phi, tpn, rl, frem, sst. cbn [init_sc sc_in si_chars sc_tokens sc_tokens_parsed sc_indents sc_stream_start length npend N.to_nat]. lia.
Qed.

Theorem scan_all_never_out_of_fuel : forall orig,
  let F := 2 * length orig + 10 in
  snd (scan_all str_ops F (4 * F + 20) (init_sc {| si_chars := orig; si_look := 0 |}) []) <> SFuel.
Proof using H_stnt H_ws H_yw H_dir H_tag H_anchor H_flow H_plain H_block.
  intros orig F. apply (scan_all_fuel F (5 * length orig + 2)).
  - right. apply gi_init.
  - unfold tpn. cbn [init_sc sc_tokens_parsed N.to_nat]. lia.
  - unfold tpn. cbn [init_sc sc_tokens_parsed N.to_nat]. subst F. lia.
Qed.

(* scan_all delivers at most one token per unit of its fuel *)
Lemma scan_all_length {I} (ops : InputOps I) F : forall n s acc,
  length (fst (scan_all ops F n s acc)) <= n + length acc.
Proof.
  induction n as [|n IH]; intros s acc; cbn [scan_all].
  - cbn [fst]. rewrite rev_length. lia.
  - destruct (next_token ops F s) as [[[t|] s']| | |]; cbn [fst]; try (rewrite rev_length; lia).
    specialize (IH s' (t :: acc)). cbn [length] in IH. lia.
Qed.

(* (3) the whole pipeline: the scanner delivers at most 4 * F + 20 tokens, the parser is given 4 * (4 * F + 20) + 40
   steps and needs at most 4 * tokens + 1 *)
Theorem run_str_never_out_of_fuel : forall orig, snd (run_str orig) <> PFuel.
Proof using H_stnt H_ws H_yw H_dir H_tag H_anchor H_flow H_plain H_block.
  intros orig. unfold run_str. cbv zeta.
  pose proof (scan_all_never_out_of_fuel orig) as HS. cbv zeta in HS.
  pose proof (scan_all_length str_ops (2 * length orig + 10) (4 * (2 * length orig + 10) + 20)
                (init_sc {| si_chars := orig; si_look := 0 |}) []) as HL.
  destruct (scan_all str_ops _ _ _ _) as [toks se]. cbn [snd] in HS. cbn [fst length] in HL.
  apply parse_all_no_fuel; [|exact HS]. rewrite pmu_init. lia.
Qed.

End FuelTop.

(* the parser half alone, for any token list and any way the scan ended (no hypothesis) *)
Theorem parse_tokens_fuel_suffices : forall toks se keep fuel, 4 * length toks + 2 <= fuel -> se <> SFuel ->
  snd (parse_all fuel {| p_toks := toks; p_token := None; p_states := []; p_state := SStreamStart;
                         p_anchors := []; p_anchor_id := 1%N; p_tags := []; p_keep_tags := keep |} se []) <> PFuel.
Proof. intros toks se keep fuel Hf Hse. apply parse_all_no_fuel; [|exact Hse]. rewrite pmu_init. lia. Qed.

Print Assumptions fetch_next_token_never_out_of_fuel.
Print Assumptions scan_all_never_out_of_fuel.
Print Assumptions run_str_never_out_of_fuel.
Print Assumptions parse_tokens_fuel_suffices.
