(* C09 — the full tree-level statement over the model of the loading pipeline, and evaluated instances of it. *)
From Coq Require Import List NArith ZArith Bool.
Import ListNotations.
Require Import Resolver Emitter.
Open Scope N_scope.

(* Over the model of the loading pipeline (PipeL.run_load = scanner + parser + loader models): for every
   well-formed tree and all four settings, the emitted text loads as exactly one document equal to the tree.
   (Re-emission of the reloaded tree giving the same text follows from equality for -0.0-free trees; it is checked on
   the implementation.)  NOT proved as such: see EmitterTree.v for what is (the emitted text is a sentence of the
   block-layout grammar Spec/BlockLayout.v denoting the tree, so that C09_full follows from the correctness of the
   loading pipeline on that grammar). *)
Definition C09_full : Prop :=
  forall compact multiline doc, wf_node doc = true -> round_trip_ok compact multiline doc = true.

(* the witnesses of the former defect classes (known findings K1-K5, G1, repaired in emitter.rs): they round-trip now *)
Definition str_a_lf_b : str := [97; 10; 98].
Definition k1_witness := NMap [(NStr str_a_lf_b, NInt 7)].                 (* multi-line string as a mapping key *)
Definition k2_witness := NSeq [NStr [32; 97; 10; 98]; NInt 7].             (* first content line starts with a space *)
Definition k3_witness := NSeq [NStr [97; 10; 10]; NInt 7].                 (* two trailing line feeds *)
Definition k4a_witness := NStr [9; 97; 10; 98].                            (* root block starting with a tab *)
Definition k4b_witness := NStr [97; 10; 46; 46; 46].                       (* root block with a line "..." *)
Definition k4c_witness := NStr [97; 10; 45; 45; 45; 10; 98].               (* root block with a line "---" *)
Definition k5_witness := NSeq [NStr [10]; NInt 7].                         (* only line feeds *)
Definition g1_witness := NMap [(NStr (repeat 97 1025), NInt 7)].           (* key of 1025 characters *)
Definition former_witnesses : list node :=
  [k1_witness; k2_witness; k3_witness; k4a_witness; k4b_witness; k4c_witness; k5_witness; g1_witness].

Lemma former_witnesses_ok :
  forallb (fun w => wf_node w && round_trip_ok true true w && round_trip_ok false true w
                    && round_trip_ok true false w && round_trip_ok false false w) former_witnesses = true.
Proof. vm_compute. reflexivity. Qed.

(* how they are written now *)
Lemma k1_text : dump_doc true true k1_witness = [45;45;45;10; 63;32;124;45;10; 32;32;97;10; 32;32;98;10; 58;32;55].
Proof. vm_compute. reflexivity. Qed.
Lemma k2_text : dump_doc true true k2_witness = [45;45;45;10; 45;32;34;32;97;92;110;98;34;10; 45;32;55].
Proof. vm_compute. reflexivity. Qed.

(* further instances (the statement is satisfiable and the model pipeline is not trivially failing) *)
Definition sample_tree : node :=
  NMap [(NStr [97; 32; 98], NSeq [NInt (-5); NStr [48; 111; 55]; NNull; NStr []; NStr [45; 32; 58]]);
        (NSeq [NBool true], NMap []);
        (NNull, NFloat [49; 46; 48]);
        (NStr (repeat 97 1024), NStr [97; 10; 98]);
        (NStr [107; 10; 108; 10], NFloat [45; 46; 105; 110; 102])].
Lemma sample_tree_ok :
  wf_node sample_tree = true
  /\ round_trip_ok true false sample_tree = true /\ round_trip_ok false false sample_tree = true
  /\ round_trip_ok true true sample_tree = true /\ round_trip_ok false true sample_tree = true.
Proof. repeat split; vm_compute; reflexivity. Qed.
Lemma literal_block_ok : round_trip_ok true true (NSeq [NStr [97; 10; 32; 98; 10]; NStr str_a_lf_b]) = true.
Proof. vm_compute. reflexivity. Qed.
(* the model pipeline does reject: a hand-made text with an over-long implicit key does not load *)
Lemma long_implicit_key_rejected :
  PipeL.run_load ([45;45;45;10] ++ repeat 97 1025 ++ [58; 32; 55]) = PipeL.LErr.
Proof. vm_compute. reflexivity. Qed.
