(* C01, bounded work over the BUFFERED input - assembly of the fuel-transfer proof (ScanFuelBuf.v).

   From related states, with the string side's remaining text within the bound N0 and [2 * N0 + 6 <= F], the token
   iterators [scan_all] over the string input and over the buffered input (any capacity >= 8, the SAME fuels) return
   the same token list and the same end, UNLESS the string run ends in [SFuel] / [SPanic] or the buffered run in
   [SPanic].  In particular the buffered run cannot end in [SFuel] where the string run ends properly.
   The six character-level contracts (directive, tag, anchor, flow / plain / block scalar) are premises. *)
From Coq Require Import List NArith ZArith Bool Arith Lia.
Import ListNotations.
Require Import Parser SBase SPrim SDir SScalar SFetch SBuf Pipe InputRefine ScanFuelBuf ScanFuelBufPrim ScanFuelBufFetch.
Local Open Scope nat_scope.

(* the initial states are related *)
Lemma SR_init orig :
  SR (init_sc {| si_chars := orig; si_look := 0 |}) (init_sc {| b_buf := []; b_rest := orig |}).
Proof.
  split; [|reflexivity]. exists 0. cbn [init_sc sc_in b_buf b_rest si_chars repeat app].
  rewrite app_nil_r. split; [reflexivity|lia].
Qed.

Section FuelBufTop.
Variable cap : nat.
Hypothesis cap_ge : 8 <= cap.
Variable N0 : nat.
Notation sops := str_ops.
Notation bops := (buf_ops cap).

Hypothesis H_dir : rel_scan_directive cap N0.
Hypothesis H_tag : rel_scan_tag cap N0.
Hypothesis H_anchor : rel_scan_anchor cap N0.
Hypothesis H_flow : rel_scan_flow_scalar cap N0.
Hypothesis H_plain : rel_scan_plain_scalar cap N0.
Hypothesis H_block : rel_scan_block_scalar cap N0.

Let NT := rwp_next_token cap cap_ge N0 H_dir H_tag H_anchor H_flow H_plain H_block.

(* how the two iterators end, from related states *)
Definition scan_transfer (r1 r2 : list token * scan_end) : Prop :=
  r1 = r2 \/ snd r1 = SFuel \/ (exists n, snd r1 = SPanic n) \/ (exists n, snd r2 = SPanic n).

Theorem scan_all_transfer F : 2 * N0 + 6 <= F -> forall N s1 s2 acc, SR s1 s2 -> length (rem1 s1) <= N0 ->
  scan_transfer (scan_all sops F N s1 acc) (scan_all bops F N s2 acc).
Proof using cap_ge H_dir H_tag H_anchor H_flow H_plain H_block.
  intros HF. induction N as [|N IH]; intros s1 s2 acc HS B; [left; reflexivity|].
  pose proof (rwp_elim _ _ _ _ _ _ (NT F s1 s2 HF HS) B) as H.
  cbn [scan_all]. revert H.
  destruct (next_token sops F s1) as [[[t1|] u1]|e1 k1|n1|];
    destruct (next_token bops F s2) as [[[t2|] u2]|e2 k2|n2|]; intros H;
    try contradiction;
    try (right; left; reflexivity);
    try (right; right; left; eexists; reflexivity);
    try (right; right; right; eexists; reflexivity).
  - destruct H as [Bu [E HU]]. inversion E; subst t2. apply IH; [exact HU|exact Bu].
  - destruct H as [_ [E _]]. discriminate E.
  - destruct H as [_ [E _]]. discriminate E.
  - left. reflexivity.
  - destruct H as [-> ->]. left. reflexivity.
Qed.

End FuelBufTop.

Print Assumptions scan_all_transfer.
