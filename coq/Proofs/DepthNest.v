(* C11 — the nesting of the token stream the scanner delivers is bounded by a CONSTANT, for EVERY input (any Input
   back-end, any fuel): [tok_nest_max] (+1 at every collection-start token: block or flow, synthetic or not; -1 at every
   collection-end token) of every scanned token stream is at most
       NEST_TOK_MAX = BLOCK_NESTING_MAX + 3 * FLOW_LEVEL_MAX + 1.
   Invariant [J] (part 2), carried through every function of the scanner model:
     (J1) the collection-start tokens delivered or queued and not yet matched by an end token number at most
            #(block entries of sc_indents) + sc_flow_level + #(ImInside entries of sc_ifms)
          — roll_indent pushes one start token per pushed block indent (and fails at BLOCK_NESTING_MAX), unroll_indent one
          BlockEnd per popped block indent; fetch_flow_collection_start one '[' / '{' token per flow level;
          fetch_value one synthetic FlowMappingStart per ImPossible -> ImInside transition (/repo 597a354);
     (J2) for EVERY prefix A of the stream:  open(A) + #(possible simple keys saved at a position <= |A|) <= NEST_TOK_MAX
          — a start token is INSERTED into the queue (insert_token) only at the position of the top simple key, which is
          then spent; this is the allowance that pays for the shift of everything queued behind that position;
     (J3) the saved positions of possible simple keys are ordered along the stack and lie within the stream;
     (J4) the three stacks are within their limits.
   The skeleton facts (one simple key per flow level + 1) come from Proofs/DocScan.v (C15), the frame property of the
   character-level scanners from Proofs/ScanFrame.v. *)
From Coq Require Import List NArith ZArith Bool Lia PeanoNat.
Import ListNotations.
Require Import Parser SBase SPrim SDir SScalar SFetch Drivers Depth DepthTok ScanFrame DocScan.
Local Open Scope nat_scope.

(* ------------------------------------------------------------------------------------------------ *)
(* 1. pure facts: the running count, insertion, the allowance                                         *)
(* ------------------------------------------------------------------------------------------------ *)
Lemma next_mono c c' t : c <= c' -> tok_nest_next c t <= tok_nest_next c' t.
Proof. unfold tok_nest_next. destruct (tok_open t); [lia|]. destruct (tok_close t); lia. Qed.
Lemma next_lip c t : tok_nest_next (S c) t <= S (tok_nest_next c t).
Proof. unfold tok_nest_next. destruct (tok_open t); [lia|]. destruct (tok_close t); lia. Qed.
Lemma next_nonopen c t : tok_open t = false -> tok_nest_next c t <= c.
Proof. unfold tok_nest_next. intros ->. destruct (tok_close t); lia. Qed.
Lemma next_plain c t : tok_open t = false -> tok_close t = false -> tok_nest_next c t = c.
Proof. unfold tok_nest_next. intros -> ->. reflexivity. Qed.
Lemma next_open c t : tok_open t = true -> tok_nest_next c t = S c.
Proof. unfold tok_nest_next. intros ->. reflexivity. Qed.
Lemma next_close c t : tok_open t = false -> tok_close t = true -> tok_nest_next c t = Nat.pred c.
Proof. unfold tok_nest_next. intros -> ->. reflexivity. Qed.

Lemma cnt_mono l : forall c c', c <= c' -> cnt c l <= cnt c' l.
Proof. unfold cnt. induction l as [|t r IH]; intros c c' H; cbn; [exact H|]. apply IH. apply next_mono. exact H. Qed.
Lemma cnt_lip l : forall c, cnt (S c) l <= S (cnt c l).
Proof.
  unfold cnt. induction l as [|t r IH]; intros c; cbn; [lia|].
  etransitivity; [|apply IH]. apply cnt_mono. apply next_lip.
Qed.
Lemma cnt_snoc c l t : cnt c (l ++ [t]) = tok_nest_next (cnt c l) (snd t).
Proof. rewrite cnt_app. reflexivity. Qed.
Lemma cnt_cons c t l : cnt c (t :: l) = cnt (tok_nest_next c (snd t)) l.
Proof. reflexivity. Qed.

Lemma nest_max_le C l : forall c m, m <= C -> (forall A B, l = A ++ B -> cnt c A <= C) -> snd (tok_nest_run l (c, m)) <= C.
Proof.
  induction l as [|t r IH]; intros c m Hm H; [exact Hm|].
  unfold tok_nest_run. cbn [fold_left]. unfold tok_nest_step at 2. cbn [fst snd]. apply IH.
  - pose proof (H [t] r eq_refl) as H1. cbn in H1. lia.
  - intros A B E. specialize (H (t :: A) B). rewrite E in H. specialize (H eq_refl). exact H.
Qed.

Lemma insert_at_split {A} (x : A) : forall n l l', insert_at n x l = Some l' ->
  exists a b, l = a ++ b /\ l' = a ++ x :: b /\ length a = n.
Proof.
  induction n as [|n IH]; intros l l' E.
  - cbn in E. inversion E; subst. exists [], l. auto.
  - destruct l as [|y r]; cbn in E; [discriminate|]. destruct (insert_at n x r) as [r'|] eqn:E2; [|discriminate].
    inversion E; subst. destruct (IH _ _ E2) as (a & b & -> & -> & HL). exists (y :: a), b. cbn. auto.
Qed.

Lemma insert_at_app {A} (x : A) (pre : list A) : forall n l,
  insert_at (length pre + n) x (pre ++ l) = match insert_at n x l with Some l' => Some (pre ++ l') | None => None end.
Proof.
  induction pre as [|y r IH]; intros n l; cbn [length app Nat.add]; [destruct (insert_at n x l); reflexivity|].
  cbn [insert_at]. rewrite IH. destruct (insert_at n x l); reflexivity.
Qed.

Lemma app_split_ins {A} (x : A) b : forall a A' B', A' ++ B' = a ++ x :: b ->
  (exists E, a = A' ++ E /\ B' = E ++ x :: b) \/ (exists D, A' = a ++ x :: D /\ b = D ++ B').
Proof.
  induction a as [|z a IH]; intros A' B' E.
  - destruct A' as [|y A'']; cbn in E.
    + left. exists []. auto.
    + inversion E; subst. right. exists A''. auto.
  - destruct A' as [|y A'']; cbn in E.
    + left. exists (z :: a). auto.
    + inversion E; subst. destruct (IH _ _ H1) as [(E' & -> & ->)|(D & -> & ->)].
      * left. exists E'. auto.
      * right. exists D. auto.
Qed.

Lemma app_split_snoc {A} (x : A) L A' B' : L ++ [x] = A' ++ B' ->
  (exists B'', L = A' ++ B'' /\ B' = B'' ++ [x]) \/ (A' = L ++ [x] /\ B' = []).
Proof.
  revert B'. apply (rev_ind (fun B' => L ++ [x] = A' ++ B' ->
    (exists B'', L = A' ++ B'' /\ B' = B'' ++ [x]) \/ (A' = L ++ [x] /\ B' = []))).
  - intros E. right. rewrite app_nil_r in E. auto.
  - intros b B'' _ E. left. rewrite app_assoc in E. apply app_inj_tail in E. destruct E as [E1 E2]. subst. exists B''. auto.
Qed.

(* simple keys: saved position, the allowance [phi], order *)
Definition kpos (k : simple_key) : nat := N.to_nat (sk_token_number k).
Definition kcount (i : nat) (k : simple_key) : bool := sk_possible k && (kpos k <=? i).
Definition phi (sks : list simple_key) (i : nat) : nat := length (filter (kcount i) sks).
Definition np (sks : list simple_key) : nat := length (filter sk_possible sks).
Fixpoint sk_ok (n : nat) (sks : list simple_key) : Prop :=
  match sks with
  | [] => True
  | k :: r => if sk_possible k then kpos k <= n /\ sk_ok (kpos k) r else sk_ok n r
  end.
Definition eff (kt : bool) (sks : list simple_key) : list simple_key := if kt then tl sks else sks.
Definition kill (k : simple_key) : simple_key :=
  {| sk_possible := false; sk_required := sk_required k; sk_token_number := sk_token_number k; sk_mark := sk_mark k |}.

Lemma phi_cons k r i : phi (k :: r) i = (if kcount i k then 1 else 0) + phi r i.
Proof. unfold phi. cbn. destruct (kcount i k); reflexivity. Qed.
Lemma phi_le_len sks i : phi sks i <= length sks.
Proof. induction sks as [|k r IH]; [cbn; lia|]. rewrite phi_cons. cbn [length]. destruct (kcount i k); lia. Qed.
Lemma phi_tl_le sks i : phi (tl sks) i <= phi sks i.
Proof. destruct sks as [|k r]; [apply le_n|]. rewrite phi_cons. cbn [tl]. lia. Qed.
Lemma phi_eff_le kt sks i : phi (eff kt sks) i <= phi sks i.
Proof. destruct kt; [apply phi_tl_le|apply le_n]. Qed.
Lemma phi_all sks i : (forall k, In k sks -> sk_possible k = true -> kpos k <= i) -> phi sks i = np sks.
Proof.
  unfold phi, np. induction sks as [|k r IH]; intros H; [reflexivity|]. cbn. unfold kcount at 1.
  destruct (sk_possible k) eqn:E; cbn.
  - assert (kpos k <= i) by (apply H; [left; reflexivity|exact E]). apply Nat.leb_le in H0. rewrite H0. cbn.
    f_equal. apply IH. intros k' Hk. apply H. right. exact Hk.
  - apply IH. intros k' Hk. apply H. right. exact Hk.
Qed.

Lemma sk_ok_mono sks : forall n n', n <= n' -> sk_ok n sks -> sk_ok n' sks.
Proof.
  induction sks as [|k r IH]; intros n n' H; cbn; [auto|]. destruct (sk_possible k); [intros [A B]; split; [lia|exact B]|apply IH; exact H].
Qed.
Lemma sk_ok_tl n k r : sk_ok n (k :: r) -> sk_ok n r.
Proof. cbn. destruct (sk_possible k); [intros [A B]; eapply sk_ok_mono; eauto|auto]. Qed.
Lemma sk_ok_all sks : forall n, sk_ok n sks -> forall k, In k sks -> sk_possible k = true -> kpos k <= n.
Proof.
  induction sks as [|k0 r IH]; intros n H k Hin Hp; [destruct Hin|]. destruct Hin as [->|Hin].
  - cbn in H. rewrite Hp in H. apply H.
  - eapply IH; [eapply sk_ok_tl; exact H|exact Hin|exact Hp].
Qed.
Lemma sk_ok_eff kt n sks : sk_ok n sks -> sk_ok n (eff kt sks).
Proof. destruct kt; [|auto]. destruct sks as [|k r]; [auto|apply sk_ok_tl]. Qed.
(* with the top key possible at position p, every possible key below it was saved at a position <= p *)
Lemma sk_ok_below n k r : sk_ok n (k :: r) -> sk_possible k = true ->
  forall k', In k' r -> sk_possible k' = true -> kpos k' <= kpos k.
Proof. cbn. intros H Hp. rewrite Hp in H. destruct H as [_ H]. apply sk_ok_all. exact H. Qed.

(* [wk sks sks']: same positions, fewer possible keys *)
Definition wk1 (k k' : simple_key) : Prop := kpos k' = kpos k /\ (sk_possible k' = true -> sk_possible k = true).
Definition wk := Forall2 wk1.
Lemma wk_refl sks : wk sks sks.
Proof. induction sks; constructor; [split; auto|assumption]. Qed.
Lemma wk1_kill k : wk1 k (kill k).
Proof. split; [reflexivity|cbn; discriminate]. Qed.
Lemma wk_phi sks sks' i : wk sks sks' -> phi sks' i <= phi sks i.
Proof.
  induction 1 as [|k k' r r' [H1 H2] _ IH]; [apply le_n|]. rewrite !phi_cons. unfold kcount. rewrite H1.
  destruct (sk_possible k') eqn:E; [rewrite (H2 eq_refl); cbn; destruct (_ <=? _); lia|cbn].
  destruct (sk_possible k && _); lia.
Qed.
Lemma wk_tl sks sks' : wk sks sks' -> wk (tl sks) (tl sks').
Proof. destruct 1; [constructor|assumption]. Qed.
Lemma wk_sk_ok sks sks' : wk sks sks' -> forall n, sk_ok n sks -> sk_ok n sks'.
Proof.
  induction 1 as [|k k' r r' [H1 H2] _ IH]; intros n H; [exact I|]. cbn. destruct (sk_possible k') eqn:E.
  - cbn in H. rewrite (H2 eq_refl) in H. rewrite H1. destruct H as [A B]. split; [exact A|apply IH; exact B].
  - apply IH. eapply sk_ok_tl. exact H.
Qed.
Lemma wk_map (f : simple_key -> simple_key) sks : (forall k, wk1 k (f k)) -> wk sks (map f sks).
Proof. intros H. induction sks; constructor; auto. Qed.

(* the state weight and the invariant over a VIEW of the state *)
Definition is_inside (st : ims) : bool := match st with ImInside => true | _ => false end.
Definition ni (l : list ims) : nat := length (filter is_inside l).
Definition nb (l : list indent_rec) : nat := length (filter in_needs_block_end l).
Definition NB : nat := N.to_nat BLOCK_NESTING_MAX.
Definition NF : nat := N.to_nat FLOW_LEVEL_MAX.
Definition NEST_TOK_MAX : nat := NB + 3 * NF + 1.
Definition cur (nbv : nat) (fl : N) (ifms : list ims) : Z := (Z.of_nat nbv + Z.of_N fl + Z.of_nat (ni ifms))%Z.

Lemma ni_le l : ni l <= length l.
Proof. unfold ni. induction l as [|x r IH]; cbn; [lia|]. destruct (is_inside x); cbn; lia. Qed.
Lemma nb_le l : nb l <= length l.
Proof. unfold nb. induction l as [|x r IH]; cbn; [lia|]. destruct (in_needs_block_end x); cbn; lia. Qed.

Definition JV (d : Z) (kt : bool) (e : Z) (L : list token) (sks : list simple_key) (nbv : nat) (fl : N) (ifms : list ims) : Prop :=
  (Z.of_nat (cnt 0 L) <= cur nbv fl ifms + d)%Z
  /\ (forall A B, L = A ++ B -> cnt 0 A + phi (eff kt sks) (length A) <= NEST_TOK_MAX)
  /\ sk_ok (length L) sks
  /\ nbv <= NB /\ (fl <= FLOW_LEVEL_MAX)%N /\ (Z.of_nat (length ifms) <= Z.of_N fl + e)%Z.

Ltac jv_split := unfold JV; split; [|split; [|split]].

Lemma cur_bound nbv fl ifms e : nbv <= NB -> (fl <= FLOW_LEVEL_MAX)%N -> (Z.of_nat (length ifms) <= Z.of_N fl + e)%Z -> (e <= 0)%Z ->
  (cur nbv fl ifms <= Z.of_nat (NB + 2 * NF))%Z.
Proof. intros H1 H2 H3 H4. unfold cur, NF. pose proof (ni_le ifms). lia. Qed.

(* state changes that do not touch tokens or keys *)
Lemma JV_state d kt e L sks nbv fl ifms d' e' nbv' fl' ifms' :
  JV d kt e L sks nbv fl ifms ->
  (cur nbv fl ifms + d <= cur nbv' fl' ifms' + d')%Z -> nbv' <= NB -> (fl' <= FLOW_LEVEL_MAX)%N ->
  (Z.of_nat (length ifms') <= Z.of_N fl' + e')%Z ->
  JV d' kt e' L sks nbv' fl' ifms'.
Proof. intros (A & B & C & _) H1 H2 H3 H4. jv_split; [lia|exact B|exact C|auto]. Qed.

(* the key stack changes, the allowance does not grow *)
Lemma JV_sks d kt e L sks sks' nbv fl ifms :
  (forall i, phi (eff kt sks') i <= phi (eff kt sks) i) -> (forall n, sk_ok n sks -> sk_ok n sks') ->
  JV d kt e L sks nbv fl ifms -> JV d kt e L sks' nbv fl ifms.
Proof.
  intros H1 H2 (A & B & C & D). jv_split; [exact A| |auto|exact D].
  intros A' B' E. specialize (B A' B' E). specialize (H1 (length A')). lia.
Qed.

Lemma JV_kt_weaken d e L sks nbv fl ifms : JV d false e L sks nbv fl ifms -> JV d true e L sks nbv fl ifms.
Proof.
  intros (A & B & C). jv_split; [exact A| |apply C|apply C].
  intros A' B' E. specialize (B A' B' E). pose proof (phi_tl_le sks (length A')). cbn [eff] in *. lia.
Qed.

(* the top key is spent (fetch_value) *)
Lemma JV_kill d e L k r nbv fl ifms : JV d true e L (k :: r) nbv fl ifms -> JV d false e L (kill k :: r) nbv fl ifms.
Proof.
  intros (A & B & C & D). jv_split; [exact A| | |exact D].
  - intros A' B' E. specialize (B A' B' E). cbn [eff tl] in *. rewrite phi_cons. unfold kcount. cbn. exact B.
  - cbn. eapply sk_ok_tl. exact C.
Qed.

(* a token that is not a collection start is pushed at the end of the queue *)
Lemma JV_push_nonopen d kt e L sks nbv fl ifms t :
  tok_open (snd t) = false -> JV d kt e L sks nbv fl ifms -> JV d kt e (L ++ [t]) sks nbv fl ifms.
Proof.
  intros Ht (A & B & C & D). pose proof (next_nonopen (cnt 0 L) (snd t) Ht) as HN.
  jv_split; [| | |exact D].
  - rewrite cnt_snoc. lia.
  - intros A' B' E. destruct (app_split_snoc _ _ _ _ E) as [(B'' & -> & _)|[-> _]].
    + eapply B. reflexivity.
    + rewrite cnt_snoc. specialize (B L [] (eq_sym (app_nil_r L))).
      assert (HP : forall i, length L <= i -> phi (eff kt sks) i = np (eff kt sks)).
      { intros i Hi. apply phi_all. intros k Hk Hp. pose proof (sk_ok_all _ _ (sk_ok_eff kt _ _ C) k Hk Hp). lia. }
      rewrite HP in B by apply le_n. rewrite HP by (rewrite app_length; cbn; lia). lia.
  - rewrite app_length. eapply sk_ok_mono; [|exact C]. lia.
Qed.

(* a collection end is pushed after the state has lost the level it closes *)
Lemma JV_push_close d kt e L sks nbv fl ifms t :
  tok_open (snd t) = false -> tok_close (snd t) = true -> (0 <= cur nbv fl ifms + d)%Z ->
  JV (d + 1) kt e L sks nbv fl ifms -> JV d kt e (L ++ [t]) sks nbv fl ifms.
Proof.
  intros Ho Hc H0 HJ. pose proof (JV_push_nonopen _ _ _ _ _ _ _ _ t Ho HJ) as (A & B).
  split; [|exact B]. rewrite cnt_snoc, next_close by assumption. destruct HJ as (A' & _). lia.
Qed.

(* a collection start is pushed at the end of the queue after the state has gained its level *)
Lemma JV_push_open d e L sks nbv fl ifms t :
  tok_open (snd t) = true -> (d <= -1)%Z -> (e <= 0)%Z -> length sks <= N.to_nat fl + 1 ->
  JV d false e L sks nbv fl ifms -> JV (d + 1) false e (L ++ [t]) sks nbv fl ifms.
Proof.
  intros Ht Hd He Hs (A & B & C & D1 & D2 & D3).
  jv_split; [| | |auto].
  - rewrite cnt_snoc, next_open by exact Ht. lia.
  - intros A' B' E. destruct (app_split_snoc _ _ _ _ E) as [(B'' & -> & _)|[-> _]].
    + eapply B. reflexivity.
    + rewrite cnt_snoc, next_open by exact Ht. cbn [eff].
      match goal with |- context [phi ?s ?i] => pose proof (phi_le_len s i) end. pose proof (cur_bound _ _ _ _ D1 D2 D3 He).
      unfold NEST_TOK_MAX. unfold NF in *. lia.
  - rewrite app_length. eapply sk_ok_mono; [|exact C]. lia.
Qed.

(* insertion at the position of the top key (possible, saved at |a|), of a token that is neither start nor end *)
Lemma JV_insert_plain d kt e a b sks nbv fl ifms t :
  tok_open (snd t) = false -> tok_close (snd t) = false ->
  (forall k, In k (eff kt sks) -> sk_possible k = true -> kpos k <= length a) ->
  JV d kt e (a ++ b) sks nbv fl ifms -> JV d kt e (a ++ t :: b) sks nbv fl ifms.
Proof.
  intros Ho Hc Hk (A & B & C & D).
  assert (EC : forall c, cnt c (a ++ t :: b) = cnt c (a ++ b)).
  { intros c. rewrite !cnt_app, cnt_cons, next_plain by assumption. reflexivity. }
  jv_split; [| | |exact D].
  - rewrite EC. exact A.
  - intros A' B' E. destruct (app_split_ins _ _ _ _ _ (eq_sym E)) as [(E' & -> & ->)|(D' & -> & ->)].
    + eapply (B A' (E' ++ b)). rewrite app_assoc. reflexivity.
    + specialize (B (a ++ D') B'). rewrite <- app_assoc in B. specialize (B eq_refl).
      rewrite !cnt_app, cnt_cons, next_plain by assumption. rewrite cnt_app in B.
      assert (HP : forall i, length a <= i -> phi (eff kt sks) i = np (eff kt sks)).
      { intros i Hi. apply phi_all. intros k Hin Hp. specialize (Hk k Hin Hp). lia. }
      rewrite HP in B by (rewrite app_length; lia). rewrite HP by (rewrite app_length; lia). exact B.
  - eapply sk_ok_mono; [|exact C]. rewrite !app_length. cbn. lia.
Qed.

(* insertion of a collection start at the position of the top key, which is spent by it *)
Lemma JV_insert_open d e a b k r nbv fl ifms t :
  tok_open (snd t) = true -> sk_possible k = true -> kpos k = length a ->
  JV d false e (a ++ b) (k :: r) nbv fl ifms -> JV (d + 1) true e (a ++ t :: b) (k :: r) nbv fl ifms.
Proof.
  intros Ho Hp Hk (A & B & C & D).
  pose proof (sk_ok_below _ _ _ C Hp) as HB.
  jv_split; [| | |exact D].
  - rewrite cnt_app, cnt_cons, next_open by exact Ho. rewrite cnt_app in A.
    pose proof (cnt_lip b (cnt 0 a)). lia.
  - intros A' B' E. cbn [eff tl]. destruct (app_split_ins _ _ _ _ _ (eq_sym E)) as [(E' & -> & ->)|(D' & -> & ->)].
    + specialize (B A' (E' ++ b)). rewrite app_assoc in B. specialize (B eq_refl). cbn [eff] in B.
      rewrite phi_cons in B. lia.
    + specialize (B (a ++ D') B'). rewrite <- app_assoc in B. specialize (B eq_refl). cbn [eff] in B.
      rewrite cnt_app, cnt_cons, next_open by exact Ho. rewrite cnt_app in B.
      pose proof (cnt_lip D' (cnt 0 a)).
      assert (HP : forall i, length a <= i -> phi r i = np r).
      { intros i Hi. apply phi_all. intros k' Hin Hp'. specialize (HB k' Hin Hp'). lia. }
      rewrite phi_cons in B. unfold kcount in B. rewrite Hp, Hk in B. cbn [andb] in B.
      assert (EL : (length a <=? length (a ++ D')) = true) by (apply Nat.leb_le; rewrite app_length; lia).
      rewrite EL in B. rewrite HP in B by (rewrite app_length; lia). rewrite HP by (rewrite !app_length; cbn; lia). lia.
  - eapply sk_ok_mono; [|exact C]. rewrite !app_length. cbn. lia.
Qed.

(* save_simple_key: the top slot receives a possible key saved at the end of the stream *)
Lemma JV_save d e L k0 k r nbv fl ifms :
  kpos k = length L -> (d <= 0)%Z -> (e <= 0)%Z -> length (k0 :: r) <= N.to_nat fl + 1 ->
  JV d false e L (k0 :: r) nbv fl ifms -> JV d false e L (k :: r) nbv fl ifms.
Proof.
  intros Hk Hd He Hs (A & B & C & D1 & D2 & D3). jv_split; [exact A| | |auto].
  - intros A' B' E. cbn [eff]. destruct (Nat.eq_dec (length A') (length L)) as [EL|NL].
    + match goal with |- context [phi ?s ?i] => pose proof (phi_le_len s i) end. pose proof (cur_bound _ _ _ _ D1 D2 D3 He).
      assert (A' = L).
      { subst L. rewrite app_length in EL. destruct B'; [rewrite app_nil_r; reflexivity|cbn in EL; lia]. }
      subst A'. cbn [length] in *. unfold NEST_TOK_MAX, NF in *. lia.
    + specialize (B A' B' E). cbn [eff] in B. rewrite phi_cons in *. unfold kcount at 1.
      assert (length A' < length L) by (subst L; rewrite app_length in *; lia).
      replace (kpos k <=? length A') with false by (symmetry; apply Nat.leb_gt; lia). rewrite andb_false_r. lia.
  - cbn. destruct (sk_possible k); [split; [lia|]; rewrite Hk|]; eapply sk_ok_tl; exact C.
Qed.

(* ------------------------------------------------------------------------------------------------ *)
(* 2. the invariant over scanner states, and the judgment                                             *)
(* ------------------------------------------------------------------------------------------------ *)
Section Scan.
Context {I : Type} (ops : InputOps I).
Notation M := (@M I).
Notation st := (sc I).

(* [pre] = the tokens already delivered; indices: [d] slack of (J1) between a change of the stacks and the push of the
   token that goes with it; [kt] = the top simple key counts as spent in (J2) (between the insertion of a start token
   at its position and the update of the key by fetch_value); [e] slack between flow_level and the depth of sc_ifms *)
Definition J (pre : list token) (d : Z) (kt : bool) (e : Z) (s : st) : Prop :=
  length pre = N.to_nat (sc_tokens_parsed s)
  /\ JV d kt e (pre ++ sc_tokens s) (sc_sks s) (nb (sc_indents s)) (sc_flow_level s) (sc_ifms s).
Definition JB (pre : list token) (d : Z) (kt : bool) (e : Z) (s : st) : Prop := SkB s /\ J pre d kt e s.
Definition kj {A} (m : M A) (d : Z) (kt : bool) (e : Z) (d' : Z) (kt' : bool) (e' : Z) : Prop :=
  forall pre, Tr (JB pre d kt e) m (fun _ => JB pre d' kt' e').

Lemma kj_bind {A B} (m : M A) (f : A -> M B) d1 k1 e1 d2 k2 e2 d3 k3 e3 :
  kj m d1 k1 e1 d2 k2 e2 -> (forall a, kj (f a) d2 k2 e2 d3 k3 e3) -> kj (bind m f) d1 k1 e1 d3 k3 e3.
Proof. intros Hm Hf pre. eapply Tr_bind; [apply Hm|intros a; apply Hf]. Qed.
Lemma kj_ret {A} (a : A) d k e : kj (ret a) d k e d k e.
Proof. intros pre s a' s' H E. inversion E; subst. exact H. Qed.
Lemma kj_fail {A} x mk d k e d' k' e' : kj (@fail I A x mk) d k e d' k' e'.
Proof. intros pre s a s' _ E. discriminate. Qed.
Lemma kj_panic {A} n d k e d' k' e' : kj (@panic I A n) d k e d' k' e'.
Proof. intros pre s a s' _ E. discriminate. Qed.
Lemma kj_oof {A} d k e d' k' e' : kj (@oof I A) d k e d' k' e'.
Proof. intros pre s a s' _ E. discriminate. Qed.
Lemma kj_get d k e : kj (@get I) d k e d k e.
Proof. intros pre s a s' H E. inversion E; subst. exact H. Qed.
Lemma kj_gets {A} (f : st -> A) d k e : kj (gets f) d k e d k e.
Proof. intros pre s a s' H E. inversion E; subst. exact H. Qed.

Lemma kj_intro {A} (m : M A) d k e d' k' e' :
  Keepk m -> (forall pre s a s', m s = Ok (a, s') -> SkB s -> J pre d k e s -> J pre d' k' e' s') -> kj m d k e d' k' e'.
Proof. intros HK HJ pre s a s' [HB H] E. split; [apply (HK _ _ _ HB E)|eapply HJ; eauto]. Qed.

(* J looks at the state through tokens, tokens_parsed, the key stack, the number of block indents, the flow level and
   the implicit-flow-mapping stack *)
Lemma J_view pre d kt e (s s' : st) :
  sc_tokens s' = sc_tokens s -> sc_tokens_parsed s' = sc_tokens_parsed s -> sc_sks s' = sc_sks s ->
  sc_flow_level s' = sc_flow_level s -> sc_ifms s' = sc_ifms s -> nb (sc_indents s') = nb (sc_indents s) ->
  J pre d kt e s -> J pre d kt e s'.
Proof. intros E1 E2 E3 E4 E5 E6. unfold J. rewrite E1, E2, E3, E4, E5, E6. auto. Qed.

Lemma nb_unroll_nb l : forall ind, nb (snd (unroll_nb l ind)) = nb l.
Proof.
  induction l as [|i r IH]; intros ind; cbn [unroll_nb]; [reflexivity|].
  destruct (in_needs_block_end i) eqn:E; cbn [snd]; [reflexivity|]. rewrite IH. unfold nb. cbn. rewrite E. reflexivity.
Qed.

Lemma kj_Fr {A} (m : M A) d k e : Fr m -> kj m d k e d k e.
Proof.
  intros HF. apply kj_intro; [apply Keepk_of_Fr; exact HF|].
  intros pre s a s' E _ HJ. destruct (HF _ _ _ E) as (F1 & F2 & F3 & F4 & F5 & _ & _ & _ & _ & _ & F11).
  eapply J_view; [..|exact HJ]; auto.
  destruct F11 as [F|F]; cbn [fst snd] in F.
  - inversion F as [[Fa Fb]]. rewrite Fb. reflexivity.
  - pose proof (nb_unroll_nb (sc_indents s) (sc_indent s)) as HN. rewrite <- F in HN. exact HN.
Qed.

(* updates outside the view *)
Lemma kj_modify_view (f : st -> st) d k e :
  (forall s, vsame s (f s) /\ sc_tokens (f s) = sc_tokens s /\ sc_tokens_parsed (f s) = sc_tokens_parsed s) ->
  kj (modify f) d k e d k e.
Proof.
  intros Hf. apply kj_intro; [apply Keepk_modify; intros s; apply Hf|].
  intros pre s a s' E _ HJ. inversion E; subst. destruct (Hf s) as ((V1 & V2 & V3 & V4 & V5 & V6) & T1 & T2).
  eapply J_view; [..|exact HJ]; auto. rewrite V6. reflexivity.
Qed.
Lemma kj_allow d k e : kj (@allow_simple_key I) d k e d k e.
Proof. apply kj_modify_view. intros s. unfold vsame; cbn. auto 10. Qed.
Lemma kj_disallow d k e : kj (@disallow_simple_key I) d k e d k e.
Proof. apply kj_modify_view. intros s. unfold vsame; cbn. auto 10. Qed.

Ltac vw := cbn [sc_tokens sc_tokens_parsed sc_sks sc_indents sc_indent sc_flow_level sc_ifms sc_stream_start sc_mark sc_ska
                 set_tokens set_sks set_indent set_fl set_tp set_ifms set_struct set_flags set_ta set_se set_ska set_ss set_adj
                 set_lws set_in set_mark upd].
Ltac vwin H := cbn [sc_tokens sc_tokens_parsed sc_sks sc_indents sc_indent sc_flow_level sc_ifms sc_stream_start sc_mark sc_ska
                 set_tokens set_sks set_indent set_fl set_tp set_ifms set_struct set_flags set_ta set_se set_ska set_ss set_adj
                 set_lws set_in set_mark upd] in H.

(* ---- tokens pushed at the end of the queue ---- *)
Lemma kj_push_nonopen t d k e : tok_open (snd t) = false -> kj (@push_tok I t) d k e d k e.
Proof.
  intros Ht. apply kj_intro; [apply Keepk_push_tok|]. intros pre s a s' E _ [J0 HJ].
  unfold push_tok, modify in E. inversion E; subst. split; [exact J0|]. vw. rewrite app_assoc.
  apply JV_push_nonopen; assumption.
Qed.
Lemma cur_nonneg nbv fl ifms : (0 <= cur nbv fl ifms)%Z.
Proof. unfold cur. lia. Qed.
Lemma kj_push_close t k e : tok_open (snd t) = false -> tok_close (snd t) = true -> kj (@push_tok I t) 1 k e 0 k e.
Proof.
  intros Ho Hc. apply kj_intro; [apply Keepk_push_tok|]. intros pre s a s' E _ [J0 HJ].
  unfold push_tok, modify in E. inversion E; subst. split; [exact J0|]. vw. rewrite app_assoc.
  apply JV_push_close; try assumption. rewrite Z.add_0_r. apply cur_nonneg.
Qed.
Lemma kj_push_open t : tok_open (snd t) = true -> kj (@push_tok I t) (-1) false 0 0 false 0.
Proof.
  intros Ho. apply kj_intro; [apply Keepk_push_tok|]. intros pre s a s' E (_ & HL & _) [J0 HJ].
  unfold push_tok, modify in E. inversion E; subst. split; [exact J0|]. vw. rewrite app_assoc.
  change 0%Z with (-1 + 1)%Z at 1. apply JV_push_open; try assumption; lia.
Qed.

(* ---- simple keys ---- *)
Lemma kj_save_simple_key : kj (@save_simple_key I) 0 false 0 0 false 0.
Proof.
  apply kj_intro; [apply Keepk_save_simple_key|]. intros pre s a s' E HB [J0 HJ].
  pose proof (sks_nonempty _ HB) as NE. destruct HB as (_ & HL & _).
  unfold save_simple_key, bind, get, put, ret, panic in E.
  destruct (sc_ska s); [|inversion E; subst; split; assumption].
  assert (X : forall r0, J pre 0 false 0 (set_sks ({| sk_possible := true; sk_required := r0;
                 sk_token_number := sc_tokens_parsed s + N.of_nat (length (sc_tokens s)); sk_mark := sc_mark s |} :: tl (sc_sks s)) s)).
  { intros r0. split; [exact J0|]. vw. destruct (sc_sks s) as [|k0 r] eqn:Es; [congruence|]. cbn [tl].
    eapply JV_save; [..|exact HJ]; try lia; try (cbn [length] in *; lia).
    unfold kpos. cbn [sk_token_number]. rewrite app_length. lia. }
  destruct (_ && _).
  - destruct (sc_indents s); [discriminate|]. inversion E; subst. apply X.
  - inversion E; subst. apply X.
Qed.

Lemma J_wk pre d e (s : st) sks' : wk (sc_sks s) sks' -> J pre d false e s -> J pre d false e (set_sks sks' s).
Proof.
  intros W [J0 HJ]. split; [exact J0|]. vw. eapply JV_sks; [..|exact HJ].
  - intros i. cbn [eff]. apply wk_phi. exact W.
  - intros n. apply wk_sk_ok. exact W.
Qed.

Lemma kj_remove_simple_key d e : kj (@remove_simple_key I) d false e d false e.
Proof.
  apply kj_intro; [apply Keepk_remove_simple_key|]. intros pre s a s' E _ HJ.
  unfold remove_simple_key, bind, get, put, fail, panic in E.
  destruct (sc_sks s) as [|k r] eqn:Es; [discriminate|]. destruct (_ && _); [discriminate|].
  inversion E; subst. apply J_wk; [|exact HJ]. rewrite Es. constructor; [apply wk1_kill|apply wk_refl].
Qed.

Lemma kj_stale_simple_keys d e : kj (@stale_simple_keys I) d false e d false e.
Proof.
  apply kj_intro; [apply Keepk_stale_simple_keys|]. intros pre s a s' E _ HJ.
  unfold stale_simple_keys, bind, get, put, fail in E. destruct (existsb _ _); [discriminate|].
  inversion E; subst. apply J_wk; [|exact HJ]. apply wk_map. intros k.
  destruct (_ && _); [apply wk1_kill|split; auto].
Qed.

Lemma kj_kill_key d e :
  kj (modify (fun s : st => match sc_sks s with
                            | k :: r => set_sks ({| sk_possible := false; sk_required := sk_required k;
                                                    sk_token_number := sk_token_number k; sk_mark := sk_mark k |} :: r) s
                            | [] => s end)) d true e d false e.
Proof.
  apply kj_intro; [apply Keepk_kill_key|]. intros pre s a s' E _ [J0 HJ]. inversion E; subst.
  destruct (sc_sks s) as [|k r] eqn:Es.
  - split; [exact J0|]. rewrite Es. exact HJ.
  - split; [exact J0|]. vw. apply (JV_kill _ _ _ k r). exact HJ.
Qed.

(* ---- indentation ---- *)
Lemma kj_roll_one_col_indent d k e : kj (@roll_one_col_indent I) d k e d k e.
Proof.
  apply kj_intro; [apply Keepk_roll_one_col_indent|]. intros pre s a s' E _ HJ.
  unfold roll_one_col_indent, bind, get, put, ret in E. destruct (_ && _); inversion E; subst; [|exact HJ].
  eapply J_view; [..|exact HJ]; reflexivity.
Qed.

Lemma nb_cons i r : nb (i :: r) = (if in_needs_block_end i then 1 else 0) + nb r.
Proof. unfold nb. cbn. destruct (in_needs_block_end i); reflexivity. Qed.

Lemma kj_unroll_indent_go fuel col k e : kj (@unroll_indent_go I fuel col) 0 k e 0 k e.
Proof.
  induction fuel as [|fuel IH]; cbn [unroll_indent_go]; [apply kj_oof|].
  intros pre s a s' [HB HJ] E. unfold bind at 1, get at 1 in E.
  destruct (col <? sc_indent s)%Z; [|inversion E; subst; split; assumption].
  destruct (sc_indents s) as [|i r] eqn:EI; [discriminate|].
  unfold bind at 1, put at 1 in E.
  assert (HB1 : SkB (set_indent (in_indent i) r s)).
  { destruct HB as (B1 & B2 & B3). unfold SkB. vw. rewrite EI in B3. cbn in B3. tauto. }
  destruct HJ as [J0 HJ]. rewrite EI, nb_cons in HJ.
  destruct (in_needs_block_end i) eqn:Eb.
  - unfold bind at 1 in E.
    assert (H1 : JB pre 1 k e (set_indent (in_indent i) r s)).
    { split; [exact HB1|]. split; [exact J0|]. vw. eapply JV_state; [exact HJ|..]; try apply HJ.
      - unfold cur. lia.
      - destruct HJ as (_ & _ & _ & D1 & _). lia. }
    destruct (push_tok (span_empty (sc_mark s), TBlockEnd) (set_indent (in_indent i) r s)) as [[u s2]| | |] eqn:E2; try discriminate.
    pose proof (kj_push_close (span_empty (sc_mark s), TBlockEnd) k e eq_refl eq_refl pre _ _ _ H1 E2) as H2.
    eapply IH; [exact H2|exact E].
  - unfold bind at 1, ret at 1 in E. eapply IH; [|exact E]. split; [exact HB1|]. split; [exact J0|]. vw. exact HJ.
Qed.

Lemma kj_unroll_indent col k e : kj (@unroll_indent I col) 0 k e 0 k e.
Proof.
  intros pre s a s' H E. unfold unroll_indent in E. unfold bind at 1, get at 1 in E.
  destruct (0 <? sc_flow_level s)%N; [inversion E; subst; exact H|]. eapply kj_unroll_indent_go; eauto.
Qed.

(* the (indent, indents) pair roll_indent continues with: a non-block entry on top may have been dropped *)
Lemma roll_pair_nb (s : st) col p :
  p = (if (sc_indent s <=? Z.of_N col)%Z
       then match sc_indents s with
            | i :: r => if negb (in_needs_block_end i) then (in_indent i, r) else (sc_indent s, sc_indents s)
            | [] => (sc_indent s, sc_indents s)
            end
       else (sc_indent s, sc_indents s)) -> nb (snd p) = nb (sc_indents s).
Proof.
  intros ->. destruct (_ <=? _)%Z; [|reflexivity]. destruct (sc_indents s) as [|i r]; [reflexivity|].
  destruct (in_needs_block_end i) eqn:E; cbn [negb snd]; [reflexivity|]. rewrite nb_cons, E. reflexivity.
Qed.

Lemma kj_roll_indent_none col tk mk : tok_open tk = true -> kj (@roll_indent I col None tk mk) 0 false 0 0 false 0.
Proof.
  intros Ho. apply kj_intro; [apply Keepk_roll_indent|]. intros pre s a s' E (_ & HL & _) [J0 HJ].
  unfold roll_indent in E. unfold bind at 1, get at 1 in E.
  destruct (0 <? sc_flow_level s)%N; [inversion E; subst; split; assumption|].
  pose proof (roll_pair_nb s col _ eq_refl) as HN.
  destruct (if (sc_indent s <=? Z.of_N col)%Z then _ else _) as [ind inds]. cbn [snd] in HN.
  destruct (ind <? Z.of_N col)%Z.
  - destruct (BLOCK_NESTING_MAX <=? N.of_nat (length inds))%N eqn:EL; [discriminate|]. apply N.leb_gt in EL.
    unfold bind, put, push_tok, modify in E. inversion E; subst. split; [exact J0|]. vw. rewrite app_assoc.
    change 0%Z with (-1 + 1)%Z at 1. apply JV_push_open; try assumption; try lia.
    eapply JV_state; [exact HJ|..]; try apply HJ.
    + rewrite nb_cons. cbn [in_needs_block_end]. rewrite HN. unfold cur. lia.
    + rewrite nb_cons. cbn [in_needs_block_end]. pose proof (nb_le inds). unfold NB. lia.
  - unfold put in E. inversion E; subst. eapply J_view; [..|split; [exact J0|exact HJ]]; try reflexivity. vw. exact HN.
Qed.

(* ---- the implicit-flow-mapping stack and the flow level ---- *)
Lemma ni_cons x r : ni (x :: r) = (if is_inside x then 1 else 0) + ni r.
Proof. unfold ni. cbn. destruct (is_inside x); reflexivity. Qed.

Lemma kj_end_implicit_mapping mk d k e : (0 <= d)%Z -> kj (@end_implicit_mapping I mk) d k e d k e.
Proof.
  intros Hd. apply kj_intro; [apply Keepk_end_implicit_mapping|]. intros pre s a s' E _ [J0 HJ].
  unfold end_implicit_mapping in E. unfold bind at 1, get at 1 in E.
  destruct (sc_ifms s) as [|[| | |] r] eqn:Ei; try (inversion E; subst; split; [exact J0|rewrite Ei; exact HJ]).
  - unfold bind, put, push_tok, modify in E. inversion E; subst. split; [exact J0|]. vw. rewrite app_assoc.
    apply JV_push_close; [reflexivity|reflexivity| |].
    + pose proof (cur_nonneg (nb (sc_indents s)) (sc_flow_level s) (ImPossible :: r)). lia.
    + eapply JV_state; [exact HJ|..]; try apply HJ.
      unfold cur. rewrite !ni_cons. cbn [is_inside]. lia.
  - unfold put in E. inversion E; subst. split; [exact J0|]. vw.
    eapply JV_state; [exact HJ|..]; try apply HJ.
    unfold cur. rewrite !ni_cons. cbn [is_inside]. lia.
Qed.

Lemma kj_increase : kj (@increase_flow_level I) 0 false 0 (-1) false (-1).
Proof.
  intros pre s a s' [HB [J0 HJ]] E. unfold increase_flow_level, bind, get, put in E.
  destruct (sc_flow_level s =? FLOW_LEVEL_MAX)%N eqn:EM; [discriminate|]. apply N.eqb_neq in EM. inversion E; subst. split.
  - destruct HB as (B1 & B2 & B3). unfold SkB. vw. cbn [length]. repeat split; auto. lia.
  - split; [exact J0|]. vw.
    eapply JV_state; [eapply JV_sks; [..|exact HJ]|..].
    + intros i. cbn [eff]. rewrite phi_cons. unfold kcount. cbn. lia.
    + intros n H. cbn. exact H.
    + unfold cur. lia.
    + apply HJ.
    + destruct HJ as (_ & _ & _ & _ & D2 & _). lia.
    + destruct HJ as (_ & _ & _ & _ & _ & D3). lia.
Qed.

Lemma kj_decrease : kj (@decrease_flow_level I) 0 false 0 1 false 1.
Proof.
  intros pre s a s' [HB [J0 HJ]] E. unfold decrease_flow_level, bind, get, put, ret, panic in E.
  destruct (0 <? sc_flow_level s)%N eqn:EM.
  - apply N.ltb_lt in EM. destruct (sc_sks s) as [|k r] eqn:Es; [discriminate|]. inversion E; subst. split.
    + destruct HB as (B1 & B2 & B3). unfold SkB. vw. rewrite Es in B2. cbn [length] in B2. repeat split; auto. lia.
    + split; [exact J0|]. vw.
      eapply JV_state; [eapply (JV_sks _ _ _ _ (k :: r) r); [..|exact HJ]|..].
      * intros i. cbn [eff]. apply (phi_tl_le (k :: r)).
      * intros n. apply sk_ok_tl.
      * unfold cur. lia.
      * apply HJ.
      * destruct HJ as (_ & _ & _ & _ & D2 & _). lia.
      * destruct HJ as (_ & _ & _ & _ & _ & D3). lia.
  - inversion E; subst. split; [exact HB|]. split; [exact J0|].
    eapply JV_state; [exact HJ|..]; try apply HJ; [lia|]. destruct HJ as (_ & _ & _ & _ & _ & D3). lia.
Qed.

Lemma kj_push_ifms x d k : is_inside x = false -> kj (modify (fun s : st => set_ifms (x :: sc_ifms s) s)) d k (-1) d k 0.
Proof.
  intros Hx pre s a s' [HB [J0 HJ]] E. inversion E; subst. split; [exact HB|]. split; [exact J0|]. vw.
  eapply JV_state; [exact HJ|..]; try apply HJ.
  - unfold cur. rewrite ni_cons, Hx. lia.
  - destruct HJ as (_ & _ & _ & _ & _ & D3). cbn [length]. lia.
Qed.

Definition hd_inside (l : list ims) : bool := match l with ImInside :: _ => true | _ => false end.
Lemma pop_ifms_J pre d k (s : st) :
  hd_inside (sc_ifms s) = false -> JB pre d k 1 s -> JB pre d k 0 (set_ifms (tl (sc_ifms s)) s).
Proof.
  intros Hh [HB [J0 HJ]]. split; [exact HB|]. split; [exact J0|]. vw.
  eapply JV_state; [exact HJ|..]; try apply HJ.
  - unfold cur. destruct (sc_ifms s) as [|x r]; cbn [tl]; [lia|]. rewrite ni_cons. destruct x; try discriminate; cbn [is_inside]; lia.
  - destruct HJ as (_ & _ & _ & _ & _ & D3). destruct (sc_ifms s); cbn [length tl] in *; lia.
Qed.

(* ------------------------------------------------------------------------------------------------ *)
(* 3. the token-producing scanners return a token that is not a collection start                      *)
(* ------------------------------------------------------------------------------------------------ *)
Definition retn (m : M token) : Prop := forall s t s', m s = Ok (t, s') -> tok_open (snd t) = false.
Lemma retn_bind {A} (m : M A) (f : A -> M token) : (forall a, retn (f a)) -> retn (bind m f).
Proof.
  intros Hf s t s' H. unfold bind in H. destruct (m s) as [[a s1]| | |]; try discriminate. eapply Hf; exact H.
Qed.
Lemma retn_ret t : tok_open (snd t) = false -> retn (ret t).
Proof. intros Ht s x s' H. inversion H; subst. exact Ht. Qed.
Lemma retn_fail x mk : retn (fail x mk).
Proof. intros s t s' H. discriminate. Qed.
Lemma retn_panic n : retn (panic n).
Proof. intros s t s' H. discriminate. Qed.
Lemma retn_oof : retn oof.
Proof. intros s t s' H. discriminate. Qed.

Ltac retn1 :=
  lazymatch goal with
  | |- retn (bind _ _) => apply retn_bind; intros ?
  | |- retn (ret _) => apply retn_ret; first [reflexivity | assumption]
  | |- retn (fail _ _) => apply retn_fail
  | |- retn (panic _) => apply retn_panic
  | |- retn oof => apply retn_oof
  | |- retn (match ?x with _ => _ end) => destruct x
  | |- retn _ => solve [eauto 3 with retn]
  end.
Ltac retn_go := repeat (lazy zeta; retn1).

Variable F : nat.

Lemma retn_scan_tag : retn (scan_tag ops F).
Proof. unfold scan_tag. retn_go. Qed.
Lemma retn_scan_anchor alias : retn (scan_anchor ops F alias).
Proof. unfold scan_anchor. destruct alias; retn_go. Qed.
Lemma retn_scan_version_directive_value mk : retn (scan_version_directive_value ops F mk).
Proof. unfold scan_version_directive_value. retn_go. Qed.
Lemma retn_scan_tag_directive_value mk : retn (scan_tag_directive_value ops F mk).
Proof. unfold scan_tag_directive_value. retn_go. Qed.
Hint Resolve retn_scan_version_directive_value retn_scan_tag_directive_value : retn.
Lemma retn_bind_tok (m : M token) (g : token -> M token) :
  retn m -> (forall tk, tok_open (snd tk) = false -> retn (g tk)) -> retn (bind m g).
Proof.
  intros Hm Hg s t s' H. unfold bind in H. destruct (m s) as [[tk s1]| | |] eqn:E; try discriminate.
  eapply Hg; [eapply Hm; exact E|exact H].
Qed.
Lemma retn_scan_directive : retn (scan_directive ops F).
Proof.
  unfold scan_directive. apply retn_bind; intros start. apply retn_bind; intros _. apply retn_bind; intros name.
  apply retn_bind_tok; [retn_go|]. intros tk Htk. retn_go.
Qed.
Lemma retn_scan_flow_scalar single : retn (scan_flow_scalar ops F single).
Proof. unfold scan_flow_scalar. destruct single; retn_go. Qed.
Lemma retn_scan_plain_scalar : retn (scan_plain_scalar ops F).
Proof. unfold scan_plain_scalar. retn_go. Qed.
Lemma retn_scan_block_scalar literal : retn (scan_block_scalar ops F literal).
Proof. unfold scan_block_scalar. destruct literal; retn_go. Qed.

Lemma kj_bind_tok (m : M token) (f : token -> M unit) d k e d' k' e' :
  Fr m -> retn m -> (forall t, tok_open (snd t) = false -> kj (f t) d k e d' k' e') -> kj (bind m f) d k e d' k' e'.
Proof.
  intros Hm Hk Hf pre s b s' H E. unfold bind in E. destruct (m s) as [[t s1]| | |] eqn:E1; try discriminate.
  eapply Hf; [eapply Hk; exact E1| |exact E]. eapply (kj_Fr m d k e Hm); [exact H|exact E1].
Qed.

(* ------------------------------------------------------------------------------------------------ *)
(* 4. Model/SFetch.v                                                                                  *)
(* ------------------------------------------------------------------------------------------------ *)
Create HintDb kj.
Hint Resolve kj_allow kj_disallow kj_save_simple_key kj_remove_simple_key kj_stale_simple_keys kj_roll_one_col_indent
  kj_unroll_indent kj_increase kj_decrease : kj.
Hint Extern 1 (kj (end_implicit_mapping _) _ _ _ _ _ _) => apply kj_end_implicit_mapping; lia : kj.
Hint Extern 1 (kj (roll_indent _ None _ _) _ _ _ _ _ _) => apply kj_roll_indent_none; reflexivity : kj.

Ltac kj1 :=
  lazymatch goal with
  | |- kj (bind _ _) _ _ _ _ _ _ => eapply kj_bind; [kj1|intros ?]
  | |- kj (ret _) _ _ _ _ _ _ => apply kj_ret
  | |- kj (fail _ _) _ _ _ _ _ _ => apply kj_fail
  | |- kj (panic _) _ _ _ _ _ _ => apply kj_panic
  | |- kj oof _ _ _ _ _ _ => apply kj_oof
  | |- kj get _ _ _ _ _ _ => apply kj_get
  | |- kj (gets _) _ _ _ _ _ _ => apply kj_gets
  | |- kj (push_tok _) (-1)%Z _ _ _ _ _ => apply kj_push_open; first [reflexivity | match goal with |- context [if ?b then _ else _] => destruct b; reflexivity end]
  | |- kj (push_tok _) 1%Z _ _ _ _ _ => apply kj_push_close; first [reflexivity | match goal with |- context [if ?b then _ else _] => destruct b; reflexivity end]
  | |- kj (push_tok _) _ _ _ _ _ _ => apply kj_push_nonopen; first [reflexivity | assumption | match goal with |- context [if ?b then _ else _] => destruct b; reflexivity end]
  | |- kj (match ?x with _ => _ end) _ _ _ _ _ _ => destruct x
  | |- kj _ _ _ _ _ _ _ => first [ solve [eauto 2 with kj] | apply kj_Fr; solve [auto with fr] ]
  end.
Ltac kj_go := repeat (lazy zeta; kj1).

Lemma kj_fetch_directive : kj (fetch_directive ops F) 0 false 0 0 false 0.
Proof.
  unfold fetch_directive. do 3 (eapply kj_bind; [solve [eauto 2 with kj]|intros _]).
  apply kj_bind_tok; [apply Fr_scan_directive|apply retn_scan_directive|]. intros t Ht. kj_go.
Qed.
Lemma kj_fetch_tag : kj (fetch_tag ops F) 0 false 0 0 false 0.
Proof.
  unfold fetch_tag. do 2 (eapply kj_bind; [solve [eauto 2 with kj]|intros _]).
  apply kj_bind_tok; [apply Fr_scan_tag|apply retn_scan_tag|]. intros t Ht. kj_go.
Qed.
Lemma kj_fetch_anchor alias : kj (fetch_anchor ops F alias) 0 false 0 0 false 0.
Proof.
  unfold fetch_anchor. do 2 (eapply kj_bind; [solve [eauto 2 with kj]|intros _]).
  apply kj_bind_tok; [apply Fr_scan_anchor|apply retn_scan_anchor|]. intros t Ht. kj_go.
Qed.
Lemma kj_fetch_block_scalar literal : kj (fetch_block_scalar ops F literal) 0 false 0 0 false 0.
Proof.
  unfold fetch_block_scalar. do 2 (eapply kj_bind; [solve [eauto 2 with kj]|intros _]).
  apply kj_bind_tok; [apply Fr_scan_block_scalar|apply retn_scan_block_scalar|]. intros t Ht. kj_go.
Qed.
Lemma kj_set_adj d k e : kj (modify (fun s : st => set_adj (m_index (sc_mark s)) s)) d k e d k e.
Proof. apply kj_modify_view. intros s. unfold vsame; cbn. auto 10. Qed.
Hint Resolve kj_set_adj : kj.
Lemma kj_fetch_flow_scalar single : kj (fetch_flow_scalar ops F single) 0 false 0 0 false 0.
Proof.
  unfold fetch_flow_scalar. do 2 (eapply kj_bind; [solve [eauto 2 with kj]|intros _]).
  apply kj_bind_tok; [apply Fr_scan_flow_scalar|apply retn_scan_flow_scalar|]. intros t Ht. kj_go.
Qed.
Lemma kj_fetch_plain_scalar : kj (fetch_plain_scalar ops F) 0 false 0 0 false 0.
Proof.
  unfold fetch_plain_scalar. do 2 (eapply kj_bind; [solve [eauto 2 with kj]|intros _]).
  apply kj_bind_tok; [apply Fr_scan_plain_scalar|apply retn_scan_plain_scalar|]. intros t Ht. kj_go.
Qed.
Lemma kj_fetch_flow_entry : kj (fetch_flow_entry ops F) 0 false 0 0 false 0.
Proof. unfold fetch_flow_entry. kj_go. Qed.
Lemma kj_fetch_block_entry : kj (fetch_block_entry ops F) 0 false 0 0 false 0.
Proof. unfold fetch_block_entry. kj_go. Qed.
Lemma kj_fetch_document_indicator t : tok_open t = false -> kj (fetch_document_indicator ops t) 0 false 0 0 false 0.
Proof. intros Ht. unfold fetch_document_indicator. kj_go. Qed.

Lemma kj_fetch_stream_end : kj (fetch_stream_end (I:=I)) 0 false 0 0 false 0.
Proof.
  unfold fetch_stream_end.
  eapply kj_bind; [apply kj_modify_view; intros s; destruct (_ =? _)%N; unfold vsame; cbn; auto 10|intros _].
  intros pre s a s' H E. unfold bind at 1, get at 1 in E. destruct (existsb _ _); [discriminate|].
  unfold bind at 1, put at 1 in E.
  match type of E with ?m ?s1 = _ =>
    assert (H1 : JB pre 0 false 0 s1);
    [|assert (HR : kj m 0 false 0 0 false 0) by kj_go; exact (HR pre _ _ _ H1 E)] end.
  destruct H as [HB HJ]. split.
  - destruct HB as (B1 & B2 & B3). unfold SkB. vw. rewrite map_length. auto.
  - apply J_wk; [|exact HJ]. apply wk_map. intros k. apply wk1_kill.
Qed.

Lemma kj_key_ifms d k e :
  kj (modify (fun s : st => match sc_ifms s with
                            | ImPossible :: r => set_ifms (ImInsideExplicitKey :: r) s
                            | _ => s end)) d k e d k e.
Proof.
  apply kj_intro; [apply Keepk_key_ifms|]. intros pre s a s' E _ [J0 HJ]. inversion E; subst.
  destruct (sc_ifms s) as [|[| | |] r] eqn:Ei; try (split; [exact J0|rewrite Ei; exact HJ]).
  split; [exact J0|]. vw. eapply JV_state; [exact HJ|..]; try apply HJ. unfold cur. rewrite !ni_cons. cbn [is_inside]. lia.
Qed.
Hint Resolve kj_key_ifms : kj.
Lemma kj_fetch_key : kj (fetch_key ops F) 0 false 0 0 false 0.
Proof. unfold fetch_key. kj_go. Qed.

Lemma kj_fetch_flow_collection_start seq : kj (fetch_flow_collection_start ops F seq) 0 false 0 0 false 0.
Proof.
  unfold fetch_flow_collection_start.
  do 6 (eapply kj_bind; [kj1|intros ?]).
  eapply kj_bind; [apply kj_push_ifms; destruct seq; reflexivity|intros ?]. kj_go.
Qed.

(* ---- fetch_flow_collection_end: the closer is checked against the level it closes (/repo 88700d3), so the entry that
        is popped from sc_ifms is never ImInside ---- *)
Definition same_ifms {A} (m : M A) : Prop := forall s a s', m s = Ok (a, s') -> sc_ifms s' = sc_ifms s.
Lemma same_ifms_remove : same_ifms (@remove_simple_key I).
Proof.
  intros s a s' E. unfold remove_simple_key, bind, get, put, fail, panic in E.
  destruct (sc_sks s); [discriminate|]. destruct (_ && _); [discriminate|]. inversion E; subst. reflexivity.
Qed.
Lemma same_ifms_decrease : same_ifms (@decrease_flow_level I).
Proof.
  intros s a s' E. unfold decrease_flow_level, bind, get, put, ret, panic in E.
  destruct (0 <? _)%N; [destruct (sc_sks s); [discriminate|]|]; inversion E; subst; reflexivity.
Qed.
Lemma same_ifms_disallow : same_ifms (@disallow_simple_key I).
Proof. intros s a s' E. inversion E; subst. reflexivity. Qed.

Lemma Tr_keep_ifms {A} (m : M A) pre d k e d' k' e' (Q : list ims -> Prop) :
  kj m d k e d' k' e' -> same_ifms m ->
  Tr (fun s => JB pre d k e s /\ Q (sc_ifms s)) m (fun _ s => JB pre d' k' e' s /\ Q (sc_ifms s)).
Proof. intros Hk Hs s a s' [HJ HQ] E. split; [eapply Hk; eauto|]. rewrite (Hs _ _ _ E). exact HQ. Qed.

Lemma Tr_check_flow_closer seq pre :
  Tr (JB pre 0 false 0) (@check_flow_closer I seq)
     (fun _ s => JB pre 0 false 0 s /\ (seq = false -> hd_inside (sc_ifms s) = false)).
Proof.
  intros s a s' HJ E. unfold check_flow_closer, bind, get in E.
  destruct (sc_ifms s) as [|x r] eqn:Ei.
  - inversion E; subst. split; [exact HJ|]. rewrite Ei. reflexivity.
  - cbv zeta in E. destruct (Bool.eqb _ _) eqn:Eb; [|discriminate]. inversion E; subst. split; [exact HJ|].
    intros ->. rewrite Ei. destruct x; cbn in *; try discriminate; reflexivity.
Qed.

Lemma end_implicit_hd mk (s : st) a s' : end_implicit_mapping mk s = Ok (a, s') -> hd_inside (sc_ifms s') = false.
Proof.
  unfold end_implicit_mapping. unfold bind at 1, get at 1.
  destruct (sc_ifms s) as [|[| | |] r] eqn:Ei; unfold bind, put, push_tok, modify, ret; intros H; inversion H; subst; vw;
    try reflexivity; rewrite Ei; reflexivity.
Qed.

Lemma kj_adj_if d k e :
  kj (modify (fun s : st => if (0 <? sc_flow_level s)%N then set_adj (m_index (sc_mark s)) s else s)) d k e d k e.
Proof. apply kj_modify_view. intros s. destruct (_ <? _)%N; unfold vsame; cbn; auto 10. Qed.
Hint Resolve kj_adj_if : kj.

Lemma kj_fetch_flow_collection_end seq : kj (fetch_flow_collection_end ops F seq) 0 false 0 0 false 0.
Proof.
  unfold fetch_flow_collection_end. intros pre.
  set (Q := fun l : list ims => seq = false -> hd_inside l = false).
  eapply Tr_bind; [apply (Tr_check_flow_closer seq pre)|intros ?; cbv beta].
  eapply Tr_bind; [apply (Tr_keep_ifms _ pre _ _ _ _ _ _ Q (kj_remove_simple_key 0 0) same_ifms_remove)|intros ?; cbv beta].
  eapply Tr_bind; [apply (Tr_keep_ifms _ pre _ _ _ _ _ _ Q kj_decrease same_ifms_decrease)|intros ?; cbv beta].
  eapply Tr_bind; [apply (Tr_keep_ifms _ pre _ _ _ _ _ _ Q (kj_disallow 1 false 1) same_ifms_disallow)|intros ?; cbv beta].
  eapply Tr_bind with (R := fun _ s => JB pre 1 false 1 s /\ hd_inside (sc_ifms s) = false).
  { destruct seq.
    - intros s x s' [HJ _] E. unfold bind at 1, mark, gets in E.
      split; [eapply (kj_end_implicit_mapping (sc_mark s) 1 false 1); [lia|exact HJ|exact E]|eapply end_implicit_hd; exact E].
    - intros s x s' [HJ HQ] E. inversion E; subst. split; [exact HJ|apply HQ; reflexivity]. }
  intros ?; cbv beta.
  eapply Tr_bind with (R := fun _ => JB pre 1 false 0).
  { intros s x s' [HJ Hh] E. inversion E; subst. apply pop_ifms_J; assumption. }
  intros ?; cbv beta.
  match goal with |- Tr _ ?m _ => assert (HR : kj m 1 false 0 0 false 0) by kj_go; apply HR end.
Qed.

(* ---- fetch_value: the only place where a collection start is inserted in the middle of the queue ---- *)
Lemma J_kt_weaken pre d e (s : st) : J pre d false e s -> J pre d true e s.
Proof. intros [J0 HJ]. split; [exact J0|apply JV_kt_weaken; exact HJ]. Qed.

Lemma insert_J_plain pre d e (s : st) sk r t l :
  sc_sks s = sk :: r -> sk_possible sk = true -> (sc_tokens_parsed s <= sk_token_number sk)%N ->
  insert_at (N.to_nat (sk_token_number sk - sc_tokens_parsed s)) t (sc_tokens s) = Some l ->
  tok_open (snd t) = false -> tok_close (snd t) = false ->
  J pre d false e s -> J pre d false e (set_tokens l s).
Proof.
  intros Es Hp Hle Hi Ho Hc [J0 HJ]. destruct (insert_at_split _ _ _ _ Hi) as (a0 & b0 & Et & -> & Hl).
  split; [exact J0|]. vw. rewrite Et in HJ. rewrite app_assoc in HJ |- *.
  assert (EK : kpos sk = length (pre ++ a0)) by (unfold kpos; rewrite app_length; lia).
  apply JV_insert_plain; try assumption.
  intros k Hin Hk. cbn [eff] in Hin. rewrite Es in Hin.
  destruct Hin as [<-|Hin]; [lia|]. rewrite <- EK. destruct HJ as (_ & _ & C & _). rewrite Es in C. eapply sk_ok_below; eauto.
Qed.

Lemma insert_J_open pre d e (s : st) sk r t l :
  sc_sks s = sk :: r -> sk_possible sk = true -> (sc_tokens_parsed s <= sk_token_number sk)%N ->
  insert_at (N.to_nat (sk_token_number sk - sc_tokens_parsed s)) t (sc_tokens s) = Some l ->
  tok_open (snd t) = true ->
  J pre d false e s -> J pre (d + 1) true e (set_tokens l s).
Proof.
  intros Es Hp Hle Hi Ho [J0 HJ]. destruct (insert_at_split _ _ _ _ Hi) as (a0 & b0 & Et & -> & Hl).
  split; [exact J0|]. vw. rewrite Et in HJ. rewrite app_assoc in HJ |- *. rewrite Es in HJ |- *.
  assert (EK : kpos sk = length (pre ++ a0)) by (unfold kpos; rewrite app_length; lia).
  apply JV_insert_open; assumption.
Qed.

Lemma roll_indent_some_J pre (s : st) a s' sk r col mk :
  roll_indent col (Some (sk_token_number sk)) TBlockMappingStart mk s = Ok (a, s') ->
  sc_sks s = sk :: r -> sk_possible sk = true ->
  (J pre 0 false 0 s \/ (J pre 0 true 0 s /\ (0 < sc_flow_level s)%N)) ->
  J pre 0 true 0 s' /\ sc_sks s' = sc_sks s /\ sc_flow_level s' = sc_flow_level s.
Proof.
  intros E Es Hp HJ. unfold roll_indent in E. unfold bind at 1, get at 1 in E.
  destruct (0 <? sc_flow_level s)%N eqn:EF.
  - inversion E; subst. split; [|split; reflexivity].
    destruct HJ as [HJ|[HJ _]]; [apply J_kt_weaken; exact HJ|exact HJ].
  - apply N.ltb_ge in EF. destruct HJ as [[J0 HJ]|[_ HF]]; [|lia].
    pose proof (roll_pair_nb s col _ eq_refl) as HN.
    destruct (if (sc_indent s <=? Z.of_N col)%Z then _ else _) as [ind inds]. cbn [snd] in HN.
    destruct (ind <? Z.of_N col)%Z.
    + destruct (BLOCK_NESTING_MAX <=? N.of_nat (length inds))%N eqn:EL; [discriminate|]. apply N.leb_gt in EL.
      unfold bind at 1, put at 1 in E.
      destruct (sk_token_number sk <? sc_tokens_parsed s)%N eqn:EP; [discriminate|]. apply N.ltb_ge in EP.
      unfold insert_token in E. vwin E.
      destruct (insert_at _ _ _) as [l|] eqn:Ei; [|discriminate]. inversion E; subst. split; [|split; reflexivity].
      change 0%Z with (-1 + 1)%Z at 1.
      eapply (insert_J_open pre (-1) 0 _ sk r _ l); vw; try eassumption; [reflexivity|].
      split; [exact J0|]. vw. eapply JV_state; [exact HJ|..]; try apply HJ.
      * rewrite nb_cons. cbn [in_needs_block_end]. rewrite HN. unfold cur. lia.
      * rewrite nb_cons. cbn [in_needs_block_end]. pose proof (nb_le inds). unfold NB. lia.
    + unfold put in E. inversion E; subst. split; [|split; reflexivity]. apply J_kt_weaken.
      eapply J_view; [..|split; [exact J0|exact HJ]]; try reflexivity. vw. exact HN.
Qed.

Ltac bstep E E1 a s1 :=
  unfold bind at 1 in E;
  match type of E with (match ?m ?s with _ => _ end) = _ => destruct (m s) as [[a s1]| | |] eqn:E1; try discriminate end.

Lemma step_Fr {A} (m : M A) pre d k e (x : st) a y sks fl :
  Fr m -> m x = Ok (a, y) -> JB pre d k e x /\ sc_sks x = sks /\ sc_flow_level x = fl ->
  JB pre d k e y /\ sc_sks y = sks /\ sc_flow_level y = fl.
Proof.
  intros HF E (HJ & H1 & H2). split; [eapply (kj_Fr m d k e HF); eauto|].
  destruct (HF _ _ _ E) as (F1 & F2 & _). rewrite F1, F2. auto.
Qed.

Lemma kj_fetch_value : kj (fetch_value ops F) 0 false 0 0 false 0.
Proof.
  intros pre s a s' [HB HJ] E. unfold fetch_value in E. unfold bind at 1, get at 1 in E.
  destruct (sc_sks s) as [|sk r] eqn:Es; [discriminate|]. unfold bind at 1, ret at 1 in E. cbv zeta in E.
  remember (match sc_ifms s with ImPossible :: _ => true | _ => false end) as bs eqn:Ebs.
  bstep E E1 u1 s1.
  assert (Hfl : bs = true -> (0 < sc_flow_level s)%N).
  { intros ->. destruct HJ as (_ & _ & _ & _ & _ & _ & D3). destruct (sc_ifms s) as [|[| | |] ri]; try discriminate.
    cbn [length] in D3. lia. }
  assert (H1 : JB pre (if bs then -1 else 0) false 0 s1 /\ sc_sks s1 = sk :: r /\ sc_flow_level s1 = sc_flow_level s).
  { destruct bs.
    - inversion E1; subst. split; [|split; [exact Es|reflexivity]]. split; [exact HB|]. destruct HJ as [J0 HJ].
      split; [exact J0|]. vw. destruct (sc_ifms s) as [|[| | |] ri]; try discriminate. cbn [tl].
      eapply JV_state; [exact HJ|..]; try apply HJ. unfold cur. rewrite !ni_cons. cbn [is_inside]. lia.
    - inversion E1; subst. split; [split; assumption|split; [exact Es|reflexivity]]. }
  clear E1 HJ HB.
  bstep E E2 u2 s2. apply (step_Fr _ _ _ _ _ _ _ _ _ _ (Fr_skip_non_blank ops) E2) in H1. clear E2.
  bstep E E3 c s3.
  assert (H3 : Fr (if (sc_flow_level s =? 0)%N then look_ch ops else ret 0%N)) by (destruct (_ =? _)%N; auto with fr).
  apply (step_Fr _ _ _ _ _ _ _ _ _ _ H3 E3) in H1. clear E3 H3.
  bstep E E4 u4 s4.
  match type of E4 with ?m _ = _ => assert (H4 : Fr m) by fr end.
  apply (step_Fr _ _ _ _ _ _ _ _ _ _ H4 E4) in H1. clear E4 H4.
  destruct H1 as ([HB4 HJ4] & Es4 & Ef4).
  destruct (sk_possible sk) eqn:Hp.
  - (* the key is possible: Key (and the collection starts) are inserted at its position *)
    unfold bind at 1, get at 1 in E.
    destruct (sk_token_number sk <? sc_tokens_parsed s4)%N eqn:EP; [discriminate|]. apply N.ltb_ge in EP.
    unfold bind at 1, ret at 1 in E.
    bstep E E5 u5 s5. unfold insert_token in E5.
    destruct (insert_at _ _ (sc_tokens s4)) as [l5|] eqn:Ei5; [|discriminate]. inversion E5; subst u5 s5. clear E5.
    pose proof (insert_J_plain pre _ 0 s4 sk r _ l5 Es4 Hp EP Ei5 eq_refl eq_refl HJ4) as HJ5.
    assert (HB5 : SkB (set_tokens l5 s4)) by exact HB4.
    bstep E E6 u6 s6.
    assert (H6 : SkB s6 /\ sc_sks s6 = sk :: r /\ sc_flow_level s6 = sc_flow_level s
                 /\ (J pre 0 false 0 s6 \/ (J pre 0 true 0 s6 /\ (0 < sc_flow_level s6)%N))).
    { destruct bs.
      - cbn [orb] in E6. destruct (_ || _) in E6; [discriminate|]. unfold insert_token in E6. vwin E6.
        destruct (insert_at _ _ l5) as [l6|] eqn:Ei6; [|discriminate]. inversion E6; subst u6 s6.
        split; [exact HB4|]. split; [exact Es4|]. split; [exact Ef4|]. right. split; [|vw; rewrite Ef4; auto].
        change 0%Z with (-1 + 1)%Z at 1.
        apply (insert_J_open pre (-1) 0 (set_tokens l5 s4) sk r _ l6 Es4 Hp EP Ei6 eq_refl HJ5).
      - assert (s6 = set_tokens l5 s4).
        { cbn [orb] in E6. destruct (match sc_ifms s with ImInside :: _ => true | _ => false end);
            [destruct (_ || _) in E6; [discriminate|]|]; inversion E6; reflexivity. }
        subst s6. split; [exact HB4|]. split; [exact Es4|]. split; [exact Ef4|]. left. exact HJ5. }
    clear E6 HJ5 HB5 HJ4. destruct H6 as (HB6 & Es6 & Ef6 & HJ6).
    bstep E E7 u7 s7.
    destruct (roll_indent_some_J pre s6 u7 s7 sk r _ _ E7 Es6 Hp HJ6) as (HJ7 & Es7 & Ef7).
    pose proof (Keepk_roll_indent _ _ _ _ _ _ _ HB6 E7) as (HB7 & _).
    match type of E with ?m _ = _ => assert (HR : kj m 0 true 0 0 false 0) end.
    { eapply kj_bind; [apply kj_roll_one_col_indent|intros ?]. eapply kj_bind; [apply kj_kill_key|intros ?]. kj_go. }
    exact (HR pre _ _ _ (conj HB7 HJ7) E).
  - (* no candidate: the tokens are pushed at the end of the queue *)
    match type of E with ?m _ = _ => assert (HR : kj m (if bs then -1 else 0) false 0 0 false 0) end.
    { destruct bs; cbv iota; kj_go. }
    exact (HR pre _ _ _ (conj HB4 HJ4) E).
Qed.
Hint Resolve kj_fetch_value : kj.

Lemma kj_fetch_flow_value : kj (fetch_flow_value ops F) 0 false 0 0 false 0.
Proof. unfold fetch_flow_value. kj_go. Qed.

(* ------------------------------------------------------------------------------------------------ *)
(* 5. fetch_next_token, fetch_more_tokens, next_token, the Scanner iterator                            *)
(* ------------------------------------------------------------------------------------------------ *)
Hint Resolve kj_fetch_stream_end kj_fetch_directive kj_fetch_flow_collection_start kj_fetch_flow_collection_end
  kj_fetch_flow_entry kj_fetch_block_entry kj_fetch_key kj_fetch_flow_value kj_fetch_anchor kj_fetch_tag
  kj_fetch_block_scalar kj_fetch_flow_scalar kj_fetch_plain_scalar : kj.
Hint Extern 1 (kj (fetch_document_indicator _ _) _ _ _ _ _ _) => apply kj_fetch_document_indicator; reflexivity : kj.

(* before StreamStart the skeleton is empty; [Inv] is what holds between two calls of next_token *)
Definition Inv (pre : list token) (s : st) : Prop := SkInv s /\ J pre 0 false 0 s.

Lemma J_frame pre d k e (s s' : st) : frame s s' -> J pre d k e s -> J pre d k e s'.
Proof.
  intros (F1 & F2 & F3 & F4 & F5 & _ & _ & _ & _ & _ & F11) HJ. eapply J_view; [..|exact HJ]; auto.
  destruct F11 as [Fx|Fx]; cbn [fst snd] in Fx.
  - inversion Fx as [[Fa Fb]]. rewrite Fb. reflexivity.
  - pose proof (nb_unroll_nb (sc_indents s) (sc_indent s)) as HN. rewrite <- Fx in HN. exact HN.
Qed.

Lemma SkInv_SkB (s : st) : SkInv s -> sc_stream_start s = true -> SkB s.
Proof. intros H E. apply (SkInv_split s E) in H. apply H. Qed.

Lemma stream_start_J pre (s : st) a s' :
  fetch_stream_start s = Ok (a, s') -> SkInv s -> sc_stream_start s = false -> J pre 0 false 0 s -> J pre 0 false 0 s'.
Proof.
  intros E (H1 & _ & _) ESS [J0 HJ]. rewrite ESS in H1. destruct H1 as (Hs & Hf & Hi).
  unfold fetch_stream_start, bind, get, put in E. inversion E; subst. split; [exact J0|]. vw. rewrite app_assoc.
  eapply JV_sks; [..|apply JV_push_nonopen; [reflexivity|exact HJ]].
  - intros i. cbn [eff]. rewrite phi_cons. unfold kcount. cbn. lia.
  - intros n H. cbn. exact H.
Qed.

Lemma fetch_next_token_J pre : Tr (Inv pre) (fetch_next_token ops F) (fun _ => J pre 0 false 0).
Proof.
  intros s a s' [HS HJ] E. unfold fetch_next_token in E.
  bstep E E1 u1 s1. pose proof (Fr_look ops 1 _ _ _ E1) as HF.
  apply (J_frame _ _ _ _ _ _ HF) in HJ. apply (SkInv_frame _ _ HF) in HS. clear E1 HF.
  unfold bind at 1, get at 1 in E. destruct (sc_stream_start s1) eqn:ESS; cbn [negb] in E.
  - pose proof (SkInv_SkB _ HS ESS) as HB.
    match type of E with ?m _ = _ => assert (HR : kj m 0 false 0 0 false 0) by kj_go end.
    apply (HR pre _ _ _ (conj HB HJ) E).
  - eapply stream_start_J; eauto.
Qed.

Lemma stale_J pre d e (s : st) a s' : stale_simple_keys s = Ok (a, s') -> J pre d false e s -> J pre d false e s'.
Proof.
  intros E HJ. unfold stale_simple_keys, bind, get, put, fail in E. destruct (existsb _ _); [discriminate|].
  inversion E; subst. apply J_wk; [|exact HJ]. apply wk_map. intros k.
  destruct (_ && _); [apply wk1_kill|split; auto].
Qed.

Lemma fetch_more_tokens_Inv fuel pre : Tr (Inv pre) (fetch_more_tokens ops F fuel) (fun _ => Inv pre).
Proof.
  induction fuel as [|fuel IH]; cbn [fetch_more_tokens]; intros s a s' HI E; [discriminate|].
  unfold bind at 1, get at 1 in E. bstep E E1 need s1.
  assert (H1 : Inv pre s1).
  { destruct (sc_tokens s); [inversion E1; subst; exact HI|].
    unfold bind at 1 in E1. destruct (stale_simple_keys s) as [[u s0]| | |] eqn:E0; try discriminate.
    unfold bind, get, ret in E1. inversion E1; subst. destruct HI as [HS HJ].
    split; [eapply Tr_stale_SkInv; eauto|eapply stale_J; eauto]. }
  clear E1 HI. destruct need.
  - bstep E E2 u2 s2. eapply IH; [|exact E]. split.
    + eapply fetch_next_token_SkInv; [apply H1|exact E2].
    + eapply fetch_next_token_J; [exact H1|exact E2].
  - inversion E; subst. destruct H1 as [HS HJ]. split.
    + eapply SkInv_vsame; [|exact HS]. unfold vsame; cbn; auto 10.
    + eapply J_view; [..|exact HJ]; reflexivity.
Qed.

Lemma next_token_Inv pre (s : st) o s' :
  next_token ops F s = Ok (o, s') -> Inv pre s -> match o with Some t => Inv (pre ++ [t]) s' | None => True end.
Proof.
  intros H HI. unfold next_token in H. unfold bind at 1, get at 1 in H.
  destruct (sc_stream_end s); [inversion H; subst; exact Logic.I|].
  bstep H E1 u s1.
  assert (H1 : Inv pre s1).
  { destruct (sc_token_available s); [inversion E1; subst; exact HI|]. eapply fetch_more_tokens_Inv; eauto. }
  clear E1 HI. unfold bind at 1, get at 1 in H.
  destruct (sc_tokens s1) as [|t r] eqn:ET; [discriminate|].
  unfold bind at 1, put at 1 in H. unfold bind at 1 in H.
  assert (H2 : Inv (pre ++ [t]) (set_tp (sc_tokens_parsed s1 + 1) (set_ta false (set_tokens r s1)))).
  { destruct H1 as [HS [J0 HJ]]. split.
    - eapply SkInv_vsame; [|exact HS]. unfold vsame; cbn; auto 10.
    - split; vw; [rewrite app_length, J0; cbn [length]; lia|].
      rewrite <- app_assoc. cbn [app]. rewrite ET in HJ. exact HJ. }
  destruct (snd t); inversion H; subst; exact H2.
Qed.

Lemma Inv_init (i : I) : Inv [] (init_sc i).
Proof.
  split; [apply SkInv_init|]. split; [reflexivity|]. cbn. unfold JV, cur, NB, NF. cbn.
  split; [lia|]. split; [|split; [exact Logic.I|lia]].
  intros A B E. destruct A; [cbn; lia|discriminate].
Qed.

Lemma Inv_max pre (s : st) : Inv pre s -> tok_nest_max pre <= NEST_TOK_MAX.
Proof.
  intros [_ [_ (_ & B & _)]]. unfold tok_nest_max. apply nest_max_le; [lia|].
  intros A' B' E. specialize (B A' (B' ++ sc_tokens s)). rewrite E, <- app_assoc in B. specialize (B eq_refl). lia.
Qed.

Lemma scan_all_Inv fuel : forall (s : st) acc,
  Inv (rev acc) s -> tok_nest_max (fst (scan_all ops F fuel s acc)) <= NEST_TOK_MAX.
Proof.
  induction fuel as [|fuel IH]; intros s acc HI; cbn [scan_all]; [cbn [fst]; eapply Inv_max; exact HI|].
  destruct (next_token ops F s) as [[[t|] s']| | |] eqn:E; cbn [fst]; try (eapply Inv_max; exact HI).
  apply IH. cbn [rev]. exact (next_token_Inv _ _ _ _ E HI).
Qed.

(* THE scanner theorem: whatever the input back-end, the fuel and the way the scan ends, the token stream delivered
   never has more than NEST_TOK_MAX collection starts open at once *)
Theorem scan_nest_bounded fuel (i : I) :
  tok_nest_max (fst (scan_all ops F fuel (init_sc i) [])) <= NEST_TOK_MAX.
Proof. apply scan_all_Inv. apply Inv_init. Qed.

End Scan.

Lemma NEST_TOK_MAX_is_the_bound : NEST_TOK_MAX = NEST_TOK_BOUND.
Proof. reflexivity. Qed.

Theorem scan_token_nesting_bounded {I : Type} (ops : InputOps I) (F fuel : nat) (i : I) :
  tok_nest_max (fst (scan_all ops F fuel (init_sc i) [])) <= NEST_TOK_BOUND.
Proof. rewrite <- NEST_TOK_MAX_is_the_bound. apply scan_nest_bounded. Qed.

Corollary scan_str_nest_bounded text : tok_nest_max (fst (Drivers.scan_str text)) <= NEST_TOK_BOUND.
Proof. unfold Drivers.scan_str. apply scan_token_nesting_bounded. Qed.

(* the block limit is an error VALUE (/repo 99c201b): with BLOCK_NESTING_MAX entries on the indent stack, a block
   collection that would need one more is scan error site 46 ("recursion limit exceeded") at the current mark *)
Lemma roll_indent_at_limit {I : Type} col number tk mk (s : sc I) :
  sc_flow_level s = 0%N -> (sc_indent s < Z.of_N col)%Z ->
  (BLOCK_NESTING_MAX <= N.of_nat (length (sc_indents s)))%N ->
  match sc_indents s with i :: _ => in_needs_block_end i = true | [] => True end ->
  roll_indent col number tk mk s = Err 46 (sc_mark s).
Proof.
  intros Hf Hc Hl Ht. unfold roll_indent, bind, get. rewrite Hf. cbn [N.ltb N.compare].
  replace (sc_indent s <=? Z.of_N col)%Z with true by (symmetry; apply Z.leb_le; lia).
  assert (E : (match sc_indents s with
               | i :: r => if negb (in_needs_block_end i) then (in_indent i, r) else (sc_indent s, sc_indents s)
               | [] => (sc_indent s, sc_indents s)
               end) = (sc_indent s, sc_indents s)).
  { destruct (sc_indents s) as [|i r]; [reflexivity|]. rewrite Ht. reflexivity. }
  rewrite E. replace (sc_indent s <? Z.of_N col)%Z with true by (symmetry; apply Z.ltb_lt; exact Hc).
  replace (BLOCK_NESTING_MAX <=? N.of_nat (length (sc_indents s)))%N with true by (symmetry; apply N.leb_le; exact Hl).
  reflexivity.
Qed.

(* ... and a successful roll_indent leaves at most BLOCK_NESTING_MAX block entries on the indent stack *)
Lemma roll_indent_within_limit {I : Type} col number tk mk (s : sc I) u s' :
  roll_indent col number tk mk s = Ok (u, s') -> nb (sc_indents s) <= N.to_nat BLOCK_NESTING_MAX ->
  nb (sc_indents s') <= N.to_nat BLOCK_NESTING_MAX /\ nb (sc_indents s') <= S (nb (sc_indents s)).
Proof.
  intros E HB. unfold roll_indent in E. unfold bind at 1, get at 1 in E.
  destruct (0 <? sc_flow_level s)%N; [inversion E; subst; lia|].
  pose proof (roll_pair_nb s col _ eq_refl) as HN.
  destruct (if (sc_indent s <=? Z.of_N col)%Z then _ else _) as [ind inds]. cbn [snd] in HN.
  destruct (ind <? Z.of_N col)%Z.
  - destruct (BLOCK_NESTING_MAX <=? N.of_nat (length inds))%N eqn:EL; [discriminate|]. apply N.leb_gt in EL.
    assert (X : forall s1 : sc I, sc_indents s1 = {| in_indent := ind; in_needs_block_end := true |} :: inds ->
                nb (sc_indents s1) <= N.to_nat BLOCK_NESTING_MAX /\ nb (sc_indents s1) <= S (nb (sc_indents s))).
    { intros s1 ->. rewrite nb_cons. cbn [in_needs_block_end]. pose proof (nb_le inds). lia. }
    unfold bind at 1, put at 1 in E. destruct number as [n|].
    + destruct (n <? sc_tokens_parsed s)%N; [discriminate|]. unfold insert_token in E.
      destruct (insert_at _ _ _); [|discriminate]. inversion E; subst. apply X. reflexivity.
    + unfold push_tok, modify in E. inversion E; subst. apply X. reflexivity.
  - unfold put in E. inversion E; subst. cbn [sc_indents set_indent set_struct]. lia.
Qed.
