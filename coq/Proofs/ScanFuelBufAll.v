(* C01, bounded work over the BUFFERED input (any capacity >= 8): the six character-level contracts of the
   fuel-transfer proof (ScanFuelBufDir/Flow/Plain/Block.v) plugged into ScanFuelBufTop.v, and the consequences:
   - the buffered scanner, given the fuels of run_buf (F = 2 * |input| + 10 for every loop, 4F + 20 tokens), never ends
     in SFuel, and returns exactly what the string scanner returns;
   - run_buf cap = run_str (for every input, unconditionally), hence run_buf never ends in PFuel and always ends
     properly (PDone, or a first scan / parse error).
   Ingredients: the string side never runs out of fuel (ScanFuelAll.v) and never panics (ScanSafeStrTop.v); the
   buffered side never panics (ScanSafeTop.v). *)
From Coq Require Import List NArith Bool Arith Lia.
Import ListNotations.
Require Import Parser SBase SFetch Pipe SBuf ScanFuelBuf ScanFuelBufTop.
Require ScanFuelBufDir ScanFuelBufFlow ScanFuelBufPlain ScanFuelBufBlock.
Require ScanFuelAll ScanSafeStrTop ScanSafeTop ScanRelTop.
Local Open Scope nat_scope.

Lemma scan_backends_transfer : forall (orig : list chr) cap, 8 <= cap -> forall F K, 2 * length orig + 6 <= F ->
  scan_transfer (scan_all str_ops F K (init_sc {| si_chars := orig; si_look := 0 |}) [])
                (scan_all (buf_ops cap) F K (init_sc {| b_buf := []; b_rest := orig |}) []).
Proof.
  intros orig cap H F K HF.
  apply (scan_all_transfer cap H (length orig)
           (ScanFuelBufDir.scan_directive_ok cap H (length orig)) (ScanFuelBufDir.scan_tag_ok cap H (length orig))
           (ScanFuelBufDir.scan_anchor_ok cap H (length orig)) (ScanFuelBufFlow.scan_flow_scalar_ok cap H (length orig))
           (ScanFuelBufPlain.scan_plain_scalar_ok cap H (length orig)) (ScanFuelBufBlock.scan_block_scalar_ok cap H (length orig))
           F HF K); [apply SR_init|apply le_n].
Qed.

(* with the fuels of run_buf the two scanners return the same thing *)
Lemma scanner_backends_equal : forall cap (orig : list chr), 8 <= cap ->
  let F := 2 * length orig + 10 in
  scan_all (buf_ops cap) F (4 * F + 20) (init_sc {| b_buf := []; b_rest := orig |}) []
  = scan_all str_ops F (4 * F + 20) (init_sc {| si_chars := orig; si_look := 0 |}) [].
Proof.
  intros cap orig H F.
  destruct (scan_backends_transfer orig cap H F (4 * F + 20)) as [E|[E|[[n E]|[n E]]]].
  - subst F. lia.
  - symmetry. exact E.
  - destruct (ScanFuelAll.scanner_never_out_of_fuel orig E).
  - destruct (ScanSafeStrTop.scanner_never_panics_str _ _ _ _ E).
  - destruct (ScanSafeTop.scanner_never_panics_buffered cap H _ _ _ _ E).
Qed.

(* THE SCANNER HALF: the buffered scanner never exhausts the (linear) fuel run_buf gives it *)
Theorem scanner_never_out_of_fuel_buffered : forall cap (orig : list chr), 8 <= cap ->
  let F := 2 * length orig + 10 in
  snd (scan_all (buf_ops cap) F (4 * F + 20) (init_sc {| b_buf := []; b_rest := orig |}) []) <> SFuel.
Proof.
  intros cap orig H F. unfold F. rewrite (scanner_backends_equal cap orig H).
  exact (ScanFuelAll.scanner_never_out_of_fuel orig).
Qed.

(* THE PIPELINES: equal, unconditionally *)
Theorem pipeline_backends_equal : forall cap (x : list N), 8 <= cap -> run_buf cap x = run_str x.
Proof.
  intros cap x H. rewrite ScanRelTop.run_str_of, ScanRelTop.run_buf_of. f_equal.
  exact (scanner_backends_equal cap x H).
Qed.

Theorem pipeline_terminates_linear_buffered : forall cap (x : list N), 8 <= cap -> snd (run_buf cap x) <> PFuel.
Proof.
  intros cap x H. rewrite (pipeline_backends_equal cap x H). exact (ScanFuelAll.pipeline_never_out_of_fuel x).
Qed.

(* total correctness of the buffered pipeline: every run ends properly *)
Theorem pipeline_ends_properly_buffered : forall cap (x : list N), 8 <= cap ->
  ScanFuelAll.proper_pend (snd (run_buf cap x)).
Proof.
  intros cap x H. rewrite (pipeline_backends_equal cap x H). exact (ScanFuelAll.pipeline_ends_properly x).
Qed.

Print Assumptions scanner_never_out_of_fuel_buffered.
Print Assumptions pipeline_backends_equal.
Print Assumptions pipeline_terminates_linear_buffered.
Print Assumptions pipeline_ends_properly_buffered.
