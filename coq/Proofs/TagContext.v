(* C16 — a tagged scalar in the other two block positions, at TEXT level:

       "- " <tag> " x" LF            (entry of a block sequence)
       key ": " <tag> " x" LF        (value of a one-pair block mapping, key a one-word plain key)

   for EVERY tag text of Spec/TagSpec.v.  The scanner half reuses the block-context machinery of Proofs/ScanBlockProofs.v
   ([mkb], [dash_sp_p], [key_at_tok_p], [delivers]) and the end of the input of Proofs/ScalarContext.v ([end_unit],
   [end_scan_nil]); the tag itself is scanned by [tag_scans] of Proofs/TagPipeline.v (all spellings, decoded suffix); the
   parser half is stepped on the token list, the tag being resolved by [resolve_tag_expand] (= the specification's
   [expand]). *)
From Coq Require Import List NArith ZArith Bool Arith Lia.
Import ListNotations.
Require Import Parser TagSpec SBase SPrim SDir SScalar SFetch Pipe Drivers TagRun TagUtf8 TagScanText TagProofs TagPipeline.
Require Import TokenGrammar FlowText BlockText ScanFlowProofs ScanBlockProofs ScanFrame ScalarContext ScalarContextFlow ScalarContext2Pos.
Open Scope N_scope.
Open Scope mon_scope.

#[local] Arguments N.eqb : simpl nomatch.
#[local] Arguments Nat.max : simpl nomatch.
#[local] Arguments Nat.leb : simpl nomatch.
#[local] Arguments Nat.ltb : simpl nomatch.
#[local] Arguments Nat.sub : simpl nomatch.
#[local] Arguments N.add : simpl never.
#[local] Arguments N.sub : simpl never.
#[local] Arguments N.mul : simpl never.
#[local] Arguments N.ltb : simpl nomatch.
#[local] Arguments N.leb : simpl nomatch.
#[local] Arguments Z.of_N : simpl never.
#[local] Arguments Z.ltb : simpl never.
#[local] Arguments Z.leb : simpl never.
#[local] Arguments Z.eqb : simpl never.
#[local] Arguments Z.add : simpl never.
#[local] Arguments bind {I A B} m f s /.
#[local] Arguments ret {I A} a s /.
#[local] Arguments get {I} s /.
#[local] Arguments put {I} s _ /.
#[local] Arguments modify {I} f s /.
#[local] Arguments gets {I A} f s /.
#[local] Arguments fail {I A} site m _ /.
#[local] Arguments upd {I} s i m t /.
#[local] Arguments set_in {I} i s /.
#[local] Arguments set_mark {I} m s /.
#[local] Arguments set_tokens {I} t s /.
#[local] Arguments set_flags {I} s ss se adj ska ta lws /.
#[local] Arguments set_ska {I} b s /.
#[local] Arguments set_lws {I} b s /.
#[local] Arguments set_adj {I} n s /.
#[local] Arguments set_ta {I} b s /.
#[local] Arguments set_ss {I} b s /.
#[local] Arguments set_se {I} b s /.
#[local] Arguments set_struct {I} s sks ind inds fl tp ifms /.
#[local] Arguments set_sks {I} l s /.
#[local] Arguments set_indent {I} z l s /.
#[local] Arguments set_fl {I} n s /.
#[local] Arguments set_tp {I} n s /.
#[local] Arguments set_ifms {I} l s /.
#[local] Arguments skip_to_next_token : simpl never.
#[local] Arguments stale_simple_keys : simpl never.
#[local] Arguments scan_plain_scalar : simpl never.
#[local] Arguments scan_tag : simpl never.
#[local] Arguments fetch_stream_start : simpl never.
#[local] Arguments fetch_stream_end : simpl never.
#[local] Arguments fetch_directive : simpl never.
#[local] Arguments fetch_document_indicator : simpl never.
#[local] Arguments fetch_flow_collection_start : simpl never.
#[local] Arguments fetch_flow_collection_end : simpl never.
#[local] Arguments fetch_flow_entry : simpl never.
#[local] Arguments fetch_block_entry : simpl never.
#[local] Arguments fetch_key : simpl never.
#[local] Arguments fetch_value : simpl never.
#[local] Arguments fetch_flow_value : simpl never.
#[local] Arguments fetch_anchor : simpl never.
#[local] Arguments fetch_tag : simpl never.
#[local] Arguments fetch_block_scalar : simpl never.
#[local] Arguments fetch_flow_scalar : simpl never.
#[local] Arguments fetch_plain_scalar : simpl never.
#[local] Arguments fetch_next_token : simpl never.
#[local] Arguments fetch_more_tokens : simpl never.
#[local] Arguments next_token : simpl never.
#[local] Arguments scan_all : simpl never.
#[local] Arguments fnt_rest : simpl never.
#[local] Arguments need_comp : simpl never.
#[local] Arguments unroll_indent : simpl never.
#[local] Arguments roll_indent : simpl never.
#[local] Arguments roll_one_col_indent : simpl never.
#[local] Arguments unroll_non_block_indents : simpl never.
#[local] Arguments save_simple_key : simpl never.
#[local] Arguments popk : simpl never.
#[local] Arguments ntb : simpl never.
#[local] Arguments saved : simpl never.

(* ========================================================================================== *)
(* 1. The scanner: '!' is dispatched to fetch_tag; fetch_tag in block context                   *)
(* ========================================================================================== *)
Lemma rest_bang F cs l i ln c q adj ska k ind inds tp ta lws :
  (4 <= l)%nat -> (Z.of_N c <? ind)%Z = false ->
  fnt_rest F (mkb (33 :: cs) l (mkm i ln c) q adj ska k ind inds tp ta lws)
  = fetch_tag str_ops F (mkb (33 :: cs) l (mkm i ln c) q adj ska k ind inds tp ta lws).
Proof.
  intros Hl Hcol. destruct (leb_look l Hl) as [L3 L2].
  unfold fnt_rest, mkb, mkm. cbn. destruct (c =? 0); cbn;
    [ unfold next_is_document_start, next_is_document_end, next_3_are, assert_buflen; cbn; rewrite L3; cbn; rewrite L2; cbn;
      rewrite ?L3; cbn; rewrite ?L2; cbn; rewrite Hcol; cbn; reflexivity
    | rewrite Hcol; cbn; reflexivity ].
Qed.

Definition tag_tok (mk : marker) (n : nat) (h sfx : list N) : token := (mkspan mk (adv (N.of_nat n) mk), TTag h sfx).

Lemma fetch_tag_b F ttext h sfx rest l mk q adj ska k ind inds tp lws :
  tag_scans F (33 :: ttext) h sfx -> is_blank_or_breakz (hd 0 rest) = true ->
  ((ind =? Z.of_N (m_col mk))%Z = true -> inds <> []) ->
  exists l',
    fetch_tag str_ops F (mkb (33 :: ttext ++ rest) l mk q adj ska k ind inds tp false lws)
    = Ok (tt, mkb rest l' (adv (N.of_nat (length (33 :: ttext))) mk) (q ++ [tag_tok mk (length (33 :: ttext)) h sfx]) adj false
                (saved ska k ind inds tp q mk) ind inds tp false false).
Proof.
  intros HS HR Hreq.
  set (K := saved ska k ind inds tp q mk).
  destruct (HS rest l mk lws (mkb [] 0 mk q adj false K ind inds tp false false)
              ltac:(unfold tag_end; rewrite HR; reflexivity)) as (l' & _ & E).
  exists l'. unfold fetch_tag. cbn [bind].
  rewrite (save_key_b _ l mk q adj ska k ind inds tp false lws Hreq). fold K. unfold disallow_simple_key. unfold mkb at 1. cbn.
  unfold st, mkb in E. cbn in E. cbn [app] in E. rewrite E. cbn.
  unfold push_tok, mkb, tag_tok. cbn. reflexivity.
Qed.

(* ========================================================================================== *)
(* 2. " x" LF and the end of the input behind a token that is still queued                      *)
(* ========================================================================================== *)
Definition x_tok (i ln c : N) : token := (spn (mkm i ln c) (mkm (i + wlen 120 []) ln (c + wlen 120 [])), TScalar Plain [120]).

Lemma fetch_x_end F l mk q adj k ind inds ind1 inds1 tp :
  (5 <= F)%nat -> (stale_k k (adv 1 mk) && sk_required k) = false ->
  (ind <= Z.of_N (m_col mk + 1))%Z -> unroll_nb inds ind = (ind1, inds1) -> (0 <= ind1)%Z ->
  ((ind =? Z.of_N (m_col mk + 1))%Z = true -> inds <> []) ->
  exists l',
   fetch_next_token str_ops F (mkb [32; 120; 10] l mk q adj false k ind inds tp false false)
   = Ok (tt, mkb [] l' (mkm (m_index mk + 1 + wlen 120 [] + 1 + N.of_nat 0) (m_line mk + 1) (N.of_nat 0))
               (q ++ [x_tok (m_index mk + 1) (m_line mk) (m_col mk + 1)]) adj true
               (staled k (adv 1 mk)) ind1 inds1 tp false true).
Proof.
  destruct mk as [i ln c]. cbn [m_index m_line m_col]. change {| m_index := i; m_line := ln; m_col := c |} with (mkm i ln c).
  change (adv 1 (mkm i ln c)) with (mkm (i + 1) ln (c + 1)).
  intros HF Hst Hle Hnb H0 Hreq.
  destruct (word_value_step F 120 [] 0 [] (Nat.max (Nat.max (Nat.max l 1) 1) 4) (i + 1) ln (c + 1) q adj false (staled k (mkm (i + 1) ln (c + 1)))
              ind inds ind1 inds1 tp false false eq_refl eq_refl Hnb Hreq Logic.I H0 ltac:(cbn [length]; lia) ltac:(lia)) as (l' & E).
  exists l'.
  erewrite fnt_b; [ | apply (skip_spaces_b 1); [lia | reflexivity..] | exact Hst | cbn [m_col mkm]; apply unroll_keep; exact Hle ].
  cbn [repeat]. rewrite app_nil_r. change (N.of_nat 1) with 1.
  rewrite tail_char by reflexivity.
  rewrite rest_word_b; [ | reflexivity | apply N.eqb_neq; lia | apply Z.ltb_ge; exact Hle ].
  cbn [app repeat] in E. rewrite E. unfold saved, x_tok. reflexivity.
Qed.

Lemma staled_line k m : (sk_possible k = true -> m_line (sk_mark k) < m_line m) -> sk_possible (staled k m) = false.
Proof.
  intros H. unfold staled, stale_k. destruct (sk_possible k) eqn:E; [|cbn [andb]; exact E].
  cbn [andb]. rewrite (proj2 (N.ltb_lt _ _) (H eq_refl)). reflexivity.
Qed.
Lemma staled_mark k m : sk_mark (staled k m) = sk_mark k.
Proof. unfold staled. destruct (stale_k k m); reflexivity. Qed.
Lemma staled_poss k m : sk_possible (staled k m) = true -> sk_possible k = true.
Proof. unfold staled. destruct (stale_k k m); [discriminate|auto]. Qed.

(* two fetches: [t1] (its key may be pending), then [t2] with the rest of the input; then the end *)
Lemma end_unit2 F (s : sc strin) cs l mk t1 adj K ind inds tp l3 l3' mk3 t2 adj3 ska3 K3 ind3 inds3 lws3 :
  (3 <= F)%nat -> canon s ->
  fetch_next_token str_ops F s = Ok (tt, mkb cs l mk [t1] adj false K ind inds tp false false) ->
  snd t1 <> TStreamEnd -> snd t2 <> TStreamEnd -> key_free K ->
  fetch_next_token str_ops F (mkb cs l mk [t1] adj false (staled K mk) ind inds tp false false)
    = Ok (tt, mkb [] l3 mk3 [t1; t2] adj3 ska3 K3 ind3 inds3 tp false lws3) ->
  fetch_next_token str_ops F (mkb cs l mk [] adj false (staled K mk) ind inds (tp + 1) false false)
    = Ok (tt, mkb [] l3' mk3 [t2] adj3 ska3 K3 ind3 inds3 (tp + 1) false lws3) ->
  key_free K3 -> sk_possible (staled K3 mk3) = false -> grounded ind3 inds3 ->
  exists rest, map snd rest = snd t2 :: repeat TBlockEnd (nbe inds3) ++ [TStreamEnd] /\
    forall fuel acc, (length rest + 1 < fuel)%nat -> scan_all str_ops F fuel s acc = (rev acc ++ t1 :: rest, SEnded).
Proof.
  intros HF (Hq0 & Hta0 & Hse0) Hf Ht1 Ht2 HK Hf3a Hf3b HK3 Hnp3 Hg.
  set (S2 := mkb cs l mk [t1] adj false K ind inds tp false false) in *.
  assert (Hst : (stale_k K mk && sk_required K) = false) by (apply key_free_stale, HK).
  pose proof (need_b cs l mk t1 [] adj false K ind inds tp false false Hst) as Hn. cbn zeta in Hn. fold (staled K mk) in Hn. fold S2 in Hn.
  destruct (sk_possible (staled K mk) && (sk_token_number (staled K mk) =? tp)) eqn:Hp; cbn [orb] in Hn.
  - assert (Hst3 : (stale_k K3 mk3 && sk_required K3) = false) by (apply key_free_stale, HK3).
    destruct (end_scan_nil F l3 mk3 adj3 ska3 (staled (staled K3 mk3) mk3) ind3 inds3 (tp + 1 + 1) lws3 HF
                (key_free_staled _ _ (key_free_staled _ _ HK3)) Hg) as (toks & Hm & Hscan).
    exists (t2 :: toks). split; [cbn [map]; rewrite Hm; reflexivity|].
    intros fuel acc Hfuel. cbn [length] in Hfuel. destruct fuel as [|[|fuel]]; try lia.
    rewrite scan_all_S.
    rewrite (nt_of_ntb F 3 s (Some t1, mkb [] l3 mk3 [t2] adj3 ska3 (staled K3 mk3) ind3 inds3 (tp + 1) false lws3) Hse0 HF).
    + rewrite scan_all_S.
      rewrite (pop_b F [] l3 mk3 t2 [] adj3 ska3 (staled K3 mk3) ind3 inds3 (tp + 1) lws3 ltac:(lia) Ht2).
      * rewrite Hscan by lia. cbn [rev]. rewrite <- !app_assoc. reflexivity.
      * apply stale_staled, Hst3.
      * rewrite staled_idem, Hnp3. reflexivity.
    + rewrite (ntb_fetch F 2 s s S2 Hta0 (need_canon s Hq0) Hf eq_refl).
      rewrite (ntb_fetch F 1 S2 _ _ eq_refl Hn Hf3a eq_refl).
      apply ntb_pop_b; [exact Ht1 | exact Hst3 | rewrite Hnp3; reflexivity].
  - set (S1 := mkb cs l mk [] adj false (staled K mk) ind inds (tp + 1) false false) in *.
    destruct (end_unit F S1 l3' mk3 t2 adj3 ska3 K3 ind3 inds3 (tp + 1) lws3 HF (canon_b _ _ _ _ _ _ _ _ _ _) Hf3b Ht2 HK3 Hg)
      as (toks & Hm & Hscan).
    exists toks. split; [exact Hm|].
    intros fuel acc Hfuel. destruct fuel as [|fuel]; [lia|].
    rewrite scan_all_S.
    rewrite (nt_of_ntb F 2 s (Some t1, S1) Hse0 ltac:(lia)).
    + rewrite Hscan by lia. cbn [rev]. rewrite <- app_assoc. reflexivity.
    + rewrite (ntb_fetch F 1 s s S2 Hta0 (need_canon s Hq0) Hf eq_refl).
      unfold S2. apply ntb_pop_b; [exact Ht1 | exact Hst | exact Hp].
Qed.

(* ========================================================================================== *)
(* 3. <tag> " x" LF ends the input: at a token position, and behind "key: "                     *)
(* ========================================================================================== *)
Definition tail_x : list N := [32; 120; 10].
Definition ends_tagged (F : nat) (s : sc strin) (t1 : token) (n : nat) : Prop :=
  exists rest, map snd rest = TScalar Plain [120] :: repeat TBlockEnd n ++ [TStreamEnd] /\
    forall fuel acc, (length rest + 1 < fuel)%nat -> scan_all str_ops F fuel s acc = (rev acc ++ t1 :: rest, SEnded).

Lemma bang_first : first_ok 33. Proof. repeat split; reflexivity. Qed.

Lemma key_line_stale K mk mk' ln :
  (sk_possible K = true -> m_line (sk_mark K) = ln) -> ln < m_line mk' ->
  sk_possible (staled (staled (staled K mk) (adv 1 mk)) mk') = false.
Proof.
  intros H Hl. apply staled_line. intros Hp. rewrite !staled_mark.
  apply staled_poss, staled_poss in Hp. rewrite (H Hp). exact Hl.
Qed.

Lemma tagged_end_tok F s ttext h sfx c top rest0 i ln :
  at_tok_p s (33 :: ttext ++ tail_x) c (top :: rest0) i ln -> (Z.of_N top < Z.of_nat c)%Z ->
  tag_scans F (33 :: ttext) h sfx -> (5 <= F)%nat ->
  ends_tagged F s (tag_tok (mkm i ln (N.of_nat c)) (length (33 :: ttext)) h sfx) (length (top :: rest0)).
Proof.
  intros Hat Hlt HS HF. set (cols := top :: rest0) in *.
  assert (Hbase : base_le cols (Z.of_nat c)) by (cbn; lia).
  destruct (arrive_tok_p F s 33 _ c [] cols i ln Hat bang_first eq_refl ltac:(constructor) Hbase ltac:(lia))
    as (Hcanon & l' & adj & k & tp & lws & Hl' & Hk & Hf).
  cbn [length repeat] in Hf.
  rewrite rest_bang in Hf; [ | exact Hl' | apply col_ge_top, Hbase ].
  destruct (fetch_tag_b F ttext h sfx tail_x l' (mkm i ln (N.of_nat c)) [] adj true k (fst (stk cols)) (snd (stk cols)) tp lws
              HS eq_refl (stk_req_ne cols (N.of_nat c))) as (l2 & E).
  rewrite E in Hf. cbn [app] in Hf.
  set (mk := mkm i ln (N.of_nat c)) in *. set (n := length (33 :: ttext)) in *.
  set (K := saved true k (fst (stk cols)) (snd (stk cols)) tp [] mk) in *.
  set (mk2 := adv (N.of_nat n) mk) in *.
  assert (HK : key_free K).
  { apply key_free_not_required. unfold K, saved, req. cbn [newkey sk_required m_col mkm mk].
    replace (fst (stk cols) =? Z.of_N (N.of_nat c))%Z with false; [reflexivity|]. symmetry. apply Z.eqb_neq. cbn [cols stk fst]. lia. }
  assert (Hle : (fst (stk cols) <= Z.of_N (m_col mk2 + 1))%Z) by (cbn [cols stk fst mk2 mk adv mkm m_col]; lia).
  assert (Hreq : (fst (stk cols) =? Z.of_N (m_col mk2 + 1))%Z = true -> snd (stk cols) <> []) by (intros _; discriminate).
  assert (Hst2 : (stale_k (staled K mk2) (adv 1 mk2) && sk_required (staled K mk2)) = false)
    by (apply key_free_stale, key_free_staled, HK).
  destruct (fetch_x_end F l2 mk2 [tag_tok mk n h sfx] adj (staled K mk2) _ _ _ _ tp HF Hst2 Hle (unroll_nb_stk cols)
              ltac:(cbn [cols stk fst]; lia) Hreq) as (l3 & E3).
  destruct (fetch_x_end F l2 mk2 [] adj (staled K mk2) _ _ _ _ (tp + 1) HF Hst2 Hle (unroll_nb_stk cols)
              ltac:(cbn [cols stk fst]; lia) Hreq) as (l3' & E3').
  cbn [app] in E3, E3'.
  destruct (grounded_stk cols ltac:(apply Forall_forall; auto)) as [Hg Hnn].
  destruct (end_unit2 F s tail_x l2 mk2 (tag_tok mk n h sfx) adj K _ _ tp l3 l3' _
              (x_tok (m_index mk2 + 1) (m_line mk2) (m_col mk2 + 1)) adj true _ _ _ true ltac:(lia) Hcanon Hf
              ltac:(unfold tag_tok; cbn [snd]; discriminate) ltac:(unfold x_tok; cbn [snd]; discriminate) HK E3 E3'
              (key_free_staled _ _ (key_free_staled _ _ HK))
              ltac:(apply (key_line_stale K mk2 _ ln);
                      [intros _; reflexivity | cbn [mk2 mk adv mkm m_line m_index m_col]; lia]) Hg)
    as (rest & Hm & Hscan).
  exists rest. split; [rewrite Hm, <- Hnn; reflexivity | exact Hscan].
Qed.

Lemma tagged_end_below F s ttext h sfx top rest0 i ln c0 :
  at_below_p s (32 :: 33 :: ttext ++ tail_x) (top :: rest0) i ln c0 ->
  tag_scans F (33 :: ttext) h sfx -> (5 <= F)%nat ->
  ends_tagged F s (tag_tok (mkm (i + 1) ln (c0 + 1)) (length (33 :: ttext)) h sfx) (length (top :: rest0)).
Proof.
  intros Hat HS HF.
  destruct (arrive_blank_p F s 33 _ (top :: rest0) i ln c0 Hat bang_first eq_refl ltac:(lia))
    as (Hcanon & l' & adj & ska & k & tp & top' & rest' & [= <- <-] & Hc1 & Hl' & Hk & Hf).
  set (cols := top :: rest0) in *.
  rewrite rest_bang in Hf; [ | exact Hl' | apply Z.ltb_ge; lia ].
  set (ind := (Z.of_N top + 1)%Z) in *. set (inds := nbl (Z.of_N top) :: snd (stk cols)) in *.
  destruct (fetch_tag_b F ttext h sfx tail_x l' (mkm (i + 1) ln (c0 + 1)) [] adj ska k ind inds tp false
              HS eq_refl ltac:(intros _; discriminate)) as (l2 & E).
  rewrite E in Hf. cbn [app] in Hf.
  set (mk := mkm (i + 1) ln (c0 + 1)) in *. set (n := length (33 :: ttext)) in *.
  set (K := saved ska k ind inds tp [] mk) in *.
  set (mk2 := adv (N.of_nat n) mk) in *.
  assert (HK : key_free K).
  { unfold K, saved. destruct ska; [|apply key_free_not_possible, Hk].
    apply key_free_not_required. unfold req, inds. cbn [newkey sk_required nbl in_needs_block_end]. apply andb_false_r. }
  assert (Hle : (ind <= Z.of_N (m_col mk2 + 1))%Z) by (cbn [mk2 mk adv mkm m_col]; unfold ind; lia).
  assert (Hreq : (ind =? Z.of_N (m_col mk2 + 1))%Z = true -> inds <> []) by (intros _; discriminate).
  assert (Hst2 : (stale_k (staled K mk2) (adv 1 mk2) && sk_required (staled K mk2)) = false)
    by (apply key_free_stale, key_free_staled, HK).
  destruct (fetch_x_end F l2 mk2 [tag_tok mk n h sfx] adj (staled K mk2) _ _ _ _ tp HF Hst2 Hle (unroll_nb_below top rest0)
              ltac:(cbn [stk fst]; lia) Hreq) as (l3 & E3).
  destruct (fetch_x_end F l2 mk2 [] adj (staled K mk2) _ _ _ _ (tp + 1) HF Hst2 Hle (unroll_nb_below top rest0)
              ltac:(cbn [stk fst]; lia) Hreq) as (l3' & E3').
  cbn [app] in E3, E3'.
  destruct (grounded_stk cols ltac:(apply Forall_forall; auto)) as [Hg Hnn].
  destruct (end_unit2 F s tail_x l2 mk2 (tag_tok mk n h sfx) adj K _ _ tp l3 l3' _
              (x_tok (m_index mk2 + 1) (m_line mk2) (m_col mk2 + 1)) adj true _ _ _ true ltac:(lia) Hcanon Hf
              ltac:(unfold tag_tok; cbn [snd]; discriminate) ltac:(unfold x_tok; cbn [snd]; discriminate) HK E3 E3'
              (key_free_staled _ _ (key_free_staled _ _ HK))
              ltac:(apply (key_line_stale K mk2 _ ln);
                      [unfold K, saved; destruct ska; [intros _; reflexivity | rewrite Hk; discriminate]
                      | cbn [mk2 mk adv mkm m_line m_index m_col]; lia]) Hg)
    as (rest & Hm & Hscan).
  exists rest. split; [rewrite Hm, <- Hnn; reflexivity | exact Hscan].
Qed.

(* ========================================================================================== *)
(* 4. The whole scanner on the two texts                                                         *)
(* ========================================================================================== *)
Lemma scan_str_tagged txt pre s' t1 n :
  delivers (2 * length txt + 10) (start_state txt) pre s' -> ends_tagged (2 * length txt + 10) s' t1 n ->
  (length pre + n + 4 <= 2 * length txt + 10)%nat ->
  exists t0 rest, scan_str txt = (t0 :: pre ++ t1 :: rest, SEnded) /\ snd t0 = TStreamStart /\
                  map snd rest = TScalar Plain [120] :: repeat TBlockEnd n ++ [TStreamEnd].
Proof.
  intros Hd (rest & Hm & Hscan) Hlen. unfold scan_str. set (F := (2 * length txt + 10)%nat) in *.
  assert (Hl2 : length rest = (n + 2)%nat).
  { rewrite <- (map_length snd), Hm. cbn [length]. rewrite app_length, repeat_length. cbn [length]. lia. }
  assert (Etot : exists f2, (4 * F + 20 = S (length pre + f2) /\ length rest + 1 < f2)%nat).
  { exists (4 * F + 19 - length pre)%nat. unfold token in *. lia. }
  destruct Etot as (f2 & -> & Hf2).
  rewrite scan_all_S, (first_token F txt) by (unfold F; lia). cbv beta iota.
  change (mkst txt 1 (mk1 0) [] 0 true [dummy_key] 0 1 false true []) with (start_state txt).
  rewrite Hd, (Hscan f2 _ Hf2).
  eexists. exists rest. split; [rewrite rev_app_distr, rev_involutive; cbn [rev app]; reflexivity|].
  split; [reflexivity|exact Hm].
Qed.

(* (b) "- " <tag> " x" LF *)
Theorem scan_tagged_entry ttext h sfx :
  tag_text ttext h sfx ->
  exists t0 pre rest, scan_str (45 :: 32 :: ttext ++ tail_x)
    = (t0 :: pre ++ tag_tok (mkm 2 1 2) (length ttext) h sfx :: rest, SEnded) /\
    snd t0 = TStreamStart /\ map snd pre = [TBlockSequenceStart; TBlockEntry] /\
    map snd rest = [TScalar Plain [120]; TBlockEnd; TStreamEnd].
Proof.
  intros HT. set (txt := 45 :: 32 :: ttext ++ tail_x). set (F := (2 * length txt + 10)%nat).
  assert (Hlen : length txt = (length ttext + 5)%nat) by (unfold txt, tail_x; cbn [length]; rewrite app_length; cbn [length]; lia).
  destruct (tag_spelling_scans ttext h sfx F (tag_text_spelling _ _ _ HT) ltac:(unfold F; lia)) as (t' & Et & HS & _).
  pose proof (start_at_tok_p txt) as Hat. unfold txt in Hat at 2. rewrite Et in Hat. cbn [app] in Hat.
  destruct (dash_sp_p F (start_state txt) 33 (t' ++ tail_x) 0 [] [] true 0 1 Hat ltac:(constructor) ltac:(split; cbn; lia)
              ltac:(repeat split; reflexivity) eq_refl eq_refl ltac:(unfold F; lia)) as (pre & s' & Hd & Hmp & Hat').
  cbn [joined Nat.add] in Hat'.
  pose proof (tagged_end_tok F s' t' h sfx 2 (N.of_nat 0) [] (0 + 2) 1 Hat' ltac:(cbn; lia) HS ltac:(unfold F; lia)) as He.
  assert (Hlp : length pre = 2%nat) by (pose proof (f_equal (@length _) Hmp) as Hl; rewrite map_length in Hl; exact Hl).
  destruct (scan_str_tagged txt pre s' _ _ Hd He ltac:(rewrite Hlp; cbn [length]; lia)) as (t0 & rest & Es & H0 & Hm).
  exists t0, pre, rest. rewrite Et. split; [exact Es|]. split; [exact H0|]. split; [exact Hmp|exact Hm].
Qed.

