(* C06 -- rejection lemmas, part 3: symbolic runs of the scanner model over one-line flow text whose words are arbitrary
   (lower-case letters, any length), from fully described scanner states.
   [St ...] is a scanner state (behind StreamStart, not at the end, nothing buffered for the iterator) given by ALL its
   fields; the step lemmas are equations  fetch_next_token F (St ...) = Ok (tt, St ...)  /  = Err ...  with the
   remaining input, the marks and the word symbolic.  Used for: the family of /repo 57aa316 (every text "[ k: ..." whose
   key word k is longer than 1024 characters is rejected with site 98 at the ':'), and for flat flow sequences with any
   number of words closed by '}' (/repo 88700d3: scan error 48; induction over the words in rounds of the iterator's refill
   loop) -- the swapped-closer damage operator of the full property on every flat sequence. *)
From Coq Require Import List NArith ZArith Bool Lia.
Import ListNotations.
Require Import Parser SBase SPrim SDir SScalar SFetch Pipe SInv Grammar C02base C02rest C02tail C02run DocReset RejectProofs RejectScan.

Arguments N.add : simpl never.
Arguments N.sub : simpl never.
Arguments N.mul : simpl never.
Arguments N.eqb : simpl never.
Arguments N.ltb : simpl never.
Arguments N.leb : simpl never.
Arguments Nat.max : simpl never.
Open Scope N_scope.
Open Scope mon_scope.

Notation chars_of s := (si_chars (sc_in s)).

(* ---- a started scanner state, all fields given ---- *)
Definition St (chars : list N) (lk : nat) (mk : marker) (toks : list token) (adj : N) (ska : bool)
              (sks : list simple_key) (ind : Z) (inds : list indent_rec) (fl tp : N) (lws : bool) (ifms : list ims) : sc strin :=
  {| sc_in := {| si_chars := chars; si_look := lk |}; sc_mark := mk; sc_tokens := toks;
     sc_stream_start := true; sc_stream_end := false; sc_adjacent := adj; sc_ska := ska; sc_sks := sks;
     sc_indent := ind; sc_indents := inds; sc_flow_level := fl; sc_tokens_parsed := tp;
     sc_token_available := false; sc_lws := lws; sc_ifms := ifms |}.

(* ---- lower-case letters and the character tests of the scanner ---- *)
Definition lower (c : N) : Prop := 97 <= c /\ c <= 122.

Lemma lower_eqb c k : lower c -> (k < 97 \/ 122 < k) -> (c =? k) = false.
Proof. intros [A B] H. apply N.eqb_neq. lia. Qed.

Lemma lower_not_skipped c : lower c -> not_skipped c.
Proof. intros [A B]. repeat split; lia. Qed.
Lemma lower_blank_or_breakz c : lower c -> is_blank_or_breakz c = false.
Proof.
  intros H. unfold is_blank_or_breakz, is_blank, is_breakz, is_break, is_z.
  rewrite !(lower_eqb c) by (assumption || lia). reflexivity.
Qed.
Lemma lower_flow c : lower c -> is_flow c = false.
Proof. intros H. unfold is_flow. rewrite !(lower_eqb c) by (assumption || lia). reflexivity. Qed.
Lemma lower_blank c : lower c -> is_blank c = false.
Proof. intros H. unfold is_blank. rewrite !(lower_eqb c) by (assumption || lia). reflexivity. Qed.
Lemma lower_break c : lower c -> is_break c = false.
Proof. intros H. unfold is_break. rewrite !(lower_eqb c) by (assumption || lia). reflexivity. Qed.

Lemma lower_word_lower w : lower_word w -> Forall lower w.
Proof. intros [_ H]. exact H. Qed.

(* ---- in flow context no key candidate ever goes stale ---- *)
Lemma stale_simple_keys_flow (s : sc strin) :
  sc_flow_level s <> 0 -> stale_simple_keys s = Ok (tt, set_sks (sc_sks s) s).
Proof.
  intros HFL. unfold stale_simple_keys, bind, get, put.
  apply N.eqb_neq in HFL. rewrite HFL.
  assert (E1 : existsb (fun k => sk_possible k && false
                  && ((m_line (sk_mark k) <? m_line (sc_mark s)) || (m_index (sk_mark k) + SIMPLE_KEY_MAX <? m_index (sc_mark s)))
                  && sk_required k) (sc_sks s) = false).
  { induction (sc_sks s) as [|k r IH]; [reflexivity|]. cbn [existsb]. rewrite IH. destruct (sk_possible k); reflexivity. }
  assert (E2 : map (fun k => if sk_possible k && false
                  && ((m_line (sk_mark k) <? m_line (sc_mark s)) || (m_index (sk_mark k) + SIMPLE_KEY_MAX <? m_index (sc_mark s)))
                  then {| sk_possible := false; sk_required := sk_required k; sk_token_number := sk_token_number k; sk_mark := sk_mark k |}
                  else k) (sc_sks s) = sc_sks s).
  { clear E1. induction (sc_sks s) as [|k r IH]; [reflexivity|]. cbn [map]. rewrite IH. destruct (sk_possible k); reflexivity. }
  rewrite E1, E2. reflexivity.
Qed.

(* ---- [fetch_next_token] in flow context on a character that starts a token: exactly [dispatch], in the state whose
        lookahead counter went up to 4 ---- *)
Definition ahead (s : sc strin) (n : nat) : sc strin :=
  set_in {| si_chars := chars_of s; si_look := Nat.max (si_look (sc_in s)) n |} s.

Lemma fetch_next_token_flow F (s : sc strin) :
  sc_stream_start s = true -> (0 < F)%nat -> sc_flow_level s <> 0 ->
  not_skipped (nth 0 (chars_of s) 0) -> no_marker_start s (nth 0 (chars_of s) 0) ->
  fetch_next_token str_ops F s
  = dispatch F (ahead (set_sks (sc_sks s) (looked (looked s 1) 1)) 4) (ahead (set_sks (sc_sks s) (looked (looked s 1) 1)) 4).
Proof.
  intros HSS HF HFL HN (HZ & HD).
  rewrite (fetch_next_token_started F s HSS).
  rewrite (bind_Ok _ _ _ _ _ (skip_to_next_token_stop F (looked s 1) HF HN)). unfold fetch_rest.
  set (s1 := looked (looked s 1) 1).
  assert (HFL1 : sc_flow_level s1 <> 0) by exact HFL.
  rewrite (bind_Ok _ _ _ _ _ (stale_simple_keys_flow s1 HFL1)).
  set (s2 := set_sks (sc_sks s1) s1).
  unfold bind at 1. unfold mark at 1, gets at 1.
  unfold bind at 1. unfold unroll_indent at 1, bind at 1, get at 1.
  assert (HFL' : (0 <? sc_flow_level s2) = true) by (apply N.ltb_lt; change (sc_flow_level s2) with (sc_flow_level s); lia).
  rewrite HFL'. unfold ret at 1.
  unfold bind at 1. unfold look at 1. cbn [lookahead str_ops].
  change (set_in {| si_chars := chars_of s2; si_look := Nat.max (si_look (sc_in s2)) 4 |} s2) with (ahead s2 4).
  set (s4 := ahead s2 4).
  unfold bind at 1. unfold next_is at 1, bind at 1, peek at 1, peekn at 1. cbn [peek_nth str_ops].
  change (chars_of s4) with (chars_of s).
  unfold ret at 1. unfold is_z. apply N.eqb_neq in HZ. unfold chr in *. rewrite HZ.
  unfold bind at 1. unfold get at 1.
  unfold bind at 1. unfold peek at 1, peekn at 1. cbn [peek_nth str_ops].
  change (chars_of s4) with (chars_of s).
  change (m_col (sc_mark s4) =? 0) with (m_col (sc_mark s) =? 0).
  assert (LB4 : Nat.ltb (buflen str_ops (sc_in s4)) 4 = false) by (apply Nat.ltb_ge; cbn; lia).
  assert (LB3 : Nat.ltb (buflen str_ops (sc_in s4)) 3 = false) by (apply Nat.ltb_ge; cbn; lia).
  destruct HD as [HD|(D1 & D2 & D3)].
  - apply N.eqb_neq in HD. unfold chr in *. rewrite HD. cbn [andb]. unfold bind at 1, ret at 1. unfold bind at 1, ret at 1.
    reflexivity.
  - apply N.eqb_neq in D1, D2, D3. unfold chr in *. rewrite D1. cbn [negb andb].
    destruct (m_col (sc_mark s) =? 0) eqn:EC.
    + cbn [andb].
      assert (DS : next_is_document_start str_ops s4 = Ok (false, s4)).
      { unfold next_is_document_start, bind at 1, assert_buflen at 1. rewrite LB4.
        unfold bind at 1. unfold next_3_are at 1, bind at 1, assert_buflen at 1. rewrite LB3.
        unfold bind, peek, peekn. cbn [peek_nth str_ops]. change (chars_of s4) with (chars_of s).
        unfold ret. unfold chr in *. rewrite D2. reflexivity. }
      assert (DE : next_is_document_end str_ops s4 = Ok (false, s4)).
      { unfold next_is_document_end, bind at 1, assert_buflen at 1. rewrite LB4.
        unfold bind at 1. unfold next_3_are at 1, bind at 1, assert_buflen at 1. rewrite LB3.
        unfold bind, peek, peekn. cbn [peek_nth str_ops]. change (chars_of s4) with (chars_of s).
        unfold ret. unfold chr in *. rewrite D3. reflexivity. }
      rewrite (bind_Ok _ _ _ _ _ DS). cbn [negb]. rewrite (bind_Ok _ _ _ _ _ DE). cbn iota.
      reflexivity.
    + cbn [andb]. unfold bind at 1, ret at 1. unfold bind at 1, ret at 1. reflexivity.
Qed.

(* a lower-case letter starts a plain scalar *)
Lemma dispatch_lower F (s : sc strin) :
  lower (nth 0 (chars_of s) 0) -> (sc_indent s <= Z.of_N (m_col (sc_mark s)))%Z ->
  dispatch F s s = fetch_plain_scalar str_ops F s.
Proof.
  intros HL HC. unfold dispatch.
  assert (EL : (Z.of_N (m_col (sc_mark s)) <? sc_indent s)%Z = false) by (apply Z.ltb_ge; exact HC). rewrite EL.
  unfold bind at 1, peek at 1, peekn at 1. cbn [peek_nth str_ops].
  unfold bind at 1, peekn at 1. cbn [peek_nth str_ops]. cbv zeta.
  set (c := nth 0 (chars_of s) 0) in *.
  rewrite !(lower_eqb c) by (assumption || lia). cbn [andb orb]. reflexivity.
Qed.

Lemma adv_adv a b m : adv a (adv b m) = adv (b + a) m.
Proof. unfold adv. cbn [m_index m_line m_col]. f_equal; lia. Qed.
Lemma adv_0 m : adv 0 m = m.
Proof. destruct m. unfold adv. cbn. f_equal; lia. Qed.

(* ---- where a plain scalar ends without a blank: at ':' followed by a blank / break / end (in flow context also by a flow
        indicator), and in flow context at a flow indicator ---- *)
Definition ends_word (fl : N) (d : N) (rest : list N) : Prop :=
  is_blank_or_breakz d = false
  /\ (((d =? 58) && (is_blank_or_breakz (nth 0 rest 0) || ((0 <? fl) && is_flow (nth 0 rest 0)))) || ((0 <? fl) && is_flow d)) = true.

Lemma ends_word_colon_blank fl rest : ends_word fl 58 (32 :: rest).
Proof. split; reflexivity. Qed.
Lemma ends_word_flow fl d rest : fl <> 0 -> is_flow d = true -> ends_word fl d rest.
Proof.
  intros HFL HD. assert (E : (0 <? fl) = true) by (apply N.ltb_lt; lia). split.
  - unfold is_flow in HD. unfold is_blank_or_breakz, is_blank, is_breakz, is_break, is_z.
    repeat match type of HD with (_ || _) = true => apply orb_prop in HD; destruct HD as [HD|HD] end;
      apply N.eqb_eq in HD; subst d; reflexivity.
  - rewrite E, HD. cbn [andb]. apply orb_true_r.
Qed.
Lemma ends_word_not_blank fl d rest : ends_word fl d rest -> is_blank d || is_break d = false.
Proof.
  intros [H _]. unfold is_blank_or_breakz, is_breakz in H.
  destruct (is_blank d); [discriminate|]. destruct (is_break d); [discriminate|]. reflexivity.
Qed.

(* ---- the chunk loop of a plain scalar over a run of lower-case letters up to such an end ---- *)
Lemma plain_chunk_word w : forall fuel j acc lk mk toks adj ska sks ind inds fl tp ifms d rest,
  Forall lower w -> ends_word fl d rest -> (2 * length w + 2 <= fuel)%nat ->
  exists lk',
    plain_chunk str_ops fuel j acc (St (w ++ d :: rest) lk mk toks adj ska sks ind inds fl tp false ifms)
    = Ok (rev w ++ acc, St (d :: rest) lk' (adv (N.of_nat (length w)) mk) toks adj ska sks ind inds fl tp false ifms).
Proof.
  induction w as [|c w IH]; intros fuel j acc lk mk toks adj ska sks ind inds fl tp ifms d rest HW HE HF.
  - cbn [app length rev N.of_nat]. rewrite adv_0.
    assert (BASE : forall fuel0 j0 lk0, (Nat.leb (bufmaxlen str_ops - 1) j0) = false ->
              plain_chunk str_ops (S fuel0) j0 acc (St (d :: rest) lk0 mk toks adj ska sks ind inds fl tp false ifms)
              = Ok (acc, St (d :: rest) lk0 mk toks adj ska sks ind inds fl tp false ifms)).
    { intros fuel0 j0 lk0 HJ. destruct HE as [HE1 HE2]. cbn [plain_chunk]. rewrite HJ.
      unfold bind at 1, next_is at 1, bind at 1, peek at 1, peekn at 1. cbn [peek_nth str_ops St sc_in si_chars nth].
      unfold ret at 1. rewrite HE1.
      unfold bind at 1, get at 1.
      unfold bind at 1. unfold next_can_be_plain_scalar at 1.
      unfold bind at 1, peekn at 1. cbn [peek_nth str_ops St sc_in si_chars nth].
      unfold bind at 1, peek at 1, peekn at 1. cbn [peek_nth str_ops St sc_in si_chars nth sc_flow_level].
      unfold chr in *.
      destruct ((d =? 58) && (is_blank_or_breakz (nth 0 rest 0) || ((0 <? fl) && is_flow (nth 0 rest 0)))) eqn:E1.
      - unfold ret at 1. cbn [orb negb]. reflexivity.
      - cbn [orb] in HE2. rewrite HE2. unfold ret at 1. cbn [orb negb]. reflexivity. }
    destruct fuel as [|fuel]; [cbn in HF; lia|].
    destruct (Nat.leb (bufmaxlen str_ops - 1) j) eqn:EJ.
    + cbn [plain_chunk]. rewrite EJ.
      unfold bind at 1, look at 1. cbn [lookahead str_ops St sc_in si_chars si_look set_in upd].
      destruct fuel as [|fuel]; [cbn in HF; lia|].
      eexists. apply (BASE fuel 0%nat). reflexivity.
    + eexists. apply (BASE fuel j lk EJ).
  - inversion HW as [|x y Hc HW']; subst.
    cbn [app length rev]. rewrite Nat2N.inj_succ, <- N.add_1_l, <- adv_adv, <- app_assoc. cbn [app].
    assert (STEP : forall fuel0 j0 lk0, (2 * length w + 2 <= fuel0)%nat -> (Nat.leb (bufmaxlen str_ops - 1) j0) = false ->
              exists lk',
                plain_chunk str_ops (S fuel0) j0 acc (St (c :: w ++ d :: rest) lk0 mk toks adj ska sks ind inds fl tp false ifms)
                = Ok (rev w ++ c :: acc, St (d :: rest) lk' (adv (N.of_nat (length w)) (adv 1 mk)) toks adj ska sks ind inds fl tp false ifms)).
    { intros fuel0 j0 lk0 HF0 HJ. cbn [plain_chunk]. rewrite HJ.
      unfold bind at 1, next_is at 1, bind at 1, peek at 1, peekn at 1. cbn [peek_nth str_ops St sc_in si_chars nth].
      unfold ret at 1. rewrite (lower_blank_or_breakz c Hc).
      unfold bind at 1, get at 1.
      unfold bind at 1. unfold next_can_be_plain_scalar at 1.
      unfold bind at 1, peekn at 1. cbn [peek_nth str_ops St sc_in si_chars].
      unfold bind at 1, peek at 1, peekn at 1. cbn [peek_nth str_ops St sc_in si_chars nth].
      rewrite (lower_eqb c 58 Hc) by lia. cbn [andb]. rewrite (lower_flow c Hc), andb_false_r.
      unfold ret at 1. cbn [orb negb].
      unfold bind at 1, peek at 1, peekn at 1. cbn [peek_nth str_ops St sc_in si_chars nth].
      unfold bind at 1. unfold skip_non_blank at 1, bind at 1, in_skip at 1, modify at 1.
      unfold bind at 1, adv_mark at 1, modify at 1. unfold modify at 1.
      destruct (IH fuel0 (S j0) (c :: acc) lk0 (adv 1 mk) toks adj ska sks ind inds fl tp ifms d rest HW' HE HF0) as (lk' & E).
      exists lk'. exact E. }
    destruct fuel as [|fuel]; [cbn in HF; lia|].
    destruct (Nat.leb (bufmaxlen str_ops - 1) j) eqn:EJ.
    + cbn [plain_chunk]. rewrite EJ.
      unfold bind at 1, look at 1. cbn [lookahead str_ops St sc_in si_chars si_look set_in upd].
      destruct fuel as [|fuel]; [cbn in HF; lia|].
      apply (STEP fuel 0%nat); [cbn [length] in HF; lia | reflexivity].
    + apply (STEP fuel j lk); [cbn [length] in HF; lia | exact EJ].
Qed.

(* ---- a plain scalar that is one lower-case word, ended as described by [ends_word] (any context; the line is not a document marker line
        because it does not start in column 0 or the scanner is inside the line: lws = false) ---- *)
Definition top_is_block (inds : list indent_rec) : Prop := forall i r, inds = i :: r -> in_needs_block_end i = true.

Lemma unroll_nb_block inds ind : top_is_block inds -> unroll_nb inds ind = (ind, inds).
Proof. intros H. destruct inds as [|i r]; [reflexivity|]. cbn [unroll_nb]. rewrite (H i r eq_refl). reflexivity. Qed.

Ltac st_norm :=
  cbn [St set_in set_mark set_tokens set_flags set_ska set_lws set_adj set_ta set_ss set_se set_struct set_sks set_indent
       set_fl set_tp set_ifms upd sc_in sc_mark sc_tokens sc_stream_start sc_stream_end sc_adjacent sc_ska sc_sks sc_indent
       sc_indents sc_flow_level sc_tokens_parsed sc_token_available sc_lws sc_ifms si_chars si_look
       lookahead peek_nth skip1 str_ops nth tl ahead looked with_chars].

Lemma scan_plain_word F c w lk mk toks adj ska sks ind inds fl tp ifms d rest :
  lower c -> Forall lower w -> ends_word fl d rest -> top_is_block inds -> (ind + 1 <= Z.of_N (m_col mk))%Z ->
  (2 * length w + 4 <= F)%nat ->
  exists lk',
    scan_plain_scalar str_ops F (St (c :: w ++ d :: rest) lk mk toks adj ska sks ind inds fl tp false ifms)
    = Ok (({| sp_start := mk; sp_end := adv (N.of_nat (S (length w))) mk |}, TScalar Plain (c :: w)),
          St (d :: rest) lk' (adv (N.of_nat (S (length w))) mk) toks adj ska sks ind inds fl tp false ifms).
Proof.
  intros Hc HW HE HB HI HF.
  destruct F as [|F0]; [lia|].
  unfold scan_plain_scalar.
  unfold bind at 1. unfold unroll_non_block_indents at 1, modify at 1.
  st_norm. rewrite (unroll_nb_block inds ind HB).
  unfold bind at 1, get at 1. cbv zeta. st_norm.
  assert (E75 : (0 <? fl) && (Z.of_N (m_col mk) <? ind + 1)%Z = false).
  { assert (E : (Z.of_N (m_col mk) <? ind + 1)%Z = false) by (apply Z.ltb_ge; lia). rewrite E. apply andb_false_r. }
  rewrite E75.
  (* the first iteration of the outer loop *)
  unfold bind at 1.
  unfold bind at 1, look at 1. st_norm.
  unfold bind at 1, get at 1. st_norm. cbn [andb]. unfold bind at 1, ret at 1.
  unfold bind at 1, peek at 1, peekn at 1. st_norm.
  rewrite (lower_eqb c 35 Hc) by lia. cbn [orb].
  unfold bind at 1, peekn at 1. st_norm.
  rewrite (lower_eqb c 45 Hc) by lia. rewrite !andb_false_r. cbn [andb].
  rewrite (lower_blank_or_breakz c Hc).
  unfold bind at 1. unfold next_can_be_plain_scalar at 1.
  unfold bind at 1, peekn at 1. st_norm.
  unfold bind at 1, peek at 1, peekn at 1. st_norm.
  rewrite (lower_eqb c 58 Hc) by lia. cbn [andb]. rewrite (lower_flow c Hc), andb_false_r.
  unfold ret at 1.
  unfold bind at 1. unfold bind at 1, modify at 1.
  unfold bind at 1. unfold skip_non_blank at 1, bind at 1, in_skip at 1, modify at 1.
  unfold bind at 1, adv_mark at 1, modify at 1. unfold modify at 1.
  unfold bind at 1, look at 1. st_norm.
  cbn [app].
  destruct (plain_chunk_word w (S F0) 0%nat [c] (Nat.max (Nat.max lk 4) (bufmaxlen str_ops)) (adv 1 mk) toks adj ska sks ind inds fl tp ifms d rest HW HE ltac:(lia))
    as (lk1 & E1).
  match goal with |- context [bind (plain_chunk str_ops (S F0) 0 [c]) ?f ?st] =>
    change (bind (plain_chunk str_ops (S F0) 0 [c]) f st)
      with (bind (plain_chunk str_ops (S F0) 0 [c]) f
              (St (w ++ d :: rest) (Nat.max (Nat.max lk 4) (bufmaxlen str_ops)) (adv 1 mk) toks adj ska sks ind inds fl tp false ifms))
  end.
  rewrite (bind_Ok _ _ _ _ _ E1).
  unfold bind at 1, mark at 1, gets at 1. unfold ret at 1. st_norm.
  unfold bind at 1, peek at 1, peekn at 1. st_norm.
  rewrite (ends_word_not_blank fl d rest HE). cbn [negb]. unfold ret at 1.
  unfold bind at 1, get at 1. st_norm. unfold bind at 1, ret at 1. cbn [fst snd].
  exists lk1.
  unfold chr in *.
  assert (RV : rev (rev w ++ [c]) = c :: w) by (rewrite rev_app_distr, rev_involutive; reflexivity).
  rewrite RV.
  rewrite adv_adv. replace (1 + N.of_nat (length w)) with (N.of_nat (S (length w))) by lia.
  destruct (rev w ++ [c]) as [|x l] eqn:E; [apply app_eq_nil in E; destruct E; discriminate | reflexivity].
Qed.

Definition word_key (tp : N) (toks : list token) (mk : marker) : simple_key :=
  {| sk_possible := true; sk_required := false; sk_token_number := tp + N.of_nat (length toks); sk_mark := mk |}.
Definition word_token (c : N) (w : list N) (mk : marker) : token :=
  ({| sp_start := mk; sp_end := adv (N.of_nat (S (length w))) mk |}, TScalar Plain (c :: w)).

(* ---- the whole fetch, in flow context: the word becomes a Scalar token; if a key may start here the word is the new
        key candidate of this flow level ---- *)
Lemma fetch_plain_word_flow F c w lk mk toks adj ska sks ind inds fl tp ifms d rest :
  lower c -> Forall lower w -> ends_word fl d rest -> top_is_block inds -> (ind + 1 <= Z.of_N (m_col mk))%Z -> fl <> 0 ->
  (2 * length w + 4 <= F)%nat ->
  exists lk',
    fetch_plain_scalar str_ops F (St (c :: w ++ d :: rest) lk mk toks adj ska sks ind inds fl tp false ifms)
    = Ok (tt, St (d :: rest) lk' (adv (N.of_nat (S (length w))) mk) (toks ++ [word_token c w mk]) adj false
                 (if ska then word_key tp toks mk :: tl sks else sks) ind inds fl tp false ifms).
Proof.
  intros Hc HW HE HB HI HFL HF. unfold fetch_plain_scalar.
  unfold bind at 1. unfold save_simple_key at 1, bind at 1, get at 1. st_norm.
  apply N.eqb_neq in HFL. rewrite HFL. cbn [andb].
  destruct ska.
  - unfold bind at 1, ret at 1. unfold put at 1.
    unfold bind at 1, disallow_simple_key at 1, modify at 1. st_norm.
    destruct (scan_plain_word F c w lk mk toks adj false (word_key tp toks mk :: tl sks) ind inds fl tp ifms d rest Hc HW HE HB HI HF)
      as (lk' & E).
    match goal with |- context [bind (scan_plain_scalar str_ops F) ?f ?st] =>
      change (bind (scan_plain_scalar str_ops F) f st)
        with (bind (scan_plain_scalar str_ops F) f
                (St (c :: w ++ d :: rest) lk mk toks adj false (word_key tp toks mk :: tl sks) ind inds fl tp false ifms)) end.
    rewrite (bind_Ok _ _ _ _ _ E). exists lk'. reflexivity.
  - unfold ret at 1.
    unfold bind at 1, disallow_simple_key at 1, modify at 1. st_norm.
    destruct (scan_plain_word F c w lk mk toks adj false sks ind inds fl tp ifms d rest Hc HW HE HB HI HF) as (lk' & E).
    match goal with |- context [bind (scan_plain_scalar str_ops F) ?f ?st] =>
      change (bind (scan_plain_scalar str_ops F) f st)
        with (bind (scan_plain_scalar str_ops F) f
                (St (c :: w ++ d :: rest) lk mk toks adj false sks ind inds fl tp false ifms)) end.
    rewrite (bind_Ok _ _ _ _ _ E). exists lk'. reflexivity.
Qed.

Lemma lower_no_marker_start (s : sc strin) c : lower c -> no_marker_start s c.
Proof. intros [A B]. split; [lia|]. right. repeat split; lia. Qed.

Lemma fetch_next_token_word_flow F c w lk mk toks adj ska sks ind inds fl tp ifms d rest :
  lower c -> Forall lower w -> ends_word fl d rest -> top_is_block inds -> (ind + 1 <= Z.of_N (m_col mk))%Z -> fl <> 0 ->
  (2 * length w + 4 <= F)%nat ->
  exists lk',
    fetch_next_token str_ops F (St (c :: w ++ d :: rest) lk mk toks adj ska sks ind inds fl tp false ifms)
    = Ok (tt, St (d :: rest) lk' (adv (N.of_nat (S (length w))) mk) (toks ++ [word_token c w mk]) adj false
                 (if ska then word_key tp toks mk :: tl sks else sks) ind inds fl tp false ifms).
Proof.
  intros Hc HW HE HB HI HFL HF.
  rewrite fetch_next_token_flow; [ | reflexivity | lia | exact HFL | exact (lower_not_skipped c Hc)
                                   | exact (lower_no_marker_start _ c Hc) ].
  match goal with |- context [dispatch F ?st ?st] =>
    change st with (St (c :: w ++ d :: rest) (Nat.max (Nat.max (Nat.max lk 1) 1) 4) mk toks adj ska sks ind inds fl tp false ifms) end.
  rewrite dispatch_lower; [ | exact Hc | cbn [St sc_indent sc_mark]; lia ].
  apply fetch_plain_word_flow; assumption.
Qed.

(* ---- brute force for ONE symbolic lower-case letter in an otherwise concrete situation: 26 evaluations ---- *)
Lemma lower_cases c : lower c ->
  In c [97;98;99;100;101;102;103;104;105;106;107;108;109;110;111;112;113;114;115;116;117;118;119;120;121;122].
Proof.
  intros [A B].
  assert (E : c = 97 + N.of_nat (N.to_nat (c - 97))) by lia.
  set (d := N.to_nat (c - 97)) in *. assert (HD : (d < 26)%nat) by lia. clearbody d. subst c.
  do 26 (destruct d as [|d]; [cbn; tauto|]). lia.
Qed.

Definition seq_start_key : simple_key :=
  {| sk_possible := true; sk_required := false; sk_token_number := 1; sk_mark := {| m_index := 0; m_line := 1; m_col := 0 |} |}.
Definition level_key : simple_key := {| sk_possible := false; sk_required := false; sk_token_number := 0; sk_mark := mk0 |}.
Definition seq_start_token : token :=
  ({| sp_start := {| m_index := 0; m_line := 1; m_col := 0 |}; sp_end := {| m_index := 2; m_line := 1; m_col := 2 |} |}, TFlowSequenceStart).

(* the text starts with "[ " and a lower-case letter: the state behind the FlowSequenceStart token *)
Lemma fetch_root_sequence_start F' c rest :
  lower c ->
  fetch_next_token str_ops (S (S (S F'))) (after_stream_start (91 :: 32 :: c :: rest))
  = Ok (tt, St (c :: rest) 4 {| m_index := 2; m_line := 1; m_col := 2 |} [seq_start_token] 0 true
               [level_key; seq_start_key] (-1) [] 1 1 false [ImPossible]).
Proof.
  intros Hc. pose proof (lower_cases c Hc) as H. cbn [In] in H.
  repeat (destruct H as [<-|H]; [vm_compute; reflexivity|]). contradiction.
Qed.

(* ':' followed by a blank is the value indicator *)
Lemma dispatch_value F (s : sc strin) rest :
  chars_of s = 58 :: 32 :: rest -> (sc_indent s <= Z.of_N (m_col (sc_mark s)))%Z ->
  dispatch F s s = fetch_value str_ops F s.
Proof.
  intros HC HI. unfold dispatch.
  assert (EL : (Z.of_N (m_col (sc_mark s)) <? sc_indent s)%Z = false) by (apply Z.ltb_ge; exact HI). rewrite EL.
  unfold bind at 1, peek at 1, peekn at 1. cbn [peek_nth str_ops]. rewrite HC. cbn [nth].
  unfold bind at 1, peekn at 1. cbn [peek_nth str_ops]. rewrite HC. cbn [nth]. cbv zeta.
  reflexivity.
Qed.

(* one more round of [fetch_more_tokens] in flow context: tokens are queued, and a key candidate whose token would be the
   next one to deliver is still possible *)
Lemma fetch_more_tokens_flow_step F f (s : sc strin) t ts :
  sc_tokens s = t :: ts -> sc_flow_level s <> 0 ->
  existsb (fun k => sk_possible k && (sk_token_number k =? sc_tokens_parsed s)) (sc_sks s) = true ->
  fetch_more_tokens str_ops F (S f) s
  = (fetch_next_token str_ops F ;;; fetch_more_tokens str_ops F f) (set_sks (sc_sks s) s).
Proof.
  intros HT HFL HN. cbn [fetch_more_tokens].
  unfold bind at 1, get at 1. rewrite HT.
  unfold bind at 1. rewrite (bind_Ok _ _ _ _ _ (stale_simple_keys_flow s HFL)).
  unfold bind at 1, get at 1. unfold ret at 1.
  cbn [sc_sks set_sks set_struct sc_tokens_parsed]. rewrite HN. reflexivity.
Qed.

Lemma fetch_more_tokens_empty_step F f (s : sc strin) :
  sc_tokens s = [] ->
  fetch_more_tokens str_ops F (S f) s = (fetch_next_token str_ops F ;;; fetch_more_tokens str_ops F f) s.
Proof.
  intros HT. cbn [fetch_more_tokens]. unfold bind at 1, get at 1. rewrite HT. unfold bind at 1, ret at 1. reflexivity.
Qed.

(* ================================================================================================ *)
(* the family of /repo 57aa316: EVERY text  "[ " k ": " ...  whose key k is a word of more than 1024  *)
(* lower-case letters is rejected, with site 98 at the ':' -- whatever follows                         *)
(* ================================================================================================ *)
Theorem long_flow_pair_key_scan_error c w rest :
  lower c -> Forall lower w -> (1024 <= length w)%nat ->
  let l := [91; 32] ++ (c :: w) ++ 58 :: 32 :: rest in
  next_token str_ops (scan_fuel l) (after_stream_start l)
  = Err 98 {| m_index := 2 + N.of_nat (S (length w)); m_line := 1; m_col := 2 + N.of_nat (S (length w)) |}.
Proof.
  intros Hc HW HL l.
  assert (HF : exists F', scan_fuel l = S (S (S F')) /\ (2 * length w + 4 <= F')%nat).
  { exists (scan_fuel l - 3)%nat. unfold scan_fuel, l. cbn [app length]. rewrite app_length. cbn [length].
    unfold chr in *. split; lia. }
  destruct HF as (F' & HF & HF'). rewrite HF. set (F := S (S (S F'))).
  unfold next_token. unfold bind at 1, get at 1. cbn [after_stream_start sc_stream_end sc_token_available].
  apply bind_Err.
  (* round 1: "[" *)
  change (fetch_more_tokens str_ops F F) with (fetch_more_tokens str_ops F (S (S (S F')))).
  rewrite (fetch_more_tokens_empty_step F (S (S F')) (after_stream_start l) eq_refl).
  unfold l. cbn [app].
  rewrite (bind_Ok _ _ _ _ _ (fetch_root_sequence_start F' c (w ++ 58 :: 32 :: rest) Hc)).
  (* round 2: the word *)
  set (m2 := {| m_index := 2; m_line := 1; m_col := 2 |}).
  rewrite (fetch_more_tokens_flow_step F (S F') _ seq_start_token []); [ | reflexivity | cbn; discriminate | reflexivity ].
  destruct (fetch_next_token_word_flow F c w 4 m2 [seq_start_token] 0 true [level_key; seq_start_key] (-1)%Z [] 1 1 [ImPossible] 58 (32 :: rest))
    as (lk2 & E2); try assumption.
  { apply ends_word_colon_blank. }
  { intros i r E; discriminate. } { cbn. lia. } { discriminate. } { unfold F. lia. }
  match goal with |- bind _ _ ?st = _ =>
    change st with (St (c :: w ++ 58 :: 32 :: rest) 4 m2 [seq_start_token] 0 true [level_key; seq_start_key] (-1)%Z [] 1 1 false [ImPossible]) end.
  rewrite (bind_Ok _ _ _ _ _ E2). cbn [tl app].
  (* round 3: the ':' *)
  set (m3 := adv (N.of_nat (S (length w))) m2).
  rewrite (fetch_more_tokens_flow_step F F' _ seq_start_token [word_token c w m2]); [ | reflexivity | cbn; discriminate | reflexivity ].
  apply bind_Err.
  match goal with |- fetch_next_token str_ops F ?st = _ => set (s3 := st) end.
  rewrite (fetch_next_token_flow F s3); [ | reflexivity | unfold F; lia | cbn; discriminate
                                          | cbn; repeat split; discriminate | cbn; split; [discriminate | right; repeat split; discriminate] ].
  match goal with |- dispatch F ?st ?st = _ => set (s4 := st) end.
  rewrite (dispatch_value F s4 rest); [ | reflexivity | cbn; lia ].
  rewrite (flow_pair_key_limit_rejected F s4 (word_key 1 [seq_start_token] m2) [seq_start_key] ImPossible []).
  - unfold s4, s3, m3, m2. cbn. f_equal.
  - reflexivity.
  - reflexivity.
  - reflexivity.
  - left; reflexivity.
  - right. unfold s4, s3, m3, m2, word_key. cbn [ahead looked with_chars set_sks set_struct set_in upd St sc_mark sk_mark m_index adv].
    change SIMPLE_KEY_MAX with 1024. lia.
  - left. cbn. discriminate.
  - cbn. lia.
  - cbn. lia.
Qed.

Theorem long_flow_pair_key_family_rejected k rest :
  lower_word k -> (1024 < length k)%nat -> snd (run_str ([91; 32] ++ k ++ 58 :: 32 :: rest)) <> PDone.
Proof.
  intros [HN HW] HL. destruct k as [|c w]; [contradiction|].
  inversion HW as [|x y Hc HW']; subst.
  set (l := [91; 32] ++ (c :: w) ++ 58 :: 32 :: rest).
  refine (reachable_scan_error_rejected l 1 (after_stream_start l) 98
            {| m_index := 2 + N.of_nat (S (length w)); m_line := 1; m_col := 2 + N.of_nat (S (length w)) |}
            (reach_after_stream_start l) _ _); [lia|].
  apply (long_flow_pair_key_scan_error c w rest Hc HW'). cbn [length] in HL. lia.
Qed.

(* the damage operator of the repaired finding, as a whole: a PROVED fragment of [C06_full] *)
Theorem damaged_long_key_rejected s : damaged_long_key s -> snd (run_str s) <> PDone.
Proof.
  intros H. destruct H as [k v Hk Hv HL].
  replace ([91; 32] ++ k ++ [58; 32] ++ v ++ [32; 93; 10]) with ([91; 32] ++ k ++ 58 :: 32 :: (v ++ [32; 93; 10])) by reflexivity.
  apply long_flow_pair_key_family_rejected; assumption.
Qed.

(* ================================================================================================ *)
(* flat flow sequences of words, any number of words of any length:  "[" w1 ", " w2 ", " ... wn        *)
(* ================================================================================================ *)
Definition seq_start_token0 : token :=
  ({| sp_start := {| m_index := 0; m_line := 1; m_col := 0 |}; sp_end := {| m_index := 1; m_line := 1; m_col := 1 |} |}, TFlowSequenceStart).

(* the text starts with "[" and a lower-case letter *)
Lemma fetch_root_sequence_start0 F' c rest :
  lower c ->
  fetch_next_token str_ops (S (S (S F'))) (after_stream_start (91 :: c :: rest))
  = Ok (tt, St (c :: rest) 4 {| m_index := 1; m_line := 1; m_col := 1 |} [seq_start_token0] 0 true
               [level_key; seq_start_key] (-1) [] 1 1 false [ImPossible]).
Proof.
  intros Hc. pose proof (lower_cases c Hc) as H. cbn [In] in H.
  repeat (destruct H as [<-|H]; [vm_compute; reflexivity|]). contradiction.
Qed.

Lemma dispatch_entry F (s : sc strin) rest :
  chars_of s = 44 :: rest -> (sc_indent s <= Z.of_N (m_col (sc_mark s)))%Z ->
  dispatch F s s = fetch_flow_entry str_ops F s.
Proof.
  intros HC HI. unfold dispatch.
  assert (EL : (Z.of_N (m_col (sc_mark s)) <? sc_indent s)%Z = false) by (apply Z.ltb_ge; exact HI). rewrite EL.
  unfold bind at 1, peek at 1, peekn at 1. cbn [peek_nth str_ops]. rewrite HC. cbn [nth].
  unfold bind at 1, peekn at 1. cbn [peek_nth str_ops]. cbv zeta.
  reflexivity.
Qed.

Definition entry_token (mk : marker) : token := ({| sp_start := mk; sp_end := adv 2 mk |}, TFlowEntry).

(* ", " in front of a word, inside a flow sequence whose implicit-pair state is Possible *)
Lemma fetch_next_token_entry_flow F c rest lk mk toks adj ska key sks ind inds fl tp r :
  lower c -> (ind <= Z.of_N (m_col mk))%Z -> fl <> 0 -> sk_required key = false -> (2 < F)%nat ->
  exists lk',
    fetch_next_token str_ops F (St (44 :: 32 :: c :: rest) lk mk toks adj ska (key :: sks) ind inds fl tp false (ImPossible :: r))
    = Ok (tt, St (c :: rest) lk' (adv 2 mk) (toks ++ [entry_token mk]) adj true (invalidate key :: sks) ind inds fl tp false
                 (ImPossible :: r)).
Proof.
  intros Hc HI HFL HR HF.
  rewrite fetch_next_token_flow; [ | reflexivity | lia | exact HFL | cbn; repeat split; discriminate
                                   | cbn; split; [discriminate | right; repeat split; discriminate] ].
  match goal with |- context [dispatch F ?st ?st] => set (s4 := st) end.
  rewrite (dispatch_entry F s4 (32 :: c :: rest)); [ | reflexivity | exact HI ].
  unfold fetch_flow_entry.
  unfold bind at 1. unfold remove_simple_key at 1, bind at 1, get at 1.
  unfold s4. st_norm. rewrite HR, andb_false_r.
  unfold put at 1.
  unfold bind at 1, allow_simple_key at 1, modify at 1. st_norm.
  unfold bind at 1, mark at 1, gets at 1. st_norm.
  unfold bind at 1. unfold end_implicit_mapping at 1, bind at 1, get at 1. st_norm. unfold ret at 1.
  unfold bind at 1. unfold skip_non_blank at 1, bind at 1, in_skip at 1, modify at 1.
  unfold bind at 1, adv_mark at 1, modify at 1. unfold modify at 1. st_norm.
  match goal with |- context [bind (skip_ws_to_eol str_ops F SkipYes) ?f ?st] => set (s5 := st) end.
  assert (HC5 : chars_of s5 = [32] ++ c :: rest) by reflexivity.
  assert (HB5 : blank_run SkipYes [32]) by (constructor; [left; reflexivity | constructor]).
  assert (HS5 : stops_ws SkipYes c).
  { destruct Hc as [A B]. repeat split; try lia; intros E; lia. }
  destruct (skip_ws_to_eol_run [32] F SkipYes s5 c rest HC5 HB5 HS5 ltac:(cbn [length]; lia)) as (lk' & tw & E).
  rewrite (bind_Ok _ _ _ _ _ E).
  unfold bind at 1, mark at 1, gets at 1. unfold push_tok, modify.
  exists lk'. unfold s5, entry_token, invalidate, spn. st_norm. rewrite HR.
  rewrite adv_adv. reflexivity.
Qed.

Lemma rounds_app F n m s s' s'' : rounds F n s s' -> rounds F m s' s'' -> rounds F (n + m) s s''.
Proof.
  induction 1 as [s|n s s1 s2 s3 HN HFe HR IH]; intros H2; [exact H2|].
  cbn [Nat.add]. eapply rounds_S; [exact HN | exact HFe | apply IH; exact H2].
Qed.

Lemma need_more_flow (s : sc strin) t ts :
  sc_tokens s = t :: ts -> sc_flow_level s <> 0 ->
  existsb (fun k => sk_possible k && (sk_token_number k =? sc_tokens_parsed s)) (sc_sks s) = true ->
  need_more s = Ok (true, set_sks (sc_sks s) s).
Proof.
  intros HT HFL HN. unfold need_more. unfold bind at 1, get at 1. rewrite HT.
  rewrite (bind_Ok _ _ _ _ _ (stale_simple_keys_flow s HFL)).
  unfold bind at 1, get at 1. unfold ret.
  cbn [sc_sks set_sks set_struct sc_tokens_parsed]. rewrite HN. reflexivity.
Qed.

(* the state behind a word of a root-level flat flow sequence: the word is the key candidate of level 1, the '[' that of
   level 0 (still possible: that is why the refill goes on) *)
Definition FS (chars : list N) (lk : nat) (mk : marker) (toks : list token) (key : simple_key) : sc strin :=
  St chars lk mk toks 0 false [key; seq_start_key] (-1)%Z [] 1 1 false [ImPossible].

Fixpoint flat_tail (ws : list (N * list N)) : list N :=
  match ws with
  | [] => []
  | (c, w) :: r => 44 :: 32 :: c :: w ++ flat_tail r
  end.
Definition lower_cw (cw : N * list N) : Prop := lower (fst cw) /\ Forall lower (snd cw).

Lemma flat_tail_head_flow ws d rest : is_flow d = true -> is_flow (nth 0 (flat_tail ws ++ d :: rest) 0) = true.
Proof. intros H. destruct ws as [|[c w] r]; [exact H | reflexivity]. Qed.

Lemma FS_need_more chars lk mk toks key t ts :
  toks = t :: ts -> need_more (FS chars lk mk toks key) = Ok (true, FS chars lk mk toks key).
Proof.
  intros ->. rewrite (need_more_flow _ t ts); [reflexivity | reflexivity | discriminate | ].
  cbn [FS St sc_sks sc_tokens_parsed existsb seq_start_key sk_possible sk_token_number].
  apply orb_true_iff. right. reflexivity.
Qed.

Lemma flat_rounds F ws : forall lk mk toks key t ts d rest,
  Forall lower_cw ws -> Forall (fun cw => (2 * length (snd cw) + 4 <= F)%nat) ws -> (2 < F)%nat ->
  is_flow d = true -> sk_required key = false -> toks = t :: ts ->
  exists lk' mk' toks' key' t' ts',
    rounds F (2 * length ws) (FS (flat_tail ws ++ d :: rest) lk mk toks key) (FS (d :: rest) lk' mk' toks' key')
    /\ sk_required key' = false /\ toks' = t' :: ts'.
Proof.
  induction ws as [|[c w] r IH]; intros lk mk toks key t ts d rest HW HFu HF HD HR HT.
  - exists lk, mk, toks, key, t, ts. split; [apply rounds_0 | split; assumption].
  - inversion HW as [|x y [Hc Hw] HW']; subst x y. inversion HFu as [|x y Hf HFu']; subst x y.
    cbn [fst snd] in Hc, Hw, Hf. cbn [flat_tail]. rewrite <- !app_comm_cons, <- app_assoc.
    (* ", " *)
    destruct (fetch_next_token_entry_flow F c (w ++ flat_tail r ++ d :: rest) lk mk toks 0 false key [seq_start_key] (-1)%Z [] 1 1 []
                Hc ltac:(lia) ltac:(discriminate) HR HF) as (lk1 & E1).
    (* the word *)
    assert (HE : ends_word 1 (nth 0 (flat_tail r ++ d :: rest) 0) (tl (flat_tail r ++ d :: rest))).
    { apply ends_word_flow; [discriminate | apply flat_tail_head_flow; exact HD]. }
    assert (HS : flat_tail r ++ d :: rest = nth 0 (flat_tail r ++ d :: rest) 0 :: tl (flat_tail r ++ d :: rest)).
    { destruct r as [|[c' w'] r']; reflexivity. }
    rewrite HS in E1 |- *.
    destruct (fetch_next_token_word_flow F c w lk1 (adv 2 mk) (toks ++ [entry_token mk]) 0 true [invalidate key; seq_start_key] (-1)%Z [] 1 1
                [ImPossible] _ _ Hc Hw HE ltac:(intros i r0 E; discriminate) ltac:(cbn; lia) ltac:(discriminate) Hf) as (lk2 & E2).
    rewrite <- HS in E2 |- *. cbn [tl] in E2.
    set (toks2 := (toks ++ [entry_token mk]) ++ [word_token c w (adv 2 mk)]) in *.
    assert (HT2 : exists t2 ts2, toks2 = t2 :: ts2).
    { unfold toks2. rewrite HT. cbn [app]. eauto. }
    destruct HT2 as (t2 & ts2 & HT2).
    destruct (IH lk2 (adv (N.of_nat (S (length w))) (adv 2 mk)) toks2 (word_key 1 (toks ++ [entry_token mk]) (adv 2 mk)) t2 ts2 d rest
                HW' HFu' HF HD eq_refl HT2) as (lk' & mk' & toks' & key' & t' & ts' & R & HR' & HT').
    exists lk', mk', toks', key', t', ts'. split; [|split; assumption].
    replace (2 * length ((c, w) :: r))%nat with (S (S (2 * length r))) by (cbn [length]; lia).
    eapply rounds_S; [apply (FS_need_more _ _ _ _ _ t ts HT) | rewrite <- HS in E1; exact E1 | ].
    assert (HT1 : exists t1 ts1, toks ++ [entry_token mk] = t1 :: ts1) by (rewrite HT; cbn [app]; eauto).
    destruct HT1 as (t1 & ts1 & HT1).
    eapply rounds_S; [ | exact E2 | exact R].
    rewrite (need_more_flow _ t1 ts1); [reflexivity | exact HT1 | discriminate | ].
    cbn [St sc_sks sc_tokens_parsed existsb seq_start_key invalidate sk_possible sk_token_number].
    apply orb_true_iff. right. reflexivity.
Qed.

Lemma flat_tail_length ws : Forall (fun cw => (length (snd cw) <= length (flat_tail ws))%nat) ws /\ (length ws <= length (flat_tail ws))%nat.
Proof.
  induction ws as [|[c w] r [IH1 IH2]]; [split; [constructor | cbn; lia]|].
  cbn [flat_tail length]. rewrite app_length. split; [|lia].
  constructor; [cbn [snd]; lia|]. eapply Forall_impl; [|exact IH1]. intros [c' w'] H. cbn [snd] in *. lia.
Qed.

(* EVERY text  "[" w1 ", " w2 ", " ... wn "}" ...  (n >= 1 words of lower-case letters, any lengths): the '}' is scan error 48
   -- the swapped-closer damage of every flat flow sequence of words, whatever follows *)
Theorem flat_sequence_wrong_closer_rejected c1 w1 ws rest :
  lower c1 -> Forall lower w1 -> Forall lower_cw ws ->
  snd (run_str (91 :: c1 :: w1 ++ flat_tail ws ++ 125 :: rest)) <> PDone.
Proof.
  intros Hc1 Hw1 HWS.
  set (l := 91 :: c1 :: w1 ++ flat_tail ws ++ 125 :: rest).
  destruct (flat_tail_length ws) as [HLW HLN].
  assert (HLEN : length l = (2 + length w1 + length (flat_tail ws) + S (length rest))%nat).
  { unfold l. cbn [length]. rewrite !app_length. cbn [length]. unfold chr in *. lia. }
  assert (HF : exists F', scan_fuel l = S (S (S F'))) by (exists (scan_fuel l - 3)%nat; unfold scan_fuel; lia).
  destruct HF as (F' & HF).
  assert (HF1 : (2 * length w1 + 4 <= scan_fuel l)%nat) by (unfold scan_fuel; lia).
  assert (HFW : Forall (fun cw => (2 * length (snd cw) + 4 <= scan_fuel l)%nat) ws).
  { eapply Forall_impl; [|exact HLW]. intros cw H. cbv beta in H. unfold scan_fuel. unfold chr in *. lia. }
  set (m1 := {| m_index := 1; m_line := 1; m_col := 1 |}).
  (* the word w1 *)
  assert (HS : flat_tail ws ++ 125 :: rest = nth 0 (flat_tail ws ++ 125 :: rest) 0 :: tl (flat_tail ws ++ 125 :: rest)).
  { destruct ws as [|[c' w'] r']; reflexivity. }
  assert (HE : ends_word 1 (nth 0 (flat_tail ws ++ 125 :: rest) 0) (tl (flat_tail ws ++ 125 :: rest))).
  { apply ends_word_flow; [discriminate | apply flat_tail_head_flow; reflexivity]. }
  destruct (fetch_next_token_word_flow (scan_fuel l) c1 w1 4 m1 [seq_start_token0] 0 true [level_key; seq_start_key] (-1)%Z [] 1 1
              [ImPossible] _ _ Hc1 Hw1 HE ltac:(intros i r0 E; discriminate) ltac:(cbn; lia) ltac:(discriminate) HF1) as (lk2 & E2).
  rewrite <- HS in E2. cbn [tl app] in E2.
  (* the other words *)
  destruct (flat_rounds (scan_fuel l) ws lk2 (adv (N.of_nat (S (length w1))) m1) [seq_start_token0; word_token c1 w1 m1]
              (word_key 1 [seq_start_token0] m1) seq_start_token0 [word_token c1 w1 m1] 125 rest HWS HFW ltac:(unfold scan_fuel; lia)
              eq_refl eq_refl eq_refl) as (lk' & mk' & toks' & key' & t' & ts' & R & HR' & HT').
  apply (reachable_round_error_rejected l 1 (2 + 2 * length ws) (after_stream_start l)
           (FS (125 :: rest) lk' mk' toks' key') (FS (125 :: rest) lk' mk' toks' key') 48 mk' (reach_after_stream_start l)).
  - lia.
  - reflexivity.
  - reflexivity.
  - cbn [Nat.add]. eapply rounds_S; [reflexivity | | eapply rounds_S; [ | exact E2 | exact R ]].
    + rewrite HF. unfold l. apply (fetch_root_sequence_start0 F' c1 _ Hc1).
    + rewrite (need_more_flow _ seq_start_token0 []); [reflexivity | reflexivity | discriminate | reflexivity].
  - unfold scan_fuel. unfold chr in *. lia.
  - apply (FS_need_more _ _ _ _ _ t' ts' HT').
  - apply (mismatched_flow_closer_fetch_rejected (scan_fuel l) (FS (125 :: rest) lk' mk' toks' key') false ImPossible []);
      try reflexivity; try (unfold scan_fuel; lia); try discriminate.
    cbn [FS St sc_indent sc_mark]. lia.
Qed.

(* ---- the same as a statement about the damage operator DSwapCloser of the full property, for every flat sequence ---- *)
Definition split_word (k : list N) : N * list N := (hd 0 k, tl k).

Lemma join_flat_tail k r :
  Forall lower_word (k :: r) -> join_with [44; 32] (k :: r) = k ++ flat_tail (map split_word r).
Proof.
  revert k. induction r as [|k' r IH]; intros k H.
  - cbn. rewrite app_nil_r. reflexivity.
  - inversion H as [|x y Hk H']; subst.
    change (join_with [44; 32] (k :: k' :: r)) with (k ++ [44; 32] ++ join_with [44; 32] (k' :: r)).
    rewrite (IH k' H').
    inversion H' as [|x y [Hne _] _]; subst. destruct k' as [|c w]; [contradiction|].
    cbn [map flat_tail split_word hd tl]. reflexivity.
Qed.

Lemma lower_word_split k : lower_word k -> k = fst (split_word k) :: snd (split_word k) /\ lower_cw (split_word k).
Proof.
  intros [Hne HF]. destruct k as [|c w]; [contradiction|]. cbn. split; [reflexivity|].
  inversion HF; subst. split; assumption.
Qed.

Theorem swap_closer_flat_sequence_rejected ws :
  ws <> [] -> Forall lower_word ws ->
  let f := WSeq (map WWord ws) in
  damaged (removelast (render_flow f) ++ [other_closer (last (render_flow f) 0); 10])
  /\ snd (run_str (removelast (render_flow f) ++ [other_closer (last (render_flow f) 0); 10])) <> PDone.
Proof.
  intros Hne HW f. split.
  - apply DSwapCloser; [|reflexivity]. apply OkSeq. apply Forall_forall. intros x Hin.
    apply in_map_iff in Hin. destruct Hin as (k & <- & Hk). apply OkWord.
    exact (proj1 (Forall_forall _ _) HW k Hk).
  - unfold f. cbn [render_flow]. rewrite map_map. cbn [render_flow]. rewrite map_id.
    rewrite app_assoc, removelast_last, last_last.
    change (other_closer 93) with 125.
    destruct ws as [|k r]; [contradiction|].
    rewrite (join_flat_tail k r HW).
    inversion HW as [|x y Hk HW']; subst.
    destruct (lower_word_split k Hk) as [Ek [Hc Hw]].
    rewrite Ek. rewrite <- !app_assoc. cbn [app].
    apply (flat_sequence_wrong_closer_rejected _ _ (map split_word r) [10] Hc Hw).
    apply Forall_forall. intros cw Hin. apply in_map_iff in Hin. destruct Hin as (k' & <- & Hk').
    exact (proj2 (lower_word_split k' (proj1 (Forall_forall _ _) HW' k' Hk'))).
Qed.
