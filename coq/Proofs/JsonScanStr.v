(* C13, scanner half (3): a JSON string.  The double-quoted scalar loop (C04: Proofs/FlowScalarProofs.v, QuotedFoldProofs.v)
   run on one segment of literal characters (blanks included), two-character escapes and \uXXXX escapes, with the exact
   final state; then fetch_flow_scalar around it (simple key, whitespace up to the next token, sc_adjacent). *)
From Coq Require Import List NArith ZArith Bool Arith Lia.
Import ListNotations.
Require Import Parser SBase SPrim SDir SScalar SFetch Pipe Json FlowFold FlowScalarProofs PlainScalarProofs QuotedFoldProofs JsonScanBase JsonScanTok.
Open Scope N_scope.
Open Scope mon_scope.

Arguments scan_flow_scalar : simpl never.

(* ---------- the characters between the quotes ---------- *)
Lemma quoted_body F start s0 items tail l m :
  forallb item_wf items = true -> (length items + 3 <= F)%nat -> (sc_indent s0 <= Z.of_N (m_col m))%Z -> m_col m <> 0 ->
  exists l' w',
    loop F false start F [] false 0 [] (st_with s0 (flat_map item_src items ++ 34 :: tail) l m false)
    = Ok (rev (map item_val items), st_with s0 (34 :: tail) l' (adv (N.of_nat (length (flat_map item_src items))) m) w').
Proof.
  intros Hwf HF Hind Hcol.
  set (Q := fun (acc : list chr) (m' : marker) (o : outcome (list chr * sc strin)) =>
              exists l' w', o = Ok (acc, st_with s0 (34 :: tail) l' m' w')).
  assert (Hafter : forall fc f acc l0 m0 w0, (1 <= fc)%nat -> (1 <= f)%nat -> colq_ok s0 m0 ->
            Q acc m0 (bind (consume_nonws str_ops fc false acc start) (after_word F false (loop F false start f) false 0 [])
                           (st_with s0 (34 :: tail) l0 m0 w0))).
  { intros fc f acc l0 m0 w0 Hfc _ _. destruct fc as [|fc]; [lia|].
    assert (Hs : stops false 34 tail) by (right; split; [reflexivity|discriminate]).
    rewrite (bind_Ok _ _ _ _ _ (consume_nonws_stop false 34 tail fc acc start s0 l0 m0 w0 Hs)).
    rewrite (after_word_quote F false s0 _ false 0 [] acc false tail). unfold Q. eauto. }
  destruct (PWq_PBq F false start s0 34 tail Q 1 Hafter eq_refl items) as [W _].
  destruct F as [|F']; [lia|]. cbn [loop].
  assert (Hhead : exists x tl0, flat_map item_src items ++ 34 :: tail = x :: tl0 /\ is_z x = false).
  { pose proof (ssrc_no_nul false items Hwf) as Hnn. unfold ssrc, isrc in Hnn.
    destruct (flat_map item_src items) as [|x r] eqn:E.
    - exists 34, tail. split; reflexivity.
    - exists x, (r ++ 34 :: tail). split; [reflexivity|]. inversion Hnn; subst. unfold is_z. apply N.eqb_neq. assumption. }
  destruct Hhead as (x & tl0 & Ex & Hz).
  rewrite Ex. rewrite loop_body_head; [|exact Hz|intros E; contradiction|exact Hind]. rewrite <- Ex.
  specialize (W (S F') F' [] (Nat.max l 4) m false Hwf (fun _ => quote_plain_head false)).
  unfold Q in W. rewrite app_nil_r in W. apply W; try (cbn [length]; lia). exact Hind.
Qed.

(* ---------- behind the closing quote ---------- *)
(* what may follow a string (after blanks): a line break or the end of input; in a collection also , ] } : *)
Definition sfollow (fl : N) (c : N) : bool :=
  is_breakz c || ((0 <? fl) && ((c =? 44) || (c =? 125) || (c =? 93) || (c =? 58))).

Lemma sfollow_stop fl c : sfollow fl c = true -> (c =? 32) = false /\ (c =? 9) = false /\ (c =? 35) = false.
Proof.
  unfold sfollow. intros H. apply orb_prop in H as [H|H].
  - destruct (breakz_cases c H) as [-> | [-> | ->]]; repeat split.
  - apply andb_prop in H as [_ H]. repeat (apply orb_prop in H as [H|H]); apply N.eqb_eq in H; subst c; repeat split.
Qed.

Lemma quoted_finish F start s0 str b r l m w :
  forallb is_sp b = true -> sfollow (sc_flow_level s0) (nth 0 r 0) = true -> (length b < F)%nat ->
  exists l',
    finish_flow_scalar F false start str (st_with s0 (34 :: b ++ r) l m w)
    = Ok (({| sp_start := start; sp_end := adv (N.of_nat (length b)) (adv 1 m) |}, TScalar DoubleQuoted (rev str)),
          st_with s0 r l' (adv (N.of_nat (length b)) (adv 1 m)) false).
Proof.
  intros Hb Hf HF. destruct (sfollow_stop _ _ Hf) as (H32 & H9 & H35).
  unfold finish_flow_scalar.
  rewrite (bind_Ok _ _ _ _ _ (skip_non_blank_st s0 (34 :: b ++ r) l m w)). cbn [tl].
  unfold skip_ws_to_eol. rewrite bind_assoc.
  destruct (ws_blanks s0 b (F - length b) false false 0 r l (adv 1 m) false Hb) as (l1 & E1).
  replace (length b + (F - length b))%nat with F in E1 by lia.
  replace (F - length b)%nat with (S (F - length b - 1)) in E1 by lia.
  rewrite ws_stop in E1 by assumption.
  exists (Nat.max l1 1).
  rewrite (bind_Ok _ _ _ _ _ E1). cbn [fst snd]. rewrite bind_assoc.
  assert (E2 : adv_mark (0 + N.of_nat (length b)) (st_with s0 r (Nat.max l1 1) (adv 1 m) false)
               = Ok (tt, st_with s0 r (Nat.max l1 1) (adv (N.of_nat (length b)) (adv 1 m)) false)).
  { rewrite N.add_0_l. reflexivity. }
  rewrite (bind_Ok _ _ _ _ _ E2). rewrite (bind_Ok (ret _) _ _ _ _ eq_refl).
  unfold peek. rewrite (bind_Ok _ _ _ _ _ (peekn_st 0 s0 r (Nat.max l1 1) _ false)).
  rewrite (bind_Ok _ _ _ _ _ (get_st s0 r (Nat.max l1 1) _ false)).
  cbn [sc_flow_level sc_mark st_with].
  match goal with |- context [if ?c then _ else _] => assert (Hacc : c = true) end.
  { unfold sfollow in Hf. apply orb_prop in Hf as [Hf|Hf].
    - rewrite Hf. rewrite orb_true_r. reflexivity.
    - apply andb_prop in Hf as [Hfl Hc]. rewrite Hfl.
      destruct (nth 0 r 0 =? 44), (nth 0 r 0 =? 125), (nth 0 r 0 =? 93), (nth 0 r 0 =? 58); try discriminate Hc;
        cbn [negb andb orb]; rewrite ?orb_true_r; reflexivity. }
  rewrite Hacc. reflexivity.
Qed.

Lemma string_scan F s0 items b r l m w :
  forallb item_wf items = true -> forallb is_sp b = true -> sfollow (sc_flow_level s0) (nth 0 r 0) = true ->
  (length items + 3 <= F)%nat -> (length b < F)%nat -> sc_indent s0 = (-1)%Z ->
  exists l' m' sp,
    scan_flow_scalar str_ops F false (st_with s0 (34 :: flat_map item_src items ++ 34 :: b ++ r) l m w)
    = Ok ((sp, TScalar DoubleQuoted (map item_val items)), st_with s0 r l' m' false).
Proof.
  intros Hwf Hb Hf HF1 HF2 Hind.
  rewrite scan_flow_scalar_phases.
  rewrite (bind_Ok _ _ _ _ _ (mark_st s0 _ l m w)).
  rewrite (bind_Ok _ _ _ _ _ (skip_non_blank_st s0 _ l m w)). cbn [tl].
  destruct (quoted_body F m s0 items (b ++ r) l (adv 1 m) Hwf HF1) as (l1 & w1 & E1).
  { rewrite Hind, adv_col. lia. }
  { rewrite adv_col. lia. }
  rewrite (bind_Ok _ _ _ _ _ E1).
  destruct (quoted_finish F m s0 (rev (map item_val items)) b r l1 (adv (N.of_nat (length (flat_map item_src items))) (adv 1 m)) w1 Hb Hf HF2)
    as (l2 & E2).
  rewrite E2. rewrite rev_involutive. eauto.
Qed.

(* ---------- fetch_flow_scalar: the string token, the whitespace behind it, sc_adjacent ---------- *)
Lemma string_tail F items w1 rest2 l mk q adj ska p tn km tls fl tp ta lws ifms :
  forallb item_wf items = true -> wsb w1 = true -> tokstart rest2 -> sfollow fl (nth 0 rest2 0) = true ->
  (length items + 3 <= F)%nat -> (length w1 < F)%nat -> (4 <= l)%nat ->
  exists l' mk' lws' ska' sp mks,
    fnt_tail F (mkst (34 :: flat_map item_src items ++ 34 :: w1 ++ rest2) l mk q adj ska (skey p tn km :: tls) fl tp ta lws ifms)
    = Ok (tt, mkst rest2 l' mk' (q ++ [(sp, TScalar DoubleQuoted (map item_val items))]) (m_index mk') ska'
                ((if ska then skey true (tp + N.of_nat (length q)) mks else skey p tn km) :: tls) fl tp ta lws' ifms)
    /\ (0 < fl -> ska' = false).
Proof.
  intros Hwf Hw Hts Hfol HF1 HF2 Hl.
  destruct (ws_split w1 Hw) as (b & w1' & -> & Hb & Hw' & Hs).
  rewrite app_length in HF2.
  set (top' := if ska then skey true (tp + N.of_nat (length q)) mk else skey p tn km).
  set (s0 := mkst [] 0 mk0 q adj false (top' :: tls) fl tp ta false ifms).
  assert (Hf' : sfollow (sc_flow_level s0) (nth 0 (w1' ++ rest2) 0) = true).
  { destruct Hs as [-> | Hs]; [exact Hfol|]. destruct w1' as [|c w1']; [discriminate|]. cbn [app nth] in *.
    unfold sfollow, is_breakz. rewrite Hs. reflexivity. }
  destruct (string_scan F s0 items b (w1' ++ rest2) l mk lws Hwf Hb Hf' HF1 ltac:(lia) eq_refl) as (l1 & m1 & sp & E1).
  destruct (skip_ws_mk (length w1') w1' (le_n _) F rest2 l1 m1 q adj false (top' :: tls) fl tp ta false ifms ltac:(lia) Hw' Hts)
    as (l2 & mk' & lws' & ska' & E2 & H1 & _ & _).
  exists l2, mk', lws', ska', sp, mk. split; [|exact H1].
  unfold fnt_tail, disp. unfold mkst at 1. cbn. rewrite col_not_lt_indent. cbn.
  unfold fetch_flow_scalar.
  assert (Esave : (save_simple_key ;;; disallow_simple_key)
                    (mkst (34 :: flat_map item_src items ++ 34 :: (b ++ w1') ++ rest2) l mk q adj ska (skey p tn km :: tls) fl tp ta lws ifms)
                  = Ok (tt, st_with s0 (34 :: flat_map item_src items ++ 34 :: b ++ w1' ++ rest2) l mk lws)).
  { unfold save_simple_key, disallow_simple_key, mkst, s0, top', st_with. rewrite <- app_assoc. destruct ska; cbn.
    - rewrite indent_ne_col, andb_false_r. cbn. reflexivity.
    - reflexivity. }
  unfold mkst in Esave. rewrite <- bind_assoc. rewrite (bind_Ok _ _ _ _ _ Esave).
  rewrite (bind_Ok _ _ _ _ _ E1).
  change (st_with s0 (w1' ++ rest2) l1 m1 false) with (mkst (w1' ++ rest2) l1 m1 q adj false (top' :: tls) fl tp ta false ifms).
  rewrite (bind_Ok _ _ _ _ _ E2). unfold mkst. cbn. reflexivity.
Qed.
