(* PORT of ScanRelDir.v to the fuel-transfer calculus of ScanFuelBuf.v (see there): [rwp] is [rwpN N0]; the base case of
   every lockstep loop is closed by the STRING side's [oof]; the loops that are not in lockstep get a fuel hypothesis. *)
(* Joint proof "the scanner over the buffered input computes what the scanner over the string input computes"
   (see SCANREL.md): the family of directives, tags and anchors (Model/SDir.v).

     scan_directive_ok : rel_scan_directive cap N0
     scan_tag_ok       : rel_scan_tag cap N0
     scan_anchor_ok    : rel_scan_anchor cap N0               (after the section: [forall cap, 8 <= cap -> ...])

   Every loop of the family is in lockstep (same fuel on both sides, every iteration starts with a [look_ch] or a
   [look 3]), so every lemma has the form
       SR s1 s2 -> [buffered length needed at the entry ->]
       (forall r t1 t2, SR t1 t2 -> [k <= bl2 t2 ->] Q r t1 r t2) -> rwp (f sops ..) (f bops ..) Q s1 s2
   The values returned are built from the characters read, which are the STRING side's characters on both sides
   ([rwp_peek], [rwp_look_ch]), and from marks, which are equal under [SR] ([rwp_mark]); the error markers are the
   [start] mark read by the entry point, the same term on both sides.
   Where each "a character is buffered" fact comes from (the obligation of every [skip_non_blank]):
     - scan_directive / scan_anchor: the precondition [1 <= bl2 s2] (the dispatcher looked at the '%' / '&' / '*');
     - scan_verbatim_tag skips TWO characters: scan_tag's [look 2] before [nth_char_is 1 '<'];
     - everywhere else: the [look_ch] of the same iteration, or the exit of the preceding loop
       ([in_fetch_while_alpha], [in_skip_while_blank], [uri_loop], [scan_version_directive_number] all end on a
       [look_ch] whose character stays buffered);
     - scan_uri_escapes: [look 3] before the three peeks and [skip_n_non_blank 3]  (3 <= 8 <= cap). *)
From Coq Require Import List NArith ZArith Bool Arith Lia.
Import ListNotations.
Require Import Parser SBase SPrim SDir SScalar SFetch SBuf InputRefine ScanFuelBuf ScanFuelBufPrim.
Local Open Scope nat_scope.
Arguments Nat.ltb : simpl never.
Arguments Nat.leb : simpl never.
Arguments Nat.eqb : simpl never.
Arguments Nat.sub : simpl never.

Section RelDir.
Variable cap : nat.
Hypothesis cap_ge : 8 <= cap.
Variable N0 : nat.
Local Notation rwp := (rwpN N0).
Notation sops := str_ops.
Notation bops := (buf_ops cap).

(* both sides branch on the same (syntactically equal) test *)
Ltac rdif :=
  cbv beta;
  match goal with |- rwp (if ?b then _ else _) (if ?b then _ else _) _ _ _ => destruct b end.
Ltac rfail := apply rwp_fail; reflexivity.

(* ---------------- scan_uri_escapes: at most 5 rounds of [look 3], three peeks, [skip 3] ---------------- *)
Lemma R_uri_escapes mk (Q : chr -> st1 -> chr -> st2 -> Prop) s1 s2 :
  SR s1 s2 -> (forall c t1 t2, SR t1 t2 -> Q c t1 c t2) ->
  rwp (scan_uri_escapes sops mk) (scan_uri_escapes bops mk) Q s1 s2.
Proof using cap_ge.
  intros HS HQ. cbv beta delta [scan_uri_escapes].
  match goal with |- rwp (?g1 5 0%N 0%N 0%N true) (?g2 5 0%N 0%N 0%N true) _ _ _ =>
    cut (forall n w ln cd fs u1 u2, SR u1 u2 -> rwp (g1 n w ln cd fs) (g2 n w ln cd fs) Q u1 u2);
    [intros H; apply H; exact HS|] end.
  clear s1 s2 HS. induction n as [|n IH]; intros w ln cd fs s1 s2 HS; [apply rwp_oof_l|].
  cbv beta iota zeta.
  apply rwp_bind. apply (rwp_look cap cap_ge); [exact HS|lia|]. intros u1 u2 HU _ _ BU _.
  apply rwp_bind. apply (rwp_peek cap cap_ge); [exact HU|lia|].
  apply rwp_bind. apply (rwp_peekn cap cap_ge); [exact HU|lia|].
  apply rwp_bind. apply (rwp_peekn cap cap_ge); [exact HU|lia|].
  rdif; [rfail|].
  apply rwp_bind.
  match goal with |- rwp _ _ ?QQ _ _ => assert (HC : forall r, QQ r u1 r u2) end.
  { intros [w' cd']. cbv beta iota zeta.
    apply rwp_bind. apply (rwp_skip_n_non_blank cap cap_ge); [exact HU|lia|]. intros v1 v2 HV _ _.
    rdif.
    - rdif; [apply rwp_ret; apply HQ; exact HV|rfail].
    - apply IH; exact HV. }
  destruct fs; repeat rdif; try rfail;
    match goal with |- rwp (ret ?x) (ret ?x) _ _ _ => apply rwp_ret; exact (HC x) end.
Qed.

(* ---------------- tags ---------------- *)
Lemma R_tag_handle F d mk (Q : list chr -> st1 -> list chr -> st2 -> Prop) s1 s2 :
  SR s1 s2 -> (forall r t1 t2, SR t1 t2 -> Q r t1 r t2) ->
  rwp (scan_tag_handle sops F d mk) (scan_tag_handle bops F d mk) Q s1 s2.
Proof using cap_ge.
  intros HS HQ. unfold scan_tag_handle.
  apply rwp_bind. apply (rwp_look_ch cap cap_ge); [exact HS|]. intros u1 u2 HU _ _ BU _.
  rdif; [rfail|].
  apply rwp_bind. apply (rwp_skip_non_blank cap cap_ge); [exact HU|exact BU|]. intros v1 v2 HV _ _.
  apply rwp_bind. apply (rwp_in_fetch_while_alpha cap cap_ge); [exact HV|]. intros r w1 w2 HW _ BW _ _ _.
  apply rwp_bind. apply rwp_adv_mark; [exact HW|]. intros x1 x2 HX _ BX.
  apply rwp_bind. apply (rwp_peek cap cap_ge); [exact HX|lia|].
  rdif.
  - apply rwp_bind. apply (rwp_skip_non_blank cap cap_ge); [exact HX|lia|]. intros y1 y2 HY _ _.
    apply rwp_ret. apply HQ; exact HY.
  - rdif; [rfail|apply rwp_ret; apply HQ; exact HX].
Qed.

(* the generic uri loop: at the exit the character that stopped it is buffered *)
Lemma R_uri_loop F p mk acc (Q : list chr * N -> st1 -> list chr * N -> st2 -> Prop) s1 s2 :
  SR s1 s2 -> (forall r t1 t2, SR t1 t2 -> 1 <= bl2 t2 -> Q r t1 r t2) ->
  rwp (uri_loop sops F p mk acc) (uri_loop bops F p mk acc) Q s1 s2.
Proof using cap_ge.
  intros HS HQ. unfold uri_loop.
  match goal with |- rwp (?g1 F acc 0%N) (?g2 F acc 0%N) _ _ _ =>
    cut (forall f a n u1 u2, SR u1 u2 -> rwp (g1 f a n) (g2 f a n) Q u1 u2); [intros H; apply H; exact HS|] end.
  clear s1 s2 HS. induction f as [|f IH]; intros a n s1 s2 HS; [apply rwp_oof_l|].
  cbv beta iota zeta.
  apply rwp_bind. apply (rwp_look_ch cap cap_ge); [exact HS|]. intros u1 u2 HU _ _ BU _.
  rdif; [|apply rwp_ret; apply HQ; assumption].
  rdif.
  - apply rwp_bind. apply R_uri_escapes; [exact HU|]. intros e v1 v2 HV. apply IH; exact HV.
  - apply rwp_bind. apply (rwp_skip_non_blank cap cap_ge); [exact HU|exact BU|]. intros v1 v2 HV _ _.
    apply IH; exact HV.
Qed.

Lemma R_tag_prefix F mk (Q : list chr -> st1 -> list chr -> st2 -> Prop) s1 s2 :
  SR s1 s2 -> (forall r t1 t2, SR t1 t2 -> 1 <= bl2 t2 -> Q r t1 r t2) ->
  rwp (scan_tag_prefix sops F mk) (scan_tag_prefix bops F mk) Q s1 s2.
Proof using cap_ge.
  intros HS HQ. unfold scan_tag_prefix.
  apply rwp_bind. apply (rwp_look_ch cap cap_ge); [exact HS|]. intros u1 u2 HU _ _ BU _.
  apply rwp_bind.
  match goal with |- rwp _ _ ?QQ _ _ => assert (HC : forall acc t1 t2, SR t1 t2 -> QQ acc t1 acc t2) end.
  { intros acc t1 t2 HT. cbv beta.
    apply rwp_bind. apply R_uri_loop; [exact HT|]. intros r v1 v2 HV BV. apply rwp_ret. apply HQ; assumption. }
  rdif.
  - apply rwp_bind. apply (rwp_skip_non_blank cap cap_ge); [exact HU|exact BU|]. intros v1 v2 HV _ _.
    apply rwp_ret. apply HC; exact HV.
  - rdif; [rfail|]. rdif.
    + apply rwp_bind. apply R_uri_escapes; [exact HU|]. intros e v1 v2 HV. apply rwp_ret. apply HC; exact HV.
    + apply rwp_bind. apply (rwp_skip_non_blank cap cap_ge); [exact HU|exact BU|]. intros v1 v2 HV _ _.
      apply rwp_ret. apply HC; exact HV.
Qed.

(* scan_verbatim_tag skips "!<" at once: TWO characters must be buffered *)
Lemma R_verbatim_tag F mk (Q : list chr -> st1 -> list chr -> st2 -> Prop) s1 s2 :
  SR s1 s2 -> 2 <= bl2 s2 -> (forall r t1 t2, SR t1 t2 -> Q r t1 r t2) ->
  rwp (scan_verbatim_tag sops F mk) (scan_verbatim_tag bops F mk) Q s1 s2.
Proof using cap_ge.
  intros HS HB HQ. unfold scan_verbatim_tag.
  apply rwp_bind. apply (rwp_skip_non_blank cap cap_ge); [exact HS|lia|]. intros u1 u2 HU _ BU.
  apply rwp_bind. apply (rwp_skip_non_blank cap cap_ge); [exact HU|lia|]. intros v1 v2 HV _ _.
  apply rwp_bind. apply R_uri_loop; [exact HV|]. intros r w1 w2 HW BW.
  apply rwp_bind. apply (rwp_peek cap cap_ge); [exact HW|exact BW|].
  rdif; [rfail|].
  apply rwp_bind. apply (rwp_skip_non_blank cap cap_ge); [exact HW|exact BW|]. intros x1 x2 HX _ _.
  apply rwp_ret. apply HQ; exact HX.
Qed.

Lemma R_tag_shorthand_suffix F head mk (Q : list chr -> st1 -> list chr -> st2 -> Prop) s1 s2 :
  SR s1 s2 -> (forall r t1 t2, SR t1 t2 -> 1 <= bl2 t2 -> Q r t1 r t2) ->
  rwp (scan_tag_shorthand_suffix sops F head mk) (scan_tag_shorthand_suffix bops F head mk) Q s1 s2.
Proof using cap_ge.
  intros HS HQ. unfold scan_tag_shorthand_suffix. cbv beta zeta.
  apply rwp_bind. apply R_uri_loop; [exact HS|]. intros r u1 u2 HU BU.
  rdif; [rfail|apply rwp_ret; apply HQ; assumption].
Qed.

Theorem scan_tag_ok : rel_scan_tag cap N0.
Proof using cap_ge.
  unfold rel_scan_tag. intros F s1 s2 HS. unfold scan_tag.
  apply rwp_bind. apply rwp_mark; [exact HS|].
  apply rwp_bind. apply (rwp_look cap cap_ge); [exact HS|lia|]. intros u1 u2 HU _ _ BU _.
  apply rwp_bind. apply (rwp_nth_char_is cap cap_ge); [exact HU|lia|].
  apply rwp_bind.
  match goal with |- rwp _ _ ?QQ _ _ => assert (HC : forall hs t1 t2, SR t1 t2 -> QQ hs t1 hs t2) end.
  { intros hs t1 t2 HT. cbv beta.
    apply rwp_bind. apply (rwp_look_ch cap cap_ge); [exact HT|]. intros v1 v2 HV _ _ BV _.
    apply rwp_bind. apply rwp_flow_level; [exact HV|].
    rdif; [|rfail].
    apply rwp_bind. apply rwp_mark; [exact HV|]. apply rwp_ret_rpost; [exact HV|lia]. }
  rdif.
  - apply rwp_bind. apply R_verbatim_tag; [exact HU|exact BU|]. intros sfx t1 t2 HT.
    apply rwp_ret. apply HC; exact HT.
  - apply rwp_bind. apply R_tag_handle; [exact HU|]. intros h t1 t2 HT.
    rdif.
    + apply rwp_bind. apply R_tag_shorthand_suffix; [exact HT|]. intros sfx v1 v2 HV _.
      apply rwp_ret. apply HC; exact HV.
    + apply rwp_bind. apply R_tag_shorthand_suffix; [exact HT|]. intros sfx v1 v2 HV _.
      destruct sfx; apply rwp_ret; apply HC; exact HV.
Qed.

(* ---------------- anchors and aliases ---------------- *)
Theorem scan_anchor_ok : rel_scan_anchor cap N0.
Proof using cap_ge.
  unfold rel_scan_anchor. intros F alias s1 s2 HS HB. unfold scan_anchor.
  apply rwp_bind. apply rwp_mark; [exact HS|].
  apply rwp_bind. apply (rwp_skip_non_blank cap cap_ge); [exact HS|exact HB|]. intros u1 u2 HU _ _.
  apply rwp_bind.
  match goal with |- rwp (?g1 F []) (?g2 F []) ?QQ _ _ =>
    set (Q' := QQ);
    assert (HC : forall r t1 t2, SR t1 t2 -> Q' r t1 r t2);
    [|cut (forall f acc t1 t2, SR t1 t2 -> rwp (g1 f acc) (g2 f acc) Q' t1 t2); [intros H; apply H; exact HU|]] end.
  { intros r t1 t2 HT. unfold Q'. destruct r; [rfail|].
    apply rwp_bind. apply rwp_mark; [exact HT|]. apply rwp_ret_rpost; [exact HT|lia]. }
  induction f as [|f IH]; intros acc t1 t2 HT; [apply rwp_oof_l|].
  cbv beta iota zeta.
  apply rwp_bind. apply (rwp_look_ch cap cap_ge); [exact HT|]. intros v1 v2 HV _ _ BV _.
  rdif.
  - apply rwp_bind. apply (rwp_skip_non_blank cap cap_ge); [exact HV|exact BV|]. intros w1 w2 HW _ _.
    apply IH; exact HW.
  - apply rwp_ret. apply HC; exact HV.
Qed.

(* ---------------- directives ---------------- *)
(* the modelled u32-overflow panic (site 120) would be the same panic on both sides: no invariant needed here *)
Lemma R_version_number F mk (Q : N -> st1 -> N -> st2 -> Prop) s1 s2 :
  SR s1 s2 -> (forall r t1 t2, SR t1 t2 -> 1 <= bl2 t2 -> Q r t1 r t2) ->
  rwp (scan_version_directive_number sops F mk) (scan_version_directive_number bops F mk) Q s1 s2.
Proof using cap_ge.
  intros HS HQ. unfold scan_version_directive_number.
  match goal with |- rwp (?g1 F 0%N 0%N) (?g2 F 0%N 0%N) _ _ _ =>
    cut (forall f val len u1 u2, SR u1 u2 -> rwp (g1 f val len) (g2 f val len) Q u1 u2);
    [intros H; apply H; exact HS|] end.
  clear s1 s2 HS. induction f as [|f IH]; intros val len s1 s2 HS; [apply rwp_oof_l|].
  cbv beta iota zeta.
  apply rwp_bind. apply (rwp_look_ch cap cap_ge); [exact HS|]. intros u1 u2 HU _ _ BU _.
  rdif.
  - rdif; [rfail|].
    apply rwp_bind. rdif; [apply rwp_panic_r|].
    apply rwp_ret. apply rwp_bind. apply (rwp_skip_non_blank cap cap_ge); [exact HU|exact BU|]. intros v1 v2 HV _ _.
    apply IH; exact HV.
  - rdif; [rfail|apply rwp_ret; apply HQ; assumption].
Qed.

Lemma R_version_value F mk (Q : token -> st1 -> token -> st2 -> Prop) s1 s2 :
  SR s1 s2 -> (forall r t1 t2, SR t1 t2 -> 1 <= bl2 t2 -> Q r t1 r t2) ->
  rwp (scan_version_directive_value sops F mk) (scan_version_directive_value bops F mk) Q s1 s2.
Proof using cap_ge.
  intros HS HQ. unfold scan_version_directive_value.
  apply rwp_bind. apply (rwp_in_skip_while_blank cap cap_ge); [exact HS|]. intros n u1 u2 HU _ BU _ _ _.
  apply rwp_bind. apply rwp_adv_mark; [exact HU|]. intros v1 v2 HV _ BV.
  apply rwp_bind. apply R_version_number; [exact HV|]. intros major w1 w2 HW BW.
  apply rwp_bind. apply (rwp_peek cap cap_ge); [exact HW|exact BW|].
  rdif; [rfail|].
  apply rwp_bind. apply (rwp_skip_non_blank cap cap_ge); [exact HW|exact BW|]. intros x1 x2 HX _ _.
  apply rwp_bind. apply R_version_number; [exact HX|]. intros minor y1 y2 HY BY.
  apply rwp_bind. apply rwp_mark; [exact HY|]. apply rwp_ret. apply HQ; assumption.
Qed.

Lemma R_tag_directive_value F mk (Q : token -> st1 -> token -> st2 -> Prop) s1 s2 :
  SR s1 s2 -> (forall r t1 t2, SR t1 t2 -> 1 <= bl2 t2 -> Q r t1 r t2) ->
  rwp (scan_tag_directive_value sops F mk) (scan_tag_directive_value bops F mk) Q s1 s2.
Proof using cap_ge.
  intros HS HQ. unfold scan_tag_directive_value.
  apply rwp_bind. apply (rwp_in_skip_while_blank cap cap_ge); [exact HS|]. intros n u1 u2 HU _ BU _ _ _.
  apply rwp_bind. apply rwp_adv_mark; [exact HU|]. intros v1 v2 HV _ BV.
  apply rwp_bind. apply R_tag_handle; [exact HV|]. intros h w1 w2 HW.
  apply rwp_bind. apply (rwp_in_skip_while_blank cap cap_ge); [exact HW|]. intros n' x1 x2 HX _ BX _ _ _.
  apply rwp_bind. apply rwp_adv_mark; [exact HX|]. intros y1 y2 HY _ BY.
  apply rwp_bind. apply R_tag_prefix; [exact HY|]. intros p z1 z2 HZ BZ.
  apply rwp_bind. apply (rwp_look cap cap_ge); [exact HZ|lia|]. intros a1 a2 HA _ _ BA _.
  apply rwp_bind. apply (rwp_peek cap cap_ge); [exact HA|exact BA|].
  rdif; [|rfail].
  apply rwp_bind. apply rwp_mark; [exact HA|]. apply rwp_ret. apply HQ; assumption.
Qed.

Lemma R_directive_name F (Q : list chr -> st1 -> list chr -> st2 -> Prop) s1 s2 :
  SR s1 s2 -> (forall r t1 t2, SR t1 t2 -> 1 <= bl2 t2 -> Q r t1 r t2) ->
  rwp (scan_directive_name sops F) (scan_directive_name bops F) Q s1 s2.
Proof using cap_ge.
  intros HS HQ. unfold scan_directive_name.
  apply rwp_bind. apply rwp_mark; [exact HS|].
  apply rwp_bind. apply (rwp_in_fetch_while_alpha cap cap_ge); [exact HS|]. intros r u1 u2 HU _ BU _ _ _.
  apply rwp_bind. apply rwp_adv_mark; [exact HU|]. intros v1 v2 HV _ BV.
  destruct (fst r) as [|x l]; [rfail|].
  apply rwp_bind. apply (rwp_peek cap cap_ge); [exact HV|lia|].
  rdif; [apply rwp_ret; apply HQ; [assumption|lia]|rfail].
Qed.

Theorem scan_directive_ok : rel_scan_directive cap N0.
Proof using cap_ge.
  unfold rel_scan_directive. intros F s1 s2 HS HB. unfold scan_directive.
  apply rwp_bind. apply rwp_mark; [exact HS|].
  apply rwp_bind. apply (rwp_skip_non_blank cap cap_ge); [exact HS|exact HB|]. intros u1 u2 HU _ _.
  apply rwp_bind. apply R_directive_name; [exact HU|]. intros name v1 v2 HV BV.
  apply rwp_bind.
  match goal with |- rwp _ _ ?QQ _ _ => assert (HC : forall tk t1 t2, SR t1 t2 -> QQ tk t1 tk t2) end.
  { intros tk t1 t2 HT. cbv beta.
    eapply rwp_bind_rpost; [apply (skip_ws_to_eol_ok cap cap_ge); exact HT|]. intros tw w1 w2 HW BW.
    apply rwp_bind. apply (rwp_next_is cap cap_ge); [exact HW|exact BW|].
    rdif; [|rfail].
    apply rwp_bind. apply (rwp_look cap cap_ge); [exact HW|lia|]. intros x1 x2 HX _ _ BX _.
    eapply rwp_bind_rpost; [apply (skip_linebreak_ok cap cap_ge); [exact HX|exact BX]|]. intros [] y1 y2 HY _.
    apply rwp_ret_rpost; [exact HY|lia]. }
  rdif.
  - apply R_version_value; [exact HV|]. intros tk t1 t2 HT _. apply HC; exact HT.
  - rdif.
    + apply R_tag_directive_value; [exact HV|]. intros tk t1 t2 HT _. apply HC; exact HT.
    + apply rwp_bind. apply (rwp_in_skip_while_non_breakz cap cap_ge); [exact HV|]. intros n t1 t2 HT _ _ _ _ _.
      apply rwp_bind. apply rwp_adv_mark; [exact HT|]. intros w1 w2 HW _ _.
      apply rwp_bind. apply rwp_mark; [exact HW|]. apply rwp_ret. apply HC; exact HW.
Qed.

End RelDir.

Print Assumptions scan_directive_ok.
Print Assumptions scan_tag_ok.
Print Assumptions scan_anchor_ok.
Check scan_directive_ok.
Check scan_tag_ok.
Check scan_anchor_ok.
