(* String input: the whitespace / comment skipping family of Model/SPrim.v never panics and keeps the skeleton
   ([safe k], ScanSafeStrWP.v), for every lower bound [k] on the lookahead counter. *)
From Coq Require Import List NArith ZArith Bool Arith Lia.
Import ListNotations.
Require Import Parser SBase SPrim SDir SScalar SFetch ScanSafeStrWP.
Local Open Scope nat_scope.

Local Notation st := (sc strin).
Local Notation M := (@SBase.M strin).

Lemma safe_in_skip_while F p k : safe k (in_skip_while sops F p).
Proof.
  unfold in_skip_while.
  match goal with |- safe _ (?L F 0%N) => assert (HL : forall f n k, safe k (L f n)) end.
  { induction f as [|f IH]; intros n k'; lazy beta iota; [apply safe_oof|]. sgo. }
  apply HL.
Qed.
Lemma safe_in_skip_while_non_breakz F k : safe k (in_skip_while_non_breakz sops F).
Proof. apply safe_in_skip_while. Qed.
Lemma safe_in_skip_while_blank F k : safe k (in_skip_while_blank sops F).
Proof. apply safe_in_skip_while. Qed.
Lemma safe_in_fetch_while_alpha F acc k : safe k (in_fetch_while_alpha sops F acc).
Proof.
  unfold in_fetch_while_alpha.
  match goal with |- safe _ (?L F acc 0%N) => assert (HL : forall f a n k, safe k (L f a n)) end.
  { induction f as [|f IH]; intros a n k'; lazy beta iota; [apply safe_oof|]. sgo. }
  apply HL.
Qed.
#[export] Hint Resolve safe_in_skip_while safe_in_skip_while_non_breakz safe_in_skip_while_blank
  safe_in_fetch_while_alpha : safedb.

Lemma safe_in_skip_ws_to_eol : forall F stb tab ws n k, safe k (in_skip_ws_to_eol sops F stb tab ws n).
Proof.
  induction F as [|F IHF]; intros stb tab ws n k; cbn [in_skip_ws_to_eol]; [apply safe_oof|].
  sgo.
  match goal with |- safe _ (?L F n) => assert (HL : forall f m k, safe k (L f m)) end.
  { induction f as [|f IH]; intros m k'; lazy beta iota; [apply safe_oof|]. sgo. }
  apply HL.
Qed.
#[export] Hint Resolve safe_in_skip_ws_to_eol : safedb.

Theorem safe_skip_ws_to_eol F stb k : safe k (skip_ws_to_eol sops F stb).
Proof. unfold skip_ws_to_eol. sgo. Qed.
#[export] Hint Resolve safe_skip_ws_to_eol : safedb.

Theorem safe_skip_to_next_token : forall F k, safe k (skip_to_next_token sops F).
Proof. induction F as [|F IHF]; intros k; cbn [skip_to_next_token]; [apply safe_oof|]. sgo. Qed.

Theorem safe_skip_yaml_whitespace F k : safe k (skip_yaml_whitespace sops F).
Proof.
  unfold skip_yaml_whitespace.
  match goal with |- safe _ (?L F true) => assert (HL : forall f need k, safe k (L f need)) end.
  { induction f as [|f IH]; intros need k'; lazy beta iota; [apply safe_oof|]. sgo. }
  apply HL.
Qed.
#[export] Hint Resolve safe_skip_to_next_token safe_skip_yaml_whitespace : safedb.

Print Assumptions safe_skip_ws_to_eol.
Print Assumptions safe_skip_to_next_token.
Print Assumptions safe_skip_yaml_whitespace.
