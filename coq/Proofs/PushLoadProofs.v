(* C17, push interface: Parser::load delivers exactly the iterator's events and error, provided the iteration is
   a prefix of an event sentence (which C02 proves of the parser for every token stream). *)
From Coq Require Import List NArith Bool Arith Lia.
Import ListNotations.
Require Import Parser Grammar PushLoad.
Local Open Scope nat_scope.

Definition kinds (l : list ev) : list event := map fst l.

(* events before the first error *)
Fixpoint pre (rs : list result) : list ev :=
  match rs with inl x :: r => x :: pre r | _ => [] end.
Fixpoint has_err (rs : list result) : bool :=
  match rs with [] => false | inr _ :: _ => true | inl _ :: r => has_err r end.

Definition Pref (g : gstate) (rs : list result) : Prop := grun g (kinds (pre rs)) <> None.

Lemma pref_cons g x rs : Pref g (inl x :: rs) -> exists g', gstep g (fst x) = Some g' /\ Pref g' rs.
Proof.
  unfold Pref. cbn [pre kinds map grun]. destruct (gstep g (fst x)) as [g'|]; [|congruence]. eauto.
Qed.

Lemma grun_app g a b : grun g (a ++ b) = match grun g a with Some g' => grun g' b | None => None end.
Proof.
  revert g; induction a as [|e a IH]; intros g; cbn [app grun]; [reflexivity|].
  destruct (gstep g e); [apply IH|reflexivity].
Qed.

(* outcome of a sub-loader started with accumulator [acc] on results [rs]: it consumed [consumed] and either
   finished with the stated postcondition or stopped at the first error, having pushed everything before it *)
Inductive good (acc : list ev) (rs : list result) (P : list ev -> list result -> Prop) : lout -> Prop :=
| GDone consumed rs' : rs = map inl consumed ++ rs' -> P consumed rs' -> good acc rs P (LDone (rev consumed ++ acc) rs')
| GFail consumed e tl : rs = map inl consumed ++ inr e :: tl -> good acc rs P (LFail e (rev consumed ++ acc)).

Lemma good_weaken acc rs (P Q : list ev -> list result -> Prop) o : good acc rs P o -> (forall c r, P c r -> Q c r) -> good acc rs Q o.
Proof. intros H HPQ. destruct H; [eapply GDone; eauto|eapply GFail; eauto]. Qed.

(* prepend an already consumed event *)
Lemma good_cons x acc rs (P : list ev -> list result -> Prop) o :
  good (x :: acc) rs (fun c r => P (x :: c) r) o -> good acc (inl x :: rs) P o.
Proof.
  intros H. destruct H as [c r E HP|c e tl E].
  - replace (rev c ++ x :: acc) with (rev (x :: c) ++ acc) by (cbn; rewrite <- app_assoc; reflexivity).
    eapply GDone; [cbn; rewrite E; reflexivity|exact HP].
  - replace (rev c ++ x :: acc) with (rev (x :: c) ++ acc) by (cbn; rewrite <- app_assoc; reflexivity).
    eapply GFail. cbn. rewrite E. reflexivity.
Qed.

(* sequencing: first part consumed c1 leaving r1, then the second part runs on r1 *)
Lemma good_seq acc rs (P1 P2 : list ev -> list result -> Prop) o1 (k : list ev -> list result -> lout) :
  good acc rs P1 o1 ->
  (forall c1 r1, rs = map inl c1 ++ r1 -> P1 c1 r1 ->
     good (rev c1 ++ acc) r1 (fun c2 r2 => P2 (c1 ++ c2) r2) (k (rev c1 ++ acc) r1)) ->
  good acc rs P2 (match o1 with LDone a r => k a r | LFail e p => LFail e p | LPanicked n p => LPanicked n p
                                | LOutOfFuel => LOutOfFuel | LExhausted => LExhausted end).
Proof.
  intros H1 Hk. destruct H1 as [c1 r1 E HP|c1 e tl E].
  - specialize (Hk c1 r1 E HP). destruct Hk as [c2 r2 E2 HP2|c2 e tl E2].
    + replace (rev c2 ++ rev c1 ++ acc) with (rev (c1 ++ c2) ++ acc) by (rewrite rev_app_distr, app_assoc; reflexivity).
      eapply GDone; [rewrite E, E2, map_app, app_assoc; reflexivity|exact HP2].
    + replace (rev c2 ++ rev c1 ++ acc) with (rev (c1 ++ c2) ++ acc) by (rewrite rev_app_distr, app_assoc; reflexivity).
      eapply GFail. rewrite E, E2, map_app, <- app_assoc. reflexivity.
  - eapply GFail. exact E.
Qed.

Lemma has_err_nonempty rs : has_err rs = true -> rs <> [].
Proof. destruct rs; [discriminate|congruence]. Qed.

(* gstep inversions *)
Lemma gstep_node_under_seq stk x g' :
  gstep (GStream (FSeq :: stk)) (fst x) = Some g' -> is_seq_end x = false ->
  is_map_end x = false /\ True.
Proof. unfold is_seq_end, is_map_end. destruct (fst x); cbn; intros H H2; try discriminate; auto. Qed.

Definition node_post (stk : list frame) (g1 : gstate) : list ev -> list result -> Prop :=
  fun consumed rs' => exists stk', complete stk = Some stk' /\ grun g1 (kinds consumed) = Some (GStream stk') /\ Pref (GStream stk') rs'.

Definition is_node_start (e : event) : bool :=
  match e with EAlias _ | EScalar _ _ _ _ | ESequenceStart _ _ | EMappingStart _ _ => true | _ => false end.

Lemma gstep_start_ok stk e g1 : gstep (GStream stk) e = Some g1 -> node_ok stk = true ->
  match e with ESequenceEnd | EMappingEnd => False | _ => True end -> is_node_start e = true.
Proof.
  destruct e; cbn; intros H Hn Hx; try reflexivity; try contradiction;
    destruct stk as [|[] [|]]; cbn in *; try discriminate.
Qed.

Lemma kinds_app a b : kinds (a ++ b) = kinds a ++ kinds b.
Proof. apply map_app. Qed.

Lemma pre_app consumed rs' : pre (map inl consumed ++ rs') = consumed ++ pre rs'.
Proof. induction consumed as [|c l IH]; cbn [map app pre]; [reflexivity|]. rewrite IH. reflexivity. Qed.

Lemma pref_after g consumed rs' g' :
  Pref g (map inl consumed ++ rs') -> grun g (kinds consumed) = Some g' -> Pref g' rs'.
Proof.
  unfold Pref. intros H Hg. rewrite pre_app, kinds_app, grun_app, Hg in H. exact H.
Qed.

Lemma has_err_after consumed rs' : has_err (map inl consumed ++ rs') = has_err rs'.
Proof. induction consumed as [|c l IH]; cbn; auto. Qed.

Lemma length_after (consumed : list ev) (rs' : list result) : length rs' <= length (map inl consumed ++ rs').
Proof. rewrite app_length. apply Nat.le_add_l. Qed.

(* acceptor steps of the collection delimiters *)
Lemma gstep_seq_end stk g' : gstep (GStream (FSeq :: stk)) ESequenceEnd = Some g' ->
  exists stk', complete stk = Some stk' /\ g' = GStream stk'.
Proof. cbn. destruct (complete stk) as [stk'|]; [|discriminate]. intros H; inversion H; eauto. Qed.
Lemma gstep_map_end stk g' : gstep (GStream (FMapKey :: stk)) EMappingEnd = Some g' ->
  exists stk', complete stk = Some stk' /\ g' = GStream stk'.
Proof. cbn. destruct (complete stk) as [stk'|]; [|discriminate]. intros H; inversion H; eauto. Qed.

Lemma not_end_under (f : frame) stk x g' :
  gstep (GStream (f :: stk)) (fst x) = Some g' ->
  (f = FSeq -> is_seq_end x = false) -> (f = FMapKey -> is_map_end x = false) ->
  (f = FSeq \/ f = FMapKey \/ f = FMapVal \/ f = FDoc) ->
  is_seq_end x = false /\ is_map_end x = false.
Proof.
  unfold is_seq_end, is_map_end. intros H H1 H2 Hf.
  destruct (fst x); auto; destruct Hf as [->|[->|[->| ->]]]; cbn in H; try discriminate;
    try (split; [apply H1; reflexivity|reflexivity]); try (split; [reflexivity|apply H2; reflexivity]).
Qed.

Theorem loaders_good fuel :
  (forall first rs acc stk g1,
     gstep (GStream stk) (fst first) = Some g1 -> node_ok stk = true ->
     is_seq_end first = false -> is_map_end first = false ->
     Pref g1 rs -> has_err rs = true -> 2 * length rs + 2 <= fuel ->
     good (first :: acc) rs (node_post stk g1) (load_node fuel first rs acc))
  /\ (forall rs acc stk,
     Pref (GStream (FSeq :: stk)) rs -> has_err rs = true -> 2 * length rs + 1 <= fuel ->
     good acc rs (node_post stk (GStream (FSeq :: stk))) (load_sequence fuel rs acc))
  /\ (forall rs acc stk,
     Pref (GStream (FMapKey :: stk)) rs -> has_err rs = true -> 2 * length rs + 1 <= fuel ->
     good acc rs (node_post stk (GStream (FMapKey :: stk))) (load_mapping fuel rs acc)).
Proof.
  induction fuel as [|f [IHn [IHs IHm]]].
  { repeat split; intros; (unfold result in *; lia). }
  repeat split.
  - (* load_node *)
    intros first rs acc stk g1 Hstep Hok Hse Hme HP HE HF. cbn [load_node].
    assert (Hns : is_node_start (fst first) = true).
    { apply (gstep_start_ok stk _ g1 Hstep Hok). unfold is_seq_end, is_map_end in *. destruct (fst first); auto; discriminate. }
    destruct (fst first) eqn:Ef; try discriminate Hns.
    + cbn in Hstep. destruct (complete stk) as [stk'|] eqn:C; [|discriminate]. inversion Hstep; subst g1.
      apply (GDone (first :: acc) rs _ [] rs eq_refl). exists stk'. repeat split; auto.
    + cbn in Hstep. destruct (complete stk) as [stk'|] eqn:C; [|discriminate]. inversion Hstep; subst g1.
      apply (GDone (first :: acc) rs _ [] rs eq_refl). exists stk'. repeat split; auto.
    + cbn in Hstep. rewrite Hok in Hstep. inversion Hstep; subst g1. apply IHs; auto. (unfold result in *; lia).
    + cbn in Hstep. rewrite Hok in Hstep. inversion Hstep; subst g1. apply IHm; auto. (unfold result in *; lia).
  - (* load_sequence *)
    intros rs acc stk HP HE HF. cbn [load_sequence].
    destruct rs as [|[x|e] rs']; [discriminate| |apply (GFail acc _ _ [] e rs' eq_refl)].
    destruct (pref_cons _ _ _ HP) as [g' [Hs HP']]. cbn [has_err] in HE. cbn [length] in HF.
    destruct (is_seq_end x) eqn:Ese.
    + unfold is_seq_end in Ese. destruct (fst x) eqn:Ex; try discriminate.
      destruct (gstep_seq_end _ _ Hs) as [stk' [C ->]].
      apply good_cons. apply (GDone (x :: acc) rs' _ [] rs' eq_refl).
      exists stk'. split; [exact C|]. split; [|exact HP']. cbn. rewrite Ex. cbn. rewrite C. reflexivity.
    + destruct (not_end_under FSeq stk x g' Hs (fun _ => Ese) (fun H => ltac:(discriminate H)) (or_introl eq_refl)) as [_ Hme].
      apply good_cons.
      apply (good_seq (x :: acc) rs' (node_post (FSeq :: stk) g') _ (load_node f x rs' acc) (fun a r => load_sequence f r a)).
      * apply IHn; auto. (unfold result in *; lia).
      * intros c1 r1 E1 (stk' & C & G & P1). cbn in C. inversion C; subst stk'.
        assert (HE1 : has_err r1 = true) by (rewrite E1, has_err_after in HE; exact HE).
        assert (HL1 : length r1 <= length rs') by (rewrite E1; apply length_after).
        eapply good_weaken; [apply (IHs r1 _ stk P1 HE1); unfold result in *; lia|].
        intros c2 r2 (stk2 & C2 & G2 & P2). exists stk2. split; [exact C2|]. split; [|exact P2].
        cbn [kinds map grun]. fold (kinds (c1 ++ c2)). rewrite Hs, kinds_app, grun_app, G. exact G2.
  - (* load_mapping *)
    intros rs acc stk HP HE HF. cbn [load_mapping].
    destruct rs as [|[k|e] rs']; [discriminate| |apply (GFail acc _ _ [] e rs' eq_refl)].
    destruct (pref_cons _ _ _ HP) as [g' [Hs HP']]. cbn [has_err] in HE. cbn [length] in HF.
    destruct (is_map_end k) eqn:Eme.
    + unfold is_map_end in Eme. destruct (fst k) eqn:Ex; try discriminate.
      destruct (gstep_map_end _ _ Hs) as [stk' [C ->]].
      apply good_cons. apply (GDone (k :: acc) rs' _ [] rs' eq_refl).
      exists stk'. split; [exact C|]. split; [|exact HP']. cbn. rewrite Ex. cbn. rewrite C. reflexivity.
    + destruct (not_end_under FMapKey stk k g' Hs (fun H => ltac:(discriminate H)) (fun _ => Eme) (or_intror (or_introl eq_refl))) as [Hse _].
      apply good_cons.
      apply (good_seq (k :: acc) rs' (node_post (FMapKey :: stk) g') _ (load_node f k rs' acc)
               (fun a r => match r with
                           | [] => LExhausted
                           | inr e :: _ => LFail e a
                           | inl v :: rs3 => match load_node f v rs3 a with
                                             | LDone acc'' rs4 => load_mapping f rs4 acc''
                                             | o => o
                                             end
                           end)).
      * apply IHn; auto. (unfold result in *; lia).
      * intros c1 r1 E1 (stk' & C & G & P1). cbn in C. inversion C; subst stk'.
        assert (HE1 : has_err r1 = true) by (rewrite E1, has_err_after in HE; exact HE).
        assert (HL1 : length r1 <= length rs') by (rewrite E1; apply length_after).
        destruct r1 as [|[v|e] rs3]; [discriminate| |apply (GFail _ _ _ [] e rs3 eq_refl)].
        destruct (pref_cons _ _ _ P1) as [gv [Hsv HPv]]. cbn [has_err] in HE1. cbn [length] in HL1.
        destruct (not_end_under FMapVal stk v gv Hsv (fun H => ltac:(discriminate H)) (fun H => ltac:(discriminate H))
                    (or_intror (or_intror (or_introl eq_refl)))) as [Hvs Hvm].
        apply good_cons.
        apply (good_seq (v :: rev c1 ++ k :: acc) rs3 (node_post (FMapVal :: stk) gv) _ (load_node f v rs3 (rev c1 ++ k :: acc))
                 (fun a r => load_mapping f r a)).
        -- apply IHn; auto. (unfold result in *; lia).
        -- intros c3 r4 E3 (stk3 & C3 & G3 & P3). cbn in C3. inversion C3; subst stk3.
           assert (HE4 : has_err r4 = true) by (rewrite E3, has_err_after in HE1; exact HE1).
           assert (HL4 : length r4 <= length rs3) by (rewrite E3; apply length_after).
           eapply good_weaken; [apply (IHm r4 _ stk P3 HE4); unfold result in *; lia|].
           intros c5 r5 (stk5 & C5 & G5 & P5). exists stk5. split; [exact C5|]. split; [|exact P5].
           cbn [kinds map grun]. fold (kinds (c1 ++ v :: c3 ++ c5)). rewrite Hs, kinds_app, grun_app, G.
           cbn [kinds map grun]. fold (kinds (c3 ++ c5)). rewrite Hsv, kinds_app, grun_app, G3. exact G5.
Qed.

(* ---------------- documents and the whole stream ---------------- *)
Definition stream_post : list ev -> list result -> Prop :=
  fun consumed _ => grun (GStream []) (kinds consumed) = Some GEnd.

Lemma gstep_top x g' : gstep (GStream []) (fst x) = Some g' ->
  (is_stream_end x = true /\ g' = GEnd) \/ (is_stream_end x = false /\ is_doc_start x = true /\ g' = GStream [FDoc]).
Proof.
  unfold is_stream_end, is_doc_start. destruct (fst x); cbn; intros H; try discriminate; inversion H; auto.
Qed.
Lemma gstep_docdone x g' : gstep (GStream [FDocDone]) (fst x) = Some g' -> is_doc_end x = true /\ g' = GStream [].
Proof. unfold is_doc_end. destruct (fst x); cbn; intros H; try discriminate; inversion H; auto. Qed.

Definition doc_post : list ev -> list result -> Prop :=
  fun consumed rs' => grun (GStream [FDoc]) (kinds consumed) = Some (GStream []) /\ Pref (GStream []) rs'.

Lemma document_good f x rs acc :
  is_doc_start x = true -> Pref (GStream [FDoc]) rs -> has_err rs = true -> 2 * length rs + 2 <= f ->
  good (x :: acc) rs doc_post (load_document f x rs acc).
Proof.
  intros Eds HP HE HF. unfold load_document. rewrite Eds. cbn [negb].
  destruct rs as [|[n|e] rs2]; [discriminate| |apply (GFail _ _ _ [] e rs2 eq_refl)].
  destruct (pref_cons _ _ _ HP) as [g1 [Hn HPn]]. cbn [has_err] in HE. cbn [length] in HF.
  destruct (not_end_under FDoc [] n g1 Hn (fun H => ltac:(discriminate H)) (fun H => ltac:(discriminate H))
              (or_intror (or_intror (or_intror eq_refl)))) as [Hns Hnm].
  apply good_cons.
  destruct (loaders_good f) as [Ln _].
  apply (good_seq (n :: x :: acc) rs2 (node_post [FDoc] g1) _ (load_node f n rs2 (x :: acc))
           (fun a r => match r with
                       | [] => LExhausted
                       | inr e :: _ => LFail e a
                       | inl d :: rs3 => if is_doc_end d then LDone (d :: a) rs3 else LPanicked 2 a
                       end)).
  - apply Ln; auto. unfold result in *; lia.
  - intros c1 r1 E1 (stk' & C & G & P1). cbn in C. inversion C; subst stk'.
    assert (HE1 : has_err r1 = true) by (rewrite E1, has_err_after in HE; exact HE).
    destruct r1 as [|[d|e] rs3]; [discriminate| |apply (GFail _ _ _ [] e rs3 eq_refl)].
    destruct (pref_cons _ _ _ P1) as [gd [Hd HPd]].
    destruct (gstep_docdone _ _ Hd) as [Ede ->]. rewrite Ede.
    apply good_cons. apply (GDone _ rs3 _ [] rs3 eq_refl). split; [|exact HPd].
    cbn [kinds map grun]. fold (kinds (c1 ++ [d])). rewrite Hn, kinds_app, grun_app, G. cbn [kinds map grun]. rewrite Hd. reflexivity.
Qed.

Lemma docs_good fuel : forall rs acc,
  Pref (GStream []) rs -> has_err rs = true -> 2 * length rs + 4 <= fuel ->
  good acc rs stream_post (load_docs fuel rs acc).
Proof.
  induction fuel as [|f IH]; intros rs acc HP HE HF; [unfold result in *; lia|].
  cbn [load_docs]. destruct rs as [|[x|e] rs']; [discriminate| |apply (GFail acc _ _ [] e rs' eq_refl)].
  destruct (pref_cons _ _ _ HP) as [g' [Hs HP']]. cbn [has_err] in HE. cbn [length] in HF.
  destruct (gstep_top _ _ Hs) as [[Ese ->]|(Ese & Eds & ->)]; rewrite Ese.
  - apply good_cons. apply (GDone (x :: acc) rs' _ [] rs' eq_refl). unfold stream_post. cbn [kinds map grun]. rewrite Hs. reflexivity.
  - apply good_cons.
    apply (good_seq (x :: acc) rs' doc_post _ (load_document f x rs' acc) (fun a r => load_docs f r a)).
    + apply document_good; auto. unfold result in *; lia.
    + intros c1 r1 E1 [G P1].
      assert (HE1 : has_err r1 = true) by (rewrite E1, has_err_after in HE; exact HE).
      assert (HL1 : length r1 <= length rs') by (rewrite E1; apply length_after).
      eapply good_weaken; [apply (IH r1 _ P1 HE1); unfold result in *; lia|].
      intros c2 r2 HS. unfold stream_post in *.
      cbn [kinds map grun]. fold (kinds (c1 ++ c2)). rewrite Hs, kinds_app, grun_app, G. exact HS.
Qed.

(* The push interface (load, multi = true) against the iteration: whenever the iteration is a prefix of an event
   sentence, load either pushes a complete sentence (everything up to and including StreamEnd) and returns Ok, or
   stops at the iteration's first error having pushed exactly the events before it - and that error is the
   iteration's own.  It never panics (no unreachable!(), no failed assert_eq!) and reports no error of its own. *)
Theorem load_multi_is_iteration rs fuel :
  Pref GInit rs -> has_err rs = true -> 2 * length rs + 4 <= fuel ->
  good [] rs (fun consumed _ => grun GInit (kinds consumed) = Some GEnd) (load_multi fuel rs).
Proof.
  intros HP HE HF. unfold load_multi.
  destruct rs as [|[x|e] rs']; [discriminate| |apply (GFail [] _ _ [] e rs' eq_refl)].
  destruct (pref_cons _ _ _ HP) as [g' [Hs HP']]. cbn [has_err] in HE. cbn [length] in HF.
  assert (Hx : is_stream_start x = true /\ g' = GStream []).
  { unfold is_stream_start. destruct (fst x); cbn in Hs; try discriminate. inversion Hs; auto. }
  destruct Hx as [Ess ->]. rewrite Ess. cbn [negb].
  apply good_cons. eapply good_weaken; [apply docs_good; auto; unfold result in *; lia|].
  intros c r HS. unfold stream_post in HS. cbn [kinds map grun]. rewrite Hs. exact HS.
Qed.
