(* C13 — proofs: the parser model and the loader model on the token stream of a JSON value.
   (i)  parser: from a state that expects a node and has the value's tokens ahead, the pull parser delivers
        exactly [json_events v] and pops back to the continuation state, for every continuation, stack and
        remaining token stream ([node_run], induction on the value with a generalised state stack);
   (ii) loader: loading [json_events v] from ANY loader state is inserting the one node [yaml_of_json v]
        ([load_node]); duplicate member names go through LinkedHashMap::insert = [obj_insert];
   (iii) numbers: every RFC 8259 number is a core-schema literal and resolves to its value
        ([json_number_resolves], from C08's int_complete / float_complete);
   composition: [tokens_load] / [tokens_parse_all]. *)
From Coq Require Import List NArith ZArith Bool Lia.
Import ListNotations.
Require Import Parser SBase SFetch Pipe Resolver CoreSchema CoreNumber ResolverProofs C08complete Loader PipeL Json C02run Drivers.
Arguments N.eqb : simpl never.

(* ================= parser half ================= *)
Inductive Steps : parser -> list event -> parser -> Prop :=
| Steps_nil p : Steps p [] p
| Steps_cons p e sp p1 evs p' :
    state_machine p = Parser.Ok ((e, sp), p1) -> p_anchors p1 = p_anchors p -> Steps p1 evs p' -> Steps p (e :: evs) p'.

Lemma Steps_app p a q b r : Steps p a q -> Steps q b r -> Steps p (a ++ b) r.
Proof. induction 1; intros H2; [exact H2|]. cbn [app]. eapply Steps_cons; eauto. Qed.

Lemma Steps_one p e sp q : state_machine p = Parser.Ok ((e, sp), q) -> p_anchors q = p_anchors p -> Steps p [e] q.
Proof. intros H Ha. eapply Steps_cons; [exact H|exact Ha|apply Steps_nil]. Qed.

Definition P (c : option token) (ts : list token) (stk : list pstate) (st : pstate)
             (an : list (Parser.str * N)) (ai : N) (tg : list (Parser.str * Parser.str)) (kt : bool) : parser :=
  {| p_toks := ts; p_token := c; p_states := stk; p_state := st;
     p_anchors := an; p_anchor_id := ai; p_tags := tg; p_keep_tags := kt |}.

Definition node_start (t : tok) : bool :=
  match t with TScalar _ _ | TFlowSequenceStart | TFlowMappingStart => true | _ => false end.

Lemma json_tokens_start v : exists t r, json_tokens v = t :: r /\ node_start t = true.
Proof. destruct v; cbn; eauto. Qed.

(* ---- single steps, by computation ---- *)
Section steps.
Variables (an : list (Parser.str * N)) (ai : N) (tg : list (Parser.str * Parser.str)) (kt : bool).
Notation Q c ts stk st := (P c ts stk st an ai tg kt).

Lemma scalar_node sp sty v tl K stk st block :
  parse_node (Q (Some (sp, TScalar sty v)) tl (K :: stk) st) block false
  = Parser.Ok ((EScalar v sty 0 None, sp), Q None tl stk K).
Proof. reflexivity. Qed.

Lemma seqstart_node sp tl stk st block :
  parse_node (Q (Some (sp, TFlowSequenceStart)) tl stk st) block false
  = Parser.Ok ((ESequenceStart 0 None, sp), Q (Some (sp, TFlowSequenceStart)) tl stk SFlowSequenceFirstEntry).
Proof. reflexivity. Qed.

Lemma mapstart_node sp tl stk st block :
  parse_node (Q (Some (sp, TFlowMappingStart)) tl stk st) block false
  = Parser.Ok ((EMappingStart 0 None, sp), Q (Some (sp, TFlowMappingStart)) tl stk SFlowMappingFirstKey).
Proof. reflexivity. Qed.

Lemma seq_first_end t0 sp tl K stk :
  state_machine (Q (Some t0) ((sp, TFlowSequenceEnd) :: tl) (K :: stk) SFlowSequenceFirstEntry)
  = Parser.Ok ((ESequenceEnd, sp), Q None tl stk K).
Proof. reflexivity. Qed.

Lemma seq_first_node t0 t1 tl stk : node_start (snd t1) = true ->
  state_machine (Q (Some t0) (t1 :: tl) stk SFlowSequenceFirstEntry)
  = parse_node (Q (Some t1) tl (SFlowSequenceEntry :: stk) SFlowSequenceFirstEntry) false false.
Proof. destruct t1 as [sp1 k1]. destruct k1; try discriminate; reflexivity. Qed.

Lemma seq_next_end sp tl K stk :
  state_machine (Q None ((sp, TFlowSequenceEnd) :: tl) (K :: stk) SFlowSequenceEntry)
  = Parser.Ok ((ESequenceEnd, sp), Q None tl stk K).
Proof. reflexivity. Qed.

Lemma seq_next_node spe t1 tl stk : node_start (snd t1) = true ->
  state_machine (Q None ((spe, TFlowEntry) :: t1 :: tl) stk SFlowSequenceEntry)
  = parse_node (Q (Some t1) tl (SFlowSequenceEntry :: stk) SFlowSequenceEntry) false false.
Proof. destruct t1 as [sp1 k1]. destruct k1; try discriminate; reflexivity. Qed.

Lemma map_first_end t0 sp tl K stk :
  state_machine (Q (Some t0) ((sp, TFlowMappingEnd) :: tl) (K :: stk) SFlowMappingFirstKey)
  = Parser.Ok ((EMappingEnd, sp), Q None tl stk K).
Proof. reflexivity. Qed.

Lemma map_first_key t0 spk sps k tl stk :
  state_machine (Q (Some t0) ((spk, TKey) :: (sps, TScalar DoubleQuoted k) :: tl) stk SFlowMappingFirstKey)
  = Parser.Ok ((EScalar k DoubleQuoted 0 None, sps), Q None tl stk SFlowMappingValue).
Proof. reflexivity. Qed.

Lemma map_next_end sp tl K stk :
  state_machine (Q None ((sp, TFlowMappingEnd) :: tl) (K :: stk) SFlowMappingKey)
  = Parser.Ok ((EMappingEnd, sp), Q None tl stk K).
Proof. reflexivity. Qed.

Lemma map_next_key spe spk sps k tl stk :
  state_machine (Q None ((spe, TFlowEntry) :: (spk, TKey) :: (sps, TScalar DoubleQuoted k) :: tl) stk SFlowMappingKey)
  = Parser.Ok ((EScalar k DoubleQuoted 0 None, sps), Q None tl stk SFlowMappingValue).
Proof. reflexivity. Qed.

Lemma map_value_node spv t1 tl stk : node_start (snd t1) = true ->
  state_machine (Q None ((spv, TValue) :: t1 :: tl) stk SFlowMappingValue)
  = parse_node (Q (Some t1) tl (SFlowMappingKey :: stk) SFlowMappingValue) false false.
Proof. destruct t1 as [sp1 k1]. destruct k1; try discriminate; reflexivity. Qed.
End steps.

Section jvalue_induction.
  Variable Pr : jvalue -> Prop.
  Hypothesis Hnull : Pr JNull.
  Hypothesis Hbool : forall b, Pr (JBool b).
  Hypothesis Hnum : forall t, Pr (JNum t).
  Hypothesis Hstr : forall s, Pr (JStr s).
  Hypothesis Harr : forall l, Forall Pr l -> Pr (JArr l).
  Hypothesis Hobj : forall l, Forall (fun kv => Pr (snd kv)) l -> Pr (JObj l).
  Fixpoint jvalue_ind2 (v : jvalue) : Pr v :=
    match v with
    | JNull => Hnull
    | JBool b => Hbool b
    | JNum t => Hnum t
    | JStr s => Hstr s
    | JArr l => Harr l ((fix go (l : list jvalue) : Forall Pr l :=
                           match l with [] => Forall_nil _ | x :: r => Forall_cons x (jvalue_ind2 x) (go r) end) l)
    | JObj l => Hobj l ((fix go (l : list (Resolver.str * jvalue)) : Forall (fun kv => Pr (snd kv)) l :=
                           match l with [] => Forall_nil _ | kv :: r => Forall_cons kv (jvalue_ind2 (snd kv)) (go r) end) l)
    end.
End jvalue_induction.

Definition NodeRun (v : jvalue) : Prop :=
  forall t0 ts rest K stk st block an ai tg kt,
    map snd (t0 :: ts) = json_tokens v ->
    exists e sp p1 evs,
      parse_node (P (Some t0) (ts ++ rest) (K :: stk) st an ai tg kt) block false = Parser.Ok ((e, sp), p1)
      /\ p_anchors p1 = an
      /\ Steps p1 evs (P None rest stk K an ai tg kt)
      /\ e :: evs = json_events v.

(* decomposition of a spanned token list along its projection *)
Ltac split_map :=
  repeat match goal with
  | H : map snd ?l = _ :: _ |- _ =>
      let a := fresh "t" in let tl := fresh "ts" in let E := fresh "E" in let Ha := fresh "Ht" in let Hm := fresh "Hm" in
      apply map_eq_cons in H as (a & tl & E & Ha & Hm); subst l
  | H : map snd ?l = _ ++ _ |- _ =>
      let a := fresh "ta" in let b := fresh "tb" in let E := fresh "E" in let Ha := fresh "Hma" in let Hb := fresh "Hmb" in
      apply map_eq_app in H as (a & b & E & Ha & Hb); subst l
  | H : map snd ?l = [] |- _ => apply map_eq_nil in H; subst l
  end.

Lemma tok_eta (t : token) k : snd t = k -> t = (fst t, k).
Proof. destruct t; cbn; intros ->; reflexivity. Qed.

(* the remaining elements of an array *)
Lemma seq_rest r : Forall NodeRun r ->
  forall tr spe rest K stk an ai tg kt,
    map snd tr = flat_map (fun y => TFlowEntry :: json_tokens y) r ->
    Steps (P None (tr ++ (spe, TFlowSequenceEnd) :: rest) (K :: stk) SFlowSequenceEntry an ai tg kt)
          (flat_map json_events r ++ [ESequenceEnd])
          (P None rest stk K an ai tg kt).
Proof.
  induction 1 as [|y r Hy Hr IH]; intros tr spe rest K stk an ai tg kt Hm; cbn [flat_map] in Hm.
  - split_map. cbn [app flat_map]. eapply Steps_one; [apply seq_next_end|reflexivity].
  - cbn [app] in Hm. split_map.
    destruct (json_tokens_start y) as (k1 & kr & Ey & Hs).
    rewrite Ey in Hma. split_map.
    rewrite (tok_eta t _ Ht) in *. 
    cbn [flat_map]. rewrite <- app_assoc. cbn [app]. rewrite <- app_assoc.
    destruct (Hy t0 ts (tb ++ (spe, TFlowSequenceEnd) :: rest) SFlowSequenceEntry (K :: stk) SFlowSequenceEntry false an ai tg kt)
      as (e & sp & p1 & evs & Hpn & Han & Hst & Hev).
    { cbn [map]. rewrite Ey, Ht0, Hm. reflexivity. }
    rewrite <- Hev. cbn [app].
    eapply Steps_cons.
    + rewrite seq_next_node; [exact Hpn|]. rewrite Ht0. exact Hs.
    + exact Han.
    + eapply Steps_app; [exact Hst|]. apply IH. exact Hmb.
Qed.

Definition member_toks (kv : Resolver.str * jvalue) : list tok :=
  TKey :: TScalar DoubleQuoted (fst kv) :: TValue :: json_tokens (snd kv).
Definition member_events (kv : Resolver.str * jvalue) : list event :=
  EScalar (fst kv) DoubleQuoted 0 None :: json_events (snd kv).

(* the value of a member, from the state after its key *)
Lemma member_value v : NodeRun v ->
  forall tv spv rest stk an ai tg kt,
    map snd tv = json_tokens v ->
    Steps (P None ((spv, TValue) :: tv ++ rest) stk SFlowMappingValue an ai tg kt)
          (json_events v)
          (P None rest stk SFlowMappingKey an ai tg kt).
Proof.
  intros Hv tv spv rest stk an ai tg kt Hm.
  destruct (json_tokens_start v) as (k1 & kr & Ev & Hs).
  pose proof Hm as Hm'. rewrite Ev in Hm'. split_map.
  destruct (Hv t ts rest SFlowMappingKey stk SFlowMappingValue false an ai tg kt Hm)
    as (e & sp & p1 & evs & Hpn & Han & Hst & Hev).
  rewrite <- Hev. cbn [app]. eapply Steps_cons; [|exact Han|exact Hst].
  rewrite map_value_node; [exact Hpn|]. rewrite Ht. exact Hs.
Qed.

Lemma map_rest r : Forall (fun kv => NodeRun (snd kv)) r ->
  forall tr spe rest K stk an ai tg kt,
    map snd tr = flat_map (fun kv => TFlowEntry :: member_toks kv) r ->
    Steps (P None (tr ++ (spe, TFlowMappingEnd) :: rest) (K :: stk) SFlowMappingKey an ai tg kt)
          (flat_map member_events r ++ [EMappingEnd])
          (P None rest stk K an ai tg kt).
Proof.
  induction 1 as [|kv r Hy Hr IH]; intros tr spe rest K stk an ai tg kt Hm; cbn [flat_map] in Hm.
  - split_map. cbn [app flat_map]. eapply Steps_one; [apply map_next_end|reflexivity].
  - unfold member_toks at 1 in Hm. cbn [app] in Hm. split_map.
    rewrite (tok_eta t _ Ht), (tok_eta t0 _ Ht0), (tok_eta t1 _ Ht1), (tok_eta t2 _ Ht2) in *.
    cbn [flat_map]. unfold member_events at 1. cbn [app]. rewrite <- !app_assoc.
    eapply Steps_cons; [apply map_next_key|reflexivity|].
    eapply Steps_app; [apply member_value; [exact Hy|exact Hma]|].
    apply IH. exact Hmb.
Qed.

Theorem node_run v : NodeRun v.
Proof.
  induction v using jvalue_ind2; unfold NodeRun; intros t0 ts rest K stk st block an ai tg kt Hm.
  - cbn in Hm. inversion Hm as [[H0 H1]]. split_map. rewrite (tok_eta t0 _ H0). cbn [app].
    do 4 eexists. split; [apply scalar_node|]. split; [reflexivity|]. split; [apply Steps_nil|reflexivity].
  - cbn in Hm. inversion Hm as [[H0 H1]]. split_map. rewrite (tok_eta t0 _ H0). cbn [app].
    do 4 eexists. split; [apply scalar_node|]. split; [reflexivity|]. split; [apply Steps_nil|reflexivity].
  - cbn in Hm. inversion Hm as [[H0 H1]]. split_map. rewrite (tok_eta t0 _ H0). cbn [app].
    do 4 eexists. split; [apply scalar_node|]. split; [reflexivity|]. split; [apply Steps_nil|reflexivity].
  - cbn in Hm. inversion Hm as [[H0 H1]]. split_map. rewrite (tok_eta t0 _ H0). cbn [app].
    do 4 eexists. split; [apply scalar_node|]. split; [reflexivity|]. split; [apply Steps_nil|reflexivity].
  - (* array *)
    cbn [json_tokens map] in Hm. injection Hm as H0 H1.
    rewrite (tok_eta t0 _ H0).
    apply map_eq_app in H1 as (tbody & tend & -> & Hbody & Hend).
    apply map_eq_cons in Hend as (te & tnil & -> & Hte & Hnil). apply map_eq_nil in Hnil. subst tnil.
    rewrite (tok_eta te _ Hte). rewrite <- app_assoc. cbn [app json_events].
    do 4 eexists. split; [apply seqstart_node|]. split; [reflexivity|]. split; [|reflexivity].
    destruct H as [|x r Hx Hr].
    + apply map_eq_nil in Hbody. subst tbody. cbn [app flat_map]. eapply Steps_one; [apply seq_first_end|reflexivity].
    + apply map_eq_app in Hbody as (tx & tr & -> & Htx & Htr).
      destruct (json_tokens_start x) as (k1 & kr & Ex & Hs).
      pose proof Htx as Htx'. rewrite Ex in Htx'.
      apply map_eq_cons in Htx' as (t1 & tx1 & -> & Ht1 & _).
      rewrite <- !app_assoc. cbn [app].
      destruct (Hx t1 tx1 (tr ++ (fst te, TFlowSequenceEnd) :: rest) SFlowSequenceEntry (K :: stk)
                   SFlowSequenceFirstEntry false an ai tg kt Htx) as (e & sp & p1 & evs & Hpn & Han & Hst & Hev).
      cbn [flat_map]. rewrite <- Hev. cbn [app]. rewrite <- app_assoc.
      eapply Steps_cons.
      * rewrite seq_first_node; [exact Hpn|]. rewrite Ht1. exact Hs.
      * exact Han.
      * eapply Steps_app; [exact Hst|]. apply seq_rest; assumption.
  - (* object *)
    cbn [json_tokens map] in Hm. injection Hm as H0 H1.
    rewrite (tok_eta t0 _ H0).
    apply map_eq_app in H1 as (tbody & tend & -> & Hbody & Hend).
    apply map_eq_cons in Hend as (te & tnil & -> & Hte & Hnil). apply map_eq_nil in Hnil. subst tnil.
    rewrite (tok_eta te _ Hte). rewrite <- app_assoc. cbn [app json_events].
    do 4 eexists. split; [apply mapstart_node|]. split; [reflexivity|]. split; [|reflexivity].
    destruct H as [|kv r Hx Hr].
    + apply map_eq_nil in Hbody. subst tbody. cbn [app flat_map]. eapply Steps_one; [apply map_first_end|reflexivity].
    + apply map_eq_cons in Hbody as (tk & tm1 & -> & Htk & Hbody).
      apply map_eq_cons in Hbody as (tsc & tm2 & -> & Htsc & Hbody).
      apply map_eq_cons in Hbody as (tv & tm3 & -> & Htv & Hbody).
      apply map_eq_app in Hbody as (tm & tr & -> & Htm & Htr).
      rewrite (tok_eta tk _ Htk), (tok_eta tsc _ Htsc), (tok_eta tv _ Htv).
      cbn [flat_map app]. rewrite <- !app_assoc.
      eapply Steps_cons; [apply map_first_key|reflexivity|].
      eapply Steps_app; [apply member_value; [exact Hx|exact Htm]|].
      apply (map_rest r Hr). exact Htr.
Qed.

Section doc_steps.
Variables (kt : bool).

Lemma doc_step1 s0 tl :
  state_machine (P None ((s0, TStreamStart) :: tl) [] SStreamStart [] 1 [] kt)
  = Parser.Ok ((EStreamStart, s0), P None tl [] SImplicitDocumentStart [] 1 [] kt).
Proof. reflexivity. Qed.

Lemma doc_step2 t1 tl : node_start (snd t1) = true ->
  state_machine (P None (t1 :: tl) [] SImplicitDocumentStart [] 1 [] kt)
  = Parser.Ok ((EDocumentStart false, fst t1), P (Some t1) tl [SDocumentEnd] SBlockNode [] 1 [] kt).
Proof. destruct t1 as [sp1 k1]. destruct k1; try discriminate; reflexivity. Qed.

Lemma doc_step4 s1 :
  state_machine (P None [(s1, TStreamEnd)] [] SDocumentEnd [] 1 [] kt)
  = Parser.Ok ((EDocumentEnd, s1), P (Some (s1, TStreamEnd)) [] [] SDocumentStart [] 1 [] kt).
Proof. destruct kt; reflexivity. Qed.

Lemma doc_step5 s1 :
  state_machine (P (Some (s1, TStreamEnd)) [] [] SDocumentStart [] 1 [] kt)
  = Parser.Ok ((EStreamEnd, s1), P None [] [] SEnd [] 1 [] kt).
Proof. reflexivity. Qed.
End doc_steps.

Theorem doc_run v ts keep :
  map snd ts = wrap (json_tokens v) ->
  Steps (init_parser ts keep) (json_doc_events v) (P None [] [] SEnd [] 1 [] keep).
Proof.
  unfold wrap. intros Hm.
  apply map_eq_cons in Hm as (tss & ts1 & -> & Hss & Hm).
  apply map_eq_app in Hm as (tv & tend & -> & Hv & Hend).
  apply map_eq_cons in Hend as (te & tnil & -> & Hte & Hnil). apply map_eq_nil in Hnil. subst tnil.
  rewrite (tok_eta tss _ Hss), (tok_eta te _ Hte).
  destruct (json_tokens_start v) as (k1 & kr & Ev & Hs).
  pose proof Hv as Hv'. rewrite Ev in Hv'. apply map_eq_cons in Hv' as (t1 & tv1 & -> & Ht1 & _).
  unfold json_doc_events, init_parser. fold (P None ((fst tss, TStreamStart) :: (t1 :: tv1) ++ [(fst te, TStreamEnd)]) [] SStreamStart [] 1 [] keep).
  eapply Steps_cons; [apply doc_step1|reflexivity|].
  cbn [app]. eapply Steps_cons; [apply doc_step2; rewrite Ht1; exact Hs|reflexivity|].
  destruct (node_run v t1 tv1 [(fst te, TStreamEnd)] SDocumentEnd [] SBlockNode true [] 1%N [] keep Hv)
    as (e & sp & p1 & evs & Hpn & Han & Hst & Hev).
  rewrite <- Hev. cbn [app].
  eapply Steps_cons; [exact Hpn|exact Han|].
  eapply Steps_app; [exact Hst|].
  eapply Steps_cons; [apply doc_step4|reflexivity|].
  eapply Steps_one; [apply doc_step5|reflexivity].
Qed.

(* ---- from Steps to the fuelled drivers ---- *)
Lemma steps_parse_all p evs p' : Steps p evs p' -> p_state p' = SEnd ->
  forall fuel se acc, (length evs < fuel)%nat ->
  exists l, parse_all fuel p se acc = (rev acc ++ l, PDone) /\ map fst l = evs.
Proof.
  induction 1 as [p|p e sp p1 evs p' Hsm Hanc Hst IH]; intros Hend fuel se acc Hf.
  - destruct fuel as [|fuel]; [cbn in Hf; lia|]. rewrite parse_all_S, Hend. exists []. rewrite app_nil_r. split; reflexivity.
  - destruct fuel as [|fuel]; [cbn in Hf; lia|]. rewrite parse_all_S.
    assert (Hne : p_state p <> SEnd).
    { intros E. unfold state_machine in Hsm. rewrite E in Hsm. discriminate. }
    assert (G : step_result fuel p se acc = parse_all fuel p1 se ((e, sp) :: acc)).
    { unfold step_result. rewrite Hsm. reflexivity. }
    destruct (IH Hend fuel se ((e, sp) :: acc)) as (l & Hl & Hml); [cbn [length] in Hf; lia|].
    exists ((e, sp) :: l). split; [|cbn [map fst]; rewrite Hml; reflexivity].
    cbn [rev] in Hl. rewrite <- app_assoc in Hl. cbn [app] in Hl.
    destruct (p_state p); try (rewrite G; exact Hl). contradiction Hne; reflexivity.
Qed.

Definition no_anchor_event (e : event) : bool :=
  match e with EDocumentStart _ => false | _ => true end.

(* parse_load (Parser::load) differs only by clearing the anchor table after DocumentStart: the table is empty anyway *)
Lemma clear_anchors_id p : p_anchors p = [] -> clear_anchors p = p.
Proof. destruct p; cbn. intros ->. reflexivity. Qed.


(* ================= numbers ================= *)
Definition lbind (r : lres) (f : loader -> lres) : lres := match r with LOk l => f l | LPanic n => LPanic n end.

Lemma load_app a b s : load_events (a ++ b) s = lbind (load_events a s) (load_events b).
Proof.
  revert s; induction a as [|e a IH]; intros s; cbn [app load_events lbind]; [reflexivity|].
  destruct (on_event s e); [apply IH|reflexivity].
Qed.

Lemma load_one e s : load_events [e] s = on_event s e.
Proof. cbn [load_events]. destruct (on_event s e); reflexivity. Qed.

Lemma load_cons e r s : load_events (e :: r) s = lbind (on_event s e) (load_events r).
Proof. reflexivity. Qed.

(* ---- scalars ---- *)
Lemma value_of_plain t : value_of t Plain None = YVal (parse_from_cow t).
Proof. reflexivity. Qed.
Lemma value_of_dq s : value_of s DoubleQuoted None = YVal (SStr s).
Proof. reflexivity. Qed.

Lemma num_resolves t sc : json_num_value t = Some sc -> parse_from_cow t = sc.
Proof.
  unfold json_num_value. destruct (core_int t) as [z|] eqn:Ci.
  - destruct (in_i64 z) eqn:R.
    + intros H; inversion H; subst. exact (int_complete t z Ci R).
    + destruct (core_float t) as [f|] eqn:Cf; [|discriminate]. cbn [option_map]. intros H; inversion H; subst.
      apply (float_complete t f Cf). intros z' Hz'. rewrite Ci in Hz'. inversion Hz'; subst. exact R.
  - destruct (core_float t) as [f|] eqn:Cf; [|discriminate]. cbn [option_map]. intros H; inversion H; subst.
    apply (float_complete t f Cf). intros z' Hz'. rewrite Ci in Hz'. discriminate.
Qed.

(* ---- every RFC 8259 number is a core-schema float literal (and possibly an integer literal) ---- *)
Lemma json_exp_part m e0 r : json_exp r = true -> exists x, exp_part m e0 r = Some x.
Proof.
  unfold json_exp, exp_part. destruct r as [|c r']; [eauto|].
  destruct (ch c 101 || ch c 69); [|discriminate]. cbn [andb].
  destruct (sign_split r') as [eneg ds]. intros ->. eauto.
Qed.

Lemma json_int_ok_nonempty ip : json_int_ok ip = true -> nonempty ip = true.
Proof. destruct ip; [discriminate|reflexivity]. Qed.

Lemma json_unsigned_core b : json_unsigned b = true -> exists x, core_number b = Some x.
Proof.
  unfold json_unsigned, core_number. destruct (span_digits b) as [ip r1].
  intros H. apply andb_true_iff in H as [Hi H]. apply json_int_ok_nonempty in Hi.
  destruct r1 as [|c r]; [rewrite Hi; eauto|].
  destruct (ch c 46).
  - destruct (span_digits r) as [fp r2]. apply andb_true_iff in H as [Hf He]. rewrite Hi. cbn [orb].
    apply json_exp_part. exact He.
  - rewrite Hi. apply json_exp_part. exact H.
Qed.

Lemma json_unsigned_head b : json_unsigned b = true -> exists c r, b = c :: r /\ is_dig c = true.
Proof.
  unfold json_unsigned. destruct (span_digits b) as [ip r1] eqn:S. intros H. apply andb_true_iff in H as [Hi _].
  destruct (span_digits_spec _ _ _ S) as [-> Hd]. destruct ip as [|c ip]; [discriminate|].
  cbn in Hd. apply andb_true_iff in Hd as [Hc _]. exists c, (ip ++ r1). auto.
Qed.

Lemma dig_head_not_word c r l : is_dig c = true -> (forall w, In w l -> exists c' r', w = c' :: r' /\ is_dig c' = false) ->
  inl (c :: r) l = false.
Proof.
  intros Hc Hl. destruct (inl (c :: r) l) eqn:E; [|reflexivity]. apply inl_in in E.
  destruct (Hl _ E) as (c' & r' & Hw & Hd). inversion Hw; subst. congruence.
Qed.

Lemma dot_words l : (forall w, In w l -> exists r', w = 46%N :: r') ->
  forall w, In w l -> exists c' r', w = c' :: r' /\ is_dig c' = false.
Proof. intros H w Hw. destruct (H w Hw) as [r' ->]. eauto. Qed.

Lemma json_unsigned_float neg b s : json_unsigned b = true -> sign_split s = (neg, b) ->
  (exists c r, s = c :: r /\ (is_dig c = true \/ c = 45%N)) -> exists f, core_float s = Some f.
Proof.
  intros Hb Hs (c & r & -> & Hc).
  destruct (json_unsigned_core b Hb) as [[m e] Hn].
  destruct (json_unsigned_head b Hb) as (c0 & r0 & -> & Hc0).
  unfold core_float.
  assert (W1 : inl (c :: r) [s_dnan; s_dNaN; s_dNAN] = false).
  { destruct (inl (c :: r) [s_dnan; s_dNaN; s_dNAN]) eqn:E; [|reflexivity]. apply inl_in in E. cbn in E.
    destruct Hc as [Hc|Hc]; repeat (destruct E as [E|E]; [inversion E; subst; discriminate|]); destruct E. }
  rewrite W1, Hs.
  rewrite (dig_head_not_word c0 r0 _ Hc0).
  - rewrite Hn. eauto.
  - apply dot_words. intros w Hw. cbn in Hw. repeat (destruct Hw as [<-|Hw]; [eexists; reflexivity|]). destruct Hw.
Qed.

Theorem json_number_float t : json_number t = true -> exists f, core_float t = Some f.
Proof.
  unfold json_number. destruct t as [|c r]; [discriminate|].
  destruct (ch c 45) eqn:C.
  - intros H. apply N.eqb_eq in C. subst c. apply (json_unsigned_float true r); [exact H|reflexivity|].
    exists 45%N, r. auto.
  - intros H. destruct (json_unsigned_head _ H) as (c0 & r0 & E & Hc0). inversion E; subst c0 r0.
    apply (json_unsigned_float false (c :: r)); [exact H| |exists c, r; auto].
    unfold sign_split. rewrite C.
    assert (C2 : ch c 43 = false). { apply dig_not_sign. exact Hc0. } rewrite C2. reflexivity.
Qed.

Theorem json_number_value t : json_number t = true -> json_num_value t = Some (json_num_scalar t).
Proof.
  intros H. destruct (json_number_float t H) as [f Hf]. unfold json_num_scalar, json_num_value.
  rewrite Hf. cbn [option_map]. destruct (core_int t) as [z|]; [destruct (in_i64 z)|]; reflexivity.
Qed.

Theorem json_number_resolves t : json_number t = true -> parse_from_cow t = json_num_scalar t.
Proof. intros H. apply num_resolves. apply json_number_value. exact H. Qed.

Theorem json_number_both t : json_number t = true ->
  json_num_value t = Some (json_num_scalar t) /\ parse_from_cow t = json_num_scalar t.
Proof. intros H. split; [exact (json_number_value t H)|exact (json_number_resolves t H)]. Qed.


(* ================= loader half ================= *)
(* ---- LinkedHashMap::insert on string keys = obj_insert ---- *)
Lemma remove_key_str k (acc : list (Resolver.str * yaml)) :
  remove_key (YVal (SStr k)) (map ykey acc)
  = (if existsb (fun kv => Resolver.str_eqb k (fst kv)) acc then Some (YVal (SStr k)) else None,
     map ykey (obj_remove k acc)).
Proof.
  induction acc as [|[k' v'] acc IH]; [reflexivity|].
  cbn [map ykey fst snd remove_key yaml_eqb Loader.scalar_eqb existsb obj_remove].
  destruct (Resolver.str_eqb k k') eqn:E.
  - apply str_eqb_eq in E. subst k'. reflexivity.
  - rewrite IH. cbn [orb]. reflexivity.
Qed.

Lemma map_insert_str k v (acc : list (Resolver.str * yaml)) :
  map_insert (YVal (SStr k)) v (map ykey acc) = map ykey (obj_insert acc (k, v)).
Proof.
  unfold map_insert, obj_insert. rewrite remove_key_str. cbn [fst].
  rewrite map_app. cbn [map ykey fst snd].
  destruct (existsb _ acc); reflexivity.
Qed.

Definition LD (d : list yaml) (stk : list (yaml * N)) (ks : list (option yaml)) (an : list (N * yaml)) : loader :=
  {| l_docs := d; l_stack := stk; l_keys := ks; l_anchors := an |}.

Lemma loader_eta s : s = LD (l_docs s) (l_stack s) (l_keys s) (l_anchors s).
Proof. destruct s; reflexivity. Qed.

Definition LoadNode (v : jvalue) : Prop :=
  forall s, load_events (json_events v) s = insert_new_node s (yaml_of_json v) 0.

Lemma seq_items l : Forall LoadNode l ->
  forall k items a d stk ks an,
    load_events (flat_map json_events l ++ k) (LD d ((YSeq items, a) :: stk) ks an)
    = load_events k (LD d ((YSeq (items ++ map yaml_of_json l), a) :: stk) ks an).
Proof.
  induction 1 as [|x l Hx Hl IH]; intros k items a d stk ks an.
  - cbn [flat_map map app]. rewrite app_nil_r. reflexivity.
  - cbn [flat_map map]. rewrite <- app_assoc, load_app, Hx.
    cbn [insert_new_node LD l_stack l_docs l_keys l_anchors lbind]. change (0 <? 0)%N with false. cbv iota.
    fold (LD d ((YSeq (items ++ [yaml_of_json x]), a) :: stk) ks an).
    rewrite IH. rewrite <- app_assoc. reflexivity.
Qed.

Definition member_data (kv : Resolver.str * jvalue) : Resolver.str * yaml := (fst kv, yaml_of_json (snd kv)).

Lemma map_members l : Forall (fun kv => LoadNode (snd kv)) l ->
  forall k acc a d stk ks an,
    load_events (flat_map member_events l ++ k) (LD d ((YMap (map ykey acc), a) :: stk) (None :: ks) an)
    = load_events k (LD d ((YMap (map ykey (fold_left obj_insert (map member_data l) acc)), a) :: stk) (None :: ks) an).
Proof.
  induction 1 as [|kv l Hx Hl IH]; intros k acc a d stk ks an.
  - reflexivity.
  - cbn [flat_map map fold_left]. unfold member_events at 1. cbn [app]. rewrite <- app_assoc.
    rewrite load_cons. cbn [on_event]. rewrite value_of_dq.
    cbn [insert_new_node LD l_stack l_docs l_keys l_anchors lbind]. change (0 <? 0)%N with false. cbv iota.
    rewrite load_app, Hx.
    cbn [insert_new_node LD l_stack l_docs l_keys l_anchors lbind]. change (0 <? 0)%N with false. cbv iota.
    rewrite map_insert_str.
    fold (LD d ((YMap (map ykey (obj_insert acc (fst kv, yaml_of_json (snd kv)))), a) :: stk) (None :: ks) an).
    rewrite IH. reflexivity.
Qed.

Lemma insert_eta s y a : insert_new_node (LD (l_docs s) (l_stack s) (l_keys s) (l_anchors s)) y a = insert_new_node s y a.
Proof. rewrite <- loader_eta. reflexivity. Qed.

Theorem load_node v : json_wf v = true -> LoadNode v.
Proof.
  induction v using jvalue_ind2; intros Hwf ld.
  - cbn [json_events]. rewrite load_one. reflexivity.
  - cbn [json_events]. rewrite load_one. destruct b; reflexivity.
  - cbn [json_events]. rewrite load_one. cbn [on_event]. rewrite value_of_plain.
    cbn [json_wf] in Hwf. rewrite (json_number_resolves t Hwf). reflexivity.
  - cbn [json_events]. rewrite load_one. reflexivity.
  - cbn [json_events yaml_of_json]. rewrite load_cons. cbn [on_event lbind].
    fold (LD (l_docs ld) ((YSeq [], 0%N) :: l_stack ld) (l_keys ld) (l_anchors ld)).
    assert (HF : Forall LoadNode l).
    { cbn [json_wf] in Hwf. rewrite forallb_forall in Hwf. rewrite Forall_forall in H |- *. intros x Hx. apply (H x Hx). apply Hwf. exact Hx. }
    rewrite (seq_items l HF). cbn [app]. rewrite load_one.
    cbn [on_event LD l_stack l_docs l_keys l_anchors]. apply insert_eta.
  - cbn [json_events yaml_of_json]. rewrite load_cons. cbn [on_event lbind].
    assert (HF : Forall (fun kv => LoadNode (snd kv)) l).
    { cbn [json_wf] in Hwf. rewrite forallb_forall in Hwf. rewrite Forall_forall in H |- *. intros x Hx. apply (H x Hx). apply Hwf. exact Hx. }
    change (load_events (flat_map member_events l ++ [EMappingEnd])
              (LD (l_docs ld) ((YMap (map ykey []), 0%N) :: l_stack ld) (None :: l_keys ld) (l_anchors ld))
            = insert_new_node ld (YMap (map ykey (fold_left obj_insert (map member_data l) []))) 0).
    rewrite (map_members l HF). rewrite load_one.
    cbn [on_event LD l_stack l_docs l_keys l_anchors]. apply insert_eta.
Qed.

Theorem doc_load v : json_wf v = true ->
  load_events (json_doc_events v) l0 = LOk (LD [yaml_of_json v] [] [] []).
Proof.
  intros Hwf. unfold json_doc_events. rewrite load_cons. cbn [on_event lbind]. rewrite load_cons. cbn [on_event lbind].
  rewrite load_app, (load_node v Hwf). reflexivity.
Qed.

(* ---- distinct member names: nothing to normalise ---- *)
Lemma existsb_str_false k (l : list Resolver.str) : existsb (Resolver.str_eqb k) l = false -> ~ In k l.
Proof.
  intros H Hin. assert (existsb (Resolver.str_eqb k) l = true); [|congruence].
  apply existsb_exists. exists k. split; [exact Hin|apply str_eqb_refl].
Qed.

Lemma keys_distinct_nodup l : keys_distinct l = true -> NoDup l.
Proof.
  induction l as [|k r IH]; [constructor|]. cbn [keys_distinct]. intros H. apply andb_true_iff in H as [H1 H2].
  constructor; [|exact (IH H2)]. apply existsb_str_false. destruct (existsb _ r); [discriminate|reflexivity].
Qed.

Lemma obj_remove_absent {B} k (acc : list (Resolver.str * B)) : ~ In k (map fst acc) -> obj_remove k acc = acc.
Proof.
  induction acc as [|[k' v'] acc IH]; [reflexivity|]. cbn [map fst In obj_remove]. intros H.
  destruct (Resolver.str_eqb k k') eqn:E.
  - apply str_eqb_eq in E. subst. exfalso. apply H. left. reflexivity.
  - rewrite IH; [reflexivity|]. intros Hin. apply H. right. exact Hin.
Qed.

Lemma obj_fold_nodup {B} (l acc : list (Resolver.str * B)) :
  NoDup (map fst (acc ++ l)) -> fold_left obj_insert l acc = acc ++ l.
Proof.
  revert acc; induction l as [|kv l IH]; intros acc H; cbn [fold_left]; [rewrite app_nil_r; reflexivity|].
  unfold obj_insert at 2. rewrite obj_remove_absent.
  - rewrite IH; rewrite <- app_assoc; [reflexivity|exact H].
  - rewrite map_app in H. cbn [map] in H. apply NoDup_remove_2 in H. intros Hin. apply H. apply in_or_app. left. exact Hin.
Qed.

Theorem obj_norm_nodup {B} (l : list (Resolver.str * B)) : keys_distinct (map fst l) = true -> obj_norm l = l.
Proof. intros H. unfold obj_norm. rewrite obj_fold_nodup; [reflexivity|]. cbn [app]. apply keys_distinct_nodup. exact H. Qed.

Theorem yaml_of_json_distinct v : json_distinct v = true -> yaml_of_json v = yaml_of_json_ordered v.
Proof.
  induction v using jvalue_ind2; intros Hd; try reflexivity.
  - cbn [yaml_of_json yaml_of_json_ordered]. f_equal. apply map_ext_in. intros x Hx.
    rewrite Forall_forall in H. apply (H x Hx). cbn [json_distinct] in Hd. rewrite forallb_forall in Hd. apply Hd. exact Hx.
  - cbn [yaml_of_json yaml_of_json_ordered]. f_equal. cbn [json_distinct] in Hd. apply andb_true_iff in Hd as [Hk Hd].
    rewrite obj_norm_nodup; [|rewrite map_map; cbn [fst]; exact Hk].
    rewrite map_map. apply map_ext_in. intros kv Hkv. unfold ykey. cbn [fst snd]. f_equal.
    rewrite Forall_forall in H. apply (H kv Hkv). rewrite forallb_forall in Hd. apply Hd. exact Hkv.
Qed.

(* ---- fuel: no more events than tokens ---- *)
Lemma flat_len_le {A B C} (f : A -> list B) (g : A -> list C) l :
  Forall (fun x => length (f x) <= length (g x))%nat l -> (length (flat_map f l) <= length (flat_map g l))%nat.
Proof. induction 1; cbn [flat_map]; [cbn; lia|]. rewrite !app_length. lia. Qed.

Lemma events_le_tokens v : (length (json_events v) <= length (json_tokens v))%nat.
Proof.
  induction v using jvalue_ind2; try (cbn; lia).
  - cbn [json_events json_tokens length]. rewrite !app_length. cbn [length].
    destruct H as [|x r Hx Hr]; [cbn; lia|]. cbn [flat_map]. rewrite !app_length.
    pose proof (flat_len_le json_events (fun y => TFlowEntry :: json_tokens y) r) as G.
    assert (Forall (fun x => length (json_events x) <= length (TFlowEntry :: json_tokens x))%nat r).
    { eapply Forall_impl; [|exact Hr]. cbn [length]. intros; lia. }
    specialize (G H). lia.
  - cbn [json_events json_tokens length]. rewrite !app_length. cbn [length].
    destruct H as [|x r Hx Hr]; [cbn; lia|]. cbn [flat_map]. rewrite !app_length. cbn [length].
    pose proof (flat_len_le (fun kv => EScalar (fst kv) DoubleQuoted 0 None :: json_events (snd kv))
                  (fun kv => TFlowEntry :: TKey :: TScalar DoubleQuoted (fst kv) :: TValue :: json_tokens (snd kv)) r) as G.
    assert (Forall (fun x : Resolver.str * jvalue => length (EScalar (fst x) DoubleQuoted 0 None :: json_events (snd x))
                         <= length (TFlowEntry :: TKey :: TScalar DoubleQuoted (fst x) :: TValue :: json_tokens (snd x)))%nat r).
    { eapply Forall_impl; [|exact Hr]. cbn [length]. intros; lia. }
    specialize (G H). cbn beta in Hx. apply le_n_S, Nat.add_le_mono_r, Nat.add_le_mono; [exact (le_S _ _ (le_S _ _ (le_n_S _ _ Hx)))|exact G].
Qed.

Lemma doc_events_fuel v (ts : list token) : map snd ts = wrap (json_tokens v) -> (length (json_doc_events v) <= length ts + 2)%nat.
Proof.
  intros H. assert (L : length ts = length (wrap (json_tokens v))) by (rewrite <- H, map_length; reflexivity).
  rewrite L. unfold wrap, json_doc_events. cbn [length]. rewrite !app_length. cbn [length].
  pose proof (events_le_tokens v). lia.
Qed.


(* ================= composition ================= *)
(* Parser::load (PipeL.parse_load) differs from the bare event loop only by clearing the anchor table after
   DocumentStart; along a JSON run the table stays empty *)
Lemma steps_parse_load p evs p' : Steps p evs p' -> p_anchors p = [] -> p_state p' = SEnd ->
  forall fuel se acc, (length evs < fuel)%nat ->
  parse_load fuel p se acc = (rev acc ++ evs, PDone).
Proof.
  induction 1 as [p|p e sp p1 evs p' Hsm Hanc Hst IH]; intros Hnil Hend fuel se acc Hf.
  - destruct fuel as [|fuel]; [cbn in Hf; lia|]. cbn [parse_load]. rewrite Hend, app_nil_r. reflexivity.
  - destruct fuel as [|fuel]; [cbn in Hf; lia|].
    assert (Hne : p_state p <> SEnd).
    { intros E. unfold state_machine in Hsm. rewrite E in Hsm. discriminate. }
    assert (Hp1 : p_anchors p1 = []) by (rewrite Hanc; exact Hnil).
    assert (Hc : match e with EDocumentStart _ => clear_anchors p1 | _ => p1 end = p1).
    { destruct e; try reflexivity. apply clear_anchors_id. exact Hp1. }
    specialize (IH Hp1 Hend fuel se (e :: acc)).
    cbn [rev] in IH. rewrite <- app_assoc in IH. cbn [app] in IH.
    cbn [parse_load]. rewrite Hsm, Hc.
    destruct (p_state p); try (apply IH; cbn [length] in Hf; lia). contradiction Hne; reflexivity.
Qed.

(* the part of PipeL.run_load behind the scanner *)
Definition load_tokens (fuel : nat) (ts : list token) (se : scan_end) : lout :=
  match parse_load fuel (init_parser ts false) se [] with
  | (evs, PDone) => match load_events evs l0 with LOk ld => LDocs (rev (l_docs ld)) | LPanic n => LBad n end
  | (_, PPanic n) => LBad n
  | (_, PFuel) => LBad 999
  | _ => LErr
  end.

(* run_load is the scanner model followed by load_tokens (F: the fuel unit run_load derives from the text length) *)
Lemma run_load_tokens s :
  exists F, run_load s =
            (let '(toks, se) := scan_all str_ops F (4 * F + 20) (init_sc {| si_chars := s; si_look := 0 |}) [] in
             load_tokens (4 * F + 20) toks se).
Proof. eexists. unfold run_load, load_tokens, init_parser. cbv zeta. reflexivity. Qed.



(* events and verdict of the pull parser on the tokens of a JSON text (Parser::next_event loop) *)
Theorem tokens_parse_all v ts keep se fuel :
  map snd ts = wrap (json_tokens v) -> (length ts + 2 < fuel)%nat ->
  let r := parse_all fuel (init_parser ts keep) se [] in
  snd r = PDone /\ evs_of (fst r) = json_doc_events v.
Proof.
  intros Hm Hf. cbv zeta.
  destruct (steps_parse_all _ _ _ (doc_run v ts keep Hm) eq_refl fuel se []) as (l & Hl & Hml).
  { eapply Nat.le_lt_trans; [exact (doc_events_fuel v ts Hm)|exact Hf]. }
  rewrite Hl. cbn [fst snd rev app]. split; [reflexivity|exact Hml].
Qed.

(* Drivers.parse_tokens (the entry point the correspondence run feeds with the implementation's tokens) *)
Theorem tokens_parse_tokens v ts keep se :
  map snd ts = wrap (json_tokens v) ->
  let r := parse_tokens ts se keep in snd r = PDone /\ evs_of (fst r) = json_doc_events v.
Proof. intros Hm. apply (tokens_parse_all v ts keep se _ Hm). unfold token. lia. Qed.

(* parser + loader: exactly one document, the JSON value *)
Theorem tokens_load v ts se fuel :
  json_wf v = true -> map snd ts = wrap (json_tokens v) -> (length ts + 2 < fuel)%nat ->
  load_tokens fuel ts se = LDocs [yaml_of_json v].
Proof.
  intros Hwf Hm Hf. unfold load_tokens.
  rewrite (steps_parse_load _ _ _ (doc_run v ts false Hm) eq_refl eq_refl fuel se []).
  - cbn [rev app]. rewrite (doc_load v Hwf). reflexivity.
  - eapply Nat.le_lt_trans; [exact (doc_events_fuel v ts Hm)|exact Hf].
Qed.

Theorem tokens_load_events v ts keep se fuel :
  json_wf v = true -> map snd ts = wrap (json_tokens v) -> (length ts + 2 < fuel)%nat ->
  load_events (evs_of (fst (parse_all fuel (init_parser ts keep) se []))) l0 = LOk (LD [yaml_of_json v] [] [] []).
Proof.
  intros Hwf Hm Hf. destruct (tokens_parse_all v ts keep se fuel Hm Hf) as [_ ->]. exact (doc_load v Hwf).
Qed.

Theorem tokens_load_ordered v ts se fuel :
  json_wf v = true -> json_distinct v = true -> map snd ts = wrap (json_tokens v) -> (length ts + 2 < fuel)%nat ->
  load_tokens fuel ts se = LDocs [yaml_of_json_ordered v].
Proof. intros Hwf Hd Hm Hf. rewrite <- (yaml_of_json_distinct v Hd). exact (tokens_load v ts se fuel Hwf Hm Hf). Qed.

(* hence: whenever the scanner model delivers the tokens of a JSON value, run_load delivers the value *)
Theorem text_load_of_tokens s v :
  json_wf v = true ->
  (forall F, let '(toks, _) := scan_all str_ops F (4 * F + 20) (init_sc {| si_chars := s; si_look := 0 |}) [] in
             map snd toks = wrap (json_tokens v) /\ (length toks + 2 < 4 * F + 20)%nat) ->
  run_load s = LDocs [yaml_of_json v].
Proof.
  intros Hwf Hsc. destruct (run_load_tokens s) as [F ->]. specialize (Hsc F).
  destruct (scan_all _ _ _ _ _) as [toks se]. destruct Hsc as [Hm Hf].
  exact (tokens_load v toks se _ Hwf Hm Hf).
Qed.

(* ================= texts: the relation is inhabited as intended; the former finding (TAB after ':') at the text level ================= *)
(* the text  [1 ,<LF>"a\né"]  (17 code points) is a serialisation of [1, "a<LF>é"] and loads as that value *)
Lemma text_example :
  json_doc_text (JArr [JNum [49]%N; JStr [97;10;233]%N])
                [91;49;32;44;10;34;97;92;110;92;117;48;48;101;57;34;93]%N.
Proof.
  exists [], [91;49;32;44;10;34;97;92;110;92;117;48;48;101;57;34;93]%N, []. repeat split; try reflexivity.
  apply (jt_arr (JNum [49]%N) [JStr [97;10;233]%N] [49;32;44;10;34;97;92;110;92;117;48;48;101;57;34]%N).
  apply (et_cons (JNum [49]%N) [] [49]%N [32]%N [JStr [97;10;233]%N] [10;34;97;92;110;92;117;48;48;101;57;34]%N); try reflexivity.
  - apply jt_num. reflexivity.
  - apply (et_one (JStr [97;10;233]%N) [10]%N [34;97;92;110;92;117;48;48;101;57;34]%N []); try reflexivity.
    apply (jt_str [97;10;233]%N [97;92;110;92;117;48;48;101;57]%N).
    apply st_raw; try reflexivity.
    apply (st_esc 110%N 10%N); [cbn; tauto|].
    apply (st_u 48 48 101 57 233)%N; try reflexivity.
    apply st_nil.
Qed.

(* the text  {"a":<TAB>1}  is a serialisation of {"a": 1} ... *)
Lemma tab_text : json_doc_text (JObj [([97]%N, JNum [49]%N)]) [123;34;97;34;58;9;49;125]%N.
Proof.
  exists [], [123;34;97;34;58;9;49;125]%N, []. repeat split; try reflexivity.
  apply (jt_obj ([97]%N, JNum [49]%N) [] [34;97;34;58;9;49]%N).
  apply (mt_one [97]%N (JNum [49]%N) [] [97]%N [] [9]%N [49]%N []); try reflexivity.
  - apply st_raw; try reflexivity. apply st_nil.
  - apply jt_num. reflexivity.
Qed.

(* ... of nesting depth 1; it was the witness of the finding colon-tab-scalar (the tab check of fetch_value fired
   in flow context too).  Since /repo b87c12b the check only runs at flow level 0 and the whole model pipeline
   loads the text with its JSON meaning. *)
Lemma tab_text_loads :
  (json_depth (JObj [([97]%N, JNum [49]%N)]) < 256)%nat /\
  run_load [123;34;97;34;58;9;49;125]%N = LDocs [yaml_of_json (JObj [([97]%N, JNum [49]%N)])].
Proof. split; [cbn; lia|vm_compute; reflexivity]. Qed.
