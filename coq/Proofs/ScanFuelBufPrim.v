(* PORT of ScanRelPrim.v to the fuel-transfer calculus of ScanFuelBuf.v (see there): the same rules and the same
   proofs; [rwp] is [rwpN N0], the base case of every lockstep loop is closed by the STRING side's [oof].
   After the sections close every rule takes N0 right after [cap cap_ge] (rules without [ops]: as first argument); it is
   inferred from the goal by [apply].  [rwp_modify_skel] / [rwp_put_skel] discharge the new premise of [rwp_modify] /
   [rwp_put] (the string side's text does not grow) from their premise [rem1 .. = rem1 s1]. *)
(* Joint proof "the scanner over the buffered input computes what the scanner over the string input computes"
   (see SCANREL.md): the PRIMITIVES family - every derived primitive of Model/SPrim.v as a relational rule, the
   bulk input loops, and the four contracts

     skip_linebreak_ok       : rel_skip_linebreak cap N0
     skip_ws_to_eol_ok       : rel_skip_ws_to_eol cap N0
     skip_to_next_token_ok   : rel_skip_to_next_token cap N0
     skip_yaml_whitespace_ok : rel_skip_yaml_whitespace cap N0        (after the section: [forall cap, 8 <= cap -> ...])

   ======================================================================================================
   HOW TO USE (other families: [Require Import ScanRel ScanRelPrim.])

   Conventions.  [s1 t1 : st1] string side, [s2 t2 : st2] buffered side.  Every rule keeps [SR], tracks the
   buffered length [bl2] of the buffered side and says how the string side's remaining text [rem1] moved; the
   characters read are those of the STRING side ([rn1 s1 i]) on BOTH sides.  [Q] is always annotated
   [_ -> st1 -> _ -> st2 -> Prop].
   * Rules about functions that do not take [ops] (skeleton accessors, indentation, simple keys, [rwp_bind_rpost],
     [rwp_mark_fail] ...) are stated OUTSIDE the section: use them as they are ([apply rwp_push_tok]).
   * Rules about functions taking [ops] are stated INSIDE [Section RelPrim] and ALL of them take [cap cap_ge] as
     their first two arguments after the section closes: [apply (rwp_skip_blank cap cap_ge)].
   * WARNING: never run [congruence] / [f_equal] on an equation between two [sc] records (16 fields): it takes
     MINUTES.  Use [rel_skel] / [rel_eq] / [sr_sync] below (rewriting with the 14 field equalities, then
     [reflexivity]); [congruence] on equations between [rem1]/[bl2]/[erase] VARIABLES is fine.

   Tactics (exported):
     rel_skel      closes [SR (f s1) (f s2)] when [SR s1 s2] is a hypothesis and [f] is the same composition of the
                   setters set_mark set_tokens set_ska set_lws set_adj set_ta set_ss set_se set_sks
                   set_indent set_fl set_tp set_ifms (set_flags set_struct upd) on both sides; the values stored may
                   be built from the fields of [s1] resp. [s2] (e.g. [set_tokens (sc_tokens s ++ [t]) s],
                   [set_mark (adv n (sc_mark s)) s]).  A [match]/[let '(a,b) := ..] whose scrutinee is stuck must be
                   [destruct]ed first ([sr_sync H] makes the scrutinee the same term on both sides).
     rel_eq        closes [x1 = x2] where x2 is x1 with the skeleton fields of s1 replaced by those of s2
                   (e.g. [sc_mark s1 = sc_mark s2], [(0 <? sc_flow_level s1)%N = (0 <? sc_flow_level s2)%N]).
     sr_fields H   H : SR s1 s2; adds the 14 field equalities [sc_X s1 = sc_X s2] to the context.
     sr_sync H     H : SR s1 s2; rewrites every skeleton field of s2 in the goal into the field of s1
                   (use after [apply rwp_bind. apply rwp_get. cbv beta.]: the two continuations then test the same
                   values and one [destruct] moves both sides).  [sr_fwd H] rewrites the other way round.
     rel_if        goal [rwp (if b1 then _ else _) (if b2 then _ else _) Q s1 s2]: proves b2 = b1 with [rel_eq] and
                   destructs b1 (with [eqn:Eb]); two goals remain, both sides in the same branch.

   Skeleton lemmas: SR_fields (all 15), SR_tokens SR_sks SR_ska SR_indent SR_indents SR_flow_level SR_tokens_parsed
     SR_lws SR_fms SR_ifms SR_adjacent SR_token_available SR_stream_start SR_stream_end (and SR_mark of ScanRel.v):
     [SR s1 s2 -> sc_X s1 = sc_X s2].
     SR_erase2 : SR s1 s2 -> SR t1 t2 -> erase t1 = erase s1 -> erase t2 = erase s2.
     SR_split  : SR s1 s2 -> exists i1 i2 u, s1 = with_in i1 u /\ s2 = with_in i2 u /\ Rel i1 i2   (last resort:
                 after substitution every skeleton computation is literally the same term on both sides);
     SR_with_in : Rel i1 i2 -> SR (with_in i1 u) (with_in i2 u).
   List/position helpers: rn1_eq rn1_tl rn1_skipn (how [rn1] moves with [rem1]), tl_skipn, skipn_tl, nth_skipn,
     skipn_add.

   Generic rules (no cap):
     rwp_bind_rpost k rwp m1 m2 (rpost k) s1 s2 -> (forall a t1 t2, SR t1 t2 -> k <= bl2 t2 -> rwp (f1 a) (f2 a) Q t1 t2)
                      -> rwp (bind m1 f1) (bind m2 f2) Q s1 s2              (calling a contract; use [eapply])
     rwp_rpost_weaken rwp m1 m2 (rpost k) s1 s2 -> k' <= k -> rwp m1 m2 (rpost k') s1 s2
     rwp_ret_rpost    SR s1 s2 -> k <= bl2 s2 -> rwp (ret a) (ret a) (rpost k) s1 s2
     rwp_gets_skel    SR s1 s2 -> f1 s1 = f2 s2 -> Q (f1 s1) s1 (f1 s1) s2 -> rwp (gets f1) (gets f2) Q s1 s2
                      (second premise: [rel_eq])
     rwp_modify_skel  SR (f1 s1) (f2 s2) -> rem1 (f1 s1) = rem1 s1 -> bl2 (f2 s2) = bl2 s2 ->
                      (forall t1 t2, SR t1 t2 -> rem1 t1 = rem1 s1 -> bl2 t2 = bl2 s2 -> Q tt t1 tt t2)
                      -> rwp (modify f1) (modify f2) Q s1 s2        (premises: [rel_skel], [reflexivity], [reflexivity])
     rwp_put_skel     SR u1 u2 -> rem1 u1 = rem1 s1 -> bl2 u2 = bl2 s2 -> (same continuation) -> rwp (put u1) (put u2) Q s1 s2
     rwp_fail_sr      SR s1 s2 -> rwp (fail site (sc_mark s1)) (fail site (sc_mark s2)) Q s1 s2
     rwp_mark_fail    SR s1 s2 -> rwp (m <- mark ;; fail site m) (m <- mark ;; fail site m) Q s1 s2
     rwp_mark         SR s1 s2 -> Q (sc_mark s1) s1 (sc_mark s1) s2 -> rwp mark mark Q s1 s2
   Skeleton-only primitives, all of the shape
       SR s1 s2 -> [equalities between the arguments of the two sides ->]
       (forall t1 t2, SR t1 t2 -> rem1 t1 = rem1 s1 -> bl2 t2 = bl2 s2 -> Q tt t1 tt t2) -> rwp (X ..) (X ..) Q s1 s2 :
     rwp_adv_mark n, rwp_push_tok tk1 tk2 (tk1 = tk2), rwp_insert_token p1 p2 tk1 tk2 (p1 = p2, tk1 = tk2),
     rwp_allow_simple_key, rwp_disallow_simple_key,
     rwp_roll_indent col number tk mk1 mk2 (mk1 = mk2), rwp_unroll_indent_go F col, rwp_unroll_indent col,
     rwp_roll_one_col_indent, rwp_unroll_non_block_indents, rwp_save_simple_key, rwp_remove_simple_key,
     rwp_stale_simple_keys, rwp_end_implicit_mapping mk1 mk2 (mk1 = mk2), rwp_increase_flow_level,
     rwp_decrease_flow_level
   Skeleton reads:
     rwp_flow_level   SR s1 s2 -> Q (sc_flow_level s1) s1 (sc_flow_level s1) s2 -> ..
     rwp_in_flow      SR s1 s2 -> Q (0 <? sc_flow_level s1)%N s1 (0 <? sc_flow_level s1)%N s2 -> ..
     rwp_is_within_block  SR s1 s2 -> Q (within_block1 s1) s1 (within_block1 s1) s2 -> ..

   Rules of the section (all take [cap cap_ge]):
     rwp_next_char_is c   SR s1 s2 -> 1 <= bl2 s2 -> Q (rn1 s1 0 =? c)%N s1 (rn1 s1 0 =? c)%N s2 -> ..
     rwp_nth_char_is n c  SR s1 s2 -> n < bl2 s2 -> Q (rn1 s1 n =? c)%N s1 (same) s2 -> ..
     rwp_next_is p        SR s1 s2 -> 1 <= bl2 s2 -> Q (p (rn1 s1 0)) s1 (same) s2 -> ..
     rwp_next_2_are a b   SR s1 s2 -> 2 <= bl2 s2 -> Q (n2are s1 a b) s1 (same) s2 -> ..
     rwp_next_3_are a b c SR s1 s2 -> 3 <= bl2 s2 -> Q (n3are s1 a b c) s1 (same) s2 -> ..
     rwp_next_is_document_indicator / _start / _end
                          SR s1 s2 -> 4 <= bl2 s2 -> Q (docind_val s1 | docstart_val s1 | docend_val s1) s1 (same) s2 -> ..
     rwp_next_can_be_plain_scalar fl   SR s1 s2 -> 2 <= bl2 s2 -> Q (plain_ok_val fl s1) s1 (same) s2 -> ..
     rwp_skip_blank / rwp_skip_non_blank / rwp_skip_nl
                          SR s1 s2 -> 1 <= bl2 s2 ->
                          (forall t1 t2, SR t1 t2 -> rem1 t1 = tl (rem1 s1) -> bl2 t2 = bl2 s2 - 1 -> Q tt t1 tt t2) -> ..
     rwp_skip_n_non_blank n   SR s1 s2 -> n <= bl2 s2 ->
                          (forall t1 t2, SR t1 t2 -> rem1 t1 = skipn n (rem1 s1) -> bl2 t2 = bl2 s2 - n -> Q tt t1 tt t2) -> ..
     rwp_skip_linebreak   SR s1 s2 -> 2 <= bl2 s2 ->
                          (forall t1 t2, SR t1 t2 -> rem1 t1 = skipn (lb_len s1) (rem1 s1) -> bl2 t2 = bl2 s2 - lb_len s1 ->
                                         Q tt t1 tt t2) -> ..        ([lb_len s1] = 2 for CR LF, 1 for a break, else 0;
                                                                      [lb_len_le2], [lb_len_break])
     rwp_skip_break       SR s1 s2 -> 2 <= bl2 s2 ->
                          (forall t1 t2, SR t1 t2 -> is_break (rn1 s1 0) = true -> rem1 t1 = skipn (lb_len s1) (rem1 s1) ->
                                         bl2 t2 = bl2 s2 - lb_len s1 -> Q tt t1 tt t2) -> ..
                          (no premise "the next character is a break": the debug assertion fails on both sides or on none)
     rwp_in_skip_while F p    SR s1 s2 ->
                          (forall k t1 t2, SR t1 t2 -> erase t1 = erase s1 -> 1 <= bl2 t2 -> p (rn1 t1 0) = false ->
                             rem1 t1 = skipn (N.to_nat k) (rem1 s1) -> (forall i, i < N.to_nat k -> p (rn1 s1 i) = true) ->
                             Q k t1 k t2) -> ..
     rwp_in_skip_while_non_breakz F, rwp_in_skip_while_blank F     the instances ([is_breakz (rn1 t1 0) = true] resp.
                                                                    [is_blank (rn1 t1 0) = false] at the exit)
     rwp_in_fetch_while_alpha F acc   SR s1 s2 ->
                          (forall r t1 t2, SR t1 t2 -> erase t1 = erase s1 -> 1 <= bl2 t2 -> is_alpha (rn1 t1 0) = false ->
                             rem1 t1 = skipn (N.to_nat (snd r)) (rem1 s1) ->
                             (forall i, i < N.to_nat (snd r) -> is_alpha (rn1 s1 i) = true) -> Q r t1 r t2) -> ..
     rwp_in_skip_ws_to_eol F stb tab ws n   SR s1 s2 ->
                          (forall r j t1 t2, SR t1 t2 -> erase t1 = erase s1 -> 1 <= bl2 t2 ->
                             fst r = (n + N.of_nat j)%N -> rem1 t1 = skipn j (rem1 s1) -> Q r t1 r t2) -> ..
   The loops are in lockstep (same fuel on both sides) and look before they skip, so they need no buffered-length
   premise.  No rule that skips characters is applicable without knowing that they are buffered ([1 <= bl2 s2],
   [n <= bl2 s2]): that is exactly the obligation of the relational proof at each call site. *)
From Coq Require Import List NArith ZArith Bool Arith Lia.
Import ListNotations.
Require Import Parser SBase SPrim SDir SScalar SFetch SBuf InputRefine ScanFuelBuf.
Local Open Scope nat_scope.

(* ---------------- lists: how [tl] / [skipn] / [nth] interact ---------------- *)
Lemma tl_skipn {A} n (l : list A) : tl (skipn n l) = skipn (S n) l.
Proof.
  revert l; induction n as [|n IH]; intros l; [destruct l; reflexivity|].
  destruct l as [|a l]; [reflexivity|]. change (skipn (S (S n)) (a :: l)) with (skipn (S n) l).
  change (skipn (S n) (a :: l)) with (skipn n l). apply IH.
Qed.
Lemma nth_skipn {A} n i (l : list A) d : nth i (skipn n l) d = nth (n + i) l d.
Proof.
  revert l; induction n as [|n IH]; intros l; [reflexivity|].
  destruct l as [|a l]; [destruct i; reflexivity|]. change (skipn (S n) (a :: l)) with (skipn n l).
  change (nth (S n + i) (a :: l) d) with (nth (n + i) l d). apply IH.
Qed.
Lemma skipn_add {A} a b (l : list A) : skipn a (skipn b l) = skipn (b + a) l.
Proof.
  revert l; induction b as [|b IH]; intros l; [reflexivity|].
  destruct l as [|x l]; [destruct a; reflexivity|]. change (skipn (S b) (x :: l)) with (skipn b l).
  change (skipn (S b + a) (x :: l)) with (skipn (b + a) l). apply IH.
Qed.

Lemma rn1_eq (t1 s1 : st1) i : rem1 t1 = rem1 s1 -> rn1 t1 i = rn1 s1 i.
Proof. unfold rn1. intros ->. reflexivity. Qed.
Lemma rn1_tl (t1 s1 : st1) i : rem1 t1 = tl (rem1 s1) -> rn1 t1 i = rn1 s1 (S i).
Proof. unfold rn1. intros ->. destruct (rem1 s1); [destruct i; reflexivity|reflexivity]. Qed.
Lemma rn1_skipn (t1 s1 : st1) n i : rem1 t1 = skipn n (rem1 s1) -> rn1 t1 i = rn1 s1 (n + i).
Proof. unfold rn1. intros ->. apply nth_skipn. Qed.

(* ---------------- the skeleton under [SR] ---------------- *)
Lemma SR_fields s1 s2 : SR s1 s2 ->
  sc_mark s1 = sc_mark s2 /\ sc_tokens s1 = sc_tokens s2 /\ sc_stream_start s1 = sc_stream_start s2
  /\ sc_stream_end s1 = sc_stream_end s2 /\ sc_adjacent s1 = sc_adjacent s2 /\ sc_ska s1 = sc_ska s2
  /\ sc_sks s1 = sc_sks s2 /\ sc_indent s1 = sc_indent s2 /\ sc_indents s1 = sc_indents s2
  /\ sc_flow_level s1 = sc_flow_level s2 /\ sc_tokens_parsed s1 = sc_tokens_parsed s2
  /\ sc_token_available s1 = sc_token_available s2 /\ sc_lws s1 = sc_lws s2
  /\ sc_ifms s1 = sc_ifms s2.
Proof. intros H. apply erase_fields. apply SR_erase. exact H. Qed.

Lemma SR_tokens s1 s2 : SR s1 s2 -> sc_tokens s1 = sc_tokens s2.
Proof. intros H. apply SR_fields in H. tauto. Qed.
Lemma SR_stream_start s1 s2 : SR s1 s2 -> sc_stream_start s1 = sc_stream_start s2.
Proof. intros H. apply SR_fields in H. tauto. Qed.
Lemma SR_stream_end s1 s2 : SR s1 s2 -> sc_stream_end s1 = sc_stream_end s2.
Proof. intros H. apply SR_fields in H. tauto. Qed.
Lemma SR_adjacent s1 s2 : SR s1 s2 -> sc_adjacent s1 = sc_adjacent s2.
Proof. intros H. apply SR_fields in H. tauto. Qed.
Lemma SR_ska s1 s2 : SR s1 s2 -> sc_ska s1 = sc_ska s2.
Proof. intros H. apply SR_fields in H. tauto. Qed.
Lemma SR_sks s1 s2 : SR s1 s2 -> sc_sks s1 = sc_sks s2.
Proof. intros H. apply SR_fields in H. tauto. Qed.
Lemma SR_indent s1 s2 : SR s1 s2 -> sc_indent s1 = sc_indent s2.
Proof. intros H. apply SR_fields in H. tauto. Qed.
Lemma SR_indents s1 s2 : SR s1 s2 -> sc_indents s1 = sc_indents s2.
Proof. intros H. apply SR_fields in H. tauto. Qed.
Lemma SR_flow_level s1 s2 : SR s1 s2 -> sc_flow_level s1 = sc_flow_level s2.
Proof. intros H. apply SR_fields in H. tauto. Qed.
Lemma SR_tokens_parsed s1 s2 : SR s1 s2 -> sc_tokens_parsed s1 = sc_tokens_parsed s2.
Proof. intros H. apply SR_fields in H. tauto. Qed.
Lemma SR_token_available s1 s2 : SR s1 s2 -> sc_token_available s1 = sc_token_available s2.
Proof. intros H. apply SR_fields in H. tauto. Qed.
Lemma SR_lws s1 s2 : SR s1 s2 -> sc_lws s1 = sc_lws s2.
Proof. intros H. apply SR_fields in H. tauto. Qed.
Lemma SR_ifms s1 s2 : SR s1 s2 -> sc_ifms s1 = sc_ifms s2.
Proof. intros H. apply SR_fields in H. tauto. Qed.

(* [sr_fields H]: H : SR s1 s2; the 14 field equalities *)
Ltac sr_fields H :=
  let E := fresh "E" in
  pose proof (SR_fields _ _ H) as E; decompose [and] E; clear E.

(* [sr_sync H]: H : SR s1 s2; every skeleton field of s2 in the goal becomes the field of s1 *)
Ltac sr_sync H :=
  rewrite <- ?(SR_mark _ _ H), <- ?(SR_tokens _ _ H), <- ?(SR_stream_start _ _ H), <- ?(SR_stream_end _ _ H),
          <- ?(SR_adjacent _ _ H), <- ?(SR_ska _ _ H), <- ?(SR_sks _ _ H), <- ?(SR_indent _ _ H),
          <- ?(SR_indents _ _ H), <- ?(SR_flow_level _ _ H), <- ?(SR_tokens_parsed _ _ H),
          <- ?(SR_token_available _ _ H), <- ?(SR_lws _ _ H), <- ?(SR_ifms _ _ H).

Ltac skel_cbn :=
  cbn [sc_in sc_mark sc_tokens sc_stream_start sc_stream_end sc_adjacent sc_ska sc_sks sc_indent sc_indents
       sc_flow_level sc_tokens_parsed sc_token_available sc_lws sc_ifms
       upd set_in set_mark set_tokens set_flags set_ska set_lws set_adj set_ta set_ss set_se
       set_struct set_sks set_indent set_fl set_tp set_ifms].

(* [sr_fwd H]: H : SR s1 s2; every skeleton field of s1 in the goal becomes the field of s2 *)
Ltac sr_fwd H :=
  rewrite ?(SR_mark _ _ H), ?(SR_tokens _ _ H), ?(SR_stream_start _ _ H), ?(SR_stream_end _ _ H),
          ?(SR_adjacent _ _ H), ?(SR_ska _ _ H), ?(SR_sks _ _ H), ?(SR_indent _ _ H),
          ?(SR_indents _ _ H), ?(SR_flow_level _ _ H), ?(SR_tokens_parsed _ _ H),
          ?(SR_token_available _ _ H), ?(SR_lws _ _ H), ?(SR_ifms _ _ H).

(* [rel_eq]: x1 = x2, the same expression over the skeleton fields of two related states.
   (No [congruence]/[f_equal] on the 16-field record: it takes minutes.) *)
Ltac rel_eq_with H := skel_cbn; sr_fwd H; reflexivity.
Ltac rel_eq :=
  first [ reflexivity
        | match goal with H : SR _ _ |- _ = _ => solve [rel_eq_with H] end ].

(* [rel_skel]: SR (f s1) (f s2) from a hypothesis SR s1 s2, f the same composition of setters *)
Ltac rel_skel_with H :=
  split; [ exact (SR_rel _ _ H) | unfold erase; skel_cbn; sr_fwd H; reflexivity ].
Ltac rel_skel :=
  match goal with
  | H : SR ?a ?b |- SR ?a ?b => exact H
  | H : SR _ _ |- SR _ _ => solve [rel_skel_with H]
  end.

(* [rel_if]: both sides branch on the same test *)
Ltac rel_if :=
  match goal with
  | |- rwpN _ (if ?b1 then _ else _) (if ?b2 then _ else _) _ _ _ =>
      first [ constr_eq b1 b2 | replace b2 with b1 by rel_eq ];
      let Eb := fresh "Eb" in destruct b1 eqn:Eb
  end.

(* a related pair of states is one skeleton with two inputs *)
Definition with_in {I} (i : I) (u : sc unit) : sc I :=
  {| sc_in := i; sc_mark := sc_mark u; sc_tokens := sc_tokens u;
     sc_stream_start := sc_stream_start u; sc_stream_end := sc_stream_end u; sc_adjacent := sc_adjacent u;
     sc_ska := sc_ska u; sc_sks := sc_sks u; sc_indent := sc_indent u; sc_indents := sc_indents u;
     sc_flow_level := sc_flow_level u; sc_tokens_parsed := sc_tokens_parsed u;
     sc_token_available := sc_token_available u; sc_lws := sc_lws u; sc_ifms := sc_ifms u |}.
Lemma with_in_erase {I} (s : sc I) : s = with_in (sc_in s) (erase s).
Proof. destruct s; reflexivity. Qed.
(* last resort when [rel_skel] does not apply: after
     [destruct (SR_split _ _ H) as (i1 & i2 & u & -> & -> & R)]
   both states are [with_in _ u] and every skeleton computation is literally the same term on both sides *)
Lemma SR_split s1 s2 : SR s1 s2 -> exists i1 i2 u, s1 = with_in i1 u /\ s2 = with_in i2 u /\ Rel i1 i2.
Proof.
  intros [R E]. exists (sc_in s1), (sc_in s2), (erase s1). split; [apply with_in_erase|].
  split; [rewrite E; apply with_in_erase|exact R].
Qed.
Lemma SR_with_in i1 i2 u : Rel i1 i2 -> SR (with_in i1 u) (with_in i2 u).
Proof. intros R. split; [exact R|reflexivity]. Qed.

(* the skeleton of the buffered side follows the skeleton of the string side *)
Lemma SR_erase2 s1 s2 t1 t2 : SR s1 s2 -> SR t1 t2 -> erase t1 = erase s1 -> erase t2 = erase s2.
Proof. intros [_ E1] [_ E2] E. rewrite <- E2, E, E1. reflexivity. Qed.

(* ---------------- generic rules ---------------- *)
Section RelGen.
Variable N0 : nat.
Local Notation rwp := (rwpN N0).
(* calling a contract *)
Lemma rwp_bind_rpost {A B1 B2} k (m1 : M1 A) (m2 : M2 A) (f1 : A -> M1 B1) (f2 : A -> M2 B2)
  (Q : B1 -> st1 -> B2 -> st2 -> Prop) s1 s2 :
  rwp m1 m2 (rpost k) s1 s2 ->
  (forall a t1 t2, SR t1 t2 -> k <= bl2 t2 -> rwp (f1 a) (f2 a) Q t1 t2) ->
  rwp (bind m1 f1) (bind m2 f2) Q s1 s2.
Proof.
  intros H HK. apply rwp_bind_e. eapply rwp_mono; [exact H|].
  intros a1 t1 a2 t2 [E [HS HB]]. split; [exact E|]. apply HK; assumption.
Qed.
Lemma rwp_rpost_weaken {A} k k' (m1 : M1 A) (m2 : M2 A) s1 s2 :
  rwp m1 m2 (rpost k) s1 s2 -> k' <= k -> rwp m1 m2 (rpost k') s1 s2.
Proof.
  intros H Hk. eapply rwp_mono; [exact H|]. intros a1 t1 a2 t2 [E [HS HB]]. split; [exact E|]. split; [exact HS|lia].
Qed.
Lemma rwp_ret_rpost {A} k (a : A) s1 s2 : SR s1 s2 -> k <= bl2 s2 -> rwp (ret a) (ret a) (rpost k) s1 s2.
Proof. intros HS HB. apply rwp_ret. split; [reflexivity|]. split; assumption. Qed.

(* the same skeleton read on both sides (second premise: [rel_eq]) *)
Lemma rwp_gets_skel {A} (f1 : st1 -> A) (f2 : st2 -> A) (Q : A -> st1 -> A -> st2 -> Prop) s1 s2 :
  SR s1 s2 -> f1 s1 = f2 s2 -> Q (f1 s1) s1 (f1 s1) s2 -> rwp (gets f1) (gets f2) Q s1 s2.
Proof. intros _ E HQ. apply rwp_gets. rewrite <- E. exact HQ. Qed.

(* the same skeleton update on both sides (premises: [rel_skel], [reflexivity], [reflexivity]) *)
Lemma rwp_modify_skel (f1 : st1 -> st1) (f2 : st2 -> st2) (Q : unit -> st1 -> unit -> st2 -> Prop) s1 s2 :
  SR (f1 s1) (f2 s2) -> rem1 (f1 s1) = rem1 s1 -> bl2 (f2 s2) = bl2 s2 ->
  (forall t1 t2, SR t1 t2 -> rem1 t1 = rem1 s1 -> bl2 t2 = bl2 s2 -> Q tt t1 tt t2) ->
  rwp (modify f1) (modify f2) Q s1 s2.
Proof. intros HS HR HB HQ. apply rwp_modify; [rewrite HR; apply le_n|]. apply HQ; assumption. Qed.
Lemma rwp_put_skel (u1 : st1) (u2 : st2) (Q : unit -> st1 -> unit -> st2 -> Prop) s1 s2 :
  SR u1 u2 -> rem1 u1 = rem1 s1 -> bl2 u2 = bl2 s2 ->
  (forall t1 t2, SR t1 t2 -> rem1 t1 = rem1 s1 -> bl2 t2 = bl2 s2 -> Q tt t1 tt t2) ->
  rwp (put u1) (put u2) Q s1 s2.
Proof. intros HS HR HB HQ. apply rwp_put; [rewrite HR; apply le_n|]. apply HQ; assumption. Qed.

(* errors are reported at the mark, which is the same on both sides *)
Lemma rwp_fail_sr {A1 A2} site (Q : A1 -> st1 -> A2 -> st2 -> Prop) s1 s2 :
  SR s1 s2 -> rwp (@fail strin A1 site (sc_mark s1)) (@fail bufin A2 site (sc_mark s2)) Q s1 s2.
Proof. intros HS. apply rwp_fail. apply SR_mark. exact HS. Qed.

(* ---------------- mark / token queue / flags: primitives that do not touch the input ---------------- *)
(* mark: the same marker on both sides *)
Lemma rwp_mark (Q : marker -> st1 -> marker -> st2 -> Prop) s1 s2 :
  SR s1 s2 -> Q (sc_mark s1) s1 (sc_mark s1) s2 -> rwp mark mark Q s1 s2.
Proof. intros HS HQ. unfold mark. apply rwp_gets_skel; [exact HS|rel_eq|exact HQ]. Qed.

(* m <- mark ;; fail site m : the same error *)
Lemma rwp_mark_fail {A1 A2} site (Q : A1 -> st1 -> A2 -> st2 -> Prop) s1 s2 :
  SR s1 s2 ->
  rwp (bind mark (fun m => @fail strin A1 site m)) (bind mark (fun m => @fail bufin A2 site m)) Q s1 s2.
Proof. intros HS. apply rwp_bind. apply rwp_mark; [exact HS|]. apply rwp_fail. reflexivity. Qed.

(* adv_mark n: only the mark moves *)
Lemma rwp_adv_mark n (Q : unit -> st1 -> unit -> st2 -> Prop) s1 s2 :
  SR s1 s2 ->
  (forall t1 t2, SR t1 t2 -> rem1 t1 = rem1 s1 -> bl2 t2 = bl2 s2 -> Q tt t1 tt t2) ->
  rwp (adv_mark n) (adv_mark n) Q s1 s2.
Proof. intros HS HQ. unfold adv_mark. apply rwp_modify_skel; [rel_skel|reflexivity|reflexivity|exact HQ]. Qed.

(* push_tok: the same token appended on both sides *)
Lemma rwp_push_tok tk1 tk2 (Q : unit -> st1 -> unit -> st2 -> Prop) s1 s2 :
  SR s1 s2 -> tk1 = tk2 ->
  (forall t1 t2, SR t1 t2 -> rem1 t1 = rem1 s1 -> bl2 t2 = bl2 s2 -> Q tt t1 tt t2) ->
  rwp (push_tok tk1) (push_tok tk2) Q s1 s2.
Proof.
  intros HS <- HQ. unfold push_tok. apply rwp_modify_skel; [rel_skel|reflexivity|reflexivity|exact HQ].
Qed.

(* insert_token: the same insertion, or the same out-of-range panic *)
Lemma rwp_insert_token p1 p2 tk1 tk2 (Q : unit -> st1 -> unit -> st2 -> Prop) s1 s2 :
  SR s1 s2 -> p1 = p2 -> tk1 = tk2 ->
  (forall t1 t2, SR t1 t2 -> rem1 t1 = rem1 s1 -> bl2 t2 = bl2 s2 -> Q tt t1 tt t2) ->
  rwp (insert_token p1 tk1) (insert_token p2 tk2) Q s1 s2.
Proof.
  intros HS <- <- HQ B. unfold insert_token. rewrite <- (SR_tokens _ _ HS).
  destruct (insert_at (N.to_nat p1) tk1 (sc_tokens s1)) as [l|]; [|exact I].
  split; [exact B|]. apply HQ; [rel_skel|reflexivity|reflexivity].
Qed.

(* allow_simple_key / disallow_simple_key: only a flag moves *)
Lemma rwp_allow_simple_key (Q : unit -> st1 -> unit -> st2 -> Prop) s1 s2 :
  SR s1 s2 ->
  (forall t1 t2, SR t1 t2 -> rem1 t1 = rem1 s1 -> bl2 t2 = bl2 s2 -> Q tt t1 tt t2) ->
  rwp allow_simple_key allow_simple_key Q s1 s2.
Proof. intros HS HQ. unfold allow_simple_key. apply rwp_modify_skel; [rel_skel|reflexivity|reflexivity|exact HQ]. Qed.
Lemma rwp_disallow_simple_key (Q : unit -> st1 -> unit -> st2 -> Prop) s1 s2 :
  SR s1 s2 ->
  (forall t1 t2, SR t1 t2 -> rem1 t1 = rem1 s1 -> bl2 t2 = bl2 s2 -> Q tt t1 tt t2) ->
  rwp disallow_simple_key disallow_simple_key Q s1 s2.
Proof. intros HS HQ. unfold disallow_simple_key. apply rwp_modify_skel; [rel_skel|reflexivity|reflexivity|exact HQ]. Qed.

(* flow_level / in_flow / is_within_block: the same value on both sides *)
Lemma rwp_flow_level (Q : N -> st1 -> N -> st2 -> Prop) s1 s2 :
  SR s1 s2 -> Q (sc_flow_level s1) s1 (sc_flow_level s1) s2 -> rwp flow_level flow_level Q s1 s2.
Proof. intros HS HQ. unfold flow_level. apply rwp_gets_skel; [exact HS|rel_eq|exact HQ]. Qed.
Lemma rwp_in_flow (Q : bool -> st1 -> bool -> st2 -> Prop) s1 s2 :
  SR s1 s2 -> Q (0 <? sc_flow_level s1)%N s1 (0 <? sc_flow_level s1)%N s2 -> rwp in_flow in_flow Q s1 s2.
Proof.
  intros HS HQ. unfold in_flow. apply rwp_bind. apply rwp_flow_level; [exact HS|]. apply rwp_ret. exact HQ.
Qed.
Definition within_block1 (s1 : st1) : bool := match sc_indents s1 with [] => false | _ => true end.
Lemma rwp_is_within_block (Q : bool -> st1 -> bool -> st2 -> Prop) s1 s2 :
  SR s1 s2 -> Q (within_block1 s1) s1 (within_block1 s1) s2 -> rwp is_within_block is_within_block Q s1 s2.
Proof.
  intros HS HQ. unfold is_within_block. apply rwp_gets_skel; [exact HS| |exact HQ].
  rewrite (SR_indents _ _ HS). reflexivity.
Qed.

(* ---------------- skeleton-only functions of SPrim.v (indentation, simple keys, flow level) ---------------- *)
(* [skel_post Q s1 s2]: what the caller proves after a skeleton-only step (only a shorthand of this file) *)
Local Notation skel_post Q s1 s2 :=
  (forall t1 t2, SR t1 t2 -> rem1 t1 = rem1 s1 -> bl2 t2 = bl2 s2 -> Q tt t1 tt t2).

(* roll_indent: same indent push / token insertion on both sides (marks: premise mk1 = mk2, [rel_eq]) *)
Lemma rwp_roll_indent col number tk mk1 mk2 (Q : unit -> st1 -> unit -> st2 -> Prop) s1 s2 :
  SR s1 s2 -> mk1 = mk2 -> skel_post Q s1 s2 ->
  rwp (roll_indent col number tk mk1) (roll_indent col number tk mk2) Q s1 s2.
Proof.
  intros HS <- HQ. unfold roll_indent. apply rwp_bind. apply rwp_get. cbv beta. sr_sync HS.
  destruct (0 <? sc_flow_level s1)%N; [apply rwp_ret; apply HQ; [exact HS|reflexivity|reflexivity]|].
  match goal with |- context [let '(ind, inds) := ?X in _] => destruct X as [ind inds] end.
  destruct (ind <? Z.of_N col)%Z.
  - destruct (BLOCK_NESTING_MAX <=? N.of_nat (length inds))%N; [unfold rwp; split; reflexivity|].
    apply rwp_bind. apply rwp_put_skel; [rel_skel|reflexivity|reflexivity|]. intros u1 u2 HU RU BU.
    destruct number as [n|].
    + destruct (n <? sc_tokens_parsed s1)%N; [apply rwp_panic_r|].
      apply rwp_insert_token; [exact HU|reflexivity|reflexivity|]. intros t1 t2 HT RT BT. apply HQ; [exact HT|congruence|congruence].
    + apply rwp_push_tok; [exact HU|reflexivity|]. intros t1 t2 HT RT BT. apply HQ; [exact HT|congruence|congruence].
  - apply rwp_put_skel; [rel_skel|reflexivity|reflexivity|exact HQ].
Qed.

(* unroll_indent_go / unroll_indent: the same BlockEnd tokens *)
Lemma rwp_unroll_indent_go F col (Q : unit -> st1 -> unit -> st2 -> Prop) s1 s2 :
  SR s1 s2 -> skel_post Q s1 s2 ->
  rwp (unroll_indent_go F col) (unroll_indent_go F col) Q s1 s2.
Proof.
  revert Q s1 s2. induction F as [|F IHF]; intros Q s1 s2 HS HQ; [apply rwp_oof_l|].
  cbn [unroll_indent_go]. apply rwp_bind. apply rwp_get. cbv beta. sr_sync HS.
  destruct (col <? sc_indent s1)%Z; [|apply rwp_ret; apply HQ; [exact HS|reflexivity|reflexivity]].
  destruct (sc_indents s1) as [|i r] eqn:EI; [apply rwp_panic_r|].
  apply rwp_bind. apply rwp_put_skel; [rel_skel|reflexivity|reflexivity|]. intros u1 u2 HU RU BU.
  apply rwp_bind. destruct (in_needs_block_end i).
  - apply rwp_push_tok; [exact HU|reflexivity|]. intros v1 v2 HV RV BV.
    apply IHF; [exact HV|]. intros t1 t2 HT RT BT. apply HQ; [exact HT|congruence|congruence].
  - apply rwp_ret. apply IHF; [exact HU|]. intros t1 t2 HT RT BT. apply HQ; [exact HT|congruence|congruence].
Qed.

Lemma rwp_unroll_indent col (Q : unit -> st1 -> unit -> st2 -> Prop) s1 s2 :
  SR s1 s2 -> skel_post Q s1 s2 -> rwp (unroll_indent col) (unroll_indent col) Q s1 s2.
Proof.
  intros HS HQ. unfold unroll_indent. apply rwp_bind. apply rwp_get. cbv beta. sr_sync HS.
  destruct (0 <? sc_flow_level s1)%N; [apply rwp_ret; apply HQ; [exact HS|reflexivity|reflexivity]|].
  apply rwp_unroll_indent_go; [exact HS|exact HQ].
Qed.

(* roll_one_col_indent *)
Lemma rwp_roll_one_col_indent (Q : unit -> st1 -> unit -> st2 -> Prop) s1 s2 :
  SR s1 s2 -> skel_post Q s1 s2 -> rwp roll_one_col_indent roll_one_col_indent Q s1 s2.
Proof.
  intros HS HQ. unfold roll_one_col_indent. apply rwp_bind. apply rwp_get. cbv beta. sr_sync HS.
  match goal with |- rwp (if ?b then _ else _) _ _ _ _ => destruct b end.
  - apply rwp_put_skel; [rel_skel|reflexivity|reflexivity|exact HQ].
  - apply rwp_ret. apply HQ; [exact HS|reflexivity|reflexivity].
Qed.

(* unroll_non_block_indents *)
Lemma rwp_unroll_non_block_indents (Q : unit -> st1 -> unit -> st2 -> Prop) s1 s2 :
  SR s1 s2 -> skel_post Q s1 s2 -> rwp unroll_non_block_indents unroll_non_block_indents Q s1 s2.
Proof.
  intros HS HQ. unfold unroll_non_block_indents. apply rwp_modify; sr_sync HS;
  destruct (unroll_nb (sc_indents s1) (sc_indent s1)) as [ind l]; [apply le_n|]. apply HQ; [rel_skel|reflexivity|reflexivity].
Qed.

(* save_simple_key: the same key saved, or the same empty-indent-stack panic *)
Lemma rwp_save_simple_key (Q : unit -> st1 -> unit -> st2 -> Prop) s1 s2 :
  SR s1 s2 -> skel_post Q s1 s2 -> rwp save_simple_key save_simple_key Q s1 s2.
Proof.
  intros HS HQ. unfold save_simple_key. apply rwp_bind. apply rwp_get. cbv beta. sr_sync HS.
  destruct (sc_ska s1); [|apply rwp_ret; apply HQ; [exact HS|reflexivity|reflexivity]].
  apply rwp_bind.
  assert (HP : forall r, rwp (put (set_sks ({| sk_possible := true; sk_required := r;
                 sk_token_number := (sc_tokens_parsed s1 + N.of_nat (length (sc_tokens s1)))%N; sk_mark := sc_mark s1 |}
                 :: tl (sc_sks s1)) s1))
               (put (set_sks ({| sk_possible := true; sk_required := r;
                 sk_token_number := (sc_tokens_parsed s1 + N.of_nat (length (sc_tokens s1)))%N; sk_mark := sc_mark s1 |}
                 :: tl (sc_sks s1)) s2)) Q s1 s2).
  { intros r. apply rwp_put_skel; [rel_skel|reflexivity|reflexivity|exact HQ]. }
  match goal with |- rwp (if ?b then _ else _) _ _ _ _ => destruct b end.
  - destruct (sc_indents s1) as [|i r]; [apply rwp_panic_r|]. apply rwp_ret. apply HP.
  - apply rwp_ret. apply HP.
Qed.

(* remove_simple_key: the same error (site 43) or the same update *)
Lemma rwp_remove_simple_key (Q : unit -> st1 -> unit -> st2 -> Prop) s1 s2 :
  SR s1 s2 -> skel_post Q s1 s2 -> rwp remove_simple_key remove_simple_key Q s1 s2.
Proof.
  intros HS HQ. unfold remove_simple_key. apply rwp_bind. apply rwp_get. cbv beta. sr_sync HS.
  destruct (sc_sks s1) as [|k r]; [apply rwp_panic_r|].
  destruct (sk_possible k && sk_required k); [apply rwp_fail; reflexivity|].
  apply rwp_put_skel; [rel_skel|reflexivity|reflexivity|exact HQ].
Qed.

(* stale_simple_keys: the same error (site 44) or the same update *)
Lemma rwp_stale_simple_keys (Q : unit -> st1 -> unit -> st2 -> Prop) s1 s2 :
  SR s1 s2 -> skel_post Q s1 s2 -> rwp stale_simple_keys stale_simple_keys Q s1 s2.
Proof.
  intros HS HQ. unfold stale_simple_keys. apply rwp_bind. apply rwp_get. cbv beta zeta. sr_sync HS.
  match goal with |- rwp (if ?b then _ else _) _ _ _ _ => destruct b end; [apply rwp_fail; reflexivity|].
  apply rwp_put_skel; [rel_skel|reflexivity|reflexivity|exact HQ].
Qed.

(* end_implicit_mapping *)
Lemma rwp_end_implicit_mapping mk1 mk2 (Q : unit -> st1 -> unit -> st2 -> Prop) s1 s2 :
  SR s1 s2 -> mk1 = mk2 -> skel_post Q s1 s2 -> rwp (end_implicit_mapping mk1) (end_implicit_mapping mk2) Q s1 s2.
Proof.
  intros HS <- HQ. unfold end_implicit_mapping. apply rwp_bind. apply rwp_get. cbv beta. sr_sync HS.
  assert (H0 : rwp (ret tt) (ret tt) Q s1 s2) by (apply rwp_ret; apply HQ; [exact HS|reflexivity|reflexivity]).
  destruct (sc_ifms s1) as [|[| | |] r]; try exact H0.
  - apply rwp_bind. apply rwp_put_skel; [rel_skel|reflexivity|reflexivity|]. intros u1 u2 HU RU BU.
    apply rwp_push_tok; [exact HU|reflexivity|]. intros t1 t2 HT RT BT. apply HQ; [exact HT|congruence|congruence].
  - apply rwp_put_skel; [rel_skel|reflexivity|reflexivity|exact HQ].
Qed.

(* increase_flow_level: the same error (site 45) or the same push *)
Lemma rwp_increase_flow_level (Q : unit -> st1 -> unit -> st2 -> Prop) s1 s2 :
  SR s1 s2 -> skel_post Q s1 s2 -> rwp increase_flow_level increase_flow_level Q s1 s2.
Proof.
  intros HS HQ. unfold increase_flow_level. apply rwp_bind. apply rwp_get. cbv beta zeta. sr_sync HS.
  destruct (sc_flow_level s1 =? FLOW_LEVEL_MAX)%N.
  - unfold rwp. split; reflexivity.
  - apply rwp_put_skel; [rel_skel|reflexivity|reflexivity|exact HQ].
Qed.

(* decrease_flow_level *)
Lemma rwp_decrease_flow_level (Q : unit -> st1 -> unit -> st2 -> Prop) s1 s2 :
  SR s1 s2 -> skel_post Q s1 s2 -> rwp decrease_flow_level decrease_flow_level Q s1 s2.
Proof.
  intros HS HQ. unfold decrease_flow_level. apply rwp_bind. apply rwp_get. cbv beta. sr_sync HS.
  destruct (0 <? sc_flow_level s1)%N; [|apply rwp_ret; apply HQ; [exact HS|reflexivity|reflexivity]].
  destruct (sc_sks s1) as [|k r] eqn:EK; [apply rwp_panic_r|].
  apply rwp_put_skel; [rel_skel|reflexivity|reflexivity|exact HQ].
Qed.

(* ---------------- the values read by the Input default methods (string side's remaining text) ---------------- *)
Definition n2are (s1 : st1) (a b : chr) : bool := ((rn1 s1 0 =? a) && (rn1 s1 1 =? b))%N.
Definition n3are (s1 : st1) (a b c : chr) : bool := ((rn1 s1 0 =? a) && (rn1 s1 1 =? b) && (rn1 s1 2 =? c))%N.
Definition docind_val (s1 : st1) : bool :=
  if is_blank_or_breakz (rn1 s1 3) then (if n3are s1 46%N 46%N 46%N then true else n3are s1 45%N 45%N 45%N) else false.
Definition docstart_val (s1 : st1) : bool := if n3are s1 45%N 45%N 45%N then is_blank_or_breakz (rn1 s1 3) else false.
Definition docend_val (s1 : st1) : bool := if n3are s1 46%N 46%N 46%N then is_blank_or_breakz (rn1 s1 3) else false.
Definition plain_ok_val (fl : bool) (s1 : st1) : bool :=
  if ((rn1 s1 0 =? 58)%N && (is_blank_or_breakz (rn1 s1 1) || (fl && is_flow (rn1 s1 1)))) then false
  else if fl && is_flow (rn1 s1 0) then false else true.
(* number of characters [skip_linebreak] / [skip_break] consume *)
Definition lb_len (s1 : st1) : nat :=
  if ((rn1 s1 0 =? 13) && (rn1 s1 1 =? 10))%N then 2 else if is_break (rn1 s1 0) then 1 else 0.
Lemma lb_len_le2 s1 : lb_len s1 <= 2.
Proof. unfold lb_len. destruct (_ && _)%bool; [lia|]. destruct (is_break _); lia. Qed.
Lemma lb_len_break s1 : is_break (rn1 s1 0) = true -> 1 <= lb_len s1.
Proof. unfold lb_len. intros ->. destruct (_ && _)%bool; lia. Qed.

End RelGen.

Section RelPrim.
Variable cap : nat.
Hypothesis cap_ge : 8 <= cap.
Variable N0 : nat.
Local Notation rwp := (rwpN N0).
Notation sops := str_ops.
Notation bops := (buf_ops cap).

(* ---------------- Input default methods (input.rs) ---------------- *)
(* next_char_is c: one character buffered; both sides compare the string side's next character *)
Lemma rwp_next_char_is c (Q : bool -> st1 -> bool -> st2 -> Prop) s1 s2 :
  SR s1 s2 -> 1 <= bl2 s2 -> Q (rn1 s1 0 =? c)%N s1 (rn1 s1 0 =? c)%N s2 ->
  rwp (next_char_is sops c) (next_char_is bops c) Q s1 s2.
Proof using cap_ge.
  intros HS HB HQ. unfold next_char_is. apply rwp_bind. apply (rwp_peek cap cap_ge); [exact HS|exact HB|].
  apply rwp_ret. exact HQ.
Qed.
(* nth_char_is n c: n+1 characters buffered *)
Lemma rwp_nth_char_is n c (Q : bool -> st1 -> bool -> st2 -> Prop) s1 s2 :
  SR s1 s2 -> n < bl2 s2 -> Q (rn1 s1 n =? c)%N s1 (rn1 s1 n =? c)%N s2 ->
  rwp (nth_char_is sops n c) (nth_char_is bops n c) Q s1 s2.
Proof using cap_ge.
  intros HS HB HQ. unfold nth_char_is. apply rwp_bind. apply (rwp_peekn cap cap_ge); [exact HS|exact HB|].
  apply rwp_ret. exact HQ.
Qed.
(* next_is p *)
Lemma rwp_next_is p (Q : bool -> st1 -> bool -> st2 -> Prop) s1 s2 :
  SR s1 s2 -> 1 <= bl2 s2 -> Q (p (rn1 s1 0)) s1 (p (rn1 s1 0)) s2 ->
  rwp (next_is sops p) (next_is bops p) Q s1 s2.
Proof using cap_ge.
  intros HS HB HQ. unfold next_is. apply rwp_bind. apply (rwp_peek cap cap_ge); [exact HS|exact HB|].
  apply rwp_ret. exact HQ.
Qed.
(* next_2_are a b: two characters buffered (the string side's own assertion may panic: not our concern) *)
Lemma rwp_next_2_are a b (Q : bool -> st1 -> bool -> st2 -> Prop) s1 s2 :
  SR s1 s2 -> 2 <= bl2 s2 -> Q (n2are s1 a b) s1 (n2are s1 a b) s2 ->
  rwp (next_2_are sops a b) (next_2_are bops a b) Q s1 s2.
Proof using cap_ge.
  intros HS HB HQ. unfold next_2_are. apply rwp_bind. apply (rwp_assert_buflen cap cap_ge); [exact HB|].
  apply rwp_bind. apply (rwp_peek cap cap_ge); [exact HS|lia|].
  apply rwp_bind. apply (rwp_peekn cap cap_ge); [exact HS|lia|].
  apply rwp_ret. exact HQ.
Qed.
(* next_3_are a b c: three characters buffered *)
Lemma rwp_next_3_are a b c (Q : bool -> st1 -> bool -> st2 -> Prop) s1 s2 :
  SR s1 s2 -> 3 <= bl2 s2 -> Q (n3are s1 a b c) s1 (n3are s1 a b c) s2 ->
  rwp (next_3_are sops a b c) (next_3_are bops a b c) Q s1 s2.
Proof using cap_ge.
  intros HS HB HQ. unfold next_3_are. apply rwp_bind. apply (rwp_assert_buflen cap cap_ge); [exact HB|].
  apply rwp_bind. apply (rwp_peek cap cap_ge); [exact HS|lia|].
  apply rwp_bind. apply (rwp_peekn cap cap_ge); [exact HS|lia|].
  apply rwp_bind. apply (rwp_peekn cap cap_ge); [exact HS|lia|].
  apply rwp_ret. exact HQ.
Qed.
(* next_is_document_indicator / _start / _end: four characters buffered *)
Lemma rwp_next_is_document_indicator (Q : bool -> st1 -> bool -> st2 -> Prop) s1 s2 :
  SR s1 s2 -> 4 <= bl2 s2 -> Q (docind_val s1) s1 (docind_val s1) s2 ->
  rwp (next_is_document_indicator sops) (next_is_document_indicator bops) Q s1 s2.
Proof using cap_ge.
  intros HS HB HQ. unfold next_is_document_indicator. apply rwp_bind. apply (rwp_assert_buflen cap cap_ge); [exact HB|].
  apply rwp_bind. apply (rwp_peekn cap cap_ge); [exact HS|lia|]. unfold docind_val in HQ.
  destruct (is_blank_or_breakz (rn1 s1 3)); [|apply rwp_ret; exact HQ].
  apply rwp_bind. apply rwp_next_3_are; [exact HS|lia|].
  destruct (n3are s1 46%N 46%N 46%N); [apply rwp_ret; exact HQ|]. apply rwp_next_3_are; [exact HS|lia|exact HQ].
Qed.
Lemma rwp_next_is_document_start (Q : bool -> st1 -> bool -> st2 -> Prop) s1 s2 :
  SR s1 s2 -> 4 <= bl2 s2 -> Q (docstart_val s1) s1 (docstart_val s1) s2 ->
  rwp (next_is_document_start sops) (next_is_document_start bops) Q s1 s2.
Proof using cap_ge.
  intros HS HB HQ. unfold next_is_document_start. apply rwp_bind. apply (rwp_assert_buflen cap cap_ge); [exact HB|].
  apply rwp_bind. apply rwp_next_3_are; [exact HS|lia|]. unfold docstart_val in HQ.
  destruct (n3are s1 45%N 45%N 45%N); [|apply rwp_ret; exact HQ].
  apply rwp_bind. apply (rwp_peekn cap cap_ge); [exact HS|lia|]. apply rwp_ret. exact HQ.
Qed.
Lemma rwp_next_is_document_end (Q : bool -> st1 -> bool -> st2 -> Prop) s1 s2 :
  SR s1 s2 -> 4 <= bl2 s2 -> Q (docend_val s1) s1 (docend_val s1) s2 ->
  rwp (next_is_document_end sops) (next_is_document_end bops) Q s1 s2.
Proof using cap_ge.
  intros HS HB HQ. unfold next_is_document_end. apply rwp_bind. apply (rwp_assert_buflen cap cap_ge); [exact HB|].
  apply rwp_bind. apply rwp_next_3_are; [exact HS|lia|]. unfold docend_val in HQ.
  destruct (n3are s1 46%N 46%N 46%N); [|apply rwp_ret; exact HQ].
  apply rwp_bind. apply (rwp_peekn cap cap_ge); [exact HS|lia|]. apply rwp_ret. exact HQ.
Qed.
(* next_can_be_plain_scalar fl: two characters buffered *)
Lemma rwp_next_can_be_plain_scalar fl (Q : bool -> st1 -> bool -> st2 -> Prop) s1 s2 :
  SR s1 s2 -> 2 <= bl2 s2 -> Q (plain_ok_val fl s1) s1 (plain_ok_val fl s1) s2 ->
  rwp (next_can_be_plain_scalar sops fl) (next_can_be_plain_scalar bops fl) Q s1 s2.
Proof using cap_ge.
  intros HS HB HQ. unfold next_can_be_plain_scalar.
  apply rwp_bind. apply (rwp_peekn cap cap_ge); [exact HS|lia|].
  apply rwp_bind. apply (rwp_peek cap cap_ge); [exact HS|lia|]. unfold plain_ok_val in HQ.
  destruct ((rn1 s1 0 =? 58)%N && (is_blank_or_breakz (rn1 s1 1) || fl && is_flow (rn1 s1 1))); [apply rwp_ret; exact HQ|].
  destruct (fl && is_flow (rn1 s1 0)); apply rwp_ret; exact HQ.
Qed.

(* ---------------- mark primitives that consume input ---------------- *)
(* skip_blank: one buffered character consumed, the mark advanced *)
Lemma rwp_skip_blank (Q : unit -> st1 -> unit -> st2 -> Prop) s1 s2 :
  SR s1 s2 -> 1 <= bl2 s2 ->
  (forall t1 t2, SR t1 t2 -> rem1 t1 = tl (rem1 s1) -> bl2 t2 = bl2 s2 - 1 -> Q tt t1 tt t2) ->
  rwp (skip_blank sops) (skip_blank bops) Q s1 s2.
Proof using cap_ge.
  intros HS HB HQ. unfold skip_blank. apply rwp_bind. apply (rwp_in_skip cap cap_ge); [exact HS|exact HB|].
  intros u1 u2 HU R1 _ B1. apply rwp_adv_mark; [exact HU|]. intros t1 t2 HT R2 B2. apply HQ; [exact HT|congruence|congruence].
Qed.
(* skip_non_blank: same, and leading_whitespace := false *)
Lemma rwp_skip_non_blank (Q : unit -> st1 -> unit -> st2 -> Prop) s1 s2 :
  SR s1 s2 -> 1 <= bl2 s2 ->
  (forall t1 t2, SR t1 t2 -> rem1 t1 = tl (rem1 s1) -> bl2 t2 = bl2 s2 - 1 -> Q tt t1 tt t2) ->
  rwp (skip_non_blank sops) (skip_non_blank bops) Q s1 s2.
Proof using cap_ge.
  intros HS HB HQ. unfold skip_non_blank. apply rwp_bind. apply (rwp_in_skip cap cap_ge); [exact HS|exact HB|].
  intros u1 u2 HU R1 _ B1. apply rwp_bind. apply rwp_adv_mark; [exact HU|]. intros v1 v2 HV R2 B2.
  apply rwp_modify_skel; [rel_skel|reflexivity|reflexivity|]. intros t1 t2 HT R3 B3.
  apply HQ; [exact HT|congruence|congruence].
Qed.
(* skip_n_non_blank n: n buffered characters consumed *)
Lemma rwp_skip_n_non_blank n (Q : unit -> st1 -> unit -> st2 -> Prop) s1 s2 :
  SR s1 s2 -> n <= bl2 s2 ->
  (forall t1 t2, SR t1 t2 -> rem1 t1 = skipn n (rem1 s1) -> bl2 t2 = bl2 s2 - n -> Q tt t1 tt t2) ->
  rwp (skip_n_non_blank sops n) (skip_n_non_blank bops n) Q s1 s2.
Proof using cap_ge.
  intros HS HB HQ. unfold skip_n_non_blank. apply rwp_bind. apply (rwp_in_skip_n cap cap_ge); [exact HS|exact HB|].
  intros u1 u2 HU R1 _ B1. apply rwp_bind. apply rwp_adv_mark; [exact HU|]. intros v1 v2 HV R2 B2.
  apply rwp_modify_skel; [rel_skel|reflexivity|reflexivity|]. intros t1 t2 HT R3 B3.
  apply HQ; [exact HT|congruence|congruence].
Qed.
(* skip_nl: one buffered character consumed, the mark moved to the next line *)
Lemma rwp_skip_nl (Q : unit -> st1 -> unit -> st2 -> Prop) s1 s2 :
  SR s1 s2 -> 1 <= bl2 s2 ->
  (forall t1 t2, SR t1 t2 -> rem1 t1 = tl (rem1 s1) -> bl2 t2 = bl2 s2 - 1 -> Q tt t1 tt t2) ->
  rwp (skip_nl sops) (skip_nl bops) Q s1 s2.
Proof using cap_ge.
  intros HS HB HQ. unfold skip_nl. apply rwp_bind. apply (rwp_in_skip cap cap_ge); [exact HS|exact HB|].
  intros u1 u2 HU R1 _ B1. apply rwp_modify_skel; [rel_skel|reflexivity|reflexivity|]. intros t1 t2 HT R3 B3.
  apply HQ; [exact HT|congruence|congruence].
Qed.

(* skip_linebreak: CR LF / a break / nothing; two characters must be buffered *)
Lemma rwp_skip_linebreak (Q : unit -> st1 -> unit -> st2 -> Prop) s1 s2 :
  SR s1 s2 -> 2 <= bl2 s2 ->
  (forall t1 t2, SR t1 t2 -> rem1 t1 = skipn (lb_len s1) (rem1 s1) -> bl2 t2 = bl2 s2 - lb_len s1 -> Q tt t1 tt t2) ->
  rwp (skip_linebreak sops) (skip_linebreak bops) Q s1 s2.
Proof using cap_ge.
  intros HS HB HQ. unfold skip_linebreak. apply rwp_bind. apply rwp_next_2_are; [exact HS|exact HB|].
  unfold lb_len in HQ. unfold n2are. destruct ((rn1 s1 0 =? 13) && (rn1 s1 1 =? 10))%N.
  - apply rwp_bind. apply rwp_skip_blank; [exact HS|lia|]. intros u1 u2 HU R1 B1.
    apply rwp_skip_nl; [exact HU|lia|]. intros t1 t2 HT R2 B2. apply HQ; [exact HT| |lia].
    rewrite R2, R1. rewrite <- (tl_skipn 1). reflexivity.
  - apply rwp_bind. apply (rwp_peek cap cap_ge); [exact HS|lia|]. destruct (is_break (rn1 s1 0)).
    + apply rwp_skip_nl; [exact HS|lia|]. intros t1 t2 HT R1 B1. apply HQ; [exact HT|exact R1|exact B1].
    + apply rwp_ret. apply HQ; [exact HS|reflexivity|lia].
Qed.

(* skip_break: the debug assertion fails on both sides or on neither *)
Lemma rwp_skip_break (Q : unit -> st1 -> unit -> st2 -> Prop) s1 s2 :
  SR s1 s2 -> 2 <= bl2 s2 ->
  (forall t1 t2, SR t1 t2 -> is_break (rn1 s1 0) = true -> rem1 t1 = skipn (lb_len s1) (rem1 s1) ->
                 bl2 t2 = bl2 s2 - lb_len s1 -> Q tt t1 tt t2) ->
  rwp (skip_break sops) (skip_break bops) Q s1 s2.
Proof using cap_ge.
  intros HS HB HQ. unfold skip_break.
  apply rwp_bind. apply (rwp_peek cap cap_ge); [exact HS|lia|].
  apply rwp_bind. apply (rwp_peekn cap cap_ge); [exact HS|lia|].
  unfold lb_len in HQ. destruct (is_break (rn1 s1 0)) eqn:Ebr.
  2:{ apply rwp_bind. apply rwp_panic_r. }
  apply rwp_bind. apply rwp_ret.
  destruct ((rn1 s1 0 =? 13) && (rn1 s1 1 =? 10))%N.
  - apply rwp_bind. apply rwp_skip_blank; [exact HS|lia|]. intros u1 u2 HU R1 B1.
    apply rwp_skip_nl; [exact HU|lia|]. intros t1 t2 HT R2 B2. apply HQ; [exact HT|reflexivity| |lia].
    rewrite R2, R1. rewrite <- (tl_skipn 1). reflexivity.
  - apply rwp_bind. apply rwp_ret. apply rwp_skip_nl; [exact HS|lia|]. intros t1 t2 HT R1 B1.
    apply HQ; [exact HT|reflexivity|exact R1|exact B1].
Qed.

(* ---------------- the bulk input loops (lockstep: same fuel on both sides) ---------------- *)
Lemma skipn_tl {A} j (l : list A) : skipn j (tl l) = skipn (S j) l.
Proof. destruct l; [destruct j; reflexivity|reflexivity]. Qed.

(* in_skip_while F p: k characters satisfying p consumed; at the exit one character is buffered and fails p *)
Lemma rwp_in_skip_while F p (Q : N -> st1 -> N -> st2 -> Prop) s1 s2 :
  SR s1 s2 ->
  (forall k t1 t2, SR t1 t2 -> erase t1 = erase s1 -> 1 <= bl2 t2 -> p (rn1 t1 0) = false ->
     rem1 t1 = skipn (N.to_nat k) (rem1 s1) -> (forall i, i < N.to_nat k -> p (rn1 s1 i) = true) -> Q k t1 k t2) ->
  rwp (in_skip_while sops F p) (in_skip_while bops F p) Q s1 s2.
Proof using cap_ge.
  intros HS HQ. unfold in_skip_while.
  match goal with |- rwp (?L1 F 0%N) (?L2 F 0%N) _ _ _ =>
    assert (HL : forall f k u1 u2, SR u1 u2 -> erase u1 = erase s1 -> rem1 u1 = skipn (N.to_nat k) (rem1 s1) ->
                   (forall i, i < N.to_nat k -> p (rn1 s1 i) = true) -> rwp (L1 f k) (L2 f k) Q u1 u2) end.
  { induction f as [|f IHf]; intros k u1 u2 HU EU RU PU; [apply rwp_oof_l|]. lazy beta iota.
    apply rwp_bind. apply (rwp_look_ch cap cap_ge); [exact HU|]. intros v1 v2 HV RV EV BV _.
    destruct (p (rn1 v1 0)) eqn:Ep.
    - apply rwp_bind. apply (rwp_in_skip cap cap_ge); [exact HV|exact BV|]. intros w1 w2 HW RW EW BW.
      apply IHf; [exact HW|congruence| |].
      + rewrite RW, RV, RU, tl_skipn. f_equal. lia.
      + intros i Hi. destruct (Nat.eq_dec i (N.to_nat k)) as [->|Hne]; [|apply PU; lia].
        rewrite <- Ep. rewrite (rn1_eq v1 u1 0 RV). rewrite (rn1_skipn u1 s1 _ 0 RU). rewrite Nat.add_0_r. reflexivity.
    - apply rwp_ret. apply HQ; try assumption; congruence. }
  apply HL; [exact HS|reflexivity|reflexivity|]. intros i Hi. cbn in Hi. lia.
Qed.
Lemma rwp_in_skip_while_non_breakz F (Q : N -> st1 -> N -> st2 -> Prop) s1 s2 :
  SR s1 s2 ->
  (forall k t1 t2, SR t1 t2 -> erase t1 = erase s1 -> 1 <= bl2 t2 -> is_breakz (rn1 t1 0) = true ->
     rem1 t1 = skipn (N.to_nat k) (rem1 s1) -> (forall i, i < N.to_nat k -> is_breakz (rn1 s1 i) = false) -> Q k t1 k t2) ->
  rwp (in_skip_while_non_breakz sops F) (in_skip_while_non_breakz bops F) Q s1 s2.
Proof using cap_ge.
  intros HS HQ. unfold in_skip_while_non_breakz. apply rwp_in_skip_while; [exact HS|].
  intros k t1 t2 HT ET BT PT RT AT. apply HQ; try assumption.
  - apply negb_false_iff. exact PT.
  - intros i Hi. apply negb_true_iff. apply AT. exact Hi.
Qed.
Lemma rwp_in_skip_while_blank F (Q : N -> st1 -> N -> st2 -> Prop) s1 s2 :
  SR s1 s2 ->
  (forall k t1 t2, SR t1 t2 -> erase t1 = erase s1 -> 1 <= bl2 t2 -> is_blank (rn1 t1 0) = false ->
     rem1 t1 = skipn (N.to_nat k) (rem1 s1) -> (forall i, i < N.to_nat k -> is_blank (rn1 s1 i) = true) -> Q k t1 k t2) ->
  rwp (in_skip_while_blank sops F) (in_skip_while_blank bops F) Q s1 s2.
Proof using cap_ge. intros HS HQ. unfold in_skip_while_blank. apply rwp_in_skip_while; [exact HS|exact HQ]. Qed.

(* in_fetch_while_alpha F acc: same loop, the characters are also returned (the same list on both sides) *)
Lemma rwp_in_fetch_while_alpha F acc (Q : list chr * N -> st1 -> list chr * N -> st2 -> Prop) s1 s2 :
  SR s1 s2 ->
  (forall r t1 t2, SR t1 t2 -> erase t1 = erase s1 -> 1 <= bl2 t2 -> is_alpha (rn1 t1 0) = false ->
     rem1 t1 = skipn (N.to_nat (snd r)) (rem1 s1) ->
     (forall i, i < N.to_nat (snd r) -> is_alpha (rn1 s1 i) = true) -> Q r t1 r t2) ->
  rwp (in_fetch_while_alpha sops F acc) (in_fetch_while_alpha bops F acc) Q s1 s2.
Proof using cap_ge.
  intros HS HQ. unfold in_fetch_while_alpha.
  match goal with |- rwp (?L1 F acc 0%N) (?L2 F acc 0%N) _ _ _ =>
    assert (HL : forall f a k u1 u2, SR u1 u2 -> erase u1 = erase s1 -> rem1 u1 = skipn (N.to_nat k) (rem1 s1) ->
                   (forall i, i < N.to_nat k -> is_alpha (rn1 s1 i) = true) -> rwp (L1 f a k) (L2 f a k) Q u1 u2) end.
  { induction f as [|f IHf]; intros a k u1 u2 HU EU RU PU; [apply rwp_oof_l|]. lazy beta iota.
    apply rwp_bind. apply (rwp_look_ch cap cap_ge); [exact HU|]. intros v1 v2 HV RV EV BV _.
    destruct (is_alpha (rn1 v1 0)) eqn:Ep.
    - apply rwp_bind. apply (rwp_in_skip cap cap_ge); [exact HV|exact BV|]. intros w1 w2 HW RW EW BW.
      apply IHf; [exact HW|congruence| |].
      + rewrite RW, RV, RU, tl_skipn. f_equal. lia.
      + intros i Hi. destruct (Nat.eq_dec i (N.to_nat k)) as [->|Hne]; [|apply PU; lia].
        rewrite <- Ep. rewrite (rn1_eq v1 u1 0 RV). rewrite (rn1_skipn u1 s1 _ 0 RU). rewrite Nat.add_0_r. reflexivity.
    - apply rwp_ret. apply HQ; cbn [snd]; try assumption; congruence. }
  apply HL; [exact HS|reflexivity|reflexivity|]. intros i Hi. cbn in Hi. lia.
Qed.

(* in_skip_ws_to_eol (with its nested comment loop): j characters consumed, the count grew by j, one character is
   buffered at the exit *)
Lemma rwp_in_skip_ws_to_eol F stb tab ws n
  (Q : N * option (bool * bool) -> st1 -> N * option (bool * bool) -> st2 -> Prop) s1 s2 :
  SR s1 s2 ->
  (forall r j t1 t2, SR t1 t2 -> erase t1 = erase s1 -> 1 <= bl2 t2 ->
     fst r = (n + N.of_nat j)%N -> rem1 t1 = skipn j (rem1 s1) -> Q r t1 r t2) ->
  rwp (in_skip_ws_to_eol sops F stb tab ws n) (in_skip_ws_to_eol bops F stb tab ws n) Q s1 s2.
Proof using cap_ge.
  revert tab ws n Q s1 s2. induction F as [|F IHF]; intros tab ws n Q s1 s2 HS HQ; [apply rwp_oof_l|].
  cbn [in_skip_ws_to_eol].
  apply rwp_bind. apply (rwp_look_ch cap cap_ge); [exact HS|]. intros u1 u2 HU RU EU BU _.
  (* the callee after consuming [S j0] characters and counting [j0] of them so far plus one at the call *)
  assert (STEP : forall tab' ws' j0 v1 v2, SR v1 v2 -> rem1 v1 = skipn j0 (rem1 s1) -> erase v1 = erase s1 ->
            rwp (in_skip_ws_to_eol sops F stb tab' ws' (n + N.of_nat j0)%N)
                (in_skip_ws_to_eol bops F stb tab' ws' (n + N.of_nat j0)%N) Q v1 v2).
  { intros tab' ws' j0 v1 v2 HV RV EV. apply IHF; [exact HV|]. intros r j t1 t2 HT ET BT FR RT.
    apply (HQ r (j0 + j)); [exact HT|congruence|exact BT|rewrite FR; lia|]. rewrite RT, RV. apply skipn_add. }
  assert (ONE : forall v1, rem1 v1 = tl (rem1 u1) -> rem1 v1 = skipn 1 (rem1 s1)).
  { intros v1 RV. rewrite RV, RU. reflexivity. }
  destruct (rn1 u1 0 =? 32)%N.
  { apply rwp_bind. apply (rwp_in_skip cap cap_ge); [exact HU|exact BU|]. intros v1 v2 HV RV EV BV.
    apply (STEP tab true 1 v1 v2); [exact HV|apply ONE; exact RV|congruence]. }
  match goal with |- rwp (if ?b then _ else _) _ _ _ _ => destruct b end.
  { apply rwp_bind. apply (rwp_in_skip cap cap_ge); [exact HU|exact BU|]. intros v1 v2 HV RV EV BV.
    apply (STEP true ws 1 v1 v2); [exact HV|apply ONE; exact RV|congruence]. }
  assert (HQ0 : forall o, Q (n, o) u1 (n, o) u2).
  { intros o. apply (HQ (n, o) 0); [exact HU|exact EU|exact BU|cbn [fst]; lia|exact RU]. }
  destruct (rn1 u1 0 =? 35)%N; [|apply rwp_ret; apply HQ0].
  destruct (negb tab && negb ws); [apply rwp_ret; apply HQ0|].
  apply rwp_bind. apply (rwp_in_skip cap cap_ge); [exact HU|exact BU|]. intros v1 v2 HV RV EV BV.
  (* the comment loop: [j] comment characters consumed after the '#', which is counted at the exit *)
  match goal with |- rwp (?L1 F n) (?L2 F n) _ _ _ =>
    assert (HL : forall f j w1 w2, SR w1 w2 -> erase w1 = erase s1 -> rem1 w1 = skipn (S j) (rem1 s1) ->
                   rwp (L1 f (n + N.of_nat j)%N) (L2 f (n + N.of_nat j)%N) Q w1 w2) end.
  { induction f as [|f IHf]; intros j w1 w2 HW EW RW; [apply rwp_oof_l|]. lazy beta iota.
    apply rwp_bind. apply (rwp_look_ch cap cap_ge); [exact HW|]. intros x1 x2 HX RX EX BX _.
    destruct (is_breakz (rn1 x1 0)).
    - replace (n + N.of_nat j + 1)%N with (n + N.of_nat (S j))%N by lia.
      apply STEP; [exact HX|congruence|congruence].
    - apply rwp_bind. apply (rwp_in_skip cap cap_ge); [exact HX|exact BX|]. intros y1 y2 HY RY EY BY.
      replace (n + N.of_nat j + 1)%N with (n + N.of_nat (S j))%N by lia.
      apply IHf; [exact HY|congruence|]. rewrite RY, RX, RW. apply tl_skipn. }
  assert (EV0 : erase v1 = erase s1) by congruence.
  specialize (HL F 0 v1 v2 HV EV0 (ONE v1 RV)). change (N.of_nat 0) with 0%N in HL. rewrite N.add_0_r in HL. exact HL.
Qed.

(* ---------------- the contracts ---------------- *)
Theorem skip_linebreak_ok : rel_skip_linebreak cap N0.
Proof using cap_ge.
  unfold rel_skip_linebreak. intros s1 s2 HS HB. apply rwp_skip_linebreak; [exact HS|exact HB|].
  intros t1 t2 HT _ _. split; [reflexivity|]. split; [exact HT|lia].
Qed.

Theorem skip_ws_to_eol_ok : rel_skip_ws_to_eol cap N0.
Proof using cap_ge.
  unfold rel_skip_ws_to_eol. intros F stb s1 s2 HS. unfold skip_ws_to_eol.
  apply rwp_bind. apply rwp_in_skip_ws_to_eol; [exact HS|]. intros r j u1 u2 HU _ BU _ _.
  apply rwp_bind. apply rwp_adv_mark; [exact HU|]. intros v1 v2 HV _ BV.
  destruct (snd r) as [tw|].
  - apply rwp_ret_rpost; [exact HV|lia].
  - apply rwp_mark_fail. exact HV.
Qed.

Theorem skip_to_next_token_ok : rel_skip_to_next_token cap N0.
Proof using cap_ge.
  unfold rel_skip_to_next_token. induction F as [|F IHF]; intros s1 s2 HS; [apply rwp_oof_l|].
  cbn [skip_to_next_token].
  apply rwp_bind. apply (rwp_look_ch cap cap_ge); [exact HS|]. intros u1 u2 HU RU EU BU _.
  apply rwp_bind. apply rwp_get. cbv beta.
  apply rwp_bind. apply rwp_is_within_block; [exact HU|]. cbv beta.
  rel_if.
  { (* a tab in the indentation: skip_ws_to_eol, then a break must follow *)
    eapply rwp_bind_rpost; [apply skip_ws_to_eol_ok; exact HU|]. intros tw v1 v2 HV BV.
    apply rwp_bind. apply rwp_next_is; [exact HV|exact BV|]. destruct (is_breakz (rn1 v1 0)).
    - apply IHF. exact HV.
    - apply rwp_mark_fail. exact HV. }
  rel_if.
  { (* tab or space: the character just looked at is buffered *)
    apply rwp_bind. apply rwp_skip_blank; [exact HU|exact BU|]. intros v1 v2 HV _ _. apply IHF. exact HV. }
  rel_if.
  { (* a line break: look 2 buffers both characters of a CR LF *)
    apply rwp_bind. apply (rwp_look cap cap_ge); [exact HU|lia|]. intros v1 v2 HV RV EV BV _.
    eapply rwp_bind_rpost; [apply skip_linebreak_ok; [exact HV|exact BV]|]. intros [] w1 w2 HW _.
    apply rwp_bind. apply rwp_flow_level; [exact HW|]. cbv beta.
    apply rwp_bind. destruct (sc_flow_level w1 =? 0)%N.
    - apply rwp_allow_simple_key; [exact HW|]. intros x1 x2 HX _ _. apply IHF. exact HX.
    - apply rwp_ret. apply IHF. exact HW. }
  rel_if.
  { (* a comment *)
    apply rwp_bind. apply rwp_in_skip_while_non_breakz; [exact HU|]. intros k v1 v2 HV _ _ _ _ _.
    apply rwp_bind. apply rwp_adv_mark; [exact HV|]. intros w1 w2 HW _ _. apply IHF. exact HW. }
  apply rwp_ret_rpost; [exact HU|exact BU].
Qed.

Theorem skip_yaml_whitespace_ok : rel_skip_yaml_whitespace cap N0.
Proof using cap_ge.
  unfold rel_skip_yaml_whitespace. intros F s1 s2 HS. unfold skip_yaml_whitespace.
  match goal with |- rwp (?L1 F true) (?L2 F true) _ _ _ =>
    assert (HL : forall f need u1 u2, SR u1 u2 -> rwp (L1 f need) (L2 f need) (rpost 1) u1 u2) end.
  { clear s1 s2 HS. induction f as [|f IHf]; intros need s1 s2 HS; [apply rwp_oof_l|]. lazy beta iota.
    apply rwp_bind. apply (rwp_look_ch cap cap_ge); [exact HS|]. intros u1 u2 HU RU EU BU _.
    rel_if.
    { apply rwp_bind. apply rwp_skip_blank; [exact HU|exact BU|]. intros v1 v2 HV _ _. apply IHf. exact HV. }
    rel_if.
    { apply rwp_bind. apply (rwp_look cap cap_ge); [exact HU|lia|]. intros v1 v2 HV RV EV BV _.
      eapply rwp_bind_rpost; [apply skip_linebreak_ok; [exact HV|exact BV]|]. intros [] w1 w2 HW _.
      apply rwp_bind. apply rwp_flow_level; [exact HW|]. cbv beta.
      apply rwp_bind. destruct (sc_flow_level w1 =? 0)%N.
      - apply rwp_allow_simple_key; [exact HW|]. intros x1 x2 HX _ _. apply IHf. exact HX.
      - apply rwp_ret. apply IHf. exact HW. }
    rel_if.
    { apply rwp_bind. apply rwp_in_skip_while_non_breakz; [exact HU|]. intros k v1 v2 HV _ _ _ _ _.
      apply rwp_bind. apply rwp_adv_mark; [exact HV|]. intros w1 w2 HW _ _. apply IHf. exact HW. }
    destruct need.
    - apply rwp_mark_fail. exact HU.
    - apply rwp_ret_rpost; [exact HU|exact BU]. }
  apply HL. exact HS.
Qed.

End RelPrim.

Print Assumptions skip_linebreak_ok.
Print Assumptions skip_ws_to_eol_ok.
Print Assumptions skip_to_next_token_ok.
Print Assumptions skip_yaml_whitespace_ok.
