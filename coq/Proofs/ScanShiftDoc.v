(* C15, text level: documents are parsed independently - composition of the scanner's tail independence
   (ScanShiftTop.v), the parser's position-shift equivariance (ScanShiftParse.v) and the parser-level composition
   theorem (DocIndep.v), under the explicit hypothesis (i):

     [boundary_reached A B]: the scanner of  A "...\n" B  delivers the tokens of A (StreamEnd removed) and a
     DocumentEnd token and then stands, queue delivered, in the marker configuration at the line break that ends the
     marker line, with B behind the break.

   (i) is the prefix stability of the scanner at a marker line (every scalar scanner ends at "\n...\n" exactly as it
   ends at the end of the input); it is NOT proved here.  Under (i):

     text_composition   run_str A, run_str B accepted  =>  run_str (A "...\n" B) accepted, and its events are the
                        events of A without StreamEnd followed by the events of B without StreamStart, every anchor id
                        of the second part raised by the number of anchored nodes of A. *)
From Coq Require Import List NArith ZArith Bool Arith Lia.
Import ListNotations.
Require Import Parser SBase SPrim SDir SScalar SFetch Pipe C02run DocRun DocShift DocIndep DocIndepRun ScanFrame DocScan.
Require Import ScanShift ScanShiftTop ScanShiftParse.
Require ScanFuelAll ScanSafeStrTop RejectProofs RejectScan.
Local Open Scope nat_scope.

(* ================================================================================================ *)
(* 1. run_str = scanner run + parser run; both end properly                                         *)
(* ================================================================================================ *)
Definition str_K (y : list chr) : nat := 4 * (4 * str_F y + 20) + 40.
Lemma run_str_scan y :
  run_str y = parse_all (str_K y) (start_parser (fst (str_scan y)) false) (snd (str_scan y)) [].
Proof.
  unfold run_str, str_scan, str_K, str_F. cbv zeta. destruct (scan_all _ _ _ _ _) as [toks se]. reflexivity.
Qed.
Lemma str_scan_proper y : proper_end (snd (str_scan y)).
Proof.
  pose proof (ScanFuelAll.scanner_never_out_of_fuel y) as NF. cbv zeta in NF.
  pose proof (fun n => ScanSafeStrTop.scanner_never_panics_str (str_F y) (4 * str_F y + 20) y n) as NP.
  unfold str_scan. fold (str_F y) in NF.
  destruct (snd (scan_all sops (str_F y) (4 * str_F y + 20) (init_sc {| si_chars := y; si_look := 0 |}) [])) as [| | n|] eqn:E;
    cbn [proper_end]; auto; first [exact (NP n eq_refl)|exact (NF eq_refl)].
Qed.

(* a run of the parser that is known to be accepted: the driver returns it, or runs out of fuel *)
Lemma steps_parse_all_fuel : forall p evs pe, steps p evs pe -> p_state pe = SEnd ->
  forall fuel se acc, parse_all fuel p se acc = (rev acc ++ evs, PDone) \/ snd (parse_all fuel p se acc) = PFuel.
Proof.
  induction 1 as [p|p e p1 l p2 H1 H2 IH]; intros HE fuel se acc; (destruct fuel as [|fuel]; [right; reflexivity|]);
    rewrite parse_all_S.
  - rewrite HE, app_nil_r. left. reflexivity.
  - pose proof (step_not_end _ _ H1) as NE.
    assert (G : step_result fuel p se acc = (rev acc ++ e :: l, PDone) \/ snd (step_result fuel p se acc) = PFuel).
    { unfold step_result. rewrite H1. destruct (IH HE fuel se (e :: acc)) as [G|G]; [left|right; exact G].
      rewrite G. cbn [rev]. rewrite <- app_assoc. reflexivity. }
    destruct (p_state p); try exact G. contradiction.
Qed.

(* an accepted token list has at least two tokens *)
Lemma accepts_two toks keep evs : accepts toks keep evs -> exists a l b, toks = a :: l ++ [b].
Proof.
  intros (q & HS & HE). destruct toks as [|a [|b r]].
  - exfalso. inversion HS as [|p0 e p1 l p2 H1 H2]; subst; [discriminate HE|]. cbv in H1. discriminate H1.
  - exfalso. inversion HS as [|p0 e p1 l p2 H1 H2]; subst; [discriminate HE|].
    destruct a as [sp tk]. destruct tk; cbv in H1; try discriminate H1.
    inversion H1; subst; clear H1.
    inversion H2 as [|p0 e' p1' l' p2' H3 H4]; subst; [discriminate HE|]. cbv in H3. discriminate H3.
  - destruct (@exists_last _ (b :: r)) as (l & z & E); [discriminate|]. exists a, l, z. rewrite E. reflexivity.
Qed.

(* ================================================================================================ *)
(* 2. Hypothesis (i) and the composition                                                            *)
(* ================================================================================================ *)
Definition dots : list chr := [46; 46; 46; 10]%N.                       (* "...\n" *)
Definition glue_text (A B : list chr) : list chr := A ++ dots ++ B.

(* the tokens of a text: StreamStart first, StreamEnd last and nowhere else *)
Definition tokens_wf (T : list token) : Prop :=
  exists ss t sps, T = ss :: t ++ [(sps, TStreamEnd)] /\ snd ss = TStreamStart
                   /\ Forall (fun x => snd x <> TStreamEnd) t.

(* ---- the token shape of an accepted text ---- *)
(* (a) the scanner delivers a StreamEnd token only as its last token *)
Lemma scan_all_after_end F : forall n (s : bst) acc, sc_stream_end s = true -> fst (scan_all sops F n s acc) = rev acc.
Proof.
  intros [|n] s acc H; cbn [scan_all]; [reflexivity|]. rewrite (RejectScan.next_token_after_end F s H). reflexivity.
Qed.
Lemma scan_all_stream_end_last F : forall n (s : bst) acc,
  exists l, fst (scan_all sops F n s acc) = rev acc ++ l /\ Forall (fun x => snd x <> TStreamEnd) (removelast l).
Proof.
  induction n as [|n IH]; intros s acc; cbn [scan_all].
  - exists []. cbn [fst removelast]. rewrite app_nil_r. auto.
  - destruct (next_token sops F s) as [[[t|] s']|e k|p|] eqn:E;
      try (exists []; cbn [fst removelast]; rewrite app_nil_r; split; [reflexivity|constructor]).
    destruct (RejectScan.tok_is_stream_end_dec t) as [Ht|Ht].
    + pose proof (RejectScan.next_token_stream_end F s s' t E Ht) as HE.
      exists [t]. rewrite (scan_all_after_end F n s' (t :: acc) HE). cbn [rev removelast]. auto.
    + destruct (IH s' (t :: acc)) as (l & EL & HL). exists (t :: l). rewrite EL. cbn [rev]. rewrite <- app_assoc.
      split; [reflexivity|]. destruct l as [|x l]; [constructor|].
      change (removelast (t :: x :: l)) with (t :: removelast (x :: l)). constructor; assumption.
Qed.
(* (b) a token list the parser accepts contains a StreamEnd token (C06: [flow_balanced] is false on a list without) *)
Lemma balanced_has_stream_end : forall l stk, RejectProofs.flow_balanced l stk = true -> exists sp, In (sp, TStreamEnd) l.
Proof.
  induction l as [|[sp t] r IH]; intros stk H; [discriminate|]. cbn [RejectProofs.flow_balanced] in H.
  destruct t; try (destruct (IH _ H) as [sp' Hin]; exists sp'; right; exact Hin);
    try (exists sp; left; reflexivity);
    destruct stk as [|[|] stk']; try discriminate; destruct (IH _ H) as [sp' Hin]; exists sp'; right; exact Hin.
Qed.
(* (c) hence: the tokens of an accepted text are StreamStart ... StreamEnd, StreamEnd nowhere else *)
Theorem accepted_tokens_wf y evs : run_str y = (evs, PDone) -> tokens_wf (fst (str_scan y)).
Proof.
  intros H.
  assert (HP : exists sp, In (sp, TStreamEnd) (fst (str_scan y))).
  { apply (balanced_has_stream_end _ []). apply (RejectProofs.accepted_implies_balanced_proved _ false (snd (str_scan y)) (str_K y)).
    rewrite run_str_scan in H. change (C02run.init_parser (fst (str_scan y)) false) with (start_parser (fst (str_scan y)) false).
    rewrite H. reflexivity. }
  destruct HP as [sp HP].
  assert (HF : exists T, fst (str_scan y) = ss_token :: T).
  { unfold str_scan. assert (EF : exists f1, str_F y = S (S f1)) by (unfold str_F; exists (2 * @length chr y + 8); lia).
    destruct EF as [f1 EF]. rewrite EF.
    assert (EN : exists n1, 4 * S (S f1) + 20 = S n1) by (exists (4 * S (S f1) + 19); lia).
    destruct EN as [n1 EN]. rewrite EN. cbn [scan_all]. rewrite first_token, scan_all_acc. cbn [fst rev app]. eauto. }
  destruct HF as [T ET].
  destruct (scan_all_stream_end_last (str_F y) (4 * str_F y + 20) (init_sc {| si_chars := y; si_look := 0 |}) []) as (l & EL & HL).
  cbn [rev app] in EL. fold (str_scan y) in EL. rewrite ET in EL. subst l.
  (* the StreamEnd token is not among the tokens before the last, so it is the last *)
  destruct (@exists_last _ (ss_token :: T)) as (l' & z & E); [discriminate|].
  rewrite ET in HP. rewrite E in HP, HL. rewrite removelast_last in HL.
  apply in_app_or in HP. destruct HP as [HP|HP].
  { exfalso. rewrite Forall_forall in HL. exact (HL _ HP eq_refl). }
  destruct HP as [->|[]].
  destruct l' as [|a l'].
  { cbn [app] in E. inversion E. }
  cbn [app] in E. inversion E as [[Ea Eb]]. subst a. exists ss_token, l', sp. split; [rewrite ET, Eb; reflexivity|].
  split; [reflexivity|]. inversion HL; assumption.
Qed.

(* HYPOTHESIS (i): prefix stability of the scanner at the marker line *)
Definition boundary_reached (A B : list chr) : Prop :=
  exists k spd (sm : bst),
    deliver (str_F (glue_text A B)) k (init_sc {| si_chars := glue_text A B; si_look := 0 |})
      = Some (removelast (fst (str_scan A)) ++ [(spd, TDocumentEnd)], sm)
    /\ k <= 4 * str_F (glue_text A B) + 20
    /\ marker_config sm /\ is_break (rn sm 0) = true
    /\ sc_tokens sm = [] /\ sc_token_available sm = false /\ sc_stream_end sm = false /\ (1 <= sc_tokens_parsed sm)%N
    /\ boundary_text sm = B.

(* the tokens of the glued text *)
Theorem glued_tokens A B : boundary_reached A B ->
  exists spd d, fst (str_scan (glue_text A B))
                = removelast (fst (str_scan A)) ++ (spd, TDocumentEnd) :: map (sht d) (tl (fst (str_scan B)))
             /\ snd (str_scan (glue_text A B)) = she d (snd (str_scan B)).
Proof.
  intros (k & spd & sm & HD & Hk & HC & HB & ET & EA & EE & EP & EB).
  pose proof (tail_independence_text (glue_text A B) k _ sm HD Hk HC HB ET EA EE EP) as H. cbn zeta in H.
  rewrite EB in H. destruct H as [_ H].
  destruct (H (str_scan_proper B) (str_scan_proper (glue_text A B))) as [H1 H2].
  exists spd, (boundary_shift sm). split; [|exact H2]. rewrite H1, <- app_assoc. reflexivity.
Qed.

Lemma glued_list {T} (f : T -> T) a (ta : list T) x y b tb z :
  removelast (a :: ta ++ [x]) ++ y :: map f (tl (b :: tb ++ [z])) = a :: ta ++ y :: map f tb ++ [f z].
Proof.
  rewrite app_comm_cons, removelast_last. cbn [tl app]. rewrite map_app. reflexivity.
Qed.

Theorem text_composition A B evA evB :
  run_str A = (evA, PDone) -> run_str B = (evB, PDone) -> boundary_reached A B ->
  exists evC, run_str (glue_text A B) = (evC, PDone)
              /\ evs_of evC = removelast (evs_of evA) ++ map (shift_ev (count_anchored (evs_of evA))) (tl (evs_of evB)).
Proof.
  intros HA HB HI. destruct (accepted_tokens_wf A evA HA) as (ssA & ta & sps & ETA & HSS & HNE).
  destruct (glued_tokens A B HI) as (spd & d & ETX & ESX).
  (* the two parts are accepted by the parser *)
  rewrite run_str_scan in HA, HB.
  apply parse_all_steps in HA. destruct HA as (ea & pa & EvA & SA & EA). cbn [rev app] in EvA. subst ea.
  apply parse_all_steps in HB. destruct HB as (eb & pb & EvB & SB & EB). cbn [rev app] in EvB. subst eb.
  assert (AA : accepts (ssA :: ta ++ [(sps, TStreamEnd)]) false evA) by (rewrite <- ETA; exists pa; auto).
  assert (AB : accepts (fst (str_scan B)) false evB) by (exists pb; auto).
  destruct (accepts_two _ _ _ AB) as (ssB & tb & seB & ETB).
  (* the second part, shifted *)
  pose proof (accepts_shift_pos d _ _ _ AB) as AB'. rewrite ETB in AB'. cbn [map] in AB'. rewrite map_app in AB'. cbn [map] in AB'.
  destruct (doc_composition_events ssA ta sps spd (sht d ssB) (map (sht d) tb) (sht d seB) evA (map (eev d) evB)
              HSS HNE AA AB') as (evC & (pc & SC & EC) & EV).
  exists evC. split.
  - rewrite run_str_scan. rewrite ETX, ETA, ETB, glued_list.
    destruct (steps_parse_all_fuel _ _ _ SC EC (str_K (glue_text A B)) (snd (str_scan (glue_text A B))) []) as [G|G].
    + exact G.
    + exfalso. apply (ScanFuelAll.pipeline_never_out_of_fuel (glue_text A B)).
      rewrite run_str_scan, ETX, ETA, ETB, glued_list. exact G.
  - rewrite EV, evs_of_eev. reflexivity.
Qed.

Print Assumptions accepted_tokens_wf.
Print Assumptions glued_tokens.
Print Assumptions text_composition.
