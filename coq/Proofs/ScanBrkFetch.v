(* Joint proof "the line-break style does not change what the scanner computes" (C14, see SCANBRK.md): the
   FETCH family - the token-level skeleton of Model/SFetch.v under the state relation [BR md] of ScanBrk.v.

   Every fetch_* function, the dispatcher fetch_next_token, fetch_more_tokens, next_token and scan_all, run over a
   CR-free text and over its image (LF -> CR LF / CR) from related states, end the same way: related values and
   related states again, or the same error site at markers with the same line and column.  TWO independent fuels
   everywhere.  The five character-level contracts that are proved by the other families (directive, tag, flow /
   plain / block scalar) are hypotheses of the section; the contracts of the primitives and of scan_anchor come from
   ScanBrkPrim.v.

   The alignment premises ([rn s1 0 <> 10], [noLF 3 (rm s1)]) are exactly the facts the dispatcher establishes before
   each fetch_*: skip_to_next_token stops at a character that is not a line feed ([bpost_al]), and a document marker
   that was just recognised contains no line feed ([n3are_noLF]). *)
From Coq Require Import List NArith ZArith Bool Arith Lia.
Import ListNotations.
Require Import Parser SBase SPrim SDir SScalar SFetch ScanBrk ScanBrkPrim.
Local Open Scope nat_scope.

(* ---------------- small facts ---------------- *)
Lemma rn_keep (t s : bst) : rm t = rm s -> rn s 0 <> 10%N -> rn t 0 <> 10%N.
Proof. intros R N. rewrite (rn_eq t s 0 R). exact N. Qed.
Lemma noLF_keep k (t s : bst) : rm t = rm s -> noLF k (rm s) -> noLF k (rm t).
Proof. intros R N. rewrite R. exact N. Qed.
Lemma docstart_noLF (s : bst) : docstart_val s = true -> noLF 3 (rm s).
Proof.
  unfold docstart_val. destruct (n3are s 45%N 45%N 45%N) eqn:E; [intros _|discriminate].
  eapply n3are_noLF; [| | |exact E]; reflexivity.
Qed.
Lemma docend_noLF (s : bst) : docend_val s = true -> noLF 3 (rm s).
Proof.
  unfold docend_val. destruct (n3are s 46%N 46%N 46%N) eqn:E; [intros _|discriminate].
  eapply n3are_noLF; [| | |exact E]; reflexivity.
Qed.
Lemma F2_rev {A B} (R : A -> B -> Prop) l1 l2 : Forall2 R l1 l2 -> Forall2 R (rev l1) (rev l2).
Proof.
  induction 1 as [|a b l1 l2 Hab H IH]; [constructor|]. cbn [rev]. apply Forall2_app; [exact IH|].
  constructor; [exact Hab|constructor].
Qed.
Lemma ER_panic_r e n : ER e (SPanic n).
Proof. destruct e; exact I. Qed.
Lemma ER_fuel_r e : ER e SFuel.
Proof. destruct e; exact I. Qed.
Lemma ER_panic_l e n : ER (SPanic n) e.
Proof. destruct e; exact I. Qed.
Lemma ER_fuel_l e : ER SFuel e.
Proof. destruct e; exact I. Qed.

(* [keep]: an alignment fact about a state [s] is moved to a state [t] with the same remaining text *)
Ltac keep :=
  repeat match goal with
  | RT : rm ?t = rm ?s, N : rn ?s 0 <> 10%N |- _ => pose proof (rn_keep t s RT N); clear N
  | RT : rm ?t = rm ?s, N : noLF ?k (rm ?s) |- _ => pose proof (noLF_keep k t s RT N); clear N
  end.
(* the same boolean test on both sides (syntactically) *)
Ltac br := match goal with |- bwp (if ?b then _ else _) (if ?b then _ else _) _ _ _ => destruct b end.

Section BrkFetch.
Variable md : mode.

Hypothesis H_dir : brk_scan_directive md.
Hypothesis H_tag : brk_scan_tag md.
Hypothesis H_flow : brk_scan_flow_scalar md.
Hypothesis H_plain : brk_scan_plain_scalar md.
Hypothesis H_block : brk_scan_block_scalar md.

(* a unit-valued step that keeps the remaining text *)
Definition kpost (s1 : bst) : unit -> bst -> unit -> bst -> Prop :=
  fun _ t1 _ t2 => BR md t1 t2 /\ rm t1 = rm s1.
Lemma bwp_seq {B1 B2} (m1 m2 : BM unit) (f1 : unit -> BM B1) (f2 : unit -> BM B2)
  (Q : B1 -> bst -> B2 -> bst -> Prop) s1 s2 :
  bwp m1 m2 (kpost s1) s1 s2 ->
  (forall t1 t2, BR md t1 t2 -> rm t1 = rm s1 -> bwp (f1 tt) (f2 tt) Q t1 t2) ->
  bwp (bind m1 f1) (bind m2 f2) Q s1 s2.
Proof.
  intros H HK. apply bwp_bind. eapply bwp_mono; [exact H|]. intros [] t1 [] t2 [HB HR]. apply HK; assumption.
Qed.

(* [sk lem]: one skeleton-only step  m ;;; rest  with the rule [lem md : BR md s1 s2 -> skel_post -> bwp m m Q s1 s2] *)
Ltac sk lem :=
  apply bwp_bind; apply (lem md); [eassumption|];
  let t1 := fresh "t1" in let t2 := fresh "t2" in let HT := fresh "HT" in let RT := fresh "RT" in
  intros t1 t2 HT RT; keep; clear RT.
(* close [bpost md eq tt t1 tt t2] / [kpost s tt t1 tt t2] *)
Ltac fin := split; [reflexivity|assumption].
Ltac kfin := split; [assumption|first [assumption|reflexivity]].

(* ---------------- stream start / end ---------------- *)
Theorem fetch_stream_start_ok : brk_fetch_stream_start md.
Proof.
  intros s1 s2 H. unfold fetch_stream_start. apply bwp_bind. apply bwp_get. cbv beta zeta.
  apply bwp_put. split; [reflexivity|].
  apply BR_set_sks.
  - apply BR_push; [|apply TR_empty; exact (br_mark H)]. apply BR_set_ska. apply BR_set_ss.
    rewrite <- (BR_indents H). apply BR_set_indent. exact H.
  - constructor; [apply KR_dead; apply MR_refl|]. exact (br_sks H).
Qed.

Theorem fetch_stream_end_ok : brk_fetch_stream_end md.
Proof.
  intros s1 s2 H. unfold fetch_stream_end.
  apply bwp_bind. apply bwp_modify. cbv beta.
  match goal with |- bwp _ _ _ ?a ?b => assert (HU : BR md a b) end.
  { rewrite <- (BR_col H). destruct (m_col (sc_mark s1) =? 0)%N; [exact H|].
    apply BR_set_mark; [exact H|]. apply mark_step_eol. exact (br_mark H). }
  match goal with |- bwp _ _ _ ?a ?b => generalize dependent a; generalize dependent b end.
  intros u2 u1 HU.
  apply bwp_bind. apply bwp_get. cbv beta.
  rewrite <- (F2_existsb _ (fun k => sk_required k && sk_possible k) (fun k => sk_required k && sk_possible k) _ _ (br_sks HU)).
  2:{ intros k1 k2 HK. rewrite (kr_required HK), (kr_possible HK). reflexivity. }
  destruct (existsb _ (sc_sks u1)); [apply (bwp_fail_mark md); exact HU|].
  apply bwp_bind. apply (bwp_put_br md).
  { apply BR_set_sks; [exact HU|]. apply (F2_map (KR (sc_mark u1) (sc_mark u2))); [exact (br_sks HU)|].
    intros k1 k2 HK. apply KR_kill. exact HK. }
  { reflexivity. }
  intros v1 v2 HV _.
  sk bwp_unroll_indent. sk bwp_remove_simple_key. sk bwp_disallow_simple_key.
  apply bwp_bind. apply (bwp_mark md); [eassumption|]. intros HM.
  apply (bwp_push_tok md); [eassumption|apply TR_empty; exact HM|]. intros; fin.
Qed.

(* ---------------- the entry points of the character-level scanners ---------------- *)
Theorem fetch_directive_ok : brk_fetch_directive md.
Proof.
  intros F1 F2 s1 s2 H N0. unfold fetch_directive.
  sk bwp_unroll_indent. sk bwp_remove_simple_key. sk bwp_disallow_simple_key.
  eapply (bwp_call md); [apply H_dir; eassumption|]. intros a1 a2 u1 u2 HTR HU.
  apply (bwp_push_tok md); [exact HU|exact HTR|]. intros; fin.
Qed.

Theorem fetch_tag_ok : brk_fetch_tag md.
Proof.
  intros F1 F2 s1 s2 H N0. unfold fetch_tag.
  sk bwp_save_simple_key. sk bwp_disallow_simple_key.
  eapply (bwp_call md); [apply H_tag; eassumption|]. intros a1 a2 u1 u2 HTR HU.
  apply (bwp_push_tok md); [exact HU|exact HTR|]. intros; fin.
Qed.

Theorem fetch_anchor_ok : brk_fetch_anchor md.
Proof.
  intros F1 F2 alias s1 s2 H N0. unfold fetch_anchor.
  sk bwp_save_simple_key. sk bwp_disallow_simple_key.
  eapply (bwp_call md); [apply (scan_anchor_ok md); eassumption|]. intros a1 a2 u1 u2 HTR HU.
  apply (bwp_push_tok md); [exact HU|exact HTR|]. intros; fin.
Qed.

Theorem fetch_block_scalar_ok : brk_fetch_block_scalar md.
Proof.
  intros F1 F2 literal s1 s2 H N0. unfold fetch_block_scalar.
  sk bwp_save_simple_key. sk bwp_allow_simple_key.
  eapply (bwp_call md); [apply H_block; eassumption|]. intros a1 a2 u1 u2 HTR HU.
  apply (bwp_push_tok md); [exact HU|exact HTR|]. intros; fin.
Qed.

Theorem fetch_flow_scalar_ok : brk_fetch_flow_scalar md.
Proof.
  intros F1 F2 single s1 s2 H N0. unfold fetch_flow_scalar.
  sk bwp_save_simple_key. sk bwp_disallow_simple_key.
  eapply (bwp_call md); [apply H_flow; eassumption|]. intros a1 a2 u1 u2 HTR HU.
  eapply (bwp_call_al_eq md); [apply (skip_to_next_token_ok md); exact HU|]. intros [] v1 v2 HV _.
  apply bwp_bind. apply (bwp_modify_br md); [apply BR_set_adj_here; exact HV|reflexivity|]. intros w1 w2 HW _.
  apply (bwp_push_tok md); [exact HW|exact HTR|]. intros; fin.
Qed.

Theorem fetch_plain_scalar_ok : brk_fetch_plain_scalar md.
Proof.
  intros F1 F2 s1 s2 H N0. unfold fetch_plain_scalar.
  sk bwp_save_simple_key. sk bwp_disallow_simple_key.
  eapply (bwp_call md); [apply H_plain; eassumption|]. intros a1 a2 u1 u2 HTR HU.
  apply (bwp_push_tok md); [exact HU|exact HTR|]. intros; fin.
Qed.

(* ---------------- flow collections ---------------- *)
Theorem fetch_flow_collection_start_ok : brk_fetch_flow_collection_start md.
Proof.
  intros F1 F2 seq s1 s2 H N0. unfold fetch_flow_collection_start.
  sk bwp_save_simple_key. sk bwp_roll_one_col_indent. sk bwp_increase_flow_level. sk bwp_allow_simple_key.
  apply bwp_bind. apply (bwp_mark md); [eassumption|]. intros HM0.
  apply bwp_bind. apply (bwp_skip_non_blank md); [eassumption|eassumption|]. intros u1 u2 HU _.
  apply bwp_bind. apply (bwp_modify_br md).
  { rewrite <- (BR_ifms HU). apply BR_set_ifms. exact HU. }
  { reflexivity. }
  intros v1 v2 HV _.
  eapply (bwp_call_eq md); [apply (skip_ws_to_eol_ok md); exact HV|]. intros tw w1 w2 HW.
  apply bwp_bind. apply (bwp_mark md); [exact HW|]. intros HM1.
  apply (bwp_push_tok md); [exact HW|apply TR_mk; apply SPR_mk; assumption|]. intros; fin.
Qed.

Lemma bwp_check_flow_closer seq (Q : unit -> bst -> unit -> bst -> Prop) s1 s2 :
  BR md s1 s2 -> Q tt s1 tt s2 -> bwp (check_flow_closer seq) (check_flow_closer seq) Q s1 s2.
Proof.
  intros H HQ. unfold check_flow_closer. apply bwp_bind. apply bwp_get. cbv beta. br_sync H.
  destruct (sc_ifms s1) as [|st r]; [apply bwp_ret; exact HQ|]. cbv zeta.
  destruct (Bool.eqb _ _); [apply bwp_ret; exact HQ|]. apply bwp_fail. exact (br_mark H).
Qed.

Theorem fetch_flow_collection_end_ok : brk_fetch_flow_collection_end md.
Proof.
  intros F1 F2 seq s1 s2 H N0. unfold fetch_flow_collection_end.
  apply bwp_bind. apply bwp_check_flow_closer; [exact H|]. cbv beta.
  sk bwp_remove_simple_key. sk bwp_decrease_flow_level. sk bwp_disallow_simple_key.
  apply bwp_seq.
  { destruct seq.
    - apply bwp_bind. apply (bwp_mark md); [eassumption|]. intros HM.
      apply (bwp_end_implicit_mapping md); [eassumption|exact HM|]. intros; kfin.
    - apply bwp_ret. kfin. }
  intros u1 u2 HU RU. keep. clear RU.
  apply bwp_bind. apply (bwp_modify_br md).
  { rewrite <- (BR_ifms HU). apply BR_set_ifms. exact HU. }
  { reflexivity. }
  intros v1 v2 HV RV. keep. clear RV.
  apply bwp_bind. apply (bwp_mark md); [exact HV|]. intros HM0.
  apply bwp_bind. apply (bwp_skip_non_blank md); [exact HV|eassumption|]. intros w1 w2 HW _.
  eapply (bwp_call_eq md); [apply (skip_ws_to_eol_ok md); exact HW|]. intros tw x1 x2 HX.
  apply bwp_bind. apply bwp_modify. cbv beta.
  match goal with |- bwp _ _ _ ?a ?b => assert (HY : BR md a b) end.
  { rewrite <- (BR_flow_level HX). destruct (0 <? sc_flow_level x1)%N; [apply BR_set_adj_here|]; exact HX. }
  match goal with |- bwp _ _ _ ?a ?b => generalize dependent a; generalize dependent b end.
  intros y2 y1 HY.
  apply bwp_bind. apply (bwp_mark md); [exact HY|]. intros HM1.
  apply (bwp_push_tok md); [exact HY|apply TR_mk; apply SPR_mk; assumption|]. intros; fin.
Qed.

Theorem fetch_flow_entry_ok : brk_fetch_flow_entry md.
Proof.
  intros F1 F2 s1 s2 H N0. unfold fetch_flow_entry.
  sk bwp_remove_simple_key. sk bwp_allow_simple_key.
  apply bwp_bind. apply (bwp_mark md); [eassumption|]. intros HM0.
  apply bwp_bind. apply (bwp_end_implicit_mapping md); [eassumption|exact HM0|]. intros u1 u2 HU RU. keep. clear RU.
  apply bwp_bind. apply (bwp_skip_non_blank md); [exact HU|eassumption|]. intros v1 v2 HV _.
  eapply (bwp_call_eq md); [apply (skip_ws_to_eol_ok md); exact HV|]. intros tw w1 w2 HW.
  apply bwp_bind. apply (bwp_mark md); [exact HW|]. intros HM1.
  apply (bwp_push_tok md); [exact HW|apply TR_mk; apply SPR_mk; assumption|]. intros; fin.
Qed.

(* ---------------- block entry ---------------- *)
Theorem fetch_block_entry_ok : brk_fetch_block_entry md.
Proof.
  intros F1 F2 s1 s2 H N0. unfold fetch_block_entry.
  apply bwp_bind. apply bwp_get. cbv beta zeta. br_sync H.
  br; [apply (bwp_fail_mark md); exact H|].
  br; [apply (bwp_fail_mark md); exact H|].
  apply bwp_bind.
  apply bwp_mono with (Q := fun (_ : unit) (t1 : bst) (_ : unit) (t2 : bst) => t1 = s1 /\ t2 = s2).
  { pose proof (F2_last TR _ _ (span_empty mk0, TStreamEnd) (span_empty mk0, TStreamEnd) (br_tokens H)
                  (TR_empty _ _ _ (MR_refl mk0))) as HL.
    rewrite <- (F2_nil_iff TR _ _ (br_tokens H)).
    revert HL. destruct (last (sc_tokens s1) _) as [sp1 tk1]. destruct (last (sc_tokens s2) _) as [sp2 tk2].
    intros [[HS _] HE]. cbn [fst snd] in HS, HE. subst tk2.
    rewrite <- (proj2 HS).
    destruct tk1; try (apply bwp_ret; split; reflexivity);
      (br; [apply bwp_fail; exact HS|apply bwp_ret; split; reflexivity]). }
  intros [] t1 [] t2 [-> ->].
  apply bwp_bind. apply (bwp_skip_non_blank md); [exact H|exact N0|]. intros u1 u2 HU _.
  apply bwp_bind. apply (bwp_roll_indent md); [exact HU|exact (br_mark H)|]. intros v1 v2 HV _.
  eapply (bwp_call_eq md); [apply (skip_ws_to_eol_ok md); exact HV|]. intros tw w1 w2 HW.
  apply bwp_bind. apply (bwp_look md); [exact HW|]. intros x1 x2 HX _ _ _ _ _.
  (* [c] may be a line feed here: the test on [nc] is guarded by [c = '-'] *)
  apply bwp_bind. apply (bwp_peekn_raw 0). apply bwp_bind. apply (bwp_peekn_raw 1). cbv beta.
  rewrite <- !andb_assoc.
  rewrite (guard1_brk md is_blank_or_breakz 45%N x1 x2 HX eq_refl b1_is_blank_or_breakz).
  br; [apply (bwp_mark_fail md); exact HX|].
  eapply (bwp_call_eq md); [apply (skip_ws_to_eol_ok md); exact HX|]. intros tw' y1 y2 HY.
  apply bwp_bind. apply (bwp_look md); [exact HY|]. intros z1 z2 HZ _ _ _ _ _.
  apply bwp_bind. apply (bwp_peek md); [exact HZ|]. cbv beta. b1_norm.
  eapply (bwp_call_eq md).
  { br; [apply (bwp_roll_one_col_indent md); [exact HZ|]; intros; fin|apply bwp_ret; fin]. }
  intros [] a1 a2 HA.
  sk bwp_remove_simple_key. sk bwp_allow_simple_key.
  apply bwp_bind. apply (bwp_mark md); [eassumption|]. intros HM.
  apply (bwp_push_tok md); [eassumption|apply TR_empty; exact HM|]. intros; fin.
Qed.

(* ---------------- document indicators ---------------- *)
Theorem fetch_document_indicator_ok : brk_fetch_document_indicator md.
Proof.
  intros t s1 s2 H N3. unfold fetch_document_indicator.
  sk bwp_unroll_indent. sk bwp_remove_simple_key. sk bwp_disallow_simple_key.
  apply bwp_bind. apply (bwp_mark md); [eassumption|]. intros HM0.
  apply bwp_bind. apply (bwp_skip_n_non_blank md); [eassumption|eassumption|]. intros u1 u2 HU _.
  apply bwp_bind. apply (bwp_mark md); [exact HU|]. intros HM1.
  apply (bwp_push_tok md); [exact HU|apply TR_mk; apply SPR_mk; assumption|]. intros; fin.
Qed.

(* ---------------- key / value ---------------- *)
Theorem fetch_key_ok : brk_fetch_key md.
Proof.
  intros F1 F2 s1 s2 H N0. unfold fetch_key.
  apply bwp_bind. apply bwp_get. cbv beta zeta. br_sync H.
  apply bwp_seq.
  { br.
    - br; [apply (bwp_fail_mark md); exact H|].
      apply (bwp_roll_indent md); [exact H|exact (br_mark H)|]. intros; kfin.
    - apply bwp_modify. rewrite <- (BR_ifms H).
      destruct (sc_ifms s1) as [|[| | |] r]; (split; [first [exact H|apply BR_set_ifms; exact H]|reflexivity]). }
  intros u1 u2 HU RU. keep. clear RU.
  sk bwp_remove_simple_key.
  apply bwp_seq.
  { br; [apply (bwp_allow_simple_key md)|apply (bwp_disallow_simple_key md)]; try eassumption; intros; kfin. }
  intros v1 v2 HV RV. keep. clear RV.
  apply bwp_bind. apply (bwp_skip_non_blank md); [exact HV|eassumption|]. intros w1 w2 HW _.
  eapply (bwp_call_al_eq md); [apply (skip_yaml_whitespace_ok md); exact HW|]. intros [] x1 x2 HX _.
  apply bwp_bind. apply (bwp_peek md); [exact HX|]. cbv beta. b1_norm.
  br; [apply (bwp_mark_fail md); exact HX|].
  apply bwp_bind. apply (bwp_mark md); [exact HX|]. intros HM.
  apply (bwp_push_tok md); [exact HX|apply TR_mk; apply SPR_mk; [exact (br_mark H)|exact HM]|]. intros; fin.
Qed.

(* the 1024-character test on the implicit key of a flow-sequence pair (fetch_value): a possible key that is not on an
   earlier line is on the current line and has the current index shift, so the distance is the same on both sides *)
Lemma key_far_brk c1 c2 k1 k2 : KR c1 c2 k1 k2 -> sk_possible k1 = true ->
  ((m_line (sk_mark k1) <? m_line c1)%N || (m_index (sk_mark k1) + SIMPLE_KEY_MAX <? m_index c1)%N)
  = ((m_line (sk_mark k1) <? m_line c1)%N || (m_index (sk_mark k2) + SIMPLE_KEY_MAX <? m_index c2)%N).
Proof.
  intros HK EP. destruct (m_line (sk_mark k1) <? m_line c1)%N eqn:EL; [reflexivity|]. cbn [orb].
  apply N.ltb_ge in EL. pose proof (kr_line HK EP) as L1.
  assert (E : m_line (sk_mark k1) = m_line c1) by lia. pose proof (kr_shift HK EP E) as S.
  destruct (N.ltb_spec (m_index (sk_mark k1) + SIMPLE_KEY_MAX) (m_index c1));
  destruct (N.ltb_spec (m_index (sk_mark k2) + SIMPLE_KEY_MAX) (m_index c2)); try reflexivity; lia.
Qed.

Theorem fetch_value_ok : brk_fetch_value md.
Proof.
  intros F1 F2 s1 s2 H N0. unfold fetch_value.
  apply bwp_bind. apply bwp_get. cbv beta.
  pose proof (br_sks H) as HK. destruct HK as [|k1 k2 r1 r2 HK HR]; [exact I|].
  apply bwp_bind. apply bwp_ret. cbv beta zeta. br_sync H.
  match goal with |- context [if ?b then modify _ else ret tt] => remember b as is_ifm eqn:Eifm; clear Eifm end.
  apply bwp_seq.
  { br; [|apply bwp_ret; kfin]. apply bwp_modify. split; [|reflexivity].
    rewrite <- (BR_ifms H). apply BR_set_ifms. exact H. }
  intros u1 u2 HU RU. keep. clear RU.
  apply bwp_bind. apply (bwp_skip_non_blank md); [exact HU|eassumption|]. intros v1 v2 HV _.
  apply bwp_bind.
  apply bwp_mono with (Q := fun (c1 : chr) (t1 : bst) (c2 : chr) (t2 : bst) => BR md t1 t2 /\ (c2 =? 9)%N = (c1 =? 9)%N).
  { br; [|apply bwp_ret; split; [exact HV|reflexivity]].
    apply (bwp_look_ch md); [exact HV|]. intros w1 w2 HW _ _ _ _. cbv beta. b1_norm. split; [exact HW|reflexivity]. }
  intros c1 w1 c2 w2 [HW Ec]. cbv beta. rewrite Ec. clear Ec.
  eapply (bwp_call_eq md).
  { br; [|apply bwp_ret; fin].
    eapply (bwp_call_eq md); [apply (skip_ws_to_eol_ok md); exact HW|]. intros tw x1 x2 HX.
    br; [|apply bwp_ret; fin].
    apply bwp_bind. apply (bwp_peek md); [exact HX|]. cbv beta. b1_norm.
    br; [apply (bwp_mark_fail md); exact HX|apply bwp_ret; fin]. }
  intros [] x1 x2 HX.
  rewrite <- (kr_possible HK), <- (kr_number HK), <- (proj1 (kr_mark HK)), <- (proj2 (kr_mark HK)).
  destruct (sk_possible k1) eqn:EP.
  - (* the pending simple key becomes a KEY token *)
    apply bwp_bind. apply bwp_get. cbv beta. br_sync HX.
    apply bwp_bind. br; [apply bwp_panic_l|]. apply bwp_ret.
    apply bwp_bind. apply (bwp_insert_token md); [exact HX|apply TR_empty; exact (kr_mark HK)|]. intros y1 y2 HY _.
    eapply (bwp_call_eq md).
    { br; [|apply bwp_ret; fin].
      match goal with |- bwp (if ?b1 then _ else _) (if ?b2 then _ else _) _ _ _ =>
        replace b2 with b1 by (apply (key_far_brk _ _ _ _ HK EP)) end.
      br; [apply bwp_fail; exact (br_mark H)|]. br; [|apply bwp_ret; fin].
      apply (bwp_insert_token md); [exact HY|apply TR_empty; exact (kr_mark HK)|]. intros; fin. }
    intros [] z1 z2 HZ.
    apply bwp_bind. apply (bwp_roll_indent md); [exact HZ|exact (kr_mark HK)|]. intros a1 a2 HA _.
    sk bwp_roll_one_col_indent.
    apply bwp_bind. apply bwp_modify. cbv beta.
    match goal with |- bwp _ _ _ ?a ?b => assert (HB : BR md a b) end.
    { match goal with HH : BR md ?a ?b |- BR md (match sc_sks ?a with _ => _ end) _ =>
        pose proof (br_sks HH) as HS; destruct HS as [|q1 q2 l1 l2 HQ HL];
          [exact HH|apply BR_set_sks; [exact HH|constructor; [apply KR_kill; exact HQ|exact HL]]] end. }
    match goal with |- bwp _ _ _ ?a ?b => generalize dependent a; generalize dependent b end.
    intros b2 b1' HB.
    sk bwp_disallow_simple_key.
    apply (bwp_push_tok md); [eassumption|apply TR_empty; exact (br_mark H)|]. intros; fin.
  - (* no simple key: an empty key *)
    eapply (bwp_call_eq md).
    { br; [|apply bwp_ret; fin]. apply (bwp_push_tok md); [exact HX|apply TR_empty; exact (br_mark H)|]. intros; fin. }
    intros [] y1 y2 HY.
    apply bwp_bind. apply bwp_get. cbv beta. br_sync HY.
    eapply (bwp_call_eq md).
    { br; [|apply bwp_ret; fin]. br; [apply bwp_fail; exact (br_mark H)|].
      apply (bwp_roll_indent md); [exact HY|exact (br_mark H)|]. intros; fin. }
    intros [] z1 z2 HZ.
    sk bwp_roll_one_col_indent.
    eapply (bwp_call_eq md).
    { br; [apply (bwp_allow_simple_key md)|apply (bwp_disallow_simple_key md)]; try eassumption; intros; fin. }
    intros [] a1 a2 HA.
    apply (bwp_push_tok md); [exact HA|apply TR_empty; exact (br_mark H)|]. intros; fin.
Qed.

Theorem fetch_flow_value_ok : brk_fetch_flow_value md.
Proof.
  intros F1 F2 s1 s2 H N0. unfold fetch_flow_value.
  apply bwp_bind. apply (bwp_peekn md 1); [exact H|apply noLF_1; exact N0|].
  apply bwp_bind. apply bwp_get. cbv beta. b1_norm. rewrite (BR_adj_eqb H).
  br; [apply (bwp_fail_mark md); exact H|]. apply fetch_value_ok; assumption.
Qed.

(* ---------------- the dispatcher ---------------- *)
Ltac q4 := split; [reflexivity|split; [reflexivity|split; [reflexivity|intros E; first [discriminate E|exact E]]]].

Theorem fetch_next_token_ok : brk_fetch_next_token md.
Proof.
  intros F1 F2 s1 s2 H. unfold fetch_next_token.
  apply bwp_bind. apply (bwp_look md); [exact H|]. intros u1 u2 HU _ _ _ _ _.
  apply bwp_bind. apply bwp_get. cbv beta. br_sync HU.
  br; [apply fetch_stream_start_ok; exact HU|].
  (* skip_to_next_token stops at a character that is not a line feed *)
  eapply (bwp_call_al_eq md); [apply (skip_to_next_token_ok md); exact HU|]. intros [] v1 v2 HV NV.
  sk bwp_stale_simple_keys.
  apply bwp_bind. apply (bwp_mark md); [eassumption|]. intros HM. cbv beta.
  match goal with HH : BR md ?a ?b |- context [m_col (sc_mark ?b)] => rewrite <- (BR_col HH) end.
  sk bwp_unroll_indent.
  apply bwp_bind. apply (bwp_look md); [eassumption|]. intros w1 w2 HW RW _ _ _ _. keep. clear RW.
  apply bwp_bind. apply (bwp_next_is md); [exact HW|exact b1_is_z|].
  br; [apply fetch_stream_end_ok; exact HW|].
  apply bwp_bind. apply bwp_get. cbv beta. br_sync HW.
  apply bwp_bind. apply (bwp_peek md); [exact HW|]. cbv beta. b1_norm.
  (* document markers at column 0: found on one side iff found on the other, whatever the alignment *)
  apply bwp_bind.
  apply bwp_mono with (Q := fun (a1 : bool) (t1 : bst) (a2 : bool) (t2 : bst) =>
     a1 = a2 /\ t1 = w1 /\ t2 = w2 /\ (a1 = true -> docstart_val w1 = true)).
  { br; [|apply bwp_ret; q4]. br; [apply bwp_ret; q4|].
    apply (bwp_next_is_document_start md); [exact HW|]. q4. }
  intros dstart ? ? ? (<- & -> & -> & HDS).
  apply bwp_bind.
  apply bwp_mono with (Q := fun (a1 : bool) (t1 : bst) (a2 : bool) (t2 : bst) =>
     a1 = a2 /\ t1 = w1 /\ t2 = w2 /\ (a1 = true -> docend_val w1 = true)).
  { br; [|apply bwp_ret; q4]. apply (bwp_next_is_document_end md); [exact HW|]. q4. }
  intros dend ? ? ? (<- & -> & -> & HDE).
  br; [apply fetch_directive_ok; assumption|].
  br; [apply fetch_document_indicator_ok; [exact HW|apply docstart_noLF; apply HDS; reflexivity]|].
  br.
  { eapply (bwp_call_eq md);
      [apply fetch_document_indicator_ok; [exact HW|apply docend_noLF; apply HDE; reflexivity]|].
    intros [] z1 z2 HZ.
    eapply (bwp_call_eq md); [apply (skip_ws_to_eol_ok md); exact HZ|]. intros tw a1 a2 HA.
    apply bwp_bind. apply (bwp_next_is md); [exact HA|exact b1_is_breakz|].
    br; [apply bwp_ret; fin|apply (bwp_mark_fail md); exact HA]. }
  br; [apply (bwp_fail_mark md); exact HW|].
  (* the character dispatch: the first character is not a line feed, so the second is aligned too *)
  apply bwp_bind. apply (bwp_peek md); [exact HW|].
  apply bwp_bind. apply (bwp_peekn md 1); [exact HW|apply noLF_1; assumption|]. cbv beta zeta. b1_norm.
  rewrite (BR_adj_eqb HW).
  br; [apply fetch_flow_collection_start_ok; assumption|].
  br; [apply fetch_flow_collection_start_ok; assumption|].
  br; [apply fetch_flow_collection_end_ok; assumption|].
  br; [apply fetch_flow_collection_end_ok; assumption|].
  br; [apply fetch_flow_entry_ok; assumption|].
  br; [apply fetch_block_entry_ok; assumption|].
  br; [apply fetch_key_ok; assumption|].
  br; [apply fetch_value_ok; assumption|].
  br; [apply fetch_flow_value_ok; assumption|].
  br; [apply fetch_anchor_ok; assumption|].
  br; [apply fetch_anchor_ok; assumption|].
  br; [apply fetch_tag_ok; assumption|].
  br; [apply fetch_block_scalar_ok; assumption|].
  br; [apply fetch_block_scalar_ok; assumption|].
  br; [apply fetch_flow_scalar_ok; assumption|].
  br; [apply fetch_flow_scalar_ok; assumption|].
  br; [apply fetch_plain_scalar_ok; assumption|].
  br; [apply fetch_plain_scalar_ok; assumption|].
  br; [apply (bwp_fail_mark md); exact HW|].
  apply fetch_plain_scalar_ok; assumption.
Qed.

(* ---------------- fetch_more_tokens / next_token / scan_all ---------------- *)
Theorem fetch_more_tokens_ok : brk_fetch_more_tokens md.
Proof.
  intros F1 F2 n1. induction n1 as [|n1 IH]; intros n2 s1 s2 H; [exact I|].
  destruct n2 as [|n2]; [apply bwp_oof_r|]. cbn [fetch_more_tokens].
  apply bwp_bind. apply bwp_get. cbv beta.
  eapply (bwp_call_eq md).
  { pose proof (br_tokens H) as HT. destruct HT as [|a b l1 l2 _ _]; [apply bwp_ret; fin|].
    sk bwp_stale_simple_keys. apply bwp_bind. apply bwp_get. cbv beta. apply bwp_ret. split; [|assumption].
    match goal with HH : BR md ?a ?b |- _ = existsb _ (sc_sks ?b) =>
      rewrite <- (BR_tokens_parsed HH); apply (F2_existsb _ _ _ _ _ (br_sks HH)) end.
    intros k1 k2 HK. rewrite (kr_possible HK), (kr_number HK). reflexivity. }
  intros need u1 u2 HU. destruct need.
  - eapply (bwp_call_eq md); [apply fetch_next_token_ok; exact HU|]. intros [] v1 v2 HV. apply IH. exact HV.
  - apply bwp_modify. split; [reflexivity|]. apply BR_set_ta. exact HU.
Qed.

Theorem next_token_ok : brk_next_token md.
Proof.
  intros F1 F2 s1 s2 H. unfold next_token.
  apply bwp_bind. apply bwp_get. cbv beta. br_sync H.
  br; [apply bwp_ret; split; [exact I|exact H]|].
  eapply (bwp_call_eq md).
  { br; [apply bwp_ret; fin|apply fetch_more_tokens_ok; exact H]. }
  intros [] u1 u2 HU.
  apply bwp_bind. apply bwp_get. cbv beta. br_sync HU.
  pose proof (br_tokens HU) as HT. destruct HT as [|a b l1 l2 HAB HL]; [apply (bwp_fail_mark md); exact HU|].
  apply bwp_bind. apply (bwp_put_br md).
  { apply BR_set_tp. apply BR_set_ta. apply BR_set_tokens; [exact HU|exact HL]. }
  { reflexivity. }
  intros v1 v2 HV _.
  rewrite <- (proj2 HAB).
  eapply (bwp_call_eq md).
  { destruct (snd a); try (apply bwp_ret; fin). apply bwp_modify. split; [reflexivity|]. apply BR_set_se. exact HV. }
  intros [] w1 w2 HW. apply bwp_ret. split; [exact HAB|exact HW].
Qed.

Theorem scan_all_ok : brk_scan_all md.
Proof.
  intros F1 F2 n1. induction n1 as [|n1 IH]; intros n2 s1 s2 acc1 acc2 H HA.
  { cbn [scan_all snd fst]. split; [apply ER_fuel_l|intros []]. }
  destruct n2 as [|n2].
  { cbn [scan_all snd fst]. split; [apply ER_fuel_r|intros _ []]. }
  pose proof (bwp_elim _ _ _ _ _ (next_token_ok F1 F2 s1 s2 H)) as HN.
  cbn [scan_all].
  destruct (next_token sops F1 s1) as [[o1 t1]|e1 k1|p1|].
  - destruct (next_token sops F2 s2) as [[o2 t2]|e2 k2|p2|].
    + destruct HN as [HO HT]. destruct o1 as [a1|], o2 as [a2|].
      * apply IH; [exact HT|]. constructor; [exact HO|exact HA].
      * destruct HO.
      * destruct HO.
      * cbn [snd fst]. split; [exact I|]. intros _ _. apply F2_rev. exact HA.
    + destruct HN.
    + destruct o1 as [a1|]; cbn [snd fst]; (split; [apply ER_panic_r|intros _ []]).
    + destruct o1 as [a1|]; cbn [snd fst]; (split; [apply ER_fuel_r|intros _ []]).
  - destruct (next_token sops F2 s2) as [[o2 t2]|e2 k2|p2|].
    + destruct HN.
    + cbn [snd fst]. split; [exact HN|]. intros _ _. apply F2_rev. exact HA.
    + cbn [snd fst]. split; [apply ER_panic_r|intros _ []].
    + cbn [snd fst]. split; [apply ER_fuel_r|intros _ []].
  - cbn [snd fst]. split; [apply ER_panic_l|intros []].
  - cbn [snd fst]. split; [apply ER_fuel_l|intros []].
Qed.

Theorem target_ok : brk_target md.
Proof. apply brk_target_of_scan_all. exact scan_all_ok. Qed.

End BrkFetch.

Print Assumptions fetch_stream_start_ok.
Print Assumptions fetch_stream_end_ok.
Print Assumptions fetch_directive_ok.
Print Assumptions fetch_tag_ok.
Print Assumptions fetch_anchor_ok.
Print Assumptions fetch_flow_collection_start_ok.
Print Assumptions fetch_flow_collection_end_ok.
Print Assumptions fetch_flow_entry_ok.
Print Assumptions fetch_block_entry_ok.
Print Assumptions fetch_document_indicator_ok.
Print Assumptions fetch_block_scalar_ok.
Print Assumptions fetch_flow_scalar_ok.
Print Assumptions fetch_plain_scalar_ok.
Print Assumptions fetch_key_ok.
Print Assumptions fetch_value_ok.
Print Assumptions fetch_flow_value_ok.
Print Assumptions fetch_next_token_ok.
Print Assumptions fetch_more_tokens_ok.
Print Assumptions next_token_ok.
Print Assumptions scan_all_ok.
Print Assumptions target_ok.
