(* C09 — the scanner model on the text the emitter writes for a simple tree: the document header line "---", then a
   document of the block text sub-language (Spec/BlockText.v) WITHOUT its final line feed.  Extends the induction of
   Proofs/ScanBlockProofs.v: everything in front of the last word of the text is scanned by the lemmas proved there (their
   continuation is any line); the last word stands in front of the end of the input, its simple key is still possible when
   the end is reached, so its token is handed out together with the BlockEnd tokens and StreamEnd. *)
From Coq Require Import List NArith ZArith Bool Arith Lia.
Import ListNotations.
Require Import Parser SBase SPrim SDir SScalar SFetch Pipe Drivers TokenGrammar FlowText BlockText ScanFlowProofs ScanBlockProofs EmitterRoundTripDefs.
Open Scope N_scope.
Open Scope mon_scope.

#[local] Arguments N.add : simpl never.
#[local] Arguments N.sub : simpl never.
#[local] Arguments N.mul : simpl never.
#[local] Arguments N.ltb : simpl nomatch.
#[local] Arguments N.leb : simpl nomatch.
#[local] Arguments Z.of_N : simpl never.
#[local] Arguments Z.ltb : simpl never.
#[local] Arguments Z.leb : simpl never.
#[local] Arguments Z.eqb : simpl never.
#[local] Arguments Z.add : simpl never.
#[local] Arguments bind {I A B} m f s /.
#[local] Arguments ret {I A} a s /.
#[local] Arguments get {I} s /.
#[local] Arguments put {I} s _ /.
#[local] Arguments modify {I} f s /.
#[local] Arguments gets {I A} f s /.
#[local] Arguments fail {I A} site m _ /.
#[local] Arguments upd {I} s i m t /.
#[local] Arguments set_in {I} i s /.
#[local] Arguments set_mark {I} m s /.
#[local] Arguments set_tokens {I} t s /.
#[local] Arguments set_flags {I} s ss se adj ska ta lws /.
#[local] Arguments set_ska {I} b s /.
#[local] Arguments set_lws {I} b s /.
#[local] Arguments set_adj {I} n s /.
#[local] Arguments set_ta {I} b s /.
#[local] Arguments set_ss {I} b s /.
#[local] Arguments set_se {I} b s /.
#[local] Arguments set_struct {I} s sks ind inds fl tp ifms /.
#[local] Arguments set_sks {I} l s /.
#[local] Arguments set_indent {I} z l s /.
#[local] Arguments set_fl {I} n s /.
#[local] Arguments set_tp {I} n s /.
#[local] Arguments set_ifms {I} l s /.
#[local] Arguments skip_to_next_token : simpl never.
#[local] Arguments stale_simple_keys : simpl never.
#[local] Arguments plain_chunk : simpl never.
#[local] Arguments plain_blanks : simpl never.
#[local] Arguments scan_plain_scalar : simpl never.
#[local] Arguments fetch_stream_start : simpl never.
#[local] Arguments fetch_stream_end : simpl never.
#[local] Arguments fetch_directive : simpl never.
#[local] Arguments fetch_document_indicator : simpl never.
#[local] Arguments fetch_flow_collection_start : simpl never.
#[local] Arguments fetch_flow_collection_end : simpl never.
#[local] Arguments fetch_flow_entry : simpl never.
#[local] Arguments fetch_block_entry : simpl never.
#[local] Arguments fetch_key : simpl never.
#[local] Arguments fetch_value : simpl never.
#[local] Arguments fetch_flow_value : simpl never.
#[local] Arguments fetch_anchor : simpl never.
#[local] Arguments fetch_tag : simpl never.
#[local] Arguments fetch_block_scalar : simpl never.
#[local] Arguments fetch_flow_scalar : simpl never.
#[local] Arguments fetch_plain_scalar : simpl never.
#[local] Arguments fetch_next_token : simpl never.
#[local] Arguments fetch_more_tokens : simpl never.
#[local] Arguments next_token : simpl never.
#[local] Arguments scan_all : simpl never.
#[local] Arguments fnt_rest : simpl never.
#[local] Arguments skip_ws_to_eol : simpl never.
#[local] Arguments insert_token : simpl never.
#[local] Arguments need_comp : simpl never.
#[local] Arguments unroll_indent : simpl never.
#[local] Arguments roll_indent : simpl never.
#[local] Arguments roll_one_col_indent : simpl never.
#[local] Arguments unroll_non_block_indents : simpl never.
Ltac fin := unfold mkb, mkm; repeat (f_equal; try lia).
Ltac nm := unfold adv, nlm; cbn [m_index m_line m_col].
Tactic Notation "erw_b" uconstr(E) :=
  let H := fresh "E" in epose proof E as H; unfold mkb, mkm, be_tok, key_tok, newkey, lvl, nbl, staled, unposs in H; unfold unposs; erewrite H; clear H.
Ltac rw_b E := let H := fresh "E" in pose proof E as H; unfold mkb, mkm, be_tok, key_tok, newkey, lvl, nbl, staled, unposs in H; unfold unposs; rewrite H; clear H.

#[local] Arguments save_simple_key : simpl never.

(* ---------- a word in front of the end of the input ---------- *)
Lemma chunk_word_eof w : forall fuel j acc l i ln c0 q adj ska k ind inds tp ta,
  forallb wch w = true -> (2 * length w + 2 <= fuel)%nat ->
  exists l', plain_chunk str_ops fuel j acc (mkb w l (mkm i ln c0) q adj ska k ind inds tp ta false)
  = Ok (rev w ++ acc, mkb [] l' (mkm (i + N.of_nat (length w)) ln (c0 + N.of_nat (length w))) q adj ska k ind inds tp ta false).
Proof.
  induction w as [|c w IH]; intros fuel j acc l i ln c0 q adj ska k ind inds tp ta Hw Hf.
  - assert (Hstop : forall fuel' j' l', (Nat.leb 127 j' = false) ->
              plain_chunk str_ops (S fuel') j' acc (mkb [] l' (mkm i ln c0) q adj ska k ind inds tp ta false)
              = Ok (acc, mkb [] l' (mkm i ln c0) q adj ska k ind inds tp ta false)).
    { intros fuel' j' l' Hj. rewrite plain_chunk_S. cbn [bufmaxlen str_ops Nat.sub]. rewrite Hj. unfold mkb. cbn. reflexivity. }
    cbn [app length rev N.of_nat]. rewrite !N.add_0_r.
    destruct fuel as [|[|fuel]]; [cbn in Hf; lia|cbn in Hf; lia|].
    destruct (Nat.leb 127 j) eqn:Hj.
    + rewrite plain_chunk_S. cbn [bufmaxlen str_ops Nat.sub]. rewrite Hj. unfold mkb at 1. unfold mkm. cbn.
      eexists. apply (Hstop fuel 0%nat (Nat.max l 128) eq_refl).
    + eexists. apply Hstop. exact Hj.
  - cbn [forallb] in Hw. apply andb_prop in Hw as [Hc Hw].
    destruct (wch_facts c Hc) as (Hb & Hfw & H58 & _).
    assert (Hstep : forall fuel' j' l', (Nat.leb 127 j' = false) ->
              plain_chunk str_ops (S fuel') j' acc (mkb (c :: w) l' (mkm i ln c0) q adj ska k ind inds tp ta false)
              = plain_chunk str_ops fuel' (S j') (c :: acc) (mkb w l' (mkm (i + 1) ln (c0 + 1)) q adj ska k ind inds tp ta false)).
    { intros fuel' j' l' Hj. rewrite plain_chunk_S. cbn [bufmaxlen str_ops Nat.sub]. rewrite Hj. unfold mkb, mkm.
      cbn. rewrite Hb. cbn. rewrite H58. cbn. reflexivity. }
    cbn [length] in Hf.
    assert (Hgoal : forall l1 fuel1 j1, (2 * length w + 2 <= fuel1)%nat ->
              exists l', plain_chunk str_ops fuel1 j1 (c :: acc) (mkb w l1 (mkm (i + 1) ln (c0 + 1)) q adj ska k ind inds tp ta false) =
              Ok (rev (c :: w) ++ acc, mkb [] l' (mkm (i + N.of_nat (length (c :: w))) ln (c0 + N.of_nat (length (c :: w)))) q adj ska k ind inds tp ta false)).
    { intros l1 fuel1 j1 Hf1'. destruct (IH fuel1 j1 (c :: acc) l1 (i + 1) ln (c0 + 1) q adj ska k ind inds tp ta Hw Hf1') as (l' & E).
      exists l'. rewrite E. cbn [rev length]. rewrite <- app_assoc. cbn [app].
      replace (i + 1 + N.of_nat (length w)) with (i + N.of_nat (S (length w))) by lia.
      replace (c0 + 1 + N.of_nat (length w)) with (c0 + N.of_nat (S (length w))) by lia. reflexivity. }
    destruct fuel as [|[|fuel]]; [lia|lia|].
    destruct (Nat.leb 127 j) eqn:Hj.
    + rewrite plain_chunk_S. cbn [bufmaxlen str_ops Nat.sub]. rewrite Hj. unfold mkb at 1. unfold mkm. cbn.
      rw_b (Hstep fuel 0%nat (Nat.max l 128) eq_refl). apply Hgoal. lia.
    + rewrite (Hstep (S fuel) j l Hj). apply Hgoal. lia.
Qed.

Lemma scan_word_eof F c w l i ln c0 q adj ska k ind inds ind1 inds1 tp ta lws :
  forallb wch (c :: w) = true -> (lws && (c0 =? 0)) = false -> unroll_nb inds ind = (ind1, inds1) ->
  (2 * length w + 3 <= F)%nat ->
  exists l',
  scan_plain_scalar str_ops F (mkb (c :: w) l (mkm i ln c0) q adj ska k ind inds tp ta lws)
  = Ok ((spn (mkm i ln c0) (mkm (i + wlen c w) ln (c0 + wlen c w)), TScalar Plain (c :: w)),
        mkb [] l' (mkm (i + wlen c w) ln (c0 + wlen c w)) q adj ska k ind1 inds1 tp ta false).
Proof.
  intros Hw Hdi Hnb HF.
  cbn [forallb] in Hw. apply andb_prop in Hw as [Hc Hw].
  destruct (wch_facts c Hc) as (Hb & Hfw & H58 & H35 & H45 & _).
  destruct F as [|F]; [lia|].
  destruct (chunk_word_eof w (S F) 0%nat [c] (Nat.max (Nat.max l 4) 128) (i + 1) ln (c0 + 1) q adj ska k ind1 inds1 tp ta
              Hw ltac:(lia)) as (l' & Ech).
  exists l'. destruct (rev_word_ne c w) as (a & t & Ea).
  unfold scan_plain_scalar, unroll_non_block_indents. unfold mkb at 1. unfold mkm. cbn. rewrite Hnb. cbn.
  rewrite Hdi. cbn. rewrite H35. cbn. rewrite Hb. cbn. rewrite H58. cbn.
  destruct lws; cbn; nm; unfold chr in *; rw_b Ech; cbn; rewrite Ea; cbn;
    change (rev t ++ [a]) with (rev (a :: t)); rewrite <- Ea, rev_app_distr, rev_involutive; cbn [rev app];
    unfold spn, wlen, mkb, mkm; cbn [length]; repeat (f_equal; try lia).
Qed.

Lemma word_step_eof F c w l i ln c0 q adj ska k ind inds ind1 inds1 tp ta lws :
  forallb wch (c :: w) = true -> (lws && (c0 =? 0)) = false -> unroll_nb inds ind = (ind1, inds1) ->
  ((ind =? Z.of_N c0)%Z = true -> inds <> []) ->
  (2 * length w + 3 <= F)%nat ->
  exists l',
  fetch_plain_scalar str_ops F (mkb (c :: w) l (mkm i ln c0) q adj ska k ind inds tp ta lws)
  = Ok (tt, mkb [] l' (mkm (i + wlen c w) ln (c0 + wlen c w))
              (q ++ [(spn (mkm i ln c0) (mkm (i + wlen c w) ln (c0 + wlen c w)), TScalar Plain (c :: w))]) adj false
              (saved ska k ind inds tp q (mkm i ln c0)) ind1 inds1 tp ta false).
Proof.
  intros Hw Hdi Hnb Hreq HF.
  destruct (scan_word_eof F c w l i ln c0 q adj false (saved ska k ind inds tp q (mkm i ln c0)) ind inds ind1 inds1 tp ta lws
              Hw Hdi Hnb HF) as (l' & E).
  exists l'. unfold fetch_plain_scalar. cbn [bind].
  rewrite (save_key_b _ l (mkm i ln c0) q adj ska k ind inds tp ta lws Hreq). unfold disallow_simple_key. unfold mkb at 1. unfold mkm. cbn.
  rw_b E. cbn. reflexivity.
Qed.

(* ---------- the end of the input behind a word (not at column 0) ---------- *)
Lemma stream_end_col l i ln c q adj ska k ind inds tp ta lws n ind' inds' :
  (c =? 0) = false -> (sk_required k && sk_possible k) = false ->
  unroll_pure (S (length inds)) (-1)%Z ind inds = Some (n, ind', inds') ->
  fetch_stream_end (mkb [] l (mkm i ln c) q adj ska k ind inds tp ta lws)
  = Ok (tt, mkb [] l (mkm i (ln + 1) 0) ((q ++ repeat (be_tok (mkm i (ln + 1) 0)) n) ++ [se_tok (mkm i (ln + 1) 0)]) adj false (unposs k) ind' inds' tp ta lws).
Proof.
  intros Hc Hk Hun. unfold fetch_stream_end. unfold mkb at 1. unfold mkm. cbn. rewrite Hc. cbn. rewrite Hk. cbn.
  rw_b (unroll_b (-1)%Z [] l (mkm i (ln + 1) 0) q adj ska (unposs k) ind inds tp ta lws n ind' inds' Hun). cbn.
  unfold remove_simple_key. cbn. reflexivity.
Qed.


Lemma rp_stale (K : SBase.simple_key) m : (sk_required K && sk_possible K) = false -> (stale_k K m && sk_required K) = false.
Proof. unfold stale_k. destruct (sk_required K), (sk_possible K); cbn; intros H; try reflexivity; try discriminate. apply andb_false_r. Qed.
Lemma rp_staled (K : SBase.simple_key) m : (sk_required K && sk_possible K) = false ->
  (sk_required (staled K m) && sk_possible (staled K m)) = false.
Proof. intros H. unfold staled. destruct (stale_k K m); [cbn; apply andb_false_r|exact H]. Qed.

(* the state behind the last word: at the end of the input, not at column 0, [q] queued, the block collections [cols] open *)
Definition endst (l : nat) (i ln c : N) (q : list token) (adj : N) (K : SBase.simple_key) (cols : list N) (tp : N) : sc strin :=
  mkb [] l (mkm i ln c) q adj false K (fst (stk cols)) (snd (stk cols)) tp false false.

Lemma fetch_end F l i ln c q adj K cols tp :
  (1 <= F)%nat -> (c =? 0) = false -> (fst (stk cols) <= Z.of_N c)%Z -> (sk_required K && sk_possible K) = false ->
  exists l', fetch_next_token str_ops F (endst l i ln c q adj K cols tp)
   = Ok (tt, mkb [] l' (mkm i (ln + 1) 0)
               ((q ++ repeat (be_tok (mkm i (ln + 1) 0)) (length cols)) ++ [se_tok (mkm i (ln + 1) 0)]) adj false
               (unposs (staled K (mkm i ln c))) (-1)%Z [] tp false false).
Proof.
  intros HF Hc Hind Hreq. unfold endst. eexists.
  erewrite fnt_b; [ | apply skip_eof; exact HF | apply rp_stale, Hreq | cbn [m_col mkm]; apply unroll_keep; exact Hind ].
  cbn [repeat]. rewrite app_nil_r, tail_eof.
  apply stream_end_col; [exact Hc | apply rp_staled, Hreq |].
  pose proof (unroll_stk cols [] (-1)%Z (S (length (snd (stk cols))))) as U. rewrite app_nil_r in U. apply U; [|cbn; lia|rewrite stk_len; lia].
  apply Forall_forall. intros e _. lia.
Qed.

(* after [nb] fetches the queue holds the tokens [ts] and StreamEnd and no key is possible: they are handed out, the scanner ends *)
Lemma finish F (s : sc strin) nb l m ts adj k tp lws :
  (nb + 1 <= F)%nat -> sc_stream_end s = false ->
  (forall b, ntb F (nb + b) s = ntb F b (mkb [] l m (ts ++ [se_tok m]) adj false k (-1)%Z [] tp false lws)) ->
  sk_possible k = false -> no_se ts ->
  forall fuel acc, (S (length ts) < fuel)%nat -> scan_all str_ops F fuel s acc = (rev acc ++ ts ++ [se_tok m], SEnded).
Proof.
  intros HF Hse Hnb Hk Hts fuel acc Hfuel.
  assert (Hnt : forall r, ntb F 1 (mkb [] l m (ts ++ [se_tok m]) adj false k (-1)%Z [] tp false lws) = Ok r ->
                          next_token str_ops F s = Ok r).
  { intros r Hr. apply (nt_of_ntb F (nb + 1)); [exact Hse | exact HF |]. rewrite Hnb. exact Hr. }
  destruct ts as [|t ts'].
  - destruct fuel as [|[|fuel]]; [cbn in Hfuel; lia | cbn in Hfuel; lia |]. cbn [app].
    rewrite scan_all_S.
    rewrite (Hnt (Some (se_tok m), set_se true (mkb [] l m [] adj false k (-1)%Z [] (tp + 1) false lws))).
    + rewrite scan_all_S. unfold next_token. cbn. reflexivity.
    + cbn [app]. erewrite ntb_pop; [| reflexivity | apply need_none; exact Hk]. reflexivity.
  - inversion Hts as [|? ? Ht Hts']; subst.
    assert (E1 : next_token str_ops F s = Ok (Some t, mkb [] l m (ts' ++ [se_tok m]) adj false k (-1)%Z [] (tp + 1) false lws)).
    { apply Hnt. cbn [app]. rewrite ntb_pop_b; [ | exact Ht | rewrite (stale_k_not_possible _ _ Hk); reflexivity
                                                  | unfold staled; rewrite (stale_k_not_possible _ _ Hk), Hk; reflexivity ].
      unfold staled. rewrite (stale_k_not_possible _ _ Hk). reflexivity. }
    pose proof (drain_b_r F ts' [] l m [se_tok m] adj false k (-1)%Z [] (tp + 1) lws ltac:(lia) Hts' Hk) as D.
    pose proof (delivers_trans F _ [t] _ ts' _ (delivers_one F _ _ t E1) D) as D2.
    assert (Ef : exists f2, fuel = (length ([t] ++ ts') + S (S f2))%nat).
    { exists (fuel - length ([t] ++ ts') - 2)%nat. cbn [length app] in *. lia. }
    destruct Ef as (f2 & ->). rewrite D2. unfold se_tok. rewrite end_pop by (lia || exact Hk).
    cbn [rev app]. rewrite !rev_app_distr, rev_involutive. cbn [rev app]. rewrite <- !app_assoc. reflexivity.
Qed.

(* the last word has been fetched (its key may still be possible): then the end of the input is fetched *)
Lemma end_from_E F (s : sc strin) l i ln c t adj K cols tp :
  (3 <= F)%nat -> canon s -> fetch_next_token str_ops F s = Ok (tt, endst l i ln c [t] adj K cols tp) -> snd t <> TStreamEnd ->
  (c =? 0) = false -> (fst (stk cols) <= Z.of_N c)%Z -> (sk_required K && sk_possible K) = false ->
  exists toks, map snd toks = snd t :: repeat TBlockEnd (length cols) ++ [TStreamEnd] /\
    forall fuel acc, (length toks < fuel)%nat -> scan_all str_ops F fuel s acc = (rev acc ++ toks, SEnded).
Proof.
  intros HF (Hq0 & Hta0 & Hse0) Hf Ht Hc Hind Hreq.
  set (m := mkm i ln c). set (K' := staled K m).
  assert (Hst : (stale_k K m && sk_required K) = false) by (apply rp_stale, Hreq).
  assert (Hreq' : (sk_required K' && sk_possible K') = false) by (unfold K'; apply rp_staled, Hreq).
  pose proof (need_b [] l m t [] adj false K (fst (stk cols)) (snd (stk cols)) tp false false Hst) as Hn. cbn zeta in Hn.
  fold (staled K m) in Hn. fold K' in Hn. rewrite orb_false_r in Hn.
  set (m' := mkm i (ln + 1) 0).
  destruct (sk_possible K' && (sk_token_number K' =? tp)) eqn:Hneed.
  - (* the key is pending at the head of the queue: the end is fetched first *)
    destruct (fetch_end F l i ln c [t] adj K' cols tp ltac:(lia) Hc Hind Hreq') as (l' & Hfe). fold m m' in Hfe.
    exists ((t :: repeat (be_tok m') (length cols)) ++ [se_tok m']). split.
    + rewrite map_app. cbn [map snd app]. rewrite map_snd_be. reflexivity.
    + intros fuel acc Hfuel.
      apply (finish F s 2 l' m' (t :: repeat (be_tok m') (length cols)) adj (unposs (staled K' m)) tp false); [lia | exact Hse0 | | reflexivity | | ].
      * intros b. cbn [plus].
        erewrite ntb_fetch; [ | exact Hta0 | apply need_canon, Hq0 | exact Hf | reflexivity].
        unfold endst. fold m.
        erewrite ntb_fetch; [ | reflexivity | exact Hn | exact Hfe | reflexivity]. reflexivity.
      * constructor; [exact Ht | apply no_se_be].
      * rewrite app_length in Hfuel. cbn [length] in Hfuel |- *. lia.
  - (* the word is handed out, then the end is fetched *)
    destruct (fetch_end F l i ln c [] adj K' cols (tp + 1) ltac:(lia) Hc Hind Hreq') as (l' & Hfe). fold m m' in Hfe.
    exists (t :: repeat (be_tok m') (length cols) ++ [se_tok m']). split.
    + cbn [map snd]. rewrite map_app, map_snd_be. reflexivity.
    + intros fuel acc Hfuel. destruct fuel as [|fuel]; [cbn in Hfuel; lia|].
      assert (E1 : next_token str_ops F s = Ok (Some t, endst l i ln c [] adj K' cols (tp + 1))).
      { apply (nt_of_ntb F 2); [exact Hse0 | lia |].
        erewrite ntb_fetch; [ | exact Hta0 | apply need_canon, Hq0 | exact Hf | reflexivity].
        unfold endst. fold m. apply ntb_pop_b; [exact Ht | exact Hst | fold K'; exact Hneed]. }
      rewrite scan_all_S, E1.
      rewrite (finish F (endst l i ln c [] adj K' cols (tp + 1)) 1 l' m' (repeat (be_tok m') (length cols)) adj (unposs (staled K' m)) (tp + 1) false);
        [ | lia | reflexivity | | reflexivity | apply no_se_be | ].
      * cbn [rev]. rewrite <- app_assoc. reflexivity.
      * intros b. cbn [plus]. unfold endst.
        erewrite ntb_fetch; [ | reflexivity | apply need_empty_b | exact Hfe | reflexivity]. reflexivity.
      * cbn [length] in Hfuel. rewrite app_length in Hfuel. cbn [length] in Hfuel. lia.
Qed.

(* in front of the last word: behind "- " (the scanner stands at it) or behind "key:" (in front of the blank) *)
Definition at_last (s : sc strin) (w : list N) (cols : list N) : Prop :=
  (exists cw top rest, cols = top :: rest /\ top < N.of_nat cw /\ at_tok s w cw cols) \/ at_below s (32 :: w) cols.

Lemma last_word_end F s c0 w cols :
  at_last s (c0 :: w) cols -> forallb wch (c0 :: w) = true -> (2 * length w + 5 <= F)%nat ->
  exists toks, map snd toks = TScalar Plain (c0 :: w) :: repeat TBlockEnd (length cols) ++ [TStreamEnd] /\
    forall fuel acc, (length toks < fuel)%nat -> scan_all str_ops F fuel s acc = (rev acc ++ toks, SEnded).
Proof.
  intros Hat Hw HF.
  pose proof Hw as Hw0. cbn [forallb] in Hw0. apply andb_prop in Hw0 as [Hc0 _]. destruct (wch_first_ok c0 Hc0) as [Hfo Hnz].
  destruct Hat as [(cw & top & rest & -> & Hlt & Hat) | Hat].
  - destruct (arrive_tok F s c0 w cw [] (top :: rest) Hat Hfo Hnz ltac:(constructor) ltac:(cbn; lia) ltac:(lia))
      as (Hcanon & l' & i & ln & adj & k & tp & lws & Hl' & Hk & Hf).
    assert (Hcw : (N.of_nat cw =? 0) = false) by (apply N.eqb_neq; lia).
    rewrite rest_word_b in Hf; [ | exact Hc0 | exact Hcw | apply Z.ltb_ge; cbn; lia].
    destruct (word_step_eof F c0 w l' i ln (N.of_nat cw) [] adj true k
                (fst (stk (top :: rest))) (snd (stk (top :: rest))) (fst (stk (top :: rest))) (snd (stk (top :: rest))) tp false lws Hw
                ltac:(rewrite Hcw; apply andb_false_r) eq_refl ltac:(discriminate) ltac:(lia)) as (l1 & E1).
    cbn [repeat length] in Hf. rewrite E1 in Hf. cbn [app] in Hf.
    eapply (end_from_E F s l1 _ ln _ (_, TScalar Plain (c0 :: w)) adj _ (top :: rest) tp); [lia | exact Hcanon | exact Hf | discriminate | | | ].
    + apply N.eqb_neq. unfold wlen. cbn [length]. lia.
    + cbn [stk fst]. unfold wlen. lia.
    + unfold saved, req. cbn [newkey sk_required sk_possible fst snd stk m_col mkm].
      replace (Z.of_N top =? Z.of_N (N.of_nat cw))%Z with false by (symmetry; apply Z.eqb_neq; lia). reflexivity.
  - destruct (arrive_blank F s c0 w cols Hat Hfo Hnz ltac:(lia))
      as (Hcanon & l' & i & ln & c1 & adj & ska & k & tp & top & rest & -> & Hc1 & Hl' & Hk & Hf).
    assert (Hcw : (c1 =? 0) = false) by (apply N.eqb_neq; lia).
    rewrite rest_word_b in Hf; [ | exact Hc0 | exact Hcw | apply Z.ltb_ge; lia].
    destruct (word_step_eof F c0 w l' i ln c1 [] adj ska k
                (Z.of_N top + 1)%Z (nbl (Z.of_N top) :: snd (stk (top :: rest))) (fst (stk (top :: rest))) (snd (stk (top :: rest))) tp false false Hw
                eq_refl (unroll_nb_below top rest) ltac:(discriminate) ltac:(lia)) as (l1 & E1).
    rewrite E1 in Hf. cbn [app] in Hf.
    eapply (end_from_E F s l1 _ ln _ (_, TScalar Plain (c0 :: w)) adj _ (top :: rest) tp); [lia | exact Hcanon | exact Hf | discriminate | | | ].
    + apply N.eqb_neq. unfold wlen. cbn [length]. lia.
    + cbn [stk fst]. unfold wlen. lia.
    + unfold saved. destruct ska.
      * unfold req. cbn. rewrite andb_false_r. reflexivity.
      * rewrite Hk. apply andb_false_r.
Qed.

(* ---------- the block text without its final line feed ---------- *)
(* [brl col n]: brender col n without the line feed that ends it: the last element of every collection on the way to the
   last word is rendered by brl, the others by brender *)
Fixpoint brl (col : nat) (n : bnode) : str :=
  match n with
  | BW w => w
  | BS _ items | BI items =>
      (fix go (l : list bnode) : str :=
         match l with
         | [] => []
         | [y] => 45 :: lead col y ++ brl (child_col col y) y
         | y :: r => (45 :: lead col y ++ brender (child_col col y) y) ++ spaces col ++ go r
         end) items
  | BM _ pairs =>
      (fix go (l : list (str * bnode)) : str :=
         match l with
         | [] => []
         | [p] => fst p ++ 58 :: lead col (snd p) ++ brl (child_col col (snd p)) (snd p)
         | p :: r => (fst p ++ 58 :: lead col (snd p) ++ brender (child_col col (snd p)) (snd p)) ++ spaces col ++ go r
         end) pairs
  end.
Definition item_textL (c : nat) (x : bnode) : str := 45 :: lead c x ++ brl (child_col c x) x.
Definition pair_textL (c : nat) (p : str * bnode) : str := fst p ++ 58 :: lead c (snd p) ++ brl (child_col c (snd p)) (snd p).
(* the elements of a collection from some element on, the last one without its line feed *)
Fixpoint tailL {A} (f fl : nat -> A -> str) (c : nat) (l : list A) : str :=
  match l with
  | [] => []
  | [y] => fl c y
  | y :: r => f c y ++ spaces c ++ tailL f fl c r
  end.
Lemma brl_BS pl c items : brl c (BS pl items) = tailL item_text item_textL c items.
Proof.
  cbn [brl]. induction items as [|y [|z r] IH]; [reflexivity|reflexivity|].
  change (tailL item_text item_textL c (y :: z :: r)) with (item_text c y ++ spaces c ++ tailL item_text item_textL c (z :: r)).
  rewrite <- IH. reflexivity.
Qed.
Lemma brl_BM pl c pairs : brl c (BM pl pairs) = tailL pair_text pair_textL c pairs.
Proof.
  cbn [brl]. induction pairs as [|y [|z r] IH]; [reflexivity|reflexivity|].
  change (tailL pair_text pair_textL c (y :: z :: r)) with (pair_text c y ++ spaces c ++ tailL pair_text pair_textL c (z :: r)).
  rewrite <- IH. reflexivity.
Qed.

(* no indentless sequence (the emitter writes none) *)
Fixpoint nobi (n : bnode) : bool :=
  match n with
  | BW _ => true
  | BS _ items => forallb nobi items
  | BM _ pairs => forallb (fun p => nobi (snd p)) pairs
  | BI _ => false
  end.

Lemma tailL_snoc {A} (f fl : nat -> A -> str) c (l : list A) :
  l <> [] -> (forall y, In y l -> f c y = fl c y ++ [10]) ->
  bjoin c (map (f c) l) = tailL f fl c l ++ [10].
Proof.
  induction l as [|y [|z r] IH]; intros Hne H; [congruence| |].
  - cbn [map bjoin flat_map tailL]. rewrite app_nil_r. apply H. left; reflexivity.
  - specialize (IH ltac:(discriminate) (fun y' Hy' => H y' (or_intror Hy'))). cbn [map bjoin] in IH.
    cbn [map bjoin flat_map]. rewrite <- app_assoc. rewrite IH.
    change (tailL f fl c (y :: z :: r)) with (f c y ++ spaces c ++ tailL f fl c (z :: r)).
    rewrite <- !app_assoc. reflexivity.
Qed.

Lemma brender_brl : forall n inl c, bwf inl n = true -> nobi n = true -> brender c n = brl c n ++ [10].
Proof.
  apply (bnode_ind2 (fun n => forall inl c, bwf inl n = true -> nobi n = true -> brender c n = brl c n ++ [10])).
  - intros w inl c _ _. reflexivity.
  - intros pl items IH inl c H Hb. cbn [bwf] in H. apply andb_prop in H as [H Hall]. apply andb_prop in H as [_ Hne].
    cbn [nobi] in Hb. rewrite brl_BS.
    change (brender c (BS pl items)) with (bjoin c (map (item_text c) items)).
    apply tailL_snoc; [destruct items; [discriminate|discriminate]|].
    intros y Hy. unfold item_text, item_textL. rewrite Forall_forall in IH. rewrite forallb_forall in Hall, Hb.
    rewrite (IH y Hy true (child_col c y) (Hall y Hy) (Hb y Hy)). cbn [app]. rewrite <- app_assoc. reflexivity.
  - intros pl pairs IH inl c H Hb. cbn [bwf] in H. apply andb_prop in H as [H Hall]. apply andb_prop in H as [_ Hne].
    cbn [nobi] in Hb. rewrite brl_BM.
    change (brender c (BM pl pairs)) with (bjoin c (map (pair_text c) pairs)).
    apply tailL_snoc; [destruct pairs; [discriminate|discriminate]|].
    intros y Hy. unfold pair_text, pair_textL. rewrite Forall_forall in IH. rewrite forallb_forall in Hall, Hb.
    specialize (Hall y Hy). apply andb_prop in Hall as [_ Hv].
    rewrite (IH y Hy false (child_col c (snd y)) Hv (Hb y Hy)). rewrite <- !app_assoc. cbn [app]. rewrite <- !app_assoc. reflexivity.
  - intros items _ inl c _ Hb. discriminate.
Qed.

Lemma blast_brl n : bwf_root n = true -> nobi n = true -> blast n = brl 0 n.
Proof.
  intros H Hb. unfold bwf_root in H. apply andb_prop in H as [_ H]. unfold blast, bdoc_text.
  rewrite (brender_brl n true 0%nat H Hb). apply removelast_last.
Qed.

(* ---------- the induction for the last element ---------- *)
(* [pend] BlockEnd tokens are owed; the tokens T are scanned up to the last word (c0 :: w), in front of which the scanner
   stands, and the BlockEnds of the collections [ext'] still open *)
Definition scanned_l (F : nat) (s : sc strin) (pend : nat) (T : list tok) (cols : list N) (low : Z) : Prop :=
  exists toks s' ext' c0 w, delivers F s toks s' /\ forallb wch (c0 :: w) = true
     /\ repeat TBlockEnd pend ++ T = map snd toks ++ TScalar Plain (c0 :: w) :: repeat TBlockEnd (length ext')
     /\ at_last s' (c0 :: w) (ext' ++ cols) /\ Forall (fun e => (low < Z.of_N e)%Z) ext' /\ (2 * length w + 5 <= F)%nat.

Definition LastScan (X : bnode) : Prop :=
  forall F cc cols s,
    arrives s cc (brl cc X) cols -> top_lt cols cc -> (length cols + bdepth X <= 255)%nat ->
    fuel_ok F (brl cc X) cc ->
    scanned_l F s 0 (tokens_of (blt X)) cols (fst (stk cols)).

(* what the last child needs from the induction *)
Definition LastOK (inl : bool) (x : bnode) : Prop :=
  bwf inl x = true /\ nobi x = true /\ (b_is_coll x = true -> LastScan x).

(* head tokens, then a complete child, then the rest up to the last word *)
Lemma scanned_seq_l F s pend t1 s1 H T1 T2 tl1 c1 cols low :
  delivers F s t1 s1 -> map snd t1 = repeat TBlockEnd pend ++ H ->
  scanned_b F s1 0 T1 tl1 c1 cols low ->
  (forall s2 ext1, at_tok s2 tl1 c1 (ext1 ++ cols) -> Forall (fun e => (low < Z.of_N e)%Z) ext1 ->
                   scanned_l F s2 (length ext1) T2 cols low) ->
  scanned_l F s pend (H ++ T1 ++ T2) cols low.
Proof.
  intros Hd1 Hm1 (toks1 & s2 & ext1 & Hd2 & He2 & Hat2 & Hf2) Htail.
  destruct (Htail s2 ext1 Hat2 Hf2) as (toks2 & s3 & ext2 & c0 & w & Hd3 & Hw & He3 & Hat3 & Hf3 & HF3).
  exists (t1 ++ toks1 ++ toks2), s3, ext2, c0, w. split; [|split; [exact Hw|split; [|split; [exact Hat3|split; assumption]]]].
  - eapply delivers_trans; [exact Hd1|]. eapply delivers_trans; eassumption.
  - cbn [repeat app] in He2.
    transitivity ((repeat TBlockEnd pend ++ H) ++ map snd toks1 ++ (repeat TBlockEnd (length ext1) ++ T2)).
    + rewrite He2, <- !app_assoc. reflexivity.
    + rewrite He3, <- Hm1, !map_app, <- !app_assoc. reflexivity.
Qed.

(* head tokens, then the last child *)
Lemma scanned_head_l F s pend t1 s1 H T1 cols low :
  delivers F s t1 s1 -> map snd t1 = repeat TBlockEnd pend ++ H ->
  scanned_l F s1 0 T1 cols low -> scanned_l F s pend (H ++ T1) cols low.
Proof.
  intros Hd1 Hm1 (toks1 & s2 & ext1 & c0 & w & Hd2 & Hw & He2 & Hat2 & Hf2 & HF2).
  exists (t1 ++ toks1), s2, ext1, c0, w. split; [|split; [exact Hw|split; [|split; [exact Hat2|split; assumption]]]].
  - eapply delivers_trans; eassumption.
  - cbn [repeat app] in He2. rewrite app_assoc, <- Hm1, He2, map_app, <- app_assoc. reflexivity.
Qed.

(* closing the collection itself: its own level joins the levels owed *)
Lemma scanned_close_l F s Hd T cc cols :
  top_lt cols cc ->
  scanned_l F s 0 (Hd :: T) (N.of_nat cc :: cols) (Z.of_nat cc) ->
  scanned_l F s 0 (Hd :: T ++ [TBlockEnd]) cols (fst (stk cols)).
Proof.
  intros Htop (toks & s' & ext' & c0 & w & Hd1 & Hw & He & Hat & Hf & HF).
  exists toks, s', (ext' ++ [N.of_nat cc]), c0, w. split; [exact Hd1|]. split; [exact Hw|]. split; [|split; [|split; [|exact HF]]].
  - cbn [repeat app] in He |- *. rewrite app_length. cbn [length]. rewrite Nat.add_1_r. cbn [repeat].
    rewrite <- repeat_snoc.
    change (Hd :: T ++ [TBlockEnd]) with ((Hd :: T) ++ [TBlockEnd]). rewrite He. rewrite <- app_assoc. cbn [app]. reflexivity.
  - rewrite <- app_assoc. exact Hat.
  - apply Forall_app. split; [|constructor; [unfold top_lt in Htop; lia|constructor]].
    eapply Forall_impl; [|exact Hf]. intros e He'. unfold top_lt in Htop. cbn beta in He'. lia.
Qed.
