(* C15 tail independence of the scanner (see ScanShift.v): the family of DIRECTIVES and TAGS (Model/SDir.v) under the
   state relation [SH d] of ScanShift.v.

     scan_tag_ok       : forall d, shf_scan_tag d
     scan_directive_ok : forall d, shf_scan_directive d

   Mechanical port of ScanBrkDir.v ([d : shift] in the place of [md]; the marker relation [MS d] is the exact shift).
   Both sides read the same text, so every character test agrees; the alignment premises inherited from ScanBrkDir.v
   ([rn s1 0 <> 10], [noLF k (rm s1)]) are not needed for the shift and are simply available at every call site
   (see the header of ScanShift.v).  TWO fuels everywhere.  The error markers are the [start] mark read by the entry
   point: [MS d mk1 mk2] on the two sides. *)
From Coq Require Import List NArith ZArith Bool Arith Lia.
Import ListNotations.
Require Import Parser SBase SPrim SDir SScalar SFetch ScanShift ScanShiftPrim.
Local Open Scope nat_scope.

(* both sides branch on the same (syntactically equal) test *)
Ltac bif :=
  cbv beta;
  match goal with |- swp _ (if ?b then _ else _) (if ?b then _ else _) _ _ _ => destruct b end.

Section BrkDir.
Variable d : shift.
Local Notation bwp := (swp d).

(* ---------------- scan_uri_escapes ---------------- *)
(* the test of one round: '%' followed by two hex digits *)
Definition esc_ok (s : bst) : bool := ((rn s 0 =? 37)%N && is_hex (rn s 1) && is_hex (rn s 2)).

Lemma esc_brk s1 s2 : SH d s1 s2 ->
  esc_ok s2 = esc_ok s1 /\
  (esc_ok s1 = true -> noLF 3 (rm s1) /\ rn s2 1 = rn s1 1 /\ rn s2 2 = rn s1 2).
Proof.
  intros H. unfold esc_ok.
  destruct (N.eqb_spec (rn s1 0) 10) as [E0|N0].
  { rewrite (SH_rn0 H), E0. change (b1 10 =? 37)%N with false. change (10 =? 37)%N with false. cbn [andb].
    split; [reflexivity|discriminate]. }
  rewrite (SH_rn0_other H N0).
  destruct (N.eqb_spec (rn s1 1) 10) as [E1|N1].
  { rewrite (SH_rn1 H N0), E1. change (is_hex (b1 10%N)) with false. change (is_hex 10%N) with false.
    rewrite !andb_false_r. cbn [andb]. split; [reflexivity|discriminate]. }
  assert (L2 : noLF 2 (rm s1)) by (apply noLF_S; [apply noLF_1; exact N0|exact N1]).
  rewrite (SH_rn1 H N0), (SH_rn H 2 L2), (b1_other _ N1), b1_is_hex. split; [reflexivity|].
  intros E. apply andb_true_iff in E. destruct E as [_ Eh2].
  assert (N2 : rn s1 2 <> 10%N) by (intros X; rewrite X in Eh2; discriminate).
  split; [apply noLF_S; [exact L2|exact N2]|]. split; [reflexivity|apply b1_other; exact N2].
Qed.

Lemma bwp_scan_uri_escapes mk1 mk2 s1 s2 : SH d s1 s2 -> MS d mk1 mk2 ->
  bwp (scan_uri_escapes sops mk1) (scan_uri_escapes sops mk2) (bpost d eq) s1 s2.
Proof.
  intros H HM. cbv beta delta [scan_uri_escapes].
  match goal with |- swp _ (?g1 5 0%N 0%N 0%N true) (?g2 5 0%N 0%N 0%N true) _ _ _ =>
    cut (forall f1 f2 w ln cd fs u1 u2, SH d u1 u2 -> bwp (g1 f1 w ln cd fs) (g2 f2 w ln cd fs) (bpost d eq) u1 u2);
    [intros HL; apply HL; exact H|] end.
  clear s1 s2 H. induction f1 as [|f1 IH]; intros f2 w ln cd fs s1 s2 H; [exact I|].
  destruct f2 as [|f2]; [apply bwp_oof_r|].
  cbv beta iota zeta.
  apply bwp_bind. apply (bwp_look d); [exact H|]. intros u1 u2 HU _ _ _ _ _.
  apply bwp_bind. apply bwp_peekn_raw. cbv beta.
  apply bwp_bind. apply bwp_peekn_raw. cbv beta.
  apply bwp_bind. apply bwp_peekn_raw. cbv beta.
  destruct (esc_brk u1 u2 HU) as [EC EA]. unfold esc_ok in EC, EA. rewrite EC.
  destruct ((rn u1 0 =? 37)%N && is_hex (rn u1 1) && is_hex (rn u1 2)) eqn:Ee; cbn [negb];
    [|apply bwp_fail; exact HM].
  destruct (EA eq_refl) as (L3 & E1 & E2). rewrite E1, E2.
  apply bwp_bind.
  match goal with |- swp _ _ _ ?QQ _ _ => assert (HC : forall r, QQ r u1 r u2) end.
  { intros [w' cd']. cbv beta iota zeta.
    apply bwp_bind. apply (bwp_skip_n_non_blank d); [exact HU|exact L3|]. intros v1 v2 HV _.
    bif.
    - bif; [apply bwp_ret_bpost; [reflexivity|exact HV]|apply bwp_fail; exact HM].
    - apply IH; exact HV. }
  destruct fs; repeat bif; try (apply bwp_fail; exact HM);
    match goal with |- swp _ (ret ?x) (ret ?x) _ _ _ => apply bwp_ret; exact (HC x) end.
Qed.

(* ---------------- tags ---------------- *)
Lemma bwp_scan_tag_handle F1 F2 dflag mk1 mk2 s1 s2 : SH d s1 s2 -> MS d mk1 mk2 ->
  bwp (scan_tag_handle sops F1 dflag mk1) (scan_tag_handle sops F2 dflag mk2) (bpost d eq) s1 s2.
Proof.
  intros H HM. unfold scan_tag_handle.
  apply bwp_bind. apply (bwp_look_ch d); [exact H|]. intros u1 u2 HU _ _ _ _. b1_norm.
  destruct (N.eqb_spec (rn u1 0) 33) as [E33|N33]; cbn [negb]; [|apply bwp_fail; exact HM].
  assert (N0 : rn u1 0 <> 10%N) by (rewrite E33; discriminate).
  apply bwp_bind. apply (bwp_skip_non_blank d); [exact HU|exact N0|]. intros v1 v2 HV _.
  apply bwp_bind. apply (bwp_in_fetch_while_alpha d); [exact HV|]. intros r w1 w2 HW _ _ _.
  apply bwp_bind. apply (bwp_adv_mark d); [exact HW|]. intros x1 x2 HX _.
  apply bwp_bind. apply (bwp_peek d); [exact HX|]. b1_norm.
  destruct (N.eqb_spec (rn x1 0) 33) as [E|N].
  - apply bwp_bind. apply (bwp_skip_non_blank d); [exact HX|rewrite E; discriminate|]. intros y1 y2 HY _.
    apply bwp_ret_bpost; [reflexivity|exact HY].
  - bif; [apply bwp_fail; exact HM|apply bwp_ret_bpost; [reflexivity|exact HX]].
Qed.

(* the generic uri loop; [p] is is_uri_char or is_tag_char: false on LF *)
Lemma bwp_uri_loop F1 F2 p mk1 mk2 acc s1 s2 : SH d s1 s2 -> MS d mk1 mk2 -> bblind p -> p 10%N = false ->
  bwp (uri_loop sops F1 p mk1 acc) (uri_loop sops F2 p mk2 acc) (bpost d eq) s1 s2.
Proof.
  intros H HM Hp Hlf. unfold uri_loop.
  match goal with |- swp _ (?g1 F1 acc 0%N) (?g2 F2 acc 0%N) _ _ _ =>
    cut (forall f1 f2 a n u1 u2, SH d u1 u2 -> bwp (g1 f1 a n) (g2 f2 a n) (bpost d eq) u1 u2);
    [intros HL; apply HL; exact H|] end.
  clear s1 s2 H. induction f1 as [|f1 IH]; intros f2 a n s1 s2 H; [exact I|].
  destruct f2 as [|f2]; [apply bwp_oof_r|].
  cbv beta iota zeta.
  apply bwp_bind. apply (bwp_look_ch d); [exact H|]. intros u1 u2 HU _ _ _ _. rewrite Hp.
  destruct (p (rn u1 0)) eqn:Ep; [|apply bwp_ret_bpost; [reflexivity|exact HU]].
  assert (N0 : rn u1 0 <> 10%N) by (intros E; rewrite E, Hlf in Ep; discriminate).
  rewrite ?(b1_other _ N0).
  bif.
  - eapply (bwp_call_eq d); [apply bwp_scan_uri_escapes; [exact HU|exact HM]|]. intros e v1 v2 HV. apply IH; exact HV.
  - apply bwp_bind. apply (bwp_skip_non_blank d); [exact HU|exact N0|]. intros v1 v2 HV _. apply IH; exact HV.
Qed.

Lemma bwp_scan_tag_prefix F1 F2 mk1 mk2 s1 s2 : SH d s1 s2 -> MS d mk1 mk2 ->
  bwp (scan_tag_prefix sops F1 mk1) (scan_tag_prefix sops F2 mk2) (bpost d eq) s1 s2.
Proof.
  intros H HM. unfold scan_tag_prefix.
  apply bwp_bind. apply (bwp_look_ch d); [exact H|]. intros u1 u2 HU _ _ _ _.
  apply bwp_bind.
  match goal with |- swp _ _ _ ?QQ _ _ => assert (HC : forall acc t1 t2, SH d t1 t2 -> QQ acc t1 acc t2) end.
  { intros acc t1 t2 HT. cbv beta.
    eapply (bwp_call_eq d); [apply bwp_uri_loop; [exact HT|exact HM|exact b1_is_uri_char|reflexivity]|].
    intros r v1 v2 HV. apply bwp_ret_bpost; [reflexivity|exact HV]. }
  b1_norm.
  destruct (N.eqb_spec (rn u1 0) 33) as [E|N].
  - apply bwp_bind. apply (bwp_skip_non_blank d); [exact HU|rewrite E; discriminate|]. intros v1 v2 HV _.
    apply bwp_ret. apply HC; exact HV.
  - destruct (is_tag_char (rn u1 0)) eqn:Et; cbn [negb]; [|apply bwp_fail; exact HM].
    assert (N0 : rn u1 0 <> 10%N) by (intros E; rewrite E in Et; discriminate).
    rewrite ?(b1_other _ N0).
    bif.
    + eapply (bwp_call_eq d); [apply bwp_scan_uri_escapes; [exact HU|exact HM]|]. intros e v1 v2 HV.
      apply bwp_ret. apply HC; exact HV.
    + apply bwp_bind. apply (bwp_skip_non_blank d); [exact HU|exact N0|]. intros v1 v2 HV _.
      apply bwp_ret. apply HC; exact HV.
Qed.

(* scan_verbatim_tag skips "!<" at once: neither may be a line feed *)
Lemma bwp_scan_verbatim_tag F1 F2 mk1 mk2 s1 s2 : SH d s1 s2 -> MS d mk1 mk2 -> noLF 2 (rm s1) ->
  bwp (scan_verbatim_tag sops F1 mk1) (scan_verbatim_tag sops F2 mk2) (bpost d eq) s1 s2.
Proof.
  intros H HM L2. unfold scan_verbatim_tag.
  assert (N0 : rn s1 0 <> 10%N) by (apply (L2 0); lia).
  apply bwp_bind. apply (bwp_skip_non_blank d); [exact H|exact N0|]. intros u1 u2 HU RU.
  assert (N1 : rn u1 0 <> 10%N) by (rewrite (rn_tl u1 s1 0 RU); apply (L2 1); lia).
  apply bwp_bind. apply (bwp_skip_non_blank d); [exact HU|exact N1|]. intros v1 v2 HV _.
  eapply (bwp_call_eq d); [apply bwp_uri_loop; [exact HV|exact HM|exact b1_is_uri_char|reflexivity]|].
  intros r w1 w2 HW.
  apply bwp_bind. apply (bwp_peek d); [exact HW|]. b1_norm.
  destruct (N.eqb_spec (rn w1 0) 62) as [E|N]; cbn [negb]; [|apply bwp_fail; exact HM].
  apply bwp_bind. apply (bwp_skip_non_blank d); [exact HW|rewrite E; discriminate|]. intros x1 x2 HX _.
  apply bwp_ret_bpost; [reflexivity|exact HX].
Qed.

Lemma bwp_scan_tag_shorthand_suffix F1 F2 head mk1 mk2 s1 s2 : SH d s1 s2 -> MS d mk1 mk2 ->
  bwp (scan_tag_shorthand_suffix sops F1 head mk1) (scan_tag_shorthand_suffix sops F2 head mk2) (bpost d eq) s1 s2.
Proof.
  intros H HM. unfold scan_tag_shorthand_suffix. cbv beta zeta.
  eapply (bwp_call_eq d); [apply bwp_uri_loop; [exact H|exact HM|exact b1_is_tag_char|reflexivity]|].
  intros r u1 u2 HU.
  bif; [apply bwp_fail; exact HM|apply bwp_ret_bpost; [reflexivity|exact HU]].
Qed.

Theorem scan_tag_ok : shf_scan_tag d.
Proof.
  unfold shf_scan_tag. intros F1 F2 s1 s2 H N0. unfold scan_tag.
  apply bwp_bind. apply (bwp_mark d); [exact H|]. intros HM0.
  apply bwp_bind. apply (bwp_look d); [exact H|]. intros u1 u2 HU RU _ _ _ _.
  assert (N0u : rn u1 0 <> 10%N) by (rewrite (rn_eq u1 s1 0 RU); exact N0).
  apply bwp_bind. apply (bwp_nth_char_is d); [exact HU|apply noLF_1; exact N0u|reflexivity|].
  apply bwp_bind.
  match goal with |- swp _ _ _ ?QQ _ _ => assert (HC : forall hs t1 t2, SH d t1 t2 -> QQ hs t1 hs t2) end.
  { intros hs t1 t2 HT. cbv beta.
    apply bwp_bind. apply (bwp_look_ch d); [exact HT|]. intros v1 v2 HV _ _ _ _.
    apply bwp_bind. apply (bwp_flow_level d); [exact HV|]. cbv beta. b1_norm.
    bif; [|apply bwp_fail; exact HM0].
    apply bwp_bind. apply (bwp_mark d); [exact HV|]. intros HM1.
    apply bwp_ret_bpost; [|exact HV]. apply TS_mk. apply SPS_mk; assumption. }
  destruct (N.eqb_spec (rn u1 1) 60) as [E60|N60].
  - assert (N1u : rn u1 1 <> 10%N) by (rewrite E60; discriminate).
    eapply (bwp_call_eq d);
      [apply bwp_scan_verbatim_tag; [exact HU|exact HM0|apply noLF_S; [apply noLF_1; exact N0u|exact N1u]]|].
    intros sfx t1 t2 HT. apply bwp_ret. apply HC; exact HT.
  - eapply (bwp_call_eq d); [apply bwp_scan_tag_handle; [exact HU|exact HM0]|]. intros h t1 t2 HT.
    bif.
    + eapply (bwp_call_eq d); [apply bwp_scan_tag_shorthand_suffix; [exact HT|exact HM0]|]. intros sfx v1 v2 HV.
      apply bwp_ret. apply HC; exact HV.
    + eapply (bwp_call_eq d); [apply bwp_scan_tag_shorthand_suffix; [exact HT|exact HM0]|]. intros sfx v1 v2 HV.
      destruct sfx; apply bwp_ret; apply HC; exact HV.
Qed.

(* ---------------- directives ---------------- *)
(* the modelled u32-overflow panic (site 120) is the same panic on both sides *)
Lemma bwp_version_number F1 F2 mk1 mk2 s1 s2 : SH d s1 s2 -> MS d mk1 mk2 ->
  bwp (scan_version_directive_number sops F1 mk1) (scan_version_directive_number sops F2 mk2) (bpost d eq) s1 s2.
Proof.
  intros H HM. unfold scan_version_directive_number.
  match goal with |- swp _ (?g1 F1 0%N 0%N) (?g2 F2 0%N 0%N) _ _ _ =>
    cut (forall f1 f2 val len u1 u2, SH d u1 u2 -> bwp (g1 f1 val len) (g2 f2 val len) (bpost d eq) u1 u2);
    [intros HL; apply HL; exact H|] end.
  clear s1 s2 H. induction f1 as [|f1 IH]; intros f2 val len s1 s2 H; [exact I|].
  destruct f2 as [|f2]; [apply bwp_oof_r|].
  cbv beta iota zeta.
  apply bwp_bind. apply (bwp_look_ch d); [exact H|]. intros u1 u2 HU _ _ _ _. b1_norm.
  destruct (is_digit (rn u1 0)) eqn:Ed.
  - assert (N0 : rn u1 0 <> 10%N) by (intros E; rewrite E in Ed; discriminate).
    rewrite ?(b1_other _ N0).
    bif; [apply bwp_fail; exact HM|].
    apply bwp_bind. bif; [apply bwp_panic_l|]. apply bwp_ret. cbv beta.
    apply bwp_bind. apply (bwp_skip_non_blank d); [exact HU|exact N0|]. intros v1 v2 HV _.
    apply IH; exact HV.
  - bif; [apply bwp_fail; exact HM|apply bwp_ret_bpost; [reflexivity|exact HU]].
Qed.

Lemma bwp_version_value F1 F2 mk1 mk2 s1 s2 : SH d s1 s2 -> MS d mk1 mk2 ->
  bwp (scan_version_directive_value sops F1 mk1) (scan_version_directive_value sops F2 mk2) (bpost d (TS d)) s1 s2.
Proof.
  intros H HM. unfold scan_version_directive_value.
  apply bwp_bind. apply (bwp_in_skip_while_blank d); [exact H|]. intros n u1 u2 HU _ _ _.
  apply bwp_bind. apply (bwp_adv_mark d); [exact HU|]. intros v1 v2 HV _.
  eapply (bwp_call_eq d); [apply bwp_version_number; [exact HV|exact HM]|]. intros major w1 w2 HW.
  apply bwp_bind. apply (bwp_peek d); [exact HW|]. b1_norm.
  destruct (N.eqb_spec (rn w1 0) 46) as [E|N]; cbn [negb]; [|apply bwp_fail; exact HM].
  apply bwp_bind. apply (bwp_skip_non_blank d); [exact HW|rewrite E; discriminate|]. intros x1 x2 HX _.
  eapply (bwp_call_eq d); [apply bwp_version_number; [exact HX|exact HM]|]. intros minor y1 y2 HY.
  apply bwp_bind. apply (bwp_mark d); [exact HY|]. intros HM1.
  apply bwp_ret_bpost; [|exact HY]. apply TS_mk. apply SPS_mk; assumption.
Qed.

Lemma bwp_tag_directive_value F1 F2 mk1 mk2 s1 s2 : SH d s1 s2 -> MS d mk1 mk2 ->
  bwp (scan_tag_directive_value sops F1 mk1) (scan_tag_directive_value sops F2 mk2) (bpost d (TS d)) s1 s2.
Proof.
  intros H HM. unfold scan_tag_directive_value.
  apply bwp_bind. apply (bwp_in_skip_while_blank d); [exact H|]. intros n u1 u2 HU _ _ _.
  apply bwp_bind. apply (bwp_adv_mark d); [exact HU|]. intros v1 v2 HV _.
  eapply (bwp_call_eq d); [apply bwp_scan_tag_handle; [exact HV|exact HM]|]. intros h w1 w2 HW.
  apply bwp_bind. apply (bwp_in_skip_while_blank d); [exact HW|]. intros n' x1 x2 HX _ _ _.
  apply bwp_bind. apply (bwp_adv_mark d); [exact HX|]. intros y1 y2 HY _.
  eapply (bwp_call_eq d); [apply bwp_scan_tag_prefix; [exact HY|exact HM]|]. intros p z1 z2 HZ.
  apply bwp_bind. apply (bwp_look d); [exact HZ|]. intros a1 a2 HA _ _ _ _ _.
  apply bwp_bind. apply (bwp_peek d); [exact HA|]. b1_norm.
  bif; [|apply bwp_fail; exact HM].
  apply bwp_bind. apply (bwp_mark d); [exact HA|]. intros HM1.
  apply bwp_ret_bpost; [|exact HA]. apply TS_mk. apply SPS_mk; assumption.
Qed.

Lemma bwp_directive_name F1 F2 s1 s2 : SH d s1 s2 ->
  bwp (scan_directive_name sops F1) (scan_directive_name sops F2) (bpost d eq) s1 s2.
Proof.
  intros H. unfold scan_directive_name.
  apply bwp_bind. apply (bwp_mark d); [exact H|]. intros HM0.
  apply bwp_bind. apply (bwp_in_fetch_while_alpha d); [exact H|]. intros r u1 u2 HU _ _ _.
  apply bwp_bind. apply (bwp_adv_mark d); [exact HU|]. intros v1 v2 HV _.
  destruct (fst r) as [|x l]; [apply bwp_fail; exact HM0|].
  apply bwp_bind. apply (bwp_peek d); [exact HV|]. b1_norm.
  bif; [apply bwp_ret_bpost; [reflexivity|exact HV]|apply bwp_fail; exact HM0].
Qed.

Theorem scan_directive_ok : shf_scan_directive d.
Proof.
  unfold shf_scan_directive. intros F1 F2 s1 s2 H N0. unfold scan_directive.
  apply bwp_bind. apply (bwp_mark d); [exact H|]. intros HM0.
  apply bwp_bind. apply (bwp_skip_non_blank d); [exact H|exact N0|]. intros u1 u2 HU _.
  eapply (bwp_call_eq d); [apply bwp_directive_name; exact HU|]. intros name v1 v2 HV.
  apply bwp_bind.
  match goal with |- swp _ _ _ ?QQ _ _ =>
    assert (HC : forall tk1 tk2 t1 t2, TS d tk1 tk2 -> SH d t1 t2 -> QQ tk1 t1 tk2 t2) end.
  { intros tk1 tk2 t1 t2 HTR HT. cbv beta.
    eapply (bwp_call_eq d); [apply (skip_ws_to_eol_ok d); exact HT|]. intros tw w1 w2 HW.
    apply bwp_bind. apply (bwp_next_is d); [exact HW|exact b1_is_breakz|].
    bif; [|apply bwp_fail; exact HM0].
    (* the line break that ends the directive: the same characters on both sides *)
    apply bwp_bind. apply (bwp_look d); [exact HW|]. intros x1 x2 HX _ _ _ _ _.
    apply bwp_bind. apply (bwp_skip_linebreak d); [exact HX|]. intros y1 y2 HY _.
    apply bwp_ret_bpost; [exact HTR|exact HY]. }
  bif.
  - eapply bwp_mono; [apply bwp_version_value; [exact HV|exact HM0]|].
    intros tk1 t1 tk2 t2 [HTR HT]. apply HC; assumption.
  - bif.
    + eapply bwp_mono; [apply bwp_tag_directive_value; [exact HV|exact HM0]|].
      intros tk1 t1 tk2 t2 [HTR HT]. apply HC; assumption.
    + apply bwp_bind. apply (bwp_in_skip_while_non_breakz d); [exact HV|]. intros n t1 t2 HT _ _ _.
      apply bwp_bind. apply (bwp_adv_mark d); [exact HT|]. intros w1 w2 HW _.
      apply bwp_bind. apply (bwp_mark d); [exact HW|]. intros HM1.
      apply bwp_ret. apply HC; [|exact HW]. apply TS_mk. apply SPS_mk; assumption.
Qed.

End BrkDir.

Print Assumptions scan_tag_ok.
Print Assumptions scan_directive_ok.
Check scan_tag_ok.
Check scan_directive_ok.
