(* PORT of ScanRelFlow.v to the fuel-transfer calculus of ScanFuelBuf.v (see there): [rwp] is [rwpN N0]; the base case of
   every lockstep loop is closed by the STRING side's [oof]; the loops that are not in lockstep get a fuel hypothesis. *)
(* Joint proof "the scanner over the buffered input computes what the scanner over the string input computes"
   (see SCANREL.md): the QUOTED (flow) SCALAR family.

     scan_flow_scalar_ok : rel_scan_flow_scalar cap N0        (after the section: [forall cap, 8 <= cap -> ...])

   scan_flow_scalar and its helpers (read_hex, resolve_escape, consume_nonws, flow_blanks, the main loop) run in
   LOCKSTEP over the two back-ends: every character either side reads has been buffered by a preceding lookahead
   ([look 2] in consume_nonws, [look 3] before an escaped line break, [look n] (n <= 8 <= cap) before the n hex digits
   of \x \u \U, [look 1]/[look 2] in the blank loop, [look 4] at the head of the main loop), so both sides read the
   string side's characters, take the same branches, and every skip consumes a buffered character.

   Reusable rules (all take [cap cap_ge] after the section closes; [Q] annotated [_ -> st1 -> _ -> st2 -> Prop]):
     rwp_col_lt_indent       SR s1 s2 -> Q (col_lt_indent_val s1) s1 (same) s2 -> ..      (no cap: stated outside)
     rwp_read_hex n i acc start    SR s1 s2 -> i + n <= bl2 s2 -> (forall v, Q v s1 v s2) -> ..
     rwp_resolve_escape start      SR s1 s2 -> 2 <= bl2 s2 -> (forall r t1 t2, SR t1 t2 -> Q r t1 r t2) -> ..
     rwp_consume_nonws fuel single acc start   SR s1 s2 -> (forall r t1 t2, SR t1 t2 -> Q r t1 r t2) -> ..
     rwp_flow_blanks fuel lbl lb tb ws   SR s1 s2 -> 1 <= bl2 s2 -> (forall r t1 t2, SR t1 t2 -> Q r t1 r t2) -> ..
     rwp_flow_go F single start f acc lb tb ws  SR s1 s2 ->
                                   (forall r t1 t2, SR t1 t2 -> 1 <= bl2 t2 -> Q r t1 r t2) -> ..
       ([rflow_go] is the main loop of scan_flow_scalar, a local [fix] in the model, restated as a top-level
        Fixpoint; [scan_flow_scalar_unfold_r] is proved by reflexivity.) *)
From Coq Require Import List NArith ZArith Bool Arith Lia.
Import ListNotations.
Require Import Parser SBase SPrim SDir SScalar SFetch SBuf InputRefine ScanFuelBuf ScanFuelBufPrim.
Local Open Scope nat_scope.
Arguments Nat.ltb : simpl never.
Arguments Nat.leb : simpl never.
Arguments Nat.eqb : simpl never.
Arguments Nat.sub : simpl never.

(* ---------------- the main loop of scan_flow_scalar as a top-level Fixpoint ---------------- *)
Section Loop.
Context {I : Type} (ops : InputOps I).
Local Open Scope N_scope.
Local Open Scope mon_scope.
Section Go.
Variables (F : nat) (single : bool) (start : marker).
Fixpoint rflow_go (f : nat) (acc : list chr) (lb : bool) (tb : N)
  (ws : list chr) : @M I (list chr) :=
  match f with
  | O => oof
  | S f =>
    look ops 4 ;;;
    s <- get ;;
    di <- (if m_col (sc_mark s) =? 0 then next_is_document_indicator ops else ret false) ;;
    if di then fail 70 start else
    z <- next_is ops is_z ;;
    if z then fail 71 start else
    lt <- col_lt_indent ;;
    if lt then fail 72 start else
    r <- consume_nonws ops F single acc start ;;
    let '(acc, lbl) := r in
    c <- look_ch ops ;;
    if (single && (c =? 39)) || (negb single && (c =? 34)) then ret acc
    else
      r <- flow_blanks ops F lbl lb tb ws ;;
      let '(lbl, lb, tb, ws) := r in
      if lbl then
        if negb lb then rflow_go f (nls tb acc) false 0 ws
        else if tb =? 0 then rflow_go f (32 :: acc) false 0 ws
        else rflow_go f (nls tb acc) false 0 ws
      else rflow_go f (ws ++ acc) lb tb []
  end.
End Go.

Lemma scan_flow_scalar_unfold_r F single :
  scan_flow_scalar ops F single =
  (start <- mark ;;
   skip_non_blank ops ;;;
   str <- rflow_go F single start F [] false 0 [] ;;
   skip_non_blank ops ;;;
   skip_ws_to_eol ops F SkipYes ;;;
   c <- peek ops ;; s <- get ;;
   let fl := 0 <? sc_flow_level s in
   if (((c =? 44) || (c =? 125) || (c =? 93)) && fl) || is_breakz c
      || ((c =? 58) && negb fl && (m_line start =? m_line (sc_mark s))) || ((c =? 58) && fl)
   then ret ({| sp_start := start; sp_end := sc_mark s |},
             TScalar (if single then SingleQuoted else DoubleQuoted) (rev str))
   else fail 74 (sc_mark s)).
Proof. reflexivity. Qed.
End Loop.

(* ---------------- escapes: the generated table ---------------- *)
Lemma code_length_table_val_r : code_length_table = [(120%N, 2); (117%N, 4); (85%N, 8)].
Proof. reflexivity. Qed.
Lemma code_length_le8_r e : code_length e <= 8.
Proof.
  unfold code_length. rewrite code_length_table_val_r. cbn [assocn].
  destruct (120 =? e)%N; [lia|]. destruct (117 =? e)%N; [lia|]. destruct (85 =? e)%N; lia.
Qed.

(* col_lt_indent: a skeleton read, the same value on both sides *)
Definition col_lt_indent_val (s1 : st1) : bool := (Z.of_N (m_col (sc_mark s1)) <? sc_indent s1)%Z.
Section RelFlowGen.
Variable N0 : nat.
Local Notation rwp := (rwpN N0).
Lemma rwp_col_lt_indent (Q : bool -> st1 -> bool -> st2 -> Prop) s1 s2 :
  SR s1 s2 -> Q (col_lt_indent_val s1) s1 (col_lt_indent_val s1) s2 ->
  rwp (@col_lt_indent strin) (@col_lt_indent bufin) Q s1 s2.
Proof.
  intros HS HQ. unfold col_lt_indent.
  apply (rwp_gets_skel N0 (fun s : st1 => (Z.of_N (m_col (sc_mark s)) <? sc_indent s)%Z)
                       (fun s : st2 => (Z.of_N (m_col (sc_mark s)) <? sc_indent s)%Z)); [exact HS|rel_eq|exact HQ].
Qed.
End RelFlowGen.

Section RelFlow.
Variable cap : nat.
Hypothesis cap_ge : 8 <= cap.
Variable N0 : nat.
Local Notation rwp := (rwpN N0).
Notation sops := str_ops.
Notation bops := (buf_ops cap).

Ltac case_if := match goal with |- rwpN _ (if ?b then _ else _) (if ?b then _ else _) _ _ _ => destruct b end.

(* ---------------- escapes ---------------- *)
(* read_hex n i peeks at offsets i .. i+n-1 (all buffered) and does not touch the state *)
Lemma rwp_read_hex n : forall i acc start (Q : N -> st1 -> N -> st2 -> Prop) s1 s2,
  SR s1 s2 -> i + n <= bl2 s2 -> (forall v, Q v s1 v s2) ->
  rwp (read_hex sops n i acc start) (read_hex bops n i acc start) Q s1 s2.
Proof using cap_ge.
  induction n as [|n IH]; intros i acc start Q s1 s2 HS HB HQ; cbn [read_hex].
  - apply rwp_ret. apply HQ.
  - apply rwp_bind. apply (rwp_peekn cap cap_ge); [exact HS|lia|].
    case_if; [apply IH; [exact HS|lia|exact HQ] | apply rwp_fail; reflexivity].
Qed.

(* resolve_escape: '\' and the escape character are buffered; a \x \u \U escape buffers its 2/4/8 digits itself *)
Lemma rwp_resolve_escape start (Q : chr -> st1 -> chr -> st2 -> Prop) s1 s2 :
  SR s1 s2 -> 2 <= bl2 s2 -> (forall r t1 t2, SR t1 t2 -> Q r t1 r t2) ->
  rwp (resolve_escape sops start) (resolve_escape bops start) Q s1 s2.
Proof using cap_ge.
  intros HS HB HQ. unfold resolve_escape. apply rwp_bind. apply (rwp_peekn cap cap_ge); [exact HS|lia|].
  destruct (assocc (rn1 s1 1) escape_table) as [r|].
  - apply rwp_bind. apply (rwp_skip_n_non_blank cap cap_ge); [exact HS|exact HB|]. intros t1 t2 HT _ _.
    apply rwp_ret. apply HQ. exact HT.
  - cbv zeta. pose proof (code_length_le8_r (rn1 s1 1)) as Hn. case_if; [apply rwp_fail; reflexivity|].
    apply rwp_bind. apply (rwp_skip_n_non_blank cap cap_ge); [exact HS|exact HB|]. intros u1 u2 HU _ _.
    apply rwp_bind. apply (rwp_look cap cap_ge); [exact HU|lia|]. intros v1 v2 HV _ _ BV _.
    apply rwp_bind. apply rwp_read_hex; [exact HV|lia|]. intros v.
    case_if; [|apply rwp_fail; reflexivity].
    apply rwp_bind. apply (rwp_skip_n_non_blank cap cap_ge); [exact HV|exact BV|]. intros t1 t2 HT _ _.
    apply rwp_ret. apply HQ. exact HT.
Qed.

(* ---------------- consume_flow_scalar_non_whitespace_chars ---------------- *)
Lemma rwp_consume_nonws fuel : forall single acc start
  (Q : list chr * bool -> st1 -> list chr * bool -> st2 -> Prop) s1 s2,
  SR s1 s2 -> (forall r t1 t2, SR t1 t2 -> Q r t1 r t2) ->
  rwp (consume_nonws sops fuel single acc start) (consume_nonws bops fuel single acc start) Q s1 s2.
Proof using cap_ge.
  induction fuel as [|fuel IH]; intros single acc start Q s1 s2 HS HQ; [apply rwp_oof_l|]. cbn [consume_nonws].
  apply rwp_bind. apply (rwp_look cap cap_ge); [exact HS|lia|]. intros u1 u2 HU _ _ BU _.
  apply rwp_bind. apply (rwp_peek cap cap_ge); [exact HU|lia|].
  case_if; [apply rwp_ret; apply HQ; exact HU|].
  apply rwp_bind. apply (rwp_peekn cap cap_ge); [exact HU|lia|].
  case_if.
  { (* '' in a single-quoted scalar *)
    apply rwp_bind. apply (rwp_skip_n_non_blank cap cap_ge); [exact HU|exact BU|]. intros v1 v2 HV _ _.
    apply IH; [exact HV|exact HQ]. }
  case_if; [apply rwp_ret; apply HQ; exact HU|].
  case_if; [apply rwp_ret; apply HQ; exact HU|].
  case_if.
  { (* an escaped line break: '\', then CR LF need three buffered characters *)
    apply rwp_bind. apply (rwp_look cap cap_ge); [exact HU|lia|]. intros v1 v2 HV _ _ BV _.
    apply rwp_bind. apply (rwp_skip_non_blank cap cap_ge); [exact HV|lia|]. intros w1 w2 HW _ BW.
    apply rwp_bind. apply (rwp_skip_linebreak cap cap_ge); [exact HW|lia|]. intros x1 x2 HX _ _.
    apply rwp_ret. apply HQ. exact HX. }
  case_if.
  { (* an escape sequence *)
    apply rwp_bind. apply rwp_resolve_escape; [exact HU|exact BU|]. intros r v1 v2 HV.
    apply IH; [exact HV|exact HQ]. }
  apply rwp_bind. apply (rwp_skip_non_blank cap cap_ge); [exact HU|lia|]. intros v1 v2 HV _ _.
  apply IH; [exact HV|exact HQ].
Qed.

(* ---------------- the blank-consuming loop ---------------- *)
Lemma rwp_flow_blanks fuel : forall lbl lb tb ws
  (Q : bool * bool * N * list chr -> st1 -> bool * bool * N * list chr -> st2 -> Prop) s1 s2,
  SR s1 s2 -> 1 <= bl2 s2 -> (forall r t1 t2, SR t1 t2 -> Q r t1 r t2) ->
  rwp (flow_blanks sops fuel lbl lb tb ws) (flow_blanks bops fuel lbl lb tb ws) Q s1 s2.
Proof using cap_ge.
  induction fuel as [|fuel IH]; intros lbl lb tb ws Q s1 s2 HS HB HQ; [apply rwp_oof_l|]. cbn [flow_blanks].
  apply rwp_bind. apply (rwp_peek cap cap_ge); [exact HS|exact HB|].
  destruct (is_blank (rn1 s1 0)).
  - destruct lbl.
    + apply rwp_bind. apply rwp_col_lt_indent; [exact HS|].
      case_if; [apply rwp_mark_fail; exact HS|].
      apply rwp_bind. apply (rwp_skip_blank cap cap_ge); [exact HS|exact HB|]. intros u1 u2 HU _ _.
      apply rwp_bind. apply (rwp_look cap cap_ge); [exact HU|lia|]. intros v1 v2 HV _ _ BV _.
      apply IH; [exact HV|exact BV|exact HQ].
    + apply rwp_bind. apply (rwp_skip_blank cap cap_ge); [exact HS|exact HB|]. intros u1 u2 HU _ _.
      apply rwp_bind. apply (rwp_look cap cap_ge); [exact HU|lia|]. intros v1 v2 HV _ _ BV _.
      apply IH; [exact HV|exact BV|exact HQ].
  - destruct (is_break (rn1 s1 0)); [|apply rwp_ret; apply HQ; exact HS].
    apply rwp_bind. apply (rwp_look cap cap_ge); [exact HS|lia|]. intros u1 u2 HU _ _ BU _.
    destruct lbl.
    + apply rwp_bind. apply (rwp_skip_break cap cap_ge); [exact HU|exact BU|]. intros v1 v2 HV _ _ _.
      apply rwp_bind. apply (rwp_look cap cap_ge); [exact HV|lia|]. intros w1 w2 HW _ _ BW _.
      apply IH; [exact HW|exact BW|exact HQ].
    + apply rwp_bind. apply (rwp_skip_break cap cap_ge); [exact HU|exact BU|]. intros v1 v2 HV _ _ _.
      apply rwp_bind. apply (rwp_look cap cap_ge); [exact HV|lia|]. intros w1 w2 HW _ _ BW _.
      apply IH; [exact HW|exact BW|exact HQ].
Qed.

(* ---------------- the main loop ---------------- *)
(* at the exit the closing quote has been looked at: one character is buffered *)
Lemma rwp_flow_go F single start f : forall acc lb tb ws
  (Q : list chr -> st1 -> list chr -> st2 -> Prop) s1 s2,
  SR s1 s2 -> (forall r t1 t2, SR t1 t2 -> 1 <= bl2 t2 -> Q r t1 r t2) ->
  rwp (rflow_go sops F single start f acc lb tb ws) (rflow_go bops F single start f acc lb tb ws) Q s1 s2.
Proof using cap_ge.
  induction f as [|f IH]; intros acc lb tb ws Q s1 s2 HS HQ; [apply rwp_oof_l|]. cbn [rflow_go].
  apply rwp_bind. apply (rwp_look cap cap_ge); [exact HS|lia|]. intros u1 u2 HU _ _ BU _.
  apply rwp_bind. apply rwp_get. cbv beta. sr_sync HU.
  apply rwp_bind.
  apply rwp_mono with (Q := Qe (fun _ t1 t2 => t1 = u1 /\ t2 = u2)).
  { destruct (m_col (sc_mark u1) =? 0)%N.
    - apply (rwp_next_is_document_indicator cap cap_ge); [exact HU|exact BU|]. split; [reflexivity|split; reflexivity].
    - apply rwp_ret. split; [reflexivity|split; reflexivity]. }
  intros di t1 di' t2 [<- [-> ->]].
  destruct di; [apply rwp_fail; reflexivity|].
  apply rwp_bind. apply (rwp_next_is cap cap_ge); [exact HU|lia|].
  case_if; [apply rwp_fail; reflexivity|].
  apply rwp_bind. apply rwp_col_lt_indent; [exact HU|].
  case_if; [apply rwp_fail; reflexivity|].
  apply rwp_bind. apply rwp_consume_nonws; [exact HU|]. intros [acc' lbl] v1 v2 HV. cbv beta iota.
  apply rwp_bind. apply (rwp_look_ch cap cap_ge); [exact HV|]. intros w1 w2 HW _ _ BW _.
  case_if; [apply rwp_ret; apply HQ; [exact HW|exact BW]|].
  apply rwp_bind. apply rwp_flow_blanks; [exact HW|exact BW|]. intros [[[lbl' lb'] tb'] ws'] x1 x2 HX. cbv beta iota.
  destruct lbl'; [|apply IH; [exact HX|exact HQ]].
  case_if; [apply IH; [exact HX|exact HQ]|]. case_if; apply IH; [exact HX|exact HQ|exact HX|exact HQ].
Qed.

(* ---------------- scan_flow_scalar ---------------- *)
Theorem scan_flow_scalar_ok : rel_scan_flow_scalar cap N0.
Proof using cap_ge.
  unfold rel_scan_flow_scalar. intros F single s1 s2 HS HB. rewrite !scan_flow_scalar_unfold_r.
  apply rwp_bind. apply rwp_mark; [exact HS|].
  apply rwp_bind. apply (rwp_skip_non_blank cap cap_ge); [exact HS|exact HB|]. intros u1 u2 HU _ _.
  apply rwp_bind. apply rwp_flow_go; [exact HU|]. intros str v1 v2 HV BV.
  apply rwp_bind. apply (rwp_skip_non_blank cap cap_ge); [exact HV|exact BV|]. intros w1 w2 HW _ _.
  eapply rwp_bind_rpost; [apply (skip_ws_to_eol_ok cap cap_ge); exact HW|]. intros tw x1 x2 HX BX.
  apply rwp_bind. apply (rwp_peek cap cap_ge); [exact HX|exact BX|].
  apply rwp_bind. apply rwp_get. cbv beta zeta. sr_sync HX.
  case_if; [|apply rwp_fail; reflexivity].
  apply rwp_ret_rpost; [exact HX|lia].
Qed.

End RelFlow.

Print Assumptions scan_flow_scalar_ok.
