(* C01, bounded work over the BUFFERED input (any capacity >= 8): the buffered scanner never exhausts the fuel
   F = 2 * |input| + 10 that run_buf gives to every loop.  Route: FUEL TRANSFER through a strengthened relational
   calculus.  [rwp] here is ScanRel.v's relational weakest precondition with two changes:
   (1) OutOfFuel on the BUFFERED side is no longer an escape: if the string run ends properly (value or error) the
       buffered run must end in the same way (or panic - excluded separately by ScanSafeTop.v); only OutOfFuel /
       Panic of the STRING side closes a goal (ScanFuelAll.v / ScanSafeStrTop.v exclude them at the top);
   (2) the calculus carries the bound [length (rem1 s1) <= N0] on the string side's remaining text (N0 = the length
       of the whole input at the top): the loops that are NOT in lockstep (chunk refresh of plain_chunk every
       cap - 1 characters, buffered loop + raw path of the block-scalar content line, the wide path of
       skip_block_scalar_indent, skip_spaces_to .. check_buf) need an absolute bound on the buffered side's work,
       which [2 * N0 + 6 <= F] provides ([rwp_bound] hands the bound to a proof).
   Loops in lockstep use the same fuel on both sides: the string side's [oof] closes the base case. *)
From Coq Require Import List NArith ZArith Bool Arith Lia.
Import ListNotations.
Require Import Parser SBase SPrim SDir SScalar SFetch SBuf InputRefine.
Local Open Scope nat_scope.

Notation st1 := (sc strin).
Notation st2 := (sc bufin).
Notation M1 := (@M strin).
Notation M2 := (@M bufin).

(* everything but the input *)
Definition erase {I} (s : sc I) : sc unit :=
  {| sc_in := tt; sc_mark := sc_mark s; sc_tokens := sc_tokens s;
     sc_stream_start := sc_stream_start s; sc_stream_end := sc_stream_end s; sc_adjacent := sc_adjacent s;
     sc_ska := sc_ska s; sc_sks := sc_sks s; sc_indent := sc_indent s; sc_indents := sc_indents s;
     sc_flow_level := sc_flow_level s; sc_tokens_parsed := sc_tokens_parsed s;
     sc_token_available := sc_token_available s; sc_lws := sc_lws s; sc_ifms := sc_ifms s |}.

(* the state relation: same skeleton, and the buffered input holds exactly the string input's remaining characters *)
Definition SR (s1 : st1) (s2 : st2) : Prop := Rel (sc_in s1) (sc_in s2) /\ erase s1 = erase s2.

Definition bl2 (s : st2) : nat := length (b_buf (sc_in s)).
Definition rem1 (s : st1) : list chr := si_chars (sc_in s).
Definition rn1 (s : st1) (i : nat) : chr := nth i (rem1 s) 0%N.

Lemma erase_fields {I J} (s : sc I) (t : sc J) : erase s = erase t ->
  sc_mark s = sc_mark t /\ sc_tokens s = sc_tokens t /\ sc_stream_start s = sc_stream_start t
  /\ sc_stream_end s = sc_stream_end t /\ sc_adjacent s = sc_adjacent t /\ sc_ska s = sc_ska t
  /\ sc_sks s = sc_sks t /\ sc_indent s = sc_indent t /\ sc_indents s = sc_indents t
  /\ sc_flow_level s = sc_flow_level t /\ sc_tokens_parsed s = sc_tokens_parsed t
  /\ sc_token_available s = sc_token_available t /\ sc_lws s = sc_lws t
  /\ sc_ifms s = sc_ifms t.
Proof. unfold erase. intros H. inversion H. repeat split; assumption. Qed.

Lemma erase_set_in {I} (i : I) (s : sc I) : erase (set_in i s) = erase s.
Proof. reflexivity. Qed.

Section RelCalc.
Variable cap : nat.
Hypothesis cap_ge : 8 <= cap.
(* the bound on the string side's remaining text (the length of the whole input, at the top) *)
Variable N0 : nat.
Notation sops := str_ops.
Notation bops := (buf_ops cap).

Definition rwpN {A1 A2} (m1 : M1 A1) (m2 : M2 A2) (Q : A1 -> st1 -> A2 -> st2 -> Prop) (s1 : st1) (s2 : st2) : Prop :=
  length (rem1 s1) <= N0 ->
  match m1 s1 with
  | Panic _ => True
  | OutOfFuel => True
  | Ok (a1, t1) => match m2 s2 with
                   | Ok (a2, t2) => length (rem1 t1) <= N0 /\ Q a1 t1 a2 t2
                   | Err _ _ => False
                   | Panic _ => True
                   | OutOfFuel => False
                   end
  | Err e1 k1 => match m2 s2 with
                 | Err e2 k2 => e1 = e2 /\ k1 = k2
                 | Ok _ => False
                 | Panic _ => True
                 | OutOfFuel => False
                 end
  end.
Notation rwp := rwpN.

(* the usual shape of a postcondition: equal values *)
Definition Qe {A} (P : A -> st1 -> st2 -> Prop) : A -> st1 -> A -> st2 -> Prop :=
  fun a1 t1 a2 t2 => a1 = a2 /\ P a1 t1 t2.

Lemma rwp_ret {A} (a1 a2 : A) (Q : A -> st1 -> A -> st2 -> Prop) s1 s2 : Q a1 s1 a2 s2 -> rwp (ret a1) (ret a2) Q s1 s2.
Proof. intros H B. cbn. auto. Qed.
Lemma rwp_bind {A1 A2 B1 B2} (m1 : M1 A1) (m2 : M2 A2) (f1 : A1 -> M1 B1) (f2 : A2 -> M2 B2)
  (Q : B1 -> st1 -> B2 -> st2 -> Prop) s1 s2 :
  rwp m1 m2 (fun a1 t1 a2 t2 => rwp (f1 a1) (f2 a2) Q t1 t2) s1 s2 -> rwp (bind m1 f1) (bind m2 f2) Q s1 s2.
Proof.
  unfold rwpN, bind. intros H B. specialize (H B).
  destruct (m1 s1) as [[a1 t1]|e1 k1|n1|]; auto.
  - destruct (m2 s2) as [[a2 t2]|e2 k2|n2|]; try contradiction.
    + destruct H as [Bt H]. exact (H Bt).
    + destruct (f1 a1 t1) as [[b1 u1]|? ?|?|]; auto.
  - destruct (m2 s2) as [[a2 t2]|e2 k2|n2|]; try contradiction; auto.
Qed.
(* equal-valued bind: the continuation is the same function on both sides *)
Lemma rwp_bind_e {A B1 B2} (m1 : M1 A) (m2 : M2 A) (f1 : A -> M1 B1) (f2 : A -> M2 B2) (Q : B1 -> st1 -> B2 -> st2 -> Prop) s1 s2 :
  rwp m1 m2 (Qe (fun a t1 t2 => rwp (f1 a) (f2 a) Q t1 t2)) s1 s2 -> rwp (bind m1 f1) (bind m2 f2) Q s1 s2.
Proof.
  intros H. apply rwp_bind. unfold rwpN in *. intros B. specialize (H B).
  destruct (m1 s1) as [[a1 t1]|e1 k1|n1|]; auto.
  destruct (m2 s2) as [[a2 t2]|e2 k2|n2|]; auto. destruct H as [Bt [-> H]]. split; [exact Bt|exact H].
Qed.
Lemma rwp_mono {A1 A2} (m1 : M1 A1) (m2 : M2 A2) (Q Q' : A1 -> st1 -> A2 -> st2 -> Prop) s1 s2 :
  rwp m1 m2 Q s1 s2 -> (forall a1 t1 a2 t2, Q a1 t1 a2 t2 -> Q' a1 t1 a2 t2) -> rwp m1 m2 Q' s1 s2.
Proof.
  unfold rwpN. intros H HQ B. specialize (H B). destruct (m1 s1) as [[a1 t1]|e1 k1|n1|]; auto.
  destruct (m2 s2) as [[a2 t2]|e2 k2|n2|]; auto. destruct H as [Bt H]. split; auto.
Qed.
(* the bound on the string side's remaining text is available to every proof *)
Lemma rwp_bound {A1 A2} (m1 : M1 A1) (m2 : M2 A2) (Q : A1 -> st1 -> A2 -> st2 -> Prop) s1 s2 :
  (length (rem1 s1) <= N0 -> rwp m1 m2 Q s1 s2) -> rwp m1 m2 Q s1 s2.
Proof. intros H B. exact (H B B). Qed.
Lemma rwp_fail {A1 A2} site k1 k2 (Q : A1 -> st1 -> A2 -> st2 -> Prop) s1 s2 :
  k1 = k2 -> rwp (@fail strin A1 site k1) (@fail bufin A2 site k2) Q s1 s2.
Proof. intros -> B. unfold fail. auto. Qed.
Lemma rwp_panic_r {A1 A2} site (m1 : M1 A1) (Q : A1 -> st1 -> A2 -> st2 -> Prop) s1 s2 : rwp m1 (@panic bufin A2 site) Q s1 s2.
Proof. intros B. unfold panic. destruct (m1 s1) as [[a1 t1]|e1 k1|n1|]; exact I. Qed.
Lemma rwp_oof_l {A1 A2} (m2 : M2 A2) (Q : A1 -> st1 -> A2 -> st2 -> Prop) s1 s2 : rwp (@oof strin A1) m2 Q s1 s2.
Proof. intros B. exact I. Qed.
Lemma rwp_panic_l {A1 A2} site (m2 : M2 A2) (Q : A1 -> st1 -> A2 -> st2 -> Prop) s1 s2 : rwp (@panic strin A1 site) m2 Q s1 s2.
Proof. intros B. exact I. Qed.
Lemma rwp_get (Q : st1 -> st1 -> st2 -> st2 -> Prop) s1 s2 : Q s1 s1 s2 s2 -> rwp get get Q s1 s2.
Proof. intros H B. cbn. auto. Qed.
Lemma rwp_gets {A1 A2} (f1 : st1 -> A1) (f2 : st2 -> A2) (Q : A1 -> st1 -> A2 -> st2 -> Prop) s1 s2 : Q (f1 s1) s1 (f2 s2) s2 -> rwp (gets f1) (gets f2) Q s1 s2.
Proof. intros H B. cbn. auto. Qed.
(* [put] / [modify]: the new string-side state must not hold more text than the old one *)
Lemma rwp_put t1 t2 (Q : unit -> st1 -> unit -> st2 -> Prop) s1 s2 :
  length (rem1 t1) <= length (rem1 s1) -> Q tt t1 tt t2 -> rwp (put t1) (put t2) Q s1 s2.
Proof. intros L H B. cbn. split; [exact (Nat.le_trans _ _ _ L B)|exact H]. Qed.
Lemma rwp_modify f1 f2 (Q : unit -> st1 -> unit -> st2 -> Prop) s1 s2 :
  length (rem1 (f1 s1)) <= length (rem1 s1) -> Q tt (f1 s1) tt (f2 s2) -> rwp (modify f1) (modify f2) Q s1 s2.
Proof. intros L H B. cbn. split; [exact (Nat.le_trans _ _ _ L B)|exact H]. Qed.

(* unfolding: what a related pair of results means when the string side ended properly *)
Lemma rwp_elim {A1 A2} (m1 : M1 A1) (m2 : M2 A2) (Q : A1 -> st1 -> A2 -> st2 -> Prop) s1 s2 :
  rwp m1 m2 Q s1 s2 -> length (rem1 s1) <= N0 ->
  match m1 s1, m2 s2 with
  | Ok (a1, t1), Ok (a2, t2) => length (rem1 t1) <= N0 /\ Q a1 t1 a2 t2
  | Err e1 k1, Err e2 k2 => e1 = e2 /\ k1 = k2
  | Ok _, Err _ _ => False
  | Err _ _, Ok _ => False
  | Ok _, OutOfFuel => False
  | Err _ _, OutOfFuel => False
  | _, _ => True
  end.
Proof.
  unfold rwpN. intros H B. specialize (H B).
  destruct (m1 s1) as [[a1 t1]|e1 k1|n1|]; destruct (m2 s2) as [[a2 t2]|e2 k2|n2|]; auto.
Qed.

(* ---------------- the state relation under skeleton updates ---------------- *)
Lemma SR_mark s1 s2 : SR s1 s2 -> sc_mark s1 = sc_mark s2.
Proof. intros [_ H]. apply erase_fields in H. tauto. Qed.
Lemma SR_rel s1 s2 : SR s1 s2 -> Rel (sc_in s1) (sc_in s2).
Proof. intros [H _]. exact H. Qed.
Lemma SR_erase s1 s2 : SR s1 s2 -> erase s1 = erase s2.
Proof. intros [_ H]. exact H. Qed.
(* a state-only update: any function that is the same record update on both sides.  Use:
     apply SR_upd; [exact HSR | reflexivity | reflexivity | f_equal-style goal]   or just prove SR by
     [split; [cbn; apply SR_rel | cbn; unfold erase; cbn; rewrite the field equalities]]. *)
Lemma SR_intro s1 s2 : Rel (sc_in s1) (sc_in s2) -> erase s1 = erase s2 -> SR s1 s2.
Proof. split; assumption. Qed.

(* generic: both sides apply "the same" skeleton function, described on erased states *)
Lemma SR_lift (g : sc unit -> sc unit) (f1 : st1 -> st1) (f2 : st2 -> st2) s1 s2 :
  SR s1 s2 ->
  sc_in (f1 s1) = sc_in s1 -> sc_in (f2 s2) = sc_in s2 ->
  erase (f1 s1) = g (erase s1) -> erase (f2 s2) = g (erase s2) -> SR (f1 s1) (f2 s2).
Proof. intros [R E] I1 I2 E1 E2. split; [rewrite I1, I2; exact R | rewrite E1, E2, E; reflexivity]. Qed.

(* ---------------- input primitives ---------------- *)
Lemma rel_nth_buf s b n : Rel s b -> n < length (b_buf b) -> nth n (b_buf b) 0%N = nth n (si_chars s) 0%N.
Proof.
  intros [k [E _]] Hn.
  transitivity (nth n (si_chars s ++ repeat 0%N k) 0%N); [|apply nth_app_pad].
  rewrite <- E. symmetry. apply app_nth1. exact Hn.
Qed.

Lemma rel_look s b n : Rel s b -> n <= cap ->
  match lookahead bops n b with
  | Ok b' => Rel s b' /\ n <= length (b_buf b') /\ length (b_buf b) <= length (b_buf b')
  | _ => False
  end.
Proof.
  intros [k [E Hk]] Hn. cbn [lookahead buf_ops].
  destruct (Nat.leb n (length (b_buf b))) eqn:E1.
  - apply Nat.leb_le in E1. split; [exists k; auto|lia].
  - destruct (Nat.ltb cap n) eqn:E2; [apply Nat.ltb_lt in E2; lia|].
    destruct (take_pad (n - length (b_buf b)) (b_rest b)) as [a r] eqn:ET.
    destruct (take_pad_spec _ _ _ _ ET) as [La [k' [Ek' Hk']]]. apply Nat.leb_gt in E1.
    cbn [b_buf b_rest]. split; [|rewrite app_length; lia].
    destruct (Nat.eq_dec k 0) as [->|Hk0].
    + exists k'. cbn [b_buf b_rest]. split; [|exact Hk']. rewrite <- app_assoc, Ek', app_assoc, E. cbn. rewrite app_nil_r. reflexivity.
    + assert (Hr : b_rest b = []) by (apply Hk; lia). rewrite Hr in *.
      exists (k + k'). cbn [b_buf b_rest]. split.
      * rewrite <- app_assoc, Ek'. cbn [app]. rewrite app_nil_r in E. rewrite E.
        rewrite <- app_assoc, <- repeat_app. reflexivity.
      * intros _. destruct (Nat.eq_dec k' 0) as [->|Hk'0]; [|apply Hk'; lia].
        cbn in Ek'. apply app_eq_nil in Ek'. tauto.
Qed.

Lemma rwp_look n (Q : unit -> st1 -> unit -> st2 -> Prop) s1 s2 :
  SR s1 s2 -> n <= cap ->
  (forall t1 t2, SR t1 t2 -> rem1 t1 = rem1 s1 -> erase t1 = erase s1 -> n <= bl2 t2 -> bl2 s2 <= bl2 t2 -> Q tt t1 tt t2) ->
  rwp (look sops n) (look bops n) Q s1 s2.
Proof.
  intros [R E] Hn HQ B. unfold look. pose proof (rel_look _ _ n R Hn) as HL.
  destruct (lookahead bops n (sc_in s2)) as [b'| | |]; try tauto. destruct HL as (R' & L1 & L2).
  cbn [lookahead str_ops]. split; [exact B|]. apply HQ; unfold bl2, rem1; cbn; auto.
  split; [cbn; destruct R' as [k Hk]; exists k; exact Hk | rewrite !erase_set_in; exact E].
Qed.

Lemma rwp_peekn n (Q : chr -> st1 -> chr -> st2 -> Prop) s1 s2 :
  SR s1 s2 -> n < bl2 s2 -> Q (rn1 s1 n) s1 (rn1 s1 n) s2 -> rwp (peekn sops n) (peekn bops n) Q s1 s2.
Proof.
  intros [R E] Hn HQ B. unfold peekn. cbn [peek_nth buf_ops str_ops]. unfold bl2 in Hn.
  destruct (nth_error (b_buf (sc_in s2)) n) as [c|] eqn:EN; [|apply nth_error_None in EN; lia].
  split; [exact B|].
  assert (H1 : c = rn1 s1 n).
  { transitivity (nth n (b_buf (sc_in s2)) 0%N); [symmetry; exact (nth_error_nth _ _ 0%N EN)|].
    exact (rel_nth_buf _ _ _ R Hn). }
  rewrite H1. exact HQ.
Qed.
Lemma rwp_peek (Q : chr -> st1 -> chr -> st2 -> Prop) s1 s2 :
  SR s1 s2 -> 1 <= bl2 s2 -> Q (rn1 s1 0) s1 (rn1 s1 0) s2 -> rwp (SPrim.peek sops) (SPrim.peek bops) Q s1 s2.
Proof. intros H1 H2 H3. apply rwp_peekn; auto. Qed.

Lemma rwp_look_ch (Q : chr -> st1 -> chr -> st2 -> Prop) s1 s2 :
  SR s1 s2 ->
  (forall t1 t2, SR t1 t2 -> rem1 t1 = rem1 s1 -> erase t1 = erase s1 -> 1 <= bl2 t2 -> bl2 s2 <= bl2 t2 ->
                 Q (rn1 t1 0) t1 (rn1 t1 0) t2) ->
  rwp (look_ch sops) (look_ch bops) Q s1 s2.
Proof.
  intros HS HQ. unfold look_ch. apply rwp_bind. apply rwp_look; [exact HS|lia|].
  intros t1 t2 HS' H1 H2 H3 H4. apply rwp_peek; auto.
Qed.

Lemma rwp_in_skip (Q : unit -> st1 -> unit -> st2 -> Prop) s1 s2 :
  SR s1 s2 -> 1 <= bl2 s2 ->
  (forall t1 t2, SR t1 t2 -> rem1 t1 = tl (rem1 s1) -> erase t1 = erase s1 -> bl2 t2 = bl2 s2 - 1 -> Q tt t1 tt t2) ->
  rwp (in_skip sops) (in_skip bops) Q s1 s2.
Proof.
  intros [R E] Hn HQ B. unfold in_skip, modify.
  split; [unfold rem1 in *; cbn; destruct (si_chars (sc_in s1)); cbn in *; lia|].
  apply HQ; unfold bl2, rem1 in *; cbn; auto.
  - split; [cbn [sc_in set_in upd]; apply (rel_skip1 cap); [exact R|destruct (b_buf (sc_in s2)); cbn in *; [lia|congruence]]
           | rewrite !erase_set_in; exact E].
  - destruct (b_buf (sc_in s2)); cbn in *; lia.
Qed.

Lemma rel_skipn s b n : Rel s b -> n <= length (b_buf b) ->
  Rel {| si_chars := skipn n (si_chars s); si_look := si_look s |} {| b_buf := skipn n (b_buf b); b_rest := b_rest b |}.
Proof.
  revert s b. induction n as [|n IH]; intros s b R Hn.
  - cbn [skipn]. destruct R as [k Hk]. exists k. exact Hk.
  - assert (Hne : b_buf b <> []) by (destruct (b_buf b); cbn in *; [lia|congruence]).
    pose proof (rel_skip1 cap s b R Hne) as R1. cbn [skip1 str_ops buf_ops] in R1.
    assert (L : n <= length (tl (b_buf b))) by (destruct (b_buf b); cbn in *; lia).
    specialize (IH _ _ R1 L). cbn [si_chars si_look b_buf b_rest] in IH.
    replace (skipn (S n) (si_chars s)) with (skipn n (tl (si_chars s))) by (destruct (si_chars s); [destruct n|]; reflexivity).
    replace (skipn (S n) (b_buf b)) with (skipn n (tl (b_buf b))) by (destruct (b_buf b); [destruct n|]; reflexivity).
    exact IH.
Qed.

Lemma rwp_in_skip_n n (Q : unit -> st1 -> unit -> st2 -> Prop) s1 s2 :
  SR s1 s2 -> n <= bl2 s2 ->
  (forall t1 t2, SR t1 t2 -> rem1 t1 = skipn n (rem1 s1) -> erase t1 = erase s1 -> bl2 t2 = bl2 s2 - n -> Q tt t1 tt t2) ->
  rwp (in_skip_n sops n) (in_skip_n bops n) Q s1 s2.
Proof.
  intros [R E] Hn HQ B. unfold in_skip_n. cbn [skip_n buf_ops str_ops]. unfold bl2 in *.
  destruct (Nat.ltb (length (b_buf (sc_in s2))) n) eqn:E1; [apply Nat.ltb_lt in E1; lia|].
  split; [unfold rem1 in *; cbn; rewrite skipn_length; lia|].
  apply HQ; unfold rem1; cbn; auto.
  - split; [cbn [sc_in set_in upd]; apply rel_skipn; assumption | rewrite !erase_set_in; exact E].
  - rewrite skipn_length. reflexivity.
Qed.

(* with an empty buffer the unread rest IS the string input's remaining text *)
Lemma rel_empty_buf s b : Rel s b -> b_buf b = [] -> b_rest b = si_chars s.
Proof.
  intros [k [E Hk]] H0. rewrite H0 in E. cbn in E. destruct k as [|k].
  - cbn in E. rewrite app_nil_r in E. exact E.
  - assert (Hr : b_rest b = []) by (apply Hk; lia). rewrite Hr in E. symmetry in E. apply app_eq_nil in E.
    destruct E as [_ E]. discriminate E.
Qed.

Lemma rwp_raw_read (Q : option chr -> st1 -> option chr -> st2 -> Prop) s1 s2 :
  SR s1 s2 -> bl2 s2 = 0 ->
  (forall c t1 t2, SR t1 t2 -> erase t1 = erase s1 ->
     match c with
     | Some x => rem1 s1 = x :: rem1 t1 /\ is_breakz x = false /\ bl2 t2 = 0
     | None => rem1 t1 = rem1 s1 /\ bl2 t2 <= 1 /\ (bl2 t2 = 0 -> rem1 s1 = [])
               /\ match rem1 s1 with [] => True | x :: _ => is_breakz x = true end
     end -> Q c t1 c t2) ->
  rwp (raw_read sops) (raw_read bops) Q s1 s2.
Proof.
  intros [R E] H0 HQ B. unfold raw_read. cbn [raw_read_non_breakz buf_ops str_ops]. unfold bl2 in *.
  assert (Hb : b_buf (sc_in s2) = []) by (destruct (b_buf (sc_in s2)); [reflexivity|discriminate]).
  pose proof (rel_empty_buf _ _ R Hb) as Hr. rewrite Hr.
  destruct (si_chars (sc_in s1)) as [|c r] eqn:EC.
  - split; [clear HQ; unfold rem1 in *; cbn in *; rewrite ?EC in *; cbn in *; lia|]. apply HQ.
    + split; [exact R | rewrite !erase_set_in; exact E].
    + rewrite erase_set_in. reflexivity.
    + unfold rem1. cbn [sc_in set_in upd]. rewrite EC, H0. repeat split; auto.
  - destruct (is_breakz c) eqn:EB.
    + rewrite Hb. cbn [length]. destruct (Nat.leb cap 0) eqn:E0; [apply Nat.leb_le in E0; lia|].
      split; [clear HQ; unfold rem1 in *; cbn in *; rewrite ?EC in *; cbn in *; lia|].
      apply HQ.
      * split; [|rewrite !erase_set_in; exact E]. cbn [sc_in set_in upd]. exists 0.
        cbn [b_buf b_rest repeat app]. rewrite app_nil_r, EC. split; [reflexivity|lia].
      * rewrite erase_set_in. reflexivity.
      * unfold rem1. cbn [sc_in set_in upd b_buf app length]. rewrite EC. repeat split; auto. intros HH; discriminate HH.
    + split; [clear HQ; unfold rem1 in *; cbn in *; rewrite ?EC in *; cbn in *; lia|]. apply HQ.
      * split; [|rewrite !erase_set_in; exact E]. cbn [sc_in set_in upd]. exists 0.
        cbn [b_buf b_rest repeat app si_chars]. rewrite Hb, app_nil_r. split; [reflexivity|lia].
      * rewrite erase_set_in. reflexivity.
      * unfold rem1. cbn [sc_in set_in upd b_buf si_chars]. rewrite EC, Hb. repeat split; auto.
Qed.

(* the ONE place where the two sides see different values: the buffered length *)
Lemma rwp_buf_is_empty (Q : bool -> st1 -> bool -> st2 -> Prop) s1 s2 :
  Q (Nat.eqb (si_look (sc_in s1)) 0) s1 (Nat.eqb (bl2 s2) 0) s2 -> rwp (buf_is_empty sops) (buf_is_empty bops) Q s1 s2.
Proof. intros H B. cbn. split; [exact B|exact H]. Qed.

Lemma rwp_assert_buflen n site (Q : unit -> st1 -> unit -> st2 -> Prop) s1 s2 :
  n <= bl2 s2 -> Q tt s1 tt s2 -> rwp (assert_buflen sops n site) (assert_buflen bops n site) Q s1 s2.
Proof.
  intros Hn HQ B. unfold assert_buflen. cbn [buflen buf_ops str_ops]. unfold bl2 in Hn.
  destruct (Nat.ltb (length (b_buf (sc_in s2))) n) eqn:E; [apply Nat.ltb_lt in E; lia|].
  destruct (Nat.ltb (si_look (sc_in s1)) n); auto.
Qed.


(* ---------------- one-sided steps (for loops that are not in lockstep: chunk refreshes, raw paths) ---------------- *)
Lemma rwp_step_l {A B1 B2} (m : M1 A) (f1 : A -> M1 B1) (m2 : M2 B2) (Q : B1 -> st1 -> B2 -> st2 -> Prop) s1 s2 a t1 :
  m s1 = Ok (a, t1) -> length (rem1 t1) <= length (rem1 s1) -> rwp (f1 a) m2 Q t1 s2 -> rwp (bind m f1) m2 Q s1 s2.
Proof. intros Hm L H B. unfold rwpN, bind in *. rewrite Hm. apply H. exact (Nat.le_trans _ _ _ L B). Qed.
Lemma rwp_step_r {A B1 B2} (m : M2 A) (m1 : M1 B1) (f2 : A -> M2 B2) (Q : B1 -> st1 -> B2 -> st2 -> Prop) s1 s2 a t2 :
  m s2 = Ok (a, t2) -> rwp m1 (f2 a) Q s1 t2 -> rwp m1 (bind m f2) Q s1 s2.
Proof. intros Hm H B. unfold rwpN, bind in *. rewrite Hm. exact (H B). Qed.
(* the string side's lookahead only bumps its counter *)
Definition bump (n : nat) (s1 : st1) : st1 :=
  set_in {| si_chars := si_chars (sc_in s1); si_look := Nat.max (si_look (sc_in s1)) n |} s1.
Lemma look_str_ok n s1 : look sops n s1 = Ok (tt, bump n s1).
Proof. reflexivity. Qed.
Lemma SR_bump n s1 s2 : SR s1 s2 -> SR (bump n s1) s2.
Proof.
  intros [[k Hk] E]. split; [exists k; exact Hk | unfold bump; rewrite erase_set_in; exact E].
Qed.
Lemma rem1_bump n s1 : rem1 (bump n s1) = rem1 s1.
Proof. reflexivity. Qed.
Lemma erase_bump n s1 : erase (bump n s1) = erase s1.
Proof. reflexivity. Qed.
(* the buffered side's lookahead within the capacity succeeds and keeps the relation *)
Lemma look_buf_ok n s1 s2 : SR s1 s2 -> n <= cap ->
  exists t2, look bops n s2 = Ok (tt, t2) /\ SR s1 t2 /\ n <= bl2 t2 /\ bl2 s2 <= bl2 t2.
Proof.
  intros [R E] Hn. unfold look. pose proof (rel_look _ _ n R Hn) as HL.
  destruct (lookahead bops n (sc_in s2)) as [b'| | |]; try tauto. destruct HL as (R' & L1 & L2).
  eexists. split; [reflexivity|]. unfold bl2. cbn [sc_in set_in upd]. split; [|split; assumption].
  split; [exact R' | rewrite erase_set_in; exact E].
Qed.

(* ---------------- contracts (proved in the ScanRel*.v files) ----------------
   [rpost k]: equal values, related states, at least k characters buffered on the buffered side. *)
Definition rpost {A} (k : nat) : A -> st1 -> A -> st2 -> Prop := Qe (fun _ t1 t2 => SR t1 t2 /\ k <= bl2 t2).

Definition rel_skip_to_next_token : Prop := forall F s1 s2, SR s1 s2 ->
  rwp (skip_to_next_token sops F) (skip_to_next_token bops F) (rpost 1) s1 s2.
Definition rel_skip_ws_to_eol : Prop := forall F stb s1 s2, SR s1 s2 ->
  rwp (skip_ws_to_eol sops F stb) (skip_ws_to_eol bops F stb) (rpost 1) s1 s2.
Definition rel_skip_yaml_whitespace : Prop := forall F s1 s2, SR s1 s2 ->
  rwp (skip_yaml_whitespace sops F) (skip_yaml_whitespace bops F) (rpost 1) s1 s2.
Definition rel_skip_linebreak : Prop := forall s1 s2, SR s1 s2 -> 2 <= bl2 s2 ->
  rwp (skip_linebreak sops) (skip_linebreak bops) (rpost 0) s1 s2.
Definition rel_scan_directive : Prop := forall F s1 s2, SR s1 s2 -> 1 <= bl2 s2 ->
  rwp (scan_directive sops F) (scan_directive bops F) (rpost 0) s1 s2.
Definition rel_scan_tag : Prop := forall F s1 s2, SR s1 s2 ->
  rwp (scan_tag sops F) (scan_tag bops F) (rpost 0) s1 s2.
Definition rel_scan_anchor : Prop := forall F alias s1 s2, SR s1 s2 -> 1 <= bl2 s2 ->
  rwp (scan_anchor sops F alias) (scan_anchor bops F alias) (rpost 0) s1 s2.
Definition rel_scan_flow_scalar : Prop := forall F single s1 s2, SR s1 s2 -> 1 <= bl2 s2 ->
  rwp (scan_flow_scalar sops F single) (scan_flow_scalar bops F single) (rpost 0) s1 s2.
Definition rel_scan_plain_scalar : Prop := forall F s1 s2, 2 * N0 + 6 <= F -> SR s1 s2 ->
  rwp (scan_plain_scalar sops F) (scan_plain_scalar bops F) (rpost 0) s1 s2.
Definition rel_scan_block_scalar : Prop := forall F literal s1 s2, 2 * N0 + 6 <= F -> SR s1 s2 -> 1 <= bl2 s2 ->
  rwp (scan_block_scalar sops F literal) (scan_block_scalar bops F literal) (rpost 0) s1 s2.

End RelCalc.
