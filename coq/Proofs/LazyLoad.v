(* C17, repeated load(recv, multi = false) on the lazy pipeline (Model/Lazy.v) against plain iteration.

   A. [lazy_sm_char]: a lazy step pulls a list [buf] of tokens from the scanner, one next_token call each, runs the
      state machine on them, and has asked for each of them ([state_machine] on all but the last asked for more).
   B. [SG]: the scanner's flags against the last token it handed out (Proofs/LazyScan.v lifted along pulls).
   C. [LInv]: between steps the parser holds nothing but its one-token cache, and a full cache is the last token the
      scanner handed out (Proofs/LazyRead.v).
   D. document boundaries: when load(.., false) is entered the second time or later and stream_ended() holds, the
      cache holds the StreamEnd token and that token sits at the scanner's mark.
   E. the recursive descent on the lazy pipeline against Model/PushLoad.v on the list of remaining results, and the
      theorems. *)
From Coq Require Import List NArith ZArith Bool Arith Lia.
Import ListNotations.
Require Import Parser SBase SPrim SDir SScalar SFetch Pipe PushLoad Lazy Grammar ScanRelTop.
Require Import C02base C02tail C02run PushLoadProofs LazyRead LazyFusion LazyScan ScanFuelAll.
Local Open Scope nat_scope.

(* ---------------- A. what a lazy step does ---------------- *)
Inductive Pulls (F : nat) : sc strin -> list token -> sc strin -> Prop :=
| PuNil s : Pulls F s [] s
| PuCons s t s1 buf s' : next_token str_ops F s = SBase.Ok (Some t, s1) -> Pulls F s1 buf s' -> Pulls F s (t :: buf) s'.

Lemma lazy_sm_0 F s p :
  lazy_sm 0 F s p =
  match state_machine p with
  | Parser.Ok (ev, p') => inl (ev, {| lz_sc := s; lz_p := p' |})
  | Parser.Err PErrScan => inr PFuel
  | Parser.Err (PErr site m) => inr (PParseErr site m)
  | Parser.Panic n => inr (PPanic n)
  end.
Proof. reflexivity. Qed.

Lemma lazy_sm_char F : forall k s p ev z', lazy_sm k F s p = inl (ev, z') ->
  exists buf, Pulls F s buf (lz_sc z') /\ state_machine (ext buf p) = Parser.Ok (ev, lz_p z')
     /\ (buf = [] \/ exists b' t, buf = b' ++ [t] /\ state_machine (ext b' p) = Parser.Err PErrScan).
Proof.
  induction k as [|k IH]; intros s p ev z' H.
  - rewrite lazy_sm_0 in H. destruct (state_machine p) as [[ev0 q]|[|a m]|n] eqn:E; try discriminate.
    inversion H; subst. exists []. rewrite ext_nil. cbn [lz_sc lz_p]. split; [constructor|]. split; [exact E|left; reflexivity].
  - rewrite lazy_sm_S in H. destruct (state_machine p) as [[ev0 q]|[|a m]|n] eqn:E; try discriminate.
    + inversion H; subst. exists []. rewrite ext_nil. cbn [lz_sc lz_p]. split; [constructor|]. split; [exact E|left; reflexivity].
    + unfold scan_next_token in H. destruct (next_token str_ops F s) as [[[t|] s1]|e m|n|] eqn:EN; try discriminate.
      destruct (IH _ _ _ _ H) as (buf & HP & HS & HM). exists (t :: buf). split; [econstructor; eauto|].
      rewrite <- ext_feed. split; [exact HS|]. right. destruct HM as [->|(b' & t' & -> & HM)].
      * exists [], t. rewrite ext_nil. auto.
      * exists (t :: b'), t'. rewrite <- ext_feed. auto.
Qed.

Lemma lazy_sm_not_done F : forall k s p, lazy_sm k F s p <> inr PDone.
Proof.
  induction k as [|k IH]; intros s p HS.
  - rewrite lazy_sm_0 in HS. destruct (state_machine p) as [[? ?]|[|? ?]|?]; discriminate.
  - rewrite lazy_sm_S in HS. destruct (state_machine p) as [[? ?]|[|? ?]|?]; try discriminate.
    unfold scan_next_token in HS. destruct (next_token str_ops F s) as [[[t|] s1]|? ?|?|]; try discriminate. eapply IH; eauto.
Qed.
Lemma lazy_step_not_done k F z v : lazy_step k F z = inr v -> v <> PDone.
Proof. intros H ->. exact (lazy_sm_not_done F _ _ _ H). Qed.

(* ---------------- B. the scanner's flags and the last token handed out ---------------- *)
Definition SG (s : sc strin) (last : option token) : Prop :=
  SEInv s /\ SSInv s /\
  (if sc_stream_end s then last = Some (span_empty (sc_mark s), TStreamEnd) else forall sp, last <> Some (sp, TStreamEnd)).
Definition upd_last (buf : list token) (last : option token) : option token := fold_left (fun _ t => Some t) buf last.

Lemma upd_last_app b t last : upd_last (b ++ [t]) last = Some t.
Proof. unfold upd_last. rewrite fold_left_app. reflexivity. Qed.

Lemma pulls_SG F s buf s' : Pulls F s buf s' -> forall last, SG s last ->
  SG s' (upd_last buf last) /\ (sc_stream_start s = true -> sc_stream_start s' = true) /\ (buf <> [] -> sc_stream_start s' = true)
  /\ (buf = [] -> s' = s).
Proof.
  induction 1 as [s|s t s1 buf s' E HP IH]; intros last (HI & HSS & HL).
  - split; [split; auto|]. split; [auto|]. split; [congruence|auto].
  - destruct (next_token_se str_ops F _ _ _ HI HSS E) as (SE0 & HI1 & SS1 & HT).
    assert (G1 : SG s1 (Some t)).
    { split; [exact HI1|]. split; [left; exact SS1|]. destruct t as [sp tk]. cbn [fst snd] in HT.
      destruct tk; cbn [is_se] in HT; try (rewrite HT; intros sp' X; discriminate X).
      destruct HT as [-> ->]. reflexivity. }
    destruct (IH _ G1) as (A & B & C & D). split; [exact A|]. split; [intros _; apply B, SS1|]. split; [intros _; apply B, SS1|discriminate].
Qed.

(* ---------------- C. between steps ---------------- *)
Definition LInv (z : lz) : Prop :=
  p_toks (lz_p z) = [] /\ exists last, SG (lz_sc z) last /\ (forall t, p_token (lz_p z) = Some t -> last = Some t).

Lemma p_toks_ext_nil buf p : p_toks p = [] -> p_toks (ext buf p) = buf.
Proof. intros E. rewrite p_toks_ext, E. reflexivity. Qed.

(* one step, with everything that is known about it *)
Lemma lazy_step_facts k F z ev z' : LInv z -> lazy_step k F z = inl (ev, z') ->
  exists buf last,
    Pulls F (lz_sc z) buf (lz_sc z') /\ state_machine (ext buf (lz_p z)) = Parser.Ok (ev, lz_p z')
    /\ p_toks (lz_p z') = [] /\ cpost (p_token (lz_p z)) buf (p_token (lz_p z'))
    /\ SG (lz_sc z) last /\ (forall t, p_token (lz_p z) = Some t -> last = Some t)
    /\ SG (lz_sc z') (upd_last buf last) /\ (forall t, p_token (lz_p z') = Some t -> upd_last buf last = Some t).
Proof.
  intros (HT & last & HG & HC) H. unfold lazy_step in H.
  destruct (lazy_sm_char F _ _ _ _ _ H) as (buf & HP & HS & HM).
  destruct (state_machine_reads _ _ _ HS) as (c & EC & CP & _). rewrite (p_toks_ext_nil _ _ HT) in EC. rewrite p_token_ext in CP.
  assert (TQ : p_toks (lz_p z') = []).
  { destruct HM as [->|(b' & t & -> & HM)].
    - symmetry in EC. apply app_eq_nil in EC. apply EC.
    - rewrite <- ext_ext in HS. eapply step_lean; eauto. }
  rewrite TQ, app_nil_r in EC. subst c.
  destruct (pulls_SG _ _ _ _ HP _ HG) as (HG' & _).
  exists buf, last. split; [exact HP|]. split; [exact HS|]. split; [exact TQ|]. split; [exact CP|]. split; [exact HG|].
  split; [exact HC|]. split; [exact HG'|].
  intros t Ht. destruct CP as [X|[[-> X]|(c' & u & -> & X)]].
  - congruence.
  - cbn. apply HC. congruence.
  - rewrite upd_last_app. congruence.
Qed.

Lemma lazy_step_LInv k F z ev z' : LInv z -> lazy_step k F z = inl (ev, z') -> LInv z'.
Proof.
  intros HI H. destruct (lazy_step_facts _ _ _ _ _ HI H) as (buf & last & _ & _ & TQ & _ & _ & _ & HG' & HC').
  split; [exact TQ|]. exists (upd_last buf last). split; assumption.
Qed.

Lemma LInv_init text keep : LInv (lz_init text keep).
Proof.
  split; [reflexivity|]. exists None. split; [|intros t X; discriminate X].
  split; [apply SEInv_init|]. split; [apply SSInv_init|]. cbn. intros sp X. discriminate X.
Qed.

(* ---------------- D. document boundaries ---------------- *)
(* the next token the parser will look at, if it holds one *)
Definition nx (p : parser) : option token :=
  match p_token p with Some t => Some t | None => match p_toks p with [] => None | t :: _ => Some t end end.

Lemma stream_start_shape p ev q : stream_start p = Parser.Ok (ev, q) ->
  exists t, nx p = Some t /\ snd t = TStreamStart /\ p_token q = None /\ mes q + 1 = mes p.
Proof.
  destruct p as [toks c sts st an aid tgs kp]. unfold stream_start, Parser.peek, nx, mes. cbn [p_token p_toks].
  destruct c as [[sp tk]|].
  - destruct tk; intros H; inversion H; subst. exists (sp, TStreamStart). cbn. repeat split; lia.
  - destruct toks as [|[sp tk] r]; [discriminate|]. destruct tk; intros H; inversion H; subst.
    exists (sp, TStreamStart). cbn. repeat split; lia.
Qed.

Lemma document_end_shape p ev q : document_end p = Parser.Ok (ev, q) ->
  p_token q <> None \/ (exists t, nx p = Some t /\ snd t = TDocumentEnd /\ p_token q = None /\ mes q + 1 = mes p).
Proof.
  destruct p as [toks c sts st an aid tgs kp]. unfold document_end, Parser.peek, nx, mes. cbn [p_token p_toks].
  destruct c as [[sp tk]|]; [|destruct toks as [|[sp tk] r]; [discriminate|]];
    destruct tk; cbn; try (destruct kp; cbn; intros H; inversion H; subst; cbn; left; discriminate);
    try (destruct kp; cbn; discriminate);
    destruct kp; cbn; intros H; inversion H; subst; cbn; right; exists (sp, TDocumentEnd); cbn; repeat split; lia.
Qed.

Lemma document_start_at_stream_end p b sp : p_token p = Some (sp, TStreamEnd) ->
  document_start p b = Parser.Ok ((EStreamEnd, sp), skip (set_state p SEnd)).
Proof.
  destruct p as [toks c sts st an aid tgs kp]. cbn [p_token]. intros ->.
  unfold document_start. cbn [skip_document_ends p_toks length]. unfold Parser.peek. cbn. reflexivity.
Qed.

Lemma mes_ext buf p : p_toks p = [] -> mes (ext buf p) = length buf + match p_token p with Some _ => 1 | None => 0 end.
Proof. intros E. unfold mes. rewrite p_toks_ext, p_token_ext, E. reflexivity. Qed.
Lemma nx_ext buf p : p_toks p = [] -> nx (ext buf p) = match p_token p with Some t => Some t | None => hd_error buf end.
Proof. intros E. unfold nx. rewrite p_toks_ext, p_token_ext, E. cbn [app]. destruct (p_token p); [reflexivity|]. destruct buf; reflexivity. Qed.

(* a step that consumed exactly the token it looked at first, a token that is not StreamEnd, and left the cache empty:
   the scanner has not handed out StreamEnd *)
Lemma consumed_one_not_se z z' buf last t :
  p_toks (lz_p z) = [] -> (forall u, p_token (lz_p z) = Some u -> last = Some u) ->
  SG (lz_sc z') (upd_last buf last) ->
  nx (ext buf (lz_p z)) = Some t -> snd t <> TStreamEnd -> p_toks (lz_p z') = [] -> p_token (lz_p z') = None ->
  mes (lz_p z') + 1 = mes (ext buf (lz_p z)) ->
  sc_stream_end (lz_sc z') = false.
Proof.
  intros HT HC (_ & _ & HL) HN NE TQ CQ HM.
  rewrite (mes_ext _ _ HT) in HM. rewrite (nx_ext _ _ HT) in HN. unfold mes in HM. rewrite TQ, CQ in HM. cbn [length] in HM.
  destruct (sc_stream_end (lz_sc z')); [exfalso|reflexivity].
  destruct (p_token (lz_p z)) as [u|] eqn:EC.
  - assert (buf = []) by (destruct buf; [reflexivity|cbn [length] in HM; lia]). subst buf. cbn in HL.
    rewrite (HC u eq_refl) in HL. inversion HN; subst. inversion HL; subst. apply NE. reflexivity.
  - destruct buf as [|t1 [|t2 r]]; cbn [length] in HM; try lia. cbn in HN, HL. inversion HN; subst. inversion HL; subst. apply NE. reflexivity.
Qed.

Lemma Inv_ext buf p g : Inv (ext buf p) g <-> Inv p g.
Proof. unfold Inv. rewrite p_state_ext, p_states_ext. tauto. Qed.

Lemma stack_frames_rooted stk : Rooted stk -> exists pre, stack_frames stk = pre ++ [FDoc].
Proof.
  induction 1 as [|s r Hc Hr [pre IH]]; [exists []; reflexivity|].
  unfold stack_frames in *. cbn [flat_map]. rewrite IH. exists (cont_frames s ++ pre). rewrite app_assoc. reflexivity.
Qed.
Lemma Inv_docdone p : Inv p (GStream [FDocDone]) -> p_state p = SDocumentEnd.
Proof.
  unfold Inv. destruct (p_state p); cbn [InvS]; try reflexivity;
    try (intros [_ X]; discriminate X);
    try (intros (HR & a & _ & E); destruct (stack_frames_rooted _ HR) as (pre & EP); rewrite EP, app_assoc in E;
         inversion E as [E']; destruct (a ++ pre) as [|f [|f' l]]; cbn in E'; try discriminate; destruct l; discriminate).
Qed.
Lemma Inv_top p : Inv p (GStream []) -> p_state p = SImplicitDocumentStart \/ p_state p = SDocumentStart.
Proof.
  unfold Inv. destruct (p_state p); cbn [InvS]; auto;
    try (intros [_ X]; discriminate X);
    try (intros (HR & a & _ & E); destruct (stack_frames_rooted _ HR) as (pre & EP); rewrite EP, app_assoc in E;
         inversion E as [E']; destruct (a ++ pre); discriminate).
Qed.
Lemma Inv_end p g : Inv p g -> p_state p = SEnd -> g = GEnd.
Proof. unfold Inv. intros H E. rewrite E in H. apply H. Qed.
Lemma Inv_GEnd p : Inv p GEnd -> p_state p = SEnd.
Proof.
  unfold Inv. destruct (p_state p); cbn [InvS]; auto; try (intros [_ X]; discriminate X);
    try (intros (_ & a & _ & E); discriminate E).
Qed.

(* ---------------- E. iteration, and the recursive descent on it ---------------- *)
Section Descent.
Variables k F : nat.

(* the rest of the iteration from [z]: events, then the verdict *)
Inductive Run : lz -> list ev -> pend -> Prop :=
| RunEnd z : p_state (lz_p z) = SEnd -> Run z [] PDone
| RunErr z v : p_state (lz_p z) <> SEnd -> lazy_step k F z = inr v -> Run z [] v
| RunStep z x z1 evs v : p_state (lz_p z) <> SEnd -> lazy_step k F z = inl (x, z1) -> Run z1 evs v -> Run z (x :: evs) v.

Inductive Steps : lz -> list ev -> lz -> Prop :=
| StNil z : Steps z [] z
| StCons z x z1 c z' : p_state (lz_p z) <> SEnd -> lazy_step k F z = inl (x, z1) -> Steps z1 c z' -> Steps z (x :: c) z'.

Lemma Steps_app z c1 z1 c2 z2 : Steps z c1 z1 -> Steps z1 c2 z2 -> Steps z (c1 ++ c2) z2.
Proof. induction 1; intros H2; cbn [app]; [exact H2|]. econstructor; eauto. Qed.
Lemma Steps_one z x z1 : p_state (lz_p z) <> SEnd -> lazy_step k F z = inl (x, z1) -> Steps z [x] z1.
Proof. intros A B. econstructor; eauto. constructor. Qed.

Lemma state_not_end_dec (s : pstate) : s = SEnd \/ s <> SEnd.
Proof. destruct s; auto; right; discriminate. Qed.

Lemma lazy_parse_step z : p_state (lz_p z) <> SEnd -> lazy_parse k F z = lazy_step k F z.
Proof. unfold lazy_parse. destruct (p_state (lz_p z)); congruence. Qed.

Lemma lazy_run_Run : forall fuel z acc l v, lazy_run fuel k F z acc = (l, v) -> v <> PFuel ->
  exists evs, l = rev acc ++ evs /\ Run z evs v.
Proof.
  induction fuel as [|fuel IH]; intros z acc l v H NF; cbn [lazy_run] in H; [inversion H; subst; congruence|].
  destruct (state_not_end_dec (p_state (lz_p z))) as [E|NE].
  - rewrite E in H. inversion H; subst. exists []. rewrite app_nil_r. split; [reflexivity|]. constructor. exact E.
  - assert (H' : match lazy_step k F z with inl (ev, z') => lazy_run fuel k F z' (ev :: acc) | inr e => (rev acc, e) end = (l, v))
      by (destruct (p_state (lz_p z)); try exact H; congruence).
    clear H. destruct (lazy_step k F z) as [[x z1]|e] eqn:ES.
    + destruct (IH _ _ _ _ H' NF) as (evs & -> & HR). exists (x :: evs). split; [cbn [rev]; rewrite <- app_assoc; reflexivity|].
      eapply RunStep; eauto.
    + inversion H'; subst. exists []. rewrite app_nil_r. split; [reflexivity|]. eapply RunErr; eauto.
Qed.

(* the grammar invariant of C02 along lazy steps *)
Lemma step_inv z g e sp z' : LInv z -> Inv (lz_p z) g -> p_state (lz_p z) <> SEnd -> lazy_step k F z = inl ((e, sp), z') ->
  exists g', gstep g e = Some g' /\ Inv (lz_p z') g'.
Proof.
  intros HL HI NE H. destruct (lazy_step_facts _ _ _ _ _ HL H) as (buf & last & _ & HS & _).
  pose proof (state_machine_post (ext buf (lz_p z)) g) as HP. rewrite HS in HP. cbn [post] in HP. apply HP.
  - apply Inv_ext. exact HI.
  - rewrite p_state_ext. exact NE.
Qed.

Lemma steps_inv z c z' : Steps z c z' -> forall g, LInv z -> Inv (lz_p z) g ->
  exists g', grun g (kinds c) = Some g' /\ LInv z' /\ Inv (lz_p z') g'.
Proof.
  induction 1 as [z|z [e sp] z1 c z' NE HS HT IH]; intros g HL HI; [exists g; auto|].
  destruct (step_inv _ _ _ _ _ HL HI NE HS) as (g1 & G1 & I1). pose proof (lazy_step_LInv _ _ _ _ _ HL HS) as L1.
  destruct (IH g1 L1 I1) as (g' & G' & L' & I'). exists g'. cbn [kinds map fst grun]. rewrite G1. auto.
Qed.

Lemma run_grammar z evs v : Run z evs v -> forall g, LInv z -> Inv (lz_p z) g ->
  exists g', grun g (kinds evs) = Some g' /\ (v = PDone -> g' = GEnd).
Proof.
  induction 1 as [z E|z v NE HS|z [e sp] z1 evs v NE HS HR IH]; intros g HL HI.
  - exists g. split; [reflexivity|]. intros _. eapply Inv_end; eauto.
  - exists g. split; [reflexivity|]. intros ->. exfalso.
    unfold lazy_step in HS. clear -HS. revert HS. generalize (lz_sc z) (lz_p z). induction k as [|k0 IHk]; intros s p HS.
    + rewrite lazy_sm_0 in HS. destruct (state_machine p) as [[? ?]|[|? ?]|?]; discriminate.
    + rewrite lazy_sm_S in HS. destruct (state_machine p) as [[? ?]|[|? ?]|?]; try discriminate.
      unfold scan_next_token in HS. destruct (next_token str_ops F s) as [[[t|] s1]|? ?|?|]; try discriminate. eapply IHk; eauto.
  - destruct (step_inv _ _ _ _ _ HL HI NE HS) as (g1 & G1 & I1). pose proof (lazy_step_LInv _ _ _ _ _ HL HS) as L1.
    destruct (IH g1 L1 I1) as (g' & G' & D'). exists g'. cbn [kinds map fst grun]. rewrite G1. auto.
Qed.

(* ---- the list of remaining results, as Model/PushLoad.v wants it ---- *)
Definition sentinel : result := inr PErrScan.
Definition RS (evs : list ev) : list result := map inl evs ++ [sentinel].

Lemma RS_cons x evs : RS (x :: evs) = inl x :: RS evs.
Proof. reflexivity. Qed.
Lemma RS_inj a b : RS a = RS b -> a = b.
Proof.
  unfold RS. intros H. apply app_inv_tail in H. revert b H. induction a as [|x a IH]; intros [|y b] H; cbn in H; try discriminate; auto.
  inversion H; subst. f_equal. auto.
Qed.
Lemma RS_split consumed evs rs' : RS evs = map inl consumed ++ rs' -> forall evs', rs' = RS evs' -> evs = consumed ++ evs'.
Proof.
  intros H evs' ->. apply RS_inj. unfold RS in *. rewrite H, map_app, app_assoc. reflexivity.
Qed.
Lemma RS_fail consumed evs (e : perr) tl : RS evs = map inl consumed ++ inr e :: tl -> evs = consumed /\ tl = [].
Proof.
  unfold RS. revert evs. induction consumed as [|c l IH]; intros [|x evs] H; cbn in H.
  - inversion H; auto.
  - discriminate.
  - discriminate.
  - inversion H; subst. destruct (IH _ H2) as [-> ->]. auto.
Qed.
Lemma pref_RS g evs : Pref g (RS evs) <-> grun g (kinds evs) <> None.
Proof.
  unfold Pref, RS. rewrite pre_app. cbn [pre]. rewrite app_nil_r. tauto.
Qed.
Lemma has_err_RS evs : has_err (RS evs) = true.
Proof. unfold RS. rewrite has_err_after. reflexivity. Qed.
Lemma length_RS evs : length (RS evs) = S (length evs).
Proof. unfold RS. rewrite app_length, map_length. cbn. lia. Qed.

(* reading the next result *)
Lemma run_next z evs v : Run z evs v ->
  match evs with
  | [] => (p_state (lz_p z) = SEnd /\ v = PDone) \/ lazy_parse k F z = inr v
  | x :: evs1 => exists z1, lazy_parse k F z = inl (x, z1) /\ Run z1 evs1 v /\ Steps z [x] z1
  end.
Proof.
  intros H. inversion H; subst.
  - left. auto.
  - right. rewrite lazy_parse_step; auto.
  - exists z1. rewrite lazy_parse_step; auto. split; [assumption|]. split; [assumption|]. apply Steps_one; assumption.
Qed.

(* outcome of a loader of Model/PushLoad.v on the list, against the outcome of the loader on the lazy pipeline *)
Definition SimOut (v : pend) (z : lz) (evs : list ev) (lo : lout) (zo : lzout) : Prop :=
  match lo with
  | LDone acc' rs' => exists c evs' z', evs = c ++ evs' /\ rs' = RS evs' /\ Steps z c z' /\ Run z' evs' v /\ zo = ZDone acc' z'
  | LFail e acc' => v <> PDone -> zo = ZFail v acc'
  | _ => True
  end.

Lemma SimOut_seq v z evs lo zo (kl : list ev -> list result -> lout) (kz : list ev -> lz -> lzout) :
  SimOut v z evs lo zo ->
  (forall acc' c evs' z', evs = c ++ evs' -> Steps z c z' -> Run z' evs' v ->
     SimOut v z' evs' (kl acc' (RS evs')) (kz acc' z')) ->
  SimOut v z evs (match lo with LDone a r => kl a r | LFail e p => LFail e p | LPanicked n p => LPanicked n p
                               | LOutOfFuel => LOutOfFuel | LExhausted => LExhausted end)
                 (match zo with ZDone a z2 => kz a z2 | ZFail e p => ZFail e p | ZPanicked n p => ZPanicked n p
                               | ZOutOfFuel => ZOutOfFuel end).
Proof.
  intros H1 H2. destruct lo as [acc' rs'|e acc'|n acc'| |]; cbn [SimOut] in *; auto.
  - destruct H1 as (c & evs' & z' & -> & -> & HS & HR & ->). specialize (H2 acc' c evs' z' eq_refl HS HR).
    destruct (kl acc' (RS evs')) as [a2 r2|e2 a2|n2 a2| |]; cbn [SimOut] in *; auto.
    destruct H2 as (c2 & evs2 & z2 & -> & -> & HS2 & HR2 & ->). exists (c ++ c2), evs2, z2.
    rewrite app_assoc. repeat split; auto. eapply Steps_app; eauto.
  - intros NV. rewrite (H1 NV). reflexivity.
Qed.

(* reading one result on both sides *)
Lemma sim_read v z evs acc (kl : ev -> list result -> lout) (kz : ev -> lz -> lzout) :
  Run z evs v ->
  (forall x z1 evs1, evs = x :: evs1 -> Steps z [x] z1 -> Run z1 evs1 v -> SimOut v z1 evs1 (kl x (RS evs1)) (kz x z1)) ->
  SimOut v z evs (match RS evs with [] => LExhausted | inr e :: _ => LFail e acc | inl x :: rs' => kl x rs' end)
                 (match lazy_parse k F z with inr e => ZFail e acc | inl (x, z1) => kz x z1 end).
Proof.
  intros HR HK. pose proof (run_next _ _ _ HR) as HN. destruct evs as [|x evs1].
  - cbn [RS map app sentinel]. cbn [SimOut]. intros NV. destruct HN as [[_ ->]| ->]; [congruence|reflexivity].
  - destruct HN as (z1 & -> & HR1 & HS1). rewrite RS_cons. specialize (HK x z1 evs1 eq_refl HS1 HR1).
    destruct (kl x (RS evs1)) as [a2 r2|e2 a2|n2 a2| |]; cbn [SimOut] in *; auto.
    destruct HK as (c2 & evs2 & z2 & -> & -> & HS2 & HR2 & ->). exists (x :: c2), evs2, z2. repeat split; auto.
    change (x :: c2) with ([x] ++ c2). eapply Steps_app; eauto.
Qed.

Lemma SimOut_done v z evs acc : Run z evs v -> SimOut v z evs (LDone acc (RS evs)) (ZDone acc z).
Proof. intros HR. exists [], evs, z. repeat split; auto. constructor. Qed.

Theorem loaders_sim : forall fuel,
  (forall first z evs v acc, Run z evs v ->
     SimOut v z evs (load_node fuel first (RS evs) acc) (lz_load_node k F fuel first z acc))
  /\ (forall z evs v acc, Run z evs v ->
     SimOut v z evs (load_sequence fuel (RS evs) acc) (lz_load_sequence k F fuel z acc))
  /\ (forall z evs v acc, Run z evs v ->
     SimOut v z evs (load_mapping fuel (RS evs) acc) (lz_load_mapping k F fuel z acc)).
Proof.
  induction fuel as [|f (IHn & IHs & IHm)]; [repeat split; intros; exact I|].
  repeat split.
  - intros first z evs v acc HR. cbn [load_node lz_load_node].
    destruct (fst first); try exact I; try (apply SimOut_done; exact HR); [apply IHs|apply IHm]; exact HR.
  - intros z evs v acc HR. cbn [load_sequence lz_load_sequence].
    apply (sim_read v z evs acc
             (fun x rs' => if is_seq_end x then LDone (x :: acc) rs'
                           else match load_node f x rs' acc with LDone acc' rs'' => load_sequence f rs'' acc' | o => o end)
             (fun x z1 => if is_seq_end x then ZDone (x :: acc) z1
                          else match lz_load_node k F f x z1 acc with ZDone acc' z2 => lz_load_sequence k F f z2 acc' | o => o end) HR).
    intros x z1 evs1 -> HS1 HR1. destruct (is_seq_end x); [apply SimOut_done; exact HR1|].
    apply (SimOut_seq v z1 evs1 _ _ (fun a r => load_sequence f r a) (fun a z2 => lz_load_sequence k F f z2 a)); [apply IHn; exact HR1|].
    intros acc' c evs' z' _ _ HR'. apply IHs. exact HR'.
  - intros z evs v acc HR. cbn [load_mapping lz_load_mapping].
    apply (sim_read v z evs acc
             (fun key rs' => if is_map_end key then LDone (key :: acc) rs'
                else match load_node f key rs' acc with
                     | LDone acc' rs'' =>
                         match rs'' with
                         | [] => LExhausted
                         | inr e :: _ => LFail e acc'
                         | inl v0 :: rs3 => match load_node f v0 rs3 acc' with LDone acc'' rs4 => load_mapping f rs4 acc'' | o => o end
                         end
                     | o => o end)
             (fun key z1 => if is_map_end key then ZDone (key :: acc) z1
                else match lz_load_node k F f key z1 acc with
                     | ZDone acc' z2 =>
                         match lazy_parse k F z2 with
                         | inr e => ZFail e acc'
                         | inl (v0, z3) => match lz_load_node k F f v0 z3 acc' with ZDone acc'' z4 => lz_load_mapping k F f z4 acc'' | o => o end
                         end
                     | o => o end) HR).
    intros key z1 evs1 -> HS1 HR1. destruct (is_map_end key); [apply SimOut_done; exact HR1|].
    apply (SimOut_seq v z1 evs1 _ _
             (fun acc' rs'' => match rs'' with
                               | [] => LExhausted
                               | inr e :: _ => LFail e acc'
                               | inl v0 :: rs3 => match load_node f v0 rs3 acc' with LDone acc'' rs4 => load_mapping f rs4 acc'' | o => o end
                               end)
             (fun acc' z2 => match lazy_parse k F z2 with
                             | inr e => ZFail e acc'
                             | inl (v0, z3) => match lz_load_node k F f v0 z3 acc' with ZDone acc'' z4 => lz_load_mapping k F f z4 acc'' | o => o end
                             end)); [apply IHn; exact HR1|].
    intros acc' c evs' z' _ _ HR'.
    apply (sim_read v z' evs' acc'
             (fun v0 rs3 => match load_node f v0 rs3 acc' with LDone acc'' rs4 => load_mapping f rs4 acc'' | o => o end)
             (fun v0 z3 => match lz_load_node k F f v0 z3 acc' with ZDone acc'' z4 => lz_load_mapping k F f z4 acc'' | o => o end) HR').
    intros v0 z3 evs3 -> HS3 HR3.
    apply (SimOut_seq v z3 evs3 _ _ (fun a r => load_mapping f r a) (fun a z4 => lz_load_mapping k F f z4 a)); [apply IHn; exact HR3|].
    intros acc'' c4 evs4 z4 _ _ HR4. apply IHm. exact HR4.
Qed.

Lemma load_document_sim fuel first z evs v acc : Run z evs v -> PushLoad.is_doc_start first = true ->
  SimOut v z evs (load_document fuel first (RS evs) acc) (lz_load_document k F fuel first z acc).
Proof.
  intros HR DS. unfold load_document, lz_load_document. rewrite DS. cbn [negb].
  destruct (loaders_sim fuel) as (IHn & _ & _).
  apply (sim_read v z evs (first :: acc)
           (fun n rs' => match load_node fuel n rs' (first :: acc) with
                         | LDone acc' rs'' =>
                             match rs'' with
                             | [] => LExhausted
                             | inr e :: _ => LFail e acc'
                             | inl d :: rs3 => if is_doc_end d then LDone (d :: acc') rs3 else LPanicked 2 acc'
                             end
                         | o => o end)
           (fun n z1 => match lz_load_node k F fuel n z1 (first :: acc) with
                        | ZDone acc' z2 =>
                            match lazy_parse k F z2 with
                            | inr e => ZFail e acc'
                            | inl (d, z3) => if is_doc_end d then ZDone (d :: acc') z3 else ZPanicked 2 acc'
                            end
                        | o => o end) HR).
  intros n z1 evs1 -> HS1 HR1.
  apply (SimOut_seq v z1 evs1 _ _
           (fun acc' rs'' => match rs'' with
                             | [] => LExhausted
                             | inr e :: _ => LFail e acc'
                             | inl d :: rs3 => if is_doc_end d then LDone (d :: acc') rs3 else LPanicked 2 acc'
                             end)
           (fun acc' z2 => match lazy_parse k F z2 with
                           | inr e => ZFail e acc'
                           | inl (d, z3) => if is_doc_end d then ZDone (d :: acc') z3 else ZPanicked 2 acc'
                           end)); [apply IHn; exact HR1|].
  intros acc' c evs' z' _ _ HR'.
  apply (sim_read v z' evs' acc'
           (fun d rs3 => if is_doc_end d then LDone (d :: acc') rs3 else LPanicked 2 acc')
           (fun d z3 => if is_doc_end d then ZDone (d :: acc') z3 else ZPanicked 2 acc') HR').
  intros d z3 evs3 -> HS3 HR3. destruct (is_doc_end d); [apply SimOut_done; exact HR3|exact I].
Qed.

End Descent.

(* ---- what the node loaders of Model/PushLoad.v push: node events only ---- *)
Definition node_ev (e : ev) : bool :=
  match fst e with
  | EAlias _ | EScalar _ _ _ _ | ESequenceStart _ _ | ESequenceEnd | EMappingStart _ _ | EMappingEnd => true
  | _ => false
  end.
Definition out_acc (o : lout) : option (list ev) :=
  match o with LDone a _ | LFail _ a | LPanicked _ a => Some a | _ => None end.
Definition PK (acc : list ev) (o : lout) : Prop :=
  match out_acc o with
  | Some acc' => exists new, acc' = new ++ acc /\ Forall (fun e => node_ev e = true) new
  | None => True
  end.
Lemma PK_here acc o : out_acc o = Some acc -> PK acc o.
Proof. unfold PK. intros ->. exists []. split; [reflexivity|constructor]. Qed.
Lemma PK_cons x acc o : node_ev x = true -> PK (x :: acc) o -> PK acc o.
Proof.
  unfold PK. intros Hx H. destruct (out_acc o) as [acc'|]; [|exact I]. destruct H as (new & -> & HF).
  exists (new ++ [x]). rewrite <- app_assoc. split; [reflexivity|]. apply Forall_app. split; [exact HF|constructor; [exact Hx|constructor]].
Qed.
Lemma PK_seq acc o (kl : list ev -> list result -> lout) :
  PK acc o -> (forall a r, PK a (kl a r)) ->
  PK acc (match o with LDone a r => kl a r | LFail e p => LFail e p | LPanicked n p => LPanicked n p
                     | LOutOfFuel => LOutOfFuel | LExhausted => LExhausted end).
Proof.
  intros H1 H2. destruct o as [a r|e a|n a| |]; try exact H1.
  unfold PK in H1. cbn [out_acc] in H1. destruct H1 as (new & -> & HF). specialize (H2 (new ++ acc) r).
  unfold PK in *. destruct (out_acc (kl (new ++ acc) r)) as [acc'|]; [|exact I]. destruct H2 as (new2 & -> & HF2).
  exists (new2 ++ new). rewrite app_assoc. split; [reflexivity|]. apply Forall_app. split; assumption.
Qed.

Theorem loaders_push : forall fuel,
  (forall first rs acc, PK acc (load_node fuel first rs acc))
  /\ (forall rs acc, PK acc (load_sequence fuel rs acc))
  /\ (forall rs acc, PK acc (load_mapping fuel rs acc)).
Proof.
  induction fuel as [|f (IHn & IHs & IHm)]; [repeat split; intros; exact I|].
  repeat split.
  - intros first rs acc. cbn [load_node].
    destruct (fst first) eqn:EF; try (apply PK_here; reflexivity);
      try (apply (PK_cons first); [unfold node_ev; rewrite EF; reflexivity|]; first [apply PK_here; reflexivity|apply IHs|apply IHm]).
  - intros rs acc. cbn [load_sequence]. destruct rs as [|[x|e] rs']; try (apply PK_here; reflexivity); [exact I|].
    destruct (PushLoad.is_seq_end x) eqn:EX.
    + apply (PK_cons x); [unfold node_ev; unfold PushLoad.is_seq_end in EX; destruct (fst x); try discriminate; reflexivity|].
      apply PK_here. reflexivity.
    + apply (PK_seq acc _ (fun a r => load_sequence f r a)); [apply IHn|intros; apply IHs].
  - intros rs acc. cbn [load_mapping]. destruct rs as [|[x|e] rs']; try (apply PK_here; reflexivity); [exact I|].
    destruct (PushLoad.is_map_end x) eqn:EX.
    + apply (PK_cons x); [unfold node_ev; unfold PushLoad.is_map_end in EX; destruct (fst x); try discriminate; reflexivity|].
      apply PK_here. reflexivity.
    + apply (PK_seq acc _ (fun a r => match r with
                                       | [] => LExhausted
                                       | inr e :: _ => LFail e a
                                       | inl v :: rs3 => match load_node f v rs3 a with LDone a2 rs4 => load_mapping f rs4 a2 | o => o end
                                       end)); [apply IHn|].
      intros a r. destruct r as [|[v|e] rs3]; try (apply PK_here; reflexivity); [exact I|].
      apply (PK_seq a _ (fun a2 r2 => load_mapping f r2 a2)); [apply IHn|intros; apply IHm].
Qed.

Lemma load_document_push fuel x rs acc : PushLoad.is_doc_start x = true ->
  match load_document fuel x rs acc with
  | LDone out _ => exists new d, out = d :: new ++ x :: acc /\ PushLoad.is_doc_end d = true /\ Forall (fun e => node_ev e = true) new
  | LFail _ out => exists new, out = new ++ x :: acc /\ Forall (fun e => node_ev e = true) new
  | _ => True
  end.
Proof.
  intros DS. unfold load_document. rewrite DS. cbn [negb].
  destruct rs as [|[n|e] rs']; [exact I| |exists []; split; [reflexivity|constructor]].
  destruct (loaders_push fuel) as (Hn & _ & _). specialize (Hn n rs' (x :: acc)). unfold PK in Hn.
  destruct (load_node fuel n rs' (x :: acc)) as [a r|e a|m a| |]; cbn [out_acc] in Hn; try exact I; [|exact Hn].
  destruct Hn as (new & -> & HF). destruct r as [|[d|e] rs3]; [exact I| |exists new; auto].
  destruct (PushLoad.is_doc_end d) eqn:ED; [|exact I]. exists new, d. auto.
Qed.

Lemma node_events_stay evs : Forall (fun e => node_ev e = true) evs -> forall stk g,
  grun (GStream stk) (kinds evs) = Some g -> g <> GEnd.
Proof.
  induction 1 as [|[e sp] l He Hl IH]; intros stk g H; cbn [kinds map fst grun] in H; [inversion H; discriminate|].
  destruct (gstep (GStream stk) e) as [g1|] eqn:G1; [|discriminate].
  assert (X : exists stk1, g1 = GStream stk1).
  { unfold node_ev in He. cbn [fst] in He. destruct e; try discriminate He; cbn [gstep on_stream] in G1.
    - destruct (complete stk); inversion G1; eauto.
    - destruct (complete stk); inversion G1; eauto.
    - destruct (node_ok stk); inversion G1; eauto.
    - destruct stk as [|[] r]; try discriminate. destruct (complete r); inversion G1; eauto.
    - destruct (node_ok stk); inversion G1; eauto.
    - destruct stk as [|[] r]; try discriminate. destruct (complete r); inversion G1; eauto. }
  destruct X as (stk1 & ->). eapply IH; eauto.
Qed.

Section Calls.
Variables k F : nat.
Notation Run := (Run k F).
Notation Steps := (Steps k F).

Lemma lazy_sm_ok n s p ev q : state_machine p = Parser.Ok (ev, q) -> lazy_sm n F s p = inl (ev, {| lz_sc := s; lz_p := q |}).
Proof. intros E. destruct n; [rewrite lazy_sm_0|rewrite lazy_sm_S]; rewrite E; reflexivity. Qed.

Lemma Steps_split z c1 c2 z' : Steps z (c1 ++ c2) z' -> exists zm, Steps z c1 zm /\ Steps zm c2 z'.
Proof.
  revert z. induction c1 as [|x c1 IH]; intros z H; cbn [app] in H.
  - exists z. split; [constructor|exact H].
  - inversion H; subst. destruct (IH _ H6) as (zm & A & B). exists zm. split; [econstructor; eauto|exact B].
Qed.

Lemma step_ss z ev z' : LInv z -> lazy_step k F z = inl (ev, z') ->
  sc_stream_start (lz_sc z) = true -> sc_stream_start (lz_sc z') = true.
Proof.
  intros HL H. destruct (lazy_step_facts _ _ _ _ _ HL H) as (buf & last & HP & _ & _ & _ & HG & _).
  destruct (pulls_SG _ _ _ _ HP _ HG) as (_ & X & _). exact X.
Qed.
Lemma steps_ss z c z' : Steps z c z' -> LInv z -> sc_stream_start (lz_sc z) = true -> sc_stream_start (lz_sc z') = true.
Proof.
  induction 1 as [z|z x z1 c z' NE HS HT IH]; intros HL SS; [exact SS|].
  apply IH; [eapply lazy_step_LInv; eauto|eapply step_ss; eauto].
Qed.

(* the state after the step that emits DocumentEnd, and after the step that emits StreamStart *)
Lemma boundary_after_docend z ev z' : LInv z -> p_state (lz_p z) = SDocumentEnd -> lazy_step k F z = inl (ev, z') ->
  sc_stream_end (lz_sc z') = true -> p_token (lz_p z') <> None.
Proof.
  intros HL ST H SE. destruct (lazy_step_facts _ _ _ _ _ HL H) as (buf & last & HP & HS & TQ & _ & _ & HC & HG' & _).
  unfold state_machine in HS. rewrite p_state_ext, ST in HS.
  destruct (document_end_shape _ _ _ HS) as [X|(t & NX & KT & CQ & HM)]; [exact X|exfalso].
  destruct HL as (HT & _).
  assert (NS : snd t <> TStreamEnd) by (rewrite KT; discriminate).
  rewrite (consumed_one_not_se z z' buf last t HT HC HG' NX NS TQ CQ HM) in SE. discriminate.
Qed.
Lemma boundary_after_stream_start z ev z' : LInv z -> p_state (lz_p z) = SStreamStart -> p_token (lz_p z) = None ->
  lazy_step k F z = inl (ev, z') ->
  sc_stream_end (lz_sc z') = false /\ sc_stream_start (lz_sc z') = true.
Proof.
  intros HL ST CN H. destruct (lazy_step_facts _ _ _ _ _ HL H) as (buf & last & HP & HS & TQ & _ & HG & HC & HG' & _).
  unfold state_machine in HS. rewrite p_state_ext, ST in HS.
  destruct (stream_start_shape _ _ _ HS) as (t & NX & KT & CQ & HM). destruct HL as (HT & _).
  assert (NS : snd t <> TStreamEnd) by (rewrite KT; discriminate).
  split; [exact (consumed_one_not_se z z' buf last t HT HC HG' NX NS TQ CQ HM)|].
  destruct (pulls_SG _ _ _ _ HP _ HG) as (_ & _ & X & _). apply X.
  rewrite (nx_ext _ _ HT), CN in NX. destruct buf; [discriminate|discriminate].
Qed.

Definition BInv (z : lz) : Prop :=
  LInv z /\ sc_stream_start (lz_sc z) = true /\ Inv (lz_p z) (GStream [])
  /\ (sc_stream_end (lz_sc z) = true -> p_token (lz_p z) <> None).

(* what one call delivers *)
Definition end_seg (seg : list ev) : Prop := exists x, seg = [x] /\ PushLoad.is_stream_end x = true.
Definition one_doc (seg : list ev) : Prop :=
  exists x mid d, seg = x :: mid ++ [d] /\ PushLoad.is_doc_start x = true /\ PushLoad.is_doc_end d = true
                  /\ Forall (fun e => node_ev e = true) mid /\ grun (GStream []) (kinds seg) = Some (GStream []).

Lemma run_at_end z evs v : Run z evs v -> p_state (lz_p z) = SEnd -> evs = [] /\ v = PDone.
Proof. intros H E. inversion H; subst; auto; congruence. Qed.

Lemma rest_call fuel z evs v acc : BInv z -> Run z evs v -> 2 * length evs + 6 <= fuel ->
  match lz_load_rest k F fuel z acc with
  | ZDone pushed z' => exists seg evs', pushed = rev seg ++ acc /\ evs = seg ++ evs' /\
        ((end_seg seg /\ evs' = [] /\ v = PDone) \/ (one_doc seg /\ Run z' evs' v /\ BInv z'))
  | ZFail e pushed => e = v /\ pushed = rev evs ++ acc /\ v <> PDone
  | ZPanicked _ _ => False
  | ZOutOfFuel => False
  end.
Proof.
  intros (HL & SS & HI & HC) HR HF. unfold lz_load_rest.
  assert (NE : p_state (lz_p z) <> SEnd) by (destruct (Inv_top _ HI) as [E|E]; rewrite E; discriminate).
  destruct (sc_stream_end (lz_sc z)) eqn:SE.
  - (* the stream_ended() shortcut *)
    specialize (HC eq_refl). destruct (p_token (lz_p z)) as [t|] eqn:CT; [clear HC|congruence].
    destruct HL as (HT & last & (_ & _ & HLast) & HCache). rewrite SE in HLast. rewrite (HCache t CT) in HLast.
    inversion HLast; subst t. clear HLast.
    assert (ST : lazy_step k F z = inl ((EStreamEnd, span_empty (sc_mark (lz_sc z))),
                                        {| lz_sc := lz_sc z; lz_p := skip (set_state (lz_p z) SEnd) |})).
    { unfold lazy_step. apply lazy_sm_ok. unfold state_machine.
      destruct (Inv_top _ HI) as [E|E]; rewrite E; apply document_start_at_stream_end; exact CT. }
    inversion HR; subst; try congruence.
    match goal with H1 : lazy_step k F z = inl _ |- _ => rewrite ST in H1; inversion H1; subst end.
    match goal with H1 : Run _ _ _ |- _ => destruct (run_at_end _ _ _ H1 eq_refl) as [-> ->] end.
    exists [(EStreamEnd, span_empty (sc_mark (lz_sc z)))], []. split; [reflexivity|]. split; [reflexivity|].
    left. split; [eexists; split; reflexivity|auto].
  - rewrite (lazy_parse_step _ _ _ NE). inversion HR; subst; try congruence.
    + match goal with H1 : lazy_step k F z = inr _ |- _ => rewrite H1; pose proof (lazy_step_not_done _ _ _ _ H1) end. auto.
    + match goal with H1 : lazy_step k F z = inl _ |- _ => rewrite H1; rename H1 into ST end.
      match goal with H1 : Run z1 _ _ |- _ => rename H1 into HR1 end. rename evs0 into evs1.
      destruct x as [e sp]. destruct (step_inv _ _ _ _ _ _ _ HL HI NE ST) as (g1 & G1 & I1).
      pose proof (lazy_step_LInv _ _ _ _ _ HL ST) as L1. pose proof (step_ss _ _ _ HL ST SS) as SS1.
      destruct (gstep_top (e, sp) g1 G1) as [[ESE ->]|(ESE & EDS & ->)]; rewrite ESE.
      * destruct (run_at_end _ _ _ HR1 (Inv_GEnd _ I1)) as [-> ->].
        exists [(e, sp)], []. split; [reflexivity|]. split; [reflexivity|]. left. split; [eexists; split; [reflexivity|exact ESE]|auto].
      * destruct (run_grammar _ _ _ _ _ HR1 _ L1 I1) as (gf & GF & GD).
        assert (HP : Pref (GStream [FDoc]) (RS evs1)) by (apply pref_RS; rewrite GF; discriminate).
        assert (HG : good ((e, sp) :: acc) (RS evs1) doc_post (load_document fuel (e, sp) (RS evs1) acc)).
        { apply document_good; [exact EDS|exact HP|apply has_err_RS|]. rewrite length_RS. cbn [length] in HF. lia. }
        pose proof (load_document_sim k F fuel (e, sp) z1 evs1 v acc HR1 EDS) as HSim.
        pose proof (load_document_push fuel (e, sp) (RS evs1) acc EDS) as HPush.
        inversion HG as [consumed rs' ERS [GC PC] EO|consumed e0 tl ERS EO]; rewrite <- EO in HSim, HPush; cbn [SimOut] in HSim.
        -- destruct HSim as (c & evs' & z' & EC & -> & HSt & HR' & ->).
           pose proof (RS_split _ _ _ ERS evs' eq_refl) as EC2. rewrite EC in EC2. apply app_inv_tail in EC2. subst c.
           destruct HPush as (new & d & EN & ED & HN).
           assert (ECons : consumed = rev new ++ [d]).
           { assert (X : rev consumed = d :: new).
             { apply (app_inv_tail ((e, sp) :: acc)). exact EN. }
             rewrite <- (rev_involutive consumed), X. reflexivity. }
           exists ((e, sp) :: consumed), evs'. split; [cbn [rev]; rewrite <- app_assoc; reflexivity|]. split; [rewrite EC; reflexivity|].
           right. split; [|split; [exact HR'|]].
           ++ exists (e, sp), (rev new), d. split; [rewrite ECons; reflexivity|]. split; [exact EDS|]. split; [exact ED|].
              split; [apply Forall_rev; exact HN|]. cbn [kinds map fst grun]. cbn [fst] in G1. rewrite G1. exact GC.
           ++ destruct (steps_inv _ _ _ _ _ HSt _ L1 I1) as (g' & G' & L' & I'). rewrite GC in G'. inversion G'; subst g'.
              split; [exact L'|]. split; [eapply steps_ss; eauto|]. split; [exact I'|].
              rewrite ECons in HSt. destruct (Steps_split _ _ _ _ HSt) as (zd & HSd & HSl).
              destruct (steps_inv _ _ _ _ _ HSd _ L1 I1) as (gd & Gd & Ld & Id).
              inversion HSl as [|zz xx zz1 cc zz' NEd STd HNil]; subst. inversion HNil; subst.
              destruct d as [de dsp]. destruct (step_inv _ _ _ _ _ _ _ Ld Id NEd STd) as (g2 & G2 & _).
              assert (EDE : de = EDocumentEnd) by (unfold PushLoad.is_doc_end in ED; cbn [fst] in ED; destruct de; try discriminate; reflexivity).
              subst de. assert (gd = GStream [FDocDone]).
              { destruct gd as [|stk|]; cbn in G2; try discriminate. destruct stk as [|[] [|? ?]]; try discriminate. reflexivity. }
              subst gd. eapply boundary_after_docend; eauto. apply Inv_docdone. exact Id.
        -- destruct (RS_fail _ _ _ _ ERS) as [-> ->]. destruct HPush as (new & EN & HN).
           assert (NV : v <> PDone).
           { intros ->. specialize (GD eq_refl). subst gf.
             assert (X : rev consumed = new).
             { apply (app_inv_tail ((e, sp) :: acc)). exact EN. }
             assert (HF2 : Forall (fun e => node_ev e = true) consumed).
             { rewrite <- (rev_involutive consumed), X. apply Forall_rev. exact HN. }
             exact (node_events_stay _ HF2 _ _ GF eq_refl). }
           rewrite (HSim NV). split; [reflexivity|]. split; [|exact NV]. cbn [rev]. rewrite <- app_assoc. reflexivity.
Qed.
End Calls.

(* ---------------- the calls of the driver ---------------- *)
Section Driver.
Variables k F : nat.
Notation Run := (Run k F).

(* before the first call *)
Definition B0 (z : lz) : Prop :=
  LInv z /\ sc_stream_start (lz_sc z) = false /\ p_state (lz_p z) = SStreamStart /\ p_states (lz_p z) = [] /\ p_token (lz_p z) = None.
Definition entry (first : bool) (z : lz) : Prop := if first then B0 z else BInv z.

(* what a call delivers: on the first call StreamStart, then StreamEnd or one document *)
Definition pre_ok (first : bool) (pre : list ev) : Prop :=
  if first then exists x, pre = [x] /\ PushLoad.is_stream_start x = true else pre = [].
Definition seg_end (first : bool) (seg : list ev) : Prop := exists pre body, seg = pre ++ body /\ pre_ok first pre /\ end_seg body.
Definition seg_doc (first : bool) (seg : list ev) : Prop := exists pre body, seg = pre ++ body /\ pre_ok first pre /\ one_doc body.

Lemma single_call first fuel z evs v : entry first z -> Run z evs v -> 2 * length evs + 6 <= fuel ->
  match lz_load_single k F fuel z [] with
  | ZDone pushed z' => exists seg evs', pushed = rev seg /\ evs = seg ++ evs' /\
        ((seg_end first seg /\ evs' = [] /\ v = PDone) \/ (seg_doc first seg /\ Run z' evs' v /\ BInv z'))
  | ZFail e pushed => e = v /\ pushed = rev evs /\ v <> PDone
  | ZPanicked _ _ => False
  | ZOutOfFuel => False
  end.
Proof.
  intros HE HR HF. unfold lz_load_single. destruct first; cbn [entry] in HE.
  - destruct HE as (HL & SS & ST & STK & CN). rewrite SS.
    assert (NE : p_state (lz_p z) <> SEnd) by (rewrite ST; discriminate).
    assert (HI : Inv (lz_p z) GInit) by (unfold Inv; rewrite ST, STK; cbn; auto).
    rewrite (lazy_parse_step _ _ _ NE). inversion HR; subst; try congruence.
    + match goal with H1 : lazy_step k F z = inr _ |- _ => rewrite H1; pose proof (lazy_step_not_done _ _ _ _ H1) end. auto.
    + match goal with H1 : lazy_step k F z = inl _ |- _ => rewrite H1; rename H1 into STP end.
      match goal with H1 : Run z1 _ _ |- _ => rename H1 into HR1 end. rename evs0 into evs1.
      destruct x as [e sp]. destruct (step_inv _ _ _ _ _ _ _ HL HI NE STP) as (g1 & G1 & I1).
      assert (EE : e = EStreamStart /\ g1 = GStream []) by (destruct e; cbn in G1; try discriminate; inversion G1; auto).
      destruct EE as [-> ->]. cbn [PushLoad.is_stream_start fst negb].
      destruct (boundary_after_stream_start _ _ _ _ _ HL ST CN STP) as [SE1 SS1].
      assert (B1 : BInv z1).
      { split; [eapply lazy_step_LInv; eauto|]. split; [exact SS1|]. split; [exact I1|]. rewrite SE1. discriminate. }
      assert (HF1 : 2 * length evs1 + 6 <= fuel) by (cbn [length] in HF; lia).
      match goal with |- context [lz_load_rest k F fuel z1 ?a] =>
        pose proof (rest_call k F fuel z1 evs1 v a B1 HR1 HF1) as HC;
        destruct (lz_load_rest k F fuel z1 a) as [pushed z'|e pushed|n pushed|]; try contradiction end.
      * destruct HC as (seg & evs' & -> & -> & HD). cbv beta iota. exists ((EStreamStart, sp) :: seg), evs'.
        split; [reflexivity|]. split; [reflexivity|].
        destruct HD as [(A & B & C)|(A & B & C)]; [left|right]; (split; [|auto]);
          exists [(EStreamStart, sp)], seg; (split; [reflexivity|]); (split; [eexists; split; reflexivity|exact A]).
      * destruct HC as (-> & -> & NV). cbv beta iota. auto.
  - destruct HE as (HL & SS & HI & HC). rewrite SS.
    match goal with |- context [lz_load_rest k F fuel z ?a] =>
      pose proof (rest_call k F fuel z evs v a (conj HL (conj SS (conj HI HC))) HR HF) as HC2;
      destruct (lz_load_rest k F fuel z a) as [pushed z'|e pushed|n pushed|]; try contradiction end.
    + destruct HC2 as (seg & evs' & -> & -> & HD). cbv beta iota. exists seg, evs'. rewrite app_nil_r. split; [reflexivity|]. split; [reflexivity|].
      destruct HD as [(A & B & C)|(A & B & C)]; [left|right]; (split; [|auto]); exists [], seg; (split; [reflexivity|]); (split; [reflexivity|exact A]).
    + destruct HC2 as (-> & -> & NV). cbv beta iota. rewrite app_nil_r. auto.
Qed.

(* the segments of a whole run *)
Inductive Shapes : bool -> pend -> list (list ev) -> Prop :=
| ShFail first v seg : v <> PDone -> Shapes first v [seg]
| ShEnd first seg : seg_end first seg -> Shapes first PDone [seg]
| ShDoc first v seg rest : seg_doc first seg -> Shapes false v rest -> Shapes first v (seg :: rest).

Lemma seg_end_head first seg : seg_end first seg -> exists x r, rev seg = x :: r /\ PushLoad.is_stream_end x = true.
Proof. intros (pre & body & -> & _ & x & -> & HX). rewrite rev_app_distr. cbn. eauto. Qed.
Lemma seg_doc_head first seg : seg_doc first seg -> exists x r, rev seg = x :: r /\ PushLoad.is_stream_end x = false.
Proof.
  intros (pre & body & -> & _ & x & mid & d & -> & _ & ED & _). rewrite rev_app_distr. cbn [rev]. rewrite rev_app_distr. cbn.
  exists d. eexists. split; [reflexivity|]. unfold PushLoad.is_doc_end, PushLoad.is_stream_end in *. destruct (fst d); try discriminate; reflexivity.
Qed.
Lemma seg_doc_nonempty first seg : seg_doc first seg -> 1 <= length seg.
Proof. intros (pre & body & -> & _ & x & mid & d & -> & _). rewrite app_length. cbn [length]. lia. Qed.

Lemma repeated_calls fuel : forall calls first z evs v segs,
  entry first z -> Run z evs v -> length evs < calls -> 2 * length evs + 6 <= fuel ->
  exists segs', lz_load_repeated k F calls fuel z segs = (rev segs ++ segs', v) /\ concat segs' = evs /\ Shapes first v segs'.
Proof.
  induction calls as [|calls IH]; intros first z evs v segs HE HR HC HF; [lia|]. cbn [lz_load_repeated].
  pose proof (single_call first fuel z evs v HE HR HF) as HS.
  match goal with |- context [lz_load_single k F fuel z ?a] =>
    change (lz_load_single k F fuel z []) with (lz_load_single k F fuel z a) in HS;
    destruct (lz_load_single k F fuel z a) as [pushed z'|e pushed|n pushed|]; try contradiction end.
  - destruct HS as (seg & evs' & -> & -> & HD). cbv beta iota. destruct HD as [(A & -> & ->)|(A & B & C)].
    + destruct (seg_end_head _ _ A) as (x & r & EQ & HX). rewrite EQ, HX. rewrite <- EQ, rev_involutive.
      exists [seg]. cbn [rev concat]. rewrite !app_nil_r. split; [reflexivity|]. split; [reflexivity|]. apply ShEnd. exact A.
    + destruct (seg_doc_head _ _ A) as (x & r & EQ & HX). rewrite EQ, HX. rewrite <- EQ, rev_involutive.
      pose proof (seg_doc_nonempty _ _ A) as LN. rewrite app_length in HC, HF.
      destruct (IH false z' evs' v (seg :: segs) C B ltac:(lia) ltac:(lia)) as (segs' & -> & EC & SH).
      exists (seg :: segs'). cbn [rev concat]. rewrite <- app_assoc. cbn [app]. rewrite EC. split; [reflexivity|]. split; [reflexivity|].
      apply ShDoc; assumption.
  - destruct HS as (-> & -> & NV). cbv beta iota. rewrite rev_involutive. exists [evs]. cbn [rev concat]. rewrite app_nil_r.
    split; [reflexivity|]. split; [reflexivity|]. apply ShFail. exact NV.
Qed.
End Driver.

Lemma B0_init text : B0 (lz_init text false).
Proof. split; [apply LInv_init|]. repeat split; reflexivity. Qed.

(* ---------------- the theorems ---------------- *)
Lemma lazy_run_length k F : forall n acc z l v, lazy_run n k F z acc = (l, v) -> length l <= n + length acc.
Proof.
  induction n as [|n IH]; intros acc z l v H; cbn [lazy_run] in H.
  - inversion H; subst. rewrite rev_length. lia.
  - assert (H' : (l, v) = (rev acc, PDone) \/ match lazy_step k F z with
                                             | inl (ev, z') => lazy_run n k F z' (ev :: acc)
                                             | inr e => (rev acc, e) end = (l, v))
      by (destruct (p_state (lz_p z)); auto).
    destruct H' as [H'|H']; [inversion H'; subst; rewrite rev_length; lia|].
    destruct (lazy_step k F z) as [[x z1]|e]; [apply IH in H'; cbn [length] in H'; lia|inversion H'; subst; rewrite rev_length; lia].
Qed.

Lemma run_of_text text :
  exists evs v, run_str text = (evs, v) /\ v <> PFuel /\ Run (lazy_K text) (lazy_F text) (lz_init text false) evs v
                /\ length evs <= 4 * (4 * lazy_F text + 20) + 40.
Proof.
  pose proof (pipeline_never_out_of_fuel text) as NF. rewrite <- lazy_is_batch in *.
  destruct (lazy_run_str text) as [evs v] eqn:E. cbn [snd] in NF. exists evs, v. split; [reflexivity|]. split; [exact NF|].
  unfold lazy_run_str in E. pose proof (lazy_run_length _ _ _ _ _ _ _ E) as HLen. cbn [length] in HLen.
  destruct (lazy_run_Run _ _ _ _ _ _ _ E NF) as (evs' & -> & HR). cbn [rev app] in *. split; [exact HR|]. rewrite Nat.add_0_r in HLen. exact HLen.
Qed.

(* T2: the calls of repeated load(recv, false) together deliver exactly the iteration: events, spans, verdict *)
Theorem single_load_is_iteration : forall text : list N,
  let r := load_repeated_str text in (concat (fst r), snd r) = run_str text.
Proof.
  intros text. cbv zeta. destruct (run_of_text text) as (evs & v & E & NF & HR & HL). rewrite E.
  unfold load_repeated_str. cbv zeta.
  destruct (repeated_calls (lazy_K text) (lazy_F text) (2 * (4 * (4 * lazy_F text + 20) + 40) + 6)
              (S (4 * (4 * lazy_F text + 20) + 40)) true (lz_init text false) evs v [] (B0_init text) HR)
    as (segs' & -> & EC & _); [unfold ev in *; lia|unfold ev in *; lia|].
  cbn [rev app fst snd]. rewrite EC. reflexivity.
Qed.

(* T3: each call delivers one document - or StreamEnd -, preceded by StreamStart on the first call; only a call
   that fails may deliver something else (the events before the error) *)
Theorem single_load_one_document_per_call : forall text : list N,
  Shapes true (snd (load_repeated_str text)) (fst (load_repeated_str text)).
Proof.
  intros text. destruct (run_of_text text) as (evs & v & E & NF & HR & HL).
  unfold load_repeated_str. cbv zeta.
  destruct (repeated_calls (lazy_K text) (lazy_F text) (2 * (4 * (4 * lazy_F text + 20) + 40) + 6)
              (S (4 * (4 * lazy_F text + 20) + 40)) true (lz_init text false) evs v [] (B0_init text) HR)
    as (segs' & -> & _ & SH); [unfold ev in *; lia|unfold ev in *; lia|].
  cbn [rev app fst snd]. exact SH.
Qed.
