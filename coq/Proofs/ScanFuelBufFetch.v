(* PORT of ScanRelFetch.v to the fuel-transfer calculus of ScanFuelBuf.v (see there): [rwp] is [rwpN N0]; the base case of
   every lockstep loop is closed by the STRING side's [oof]; the loops that are not in lockstep get a fuel hypothesis. *)
(* Joint proof "the scanner over the buffered input computes what the scanner over the string input computes"
   (see SCANREL.md): the FETCH family - the token-level skeleton of Model/SFetch.v.

   Every fetch_* function, the dispatcher fetch_next_token, fetch_more_tokens and next_token, run over the string
   input and over the buffered input (any capacity >= 8) from related states, are related again: same value, related
   states ([srpost]), or the same error at the same marker.  The skeleton is in lockstep: the same fuel [F] on both
   sides.  The six character-level contracts (directive, tag, anchor, flow / plain / block scalar) are hypotheses of
   the section; the four contracts of the primitives come from ScanRelPrim.v.

   The buffered-length premises ([k <= bl2 s2]) are exactly the facts the dispatcher establishes with its
   [look 1] / [look 4] before each fetch_*:  a function that starts by consuming its indicator ([skip_non_blank],
   [skip_n_non_blank 3]) needs that many characters buffered - on an empty buffer the buffered side's skip would be a
   silent no-op and the two sides would part. *)
From Coq Require Import List NArith ZArith Bool Arith Lia.
Import ListNotations.
Require Import Parser SBase SPrim SDir SScalar SFetch SBuf InputRefine ScanFuelBuf ScanFuelBufPrim.
Local Open Scope nat_scope.
Arguments Nat.ltb : simpl never.
Arguments Nat.leb : simpl never.
Arguments Nat.eqb : simpl never.
Arguments Nat.sub : simpl never.

(* the postcondition of every token-level function: equal values, related states *)
Definition srpost {A} : A -> st1 -> A -> st2 -> Prop := Qe (fun _ t1 t2 => SR t1 t2).

Lemma srpost_intro {A} (a : A) t1 t2 : SR t1 t2 -> srpost a t1 a t2.
Proof. intros H. split; [reflexivity|exact H]. Qed.

Lemma rpost_intro {A} k (a : A) t1 t2 : SR t1 t2 -> k <= bl2 t2 -> rpost k a t1 a t2.
Proof. intros H B. split; [reflexivity|]. split; assumption. Qed.

(* calling a function whose postcondition is [srpost] *)
Section RelFetchGen.
Variable N0 : nat.
Local Notation rwp := (rwpN N0).
Lemma rwp_bind_srpost {A B1 B2} (m1 : M1 A) (m2 : M2 A) (f1 : A -> M1 B1) (f2 : A -> M2 B2)
  (Q : B1 -> st1 -> B2 -> st2 -> Prop) s1 s2 :
  rwp m1 m2 srpost s1 s2 ->
  (forall a t1 t2, SR t1 t2 -> rwp (f1 a) (f2 a) Q t1 t2) ->
  rwp (bind m1 f1) (bind m2 f2) Q s1 s2.
Proof.
  intros H HK. apply rwp_bind_e. eapply rwp_mono; [exact H|].
  intros a1 t1 a2 t2 [E HS]. split; [exact E|]. apply HK; assumption.
Qed.
Lemma rwp_rpost_srpost {A} k (m1 : M1 A) (m2 : M2 A) s1 s2 : rwp m1 m2 (rpost k) s1 s2 -> rwp m1 m2 srpost s1 s2.
Proof. intros H. eapply rwp_mono; [exact H|]. intros a1 t1 a2 t2 [E [HS _]]. split; assumption. Qed.

(* [sk lem]: one skeleton-only step  m ;;; rest  with the rule [lem : SR s1 s2 -> skel_post -> rwp m m Q s1 s2] *)
End RelFetchGen.
(* the string side's state after a skeleton-only [put] / [modify] holds the same text *)
Ltac rem_le :=
  first [ apply le_n
        | repeat (match goal with
                  | |- context [if ?b then _ else _] => destruct b
                  | |- context [match ?x with _ => _ end] => destruct x
                  end); apply le_n ].
Ltac sk lem := apply rwp_bind; apply lem; [eassumption | intros ? ? ? ? ?].
(* close a goal [srpost tt t1 tt t2] / [rpost k tt t1 tt t2] *)
Ltac fin := first [ apply srpost_intro; assumption | apply rpost_intro; [assumption|lia] ].
(* the same boolean test on both sides (syntactically) *)
Ltac br := match goal with |- rwpN _ (if ?b then _ else _) (if ?b then _ else _) _ _ _ => destruct b end.

Section RelFetch.
Variable cap : nat.
Hypothesis cap_ge : 8 <= cap.
Variable N0 : nat.
Local Notation rwp := (rwpN N0).
Notation sops := str_ops.
Notation bops := (buf_ops cap).

Hypothesis H_dir : rel_scan_directive cap N0.
Hypothesis H_tag : rel_scan_tag cap N0.
Hypothesis H_anchor : rel_scan_anchor cap N0.
Hypothesis H_flow : rel_scan_flow_scalar cap N0.
Hypothesis H_plain : rel_scan_plain_scalar cap N0.
Hypothesis H_block : rel_scan_block_scalar cap N0.

Let H_ws := skip_ws_to_eol_ok cap cap_ge.
Let H_next := skip_to_next_token_ok cap cap_ge.
Let H_yws := skip_yaml_whitespace_ok cap cap_ge.

(* ---------------- stream start / end ---------------- *)
Lemma rwp_fetch_stream_start s1 s2 : SR s1 s2 -> rwp fetch_stream_start fetch_stream_start srpost s1 s2.
Proof.
  intros HS. unfold fetch_stream_start. apply rwp_bind. apply rwp_get. cbv beta zeta.
  apply rwp_put; [rem_le|]. apply srpost_intro. rel_skel.
Qed.

Lemma rwp_fetch_stream_end s1 s2 : SR s1 s2 -> rwp fetch_stream_end fetch_stream_end srpost s1 s2.
Proof.
  intros HS. unfold fetch_stream_end.
  apply rwp_bind. apply rwp_modify; [rem_le|]. cbv beta.
  match goal with |- rwp _ _ _ ?a ?b => assert (HU : SR a b) end.
  { sr_sync HS. destruct (m_col (sc_mark s1) =? 0)%N; rel_skel. }
  match goal with |- rwp _ _ _ ?a ?b => generalize dependent a; generalize dependent b end.
  intros u2 u1 HU.
  apply rwp_bind. apply rwp_get. cbv beta.
  rel_if; [apply rwp_fail_sr; exact HU|].
  apply rwp_bind. apply rwp_put_skel; [rel_skel|reflexivity|reflexivity|]. intros ? ? ? ? ?.
  sk rwp_unroll_indent. sk rwp_remove_simple_key. sk rwp_disallow_simple_key.
  apply rwp_bind. apply rwp_mark; [eassumption|].
  apply rwp_push_tok; [eassumption|reflexivity|]. intros. fin.
Qed.

(* ---------------- the entry points of the character-level scanners ---------------- *)
Lemma rwp_fetch_directive F s1 s2 : SR s1 s2 -> 1 <= bl2 s2 ->
  rwp (fetch_directive sops F) (fetch_directive bops F) srpost s1 s2.
Proof.
  intros HS HB. unfold fetch_directive.
  sk rwp_unroll_indent. sk rwp_remove_simple_key. sk rwp_disallow_simple_key.
  eapply rwp_bind_rpost; [apply H_dir; [eassumption|lia]|]. intros t u1 u2 HU _.
  apply rwp_push_tok; [exact HU|reflexivity|]. intros. fin.
Qed.

Lemma rwp_fetch_tag F s1 s2 : SR s1 s2 ->
  rwp (fetch_tag sops F) (fetch_tag bops F) srpost s1 s2.
Proof.
  intros HS. unfold fetch_tag.
  sk rwp_save_simple_key. sk rwp_disallow_simple_key.
  eapply rwp_bind_rpost; [apply H_tag; eassumption|]. intros t u1 u2 HU _.
  apply rwp_push_tok; [exact HU|reflexivity|]. intros. fin.
Qed.

Lemma rwp_fetch_anchor F alias s1 s2 : SR s1 s2 -> 1 <= bl2 s2 ->
  rwp (fetch_anchor sops F alias) (fetch_anchor bops F alias) srpost s1 s2.
Proof.
  intros HS HB. unfold fetch_anchor.
  sk rwp_save_simple_key. sk rwp_disallow_simple_key.
  eapply rwp_bind_rpost; [apply H_anchor; [eassumption|lia]|]. intros t u1 u2 HU _.
  apply rwp_push_tok; [exact HU|reflexivity|]. intros. fin.
Qed.

Lemma rwp_fetch_block_scalar F literal s1 s2 : 2 * N0 + 6 <= F -> SR s1 s2 -> 1 <= bl2 s2 ->
  rwp (fetch_block_scalar sops F literal) (fetch_block_scalar bops F literal) srpost s1 s2.
Proof.
  intros HF HS HB. unfold fetch_block_scalar.
  sk rwp_save_simple_key. sk rwp_allow_simple_key.
  eapply rwp_bind_rpost; [apply H_block; [exact HF|eassumption|lia]|]. intros t u1 u2 HU _.
  apply rwp_push_tok; [exact HU|reflexivity|]. intros. fin.
Qed.

Lemma rwp_fetch_flow_scalar F single s1 s2 : SR s1 s2 -> 1 <= bl2 s2 ->
  rwp (fetch_flow_scalar sops F single) (fetch_flow_scalar bops F single) srpost s1 s2.
Proof.
  intros HS HB. unfold fetch_flow_scalar.
  sk rwp_save_simple_key. sk rwp_disallow_simple_key.
  eapply rwp_bind_rpost; [apply H_flow; [eassumption|lia]|]. intros t u1 u2 HU _.
  eapply rwp_bind_rpost; [apply H_next; exact HU|]. intros [] v1 v2 HV _.
  apply rwp_bind. apply rwp_modify_skel; [rel_skel|reflexivity|reflexivity|]. intros ? ? ? ? ?.
  apply rwp_push_tok; [eassumption|reflexivity|]. intros. fin.
Qed.

Lemma rwp_fetch_plain_scalar F s1 s2 : 2 * N0 + 6 <= F -> SR s1 s2 ->
  rwp (fetch_plain_scalar sops F) (fetch_plain_scalar bops F) srpost s1 s2.
Proof.
  intros HF HS. unfold fetch_plain_scalar.
  sk rwp_save_simple_key. sk rwp_disallow_simple_key.
  eapply rwp_bind_rpost; [apply H_plain; [exact HF|eassumption]|]. intros t u1 u2 HU _.
  apply rwp_push_tok; [exact HU|reflexivity|]. intros. fin.
Qed.

(* ---------------- flow collections ---------------- *)
Lemma rwp_fetch_flow_collection_start F seq s1 s2 : SR s1 s2 -> 1 <= bl2 s2 ->
  rwp (fetch_flow_collection_start sops F seq) (fetch_flow_collection_start bops F seq) srpost s1 s2.
Proof.
  intros HS HB. unfold fetch_flow_collection_start.
  sk rwp_save_simple_key. sk rwp_roll_one_col_indent. sk rwp_increase_flow_level. sk rwp_allow_simple_key.
  apply rwp_bind. apply rwp_mark; [eassumption|].
  apply rwp_bind. apply (rwp_skip_non_blank cap cap_ge); [eassumption|lia|]. intros ? ? ? ? ?.
  apply rwp_bind. apply rwp_modify_skel; [rel_skel|reflexivity|reflexivity|]. intros ? ? ? ? ?.
  eapply rwp_bind_rpost; [apply H_ws; eassumption|]. intros tw w1 w2 HW _.
  apply rwp_bind. apply rwp_mark; [exact HW|].
  apply rwp_push_tok; [exact HW|reflexivity|]. intros. fin.
Qed.

Lemma rwp_check_flow_closer seq (Q : unit -> st1 -> unit -> st2 -> Prop) s1 s2 :
  SR s1 s2 -> Q tt s1 tt s2 -> rwp (check_flow_closer seq) (check_flow_closer seq) Q s1 s2.
Proof.
  intros HS HQ. unfold check_flow_closer. apply rwp_bind. apply rwp_get. cbv beta. sr_sync HS.
  destruct (sc_ifms s1) as [|st r]; [apply rwp_ret; exact HQ|]. cbv zeta.
  destruct (Bool.eqb _ _); [apply rwp_ret; exact HQ|]. apply rwp_fail. first [reflexivity | exact (SR_mark _ _ HS)].
Qed.

Lemma rwp_fetch_flow_collection_end F seq s1 s2 : SR s1 s2 -> 1 <= bl2 s2 ->
  rwp (fetch_flow_collection_end sops F seq) (fetch_flow_collection_end bops F seq) srpost s1 s2.
Proof.
  intros HS HB. unfold fetch_flow_collection_end.
  apply rwp_bind. apply rwp_check_flow_closer; [exact HS|]. cbv beta.
  sk rwp_remove_simple_key. sk rwp_decrease_flow_level. sk rwp_disallow_simple_key.
  match goal with |- rwp _ _ _ ?a ?b => eapply (rwp_bind_rpost N0 (bl2 b)) end.
  { destruct seq.
    - apply rwp_bind. apply rwp_mark; [eassumption|].
      apply rwp_end_implicit_mapping; [eassumption|reflexivity|]. intros. fin.
    - apply rwp_ret. fin. }
  intros [] u1 u2 HU BU.
  apply rwp_bind. apply rwp_modify_skel; [rel_skel|reflexivity|reflexivity|]. intros ? ? ? ? ?.
  apply rwp_bind. apply rwp_mark; [eassumption|].
  apply rwp_bind. apply (rwp_skip_non_blank cap cap_ge); [eassumption|lia|]. intros ? ? ? ? ?.
  eapply rwp_bind_rpost; [apply H_ws; eassumption|]. intros tw w1 w2 HW _.
  apply rwp_bind. apply rwp_modify; [rem_le|]. cbv beta.
  match goal with |- rwp _ _ _ ?a ?b => assert (HX : SR a b) end.
  { sr_sync HW. destruct (0 <? sc_flow_level w1)%N; rel_skel. }
  match goal with |- rwp _ _ _ ?a ?b => generalize dependent a; generalize dependent b end.
  intros x2 x1 HX.
  apply rwp_bind. apply rwp_mark; [exact HX|].
  apply rwp_push_tok; [exact HX|reflexivity|]. intros. fin.
Qed.

Lemma rwp_fetch_flow_entry F s1 s2 : SR s1 s2 -> 1 <= bl2 s2 ->
  rwp (fetch_flow_entry sops F) (fetch_flow_entry bops F) srpost s1 s2.
Proof.
  intros HS HB. unfold fetch_flow_entry.
  sk rwp_remove_simple_key. sk rwp_allow_simple_key.
  apply rwp_bind. apply rwp_mark; [eassumption|].
  apply rwp_bind. apply rwp_end_implicit_mapping; [eassumption|reflexivity|]. intros ? ? ? ? ?.
  apply rwp_bind. apply (rwp_skip_non_blank cap cap_ge); [eassumption|lia|]. intros ? ? ? ? ?.
  eapply rwp_bind_rpost; [apply H_ws; eassumption|]. intros tw w1 w2 HW _.
  apply rwp_bind. apply rwp_mark; [exact HW|].
  apply rwp_push_tok; [exact HW|reflexivity|]. intros. fin.
Qed.

(* ---------------- block entry ---------------- *)
Lemma rwp_fetch_block_entry F s1 s2 : SR s1 s2 -> 1 <= bl2 s2 ->
  rwp (fetch_block_entry sops F) (fetch_block_entry bops F) srpost s1 s2.
Proof.
  intros HS HB. unfold fetch_block_entry.
  apply rwp_bind. apply rwp_get. cbv beta zeta. sr_sync HS.
  br; [apply rwp_fail; reflexivity|].
  br; [apply rwp_fail; reflexivity|].
  apply rwp_bind.
  apply rwp_mono with (Q := fun (_ : unit) (t1 : st1) (_ : unit) (t2 : st2) => t1 = s1 /\ t2 = s2).
  { destruct (last (sc_tokens s1) (span_empty mk0, TStreamEnd)) as [sp tk].
    destruct tk; try (apply rwp_ret; split; reflexivity);
      (br; [apply rwp_fail; reflexivity|apply rwp_ret; split; reflexivity]). }
  intros [] t1 [] t2 [-> ->].
  apply rwp_bind. apply (rwp_skip_non_blank cap cap_ge); [exact HS|exact HB|]. intros u1 u2 HU RU BU.
  apply rwp_bind. apply rwp_roll_indent; [exact HU|reflexivity|]. intros v1 v2 HV RV BV.
  eapply rwp_bind_rpost; [apply H_ws; exact HV|]. intros tw w1 w2 HW BW.
  apply rwp_bind. apply (rwp_look cap cap_ge); [exact HW|lia|]. intros x1 x2 HX RX EX BX _.
  apply rwp_bind. apply (rwp_peek cap cap_ge); [exact HX|lia|].
  apply rwp_bind. apply (rwp_peekn cap cap_ge); [exact HX|lia|].
  br; [apply rwp_mark_fail; exact HX|].
  eapply rwp_bind_rpost; [apply H_ws; exact HX|]. intros tw' y1 y2 HY BY.
  apply rwp_bind. apply (rwp_look cap cap_ge); [exact HY|lia|]. intros z1 z2 HZ RZ EZ BZ _.
  apply rwp_bind. apply (rwp_peek cap cap_ge); [exact HZ|lia|].
  eapply (rwp_bind_rpost N0 0).
  { br; [apply rwp_roll_one_col_indent; [exact HZ|]; intros; fin|apply rwp_ret; fin]. }
  intros [] a1 a2 HA _.
  sk rwp_remove_simple_key. sk rwp_allow_simple_key.
  apply rwp_bind. apply rwp_mark; [eassumption|].
  apply rwp_push_tok; [eassumption|reflexivity|]. intros. fin.
Qed.

(* ---------------- document indicators ---------------- *)
Lemma rwp_fetch_document_indicator t s1 s2 : SR s1 s2 -> 3 <= bl2 s2 ->
  rwp (fetch_document_indicator sops t) (fetch_document_indicator bops t) srpost s1 s2.
Proof.
  intros HS HB. unfold fetch_document_indicator.
  sk rwp_unroll_indent. sk rwp_remove_simple_key. sk rwp_disallow_simple_key.
  apply rwp_bind. apply rwp_mark; [eassumption|].
  apply rwp_bind. apply (rwp_skip_n_non_blank cap cap_ge); [eassumption|lia|]. intros u1 u2 HU RU BU.
  apply rwp_bind. apply rwp_mark; [exact HU|].
  apply rwp_push_tok; [exact HU|reflexivity|]. intros. fin.
Qed.

(* ---------------- key / value ---------------- *)
Lemma rwp_fetch_key F s1 s2 : SR s1 s2 -> 1 <= bl2 s2 ->
  rwp (fetch_key sops F) (fetch_key bops F) srpost s1 s2.
Proof.
  intros HS HB. unfold fetch_key.
  apply rwp_bind. apply rwp_get. cbv beta zeta. sr_sync HS.
  eapply (rwp_bind_rpost N0 (bl2 s2)).
  { br.
    - br; [apply rwp_fail; reflexivity|]. apply rwp_roll_indent; [exact HS|reflexivity|]. intros. fin.
    - apply rwp_modify; [rem_le|]. cbv beta.
      assert (HI := SR_ifms _ _ HS).
      destruct (sc_ifms s1) as [|[| | |] r]; rewrite <- HI; try (apply rpost_intro; [exact HS|lia]).
      apply rpost_intro; [rel_skel|reflexivity]. }
  intros [] u1 u2 HU BU.
  sk rwp_remove_simple_key.
  match goal with |- rwp _ _ _ ?a ?b => eapply (rwp_bind_rpost N0 (bl2 b)) end.
  { br; [apply rwp_allow_simple_key|apply rwp_disallow_simple_key]; try eassumption; intros; fin. }
  intros [] v1 v2 HV BV.
  apply rwp_bind. apply (rwp_skip_non_blank cap cap_ge); [exact HV|lia|]. intros ? ? ? ? ?.
  eapply rwp_bind_rpost; [apply H_yws; eassumption|]. intros [] w1 w2 HW BW.
  apply rwp_bind. apply (rwp_peek cap cap_ge); [exact HW|lia|].
  br; [apply rwp_mark_fail; exact HW|].
  apply rwp_bind. apply rwp_mark; [exact HW|].
  apply rwp_push_tok; [exact HW|reflexivity|]. intros. fin.
Qed.

Lemma rwp_fetch_value F s1 s2 : SR s1 s2 -> 1 <= bl2 s2 ->
  rwp (fetch_value sops F) (fetch_value bops F) srpost s1 s2.
Proof.
  intros HS HB. unfold fetch_value.
  apply rwp_bind. apply rwp_get. cbv beta. sr_sync HS.
  destruct (sc_sks s1) as [|k ks] eqn:EK; [apply rwp_bind; apply rwp_panic_r|].
  apply rwp_bind. apply rwp_ret. cbv beta zeta.
  match goal with |- context [if ?b then modify _ else ret tt] => set (is_ifm := b) end.
  eapply (rwp_bind_rpost N0 (bl2 s2)).
  { br; [|apply rwp_ret; fin]. apply rwp_modify_skel; [rel_skel|reflexivity|reflexivity|]. intros. fin. }
  intros [] u1 u2 HU BU.
  apply rwp_bind. apply (rwp_skip_non_blank cap cap_ge); [exact HU|lia|]. intros v1 v2 HV RV BV.
  eapply (rwp_bind_rpost N0 0).
  { br; [|apply rwp_ret; fin].
    apply (rwp_look_ch cap cap_ge); [exact HV|]. intros w1 w2 HW RW EW BW _. fin. }
  intros c w1 w2 HW _.
  eapply (rwp_bind_rpost N0 0).
  { br; [|apply rwp_ret; fin].
    eapply rwp_bind_rpost; [apply H_ws; exact HW|]. intros tw x1 x2 HX BX.
    br; [|apply rwp_ret; fin].
    apply rwp_bind. apply (rwp_peek cap cap_ge); [exact HX|lia|].
    br; [apply rwp_mark_fail; exact HX|apply rwp_ret; fin]. }
  intros [] x1 x2 HX _.
  br.
  - (* the pending simple key becomes a KEY token *)
    apply rwp_bind. apply rwp_get. cbv beta. sr_sync HX.
    apply rwp_bind. br; [apply rwp_panic_r|]. apply rwp_ret.
    apply rwp_bind. apply rwp_insert_token; [exact HX|reflexivity|reflexivity|]. intros y1 y2 HY _ _.
    eapply (rwp_bind_rpost N0 0).
    { br; [|apply rwp_ret; fin]. br; [apply rwp_fail; reflexivity|]. br; [|apply rwp_ret; fin].
      apply rwp_insert_token; [exact HY|reflexivity|reflexivity|]. intros. fin. }
    intros [] z1 z2 HZ _.
    apply rwp_bind. apply rwp_roll_indent; [exact HZ|reflexivity|]. intros ? ? ? ? ?.
    sk rwp_roll_one_col_indent.
    apply rwp_bind. apply rwp_modify; [rem_le|]. cbv beta.
    match goal with |- rwp _ _ _ ?a ?b => assert (HA : SR a b) end.
    { match goal with H : SR ?a ?b |- SR (match sc_sks ?a with _ => _ end) _ =>
        rewrite <- (SR_sks _ _ H); destruct (sc_sks a); rel_skel end. }
    match goal with |- rwp _ _ _ ?a ?b => generalize dependent a; generalize dependent b end.
    intros a2 a1 HA.
    sk rwp_disallow_simple_key.
    apply rwp_push_tok; [eassumption|reflexivity|]. intros. fin.
  - (* no simple key: an empty key *)
    eapply (rwp_bind_rpost N0 0).
    { br; [|apply rwp_ret; fin]. apply rwp_push_tok; [exact HX|reflexivity|]. intros. fin. }
    intros [] y1 y2 HY _.
    apply rwp_bind. apply rwp_get. cbv beta. sr_sync HY.
    eapply (rwp_bind_rpost N0 0).
    { br; [|apply rwp_ret; fin]. br; [apply rwp_fail; reflexivity|].
      apply rwp_roll_indent; [exact HY|reflexivity|]. intros. fin. }
    intros [] z1 z2 HZ _.
    sk rwp_roll_one_col_indent.
    eapply (rwp_bind_rpost N0 0).
    { br; [apply rwp_allow_simple_key|apply rwp_disallow_simple_key]; try eassumption; intros; fin. }
    intros [] a1 a2 HA _.
    apply rwp_push_tok; [exact HA|reflexivity|]. intros. fin.
Qed.

Lemma rwp_fetch_flow_value F s1 s2 : SR s1 s2 -> 2 <= bl2 s2 ->
  rwp (fetch_flow_value sops F) (fetch_flow_value bops F) srpost s1 s2.
Proof.
  intros HS HB. unfold fetch_flow_value.
  apply rwp_bind. apply (rwp_peekn cap cap_ge); [exact HS|lia|].
  apply rwp_bind. apply rwp_get. cbv beta. sr_sync HS.
  br; [apply rwp_fail; reflexivity|]. apply rwp_fetch_value; [exact HS|lia].
Qed.

(* ---------------- the dispatcher ---------------- *)
Lemma rwp_fetch_next_token F s1 s2 : 2 * N0 + 6 <= F -> SR s1 s2 ->
  rwp (fetch_next_token sops F) (fetch_next_token bops F) srpost s1 s2.
Proof.
  intros HF HS. unfold fetch_next_token.
  apply rwp_bind. apply (rwp_look cap cap_ge); [exact HS|lia|]. intros u1 u2 HU _ _ _ _.
  apply rwp_bind. apply rwp_get. cbv beta. sr_sync HU.
  br; [apply rwp_fetch_stream_start; exact HU|].
  eapply rwp_bind_rpost; [apply H_next; exact HU|]. intros [] v1 v2 HV _.
  sk rwp_stale_simple_keys.
  apply rwp_bind. apply rwp_mark; [eassumption|].
  sk rwp_unroll_indent.
  apply rwp_bind. apply (rwp_look cap cap_ge); [eassumption|lia|]. intros w1 w2 HW _ _ BW _.
  apply rwp_bind. apply (rwp_next_is cap cap_ge); [exact HW|lia|].
  br; [apply rwp_fetch_stream_end; exact HW|].
  apply rwp_bind. apply rwp_get. cbv beta. sr_sync HW.
  apply rwp_bind. apply (rwp_peek cap cap_ge); [exact HW|lia|].
  eapply (rwp_bind_rpost N0 4).
  { br; [|apply rwp_ret; fin]. br; [apply rwp_ret; fin|].
    apply (rwp_next_is_document_start cap cap_ge); [exact HW|lia|]. fin. }
  intros dstart x1 x2 HX BX.
  eapply (rwp_bind_rpost N0 4).
  { br; [|apply rwp_ret; fin]. apply (rwp_next_is_document_end cap cap_ge); [exact HX|lia|]. fin. }
  intros dend y1 y2 HY BY.
  br; [apply rwp_fetch_directive; [exact HY|lia]|].
  br; [apply rwp_fetch_document_indicator; [exact HY|lia]|].
  br.
  { eapply rwp_bind_srpost; [apply rwp_fetch_document_indicator; [exact HY|lia]|]. intros [] z1 z2 HZ.
    eapply rwp_bind_rpost; [apply H_ws; exact HZ|]. intros tw a1 a2 HA BA.
    apply rwp_bind. apply (rwp_next_is cap cap_ge); [exact HA|lia|].
    br; [apply rwp_ret; fin|apply rwp_mark_fail; exact HA]. }
  br; [apply rwp_fail; reflexivity|].
  apply rwp_bind. apply (rwp_peek cap cap_ge); [exact HY|lia|].
  apply rwp_bind. apply (rwp_peekn cap cap_ge); [exact HY|lia|]. cbv beta zeta.
  br; [apply rwp_fetch_flow_collection_start; [exact HY|lia]|].
  br; [apply rwp_fetch_flow_collection_start; [exact HY|lia]|].
  br; [apply rwp_fetch_flow_collection_end; [exact HY|lia]|].
  br; [apply rwp_fetch_flow_collection_end; [exact HY|lia]|].
  br; [apply rwp_fetch_flow_entry; [exact HY|lia]|].
  br; [apply rwp_fetch_block_entry; [exact HY|lia]|].
  br; [apply rwp_fetch_key; [exact HY|lia]|].
  br; [apply rwp_fetch_value; [exact HY|lia]|].
  br; [apply rwp_fetch_flow_value; [exact HY|lia]|].
  br; [apply rwp_fetch_anchor; [exact HY|lia]|].
  br; [apply rwp_fetch_anchor; [exact HY|lia]|].
  br; [apply rwp_fetch_tag; exact HY|].
  br; [apply rwp_fetch_block_scalar; [exact HF|exact HY|lia]|].
  br; [apply rwp_fetch_block_scalar; [exact HF|exact HY|lia]|].
  br; [apply rwp_fetch_flow_scalar; [exact HY|lia]|].
  br; [apply rwp_fetch_flow_scalar; [exact HY|lia]|].
  br; [apply rwp_fetch_plain_scalar; [exact HF|exact HY]|].
  br; [apply rwp_fetch_plain_scalar; [exact HF|exact HY]|].
  br; [apply rwp_fail; reflexivity|].
  apply rwp_fetch_plain_scalar; [exact HF|exact HY].
Qed.

(* ---------------- fetch_more_tokens / next_token ---------------- *)
Lemma rwp_fetch_more_tokens F fuel : 2 * N0 + 6 <= F -> forall s1 s2, SR s1 s2 ->
  rwp (fetch_more_tokens sops F fuel) (fetch_more_tokens bops F fuel) srpost s1 s2.
Proof.
  intros HF. induction fuel as [|fuel IH]; intros s1 s2 HS; [apply rwp_oof_l|]. cbn [fetch_more_tokens].
  apply rwp_bind. apply rwp_get. cbv beta. sr_sync HS.
  eapply (rwp_bind_rpost N0 0).
  { destruct (sc_tokens s1) as [|t r]; [apply rwp_ret; fin|].
    sk rwp_stale_simple_keys. apply rwp_bind. apply rwp_get. cbv beta. apply rwp_ret.
    split; [rel_eq|]. split; [assumption|lia]. }
  intros need u1 u2 HU _.
  destruct need.
  - eapply rwp_bind_srpost; [apply rwp_fetch_next_token; [exact HF|exact HU]|]. intros [] v1 v2 HV. apply IH. exact HV.
  - apply rwp_modify; [rem_le|]. apply srpost_intro. rel_skel.
Qed.

Theorem rwp_next_token F s1 s2 : 2 * N0 + 6 <= F -> SR s1 s2 ->
  rwp (next_token sops F) (next_token bops F) srpost s1 s2.
Proof.
  intros HF HS. unfold next_token.
  apply rwp_bind. apply rwp_get. cbv beta. sr_sync HS.
  br; [apply rwp_ret; fin|].
  eapply rwp_bind_srpost.
  { br; [apply rwp_ret; fin|apply rwp_fetch_more_tokens; [exact HF|exact HS]]. }
  intros [] u1 u2 HU.
  apply rwp_bind. apply rwp_get. cbv beta. sr_sync HU.
  destruct (sc_tokens u1) as [|t r] eqn:ET; [apply rwp_fail; reflexivity|].
  apply rwp_bind. apply rwp_put_skel; [rel_skel|reflexivity|reflexivity|]. intros v1 v2 HV _ _.
  eapply rwp_bind_srpost.
  { destruct (snd t); try (apply rwp_ret; fin). apply rwp_modify; [rem_le|]. apply srpost_intro. rel_skel. }
  intros [] w1 w2 HW. apply rwp_ret. fin.
Qed.

End RelFetch.

Print Assumptions rwp_fetch_next_token.
Print Assumptions rwp_next_token.
