From Coq Require Import List NArith Bool Lia.
Import ListNotations.
Require Import Parser Grammar C02base C02rest.

Ltac crunch HR :=
  cbn beta iota;
  lazymatch goal with
  | |- post _ (match peek ?q with _ => _ end) => sp; crunch HR
  | |- post _ (match (match peek ?q with _ => _ end) with _ => _ end) => sp; crunch HR
  | |- post _ (match (match ?tk with _ => _ end) with _ => _ end) => is_var tk; destruct tk; crunch HR
  | |- post _ (match ?tk with _ => _ end) =>
      first [ is_var tk; destruct tk; crunch HR | fin HR ]
  | |- post _ (if ?b then _ else _) => is_var b; destruct b; crunch HR
  | |- _ => fin HR
  end.

Lemma block_mapping_key_post p stk first :
  p_states p = stk -> Rooted stk ->
  post (GStream (FMapKey :: stack_frames stk)) (block_mapping_key p first).
Proof. intros EK HR. unfold block_mapping_key. destruct first; crunch HR. Qed.

Lemma block_mapping_value_post p stk :
  p_states p = stk -> Rooted stk ->
  post (GStream (FMapVal :: stack_frames stk)) (block_mapping_value p).
Proof. intros EK HR. unfold block_mapping_value. crunch HR. Qed.

Lemma flow_mapping_key_post p stk first :
  p_states p = stk -> Rooted stk ->
  post (GStream (FMapKey :: stack_frames stk)) (flow_mapping_key p first).
Proof. intros EK HR. unfold flow_mapping_key. destruct first; crunch HR. Qed.

Lemma flow_mapping_value_post p stk empty :
  p_states p = stk -> Rooted stk ->
  post (GStream (FMapVal :: stack_frames stk)) (flow_mapping_value p empty).
Proof. intros EK HR. unfold flow_mapping_value. destruct empty; crunch HR. Qed.

Lemma flow_sequence_entry_post p stk first :
  p_states p = stk -> Rooted stk ->
  post (GStream (FSeq :: stack_frames stk)) (flow_sequence_entry p first).
Proof. intros EK HR. unfold flow_sequence_entry. destruct first; crunch HR. Qed.

Lemma block_sequence_entry_post p stk first :
  p_states p = stk -> Rooted stk ->
  post (GStream (FSeq :: stack_frames stk)) (block_sequence_entry p first).
Proof. intros EK HR. unfold block_sequence_entry. destruct first; crunch HR. Qed.

Lemma indentless_sequence_entry_post p stk :
  p_states p = stk -> Rooted stk ->
  post (GStream (FSeq :: stack_frames stk)) (indentless_sequence_entry p).
Proof. intros EK HR. unfold indentless_sequence_entry. crunch HR. Qed.

Lemma fsem_key_post p stk :
  p_states p = stk -> Rooted stk ->
  post (GStream (FMapKey :: FSeq :: stack_frames stk)) (flow_sequence_entry_mapping_key p).
Proof. intros EK HR. unfold flow_sequence_entry_mapping_key. crunch HR. Qed.

Lemma fsem_value_post p stk :
  p_states p = stk -> Rooted stk ->
  post (GStream (FMapVal :: FSeq :: stack_frames stk)) (flow_sequence_entry_mapping_value p).
Proof. intros EK HR. unfold flow_sequence_entry_mapping_value. crunch HR. Qed.

Lemma fsem_end_post p stk m :
  p_states p = stk -> Rooted stk ->
  post (GStream (FMapKey :: FSeq :: stack_frames stk)) (flow_sequence_entry_mapping_end p m).
Proof. intros EK HR. unfold flow_sequence_entry_mapping_end. crunch HR. Qed.

Lemma stream_start_post p :
  p_states p = [] -> post GInit (stream_start p).
Proof.
  intros EK. unfold stream_start. sp. destruct tk; try exact I.
  eapply post_ok; [reflexivity|]. unfold Inv; fields. rewrite ?Hk. cbn. auto.
Qed.

Lemma explicit_document_start_post p :
  p_states p = [] -> post (GStream []) (explicit_document_start p).
Proof.
  intros EK. unfold explicit_document_start.
  pose proof (process_directives_ok _ p false [] (tmeasure_bound p)) as HP.
  destruct (process_directives _ p false []) as [q| |]; [|exact I|contradiction].
  destruct HP as (A & B & C). sp. destruct tk; try exact I.
  eapply post_ok; [reflexivity|]. unfold Inv; fields. rewrite ?Hk, ?B, ?EK. cbn.
  split; [constructor|]. eexists; split; reflexivity.
Qed.

Lemma document_start_post p implicit :
  p_states p = [] -> post (GStream []) (document_start p implicit).
Proof.
  intros EK. unfold document_start.
  pose proof (skip_document_ends_ok _ p (tmeasure_bound p)) as HP.
  destruct (skip_document_ends _ p) as [q| |]; [|exact I|contradiction].
  destruct HP as (A & B & C). sp.
  assert (EQ : p_states q0 = []) by congruence.
  destruct tk; try (apply explicit_document_start_post; exact EQ);
    try (destruct implicit; [|apply explicit_document_start_post; exact EQ];
         pose proof (process_directives_ok _ q0 false [] (tmeasure_bound q0)) as HP;
         destruct (process_directives _ q0 false []) as [q1| |]; [|exact I|contradiction];
         destruct HP as (A1 & B1 & C1);
         eapply post_ok; [reflexivity|]; unfold Inv; fields; rewrite ?B1, ?EQ; cbn;
         split; [constructor|]; eexists; split; reflexivity).
  (* StreamEnd *)
  eapply post_ok; [reflexivity|]. unfold Inv; fields. rewrite ?EQ. cbn. auto.
Qed.

Lemma document_end_post p :
  p_states p = [] -> post (GStream [FDocDone]) (document_end p).
Proof.
  intros EK. unfold document_end. sp.
  destruct tk; cbn beta iota; destruct (p_keep_tags _);
    first [ (eapply post_ok; [reflexivity|]); unfold Inv; fields; rewrite ?Hk; cbn; auto; fail
          | sp; destruct tk; try exact I; (eapply post_ok; [reflexivity|]); unfold Inv; fields; rewrite ?Hk0, ?Hk; cbn; auto ].
Qed.

Theorem state_machine_post p g :
  Inv p g -> p_state p <> SEnd -> post g (state_machine p).
Proof.
  unfold Inv, state_machine. intros HI HE.
  destruct (p_state p) eqn:ES; cbn [InvS cur_frames] in HI;
    try (destruct HI as [HK ->]);
    try (destruct HI as [HR [a [Ha ->]]]; inversion Ha; subst a; cbn [app]).
  - apply stream_start_post; assumption.
  - apply document_start_post; assumption.
  - apply document_start_post; assumption.
  - (* DocumentContent: the stack is exactly [SDocumentEnd]?  No: only rooted.  Use the general lemma. *)
    unfold document_content. sp. destruct tk;
      try (rewrite <- Hk; apply parse_node_post; rewrite Hk; exact HR);
      (eapply post_pop; [eassumption | exact HR | intros; split; reflexivity | reflexivity]).
  - apply document_end_post; assumption.
  - apply parse_node_post; assumption.
  - apply block_sequence_entry_post; auto.
  - apply block_sequence_entry_post; auto.
  - apply indentless_sequence_entry_post; auto.
  - apply block_mapping_key_post; auto.
  - apply block_mapping_key_post; auto.
  - apply block_mapping_value_post; auto.
  - apply flow_sequence_entry_post; auto.
  - apply flow_sequence_entry_post; auto.
  - apply fsem_key_post; auto.
  - apply fsem_value_post; auto.
  - apply fsem_end_post; auto.
  - apply flow_mapping_key_post; auto.
  - apply flow_mapping_key_post; auto.
  - apply flow_mapping_value_post; auto.
  - apply flow_mapping_value_post; auto.
  - congruence.
Qed.
Print Assumptions state_machine_post.
