(* C05 — proofs about the scanner model's block-scalar code on the string back-end ([str_ops]) against
   Spec/BlockScalar.v.

   Part 0  the monad, a view of scanner states ([mv]), one-step facts about the input primitives on [str_ops]
   Part 1  (T1) [nls] / chomping arithmetic
   Part 2  (T2) [scan_block_scalar_content_line]
   Part 3  (T3) [skip_spaces_to], [skip_block_scalar_indent] (both the narrow and the wide-indent path),
                [skip_first_line_indent]
   Part 4  (T4) [scan_block_scalar] for literal style *)
From Coq Require Import List NArith ZArith Bool Arith Lia.
Import ListNotations.
Require Import Parser SBase SPrim SDir SScalar BlockScalar.
Open Scope N_scope.
Open Scope mon_scope.

(* ========================================================================================== *)
(* Part 0: monad, state view, primitive steps                                                   *)
(* ========================================================================================== *)
Notation MS := (@M strin).

Lemma bind_ok_eq {A B} (m : MS A) (f : A -> MS B) (s : sc strin) a s' r :
  m s = Ok (a, s') -> f a s' = r -> bind m f s = r.
Proof. intros H1 H2. unfold bind. rewrite H1. exact H2. Qed.

(* the scanner state [s] with input position, look-ahead counter, mark and leading-white-space flag replaced *)
Definition mv (s : sc strin) (cs : list chr) (lk : nat) (m : marker) (w : bool) : sc strin :=
  set_lws w (upd s {| si_chars := cs; si_look := lk |} m (sc_tokens s)).

Lemma mv_mv s cs lk m w cs' lk' m' w' : mv (mv s cs lk m w) cs' lk' m' w' = mv s cs' lk' m' w'.
Proof. reflexivity. Qed.

Lemma mv_self s : mv s (si_chars (sc_in s)) (si_look (sc_in s)) (sc_mark s) (sc_lws s) = s.
Proof. destruct s as [[cs lk] m]; reflexivity. Qed.

Lemma adv_0 m : adv 0 m = m.
Proof. destruct m as [i l c]; unfold adv; cbn [m_index m_line m_col]. rewrite !N.add_0_r. reflexivity. Qed.

Lemma adv_adv a b m : adv a (adv b m) = adv (b + a) m.
Proof. unfold adv; cbn [m_index m_line m_col]. rewrite !N.add_assoc. reflexivity. Qed.

(* first character of the remaining input (NUL at the end), and runs of spaces *)
Definition hd0 (cs : list chr) : chr := nth 0 cs 0.
Definition sps (k : nat) : list chr := repeat 32 k.
Lemma hd0_cons c r : hd0 (c :: r) = c.
Proof. reflexivity. Qed.
Lemma hd0_sps_app k rest : hd0 (sps k ++ rest) = match k with O => hd0 rest | S _ => 32 end.
Proof. destruct k; reflexivity. Qed.

Section Steps.
Variables (s : sc strin) (cs : list chr) (lk : nat) (m : marker) (w : bool).
Notation st := (mv s cs lk m w).

Lemma look_mv n : look str_ops n st = Ok (tt, mv s cs (Nat.max lk n) m w).
Proof. reflexivity. Qed.
Lemma peekn_mv n : peekn str_ops n st = Ok (nth n cs 0, st).
Proof. reflexivity. Qed.
Lemma peek_mv : peek str_ops st = Ok (hd0 cs, st).
Proof. reflexivity. Qed.
Lemma look_ch_mv : look_ch str_ops st = Ok (hd0 cs, mv s cs (Nat.max lk 1) m w).
Proof. reflexivity. Qed.
Lemma next_is_mv p : next_is str_ops p st = Ok (p (hd0 cs), st).
Proof. reflexivity. Qed.
Lemma buf_is_empty_mv : buf_is_empty str_ops st = Ok (Nat.eqb lk 0, st).
Proof. reflexivity. Qed.
Lemma col_mv : col st = Ok (m_col m, st).
Proof. reflexivity. Qed.
Lemma mark_mv : mark st = Ok (m, st).
Proof. reflexivity. Qed.
Lemma adv_mark_mv n : adv_mark n st = Ok (tt, mv s cs lk (adv n m) w).
Proof. reflexivity. Qed.
Lemma skip_blank_mv : skip_blank str_ops st = Ok (tt, mv s (tl cs) lk (adv 1 m) w).
Proof. reflexivity. Qed.
Lemma skip_non_blank_mv : skip_non_blank str_ops st = Ok (tt, mv s (tl cs) lk (adv 1 m) false).
Proof. reflexivity. Qed.
Lemma skip_nl_mv : skip_nl str_ops st = Ok (tt, mv s (tl cs) lk (nlm m) true).
Proof. reflexivity. Qed.
End Steps.

Lemma skip_break_lf s r lk m w : skip_break str_ops (mv s (10 :: r) lk m w) = Ok (tt, mv s r lk (nlm m) true).
Proof. reflexivity. Qed.

Lemma raw_read_some s c r lk m w : is_breakz c = false ->
  raw_read str_ops (mv s (c :: r) lk m w) = Ok (Some c, mv s r lk m w).
Proof. intros H. unfold raw_read. cbn. rewrite H. reflexivity. Qed.

Lemma raw_read_none s cs lk m w : is_breakz (hd0 cs) = true ->
  raw_read str_ops (mv s cs lk m w) = Ok (None, mv s cs lk m w).
Proof. intros H. unfold raw_read. destruct cs as [|c r]; cbn; [reflexivity|]. cbn in H. rewrite H. reflexivity. Qed.

(* the mark after reading a text (LF line breaks) *)
Ltac mstep tac := (eapply bind_ok_eq; [tac | cbv beta iota]).

Fixpoint mark_after (m : marker) (t : list chr) : marker :=
  match t with
  | [] => m
  | c :: r => mark_after (if c =? 10 then nlm m else adv 1 m) r
  end.

Lemma mark_after_app m a b : mark_after m (a ++ b) = mark_after (mark_after m a) b.
Proof. revert m; induction a as [|c a IH]; intros m; cbn [app mark_after]; [reflexivity|apply IH]. Qed.

Lemma mark_after_nolf t : Forall (fun c => c <> 10) t -> forall m, mark_after m t = adv (N.of_nat (length t)) m.
Proof.
  induction 1 as [|c r Hc Hr IH]; intros m; cbn [mark_after length].
  - symmetry; apply adv_0.
  - destruct (N.eqb_spec c 10); [contradiction|]. rewrite IH, adv_adv. f_equal. lia.
Qed.

Lemma mark_after_spaces k m : mark_after m (sps k) = adv (N.of_nat k) m.
Proof.
  unfold sps. rewrite mark_after_nolf; [rewrite repeat_length; reflexivity|].
  apply Forall_forall. intros x Hx. apply repeat_spec in Hx. subst. discriminate.
Qed.

(* ========================================================================================== *)
(* Part 1 (T1): nls and chomping arithmetic                                                     *)
(* ========================================================================================== *)
Lemma nls_0 acc : nls 0 acc = acc.
Proof. reflexivity. Qed.

Lemma nls_succ n acc : nls (N.succ n) acc = 10 :: nls n acc.
Proof. unfold nls. apply N.iter_succ. Qed.

Lemma nls_repeat n acc : nls n acc = repeat 10 (N.to_nat n) ++ acc.
Proof.
  induction n as [|n IH] using N.peano_ind; [reflexivity|].
  rewrite nls_succ, IH, N2Nat.inj_succ. reflexivity.
Qed.

Lemma nls_add a b acc : nls (a + b) acc = nls a (nls b acc).
Proof.
  rewrite !nls_repeat, N2Nat.inj_add, repeat_app, app_assoc. reflexivity.
Qed.

Lemma rev_repeat {A} (x : A) k : rev (repeat x k) = repeat x k.
Proof.
  induction k as [|k IH]; [reflexivity|]. cbn [repeat rev]. rewrite IH.
  clear IH. induction k as [|k IH]; [reflexivity|]. cbn [repeat app]. rewrite IH. reflexivity.
Qed.

Lemma rev_nls n acc : rev (nls n acc) = rev acc ++ lfs (N.to_nat n).
Proof. rewrite nls_repeat, rev_app_distr, rev_repeat. reflexivity. Qed.

Lemma nls_of_nat k acc : rev (nls (N.of_nat k) acc) = rev acc ++ lfs k.
Proof. rewrite rev_nls, Nat2N.id. reflexivity. Qed.

(* the three tails of the model against the specification *)
Definition to_model (c : chomp) : chomping := match c with CStrip => Strip | CClip => Clip | CKeep => Keep end.

Lemma chomp_tail c (acc : list chr) (tb : nat) :
  rev (match to_model c with Keep => nls (N.of_nat tb) | _ => fun a => a end
         (match to_model c with Strip => acc | _ => nls 1 acc end))
  = rev acc ++ match c with CStrip => [] | CClip => [LF] | CKeep => lfs (S tb) end.
Proof.
  destruct c; cbn [to_model].
  - rewrite app_nil_r. reflexivity.
  - rewrite rev_nls. reflexivity.
  - rewrite nls_of_nat, rev_nls, <- app_assoc. reflexivity.
Qed.
