(* C05 — proofs about the scanner model's block-scalar code on the string back-end ([str_ops]) against
   Spec/BlockScalar.v.

   Part 0  the monad, a view of scanner states ([mv]), one-step facts about the input primitives on [str_ops]
   Part 1  (T1) [nls] / chomping arithmetic
   Part 2  (T2) [scan_block_scalar_content_line]
   Part 3  (T3) [skip_spaces_to], [skip_block_scalar_indent] (both the narrow and the wide-indent path),
                [skip_first_line_indent]
   Part 4  (T4) [scan_block_scalar] for literal style *)
From Coq Require Import List NArith ZArith Bool Arith Lia.
Import ListNotations.
Require Import Parser SBase SPrim SDir SScalar BlockScalar.
Open Scope N_scope.
Open Scope mon_scope.

(* ========================================================================================== *)
(* Part 0: monad, state view, primitive steps                                                   *)
(* ========================================================================================== *)
Notation MS := (@M strin).

Lemma bind_ok_eq {A B} (m : MS A) (f : A -> MS B) (s : sc strin) a s' r :
  m s = Ok (a, s') -> f a s' = r -> bind m f s = r.
Proof. intros H1 H2. unfold bind. rewrite H1. exact H2. Qed.

(* the scanner state [s] with input position, look-ahead counter, mark and leading-white-space flag replaced *)
Definition mv (s : sc strin) (cs : list chr) (lk : nat) (m : marker) (w : bool) : sc strin :=
  set_lws w (upd s {| si_chars := cs; si_look := lk |} m (sc_tokens s)).

Lemma mv_mv s cs lk m w cs' lk' m' w' : mv (mv s cs lk m w) cs' lk' m' w' = mv s cs' lk' m' w'.
Proof. reflexivity. Qed.

Lemma mv_self s : mv s (si_chars (sc_in s)) (si_look (sc_in s)) (sc_mark s) (sc_lws s) = s.
Proof. destruct s as [[cs lk] m]; reflexivity. Qed.

Lemma adv_0 m : adv 0 m = m.
Proof. destruct m as [i l c]; unfold adv; cbn [m_index m_line m_col]. rewrite !N.add_0_r. reflexivity. Qed.

Lemma adv_adv a b m : adv a (adv b m) = adv (b + a) m.
Proof. unfold adv; cbn [m_index m_line m_col]. rewrite !N.add_assoc. reflexivity. Qed.

(* first character of the remaining input (NUL at the end), and runs of spaces *)
Definition hd0 (cs : list chr) : chr := nth 0 cs 0.
Definition sps (k : nat) : list chr := repeat 32 k.
Lemma hd0_cons c r : hd0 (c :: r) = c.
Proof. reflexivity. Qed.
Lemma hd0_sps_app k rest : hd0 (sps k ++ rest) = match k with O => hd0 rest | S _ => 32 end.
Proof. destruct k; reflexivity. Qed.

Section Steps.
Variables (s : sc strin) (cs : list chr) (lk : nat) (m : marker) (w : bool).
Notation st := (mv s cs lk m w).

Lemma look_mv n : look str_ops n st = Ok (tt, mv s cs (Nat.max lk n) m w).
Proof. reflexivity. Qed.
Lemma peekn_mv n : peekn str_ops n st = Ok (nth n cs 0, st).
Proof. reflexivity. Qed.
Lemma peek_mv : peek str_ops st = Ok (hd0 cs, st).
Proof. reflexivity. Qed.
Lemma look_ch_mv : look_ch str_ops st = Ok (hd0 cs, mv s cs (Nat.max lk 1) m w).
Proof. reflexivity. Qed.
Lemma next_is_mv p : next_is str_ops p st = Ok (p (hd0 cs), st).
Proof. reflexivity. Qed.
Lemma buf_is_empty_mv : buf_is_empty str_ops st = Ok (Nat.eqb lk 0, st).
Proof. reflexivity. Qed.
Lemma col_mv : col st = Ok (m_col m, st).
Proof. reflexivity. Qed.
Lemma mark_mv : mark st = Ok (m, st).
Proof. reflexivity. Qed.
Lemma adv_mark_mv n : adv_mark n st = Ok (tt, mv s cs lk (adv n m) w).
Proof. reflexivity. Qed.
Lemma skip_blank_mv : skip_blank str_ops st = Ok (tt, mv s (tl cs) lk (adv 1 m) w).
Proof. reflexivity. Qed.
Lemma skip_non_blank_mv : skip_non_blank str_ops st = Ok (tt, mv s (tl cs) lk (adv 1 m) false).
Proof. reflexivity. Qed.
Lemma skip_nl_mv : skip_nl str_ops st = Ok (tt, mv s (tl cs) lk (nlm m) true).
Proof. reflexivity. Qed.
End Steps.

Lemma skip_break_lf s r lk m w : skip_break str_ops (mv s (10 :: r) lk m w) = Ok (tt, mv s r lk (nlm m) true).
Proof. reflexivity. Qed.

Lemma raw_read_some s c r lk m w : is_breakz c = false ->
  raw_read str_ops (mv s (c :: r) lk m w) = Ok (Some c, mv s r lk m w).
Proof. intros H. unfold raw_read. cbn. rewrite H. reflexivity. Qed.

Lemma raw_read_none s cs lk m w : is_breakz (hd0 cs) = true ->
  raw_read str_ops (mv s cs lk m w) = Ok (None, mv s cs lk m w).
Proof. intros H. unfold raw_read. destruct cs as [|c r]; cbn; [reflexivity|]. cbn in H. rewrite H. reflexivity. Qed.

(* the mark after reading a text (LF line breaks) *)
Ltac mstep tac := (eapply bind_ok_eq; [tac | cbv beta iota]).

Fixpoint mark_after (m : marker) (t : list chr) : marker :=
  match t with
  | [] => m
  | c :: r => mark_after (if c =? 10 then nlm m else adv 1 m) r
  end.

Lemma mark_after_app m a b : mark_after m (a ++ b) = mark_after (mark_after m a) b.
Proof. revert m; induction a as [|c a IH]; intros m; cbn [app mark_after]; [reflexivity|apply IH]. Qed.

Lemma mark_after_nolf t : Forall (fun c => c <> 10) t -> forall m, mark_after m t = adv (N.of_nat (length t)) m.
Proof.
  induction 1 as [|c r Hc Hr IH]; intros m; cbn [mark_after length].
  - symmetry; apply adv_0.
  - destruct (N.eqb_spec c 10); [contradiction|]. rewrite IH, adv_adv. f_equal. lia.
Qed.

Lemma mark_after_spaces k m : mark_after m (sps k) = adv (N.of_nat k) m.
Proof.
  unfold sps. rewrite mark_after_nolf; [rewrite repeat_length; reflexivity|].
  apply Forall_forall. intros x Hx. apply repeat_spec in Hx. subst. discriminate.
Qed.

(* ========================================================================================== *)
(* Part 1 (T1): nls and chomping arithmetic                                                     *)
(* ========================================================================================== *)
Lemma nls_0 acc : nls 0 acc = acc.
Proof. reflexivity. Qed.

Lemma nls_succ n acc : nls (N.succ n) acc = 10 :: nls n acc.
Proof. unfold nls. apply N.iter_succ. Qed.

Lemma nls_repeat n acc : nls n acc = repeat 10 (N.to_nat n) ++ acc.
Proof.
  induction n as [|n IH] using N.peano_ind; [reflexivity|].
  rewrite nls_succ, IH, N2Nat.inj_succ. reflexivity.
Qed.

Lemma nls_add a b acc : nls (a + b) acc = nls a (nls b acc).
Proof.
  rewrite !nls_repeat, N2Nat.inj_add, repeat_app, app_assoc. reflexivity.
Qed.

Lemma rev_repeat {A} (x : A) k : rev (repeat x k) = repeat x k.
Proof.
  induction k as [|k IH]; [reflexivity|]. cbn [repeat rev]. rewrite IH.
  clear IH. induction k as [|k IH]; [reflexivity|]. cbn [repeat app]. rewrite IH. reflexivity.
Qed.

Lemma rev_nls n acc : rev (nls n acc) = rev acc ++ lfs (N.to_nat n).
Proof. rewrite nls_repeat, rev_app_distr, rev_repeat. reflexivity. Qed.

Lemma nls_of_nat k acc : rev (nls (N.of_nat k) acc) = rev acc ++ lfs k.
Proof. rewrite rev_nls, Nat2N.id. reflexivity. Qed.

(* the three tails of the model against the specification *)
Definition to_model (c : chomp) : chomping := match c with CStrip => Strip | CClip => Clip | CKeep => Keep end.

Lemma chomp_tail c (acc : list chr) (tb : nat) :
  rev (match to_model c with Keep => nls (N.of_nat tb) | _ => fun a => a end
         (match to_model c with Strip => acc | _ => nls 1 acc end))
  = rev acc ++ match c with CStrip => [] | CClip => [LF] | CKeep => lfs (S tb) end.
Proof.
  destruct c; cbn [to_model].
  - rewrite app_nil_r. reflexivity.
  - rewrite rev_nls. reflexivity.
  - rewrite nls_of_nat, rev_nls, <- app_assoc. reflexivity.
Qed.

(* ========================================================================================== *)
(* Part 2 (T2): one content line                                                                *)
(* ========================================================================================== *)
Fixpoint cl_peek (f : nat) (acc : list chr) : MS (list chr) :=
  match f with
  | O => oof
  | S f => e <- buf_is_empty str_ops ;;
           if e then ret acc else
           c <- peek str_ops ;; if is_breakz c then ret acc else skip_blank str_ops ;;; cl_peek f (c :: acc)
  end.
Fixpoint cl_raw (f : nat) (acc : list chr) (n : N) : MS (list chr) :=
  match f with
  | O => oof
  | S f => c <- raw_read str_ops ;;
           match c with
           | Some c => cl_raw f (c :: acc) (n + 1)
           | None => adv_mark n ;;; ret acc
           end
  end.

Lemma content_line_eq F acc :
  scan_block_scalar_content_line str_ops F acc =
  (acc <- cl_peek F acc ;; e <- buf_is_empty str_ops ;; if e then cl_raw F acc 0 else ret acc).
Proof. reflexivity. Qed.

Definition nobreak (t : list chr) : Prop := Forall (fun c => is_breakz c = false) t.

Lemma nobreak_nolf t : nobreak t -> Forall (fun c => c <> 10) t.
Proof. apply Forall_impl. intros c H ->. discriminate. Qed.

(* the buffered-peek loop: with a non-empty look-ahead it reads the whole line *)
Lemma cl_peek_full : forall (txt rest : list chr) f acc s lk m w,
  nobreak txt -> is_breakz (hd0 rest) = true -> lk <> O -> (length txt < f)%nat ->
  cl_peek f acc (mv s (txt ++ rest) lk m w)
  = Ok (rev txt ++ acc, mv s rest lk (adv (N.of_nat (length txt)) m) w).
Proof.
  induction txt as [|c txt IH]; intros rest f acc s lk m w Hnb Hr Hlk Hf.
  - destruct f as [|f]; [cbn in Hf; lia|]. cbn [cl_peek app length rev].
    (eapply bind_ok_eq; [apply buf_is_empty_mv|cbv beta iota]). destruct (Nat.eqb_spec lk 0); [contradiction|].
    (eapply bind_ok_eq; [apply peek_mv|cbv beta iota]). rewrite Hr. rewrite adv_0. reflexivity.
  - destruct f as [|f]; [cbn in Hf; lia|]. inversion Hnb as [|? ? Hc Hnb']; subst.
    cbn [cl_peek app].
    (eapply bind_ok_eq; [apply buf_is_empty_mv|cbv beta iota]). destruct (Nat.eqb_spec lk 0); [contradiction|].
    (eapply bind_ok_eq; [apply peek_mv|cbv beta iota]). rewrite hd0_cons, Hc.
    (eapply bind_ok_eq; [apply skip_blank_mv|cbv beta iota]). cbn [tl].
    rewrite IH; [|auto|auto|auto|cbn [length] in Hf; lia].
    rewrite adv_adv. cbn [rev length]. rewrite <- app_assoc. cbn [app].
    do 4 f_equal. lia.
Qed.

(* with an empty look-ahead it reads nothing *)
Lemma cl_peek_empty f acc s cs m w : cl_peek (S f) acc (mv s cs O m w) = Ok (acc, mv s cs O m w).
Proof. reflexivity. Qed.

(* the raw fast path *)
Lemma cl_raw_full : forall (txt rest : list chr) f acc n s lk m w,
  nobreak txt -> is_breakz (hd0 rest) = true -> (length txt < f)%nat ->
  cl_raw f acc n (mv s (txt ++ rest) lk m w)
  = Ok (rev txt ++ acc, mv s rest lk (adv (n + N.of_nat (length txt)) m) w).
Proof.
  induction txt as [|c txt IH]; intros rest f acc n s lk m w Hnb Hr Hf.
  - destruct f as [|f]; [cbn in Hf; lia|]. cbn [cl_raw app length rev].
    (eapply bind_ok_eq; [apply raw_read_none; exact Hr|cbv beta iota]).
    (eapply bind_ok_eq; [apply adv_mark_mv|cbv beta iota]). rewrite N.add_0_r. reflexivity.
  - destruct f as [|f]; [cbn in Hf; lia|]. inversion Hnb as [|? ? Hc Hnb']; subst.
    cbn [cl_raw app].
    (eapply bind_ok_eq; [apply raw_read_some; exact Hc|cbv beta iota]).
    rewrite IH; [|auto|auto|cbn [length] in Hf; lia].
    cbn [rev length]. rewrite <- app_assoc. cbn [app]. do 4 f_equal. lia.
Qed.

Theorem content_line_spec : forall (txt rest : list chr) F acc s lk m w,
  nobreak txt -> is_breakz (hd0 rest) = true -> (length txt < F)%nat ->
  scan_block_scalar_content_line str_ops F acc (mv s (txt ++ rest) lk m w)
  = Ok (rev txt ++ acc, mv s rest lk (mark_after m txt) w).
Proof.
  intros txt rest F acc s lk m w Hnb Hr Hf. rewrite content_line_eq.
  rewrite (mark_after_nolf _ (nobreak_nolf _ Hnb)).
  destruct lk as [|lk].
  - (* empty look-ahead: raw fast path *)
    destruct F as [|F]; [lia|].
    (eapply bind_ok_eq; [apply cl_peek_empty|cbv beta iota]).
    (eapply bind_ok_eq; [apply buf_is_empty_mv|cbv beta iota]). cbn [Nat.eqb].
    rewrite cl_raw_full by auto. rewrite N.add_0_l. reflexivity.
  - (eapply bind_ok_eq; [apply cl_peek_full; auto|cbv beta iota]).
    (eapply bind_ok_eq; [apply buf_is_empty_mv|cbv beta iota]). reflexivity.
Qed.

Ltac hd0c := match goal with |- context [hd0 (?c :: ?r)] => change (hd0 (c :: r)) with c end.

(* ========================================================================================== *)
(* Part 3 (T3): indentation                                                                     *)
(* ========================================================================================== *)

(* [skip_spaces_to indent]: on k spaces followed by something else it consumes min k (indent - column) of them *)
Lemma skip_spaces_to_spec : forall k (rest : list chr) f indent cb s lk m w j,
  hd0 rest <> 32 -> (k < f)%nat -> (cb = true -> lk <> O) ->
  j = Nat.min k (N.to_nat (indent - m_col m)) ->
  skip_spaces_to str_ops f indent cb (mv s (sps k ++ rest) lk m w)
  = Ok (tt, mv s (sps (k - j) ++ rest) lk (adv (N.of_nat j) m) w).
Proof.
  induction k as [|k IH]; intros rest f indent cb s lk m w j Hr Hf Hcb Hj.
  - destruct f as [|f]; [lia|]. cbn [skip_spaces_to]. cbn [Nat.min] in Hj. subst j. cbn [Nat.sub N.of_nat]. change (sps 0 ++ rest) with rest.
    rewrite adv_0.
    assert (He : (if cb then buf_is_empty str_ops else ret false) (mv s rest lk m w) = Ok (false, mv s rest lk m w)).
    { destruct cb; [|reflexivity]. rewrite buf_is_empty_mv. destruct (Nat.eqb_spec lk 0); [exfalso; apply Hcb; auto|reflexivity]. }
    mstep ltac:(exact He). mstep ltac:(apply col_mv). cbn [orb].
    destruct (m_col m <? indent); cbn [negb]; [|reflexivity].
    mstep ltac:(apply peek_mv). destruct (N.eqb_spec (hd0 rest) 32); [contradiction|reflexivity].
  - destruct f as [|f]; [lia|]. cbn [skip_spaces_to].
    assert (He : (if cb then buf_is_empty str_ops else ret false) (mv s (sps (S k) ++ rest) lk m w)
                 = Ok (false, mv s (sps (S k) ++ rest) lk m w)).
    { destruct cb; [|reflexivity]. rewrite buf_is_empty_mv. destruct (Nat.eqb_spec lk 0); [exfalso; apply Hcb; auto|reflexivity]. }
    mstep ltac:(exact He). mstep ltac:(apply col_mv). cbn [orb].
    destruct (N.ltb_spec (m_col m) indent) as [Hlt|Hge]; cbn [negb].
    + change (sps (S k) ++ rest) with (32 :: sps k ++ rest).
      mstep ltac:(apply peek_mv). hd0c. change (32 =? 32) with true. cbv iota.
      mstep ltac:(apply skip_blank_mv). cbn [tl].
      rewrite (IH rest f indent cb s lk (adv 1 m) w (Nat.min k (N.to_nat (indent - m_col (adv 1 m))))); auto; [|lia].
      rewrite adv_adv. cbn [adv m_col] in *.
      assert (Hj' : j = S (Nat.min k (N.to_nat (indent - (m_col m + 1))))) by lia.
      rewrite Hj'. cbn [Nat.sub]. do 4 f_equal. lia.
    + assert (Hj0 : j = O) by lia. subst j. rewrite Hj0. cbn [N.of_nat]. rewrite adv_0, Nat.sub_0_r. reflexivity.
Qed.

(* the wide-indent loop of skip_block_scalar_indent (indent >= bufmaxlen - 2) *)
Section Wide.
Variables (F : nat) (indent : N).
Fixpoint wide (f : nat) : MS unit :=
  match f with
  | O => oof
  | S f =>
    look str_ops (bufmaxlen str_ops) ;;; skip_spaces_to str_ops F indent true ;;;
    k <- col ;; e <- buf_is_empty str_ops ;;
    c <- (if e then ret 32 else peek str_ops) ;;
    if (k =? indent) || (negb e && negb (c =? 32)) then ret tt else wide f
  end.
End Wide.

(* the "consume the indentation" phase of one round *)
Definition sbsi_sp (F : nat) (indent : N) : MS unit :=
  if indent <? N.of_nat (bufmaxlen str_ops - 2) then look str_ops (bufmaxlen str_ops) ;;; skip_spaces_to str_ops F indent false
  else wide F indent F ;;; look str_ops 2.

Lemma sbsi_eq F fuel indent breaks :
  skip_block_scalar_indent str_ops F (S fuel) indent breaks =
  ((if Nat.ltb (bufmaxlen str_ops) 2 then panic 121 else ret tt) ;;;
   sbsi_sp F indent ;;;
   b <- next_is str_ops is_break ;;
   if b then skip_break str_ops ;;; skip_block_scalar_indent str_ops F fuel indent (breaks + 1) else ret breaks).
Proof. reflexivity. Qed.

Lemma sbsi_sp_spec : forall k (rest : list chr) F indent s lk m w j,
  hd0 rest <> 32 -> (k < F)%nat -> m_col m <= indent ->
  j = Nat.min k (N.to_nat (indent - m_col m)) ->
  exists lk', (lk <= lk')%nat /\ lk' <> O /\
  sbsi_sp F indent (mv s (sps k ++ rest) lk m w)
  = Ok (tt, mv s (sps (k - j) ++ rest) lk' (adv (N.of_nat j) m) w).
Proof.
  intros k rest F indent s lk m w j Hr Hf Hcol Hj. unfold sbsi_sp.
  change (bufmaxlen str_ops) with 128%nat.
  destruct (indent <? N.of_nat (128 - 2)).
  - exists (Nat.max lk 128). split; [lia|]. split; [lia|].
    mstep ltac:(apply look_mv).
    apply skip_spaces_to_spec; auto. discriminate.
  - exists (Nat.max (Nat.max lk 128) 2). split; [lia|]. split; [lia|].
    destruct F as [|F]; [lia|].
    assert (Hw : wide (S F) indent (S F) (mv s (sps k ++ rest) lk m w)
                 = Ok (tt, mv s (sps (k - j) ++ rest) (Nat.max lk 128) (adv (N.of_nat j) m) w)).
    { cbn [wide]. change (bufmaxlen str_ops) with 128%nat.
      mstep ltac:(apply look_mv).
      mstep ltac:(apply (skip_spaces_to_spec k rest (S F) indent true s (Nat.max lk 128) m w j); auto; lia).
      mstep ltac:(apply col_mv). mstep ltac:(apply buf_is_empty_mv).
      destruct (Nat.eqb_spec (Nat.max lk 128) 0) as [E|_]; [lia|]. cbv iota.
      mstep ltac:(apply peek_mv). cbn [negb andb adv m_col].
      destruct (Nat.le_gt_cases (N.to_nat (indent - m_col m)) k) as [Hle|Hgt].
      - assert (E : m_col m + N.of_nat j = indent) by lia. rewrite E, N.eqb_refl. reflexivity.
      - assert (Ej : j = k) by lia. rewrite Ej, Nat.sub_diag. change (sps 0 ++ rest) with rest.
        destruct (N.eqb_spec (hd0 rest) 32); [contradiction|]. cbn [negb]. rewrite orb_true_r. reflexivity. }
    mstep ltac:(exact Hw). apply look_mv.
Qed.

(* blank lines: k_i spaces and a line feed each *)
Definition blank_lines (ks : list nat) : list chr := flat_map (fun k => sps k ++ [10]) ks.

Lemma col_nlm m : m_col (nlm m) = 0.
Proof. reflexivity. Qed.

Lemma mark_after_blank_line k m : mark_after m (sps k ++ [10]) = nlm (adv (N.of_nat k) m).
Proof. rewrite mark_after_app, mark_after_spaces. reflexivity. Qed.

(* (T3) skip_block_scalar_indent: blank lines of at most [indent] spaces are counted, then at most [indent] spaces
   of the next line are consumed.  The next line is a content line (more than [indent] spaces, or a character
   that is neither a space nor a break after at most [indent] spaces) or the less indented line after the scalar. *)
Theorem skip_block_scalar_indent_spec : forall ks k (rest : list chr) F fuel indent breaks s lk m,
  m_col m = 0 ->
  Forall (fun k => N.of_nat k <= indent) ks ->
  hd0 rest <> 32 ->
  (indent < N.of_nat k \/ is_break (hd0 rest) = false) ->
  (length ks < fuel)%nat ->
  Forall (fun k => (k < F)%nat) (k :: ks) ->
  exists lk', (lk <= lk')%nat /\ lk' <> O /\
  skip_block_scalar_indent str_ops F fuel indent breaks (mv s (blank_lines ks ++ sps k ++ rest) lk m true)
  = Ok (breaks + N.of_nat (length ks),
        mv s (sps (k - Nat.min k (N.to_nat indent)) ++ rest) lk'
           (mark_after m (blank_lines ks ++ sps (Nat.min k (N.to_nat indent)))) true).
Proof.
  induction ks as [|k0 ks IH]; intros k rest F fuel indent breaks s lk m Hcol Hks Hr Hlast Hfuel HF.
  - destruct fuel as [|fuel]; [cbn in Hfuel; lia|]. rewrite sbsi_eq.
    change (Nat.ltb (bufmaxlen str_ops) 2) with false. cbv iota.
    inversion HF as [|? ? HkF _]; subst.
    destruct (sbsi_sp_spec k rest F indent s lk m true (Nat.min k (N.to_nat indent)) Hr HkF) as [lk' [Hle [Hne Hsp]]];
      [rewrite Hcol; lia|rewrite Hcol, N.sub_0_r; reflexivity|].
    exists lk'. split; [exact Hle|]. split; [exact Hne|].
    cbn [blank_lines flat_map app length N.of_nat]. rewrite N.add_0_r.
    mstep ltac:(reflexivity). mstep ltac:(exact Hsp). mstep ltac:(apply next_is_mv).
    rewrite mark_after_spaces.
    assert (Hb : is_break (hd0 (sps (k - Nat.min k (N.to_nat indent)) ++ rest)) = false).
    { rewrite hd0_sps_app. destruct (k - Nat.min k (N.to_nat indent))%nat eqn:E; [|reflexivity].
      destruct Hlast as [Hlt|Hnb]; [lia|exact Hnb]. }
    rewrite Hb. reflexivity.
  - destruct fuel as [|fuel]; [cbn in Hfuel; lia|]. rewrite sbsi_eq.
    change (Nat.ltb (bufmaxlen str_ops) 2) with false. cbv iota.
    inversion Hks as [|? ? Hk0 Hks']; subst.
    inversion HF as [|? ? HkF HF']; subst. inversion HF' as [|? ? Hk0F HksF]; subst.
    cbn [blank_lines flat_map]. fold (blank_lines ks). rewrite <- !app_assoc. cbn [app].
    assert (Hr0 : hd0 (10 :: blank_lines ks ++ sps k ++ rest) <> 32) by (intro H; change (10 = 32) in H; discriminate).
    destruct (sbsi_sp_spec k0 (10 :: blank_lines ks ++ sps k ++ rest) F indent s lk m true k0 Hr0 Hk0F)
      as [lk1 [Hle1 [Hne1 Hsp]]]; [rewrite Hcol; lia|rewrite Hcol; lia|].
    rewrite Nat.sub_diag in Hsp. change (sps 0 ++ 10 :: blank_lines ks ++ sps k ++ rest) with (10 :: blank_lines ks ++ sps k ++ rest) in Hsp.
    destruct (IH k rest F fuel indent (breaks + 1) s lk1 (nlm (adv (N.of_nat k0) m))) as [lk' [Hle [Hne Hrec]]]; auto.
    { cbn [length] in Hfuel. lia. }
    exists lk'. split; [lia|]. split; [exact Hne|].
    mstep ltac:(reflexivity). mstep ltac:(exact Hsp). mstep ltac:(apply next_is_mv). hd0c.
    change (is_break 10) with true. cbv iota.
    mstep ltac:(apply skip_break_lf).
    rewrite Hrec. cbn [length]. rewrite (mark_after_app m (sps k0)), mark_after_spaces.
    change (mark_after (adv (N.of_nat k0) m) (10 :: blank_lines ks ++ sps (Nat.min k (N.to_nat indent))))
      with (mark_after (nlm (adv (N.of_nat k0) m)) (blank_lines ks ++ sps (Nat.min k (N.to_nat indent)))).
    do 2 f_equal. lia.
Qed.

(* ------------------------------------------------------------------------------------------ *)
(* skip_first_line_indent (auto-detected indentation)                                          *)
(* ------------------------------------------------------------------------------------------ *)
Fixpoint sfl_sp (f : nat) : MS unit :=
  match f with
  | O => oof
  | S f => c <- look_ch str_ops ;; if c =? 32 then skip_blank str_ops ;;; sfl_sp f else ret tt
  end.

Lemma sfli_eq F fuel maxi breaks :
  skip_first_line_indent str_ops F (S fuel) maxi breaks =
  (sfl_sp F ;;; k <- col ;;
   b <- next_is str_ops is_break ;;
   if b then look str_ops 2 ;;; skip_break str_ops ;;; skip_first_line_indent str_ops F fuel (N.max maxi k) (breaks + 1)
   else ret (N.max maxi k, breaks)).
Proof. reflexivity. Qed.

Lemma sfl_sp_spec : forall k (rest : list chr) f s lk m w,
  hd0 rest <> 32 -> (k < f)%nat ->
  sfl_sp f (mv s (sps k ++ rest) lk m w) = Ok (tt, mv s rest (Nat.max lk 1) (adv (N.of_nat k) m) w).
Proof.
  induction k as [|k IH]; intros rest f s lk m w Hr Hf; (destruct f as [|f]; [lia|]); cbn [sfl_sp].
  - change (sps 0 ++ rest) with rest. mstep ltac:(apply look_ch_mv).
    destruct (N.eqb_spec (hd0 rest) 32); [contradiction|]. cbn [N.of_nat]. rewrite adv_0. reflexivity.
  - change (sps (S k) ++ rest) with (32 :: sps k ++ rest). mstep ltac:(apply look_ch_mv). hd0c.
    change (32 =? 32) with true. cbv iota. mstep ltac:(apply skip_blank_mv). cbn [tl].
    rewrite IH by (auto; lia). rewrite adv_adv.
    replace (Nat.max (Nat.max lk 1) 1) with (Nat.max lk 1) by lia.
    do 4 f_equal. lia.
Qed.

Definition maxl (ks : list nat) (k : nat) : nat := fold_right Nat.max k ks.

Lemma col_after_blank_lines : forall ks j m, m_col m = 0 ->
  m_col (mark_after m (blank_lines ks ++ sps j)) = N.of_nat j.
Proof.
  induction ks as [|k ks IH]; intros j m Hm.
  - cbn [blank_lines flat_map app]. rewrite mark_after_spaces. cbn [adv m_col]. lia.
  - cbn [blank_lines flat_map]. fold (blank_lines ks). rewrite <- app_assoc, mark_after_app, mark_after_blank_line.
    apply IH. reflexivity.
Qed.

Theorem skip_first_line_indent_spec : forall ks k (rest : list chr) F fuel maxi breaks s lk m,
  m_col m = 0 ->
  hd0 rest <> 32 -> is_break (hd0 rest) = false ->
  (length ks < fuel)%nat -> Forall (fun k => (k < F)%nat) (k :: ks) ->
  exists lk', (lk <= lk')%nat /\ lk' <> O /\
  skip_first_line_indent str_ops F fuel maxi breaks (mv s (blank_lines ks ++ sps k ++ rest) lk m true)
  = Ok ((N.max maxi (N.of_nat (maxl ks k)), breaks + N.of_nat (length ks)),
        mv s rest lk' (mark_after m (blank_lines ks ++ sps k)) true).
Proof.
  induction ks as [|k0 ks IH]; intros k rest F fuel maxi breaks s lk m Hcol Hr Hnb Hfuel HF.
  - destruct fuel as [|fuel]; [cbn in Hfuel; lia|]. rewrite sfli_eq.
    inversion HF as [|? ? HkF _]; subst.
    exists (Nat.max lk 1). split; [lia|]. split; [lia|].
    cbn [blank_lines flat_map app length N.of_nat maxl fold_right]. rewrite N.add_0_r.
    mstep ltac:(apply sfl_sp_spec; auto). mstep ltac:(apply col_mv). mstep ltac:(apply next_is_mv).
    rewrite Hnb. rewrite mark_after_spaces. cbn [adv m_col]. rewrite Hcol, N.add_0_l. reflexivity.
  - destruct fuel as [|fuel]; [cbn in Hfuel; lia|]. rewrite sfli_eq.
    inversion HF as [|? ? HkF HF']; subst. inversion HF' as [|? ? Hk0F HksF]; subst.
    cbn [blank_lines flat_map]. fold (blank_lines ks). rewrite <- !app_assoc.
    change ([10] ++ blank_lines ks ++ sps k ++ rest) with (10 :: blank_lines ks ++ sps k ++ rest).
    destruct (IH k rest F fuel (N.max maxi (N.of_nat k0)) (breaks + 1) s (Nat.max (Nat.max lk 1) 2) (nlm (adv (N.of_nat k0) m)))
      as [lk' [Hle [Hne Hrec]]]; auto.
    { cbn [length] in Hfuel. lia. }
    exists lk'. split; [lia|]. split; [exact Hne|].
    mstep ltac:(apply sfl_sp_spec; [intro H; change (10 = 32) in H; discriminate|exact Hk0F]).
    mstep ltac:(apply col_mv). mstep ltac:(apply next_is_mv). hd0c. change (is_break 10) with true. cbv iota.
    mstep ltac:(apply look_mv). mstep ltac:(apply skip_break_lf).
    cbn [adv m_col]. rewrite Hcol, N.add_0_l. rewrite Hrec.
    cbn [length maxl fold_right]. fold (maxl ks k).
    rewrite (mark_after_app m (sps k0)), mark_after_spaces.
    change (mark_after (adv (N.of_nat k0) m) (([10] ++ blank_lines ks) ++ sps k))
      with (mark_after (nlm (adv (N.of_nat k0) m)) (blank_lines ks ++ sps k)).
    do 3 f_equal; lia.
Qed.
