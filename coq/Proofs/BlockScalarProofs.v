(* C05 — proofs about the scanner model's block-scalar code on the string back-end ([str_ops]) against
   Spec/BlockScalar.v.

   All of Part 3 and Part 4 is proved for the three line-break styles of YAML (LF, CR LF, CR): section variable [brk]
   with [break_style brk]; the texts are those of the specification with every line feed replaced ([wbrk] =
   [with_breaks]).

   Part 0  the monad, a view of scanner states ([mv]), one-step facts about the input primitives on [str_ops], breaks
   Part 1  (T1) [nls] / chomping arithmetic
   Part 2  (T2) [scan_block_scalar_content_line]
   Part 3  (T3) [skip_spaces_to], [skip_block_scalar_indent] (both the narrow and the wide-indent path),
                [skip_first_line_indent]
   Part 4  (T4) [scan_block_scalar], literal and folded style
   Part 5  the complete statement [C05_full], contexts, pipeline examples, refutation witness, former witnesses
   (Proofs/BlockScalarCase.v: the same theorems stated on the cases [bcase] / [case_ok] of the specification) *)
From Coq Require Import List NArith ZArith Bool Arith Lia.
Import ListNotations.
Require Import Parser SBase SPrim SDir SScalar BlockScalar.
Open Scope N_scope.
Open Scope mon_scope.

(* ========================================================================================== *)
(* Part 0: monad, state view, primitive steps                                                   *)
(* ========================================================================================== *)
Notation MS := (@M strin).

Lemma bind_ok_eq {A B} (m : MS A) (f : A -> MS B) (s : sc strin) a s' r :
  m s = Ok (a, s') -> f a s' = r -> bind m f s = r.
Proof. intros H1 H2. unfold bind. rewrite H1. exact H2. Qed.

(* the scanner state [s] with input position, look-ahead counter, mark and leading-white-space flag replaced *)
Definition mv (s : sc strin) (cs : list chr) (lk : nat) (m : marker) (w : bool) : sc strin :=
  set_lws w (upd s {| si_chars := cs; si_look := lk |} m (sc_tokens s)).

Lemma mv_mv s cs lk m w cs' lk' m' w' : mv (mv s cs lk m w) cs' lk' m' w' = mv s cs' lk' m' w'.
Proof. reflexivity. Qed.

Lemma mv_self s : mv s (si_chars (sc_in s)) (si_look (sc_in s)) (sc_mark s) (sc_lws s) = s.
Proof. destruct s as [[cs lk] m]; reflexivity. Qed.

Lemma adv_0 m : adv 0 m = m.
Proof. destruct m as [i l c]; unfold adv; cbn [m_index m_line m_col]. rewrite !N.add_0_r. reflexivity. Qed.

Lemma adv_adv a b m : adv a (adv b m) = adv (b + a) m.
Proof. unfold adv; cbn [m_index m_line m_col]. rewrite !N.add_assoc. reflexivity. Qed.

(* first character of the remaining input (NUL at the end), and runs of spaces *)
Definition hd0 (cs : list chr) : chr := nth 0 cs 0.
Definition sps (k : nat) : list chr := repeat 32 k.
Lemma hd0_cons c r : hd0 (c :: r) = c.
Proof. reflexivity. Qed.
Lemma hd0_sps_app k rest : hd0 (sps k ++ rest) = match k with O => hd0 rest | S _ => 32 end.
Proof. destruct k; reflexivity. Qed.

Section Steps.
Variables (s : sc strin) (cs : list chr) (lk : nat) (m : marker) (w : bool).
Notation st := (mv s cs lk m w).

Lemma look_mv n : look str_ops n st = Ok (tt, mv s cs (Nat.max lk n) m w).
Proof. reflexivity. Qed.
Lemma peekn_mv n : peekn str_ops n st = Ok (nth n cs 0, st).
Proof. reflexivity. Qed.
Lemma peek_mv : peek str_ops st = Ok (hd0 cs, st).
Proof. reflexivity. Qed.
Lemma look_ch_mv : look_ch str_ops st = Ok (hd0 cs, mv s cs (Nat.max lk 1) m w).
Proof. reflexivity. Qed.
Lemma next_is_mv p : next_is str_ops p st = Ok (p (hd0 cs), st).
Proof. reflexivity. Qed.
Lemma buf_is_empty_mv : buf_is_empty str_ops st = Ok (Nat.eqb lk 0, st).
Proof. reflexivity. Qed.
Lemma col_mv : col st = Ok (m_col m, st).
Proof. reflexivity. Qed.
Lemma mark_mv : mark st = Ok (m, st).
Proof. reflexivity. Qed.
Lemma adv_mark_mv n : adv_mark n st = Ok (tt, mv s cs lk (adv n m) w).
Proof. reflexivity. Qed.
Lemma skip_blank_mv : skip_blank str_ops st = Ok (tt, mv s (tl cs) lk (adv 1 m) w).
Proof. reflexivity. Qed.
Lemma skip_non_blank_mv : skip_non_blank str_ops st = Ok (tt, mv s (tl cs) lk (adv 1 m) false).
Proof. reflexivity. Qed.
Lemma skip_nl_mv : skip_nl str_ops st = Ok (tt, mv s (tl cs) lk (nlm m) true).
Proof. reflexivity. Qed.
End Steps.

Lemma raw_read_some s c r lk m w : is_breakz c = false ->
  raw_read str_ops (mv s (c :: r) lk m w) = Ok (Some c, mv s r lk m w).
Proof. intros H. unfold raw_read. cbn. rewrite H. reflexivity. Qed.

Lemma raw_read_none s cs lk m w : is_breakz (hd0 cs) = true ->
  raw_read str_ops (mv s cs lk m w) = Ok (None, mv s cs lk m w).
Proof. intros H. unfold raw_read. destruct cs as [|c r]; cbn; [reflexivity|]. cbn in H. rewrite H. reflexivity. Qed.

Ltac mstep tac := (eapply bind_ok_eq; [tac | cbv beta match]).

(* ------------------------------------------------------------------------------------------ *)
(* Line breaks.  Everything below is proved for the three break styles of YAML: LF, CR LF, CR   *)
(* ------------------------------------------------------------------------------------------ *)
Definition break_style (brk : list chr) : Prop := brk = [10] \/ brk = [13; 10] \/ brk = [13].
(* in a text whose breaks are lone CRs a CR is a line break by itself *)
Definition crnl (brk : list chr) : bool := match brk with [13] => true | _ => false end.

(* the mark after reading a text *)
Fixpoint mark_after (brk : list chr) (m : marker) (t : list chr) : marker :=
  match t with
  | [] => m
  | c :: r => mark_after brk (if (c =? 10) || ((c =? 13) && crnl brk) then nlm m else adv 1 m) r
  end.

Lemma mark_after_app brk m a b : mark_after brk m (a ++ b) = mark_after brk (mark_after brk m a) b.
Proof. revert m; induction a as [|c a IH]; intros m; cbn [app mark_after]; [reflexivity|apply IH]. Qed.

Lemma mark_after_nolf brk t : Forall (fun c => is_break c = false) t -> forall m, mark_after brk m t = adv (N.of_nat (length t)) m.
Proof.
  induction 1 as [|c r Hc Hr IH]; intros m; cbn [mark_after length].
  - symmetry; apply adv_0.
  - unfold is_break in Hc. apply orb_false_iff in Hc. destruct Hc as [H10 H13]. rewrite H10, H13. cbn [orb andb].
    rewrite IH, adv_adv. f_equal. lia.
Qed.

Lemma mark_after_spaces brk k m : mark_after brk m (sps k) = adv (N.of_nat k) m.
Proof.
  unfold sps. rewrite mark_after_nolf; [rewrite repeat_length; reflexivity|].
  apply Forall_forall. intros x Hx. apply repeat_spec in Hx. subst. reflexivity.
Qed.

(* what may follow a break: after a lone CR no LF (it would make a CR LF) *)
Definition follow (brk r : list chr) : Prop := crnl brk = true -> hd0 r <> 10.

Section BreakFacts.
Variable brk : list chr.
Hypothesis Hbrk : break_style brk.

Lemma crnl_cr : crnl brk = true -> brk = [13].
Proof. destruct Hbrk as [->|[->| ->]]; [discriminate|discriminate|reflexivity]. Qed.

Lemma skip_break_brk s r lk m w : follow brk r ->
  skip_break str_ops (mv s (brk ++ r) lk m w) = Ok (tt, mv s r lk (mark_after brk m brk) true).
Proof.
  intros Hf. destruct Hbrk as [->|[->| ->]]; [reflexivity|reflexivity|].
  unfold skip_break. cbn [app]. mstep ltac:(apply peek_mv). mstep ltac:(apply peekn_mv).
  change (nth 1 (13 :: r) 0) with (hd0 r).
  destruct (N.eqb_spec (hd0 r) 10) as [E|_]; [exfalso; apply (Hf eq_refl); exact E|]. reflexivity.
Qed.

Lemma col_brk m : m_col (mark_after brk m brk) = 0.
Proof. destruct Hbrk as [->|[->| ->]]; reflexivity. Qed.
Lemma line_brk m : m_line (mark_after brk m brk) = m_line m + 1.
Proof. destruct Hbrk as [->|[->| ->]]; reflexivity. Qed.

(* the first character of a break *)
Lemma hd0_brk r : hd0 (brk ++ r) = 10 \/ hd0 (brk ++ r) = 13.
Proof. destruct Hbrk as [->|[->| ->]]; [left|right|right]; reflexivity. Qed.
Lemma brk_is_break r : is_break (hd0 (brk ++ r)) = true.
Proof. destruct (hd0_brk r) as [-> | ->]; reflexivity. Qed.
Lemma brk_is_breakz r : is_breakz (hd0 (brk ++ r)) = true.
Proof. destruct (hd0_brk r) as [-> | ->]; reflexivity. Qed.
Lemma brk_not_z r : is_z (hd0 (brk ++ r)) = false.
Proof. destruct (hd0_brk r) as [-> | ->]; reflexivity. Qed.
Lemma brk_not_space r : hd0 (brk ++ r) <> 32.
Proof. destruct (hd0_brk r) as [-> | ->]; discriminate. Qed.
Lemma brk_not_tab r : hd0 (brk ++ r) <> 9.
Proof. destruct (hd0_brk r) as [-> | ->]; discriminate. Qed.
Lemma brk_ne : brk <> [].
Proof. destruct Hbrk as [->|[->| ->]]; discriminate. Qed.
Lemma brk_split : exists b t, brk = b :: t /\ (b = 10 \/ b = 13).
Proof. destruct Hbrk as [->|[->| ->]]; eexists; eexists; (split; [reflexivity|]); [left|right|right]; reflexivity. Qed.

Lemma follow_nb r : is_break (hd0 r) = false -> follow brk r.
Proof. intros H _ E. rewrite E in H. discriminate H. Qed.
Lemma follow_nil : follow brk [].
Proof. intros _ E. discriminate E. Qed.
Lemma follow_brk r : follow brk (brk ++ r).
Proof. intros H. rewrite (crnl_cr H). discriminate. Qed.
Lemma follow_sps k r : follow brk r -> follow brk (sps k ++ r).
Proof. intros H Hc. destruct k as [|k]; [exact (H Hc)|discriminate]. Qed.
End BreakFacts.

(* ========================================================================================== *)
(* Part 1 (T1): nls and chomping arithmetic                                                     *)
(* ========================================================================================== *)
Lemma nls_0 acc : nls 0 acc = acc.
Proof. reflexivity. Qed.

Lemma nls_succ n acc : nls (N.succ n) acc = 10 :: nls n acc.
Proof. unfold nls. apply N.iter_succ. Qed.

Lemma nls_repeat n acc : nls n acc = repeat 10 (N.to_nat n) ++ acc.
Proof.
  induction n as [|n IH] using N.peano_ind; [reflexivity|].
  rewrite nls_succ, IH, N2Nat.inj_succ. reflexivity.
Qed.

Lemma nls_add a b acc : nls (a + b) acc = nls a (nls b acc).
Proof.
  rewrite !nls_repeat, N2Nat.inj_add, repeat_app, app_assoc. reflexivity.
Qed.

Lemma rev_repeat {A} (x : A) k : rev (repeat x k) = repeat x k.
Proof.
  induction k as [|k IH]; [reflexivity|]. cbn [repeat rev]. rewrite IH.
  clear IH. induction k as [|k IH]; [reflexivity|]. cbn [repeat app]. rewrite IH. reflexivity.
Qed.

Lemma rev_nls n acc : rev (nls n acc) = rev acc ++ lfs (N.to_nat n).
Proof. rewrite nls_repeat, rev_app_distr, rev_repeat. reflexivity. Qed.

Lemma nls_of_nat k acc : rev (nls (N.of_nat k) acc) = rev acc ++ lfs k.
Proof. rewrite rev_nls, Nat2N.id. reflexivity. Qed.

(* the three tails of the model against the specification *)
Definition to_model (c : chomp) : chomping := match c with CStrip => Strip | CClip => Clip | CKeep => Keep end.

Lemma chomp_tail c (acc : list chr) (tb : nat) :
  rev (match to_model c with Keep => nls (N.of_nat tb) | _ => fun a => a end
         (match to_model c with Strip => acc | _ => nls 1 acc end))
  = rev acc ++ match c with CStrip => [] | CClip => [LF] | CKeep => lfs (S tb) end.
Proof.
  destruct c; cbn [to_model].
  - rewrite app_nil_r. reflexivity.
  - rewrite rev_nls. reflexivity.
  - rewrite nls_of_nat, rev_nls, <- app_assoc. reflexivity.
Qed.

(* ========================================================================================== *)
(* Part 2 (T2): one content line                                                                *)
(* ========================================================================================== *)
Fixpoint cl_peek (f : nat) (acc : list chr) : MS (list chr) :=
  match f with
  | O => oof
  | S f => e <- buf_is_empty str_ops ;;
           if e then ret acc else
           c <- peek str_ops ;; if is_breakz c then ret acc else skip_blank str_ops ;;; cl_peek f (c :: acc)
  end.
Fixpoint cl_raw (f : nat) (acc : list chr) (n : N) : MS (list chr) :=
  match f with
  | O => oof
  | S f => c <- raw_read str_ops ;;
           match c with
           | Some c => cl_raw f (c :: acc) (n + 1)
           | None => adv_mark n ;;; ret acc
           end
  end.

Lemma content_line_eq F acc :
  scan_block_scalar_content_line str_ops F acc =
  (acc <- cl_peek F acc ;; e <- buf_is_empty str_ops ;; if e then cl_raw F acc 0 else ret acc).
Proof. reflexivity. Qed.

Definition nobreak (t : list chr) : Prop := Forall (fun c => is_breakz c = false) t.

Lemma nobreak_nolf t : nobreak t -> Forall (fun c => is_break c = false) t.
Proof. apply Forall_impl. intros c H. exact (proj1 (orb_false_elim _ _ H)). Qed.

(* the buffered-peek loop: with a non-empty look-ahead it reads the whole line *)
Lemma cl_peek_full : forall (txt rest : list chr) f acc s lk m w,
  nobreak txt -> is_breakz (hd0 rest) = true -> lk <> O -> (length txt < f)%nat ->
  cl_peek f acc (mv s (txt ++ rest) lk m w)
  = Ok (rev txt ++ acc, mv s rest lk (adv (N.of_nat (length txt)) m) w).
Proof.
  induction txt as [|c txt IH]; intros rest f acc s lk m w Hnb Hr Hlk Hf.
  - destruct f as [|f]; [cbn in Hf; lia|]. cbn [cl_peek app length rev].
    (eapply bind_ok_eq; [apply buf_is_empty_mv|cbv beta iota]). destruct (Nat.eqb_spec lk 0); [contradiction|].
    (eapply bind_ok_eq; [apply peek_mv|cbv beta iota]). rewrite Hr. rewrite adv_0. reflexivity.
  - destruct f as [|f]; [cbn in Hf; lia|]. inversion Hnb as [|? ? Hc Hnb']; subst.
    cbn [cl_peek app].
    (eapply bind_ok_eq; [apply buf_is_empty_mv|cbv beta iota]). destruct (Nat.eqb_spec lk 0); [contradiction|].
    (eapply bind_ok_eq; [apply peek_mv|cbv beta iota]). rewrite hd0_cons, Hc.
    (eapply bind_ok_eq; [apply skip_blank_mv|cbv beta iota]). cbn [tl].
    rewrite IH; [|auto|auto|auto|cbn [length] in Hf; lia].
    rewrite adv_adv. cbn [rev length]. rewrite <- app_assoc. cbn [app].
    do 4 f_equal. lia.
Qed.

(* with an empty look-ahead it reads nothing *)
Lemma cl_peek_empty f acc s cs m w : cl_peek (S f) acc (mv s cs O m w) = Ok (acc, mv s cs O m w).
Proof. reflexivity. Qed.

(* the raw fast path *)
Lemma cl_raw_full : forall (txt rest : list chr) f acc n s lk m w,
  nobreak txt -> is_breakz (hd0 rest) = true -> (length txt < f)%nat ->
  cl_raw f acc n (mv s (txt ++ rest) lk m w)
  = Ok (rev txt ++ acc, mv s rest lk (adv (n + N.of_nat (length txt)) m) w).
Proof.
  induction txt as [|c txt IH]; intros rest f acc n s lk m w Hnb Hr Hf.
  - destruct f as [|f]; [cbn in Hf; lia|]. cbn [cl_raw app length rev].
    (eapply bind_ok_eq; [apply raw_read_none; exact Hr|cbv beta iota]).
    (eapply bind_ok_eq; [apply adv_mark_mv|cbv beta iota]). rewrite N.add_0_r. reflexivity.
  - destruct f as [|f]; [cbn in Hf; lia|]. inversion Hnb as [|? ? Hc Hnb']; subst.
    cbn [cl_raw app].
    (eapply bind_ok_eq; [apply raw_read_some; exact Hc|cbv beta iota]).
    rewrite IH; [|auto|auto|cbn [length] in Hf; lia].
    cbn [rev length]. rewrite <- app_assoc. cbn [app]. do 4 f_equal. lia.
Qed.

Theorem content_line_spec : forall brk (txt rest : list chr) F acc s lk m w,
  nobreak txt -> is_breakz (hd0 rest) = true -> (length txt < F)%nat ->
  scan_block_scalar_content_line str_ops F acc (mv s (txt ++ rest) lk m w)
  = Ok (rev txt ++ acc, mv s rest lk (mark_after brk m txt) w).
Proof.
  intros brk txt rest F acc s lk m w Hnb Hr Hf. rewrite content_line_eq.
  rewrite (mark_after_nolf brk _ (nobreak_nolf _ Hnb)).
  destruct lk as [|lk].
  - (* empty look-ahead: raw fast path *)
    destruct F as [|F]; [lia|].
    (eapply bind_ok_eq; [apply cl_peek_empty|cbv beta iota]).
    (eapply bind_ok_eq; [apply buf_is_empty_mv|cbv beta iota]). cbn [Nat.eqb].
    rewrite cl_raw_full by auto. rewrite N.add_0_l. reflexivity.
  - (eapply bind_ok_eq; [apply cl_peek_full; auto|cbv beta iota]).
    (eapply bind_ok_eq; [apply buf_is_empty_mv|cbv beta iota]). reflexivity.
Qed.

Ltac hd0c := match goal with |- context [hd0 (?c :: ?r)] => change (hd0 (c :: r)) with c end.

(* ========================================================================================== *)
(* Part 3 (T3): indentation                                                                     *)
(* ========================================================================================== *)
Section Brk.
Variable brk : list chr.
Hypothesis Hbrk : break_style brk.

(* [skip_spaces_to indent]: on k spaces followed by something else it consumes min k (indent - column) of them *)
Lemma skip_spaces_to_spec : forall k (rest : list chr) f indent cb s lk m w j,
  hd0 rest <> 32 -> (k < f)%nat -> (cb = true -> lk <> O) ->
  j = Nat.min k (N.to_nat (indent - m_col m)) ->
  skip_spaces_to str_ops f indent cb (mv s (sps k ++ rest) lk m w)
  = Ok (tt, mv s (sps (k - j) ++ rest) lk (adv (N.of_nat j) m) w).
Proof.
  induction k as [|k IH]; intros rest f indent cb s lk m w j Hr Hf Hcb Hj.
  - destruct f as [|f]; [lia|]. cbn [skip_spaces_to]. cbn [Nat.min] in Hj. subst j. cbn [Nat.sub N.of_nat]. change (sps 0 ++ rest) with rest.
    rewrite adv_0.
    assert (He : (if cb then buf_is_empty str_ops else ret false) (mv s rest lk m w) = Ok (false, mv s rest lk m w)).
    { destruct cb; [|reflexivity]. rewrite buf_is_empty_mv. destruct (Nat.eqb_spec lk 0); [exfalso; apply Hcb; auto|reflexivity]. }
    mstep ltac:(exact He). mstep ltac:(apply col_mv). cbn [orb].
    destruct (m_col m <? indent); cbn [negb]; [|reflexivity].
    mstep ltac:(apply peek_mv). destruct (N.eqb_spec (hd0 rest) 32); [contradiction|reflexivity].
  - destruct f as [|f]; [lia|]. cbn [skip_spaces_to].
    assert (He : (if cb then buf_is_empty str_ops else ret false) (mv s (sps (S k) ++ rest) lk m w)
                 = Ok (false, mv s (sps (S k) ++ rest) lk m w)).
    { destruct cb; [|reflexivity]. rewrite buf_is_empty_mv. destruct (Nat.eqb_spec lk 0); [exfalso; apply Hcb; auto|reflexivity]. }
    mstep ltac:(exact He). mstep ltac:(apply col_mv). cbn [orb].
    destruct (N.ltb_spec (m_col m) indent) as [Hlt|Hge]; cbn [negb].
    + change (sps (S k) ++ rest) with (32 :: sps k ++ rest).
      mstep ltac:(apply peek_mv). hd0c. change (32 =? 32) with true. cbv iota.
      mstep ltac:(apply skip_blank_mv). cbn [tl].
      rewrite (IH rest f indent cb s lk (adv 1 m) w (Nat.min k (N.to_nat (indent - m_col (adv 1 m))))); auto; [|lia].
      rewrite adv_adv. cbn [adv m_col] in *.
      assert (Hj' : j = S (Nat.min k (N.to_nat (indent - (m_col m + 1))))) by lia.
      rewrite Hj'. cbn [Nat.sub]. do 4 f_equal. lia.
    + assert (Hj0 : j = O) by lia. subst j. rewrite Hj0. cbn [N.of_nat]. rewrite adv_0, Nat.sub_0_r. reflexivity.
Qed.

(* the wide-indent loop of skip_block_scalar_indent (indent >= bufmaxlen - 2) *)
Section Wide.
Variables (F : nat) (indent : N).
Fixpoint wide (f : nat) : MS unit :=
  match f with
  | O => oof
  | S f =>
    look str_ops (bufmaxlen str_ops) ;;; skip_spaces_to str_ops F indent true ;;;
    k <- col ;; e <- buf_is_empty str_ops ;;
    c <- (if e then ret 32 else peek str_ops) ;;
    if (k =? indent) || (negb e && negb (c =? 32)) then ret tt else wide f
  end.
End Wide.

(* the "consume the indentation" phase of one round *)
Definition sbsi_sp (F : nat) (indent : N) : MS unit :=
  if indent <? N.of_nat (bufmaxlen str_ops - 2) then look str_ops (bufmaxlen str_ops) ;;; skip_spaces_to str_ops F indent false
  else wide F indent F ;;; look str_ops 2.

Lemma sbsi_eq F fuel indent breaks :
  skip_block_scalar_indent str_ops F (S fuel) indent breaks =
  ((if Nat.ltb (bufmaxlen str_ops) 2 then panic 121 else ret tt) ;;;
   sbsi_sp F indent ;;;
   b <- next_is str_ops is_break ;;
   if b then skip_break str_ops ;;; skip_block_scalar_indent str_ops F fuel indent (breaks + 1) else ret breaks).
Proof. reflexivity. Qed.

Lemma sbsi_sp_spec : forall k (rest : list chr) F indent s lk m w j,
  hd0 rest <> 32 -> (k < F)%nat -> m_col m <= indent ->
  j = Nat.min k (N.to_nat (indent - m_col m)) ->
  exists lk', (lk <= lk')%nat /\ lk' <> O /\
  sbsi_sp F indent (mv s (sps k ++ rest) lk m w)
  = Ok (tt, mv s (sps (k - j) ++ rest) lk' (adv (N.of_nat j) m) w).
Proof.
  intros k rest F indent s lk m w j Hr Hf Hcol Hj. unfold sbsi_sp.
  change (bufmaxlen str_ops) with 128%nat.
  destruct (indent <? N.of_nat (128 - 2)).
  - exists (Nat.max lk 128). split; [lia|]. split; [lia|].
    mstep ltac:(apply look_mv).
    apply skip_spaces_to_spec; auto. discriminate.
  - exists (Nat.max (Nat.max lk 128) 2). split; [lia|]. split; [lia|].
    destruct F as [|F]; [lia|].
    assert (Hw : wide (S F) indent (S F) (mv s (sps k ++ rest) lk m w)
                 = Ok (tt, mv s (sps (k - j) ++ rest) (Nat.max lk 128) (adv (N.of_nat j) m) w)).
    { cbn [wide]. change (bufmaxlen str_ops) with 128%nat.
      mstep ltac:(apply look_mv).
      mstep ltac:(apply (skip_spaces_to_spec k rest (S F) indent true s (Nat.max lk 128) m w j); auto; lia).
      mstep ltac:(apply col_mv). mstep ltac:(apply buf_is_empty_mv).
      destruct (Nat.eqb_spec (Nat.max lk 128) 0) as [E|_]; [lia|]. cbv iota.
      mstep ltac:(apply peek_mv). cbn [negb andb adv m_col].
      destruct (Nat.le_gt_cases (N.to_nat (indent - m_col m)) k) as [Hle|Hgt].
      - assert (E : m_col m + N.of_nat j = indent) by lia. rewrite E, N.eqb_refl. reflexivity.
      - assert (Ej : j = k) by lia. rewrite Ej, Nat.sub_diag. change (sps 0 ++ rest) with rest.
        destruct (N.eqb_spec (hd0 rest) 32); [contradiction|]. cbn [negb]. rewrite orb_true_r. reflexivity. }
    mstep ltac:(exact Hw). apply look_mv.
Qed.

(* blank lines: k_i spaces and a line break each *)
Definition blank_lines (ks : list nat) : list chr := flat_map (fun k => sps k ++ brk) ks.

Lemma col_nlm m : m_col (nlm m) = 0.
Proof. reflexivity. Qed.

Lemma mark_after_blank_line k m : mark_after brk m (sps k ++ brk) = mark_after brk (adv (N.of_nat k) m) brk.
Proof. rewrite mark_after_app, mark_after_spaces. reflexivity. Qed.

Lemma follow_blank_lines ks X : follow brk X -> follow brk (blank_lines ks ++ X).
Proof.
  intros H. destruct ks as [|k ks]; [exact H|]. cbn [blank_lines flat_map]. rewrite <- !app_assoc.
  apply follow_sps. apply (follow_brk brk Hbrk).
Qed.

(* (T3) skip_block_scalar_indent: blank lines of at most [indent] spaces are counted, then at most [indent] spaces
   of the next line are consumed.  The next line is a content line (more than [indent] spaces, or a character
   that is neither a space nor a break after at most [indent] spaces) or the less indented line after the scalar. *)
Theorem skip_block_scalar_indent_spec : forall ks k (rest : list chr) F fuel indent breaks s lk m,
  m_col m = 0 ->
  Forall (fun k => N.of_nat k <= indent) ks ->
  hd0 rest <> 32 ->
  (indent < N.of_nat k \/ is_break (hd0 rest) = false) ->
  (length ks < fuel)%nat ->
  Forall (fun k => (k < F)%nat) (k :: ks) ->
  exists lk', (lk <= lk')%nat /\ lk' <> O /\
  skip_block_scalar_indent str_ops F fuel indent breaks (mv s (blank_lines ks ++ sps k ++ rest) lk m true)
  = Ok (breaks + N.of_nat (length ks),
        mv s (sps (k - Nat.min k (N.to_nat indent)) ++ rest) lk'
           (mark_after brk m (blank_lines ks ++ sps (Nat.min k (N.to_nat indent)))) true).
Proof.
  induction ks as [|k0 ks IH]; intros k rest F fuel indent breaks s lk m Hcol Hks Hr Hlast Hfuel HF.
  - destruct fuel as [|fuel]; [cbn in Hfuel; lia|]. rewrite sbsi_eq.
    change (Nat.ltb (bufmaxlen str_ops) 2) with false. cbv iota.
    inversion HF as [|? ? HkF _]; subst.
    destruct (sbsi_sp_spec k rest F indent s lk m true (Nat.min k (N.to_nat indent)) Hr HkF) as [lk' [Hle [Hne Hsp]]];
      [rewrite Hcol; lia|rewrite Hcol, N.sub_0_r; reflexivity|].
    exists lk'. split; [exact Hle|]. split; [exact Hne|].
    cbn [blank_lines flat_map app length N.of_nat]. rewrite N.add_0_r.
    mstep ltac:(reflexivity). mstep ltac:(exact Hsp). mstep ltac:(apply next_is_mv).
    rewrite mark_after_spaces.
    assert (Hb : is_break (hd0 (sps (k - Nat.min k (N.to_nat indent)) ++ rest)) = false).
    { rewrite hd0_sps_app. destruct (k - Nat.min k (N.to_nat indent))%nat eqn:E; [|reflexivity].
      destruct Hlast as [Hlt|Hnb]; [lia|exact Hnb]. }
    rewrite Hb. reflexivity.
  - destruct fuel as [|fuel]; [cbn in Hfuel; lia|]. rewrite sbsi_eq.
    change (Nat.ltb (bufmaxlen str_ops) 2) with false. cbv iota.
    inversion Hks as [|? ? Hk0 Hks']; subst.
    inversion HF as [|? ? HkF HF']; subst. inversion HF' as [|? ? Hk0F HksF]; subst.
    cbn [blank_lines flat_map]. fold (blank_lines ks). rewrite <- !app_assoc.
    set (X := blank_lines ks ++ sps k ++ rest).
    assert (Hr0 : hd0 (brk ++ X) <> 32) by (apply (brk_not_space brk Hbrk)).
    destruct (sbsi_sp_spec k0 (brk ++ X) F indent s lk m true k0 Hr0 Hk0F)
      as [lk1 [Hle1 [Hne1 Hsp]]]; [rewrite Hcol; lia|rewrite Hcol; lia|].
    rewrite Nat.sub_diag in Hsp. change (sps 0 ++ brk ++ X) with (brk ++ X) in Hsp.
    destruct (IH k rest F fuel indent (breaks + 1) s lk1 (mark_after brk (adv (N.of_nat k0) m) brk)) as [lk' [Hle [Hne Hrec]]]; auto.
    { apply (col_brk brk Hbrk). }
    { cbn [length] in Hfuel. lia. }
    exists lk'. split; [lia|]. split; [exact Hne|].
    assert (Hfol : follow brk X).
    { subst X. apply follow_blank_lines. destruct (Nat.eq_dec k 0) as [->|Hk].
      - destruct Hlast as [Hlt|Hnb]; [lia|]. apply (follow_nb brk). exact Hnb.
      - intros _. destruct k; [congruence|discriminate]. }
    mstep ltac:(reflexivity). mstep ltac:(exact Hsp). mstep ltac:(apply next_is_mv).
    rewrite (brk_is_break brk Hbrk). cbv iota.
    mstep ltac:(apply (skip_break_brk brk Hbrk); exact Hfol).
    subst X. rewrite Hrec. cbn [length]. rewrite (mark_after_app brk m (sps k0)), mark_after_spaces.
    rewrite (mark_after_app brk _ brk).
    do 2 f_equal. lia.
Qed.

(* ------------------------------------------------------------------------------------------ *)
(* skip_first_line_indent (auto-detected indentation)                                          *)
(* ------------------------------------------------------------------------------------------ *)
Fixpoint sfl_sp (f : nat) : MS unit :=
  match f with
  | O => oof
  | S f => c <- look_ch str_ops ;; if c =? 32 then skip_blank str_ops ;;; sfl_sp f else ret tt
  end.

Lemma sfli_eq F fuel maxi breaks :
  skip_first_line_indent str_ops F (S fuel) maxi breaks =
  (sfl_sp F ;;; k <- col ;;
   b <- next_is str_ops is_break ;;
   if b then look str_ops 2 ;;; skip_break str_ops ;;; skip_first_line_indent str_ops F fuel (N.max maxi k) (breaks + 1)
   else ret (N.max maxi k, breaks)).
Proof. reflexivity. Qed.

Lemma sfl_sp_spec : forall k (rest : list chr) f s lk m w,
  hd0 rest <> 32 -> (k < f)%nat ->
  sfl_sp f (mv s (sps k ++ rest) lk m w) = Ok (tt, mv s rest (Nat.max lk 1) (adv (N.of_nat k) m) w).
Proof.
  induction k as [|k IH]; intros rest f s lk m w Hr Hf; (destruct f as [|f]; [lia|]); cbn [sfl_sp].
  - change (sps 0 ++ rest) with rest. mstep ltac:(apply look_ch_mv).
    destruct (N.eqb_spec (hd0 rest) 32); [contradiction|]. cbn [N.of_nat]. rewrite adv_0. reflexivity.
  - change (sps (S k) ++ rest) with (32 :: sps k ++ rest). mstep ltac:(apply look_ch_mv). hd0c.
    change (32 =? 32) with true. cbv iota. mstep ltac:(apply skip_blank_mv). cbn [tl].
    rewrite IH by (auto; lia). rewrite adv_adv.
    replace (Nat.max (Nat.max lk 1) 1) with (Nat.max lk 1) by lia.
    do 4 f_equal. lia.
Qed.

Definition maxl (ks : list nat) (k : nat) : nat := fold_right Nat.max k ks.

Lemma col_after_blank_lines : forall ks j m, m_col m = 0 ->
  m_col (mark_after brk m (blank_lines ks ++ sps j)) = N.of_nat j.
Proof.
  induction ks as [|k ks IH]; intros j m Hm.
  - cbn [blank_lines flat_map app]. rewrite mark_after_spaces. cbn [adv m_col]. lia.
  - cbn [blank_lines flat_map]. fold (blank_lines ks). rewrite <- app_assoc, mark_after_app, mark_after_blank_line.
    apply IH. apply (col_brk brk Hbrk).
Qed.

Theorem skip_first_line_indent_spec : forall ks k (rest : list chr) F fuel maxi breaks s lk m,
  m_col m = 0 ->
  hd0 rest <> 32 -> is_break (hd0 rest) = false ->
  (length ks < fuel)%nat -> Forall (fun k => (k < F)%nat) (k :: ks) ->
  exists lk', (lk <= lk')%nat /\ lk' <> O /\
  skip_first_line_indent str_ops F fuel maxi breaks (mv s (blank_lines ks ++ sps k ++ rest) lk m true)
  = Ok ((N.max maxi (N.of_nat (maxl ks k)), breaks + N.of_nat (length ks)),
        mv s rest lk' (mark_after brk m (blank_lines ks ++ sps k)) true).
Proof.
  induction ks as [|k0 ks IH]; intros k rest F fuel maxi breaks s lk m Hcol Hr Hnb Hfuel HF.
  - destruct fuel as [|fuel]; [cbn in Hfuel; lia|]. rewrite sfli_eq.
    inversion HF as [|? ? HkF _]; subst.
    exists (Nat.max lk 1). split; [lia|]. split; [lia|].
    cbn [blank_lines flat_map app length N.of_nat maxl fold_right]. rewrite N.add_0_r.
    mstep ltac:(apply sfl_sp_spec; auto). mstep ltac:(apply col_mv). mstep ltac:(apply next_is_mv).
    rewrite Hnb. rewrite mark_after_spaces. cbn [adv m_col]. rewrite Hcol, N.add_0_l. reflexivity.
  - destruct fuel as [|fuel]; [cbn in Hfuel; lia|]. rewrite sfli_eq.
    inversion HF as [|? ? HkF HF']; subst. inversion HF' as [|? ? Hk0F HksF]; subst.
    cbn [blank_lines flat_map]. fold (blank_lines ks). rewrite <- !app_assoc.
    set (X := blank_lines ks ++ sps k ++ rest).
    destruct (IH k rest F fuel (N.max maxi (N.of_nat k0)) (breaks + 1) s (Nat.max (Nat.max lk 1) 2)
                 (mark_after brk (adv (N.of_nat k0) m) brk))
      as [lk' [Hle [Hne Hrec]]]; auto.
    { apply (col_brk brk Hbrk). }
    { cbn [length] in Hfuel. lia. }
    exists lk'. split; [lia|]. split; [exact Hne|].
    assert (Hfol : follow brk X).
    { subst X. apply follow_blank_lines. apply follow_sps. apply (follow_nb brk). exact Hnb. }
    mstep ltac:(apply sfl_sp_spec; [apply (brk_not_space brk Hbrk)|exact Hk0F]).
    mstep ltac:(apply col_mv). mstep ltac:(apply next_is_mv). rewrite (brk_is_break brk Hbrk). cbv iota.
    mstep ltac:(apply look_mv). mstep ltac:(apply (skip_break_brk brk Hbrk); exact Hfol).
    cbn [adv m_col]. rewrite Hcol, N.add_0_l. subst X. rewrite Hrec.
    cbn [length maxl fold_right]. fold (maxl ks k).
    rewrite (mark_after_app brk m (sps k0)), mark_after_spaces.
    rewrite (mark_after_app brk _ brk).
    do 3 f_equal; lia.
Qed.

(* ========================================================================================== *)
(* Part 4 (T4): scan_block_scalar, both styles                                                 *)
(* ========================================================================================== *)
(* the content loop of scan_block_scalar, named *)
Section Loop.
Variables (F : nat) (literal : bool) (indent : N).
Fixpoint bs_loop (f : nat) (acc : list chr) (lb tb : N) (leading_blank : bool) : MS (list chr * N * N) :=
  match f with
  | O => oof
  | S f =>
    k <- col ;; z <- next_is str_ops is_z ;;
    if negb (k =? indent) || z then ret (acc, lb, tb) else
    de <- (if indent =? 0 then look str_ops 4 ;;; next_is_document_indicator str_ops else ret false) ;;
    if de then ret (acc, lb, tb) else
    trailing_blank <- next_is str_ops is_blank ;;
    let acc :=
      if negb literal && negb (lb =? 0) && negb leading_blank && negb trailing_blank then
        (if tb =? 0 then 32 :: acc else nls tb acc)
      else nls tb (nls lb acc) in
    acc <- scan_block_scalar_content_line str_ops F acc ;;
    look str_ops 2 ;;;
    z <- next_is str_ops is_z ;;
    if z then ret (acc, 0, 0) else
    skip_break str_ops ;;;
    tb <- skip_block_scalar_indent str_ops F F indent 0 ;;
    bs_loop f acc 1 tb trailing_blank
  end.
End Loop.

(* a content line preceded by blank lines: (spaces of the blank lines, extra indentation, text) *)
Definition chunk := (list nat * nat * list chr)%type.
Definition chunk_ok (F n : nat) (c : chunk) : Prop :=
  let '(ks, e, s) := c in
  Forall (fun k => (k <= n)%nat) ks /\ nobreak s /\ hd0 s <> 32 /\ (e <> O \/ s <> []) /\
  (* fuel *) Forall (fun k => (k < F)%nat) ks /\ (length ks < F)%nat /\ (n + e + length s < F)%nat.
Definition chunk_text (n : nat) (c : chunk) : list chr :=
  let '(ks, e, s) := c in blank_lines ks ++ sps (n + e) ++ s ++ brk.
Definition chunk_text_nolf (n : nat) (c : chunk) : list chr :=
  let '(ks, e, s) := c in blank_lines ks ++ sps (n + e) ++ s.
Definition chunk_lines (c : chunk) : list bline :=
  let '(ks, e, s) := c in map Blank ks ++ [Text e s].

(* what the loop has accumulated after the chunks (reversed); [lb] = 0 before the first content line, 1 after *)
(* what one round prepends to the accumulator before the line itself (the fold decision of scan_block_scalar) *)
Definition fold_sep (literal : bool) (acc : list chr) (lb tb : N) (leading_blank trailing_blank : bool) : list chr :=
  if negb literal && negb (lb =? 0) && negb leading_blank && negb trailing_blank then
    (if tb =? 0 then 32 :: acc else nls tb acc)
  else nls tb (nls lb acc).

Fixpoint acc_chunks (literal : bool) (acc : list chr) (lb : N) (lbk : bool) (cs : list chunk) : list chr :=
  match cs with
  | [] => acc
  | (ks, e, s) :: r =>
      acc_chunks literal (rev (sps e ++ s) ++ fold_sep literal acc lb (N.of_nat (length ks)) lbk (is_blank (hd0 (sps e ++ s))))
                 1 (is_blank (hd0 (sps e ++ s))) r
  end.

Lemma nobreak_sps_app e s : nobreak s -> nobreak (sps e ++ s).
Proof.
  intros H. apply Forall_app. split; [|exact H].
  apply Forall_forall. intros x Hx. apply repeat_spec in Hx. subst. reflexivity.
Qed.

Lemma hd0_app_ne (a b : list chr) : a <> [] -> hd0 (a ++ b) = hd0 a.
Proof. destruct a; [congruence|reflexivity]. Qed.

Lemma nobreak_hd0 (t : list chr) : nobreak t -> t <> [] -> is_breakz (hd0 t) = false.
Proof. intros H Hne. destruct t as [|c t]; [congruence|]. inversion H; subst. assumption. Qed.

Lemma breakz_parts c : is_breakz c = false -> is_z c = false /\ is_break c = false.
Proof. unfold is_breakz. intros H. apply orb_false_iff in H. tauto. Qed.

(* the document-marker test of the loop (only made when the content indentation is 0): `...` or `---` followed by a
   blank, a break or the end of the input *)
Definition doc_ind_b (cs : list chr) : bool :=
  is_blank_or_breakz (nth 3 cs 0) &&
  (((nth 0 cs 0 =? 46) && (nth 1 cs 0 =? 46) && (nth 2 cs 0 =? 46)) ||
   ((nth 0 cs 0 =? 45) && (nth 1 cs 0 =? 45) && (nth 2 cs 0 =? 45))).

Lemma assert_buflen_mv s cs lk m w n site : (n <= lk)%nat ->
  assert_buflen str_ops n site (mv s cs lk m w) = Ok (tt, mv s cs lk m w).
Proof.
  intros H. unfold assert_buflen. change (buflen str_ops (sc_in (mv s cs lk m w))) with lk.
  destruct (Nat.ltb_spec lk n); [lia|reflexivity].
Qed.

Lemma next_3_are_mv s cs lk m w a b c : (3 <= lk)%nat ->
  next_3_are str_ops a b c (mv s cs lk m w)
  = Ok ((nth 0 cs 0 =? a) && (nth 1 cs 0 =? b) && (nth 2 cs 0 =? c), mv s cs lk m w).
Proof.
  intros Hlk. unfold next_3_are.
  mstep ltac:(apply assert_buflen_mv; lia). mstep ltac:(apply peek_mv). mstep ltac:(apply peekn_mv).
  mstep ltac:(apply peekn_mv). reflexivity.
Qed.

Lemma next_is_document_indicator_mv s cs lk m w : (4 <= lk)%nat ->
  next_is_document_indicator str_ops (mv s cs lk m w) = Ok (doc_ind_b cs, mv s cs lk m w).
Proof.
  intros Hlk. unfold next_is_document_indicator, doc_ind_b.
  mstep ltac:(apply assert_buflen_mv; lia). mstep ltac:(apply peekn_mv).
  destruct (is_blank_or_breakz (nth 3 cs 0)); [|reflexivity]. cbn [andb].
  mstep ltac:(apply next_3_are_mv; lia).
  destruct ((nth 0 cs 0 =? 46) && (nth 1 cs 0 =? 46) && (nth 2 cs 0 =? 46)); [reflexivity|].
  cbn [orb]. apply next_3_are_mv. lia.
Qed.

(* a content line at column 0 that is not a document marker does not pass the document-marker test *)
Lemma marker_doc_ind (txt X : list chr) : nobreak txt -> marker_line txt = false -> is_breakz (hd0 X) = true ->
  doc_ind_b (txt ++ X) = false.
Proof.
  intros Hnb Hm HX. unfold doc_ind_b.
  assert (HX' : (nth 0 X 0 =? 46) = false /\ (nth 0 X 0 =? 45) = false).
  { fold (hd0 X). destruct (N.eqb_spec (hd0 X) 46) as [E|_]; [rewrite E in HX; discriminate|].
    destruct (N.eqb_spec (hd0 X) 45) as [E|_]; [rewrite E in HX; discriminate|]. split; reflexivity. }
  destruct HX' as [H46 H45].
  destruct txt as [|a [|b [|c [|d r]]]]; cbn [app nth].
  - rewrite H46, H45. repeat (rewrite ?andb_false_r; cbn [andb orb]). reflexivity.
  - rewrite H46, H45. repeat (rewrite ?andb_false_r; cbn [andb orb]). reflexivity.
  - rewrite H46, H45. repeat (rewrite ?andb_false_r; cbn [andb orb]). reflexivity.
  - cbn [marker_line] in Hm. rewrite andb_true_r in Hm. rewrite orb_comm in Hm. rewrite Hm. apply andb_false_r.
  - cbn [marker_line] in Hm. inversion Hnb as [|? ? _ H1]; subst. inversion H1 as [|? ? _ H2]; subst.
    inversion H2 as [|? ? _ H3]; subst. inversion H3 as [|? ? Hd _]; subst.
    rewrite orb_comm in Hm.
    destruct (((a =? 46) && (b =? 46) && (c =? 46)) || ((a =? 45) && (b =? 45) && (c =? 45))); [|apply andb_false_r].
    cbn [andb] in Hm. rewrite andb_true_r.
    unfold is_blank_or_breakz. rewrite Hd, orb_false_r.
    unfold is_white in Hm. unfold is_blank. exact Hm.
Qed.

(* look-ahead counter after one round *)
Definition rlk (n lk : nat) : nat := match n with O => Nat.max (Nat.max lk 4) 2 | S _ => Nat.max lk 2 end.
Lemma rlk_facts n lk : (lk <= rlk n lk)%nat /\ rlk n lk <> O.
Proof. destruct n; cbn [rlk]; lia. Qed.

(* one round of the loop at the start of a content line [txt] that is followed by a line break *)
Lemma bs_loop_round : forall (txt R : list chr) F literal n f acc lb tb lbk s lk m w,
  nobreak txt -> txt <> [] -> (n = O -> doc_ind_b (txt ++ brk ++ R) = false) -> m_col m = N.of_nat n -> (length txt < F)%nat ->
  follow brk R ->
  bs_loop F literal (N.of_nat n) (S f) acc lb tb lbk (mv s (txt ++ brk ++ R) lk m w)
  = (tb' <- skip_block_scalar_indent str_ops F F (N.of_nat n) 0 ;;
     bs_loop F literal (N.of_nat n) f (rev txt ++ fold_sep literal acc lb tb lbk (is_blank (hd0 txt))) 1 tb' (is_blank (hd0 txt)))
      (mv s R (rlk n lk) (mark_after brk (mark_after brk m txt) brk) true).
Proof.
  intros txt R F literal n f acc lb tb lbk s lk m w Hnb Hne Hn Hcol HF Hfol.
  cbn [bs_loop].
  mstep ltac:(apply col_mv). mstep ltac:(apply next_is_mv).
  rewrite Hcol, N.eqb_refl. rewrite (hd0_app_ne txt) by exact Hne.
  destruct (breakz_parts _ (nobreak_hd0 _ Hnb Hne)) as [Hz Hb]. rewrite Hz. cbn [negb orb].
  destruct (N.eqb_spec (N.of_nat n) 0) as [E|E].
  - assert (En : n = O) by lia. subst n. cbn [rlk].
    mstep ltac:(mstep ltac:(apply look_mv); apply next_is_document_indicator_mv; lia). rewrite (Hn eq_refl).
    mstep ltac:(apply next_is_mv). rewrite (hd0_app_ne txt) by exact Hne.
    fold (fold_sep literal acc lb tb lbk (is_blank (hd0 txt))).
    mstep ltac:(apply (content_line_spec brk); [exact Hnb|apply (brk_is_breakz brk Hbrk)|exact HF]).
    mstep ltac:(apply look_mv). mstep ltac:(apply next_is_mv). rewrite (brk_not_z brk Hbrk). cbv match.
    mstep ltac:(apply (skip_break_brk brk Hbrk); exact Hfol). reflexivity.
  - destruct n as [|n']; [lia|]. cbn [rlk].
    mstep ltac:(reflexivity). mstep ltac:(apply next_is_mv). rewrite (hd0_app_ne txt) by exact Hne.
    fold (fold_sep literal acc lb tb lbk (is_blank (hd0 txt))).
    mstep ltac:(apply (content_line_spec brk); [exact Hnb|apply (brk_is_breakz brk Hbrk)|exact HF]).
    mstep ltac:(apply look_mv). mstep ltac:(apply next_is_mv). rewrite (brk_not_z brk Hbrk). cbv match.
    mstep ltac:(apply (skip_break_brk brk Hbrk); exact Hfol). reflexivity.
Qed.

Lemma sps_add a b : sps (a + b) = sps a ++ sps b.
Proof. unfold sps. apply repeat_app. Qed.

Lemma mark_after_chunk n ks e s m :
  mark_after brk m (chunk_text n (ks, e, s))
  = mark_after brk (mark_after brk (mark_after brk m (blank_lines ks ++ sps n)) (sps e ++ s)) brk.
Proof.
  cbn [chunk_text]. rewrite sps_add.
  replace (blank_lines ks ++ (sps n ++ sps e) ++ s ++ brk) with ((blank_lines ks ++ sps n) ++ (sps e ++ s) ++ brk)
    by (rewrite <- !app_assoc; reflexivity).
  rewrite !mark_after_app. reflexivity.
Qed.

Lemma chunk_content_facts F n ks e (txt : list chr) : chunk_ok F n (ks, e, txt) ->
  sps e ++ txt <> [] /\ nobreak (sps e ++ txt) /\ (length (sps e ++ txt) < F)%nat.
Proof.
  intros [_ [Hnb [_ [Hne [_ [_ Hlen]]]]]]. split; [|split].
  - destruct Hne as [He|Hs']; [destruct e; [congruence|discriminate]|destruct e; [exact Hs'|discriminate]].
  - apply nobreak_sps_app; exact Hnb.
  - rewrite app_length; unfold sps; rewrite repeat_length; lia.
Qed.

Lemma chunk_nolf_ne F n ks e (txt : list chr) : chunk_ok F n (ks, e, txt) -> chunk_text_nolf n (ks, e, txt) <> [].
Proof.
  intros Hc. destruct (chunk_content_facts _ _ _ _ _ Hc) as [Hne _]. cbn [chunk_text_nolf].
  destruct ks as [|k ks]; [|cbn [blank_lines flat_map]; destruct Hbrk as [->|[->| ->]]; destruct k; discriminate].
  cbn [blank_lines flat_map app]. rewrite sps_add, <- app_assoc. destruct (sps n); [exact Hne|discriminate].
Qed.

Lemma tab_tail F n ks e (txt TAIL : list chr) : chunk_ok F n (ks, e, txt) ->
  hd0 (chunk_text_nolf n (ks, e, txt)) <> 9 -> hd0 (blank_lines ks ++ sps (n + e) ++ txt ++ TAIL) <> 9.
Proof.
  intros Hc H.
  replace (blank_lines ks ++ sps (n + e) ++ txt ++ TAIL) with (chunk_text_nolf n (ks, e, txt) ++ TAIL)
    by (cbn [chunk_text_nolf]; rewrite <- !app_assoc; reflexivity).
  rewrite hd0_app_ne; [exact H|]. apply (chunk_nolf_ne F). exact Hc.
Qed.

Lemma tab_pos n ck : n <> O -> hd0 (chunk_text_nolf n ck) <> 9.
Proof.
  intros Hn. destruct ck as [[ks e] txt]. cbn [chunk_text_nolf].
  destruct ks as [|[|k0] ks]; [destruct n; [congruence|]| |]; try (intro H; cbv in H; discriminate H).
  cbn [blank_lines flat_map]. change (sps 0 ++ brk) with brk. rewrite <- !app_assoc. apply (brk_not_tab brk Hbrk).
Qed.

Lemma follow_txt (txt X : list chr) : nobreak txt -> txt <> [] -> follow brk (txt ++ X).
Proof.
  intros Hnb Hne _ E. rewrite hd0_app_ne in E by exact Hne. pose proof (nobreak_hd0 _ Hnb Hne) as H. rewrite E in H. discriminate H.
Qed.

Lemma follow_line n e (txt X : list chr) : nobreak txt -> (e <> O \/ txt <> []) -> follow brk (sps (n + e) ++ txt ++ X).
Proof.
  intros Hnb Hne. destruct (n + e)%nat as [|k] eqn:E; [|intros _; discriminate].
  change (sps 0 ++ txt ++ X) with (txt ++ X). apply follow_txt; [exact Hnb|]. destruct Hne as [He|Hs]; [lia|exact Hs].
Qed.

Lemma follow_chunk F n ck X : chunk_ok F n ck -> follow brk (chunk_text n ck ++ X).
Proof.
  destruct ck as [[ks e] txt]. intros [_ [Hnb [_ [Hne _]]]]. cbn [chunk_text]. rewrite <- !app_assoc.
  apply follow_blank_lines. apply follow_line; assumption.
Qed.

Lemma follow_chunks F n chunks X : Forall (chunk_ok F n) chunks -> follow brk X -> follow brk (flat_map (chunk_text n) chunks ++ X).
Proof.
  intros Hch HX. destruct chunks as [|ck chunks]; [exact HX|]. cbn [flat_map]. rewrite <- app_assoc.
  apply (follow_chunk F). exact (Forall_inv Hch).
Qed.

(* a content line at column 0 (content indentation 0, no extra indentation) must not look like a document marker *)
Definition chunk_col0 (n : nat) (c : chunk) : Prop :=
  let '(ks, e, txt) := c in n = O -> e = O -> marker_line txt = false.

Lemma doc_end_content n ks e (txt X : list chr) : nobreak txt -> chunk_col0 n (ks, e, txt) -> is_breakz (hd0 X) = true ->
  n = O -> doc_ind_b ((sps e ++ txt) ++ X) = false.
Proof.
  intros Hnb Hc HX Hn. destruct e as [|e].
  - change (sps 0 ++ txt) with txt. apply marker_doc_ind; auto.
  - unfold doc_ind_b. change (sps (S e)) with (32 :: sps e). cbn [app nth].
    change (32 =? 46) with false. change (32 =? 45) with false. cbn [andb orb]. apply andb_false_r.
Qed.

Lemma doc_ind_not_z (r : list chr) : doc_ind_b r = true -> is_z (hd0 r) = false.
Proof.
  unfold doc_ind_b, hd0. intros H. apply andb_true_iff in H. destruct H as [_ H].
  apply orb_true_iff in H. destruct H as [H|H];
    (apply andb_true_iff in H; destruct H as [H _]; apply andb_true_iff in H; destruct H as [H _];
     apply N.eqb_eq in H; rewrite H; reflexivity).
Qed.

(* how a scalar with content indentation n ends after a line break: a less indented line; the end of the input,
   possibly inside a last line of at most n spaces; or (n = 0) a document marker `...` / `---` *)
Definition ends_after (n j : nat) (r' : list chr) : Prop :=
  (j < n)%nat \/ (r' = [] /\ (j <= n)%nat) \/ (n = O /\ j = O /\ doc_ind_b r' = true).

(* the loop from the start of a line (after a line break) through the remaining chunks, the trailing blank lines
   and the indentation of the line that follows *)
Lemma bs_loop_chunks : forall (chunks : list chunk) (tks : list nat) (j : nat) (r' : list chr) F literal n f acc lbk s lk m,
  Forall (chunk_ok F n) chunks -> Forall (chunk_col0 n) chunks ->
  Forall (fun k => (k <= n)%nat) tks -> Forall (fun k => (k < F)%nat) tks -> (length tks < F)%nat ->
  ends_after n j r' -> (j < F)%nat -> hd0 r' <> 32 -> is_break (hd0 r') = false ->
  m_col m = 0 -> (length chunks < f)%nat ->
  exists lk', (lk <= lk')%nat /\ lk' <> O /\
  (tb <- skip_block_scalar_indent str_ops F F (N.of_nat n) 0 ;; bs_loop F literal (N.of_nat n) f acc 1 tb lbk)
    (mv s (flat_map (chunk_text n) chunks ++ blank_lines tks ++ sps j ++ r') lk m true)
  = Ok ((acc_chunks literal acc 1 lbk chunks, 1, N.of_nat (length tks)),
        mv s r' lk' (mark_after brk m (flat_map (chunk_text n) chunks ++ blank_lines tks ++ sps j)) true).
Proof.
  induction chunks as [|[[ks e] txt] chunks IH];
    intros tks j r' F literal n f acc lbk s lk m Hch Hc0 Htks HtksF HtksL Hj HjF Hr Hrb Hcol Hf.
  - cbn [flat_map app acc_chunks].
    assert (Hjn : (j <= n)%nat) by (destruct Hj as [H|[[_ H]|[-> [-> _]]]]; lia).
    destruct (skip_block_scalar_indent_spec tks j r' F F (N.of_nat n) 0 s lk m) as [lk' [Hle [Hne Hs]]]; auto.
    { apply Forall_impl with (2 := Htks). intros k Hk. lia. }
    rewrite Nat2N.id in Hs.
    replace (Nat.min j n) with j in Hs by lia. rewrite Nat.sub_diag in Hs. change (sps 0 ++ r') with r' in Hs.
    destruct f as [|f]; [cbn in Hf; lia|].
    destruct Hj as [Hj|[[-> Hj]|[-> [-> Hde]]]].
    + exists lk'. split; [exact Hle|]. split; [exact Hne|].
      mstep ltac:(exact Hs). cbn [bs_loop].
      mstep ltac:(apply col_mv). mstep ltac:(apply next_is_mv).
      rewrite col_after_blank_lines by exact Hcol.
      destruct (N.eqb_spec (N.of_nat j) (N.of_nat n)) as [E|_]; [lia|]. cbn [negb orb]. rewrite N.add_0_l. reflexivity.
    + exists lk'. split; [exact Hle|]. split; [exact Hne|].
      mstep ltac:(exact Hs). cbn [bs_loop].
      mstep ltac:(apply col_mv). mstep ltac:(apply next_is_mv).
      change (is_z (hd0 [])) with true. rewrite orb_true_r. rewrite N.add_0_l. reflexivity.
    + exists (Nat.max lk' 4). split; [lia|]. split; [lia|].
      mstep ltac:(exact Hs). cbn [bs_loop].
      mstep ltac:(apply col_mv). mstep ltac:(apply next_is_mv).
      rewrite col_after_blank_lines by exact Hcol. change (N.of_nat 0 =? N.of_nat 0) with true.
      rewrite (doc_ind_not_z _ Hde). cbn [negb orb].
      change (N.of_nat 0 =? 0) with true. cbv match.
      mstep ltac:(mstep ltac:(apply look_mv); apply next_is_document_indicator_mv; lia). rewrite Hde.
      rewrite N.add_0_l. reflexivity.
  - pose proof (Forall_inv Hch) as Hc. pose proof (Forall_inv_tail Hch) as Hch'.
    pose proof (Forall_inv Hc0) as Hcc. pose proof (Forall_inv_tail Hc0) as Hc0'.
    destruct (chunk_content_facts _ _ _ _ _ Hc) as [Hne' [Hnbt Hlen']].
    destruct Hc as [Hks [Hnb [Hhd [Hne [HksF [HksL Hlen]]]]]].
    cbn [flat_map]. fold (flat_map (chunk_text n) chunks).
    set (REST := flat_map (chunk_text n) chunks ++ blank_lines tks ++ sps j ++ r').
    assert (Etxt : (chunk_text n (ks, e, txt) ++ flat_map (chunk_text n) chunks) ++ blank_lines tks ++ sps j ++ r'
                   = blank_lines ks ++ sps (n + e) ++ (txt ++ brk ++ REST)).
    { cbn [chunk_text]. subst REST. rewrite <- !app_assoc. reflexivity. }
    rewrite Etxt.
    assert (Hhd' : hd0 (txt ++ brk ++ REST) <> 32).
    { destruct txt as [|c t]; [apply (brk_not_space brk Hbrk)|exact Hhd]. }
    assert (Hlast : N.of_nat n < N.of_nat (n + e) \/ is_break (hd0 (txt ++ brk ++ REST)) = false).
    { destruct Hne as [He|Hs]; [left; lia|right].
      rewrite hd0_app_ne by exact Hs. exact (proj2 (breakz_parts _ (nobreak_hd0 _ Hnb Hs))). }
    destruct (skip_block_scalar_indent_spec ks (n + e) (txt ++ brk ++ REST) F F (N.of_nat n) 0 s lk m)
      as [lk1 [Hle1 [Hne1 Hs]]]; auto.
    { apply Forall_impl with (2 := Hks). intros k Hk. lia. }
    { constructor; [lia|exact HksF]. }
    rewrite Nat2N.id in Hs. replace (Nat.min (n + e) n) with n in Hs by lia.
    replace (n + e - n)%nat with e in Hs by lia.
    destruct f as [|f]; [cbn in Hf; lia|].
    set (m1 := mark_after brk m (blank_lines ks ++ sps n)) in *.
    assert (Hcol1 : m_col m1 = N.of_nat n) by (apply col_after_blank_lines; exact Hcol).
    destruct (rlk_facts n lk1) as [Hrl1 Hrl2].
    destruct (IH tks j r' F literal n f
                 (rev (sps e ++ txt) ++ fold_sep literal acc 1 (N.of_nat (length ks)) lbk (is_blank (hd0 (sps e ++ txt))))
                 (is_blank (hd0 (sps e ++ txt))) s (rlk n lk1) (mark_after brk (mark_after brk m1 (sps e ++ txt)) brk))
      as [lk' [Hle [Hne2 Hrec]]]; auto.
    { apply (col_brk brk Hbrk). }
    { cbn [length] in Hf. lia. }
    exists lk'. split; [lia|]. split; [exact Hne2|].
    assert (Hfol : follow brk REST).
    { subst REST. apply (follow_chunks F n); [exact Hch'|]. apply follow_blank_lines. apply follow_sps.
      apply (follow_nb brk). exact Hrb. }
    mstep ltac:(exact Hs). rewrite N.add_0_l.
    replace (sps e ++ txt ++ brk ++ REST) with ((sps e ++ txt) ++ brk ++ REST) by (rewrite <- app_assoc; reflexivity).
    rewrite bs_loop_round; auto.
    2: { intros Hn0. apply (doc_end_content n ks e txt (brk ++ REST)); auto. apply (brk_is_breakz brk Hbrk). }
    subst REST. rewrite Hrec. cbn [acc_chunks].
    rewrite (mark_after_app brk m (chunk_text n (ks, e, txt) ++ flat_map (chunk_text n) chunks)).
    rewrite (mark_after_app brk m (chunk_text n (ks, e, txt))), mark_after_chunk. fold m1.
    rewrite (mark_after_app brk _ (flat_map (chunk_text n) chunks)). reflexivity.
Qed.

(* ------------------------------------------------------------------------------------------ *)
(* the specification side: what the chunks denote                                              *)
(* ------------------------------------------------------------------------------------------ *)
Lemma body_blanks literal prev k ks r :
  body literal prev k (map Blank ks ++ r) = body literal prev (k + length ks) r.
Proof.
  revert k; induction ks as [|k0 ks IH]; intros k; cbn [map app body length].
  - rewrite Nat.add_0_r. reflexivity.
  - rewrite IH. f_equal. lia.
Qed.

Lemma lfs_add a b : lfs a ++ lfs b = lfs (a + b).
Proof. unfold lfs. symmetry. apply repeat_app. Qed.

Lemma is_blank_spaced e (s : list chr) : is_blank (hd0 (sps e ++ s)) = spaced e s.
Proof. destruct e as [|e]; [destruct s as [|c s]|]; reflexivity. Qed.

(* the fold decision of the scanner against [sep] of the specification *)
Lemma fold_sep_sep literal acc lb k lbk tblank prev :
  (lb = 0 /\ prev = None) \/ (lb = 1 /\ prev = Some lbk) ->
  rev (fold_sep literal acc lb (N.of_nat k) lbk tblank) = rev acc ++ sep literal prev k tblank.
Proof.
  intros [[-> ->]|[-> ->]]; unfold fold_sep, sep.
  - change (negb (0 =? 0)) with false. rewrite andb_false_r. cbn [andb]. rewrite nls_of_nat. reflexivity.
  - change (negb (1 =? 0)) with true. rewrite andb_true_r.
    destruct (negb literal && negb lbk && negb tblank).
    + destruct k as [|k].
      * reflexivity.
      * destruct (N.eqb_spec (N.of_nat (S k)) 0) as [E|_]; [lia|]. rewrite nls_of_nat. reflexivity.
    + rewrite nls_of_nat, rev_nls, <- app_assoc. reflexivity.
Qed.

Lemma acc_chunks_body : forall (chunks : list chunk) tks literal acc lb lbk prev,
  (lb = 0 /\ prev = None) \/ (lb = 1 /\ prev = Some lbk) ->
  rev (acc_chunks literal acc lb lbk chunks) = rev acc ++ body literal prev 0 (flat_map chunk_lines chunks ++ map Blank tks).
Proof.
  induction chunks as [|[[ks e] s] chunks IH]; intros tks literal acc lb lbk prev Hlb.
  - cbn [acc_chunks flat_map app]. rewrite <- (app_nil_r (map Blank tks)), body_blanks. cbn [body]. rewrite app_nil_r. reflexivity.
  - cbn [acc_chunks flat_map chunk_lines]. rewrite <- !app_assoc. rewrite body_blanks. cbn [app body Nat.add].
    rewrite (IH tks literal _ 1 _ (Some (spaced e s))) by (right; split; [reflexivity|rewrite is_blank_spaced; reflexivity]).
    rewrite rev_app_distr, rev_involutive, (fold_sep_sep literal acc lb (length ks) lbk _ prev Hlb), is_blank_spaced.
    unfold line_text. change (spaces e) with (sps e). rewrite <- !app_assoc. reflexivity.
Qed.

Lemma leading_blanks_map ks r : leading_blanks (map Blank ks ++ r) = (length ks + leading_blanks r)%nat.
Proof. induction ks as [|k ks IH]; [reflexivity|]. cbn [map app leading_blanks length]. rewrite IH. reflexivity. Qed.

Lemma chunks_last : forall (chunks : list chunk), chunks <> [] ->
  exists Y e s, flat_map chunk_lines chunks = Y ++ [Text e s].
Proof.
  intros chunks Hne. destruct (exists_last Hne) as [front [[[ks e] s] ->]].
  rewrite flat_map_app. cbn [flat_map chunk_lines]. rewrite app_nil_r.
  exists (flat_map chunk_lines front ++ map Blank ks), e, s. rewrite app_assoc. reflexivity.
Qed.

Lemma chunks_trailing chunks tks : chunks <> [] ->
  trailing_blanks (flat_map chunk_lines chunks ++ map Blank tks) = length tks /\
  has_text (flat_map chunk_lines chunks ++ map Blank tks) = true.
Proof.
  intros Hne. destruct (chunks_last chunks Hne) as [Y [e [s E]]]. rewrite E. split.
  - unfold trailing_blanks. rewrite rev_app_distr, <- map_rev, leading_blanks_map, rev_app_distr.
    cbn [rev app leading_blanks]. rewrite rev_length. lia.
  - unfold has_text. rewrite !existsb_app. cbn [existsb is_text]. rewrite !orb_true_r. reflexivity.
Qed.

Theorem chunks_value literal c chunks tks acc : chunks <> [] ->
  rev (match to_model c with Keep => nls (N.of_nat (length tks)) | _ => fun a => a end
         (match to_model c with
          | Strip => acc_chunks literal acc 0 false chunks
          | _ => nls 1 (acc_chunks literal acc 0 false chunks) end))
  = rev acc ++ block_value literal c (flat_map chunk_lines chunks ++ map Blank tks).
Proof.
  intros Hne. rewrite chomp_tail. unfold block_value.
  destruct (chunks_trailing chunks tks Hne) as [-> ->].
  rewrite (acc_chunks_body chunks tks literal acc 0 false None) by (left; split; reflexivity).
  rewrite <- app_assoc. reflexivity.
Qed.

(* the rendering of the lines, chunk by chunk *)
Lemma flat_map_shift {A} (g : A -> list N) ls fin :
  flat_map (fun l => LF :: g l) ls ++ LF :: fin = LF :: flat_map (fun l => g l ++ [LF]) ls ++ fin.
Proof.
  induction ls as [|l ls IH]; [reflexivity|]. cbn [flat_map app]. rewrite <- !app_assoc. cbn [app]. rewrite IH. reflexivity.
Qed.

(* the text with every line feed replaced by the break ([with_breaks] of the specification) *)
Definition wbrk (t : list chr) : list chr := flat_map (fun c => if c =? 10 then brk else [c]) t.

Lemma wbrk_app a b : wbrk (a ++ b) = wbrk a ++ wbrk b.
Proof. apply flat_map_app. Qed.
Lemma wbrk_nolf t : Forall (fun c => c <> 10) t -> wbrk t = t.
Proof.
  induction 1 as [|c r Hc Hr IH]; [reflexivity|]. unfold wbrk in *. cbn [flat_map].
  destruct (N.eqb_spec c 10); [contradiction|]. rewrite IH. reflexivity.
Qed.
Lemma wbrk_lf t : wbrk (10 :: t) = brk ++ wbrk t.
Proof. reflexivity. Qed.
Lemma nolf_of_nb t : Forall (fun c => is_break c = false) t -> Forall (fun c => c <> 10) t.
Proof. apply Forall_impl. intros c H ->. discriminate H. Qed.
Lemma wbrk_sps k : wbrk (sps k) = sps k.
Proof. apply wbrk_nolf. apply Forall_forall. intros x Hx. apply repeat_spec in Hx. subst. discriminate. Qed.
Lemma wbrk_nobreak t : nobreak t -> wbrk t = t.
Proof. intros H. apply wbrk_nolf, nolf_of_nb, nobreak_nolf. exact H. Qed.

Lemma render_blanks n ks : wbrk (flat_map (fun l => render_line n l ++ [LF]) (map Blank ks)) = blank_lines ks.
Proof.
  induction ks as [|k ks IH]; [reflexivity|]. cbn [map flat_map blank_lines render_line].
  rewrite !wbrk_app, IH. change (spaces k) with (sps k). rewrite wbrk_sps. change (wbrk [LF]) with (brk ++ []).
  rewrite app_nil_r. reflexivity.
Qed.

Definition chunk_nb (c : chunk) : Prop := let '(ks, e, s) := c in nobreak s.
Lemma chunk_ok_nb F n c : chunk_ok F n c -> chunk_nb c.
Proof. destruct c as [[ks e] s]. intros [_ [H _]]. exact H. Qed.

Lemma render_chunks n chunks tks : Forall chunk_nb chunks ->
  wbrk (flat_map (fun l => render_line n l ++ [LF]) (flat_map chunk_lines chunks ++ map Blank tks))
  = flat_map (chunk_text n) chunks ++ blank_lines tks.
Proof.
  intros Hnb. rewrite flat_map_app, wbrk_app, render_blanks. f_equal.
  induction Hnb as [|[[ks e] s] chunks Hc Hcs IH]; [reflexivity|].
  cbn [flat_map chunk_lines chunk_text]. rewrite flat_map_app, flat_map_app, !wbrk_app, render_blanks, IH.
  cbn [flat_map render_line]. rewrite app_nil_r, !wbrk_app. change (spaces (n + e)) with (sps (n + e)).
  rewrite wbrk_sps, (wbrk_nobreak s Hc). change (wbrk [LF]) with (brk ++ []). rewrite app_nil_r, <- !app_assoc. reflexivity.
Qed.

(* ------------------------------------------------------------------------------------------ *)
(* the header                                                                                  *)
(* ------------------------------------------------------------------------------------------ *)
Ltac evalb :=
  repeat match goal with
         | |- context [N.eqb (Npos ?a) (Npos ?b)] =>
             let v := eval vm_compute in (N.eqb (Npos a) (Npos b)) in change (N.eqb (Npos a) (Npos b)) with v
         | |- context [is_digit (Npos ?a)] =>
             let v := eval vm_compute in (is_digit (Npos a)) in change (is_digit (Npos a)) with v
         end;
  cbn [orb andb negb].

(* the indicator part of scan_block_scalar, named ([c] = the character after '|' / '>') *)
Definition bs_hd (c : chr) (start : marker) : MS (chomping * N) :=
  let chomp_of c := if c =? 43 then Keep else Strip in
  if (c =? 43) || (c =? 45) then
    skip_non_blank str_ops ;;; look str_ops 1 ;;; d <- peek str_ops ;;
    if is_digit d then
      (if d =? 48 then fail 80 start else skip_non_blank str_ops ;;; ret (chomp_of c, d - 48))
    else ret (chomp_of c, 0)
  else if is_digit c then
    (if c =? 48 then fail 80 start else
     skip_non_blank str_ops ;;; look str_ops 1 ;;; d <- peek str_ops ;;
     if (d =? 43) || (d =? 45) then skip_non_blank str_ops ;;; ret (chomp_of d, c - 48)
     else ret (Clip, c - 48))
  else ret (Clip, 0).

Definition hdr_chars (c : chomp) (explicit : option nat) (digit_first : bool) : list chr :=
  let ch := match c with CStrip => [45] | CClip => [] | CKeep => [43] end in
  let d := match explicit with Some m => [48 + N.of_nat m] | None => [] end in
  if digit_first then d ++ ch else ch ++ d.

Lemma header_hdr_chars literal c explicit digit_first :
  header literal c explicit digit_first = (if literal then 124 else 62) :: hdr_chars c explicit digit_first.
Proof. reflexivity. Qed.

Definition inc_of (explicit : option nat) : N := match explicit with Some d => N.of_nat d | None => 0 end.

Lemma digit_facts d : (1 <= d <= 9)%nat ->
  let D := 48 + N.of_nat d in
  is_digit D = true /\ (D =? 48) = false /\ (D =? 43) = false /\ (D =? 45) = false /\ D - 48 = N.of_nat d /\ (D =? 10) = false /\
  (D =? 13) = false.
Proof.
  intros Hd D. unfold is_digit. repeat split.
  - apply andb_true_iff. split; apply N.leb_le; subst D; lia.
  - apply N.eqb_neq. subst D; lia.
  - apply N.eqb_neq. subst D; lia.
  - apply N.eqb_neq. subst D; lia.
  - subst D; lia.
  - apply N.eqb_neq. subst D; lia.
  - apply N.eqb_neq. subst D; lia.
Qed.

Lemma bs_hd_spec : forall c explicit digit_first (rest : list chr) s lk m w start,
  hd0 rest = 10 \/ hd0 rest = 13 \/ hd0 rest = 0 \/ hd0 rest = 32 \/ hd0 rest = 9 ->
  match explicit with Some d => (1 <= d <= 9)%nat | None => True end ->
  exists lk' w', (lk <= lk')%nat /\
  bs_hd (hd0 (hdr_chars c explicit digit_first ++ rest)) start (mv s (hdr_chars c explicit digit_first ++ rest) lk m w)
  = Ok ((to_model c, inc_of explicit), mv s rest lk' (mark_after brk m (hdr_chars c explicit digit_first)) w').
Proof.
  intros c explicit digit_first rest s lk m w start Hr0 Hd.
  assert (Hr : is_digit (hd0 rest) = false /\ (hd0 rest =? 43) = false /\ (hd0 rest =? 45) = false).
  { destruct Hr0 as [-> | [-> | [-> | [-> | ->]]]]; repeat split. }
  destruct Hr as [Hdig [H43 H45]].
  destruct explicit as [d|].
  - destruct (digit_facts d Hd) as [D1 [D2 [D3 [D4 [D5 [D6 D7]]]]]]. cbn zeta in *.
    destruct c, digit_first; cbn [hdr_chars app to_model inc_of]; set (D := 48 + N.of_nat d) in *; unfold bs_hd; hd0c;
      cbn [mark_after]; rewrite ?D1, ?D2, ?D3, ?D4, ?D6, ?D7; evalb;
      (eexists; eexists; split; [|
        repeat (first [ mstep ltac:(apply skip_non_blank_mv); cbn [tl]
                      | mstep ltac:(apply look_mv)
                      | mstep ltac:(apply peek_mv); try hd0c ];
                rewrite ?Hdig, ?H43, ?H45, ?D1, ?D2, ?D3, ?D4, ?D5; evalb);
        rewrite ?D5; reflexivity]; lia).
  - destruct c, digit_first; cbn [hdr_chars app to_model inc_of]; unfold bs_hd; try hd0c; rewrite ?Hdig, ?H43, ?H45;
      cbn [mark_after]; evalb;
      (eexists; eexists; split; [|
        repeat (first [ mstep ltac:(apply skip_non_blank_mv); cbn [tl]
                      | mstep ltac:(apply look_mv)
                      | mstep ltac:(apply peek_mv); try hd0c ];
                rewrite ?Hdig, ?H43, ?H45; evalb);
        reflexivity]; lia).
Qed.

(* ------------------------------------------------------------------------------------------ *)
(* the whole function                                                                          *)
(* ------------------------------------------------------------------------------------------ *)
Lemma unroll_mv s cs lk m w pz inds : unroll_nb (sc_indents s) (sc_indent s) = (pz, inds) ->
  unroll_non_block_indents (mv s cs lk m w) = Ok (tt, mv (set_indent pz inds s) cs lk m w).
Proof. intros H. unfold unroll_non_block_indents, modify. cbn [sc_indents sc_indent mv set_lws set_flags upd]. rewrite H. reflexivity. Qed.

Lemma get_mv s cs lk m w : get (mv s cs lk m w) = Ok (mv s cs lk m w, mv s cs lk m w).
Proof. reflexivity. Qed.

Definition style_of (literal : bool) : style := if literal then Literal else Folded.
Definition yields (literal : bool) (value r' : list chr) (o : outcome (token * sc strin)) : Prop :=
  exists sp s', o = Ok ((sp, TScalar (style_of literal) value), s') /\ si_chars (sc_in s') = r'.

Lemma bind_P {A B} (P : outcome (B * sc strin) -> Prop) (m : MS A) (f : A -> MS B) (s : sc strin) a s' :
  m s = Ok (a, s') -> P (f a s') -> P (bind m f s).
Proof. intros H1 H2. unfold bind. rewrite H1. exact H2. Qed.
Ltac pstep tac := (eapply bind_P; [tac | cbv beta match]).

(* the tail of scan_block_scalar after the content loop, named *)
Definition bs_finish (literal : bool) (chomp : chomping) (indent : N) (cstart : marker) (r : list chr * N * N) : MS token :=
  let '(acc, lb, tb) := r in
  z <- next_is str_ops is_z ;; k <- col ;;
  let acc := match chomp with
             | Strip => acc
             | _ => let acc := nls lb acc in if (lb =? 0) && z && (N.max indent 1 <=? k) then 10 :: acc else acc
             end in
  let acc := match chomp with
             | Keep => let acc := nls tb acc in if negb (lb =? 0) && z && (0 <? k) then 10 :: acc else acc
             | _ => acc end in
  m <- mark ;;
  ret ({| sp_start := cstart; sp_end := m |}, TScalar (if literal then Literal else Folded) (rev acc)).

(* ------------------------------------------------------------------------------------------ *)
(* the rest of the header line: white space and an optional comment                            *)
(* ------------------------------------------------------------------------------------------ *)
Lemma in_skip_mv s cs lk m w : in_skip str_ops (mv s cs lk m w) = Ok (tt, mv s (tl cs) lk m w).
Proof. reflexivity. Qed.

Section Comment.
Variable kont : N -> MS (N * option (bool * bool)).
Fixpoint ws_comment (f : nat) (k : N) : MS (N * option (bool * bool)) :=
  match f with
  | O => oof
  | S f => c <- look_ch str_ops ;; if is_breakz c then kont (k + 1) else in_skip str_ops ;;; ws_comment f (k + 1)
  end.
End Comment.

Lemma in_skip_ws_to_eol_eq fuel st tab ws n :
  in_skip_ws_to_eol str_ops (S fuel) st tab ws n =
  (c <- look_ch str_ops ;;
   if c =? 32 then in_skip str_ops ;;; in_skip_ws_to_eol str_ops fuel st tab true (n + 1)
   else if (c =? 9) && (match st with SkipYes => true | SkipNo => false end) then
     in_skip str_ops ;;; in_skip_ws_to_eol str_ops fuel st true ws (n + 1)
   else if c =? 35 then
     if negb tab && negb ws then ret (n, None)
     else in_skip str_ops ;;; ws_comment (in_skip_ws_to_eol str_ops fuel st tab ws) fuel n
   else ret (n, Some (tab, ws))).
Proof. reflexivity. Qed.

Lemma ws_comment_spec kont (X : list chr) : is_breakz (hd0 X) = true -> forall (txt : list chr) f k s lk m w,
  nobreak txt -> (length txt < f)%nat ->
  ws_comment kont f k (mv s (txt ++ X) lk m w)
  = kont (k + N.of_nat (length txt) + 1) (mv s X (Nat.max lk 1) m w).
Proof.
  intros Hbz.
  induction txt as [|c txt IH]; intros f k s lk m w Hnb Hf; (destruct f as [|f]; [cbn in Hf; lia|]); cbn [ws_comment app].
  - mstep ltac:(apply look_ch_mv). rewrite Hbz. cbv match. cbn [length N.of_nat].
    rewrite N.add_0_r. reflexivity.
  - inversion Hnb as [|? ? Hc Hnb']; subst.
    mstep ltac:(apply look_ch_mv). hd0c. rewrite Hc.
    mstep ltac:(apply in_skip_mv). cbn [tl].
    rewrite IH by (auto; cbn in Hf; lia).
    replace (Nat.max (Nat.max lk 1) 1) with (Nat.max lk 1) by lia.
    cbn [length]. f_equal. lia.
Qed.

Definition whites (wh : list chr) : Prop := Forall (fun c => c = 32 \/ c = 9) wh.

(* white space: consumed, and remembered in one of the two flags *)
Lemma ws_whites : forall (wh rest : list chr) fuel tab ws n s lk m w,
  whites wh -> (length wh <= fuel)%nat ->
  exists tab' ws', (wh <> [] -> tab' || ws' = true) /\ (wh = [] -> tab' = tab /\ ws' = ws) /\
  in_skip_ws_to_eol str_ops (length wh + fuel) SkipYes tab ws n (mv s (wh ++ rest) lk m w)
  = in_skip_ws_to_eol str_ops fuel SkipYes tab' ws' (n + N.of_nat (length wh))
      (mv s rest (match wh with [] => lk | _ => Nat.max lk 1 end) m w).
Proof.
  induction wh as [|c wh IH]; intros rest fuel tab ws n s lk m w Hwh Hf.
  - exists tab, ws. split; [congruence|]. split; [tauto|]. cbn [length app N.of_nat Nat.add]. rewrite N.add_0_r. reflexivity.
  - inversion Hwh as [|? ? Hc Hwh']; subst. cbn [length Nat.add app]. rewrite in_skip_ws_to_eol_eq.
    destruct Hc as [-> | ->].
    + destruct (IH rest fuel tab true (n + 1) s (Nat.max lk 1) m w Hwh') as [tab' [ws' [H1 [H2 H3]]]]; [cbn [length] in Hf; lia|].
      exists tab', ws'. split; [|split; [discriminate|]].
      { intros _. destruct wh as [|c' wh']; [destruct (H2 eq_refl) as [-> ->]; apply orb_true_r|apply H1; discriminate]. }
      mstep ltac:(apply look_ch_mv). hd0c. change (32 =? 32) with true. cbv match.
      mstep ltac:(apply in_skip_mv). cbn [tl]. rewrite H3.
      replace (match wh with [] => Nat.max lk 1 | _ :: _ => Nat.max (Nat.max lk 1) 1 end) with (Nat.max lk 1)
        by (destruct wh; lia).
      f_equal. lia.
    + destruct (IH rest fuel true ws (n + 1) s (Nat.max lk 1) m w Hwh') as [tab' [ws' [H1 [H2 H3]]]]; [cbn [length] in Hf; lia|].
      exists tab', ws'. split; [|split; [discriminate|]].
      { intros _. destruct wh as [|c' wh']; [destruct (H2 eq_refl) as [-> ->]; reflexivity|apply H1; discriminate]. }
      mstep ltac:(apply look_ch_mv). hd0c. change (9 =? 32) with false. change (9 =? 9) with true. cbv match. cbn [andb].
      mstep ltac:(apply in_skip_mv). cbn [tl]. rewrite H3.
      replace (match wh with [] => Nat.max lk 1 | _ :: _ => Nat.max (Nat.max lk 1) 1 end) with (Nat.max lk 1)
        by (destruct wh; lia).
      f_equal. lia.
Qed.

(* a header tail: white space, then nothing or a comment (which needs the white space in front) *)
Inductive header_tail : list chr -> Prop :=
| ht_white wh : whites wh -> header_tail wh
| ht_comment wh txt : whites wh -> wh <> [] -> nobreak txt -> header_tail (wh ++ 35 :: txt).

Lemma header_tail_nolf hc : header_tail hc -> Forall (fun c => is_break c = false) hc.
Proof.
  assert (Hw : forall wh, whites wh -> Forall (fun c => is_break c = false) wh).
  { intros wh H. apply Forall_impl with (2 := H). intros c [-> | ->]; reflexivity. }
  intros [wh H|wh txt H _ Hnb]; [apply Hw; exact H|].
  apply Forall_app. split; [apply Hw; exact H|]. constructor; [reflexivity|]. apply nobreak_nolf. exact Hnb.
Qed.

Lemma breakz_cases c : is_breakz c = true -> c = 10 \/ c = 13 \/ c = 0.
Proof.
  unfold is_breakz, is_break, is_z. intros H. apply orb_true_iff in H. destruct H as [H|H].
  - apply orb_true_iff in H. destruct H as [H|H]; apply N.eqb_eq in H; auto.
  - apply N.eqb_eq in H. auto.
Qed.

(* the header tail is followed by [X]: a line break, or the end of the input *)
Lemma skip_ws_to_eol_hc F (hc X : list chr) s lk m w :
  is_breakz (hd0 X) = true ->
  header_tail hc -> (2 * length hc + 2 < F)%nat ->
  exists tw lk', (lk <= lk')%nat /\
  skip_ws_to_eol str_ops F SkipYes (mv s (hc ++ X) lk m w) = Ok (tw, mv s X lk' (mark_after brk m hc) w).
Proof.
  intros Hbz Hhc HF. rewrite (mark_after_nolf brk _ (header_tail_nolf _ Hhc)). unfold skip_ws_to_eol.
  assert (Hbf : (hd0 X =? 32) = false /\ (hd0 X =? 9) = false /\ (hd0 X =? 35) = false)
    by (destruct (breakz_cases _ Hbz) as [-> | [-> | ->]]; repeat split).
  destruct Hbf as [H32 [H9 H35]].
  destruct Hhc as [wh Hwh|wh txt Hwh Hne Hnb].
  - replace F with (length wh + (F - length wh))%nat by lia.
    destruct (ws_whites wh X (F - length wh) false false 0 s lk m w Hwh) as [tab' [ws' [_ [_ H3]]]]; [lia|].
    set (lkw := match wh with [] => lk | _ :: _ => Nat.max lk 1 end) in *.
    exists (tab', ws'), (Nat.max lkw 1). split; [subst lkw; destruct wh; lia|].
    destruct (F - length wh)%nat as [|f] eqn:E; [lia|].
    assert (Hrun : in_skip_ws_to_eol str_ops (S f) SkipYes tab' ws' (0 + N.of_nat (length wh)) (mv s X lkw m w)
                   = Ok ((0 + N.of_nat (length wh), Some (tab', ws')), mv s X (Nat.max lkw 1) m w)).
    { rewrite in_skip_ws_to_eol_eq. mstep ltac:(apply look_ch_mv). rewrite H32, H9, H35. reflexivity. }
    mstep ltac:(exact (eq_trans H3 Hrun)).
    cbn [fst snd]. mstep ltac:(apply adv_mark_mv). rewrite N.add_0_l. reflexivity.
  - rewrite <- app_assoc. cbn [app]. rewrite app_length in HF. cbn [length] in HF.
    replace F with (length wh + (F - length wh))%nat by lia.
    destruct (ws_whites wh (35 :: txt ++ X) (F - length wh) false false 0 s lk m w Hwh) as [tab' [ws' [H1 [_ H3]]]]; [lia|].
    specialize (H1 Hne).
    assert (Hflags : negb tab' && negb ws' = false) by (destruct tab', ws'; try reflexivity; discriminate).
    set (lkw := match wh with [] => lk | _ :: _ => Nat.max lk 1 end) in *.
    exists (tab', ws'), (Nat.max (Nat.max lkw 1) 1). split; [subst lkw; destruct wh; lia|].
    destruct (F - length wh)%nat as [|[|f]] eqn:E; [lia|lia|].
    assert (Hrun : in_skip_ws_to_eol str_ops (S (S f)) SkipYes tab' ws' (0 + N.of_nat (length wh)) (mv s (35 :: txt ++ X) lkw m w)
                   = Ok ((0 + N.of_nat (length wh) + N.of_nat (length txt) + 1, Some (tab', ws')),
                         mv s X (Nat.max (Nat.max lkw 1) 1) m w)).
    { rewrite in_skip_ws_to_eol_eq. mstep ltac:(apply look_ch_mv). hd0c. evalb. rewrite Hflags.
      mstep ltac:(apply in_skip_mv). cbn [tl]. rewrite (ws_comment_spec _ X Hbz) by (auto; lia).
      rewrite in_skip_ws_to_eol_eq. mstep ltac:(apply look_ch_mv). rewrite H32, H9, H35.
      replace (Nat.max (Nat.max (Nat.max lkw 1) 1) 1) with (Nat.max (Nat.max lkw 1) 1) by lia. reflexivity. }
    mstep ltac:(exact (eq_trans H3 Hrun)).
    cbn [fst snd]. mstep ltac:(apply adv_mark_mv). rewrite app_length. cbn [length].
    replace (N.of_nat (length wh + S (length txt))) with (0 + N.of_nat (length wh) + N.of_nat (length txt) + 1) by lia.
    reflexivity.
Qed.

Lemma header_tail_hd (hc X : list chr) : is_breakz (hd0 X) = true -> header_tail hc ->
  hd0 (hc ++ X) = 10 \/ hd0 (hc ++ X) = 13 \/ hd0 (hc ++ X) = 0 \/ hd0 (hc ++ X) = 32 \/ hd0 (hc ++ X) = 9.
Proof.
  intros Hbz.
  assert (Hw : forall wh Y, whites wh -> wh <> [] -> hd0 (wh ++ Y) = 32 \/ hd0 (wh ++ Y) = 9).
  { intros wh Y H Hne. destruct wh as [|c wh]; [congruence|]. inversion H as [|? ? Hc _]; subst. exact Hc. }
  intros [wh H|wh txt H Hne _].
  - destruct wh as [|c wh]; [cbn [app]; destruct (breakz_cases _ Hbz) as [E|[E|E]]; rewrite E; auto|].
    right; right; right. apply Hw; [exact H|discriminate].
  - right; right; right. rewrite <- app_assoc. apply Hw; assumption.
Qed.

(* scan_block_scalar from the first line after the header on, named ([start]: the mark of the indicator) *)
Definition bs_main (F : nat) (literal : bool) (start : marker) (chomp : chomping) (increment : N) : MS token :=
  let style := if literal then Literal else Folded in
  s <- get ;;
  let indent0 := if 0 <? increment then
                   (if (0 <=? sc_indent s)%Z then Z.to_N (sc_indent s + Z.of_N increment) else increment)
                 else 0 in
  ib <- (if indent0 =? 0 then
           r <- skip_first_line_indent str_ops F F 0 0 ;;
           let i := N.max (fst r) (Z.to_N (sc_indent s + 1)) in
           ret (if (0 <? sc_indent s)%Z then N.max i 1 else i, snd r)
         else b <- skip_block_scalar_indent str_ops F F indent0 0 ;; ret (indent0, b)) ;;
  let '(indent, tbreaks) := ib in
  z <- next_is str_ops is_z ;;
  s <- get ;;
  if z then
    let contents :=
      match chomp with
      | Strip => 0
      | _ => if m_line (sc_mark s) =? m_line start then 0
             else match chomp with
                  | Clip => 0
                  | _ => tbreaks + (if 0 <? m_col (sc_mark s) then 1 else 0)
                  end
      end in
    ret ({| sp_start := start; sp_end := sc_mark s |}, TScalar style (nls contents []))
  else
  wrong <- (if (m_col (sc_mark s) <? indent) && (sc_indent s <? Z.of_N (m_col (sc_mark s)))%Z then
              look str_ops 4 ;;; di <- next_is_document_indicator str_ops ;;
              ret (negb ((m_col (sc_mark s) =? 0) && di))
            else ret false) ;;
  if wrong then fail 83 (sc_mark s) else
  s <- get ;;
  r <- bs_loop F literal indent F [] 0 tbreaks false ;;
  bs_finish literal chomp indent (sc_mark s) r.

Lemma hdr_chars_nb c explicit digit_first : Forall (fun x => is_break x = false) (hdr_chars c explicit digit_first).
Proof.
  assert (HD : forall d, is_break (48 + N.of_nat d) = false).
  { intros d. unfold is_break. destruct (N.eqb_spec (48 + N.of_nat d) 10); [lia|].
    destruct (N.eqb_spec (48 + N.of_nat d) 13); [lia|]. reflexivity. }
  destruct c, explicit as [d|], digit_first; cbn [hdr_chars app]; repeat constructor; apply HD.
Qed.

Lemma hdr_line c explicit digit_first m : m_line (mark_after brk m (hdr_chars c explicit digit_first)) = m_line m.
Proof. rewrite (mark_after_nolf brk _ (hdr_chars_nb c explicit digit_first)). reflexivity. Qed.

(* the indicators and the rest of the header line, up to the line break or the end of the input [X] *)
Lemma scan_header_line : forall (P : outcome (token * sc strin) -> Prop) (s : sc strin) F literal c (explicit : option nat)
    (digit_first : bool) (hc X : list chr) pz inds,
  si_chars (sc_in s) = header literal c explicit digit_first ++ hc ++ X ->
  unroll_nb (sc_indents s) (sc_indent s) = (pz, inds) ->
  header_tail hc -> (2 * length hc + 2 < F)%nat -> is_breakz (hd0 X) = true ->
  match explicit with Some d => (1 <= d <= 9)%nat | None => True end ->
  (forall lk1 mh w1, lk1 <> O -> m_line mh = m_line (sc_mark s) ->
     P ((cbreak <- (if is_break (hd0 X) then look str_ops 2 ;;; skip_break str_ops ;;; ret 1 else ret 0) ;;
         c0 <- look_ch str_ops ;;
         if c0 =? 9 then fail 82 (sc_mark s) else bs_main F literal (sc_mark s) (to_model c) (inc_of explicit))
          (mv (set_indent pz inds s) X lk1 mh w1))) ->
  P (scan_block_scalar str_ops F literal s).
Proof.
  intros P s F literal c explicit digit_first hc X pz inds Hchars Hun Hhc HF0 Hbz Hd Hk.
  rewrite <- (mv_self s). rewrite Hchars. clear Hchars.
  rewrite header_hdr_chars. cbn [app].
  set (lk0 := si_look (sc_in s)). set (m0 := sc_mark s). set (w0 := sc_lws s).
  unfold scan_block_scalar.
  pstep ltac:(apply mark_mv). pstep ltac:(apply skip_non_blank_mv). cbn [tl].
  pstep ltac:(apply unroll_mv; exact Hun).
  pstep ltac:(apply look_ch_mv).
  set (s1 := set_indent pz inds s).
  pose proof (header_tail_hd hc X Hbz Hhc) as HB.
  destruct (bs_hd_spec c explicit digit_first (hc ++ X) s1 (Nat.max lk0 1) (adv 1 m0) false m0 HB Hd) as [lk1 [w1 [Hle1 Hhd]]].
  match goal with |- P (bind ?blk ?k ?st) => change (P (bind (bs_hd (hd0 (hdr_chars c explicit digit_first ++ hc ++ X)) m0) k st)) end.
  pstep ltac:(exact Hhd).
  destruct (skip_ws_to_eol_hc F hc X s1 lk1 (mark_after brk (adv 1 m0) (hdr_chars c explicit digit_first)) w1 Hbz Hhc HF0)
    as [tw [lk2 [Hle2 Hws]]].
  pstep ltac:(exact Hws). pstep ltac:(apply look_mv). pstep ltac:(apply peek_mv).
  rewrite Hbz. cbv match. cbn [negb].
  apply Hk; [lia|].
  rewrite (mark_after_nolf brk _ (header_tail_nolf _ Hhc)). cbn [adv m_line]. rewrite hdr_line. reflexivity.
Qed.

(* the header line: indicators, white space / comment, then the line break.  What remains is [bs_main] at the start
   of the next line. *)
Lemma scan_header : forall (P : outcome (token * sc strin) -> Prop) (s : sc strin) F literal c (explicit : option nat)
    (digit_first : bool) (hc BODY : list chr) pz inds,
  si_chars (sc_in s) = header literal c explicit digit_first ++ hc ++ brk ++ BODY ->
  unroll_nb (sc_indents s) (sc_indent s) = (pz, inds) ->
  header_tail hc -> (2 * length hc + 2 < F)%nat -> hd0 BODY <> 9 -> follow brk BODY ->
  match explicit with Some d => (1 <= d <= 9)%nat | None => True end ->
  (forall lk1 mh, lk1 <> O -> m_col mh = 0 -> m_line mh = m_line (sc_mark s) + 1 ->
     P (bs_main F literal (sc_mark s) (to_model c) (inc_of explicit) (mv (set_indent pz inds s) BODY lk1 mh true))) ->
  P (scan_block_scalar str_ops F literal s).
Proof.
  intros P s F literal c explicit digit_first hc BODY pz inds Hchars Hun Hhc HF0 Htab Hfol Hd Hk.
  apply (scan_header_line P s F literal c explicit digit_first hc (brk ++ BODY) pz inds); auto.
  { apply (brk_is_breakz brk Hbrk). }
  intros lk1 mh w1 Hlk1 Hline.
  rewrite (brk_is_break brk Hbrk).
  pstep ltac:(mstep ltac:(apply look_mv); mstep ltac:(apply (skip_break_brk brk Hbrk); exact Hfol); reflexivity).
  pstep ltac:(apply look_ch_mv).
  destruct (N.eqb_spec (hd0 BODY) 9) as [E|_]; [contradiction|].
  apply Hk; [lia|apply (col_brk brk Hbrk)|].
  rewrite (line_brk brk Hbrk). rewrite Hline. reflexivity.
Qed.

(* From the indicator to the first content line: header, header line break, leading blank lines, indentation
   (given or detected).  What remains is the content loop at the first content character, and the tail.
   [TAIL] is what follows the first content line: nothing, or a line feed and more. *)
Lemma scan_to_loop : forall (P : outcome (token * sc strin) -> Prop) (s : sc strin) F literal c (explicit : option nat)
    (digit_first : bool) (hc : list chr) (ks1 : list nat) (e1 : nat) (txt1 TAIL : list chr) (n : nat) pz inds,
  si_chars (sc_in s) = header literal c explicit digit_first ++ hc ++ brk ++ blank_lines ks1 ++ sps (n + e1) ++ txt1 ++ TAIL ->
  unroll_nb (sc_indents s) (sc_indent s) = (pz, inds) ->
  header_tail hc -> (2 * length hc + 2 < F)%nat ->
  hd0 (blank_lines ks1 ++ sps (n + e1) ++ txt1 ++ TAIL) <> 9 ->
  chunk_ok F n (ks1, e1, txt1) -> is_breakz (hd0 TAIL) = true ->
  match explicit with
  | Some d => (1 <= d <= 9)%nat /\ N.of_nat n = (if (0 <=? pz)%Z then Z.to_N (pz + Z.of_N (N.of_nat d)) else N.of_nat d)
  | None => Z.to_N (pz + 1) <= N.of_nat n /\ e1 = O /\ txt1 <> []
  end ->
  (forall s1 lk2 m2, lk2 <> O -> m_col m2 = N.of_nat n ->
     P ((r <- bs_loop F literal (N.of_nat n) F [] 0 (N.of_nat (length ks1)) false ;;
         bs_finish literal (to_model c) (N.of_nat n) m2 r) (mv s1 ((sps e1 ++ txt1) ++ TAIL) lk2 m2 true))) ->
  P (scan_block_scalar str_ops F literal s).
Proof.
  intros P s F literal c explicit digit_first hc ks1 e1 txt1 TAIL n pz inds Hchars Hun Hhc HFhc Hn Hc1 HT Hind Hk.
  destruct Hc1 as [Hks1 [Hnb1 [Hhd1 [Hne1 [Hks1F [Hks1L Hlen1]]]]]].
  apply (scan_header P s F literal c explicit digit_first hc (blank_lines ks1 ++ sps (n + e1) ++ txt1 ++ TAIL) pz inds); auto.
  { apply follow_blank_lines. apply follow_line; assumption. }
  { destruct explicit; tauto. }
  intros lk1 mh Hlk1 Hmh Hline.
  set (s1 := set_indent pz inds s).
  assert (Hs1 : forall cs lk m w, sc_indent (mv s1 cs lk m w) = pz) by reflexivity.
  unfold bs_main. pstep ltac:(apply get_mv). rewrite !Hs1.
  assert (Hhd' : hd0 (txt1 ++ TAIL) <> 32).
  { destruct txt1 as [|c0 t]; [|exact Hhd1]. cbn [app]. intro E. rewrite E in HT. discriminate HT. }
  match goal with |- P (bind ?ib ?k ?st) =>
    assert (Hib : exists lk2, lk2 <> O /\
              ib st = Ok ((N.of_nat n, N.of_nat (length ks1)),
                          mv s1 ((sps e1 ++ txt1) ++ TAIL) lk2 (mark_after brk mh (blank_lines ks1 ++ sps n)) true))
  end.
  { destruct explicit as [d|]; cbn [inc_of].
    - destruct Hind as [Hd9 Hind].
      assert (Hn0 : n <> O) by (destruct (0 <=? pz)%Z eqn:E; [apply Z.leb_le in E|]; lia).
      rewrite <- Hind.
      destruct (N.ltb_spec 0 (N.of_nat d)) as [_|Hbad]; [|lia].
      destruct (N.eqb_spec (N.of_nat n) 0) as [Hbad|_]; [lia|].
      destruct (skip_block_scalar_indent_spec ks1 (n + e1) (txt1 ++ TAIL) F F (N.of_nat n) 0 s1 lk1 mh)
        as [lk2 [Hle2 [Hne2 Hs]]]; auto.
      { apply Forall_impl with (2 := Hks1). intros k Hk'. lia. }
      { destruct Hne1 as [He|Hs]; [left; lia|right].
        rewrite hd0_app_ne by exact Hs. exact (proj2 (breakz_parts _ (nobreak_hd0 _ Hnb1 Hs))). }
      { constructor; [lia|exact Hks1F]. }
      exists lk2. split; [exact Hne2|].
      mstep ltac:(exact Hs). rewrite N.add_0_l, Nat2N.id.
      replace (Nat.min (n + e1) n) with n by lia. replace (n + e1 - n)%nat with e1 by lia.
      rewrite <- app_assoc. reflexivity.
    - destruct Hind as [Hpz [He1 Htx1]]. subst e1. change (0 <? 0) with false. cbv match. change (0 =? 0) with true. cbv match.
      rewrite Nat.add_0_r.
      assert (Hnb' : is_break (hd0 (txt1 ++ TAIL)) = false).
      { rewrite hd0_app_ne by exact Htx1. exact (proj2 (breakz_parts _ (nobreak_hd0 _ Hnb1 Htx1))). }
      destruct (skip_first_line_indent_spec ks1 n (txt1 ++ TAIL) F F 0 0 s1 lk1 mh) as [lk2 [Hle2 [Hne2 Hs]]]; auto.
      { constructor; [lia|exact Hks1F]. }
      exists lk2. split; [exact Hne2|].
      mstep ltac:(exact Hs). cbn [fst snd]. rewrite N.add_0_l.
      assert (Hmax : maxl ks1 n = n).
      { clear - Hks1. induction Hks1 as [|k ks Hk' _ IH]; [reflexivity|]. cbn [maxl fold_right]. fold (maxl ks n). lia. }
      rewrite Hmax.
      replace (if (0 <? pz)%Z then N.max (N.max (N.max 0 (N.of_nat n)) (Z.to_N (pz + 1))) 1
               else N.max (N.max 0 (N.of_nat n)) (Z.to_N (pz + 1))) with (N.of_nat n)
        by (destruct (Z.ltb_spec 0 pz); lia).
      reflexivity. }
  destruct Hib as [lk2 [Hne2 Hib]].
  pstep ltac:(exact Hib).
  assert (Hmk : forall cs lk m w, sc_mark (mv s1 cs lk m w) = m) by reflexivity.
  set (m2 := mark_after brk mh (blank_lines ks1 ++ sps n)).
  assert (Hcol2 : m_col m2 = N.of_nat n) by (apply col_after_blank_lines; exact Hmh).
  assert (Hne' : sps e1 ++ txt1 <> []).
  { destruct Hne1 as [He|Hs']; [destruct e1; [congruence|discriminate]|destruct e1; [exact Hs'|discriminate]]. }
  assert (Hnbt : nobreak (sps e1 ++ txt1)) by (apply nobreak_sps_app; exact Hnb1).
  pstep ltac:(apply next_is_mv). rewrite (hd0_app_ne (sps e1 ++ txt1)) by exact Hne'.
  rewrite (proj1 (breakz_parts _ (nobreak_hd0 _ Hnbt Hne'))).
  pstep ltac:(apply get_mv). rewrite !Hmk, !Hs1, Hcol2, N.ltb_irrefl. cbn [andb].
  pstep ltac:(reflexivity). pstep ltac:(apply get_mv). rewrite !Hmk.
  exact (Hk s1 lk2 m2 Hne2 Hcol2).
Qed.



(* the header and its comment contain no line feed *)
Lemma wbrk_head literal c explicit digit_first hc X : header_tail hc ->
  wbrk (header literal c explicit digit_first ++ hc ++ X) = header literal c explicit digit_first ++ hc ++ wbrk X.
Proof.
  intros Hhc. rewrite !wbrk_app. f_equal; [|f_equal].
  - rewrite header_hdr_chars. apply wbrk_nolf. constructor; [destruct literal; discriminate|].
    apply nolf_of_nb. apply hdr_chars_nb.
  - apply wbrk_nolf, nolf_of_nb, header_tail_nolf. exact Hhc.
Qed.

Lemma render_block_rest n literal c explicit digit_first hc chunks tks : header_tail hc -> Forall chunk_nb chunks ->
  wbrk (render_block n literal c explicit digit_first hc (flat_map chunk_lines chunks ++ map Blank tks) (EofRest []))
  = header literal c explicit digit_first ++ hc ++ brk ++ flat_map (chunk_text n) chunks ++ blank_lines tks.
Proof.
  intros Hhc Hnb. unfold render_block. rewrite flat_map_shift, wbrk_head by exact Hhc.
  rewrite wbrk_lf, app_nil_r, render_chunks by exact Hnb. reflexivity.
Qed.

(* the last line of the input when the input ends inside it: j >= 1 spaces and nothing else — one more empty line
   (reading R1 of the specification: the end of the input terminates a line like a line break does) *)
Definition eof_blank (j : nat) (r' : list chr) : list nat :=
  match r' with [] => (match j with O => [] | S _ => [j] end) | _ => [] end.

(* every line terminated by a line feed, then a less indented line, a document marker, or the end of the input —
   possibly inside a last line of at most n spaces *)
Theorem block_scalar_chunks : forall (s : sc strin) F literal c (explicit : option nat) (digit_first : bool) (hc : list chr)
    (ck : chunk) (chunks : list chunk) (tks : list nat) (j : nat) (r' : list chr) (n : nat) pz inds,
  let lines := flat_map chunk_lines (ck :: chunks) ++ map Blank tks in
  si_chars (sc_in s) = wbrk (render_block n literal c explicit digit_first hc lines (EofRest [])) ++ sps j ++ r' ->
  unroll_nb (sc_indents s) (sc_indent s) = (pz, inds) ->
  header_tail hc -> (2 * length hc + 2 < F)%nat ->
  hd0 (chunk_text_nolf n ck) <> 9 -> Forall (chunk_ok F n) (ck :: chunks) -> Forall (chunk_col0 n) (ck :: chunks) ->
  Forall (fun k => (k <= n)%nat) tks -> Forall (fun k => (k < F)%nat) tks -> (length tks < F)%nat ->
  ends_after n j r' -> hd0 r' <> 32 -> is_break (hd0 r') = false -> (r' <> [] -> hd0 r' <> 0) ->
  (S (length chunks) < F)%nat ->
  match explicit with
  | Some d => (1 <= d <= 9)%nat /\ N.of_nat n = (if (0 <=? pz)%Z then Z.to_N (pz + Z.of_N (N.of_nat d)) else N.of_nat d)
  | None => Z.to_N (pz + 1) <= N.of_nat n /\ (let '(ks, e, txt) := ck in e = O /\ txt <> [])
  end ->
  yields literal (block_value literal c (lines ++ map Blank (eof_blank j r'))) r' (scan_block_scalar str_ops F literal s).
Proof.
  intros s F literal c explicit digit_first hc ck chunks tks j r' n pz inds lines Hchars Hun Hhc HFhc Htab Hch Hc0 Htks HtksF HtksL Hj Hr Hrb Hrz HchL Hind.
  destruct ck as [[ks1 e1] txt1].
  pose proof (Forall_inv Hch) as Hc1. pose proof (Forall_inv_tail Hch) as Hch'.
  pose proof (Forall_inv Hc0) as Hcc1. pose proof (Forall_inv_tail Hc0) as Hc0'.
  set (REST := flat_map (chunk_text n) chunks ++ blank_lines tks ++ sps j ++ r').
  assert (Hnbs : Forall chunk_nb ((ks1, e1, txt1) :: chunks)).
  { apply Forall_impl with (2 := Hch). intros a Ha. exact (chunk_ok_nb F n a Ha). }
  apply (scan_to_loop _ s F literal c explicit digit_first hc ks1 e1 txt1 (brk ++ REST) n pz inds); auto.
  { rewrite Hchars. unfold lines. rewrite render_block_rest by assumption.
    subst REST. cbn [flat_map chunk_text]. rewrite <- !app_assoc. reflexivity. }
  { apply (tab_tail F); assumption. }
  { apply (brk_is_breakz brk Hbrk). }
  intros s1 lk2 m2 Hne2 Hcol2.
  destruct (chunk_content_facts _ _ _ _ _ Hc1) as [Hne' [Hnbt Hlen]].
  assert (HnF : (n < F)%nat) by (destruct Hc1 as [_ [_ [_ [_ [_ [_ Hl]]]]]]; lia).
  assert (HjF : (j < F)%nat) by (destruct Hj as [H|[[_ H]|[_ [-> _]]]]; lia).
  assert (Hfol : follow brk REST).
  { subst REST. apply (follow_chunks F n); [exact Hch'|]. apply follow_blank_lines. apply follow_sps.
    apply (follow_nb brk). exact Hrb. }
  assert (HF : exists F', F = S F') by (destruct F; [lia|eexists; reflexivity]).
  destruct HF as [F' HF].
  replace (bs_loop F literal (N.of_nat n) F) with (bs_loop F literal (N.of_nat n) (S F')) by (rewrite HF; reflexivity).
  destruct (rlk_facts n lk2) as [Hrl1 Hrl2].
  destruct (bs_loop_chunks chunks tks j r' F literal n F'
              (rev (sps e1 ++ txt1) ++ fold_sep literal [] 0 (N.of_nat (length ks1)) false (is_blank (hd0 (sps e1 ++ txt1))))
              (is_blank (hd0 (sps e1 ++ txt1))) s1 (rlk n lk2) (mark_after brk (mark_after brk m2 (sps e1 ++ txt1)) brk))
    as [lk3 [Hle3 [Hne3 Hloop]]]; auto; try lia.
  { apply (col_brk brk Hbrk). }
  assert (Hde : n = O -> doc_ind_b ((sps e1 ++ txt1) ++ brk ++ REST) = false).
  { intros Hn0. apply (doc_end_content n ks1 e1 txt1 (brk ++ REST)); auto.
    - destruct Hc1 as [_ [Hnb _]]. exact Hnb.
    - apply (brk_is_breakz brk Hbrk). }
  pstep ltac:(rewrite bs_loop_round; [exact Hloop|exact Hnbt|exact Hne'|exact Hde|exact Hcol2|exact Hlen|exact Hfol]).
  unfold bs_finish.
  pstep ltac:(apply next_is_mv). pstep ltac:(apply col_mv). pstep ltac:(apply mark_mv).
  assert (Hcolend : forall m, m_col m = 0 ->
            m_col (mark_after brk m (flat_map (chunk_text n) chunks ++ blank_lines tks ++ sps j)) = N.of_nat j).
  { clear - Hbrk. induction chunks as [|[[ks e] txt] chunks IH]; intros m Hm.
    - cbn [flat_map app]. apply col_after_blank_lines. exact Hm.
    - cbn [flat_map]. rewrite <- app_assoc, mark_after_app, mark_after_chunk. apply IH. apply (col_brk brk Hbrk). }
  rewrite Hcolend by (apply (col_brk brk Hbrk)).
  change (1 =? 0) with false. cbn [andb negb].
  (* the tail: with lb = 1 clip adds nothing; keep adds one line feed for a last line of spaces ended by the input *)
  set (tks' := tks ++ eof_blank j r').
  assert (Etail : forall A : list chr,
                    (if is_z (hd0 r') && (0 <? N.of_nat j) then 10 :: nls (N.of_nat (length tks)) A else nls (N.of_nat (length tks)) A)
                    = nls (N.of_nat (length tks')) A).
  { intros A. subst tks'. unfold eof_blank. destruct r' as [|c0 r0].
    - change (is_z (hd0 [])) with true. destruct j as [|j'].
      + rewrite app_nil_r. reflexivity.
      + destruct (N.ltb_spec 0 (N.of_nat (S j'))) as [_|Hbad]; [|lia]. cbn [andb].
        rewrite app_length. cbn [length]. rewrite Nat.add_1_r, Nat2N.inj_succ, nls_succ. reflexivity.
    - assert (Hz : is_z (hd0 (c0 :: r0)) = false) by (apply N.eqb_neq; apply Hrz; discriminate).
      rewrite Hz, app_nil_r. reflexivity. }
  assert (Eval : block_value literal c (lines ++ map Blank (eof_blank j r')) =
                 rev (match to_model c with Keep => nls (N.of_nat (length tks')) | _ => fun a => a end
                        (match to_model c with
                         | Strip => acc_chunks literal [] 0 false ((ks1, e1, txt1) :: chunks)
                         | _ => nls 1 (acc_chunks literal [] 0 false ((ks1, e1, txt1) :: chunks)) end))).
  { unfold lines. rewrite <- app_assoc, <- map_app. fold tks'. rewrite chunks_value by discriminate. reflexivity. }
  rewrite Eval. unfold yields. eexists. eexists. split.
  - destruct c; cbn [to_model]; [reflexivity|reflexivity|]. rewrite Etail. reflexivity.
  - reflexivity.
Qed.

(* ------------------------------------------------------------------------------------------ *)
(* the end of the input right after the last content line (no final line break)                *)
(* ------------------------------------------------------------------------------------------ *)

Lemma bs_loop_round_eof : forall (txt : list chr) F literal n f acc lb tb lbk s lk m w,
  nobreak txt -> txt <> [] -> (n = O -> doc_ind_b (txt ++ []) = false) -> m_col m = N.of_nat n -> (length txt < F)%nat ->
  bs_loop F literal (N.of_nat n) (S f) acc lb tb lbk (mv s (txt ++ []) lk m w)
  = Ok ((rev txt ++ fold_sep literal acc lb tb lbk (is_blank (hd0 txt)), 0, 0),
        mv s [] (rlk n lk) (mark_after brk m txt) w).
Proof.
  intros txt F literal n f acc lb tb lbk s lk m w Hnb Hne Hn Hcol HF.
  cbn [bs_loop].
  mstep ltac:(apply col_mv). mstep ltac:(apply next_is_mv).
  rewrite Hcol, N.eqb_refl. rewrite (hd0_app_ne txt) by exact Hne.
  destruct (breakz_parts _ (nobreak_hd0 _ Hnb Hne)) as [Hz Hb]. rewrite Hz. cbn [negb orb].
  destruct (N.eqb_spec (N.of_nat n) 0) as [E|E].
  - assert (En : n = O) by lia. subst n. cbn [rlk].
    mstep ltac:(mstep ltac:(apply look_mv); apply next_is_document_indicator_mv; lia). rewrite (Hn eq_refl).
    mstep ltac:(apply next_is_mv). rewrite (hd0_app_ne txt) by exact Hne.
    fold (fold_sep literal acc lb tb lbk (is_blank (hd0 txt))).
    mstep ltac:(apply content_line_spec; [exact Hnb|reflexivity|exact HF]).
    mstep ltac:(apply look_mv). mstep ltac:(apply next_is_mv). reflexivity.
  - destruct n as [|n']; [lia|]. cbn [rlk].
    mstep ltac:(reflexivity). mstep ltac:(apply next_is_mv). rewrite (hd0_app_ne txt) by exact Hne.
    fold (fold_sep literal acc lb tb lbk (is_blank (hd0 txt))).
    mstep ltac:(apply content_line_spec; [exact Hnb|reflexivity|exact HF]).
    mstep ltac:(apply look_mv). mstep ltac:(apply next_is_mv). reflexivity.
Qed.

Lemma col_after_text (txt : list chr) m : nobreak txt -> m_col (mark_after brk m txt) = m_col m + N.of_nat (length txt).
Proof. intros H. rewrite (mark_after_nolf brk _ (nobreak_nolf _ H)). reflexivity. Qed.

Lemma bs_loop_chunks_eof : forall (cs : list chunk) (cl : chunk) F literal n f acc lbk s lk m,
  Forall (chunk_ok F n) (cs ++ [cl]) -> Forall (chunk_col0 n) (cs ++ [cl]) -> (n < F)%nat ->
  m_col m = 0 -> (length cs < f)%nat ->
  exists lk' mend, lk' <> O /\ N.max (N.of_nat n) 1 <= m_col mend /\
  (tb <- skip_block_scalar_indent str_ops F F (N.of_nat n) 0 ;; bs_loop F literal (N.of_nat n) f acc 1 tb lbk)
    (mv s (flat_map (chunk_text n) cs ++ chunk_text_nolf n cl ++ []) lk m true)
  = Ok ((acc_chunks literal acc 1 lbk (cs ++ [cl]), 0, 0), mv s [] lk' mend true).
Proof.
  induction cs as [|[[ks e] txt] cs IH]; intros cl F literal n f acc lbk s lk m Hch Hc0 HnF Hcol Hf.
  - destruct cl as [[ks e] txt]. cbn [flat_map app chunk_text_nolf] in *.
    pose proof (Forall_inv Hch) as Hc. pose proof (Forall_inv Hc0) as Hcc. destruct (chunk_content_facts _ _ _ _ _ Hc) as [Hne' [Hnbt Hlen']].
    destruct Hc as [Hks [Hnb [Hhd [Hne [HksF [HksL Hlen]]]]]].
    rewrite <- !app_assoc.
    assert (Hhd' : hd0 (txt ++ []) <> 32).
    { destruct txt as [|c0 t]; [intro H; cbv in H; discriminate H|exact Hhd]. }
    assert (Hlast : N.of_nat n < N.of_nat (n + e) \/ is_break (hd0 (txt ++ [])) = false).
    { destruct Hne as [He|Hs]; [left; lia|right].
      rewrite hd0_app_ne by exact Hs. exact (proj2 (breakz_parts _ (nobreak_hd0 _ Hnb Hs))). }
    destruct (skip_block_scalar_indent_spec ks (n + e) (txt ++ []) F F (N.of_nat n) 0 s lk m)
      as [lk1 [Hle1 [Hne1 Hs]]]; auto.
    { apply Forall_impl with (2 := Hks). intros k Hk. lia. }
    { constructor; [lia|exact HksF]. }
    rewrite Nat2N.id in Hs. replace (Nat.min (n + e) n) with n in Hs by lia.
    replace (n + e - n)%nat with e in Hs by lia.
    destruct f as [|f]; [cbn in Hf; lia|].
    set (m1 := mark_after brk m (blank_lines ks ++ sps n)) in *.
    assert (Hcol1 : m_col m1 = N.of_nat n) by (apply col_after_blank_lines; exact Hcol).
    destruct (rlk_facts n lk1) as [Hrl1 Hrl2].
    exists (rlk n lk1), (mark_after brk m1 (sps e ++ txt)). split; [exact Hrl2|]. split.
    { rewrite col_after_text by exact Hnbt. destruct (sps e ++ txt) as [|c0 t0]; [congruence|]. cbn [length]. lia. }
    mstep ltac:(exact Hs). rewrite N.add_0_l.
    replace (sps e ++ txt ++ []) with ((sps e ++ txt) ++ []) by (rewrite <- app_assoc; reflexivity).
    rewrite bs_loop_round_eof; auto.
    intros Hn0. apply (doc_end_content n ks e txt []); auto.
  - pose proof (Forall_inv Hch) as Hc. pose proof (Forall_inv_tail Hch) as Hch'. fold (cs ++ [cl]) in Hch'.
    pose proof (Forall_inv Hc0) as Hcc. pose proof (Forall_inv_tail Hc0) as Hc0'. fold (cs ++ [cl]) in Hc0'.
    destruct (chunk_content_facts _ _ _ _ _ Hc) as [Hne' [Hnbt Hlen']].
    destruct Hc as [Hks [Hnb [Hhd [Hne [HksF [HksL Hlen]]]]]].
    cbn [flat_map]. fold (flat_map (chunk_text n) cs).
    set (REST := flat_map (chunk_text n) cs ++ chunk_text_nolf n cl ++ []).
    assert (Etxt : (chunk_text n (ks, e, txt) ++ flat_map (chunk_text n) cs) ++ chunk_text_nolf n cl ++ []
                   = blank_lines ks ++ sps (n + e) ++ (txt ++ brk ++ REST)).
    { cbn [chunk_text]. subst REST. rewrite <- !app_assoc. reflexivity. }
    rewrite Etxt.
    assert (Hhd' : hd0 (txt ++ brk ++ REST) <> 32).
    { destruct txt as [|c t]; [apply (brk_not_space brk Hbrk)|exact Hhd]. }
    assert (Hlast : N.of_nat n < N.of_nat (n + e) \/ is_break (hd0 (txt ++ brk ++ REST)) = false).
    { destruct Hne as [He|Hs]; [left; lia|right].
      rewrite hd0_app_ne by exact Hs. exact (proj2 (breakz_parts _ (nobreak_hd0 _ Hnb Hs))). }
    destruct (skip_block_scalar_indent_spec ks (n + e) (txt ++ brk ++ REST) F F (N.of_nat n) 0 s lk m)
      as [lk1 [Hle1 [Hne1 Hs]]]; auto.
    { apply Forall_impl with (2 := Hks). intros k Hk. lia. }
    { constructor; [lia|exact HksF]. }
    rewrite Nat2N.id in Hs. replace (Nat.min (n + e) n) with n in Hs by lia.
    replace (n + e - n)%nat with e in Hs by lia.
    destruct f as [|f]; [cbn in Hf; lia|].
    set (m1 := mark_after brk m (blank_lines ks ++ sps n)) in *.
    assert (Hcol1 : m_col m1 = N.of_nat n) by (apply col_after_blank_lines; exact Hcol).
    destruct (IH cl F literal n f
                 (rev (sps e ++ txt) ++ fold_sep literal acc 1 (N.of_nat (length ks)) lbk (is_blank (hd0 (sps e ++ txt))))
                 (is_blank (hd0 (sps e ++ txt))) s (rlk n lk1) (mark_after brk (mark_after brk m1 (sps e ++ txt)) brk))
      as [lk' [mend [Hne2 [Hcm Hrec]]]]; auto.
    { apply (col_brk brk Hbrk). }
    { cbn [length] in Hf. lia. }
    exists lk', mend. split; [exact Hne2|]. split; [exact Hcm|].
    assert (Hfol : follow brk REST).
    { subst REST. apply (follow_chunks F n).
      - apply Forall_app in Hch'. exact (proj1 Hch').
      - apply Forall_app in Hch'. destruct Hch' as [_ Hcl]. pose proof (Forall_inv Hcl) as Hcl1.
        destruct cl as [[ksl el] txtl]. destruct Hcl1 as [_ [Hnbl [_ [Hnel _]]]]. cbn [chunk_text_nolf]. rewrite <- !app_assoc.
        apply follow_blank_lines. apply follow_line; assumption. }
    mstep ltac:(exact Hs). rewrite N.add_0_l.
    replace (sps e ++ txt ++ brk ++ REST) with ((sps e ++ txt) ++ brk ++ REST) by (rewrite <- app_assoc; reflexivity).
    rewrite bs_loop_round; auto.
    intros Hn0. apply (doc_end_content n ks e txt (brk ++ REST)); auto. apply (brk_is_breakz brk Hbrk).
Qed.

Lemma render_chunks_eof n : forall (cs : list chunk) (cl : chunk), Forall chunk_nb (cs ++ [cl]) ->
  wbrk (flat_map (fun l => LF :: render_line n l) (flat_map chunk_lines (cs ++ [cl])))
  = brk ++ flat_map (chunk_text n) cs ++ chunk_text_nolf n cl.
Proof.
  assert (H1 : forall ks e (s : list chr) X, nobreak s ->
             wbrk (flat_map (fun l => LF :: render_line n l) (map Blank ks ++ [Text e s]) ++ X)
             = brk ++ blank_lines ks ++ sps (n + e) ++ s ++ wbrk X).
  { intros ks e s X Hs. rewrite flat_map_app. cbn [flat_map render_line]. rewrite app_nil_r, <- app_assoc. cbn [app].
    rewrite flat_map_shift, wbrk_lf, !wbrk_app, render_blanks. change (spaces (n + e)) with (sps (n + e)).
    rewrite wbrk_sps, (wbrk_nobreak s Hs). rewrite <- !app_assoc. reflexivity. }
  induction cs as [|[[ks e] s] cs IH]; intros cl Hnb.
  - destruct cl as [[ks e] s]. cbn [app flat_map chunk_lines chunk_text_nolf]. rewrite app_nil_r.
    rewrite <- (app_nil_r (flat_map _ (map Blank ks ++ [Text e s]))), H1, !app_nil_r; [reflexivity|exact (Forall_inv Hnb)].
  - cbn [app flat_map chunk_lines chunk_text]. rewrite flat_map_app, H1 by exact (Forall_inv Hnb).
    rewrite IH by exact (Forall_inv_tail Hnb). rewrite <- !app_assoc. reflexivity.
Qed.

Theorem block_scalar_chunks_eof : forall (s : sc strin) F literal c (explicit : option nat) (digit_first : bool) (hc : list chr)
    (cs : list chunk) (cl : chunk) (n : nat) pz inds,
  let lines := flat_map chunk_lines (cs ++ [cl]) in
  si_chars (sc_in s) = wbrk (render_block n literal c explicit digit_first hc lines EofNone) ->
  unroll_nb (sc_indents s) (sc_indent s) = (pz, inds) ->
  header_tail hc -> (2 * length hc + 2 < F)%nat ->
  hd0 (chunk_text_nolf n (hd cl cs)) <> 9 ->
  Forall (chunk_ok F n) (cs ++ [cl]) -> Forall (chunk_col0 n) (cs ++ [cl]) -> (S (length cs) < F)%nat ->
  match explicit with
  | Some d => (1 <= d <= 9)%nat /\ N.of_nat n = (if (0 <=? pz)%Z then Z.to_N (pz + Z.of_N (N.of_nat d)) else N.of_nat d)
  | None => Z.to_N (pz + 1) <= N.of_nat n /\ (let '(ks, e, txt) := hd cl cs in e = O /\ txt <> [])
  end ->
  yields literal (block_value literal c lines) [] (scan_block_scalar str_ops F literal s).
Proof.
  intros s F literal c explicit digit_first hc cs cl n pz inds lines Hchars Hun Hhc HFhc Htab Hch Hc0 HchL Hind.
  assert (Eval : block_value literal c lines =
                 rev (match to_model c with Keep => nls (N.of_nat 0) | _ => fun a => a end
                        (match to_model c with
                         | Strip => acc_chunks literal [] 0 false (cs ++ [cl])
                         | _ => nls 1 (acc_chunks literal [] 0 false (cs ++ [cl])) end))).
  { assert (Hne0 : cs ++ [cl] <> []) by (destruct cs; discriminate).
    pose proof (chunks_value literal c (cs ++ [cl]) [] [] Hne0) as E.
    cbn [map rev app length] in E. rewrite app_nil_r in E. symmetry. exact E. }
  assert (Hnbs : Forall chunk_nb (cs ++ [cl])).
  { apply Forall_impl with (2 := Hch). intros a Ha. exact (chunk_ok_nb F n a Ha). }
  unfold render_block in Hchars. rewrite app_nil_r in Hchars. rewrite wbrk_head in Hchars by exact Hhc. unfold lines in Hchars.
  rewrite render_chunks_eof in Hchars by exact Hnbs.
  assert (HnF : (n < F)%nat).
  { assert (Hc : chunk_ok F n cl) by (apply Forall_app in Hch; destruct Hch as [_ H]; exact (Forall_inv H)).
    destruct cl as [[ks e] txt]. destruct Hc as [_ [_ [_ [_ [_ [_ Hl]]]]]]. lia. }
  assert (HF : exists F', F = S F') by (destruct F; [lia|eexists; reflexivity]).
  destruct HF as [F' HF].
  destruct cs as [|[[ks1 e1] txt1] cs].
  - (* a single content line *)
    destruct cl as [[ks1 e1] txt1]. cbn [app flat_map chunk_text_nolf hd] in *.
    pose proof (Forall_inv Hch) as Hc1. pose proof (Forall_inv Hc0) as Hcc1.
    destruct (chunk_content_facts _ _ _ _ _ Hc1) as [Hne' [Hnbt Hlen]].
    apply (scan_to_loop _ s F literal c explicit digit_first hc ks1 e1 txt1 [] n pz inds); auto.
    { rewrite Hchars, !app_nil_r. reflexivity. }
    { apply (tab_tail F); assumption. }
    intros s1 lk2 m2 Hne2 Hcol2.
    replace (bs_loop F literal (N.of_nat n) F) with (bs_loop F literal (N.of_nat n) (S F')) by (rewrite HF; reflexivity).
    assert (Hde : n = O -> doc_ind_b ((sps e1 ++ txt1) ++ []) = false).
    { intros Hn0. apply (doc_end_content n ks1 e1 txt1 []); auto. destruct Hc1 as [_ [Hnb _]]. exact Hnb. }
    pstep ltac:(apply bs_loop_round_eof; auto).
    unfold bs_finish.
    pstep ltac:(apply next_is_mv). pstep ltac:(apply col_mv). pstep ltac:(apply mark_mv).
    change (is_z (hd0 [])) with true. rewrite col_after_text by exact Hnbt.
    destruct (N.leb_spec (N.max (N.of_nat n) 1) (m_col m2 + N.of_nat (length (sps e1 ++ txt1)))) as [_|Hbad];
      [|destruct (sps e1 ++ txt1) as [|c0 t0]; [congruence|cbn [length] in Hbad; lia]].
    rewrite Eval. unfold yields. eexists. eexists. split.
    + destruct c; reflexivity.
    + reflexivity.
  - cbn [app flat_map hd] in *.
    pose proof (Forall_inv Hch) as Hc1. pose proof (Forall_inv_tail Hch) as Hch'.
    pose proof (Forall_inv Hc0) as Hcc1. pose proof (Forall_inv_tail Hc0) as Hc0'.
    set (REST := flat_map (chunk_text n) cs ++ chunk_text_nolf n cl ++ []).
    destruct (chunk_content_facts _ _ _ _ _ Hc1) as [Hne' [Hnbt Hlen]].
    apply (scan_to_loop _ s F literal c explicit digit_first hc ks1 e1 txt1 (brk ++ REST) n pz inds); auto.
    { rewrite Hchars. subst REST. cbn [chunk_text]. rewrite <- !app_assoc, !app_nil_r. reflexivity. }
    { apply (tab_tail F); assumption. }
    { apply (brk_is_breakz brk Hbrk). }
    intros s1 lk2 m2 Hne2 Hcol2.
    assert (Hfol : follow brk REST).
    { subst REST. apply (follow_chunks F n).
      - apply Forall_app in Hch'. exact (proj1 Hch').
      - apply Forall_app in Hch'. destruct Hch' as [_ Hcl]. pose proof (Forall_inv Hcl) as Hcl1.
        destruct cl as [[ksl el] txtl]. destruct Hcl1 as [_ [Hnbl [_ [Hnel _]]]]. cbn [chunk_text_nolf]. rewrite <- !app_assoc.
        apply follow_blank_lines. apply follow_line; assumption. }
    replace (bs_loop F literal (N.of_nat n) F) with (bs_loop F literal (N.of_nat n) (S F')) by (rewrite HF; reflexivity).
    destruct (bs_loop_chunks_eof cs cl F literal n F'
                (rev (sps e1 ++ txt1) ++ fold_sep literal [] 0 (N.of_nat (length ks1)) false (is_blank (hd0 (sps e1 ++ txt1))))
                (is_blank (hd0 (sps e1 ++ txt1))) s1 (rlk n lk2) (mark_after brk (mark_after brk m2 (sps e1 ++ txt1)) brk))
      as [lk3 [mend [Hne3 [Hcm Hloop]]]]; auto.
    { apply (col_brk brk Hbrk). }
    { cbn [length] in HchL. lia. }
    assert (Hde : n = O -> doc_ind_b ((sps e1 ++ txt1) ++ brk ++ REST) = false).
    { intros Hn0. apply (doc_end_content n ks1 e1 txt1 (brk ++ REST)); auto.
      - destruct Hc1 as [_ [Hnb _]]. exact Hnb.
      - apply (brk_is_breakz brk Hbrk). }
    pstep ltac:(rewrite bs_loop_round; [exact Hloop|exact Hnbt|exact Hne'|exact Hde|exact Hcol2|exact Hlen|exact Hfol]).
    unfold bs_finish.
    pstep ltac:(apply next_is_mv). pstep ltac:(apply col_mv). pstep ltac:(apply mark_mv).
    change (is_z (hd0 [])) with true.
    destruct (N.leb_spec (N.max (N.of_nat n) 1) (m_col mend)) as [_|Hbad]; [|lia].
    rewrite Eval. unfold yields. eexists. eexists. split.
    + destruct c; reflexivity.
    + reflexivity.
Qed.

(* ------------------------------------------------------------------------------------------ *)
(* from line lists to chunks                                                                   *)
(* ------------------------------------------------------------------------------------------ *)
(* side conditions on one line, for content indentation n and fuel F *)
Definition line_ok (F n : nat) (l : bline) : Prop :=
  match l with
  | Blank k => (k <= n)%nat /\ (k < F)%nat
  | Text e s => nobreak s /\ hd0 s <> 32 /\ (e <> O \/ s <> []) /\ (n + e + length s < F)%nat
  end.

(* [ks]: the blank lines seen since the last content line, most recent first *)
Fixpoint split_lines (ls : list bline) (ks : list nat) : list chunk * list nat :=
  match ls with
  | [] => ([], rev ks)
  | Blank k :: r => split_lines r (k :: ks)
  | Text e s :: r => let '(cs, t) := split_lines r [] in ((rev ks, e, s) :: cs, t)
  end.

Lemma split_lines_spec : forall ls ks cs t, split_lines ls ks = (cs, t) ->
  map Blank (rev ks) ++ ls = flat_map chunk_lines cs ++ map Blank t.
Proof.
  induction ls as [|[e s|k] r IH]; intros ks cs t H; cbn [split_lines] in H.
  - inversion H; subst. rewrite app_nil_r. reflexivity.
  - destruct (split_lines r []) as [cs' t'] eqn:E. inversion H; subst.
    cbn [flat_map chunk_lines]. rewrite <- !app_assoc. rewrite <- (IH [] cs' t E). cbn [rev map app]. reflexivity.
  - rewrite <- (IH (k :: ks) cs t H). cbn [rev]. rewrite map_app, <- app_assoc. reflexivity.
Qed.

Lemma split_lines_ok F n : forall ls ks cs t, split_lines ls ks = (cs, t) ->
  Forall (line_ok F n) ls -> Forall (fun k => (k <= n)%nat /\ (k < F)%nat) ks ->
  (length ks + length ls < F)%nat ->
  Forall (chunk_ok F n) cs /\ Forall (fun k => (k <= n)%nat) t /\ Forall (fun k => (k < F)%nat) t /\
  (length t < F)%nat /\ (length cs <= length ls)%nat.
Proof.
  induction ls as [|[e s|k] r IH]; intros ks cs t H Hls Hks Hlen; cbn [split_lines] in H.
  - inversion H; subst. split; [constructor|].
    assert (Hr : Forall (fun k => (k <= n)%nat /\ (k < F)%nat) (rev ks)) by (apply Forall_rev; exact Hks).
    split; [apply Forall_impl with (2 := Hr); tauto|]. split; [apply Forall_impl with (2 := Hr); tauto|].
    rewrite rev_length. cbn [length] in *. split; lia.
  - destruct (split_lines r []) as [cs' t'] eqn:E. inversion H; subst.
    pose proof (Forall_inv Hls) as Hl. pose proof (Forall_inv_tail Hls) as Hr. cbn [line_ok] in Hl.
    destruct Hl as [Hnb [Hhd [Hne Hlen']]].
    destruct (IH [] cs' t E Hr) as [Hcs [Ht1 [Ht2 [Ht3 Ht4]]]]; [constructor|cbn [length] in *; lia|].
    assert (Hrk : Forall (fun k => (k <= n)%nat /\ (k < F)%nat) (rev ks)) by (apply Forall_rev; exact Hks).
    split; [|cbn [length] in *; repeat split; auto; lia].
    constructor; [|exact Hcs]. cbn [chunk_ok]. rewrite rev_length.
    split; [apply Forall_impl with (2 := Hrk); tauto|]. split; [exact Hnb|]. split; [exact Hhd|]. split; [exact Hne|].
    split; [apply Forall_impl with (2 := Hrk); tauto|]. cbn [length] in Hlen. split; [lia|exact Hlen'].
  - pose proof (Forall_inv Hls) as Hl. pose proof (Forall_inv_tail Hls) as Hr. cbn [line_ok] in Hl.
    destruct (IH (k :: ks) cs t H Hr) as [Hcs [Ht1 [Ht2 [Ht3 Ht4]]]]; [constructor; assumption|cbn [length] in *; lia|].
    cbn [length]. repeat split; auto.
Qed.

Lemma split_lines_text : forall ls ks, has_text ls = true -> fst (split_lines ls ks) <> [].
Proof.
  induction ls as [|[e s|k] r IH]; intros ks H; cbn [split_lines].
  - discriminate.
  - destruct (split_lines r []). discriminate.
  - apply IH. exact H.
Qed.

(* the first content line *)
Fixpoint first_text (ls : list bline) : option (nat * list N) :=
  match ls with [] => None | Text e s :: _ => Some (e, s) | Blank _ :: r => first_text r end.

Lemma split_lines_first : forall ls ks e s, first_text ls = Some (e, s) ->
  exists ks' cs t, split_lines ls ks = ((ks', e, s) :: cs, t).
Proof.
  induction ls as [|[e0 s0|k] r IH]; intros ks e s H; cbn [first_text split_lines] in *.
  - discriminate.
  - inversion H; subst. destruct (split_lines r []) as [cs t]. eexists; eexists; eexists; reflexivity.
  - apply IH. exact H.
Qed.

Definition line_col0 (n : nat) (l : bline) : Prop :=
  match l with Text e s => n = O -> e = O -> marker_line s = false | Blank _ => True end.
(* the first character after the header line *)
Definition first_char (n : nat) (lines : list bline) : chr := hd0 (flat_map (fun l => render_line n l ++ [LF]) lines).

Lemma split_lines_col0 n : forall ls ks cs t, split_lines ls ks = (cs, t) ->
  Forall (line_col0 n) ls -> Forall (chunk_col0 n) cs.
Proof.
  induction ls as [|[e s|k] r IH]; intros ks cs t H Hls; cbn [split_lines] in H.
  - inversion H; subst. constructor.
  - destruct (split_lines r []) as [cs' t'] eqn:E. inversion H; subst.
    constructor; [exact (Forall_inv Hls)|]. apply (IH [] cs' t E). exact (Forall_inv_tail Hls).
  - apply (IH (k :: ks) cs t H). exact (Forall_inv_tail Hls).
Qed.

Lemma hd0_wbrk_tab X : hd0 X <> 9 -> hd0 (wbrk X) <> 9.
Proof.
  destruct X as [|c r]; [intros _ H; discriminate H|]. intros H. unfold wbrk. cbn [flat_map].
  destruct (N.eqb_spec c 10) as [->|_]; [apply (brk_not_tab brk Hbrk)|exact H].
Qed.

Lemma first_char_chunk F n ck cs t : Forall (chunk_ok F n) (ck :: cs) ->
  first_char n (flat_map chunk_lines (ck :: cs) ++ map Blank t) <> 9 -> hd0 (chunk_text_nolf n ck) <> 9.
Proof.
  intros Hcs Hfc. unfold first_char in Hfc. apply hd0_wbrk_tab in Hfc.
  rewrite render_chunks in Hfc by (apply Forall_impl with (2 := Hcs); intros a Ha; exact (chunk_ok_nb F n a Ha)).
  cbn [flat_map] in Hfc. destruct ck as [[ks e] txt].
  replace (chunk_text n (ks, e, txt)) with (chunk_text_nolf n (ks, e, txt) ++ brk) in Hfc
    by (cbn [chunk_text chunk_text_nolf]; rewrite <- !app_assoc; reflexivity).
  rewrite <- !app_assoc in Hfc. rewrite hd0_app_ne in Hfc; [exact Hfc|]. apply (chunk_nolf_ne F). exact (Forall_inv Hcs).
Qed.

(* (T4) both styles, explicit or auto-detected indentation, any chomping: every list of content lines (of any extra
   indentation, whitespace-only content lines included) and blank lines, with at least one content line, each line
   terminated by a line feed, followed by a less indented line, a document marker (content indentation 0), or the end
   of the input — possibly inside a last line of j <= n spaces, which then is one more empty line ([eof_blank]) *)
Theorem block_scalar_lines_gen : forall (s : sc strin) F literal c (explicit : option nat) (digit_first : bool) (hc : list chr)
    (lines : list bline) (j : nat) (r' : list chr) (n : nat) pz inds,
  si_chars (sc_in s) = wbrk (render_block n literal c explicit digit_first hc lines (EofRest [])) ++ sps j ++ r' ->
  unroll_nb (sc_indents s) (sc_indent s) = (pz, inds) ->
  header_tail hc -> (2 * length hc + 2 < F)%nat ->
  Forall (line_ok F n) lines -> Forall (line_col0 n) lines -> (n = O -> first_char n lines <> 9) ->
  (S (length lines) < F)%nat -> has_text lines = true ->
  ends_after n j r' -> hd0 r' <> 32 -> is_break (hd0 r') = false -> (r' <> [] -> hd0 r' <> 0) ->
  match explicit with
  | Some d => (1 <= d <= 9)%nat /\ N.of_nat n = (if (0 <=? pz)%Z then Z.to_N (pz + Z.of_N (N.of_nat d)) else N.of_nat d)
  | None => Z.to_N (pz + 1) <= N.of_nat n /\ exists txt, first_text lines = Some (O, txt) /\ txt <> []
  end ->
  yields literal (block_value literal c (lines ++ map Blank (eof_blank j r'))) r' (scan_block_scalar str_ops F literal s).
Proof.
  intros s F literal c explicit digit_first hc lines j r' n pz inds Hchars Hun Hhc HFhc Hls Hl0 Hfc Hlen Htext Hj Hr Hrb Hrz Hind.
  destruct (split_lines lines []) as [cs t] eqn:E.
  pose proof (split_lines_spec lines [] cs t E) as Hsp. cbn [rev map app] in Hsp.
  destruct (split_lines_ok F n lines [] cs t E Hls) as [Hcs [Ht1 [Ht2 [Ht3 Ht4]]]]; [constructor|cbn [length]; lia|].
  pose proof (split_lines_col0 n lines [] cs t E Hl0) as Hcs0.
  pose proof (split_lines_text lines [] Htext) as Hne. rewrite E in Hne. cbn [fst] in Hne.
  destruct cs as [|ck cs]; [congruence|].
  assert (Htab : hd0 (chunk_text_nolf n ck) <> 9).
  { destruct n as [|n']; [|apply tab_pos; discriminate].
    apply (first_char_chunk F O ck cs t Hcs). rewrite <- Hsp. apply Hfc. reflexivity. }
  assert (Hft0 := Hind). rewrite Hsp in Hchars |- *.
  apply (block_scalar_chunks s F literal c explicit digit_first hc ck cs t j r' n pz inds); auto.
  - cbn [length] in Ht4. lia.
  - destruct explicit as [d|]; [exact Hind|].
    destruct Hind as [Hpz [txt [Hft Htx]]]. split; [exact Hpz|].
    destruct (split_lines_first lines [] O txt Hft) as [ks' [cs' [t' E']]].
    rewrite E in E'. inversion E'; subst. split; [reflexivity|exact Htx].
Qed.

(* every line is terminated by a line feed; what follows is not a last line of spaces ended by the input *)
Theorem block_scalar_lines : forall (s : sc strin) F literal c (explicit : option nat) (digit_first : bool) (hc : list chr)
    (lines : list bline) (j : nat) (r' : list chr) (n : nat) pz inds,
  si_chars (sc_in s) = wbrk (render_block n literal c explicit digit_first hc lines (EofRest [])) ++ sps j ++ r' ->
  unroll_nb (sc_indents s) (sc_indent s) = (pz, inds) ->
  header_tail hc -> (2 * length hc + 2 < F)%nat ->
  Forall (line_ok F n) lines -> Forall (line_col0 n) lines -> (n = O -> first_char n lines <> 9) ->
  (S (length lines) < F)%nat -> has_text lines = true ->
  ends_after n j r' -> hd0 r' <> 32 -> is_break (hd0 r') = false -> (r' = [] -> j = O) -> (r' <> [] -> hd0 r' <> 0) ->
  match explicit with
  | Some d => (1 <= d <= 9)%nat /\ N.of_nat n = (if (0 <=? pz)%Z then Z.to_N (pz + Z.of_N (N.of_nat d)) else N.of_nat d)
  | None => Z.to_N (pz + 1) <= N.of_nat n /\ exists txt, first_text lines = Some (O, txt) /\ txt <> []
  end ->
  yields literal (block_value literal c lines) r' (scan_block_scalar str_ops F literal s).
Proof.
  intros s F literal c explicit digit_first hc lines j r' n pz inds Hchars Hun Hhc HFhc Hls Hl0 Hfc Hlen Htext Hj Hr Hrb Hj0 Hrz Hind.
  assert (E : eof_blank j r' = []).
  { unfold eof_blank. destruct r' as [|c0 r0]; [|reflexivity]. rewrite (Hj0 eq_refl). reflexivity. }
  rewrite <- (app_nil_r lines) at 1. change (@nil bline) with (map Blank []). rewrite <- E.
  apply (block_scalar_lines_gen s F literal c explicit digit_first hc lines j r' n pz inds); assumption.
Qed.

(* the same without a final line break: the input ends right after the last content line *)
Theorem block_scalar_lines_eof_text : forall (s : sc strin) F literal c (explicit : option nat) (digit_first : bool) (hc : list chr)
    (lines : list bline) (n : nat) pz inds,
  si_chars (sc_in s) = wbrk (render_block n literal c explicit digit_first hc lines EofNone) ->
  unroll_nb (sc_indents s) (sc_indent s) = (pz, inds) ->
  header_tail hc -> (2 * length hc + 2 < F)%nat ->
  Forall (line_ok F n) lines -> Forall (line_col0 n) lines -> (n = O -> first_char n lines <> 9) ->
  (S (length lines) < F)%nat -> has_text lines = true ->
  trailing_blanks lines = O ->
  match explicit with
  | Some d => (1 <= d <= 9)%nat /\ N.of_nat n = (if (0 <=? pz)%Z then Z.to_N (pz + Z.of_N (N.of_nat d)) else N.of_nat d)
  | None => Z.to_N (pz + 1) <= N.of_nat n /\ exists txt, first_text lines = Some (O, txt) /\ txt <> []
  end ->
  yields literal (block_value literal c lines) [] (scan_block_scalar str_ops F literal s).
Proof.
  intros s F literal c explicit digit_first hc lines n pz inds Hchars Hun Hhc HFhc Hls Hl0 Hfc Hlen Htext Htb Hind.
  destruct (split_lines lines []) as [cs t] eqn:E.
  pose proof (split_lines_spec lines [] cs t E) as Hsp. cbn [rev map app] in Hsp.
  destruct (split_lines_ok F n lines [] cs t E Hls) as [Hcs [Ht1 [Ht2 [Ht3 Ht4]]]]; [constructor|cbn [length]; lia|].
  pose proof (split_lines_col0 n lines [] cs t E Hl0) as Hcs0.
  pose proof (split_lines_text lines [] Htext) as Hne. rewrite E in Hne. cbn [fst] in Hne.
  assert (Ht : t = []).
  { rewrite Hsp in Htb. destruct (chunks_trailing cs t Hne) as [Hl _]. rewrite Hl in Htb.
    destruct t; [reflexivity|discriminate]. }
  subst t. cbn [map] in Hsp. rewrite app_nil_r in Hsp.
  destruct (exists_last Hne) as [front [cl Ecs]].
  assert (Htab : hd0 (chunk_text_nolf n (hd cl front)) <> 9).
  { destruct n as [|n']; [|apply tab_pos; discriminate].
    specialize (Hfc eq_refl). rewrite Hsp, Ecs in Hfc. rewrite Ecs in Hcs.
    destruct front as [|x front]; cbn [app hd] in *.
    - rewrite <- (app_nil_r (flat_map chunk_lines [cl])) in Hfc. change (@nil bline) with (map Blank []) in Hfc.
      exact (first_char_chunk F O cl [] [] Hcs Hfc).
    - rewrite <- (app_nil_r (flat_map chunk_lines (x :: front ++ [cl]))) in Hfc. change (@nil bline) with (map Blank []) in Hfc.
      exact (first_char_chunk F O x (front ++ [cl]) [] Hcs Hfc). }
  assert (Hind' : match explicit with
                  | Some d => (1 <= d <= 9)%nat /\ N.of_nat n = (if (0 <=? pz)%Z then Z.to_N (pz + Z.of_N (N.of_nat d)) else N.of_nat d)
                  | None => Z.to_N (pz + 1) <= N.of_nat n /\ (let '(ks, e, txt) := hd cl front in e = O /\ txt <> [])
                  end).
  { destruct explicit as [d|]; [exact Hind|].
    destruct Hind as [Hpz [txt [Hft Htx]]]. split; [exact Hpz|].
    destruct (split_lines_first lines [] O txt Hft) as [ks' [cs' [t' E']]].
    rewrite E in E'. inversion E' as [[Ecs' Et']]. rewrite Ecs in Ecs'.
    destruct front as [|x front]; cbn [app hd] in *.
    - inversion Ecs'; subst. split; [reflexivity|exact Htx].
    - inversion Ecs'; subst. split; [reflexivity|exact Htx]. }
  rewrite Hsp in *. rewrite Ecs in *.
  apply (block_scalar_chunks_eof s F literal c explicit digit_first hc front cl n pz inds); auto.
  rewrite app_length in Ht4. cbn [length] in Ht4. lia.
Qed.

(* the end of the input without a final line break, in general: right after the last content line (which may be a
   line of more than n spaces), or inside a last line of 1 <= j <= n spaces — an empty line that clip drops and keep
   counts.  (A last line [Blank 0] before the end of the input is not a line: that text is the one with a final
   line break and one line less.) *)
Definition last_line_nonempty (lines : list bline) : Prop :=
  match rev lines with Blank O :: _ => False | _ => True end.

Lemma render_block_eof_blank n literal c explicit digit_first hc lines j :
  wbrk (render_block n literal c explicit digit_first hc (lines ++ [Blank j]) EofNone)
  = wbrk (render_block n literal c explicit digit_first hc lines (EofRest [])) ++ sps j ++ [].
Proof.
  unfold render_block. rewrite flat_map_app. cbn [flat_map render_line app]. rewrite ?app_nil_r.
  replace (header literal c explicit digit_first ++ hc ++ flat_map (fun l => LF :: render_line n l) lines ++ LF :: spaces j)
    with ((header literal c explicit digit_first ++ hc ++ flat_map (fun l => LF :: render_line n l) lines ++ [LF]) ++ sps j)
    by (rewrite <- !app_assoc; reflexivity).
  rewrite wbrk_app, wbrk_sps. reflexivity.
Qed.

Lemma has_text_app l1 l2 : has_text (l1 ++ l2) = has_text l1 || has_text l2.
Proof. apply existsb_app. Qed.

Lemma first_text_app l1 l2 : has_text l1 = true -> first_text (l1 ++ l2) = first_text l1.
Proof.
  induction l1 as [|[e s0|k] l1 IH]; intros H; cbn [app first_text]; [discriminate|reflexivity|].
  apply IH. exact H.
Qed.

Lemma first_char_app n l1 l2 : l1 <> [] -> first_char n (l1 ++ l2) = first_char n l1.
Proof.
  intros Hne. unfold first_char. rewrite flat_map_app. apply hd0_app_ne.
  destruct l1 as [|l l1]; [congruence|]. cbn [flat_map]. destruct (render_line n l); discriminate.
Qed.

Theorem block_scalar_lines_eof : forall (s : sc strin) F literal c (explicit : option nat) (digit_first : bool) (hc : list chr)
    (lines : list bline) (n : nat) pz inds,
  si_chars (sc_in s) = wbrk (render_block n literal c explicit digit_first hc lines EofNone) ->
  unroll_nb (sc_indents s) (sc_indent s) = (pz, inds) ->
  header_tail hc -> (2 * length hc + 2 < F)%nat ->
  Forall (line_ok F n) lines -> Forall (line_col0 n) lines -> (n = O -> first_char n lines <> 9) ->
  (S (length lines) < F)%nat -> has_text lines = true ->
  last_line_nonempty lines ->
  match explicit with
  | Some d => (1 <= d <= 9)%nat /\ N.of_nat n = (if (0 <=? pz)%Z then Z.to_N (pz + Z.of_N (N.of_nat d)) else N.of_nat d)
  | None => Z.to_N (pz + 1) <= N.of_nat n /\ exists txt, first_text lines = Some (O, txt) /\ txt <> []
  end ->
  yields literal (block_value literal c lines) [] (scan_block_scalar str_ops F literal s).
Proof.
  intros s F literal c explicit digit_first hc lines n pz inds Hchars Hun Hhc HFhc Hls Hl0 Hfc Hlen Htext Hlast Hind.
  unfold last_line_nonempty in Hlast.
  destruct (rev lines) as [|l rl] eqn:Erev.
  { apply (f_equal (@rev bline)) in Erev. rewrite rev_involutive in Erev. subst lines. discriminate. }
  apply (f_equal (@rev bline)) in Erev. rewrite rev_involutive in Erev. cbn [rev] in Erev.
  destruct l as [e0 s0|j].
  - (* the last line is a content line *)
    apply (block_scalar_lines_eof_text s F literal c explicit digit_first hc lines n pz inds); auto.
    unfold trailing_blanks. rewrite Erev, rev_app_distr. reflexivity.
  - (* the last line holds j >= 1 spaces *)
    destruct j as [|j']; [contradiction|].
    set (l0 := rev rl) in *. subst lines.
    rewrite has_text_app in Htext. cbn [has_text existsb is_text orb] in Htext. rewrite orb_false_r in Htext.
    assert (Hne0 : l0 <> []) by (destruct l0; [discriminate|discriminate]).
    apply Forall_app in Hls. destruct Hls as [Hls Hlj]. apply Forall_app in Hl0. destruct Hl0 as [Hl0 _].
    pose proof (Forall_inv Hlj) as [Hjn HjF]. cbn beta in Hjn, HjF.
    rewrite render_block_eof_blank in Hchars.
    change [Blank (S j')] with (map Blank (eof_blank (S j') [])).
    apply (block_scalar_lines_gen s F literal c explicit digit_first hc l0 (S j') [] n pz inds); auto.
    + intros Hn0. rewrite <- (first_char_app n l0 [Blank (S j')] Hne0). apply Hfc. exact Hn0.
    + rewrite app_length in Hlen. cbn [length] in Hlen. lia.
    + right. left. split; [reflexivity|exact Hjn].
    + intro H. cbv in H. discriminate H.
    + destruct explicit as [d|]; [exact Hind|]. rewrite first_text_app in Hind by exact Htext. exact Hind.
Qed.

(* ------------------------------------------------------------------------------------------ *)
(* scalars without any content line                                                            *)
(* ------------------------------------------------------------------------------------------ *)
Lemma line_after_blank_lines : forall ks j m,
  m_line (mark_after brk m (blank_lines ks ++ sps j)) = m_line m + N.of_nat (length ks).
Proof.
  induction ks as [|k ks IH]; intros j m.
  - cbn [blank_lines flat_map app length N.of_nat]. rewrite mark_after_spaces. cbn [adv m_line]. lia.
  - cbn [blank_lines flat_map]. fold (blank_lines ks). rewrite <- app_assoc, mark_after_app, mark_after_blank_line, IH.
    rewrite (line_brk brk Hbrk). cbn [adv m_line length]. lia.
Qed.

Lemma block_value_blanks literal c l :
  block_value literal c (map Blank l) = match c with CKeep => lfs (length l) | _ => [] end.
Proof.
  unfold block_value. replace (has_text (map Blank l)) with false.
  - rewrite map_length. reflexivity.
  - induction l; [reflexivity|assumption].
Qed.

(* the lines of a content-less scalar: the blank lines, and the last line when the input ends inside it *)
Definition empty_lines (ks : list nat) (j : nat) (r' : list chr) : list bline :=
  map Blank (ks ++ match r' with [] => (match j with O => [] | S _ => [j] end) | _ => [] end).

Theorem block_scalar_empty : forall (s : sc strin) F literal c (explicit : option nat) (digit_first : bool)
    (hc : list chr) (ks : list nat) (j : nat) (r' : list chr) pz inds,
  si_chars (sc_in s) = header literal c explicit digit_first ++ hc ++ brk ++ blank_lines ks ++ sps j ++ r' ->
  unroll_nb (sc_indents s) (sc_indent s) = (pz, inds) ->
  header_tail hc -> (2 * length hc + 2 < F)%nat ->
  Forall (fun k => (k < F)%nat) (j :: ks) -> (S (length ks) < F)%nat ->
  hd0 r' <> 32 -> is_break (hd0 r') = false -> hd0 (blank_lines ks ++ sps j ++ r') <> 9 ->
  (* the end of the input, a line that belongs to an enclosing collection, or a document marker at column 0 *)
  (r' = [] \/ (hd0 r' <> 0 /\ (Z.of_nat j <= pz)%Z) \/ (j = O /\ doc_ind_b r' = true)) ->
  match explicit with
  | Some d => (1 <= d <= 9)%nat /\
              let n := if (0 <=? pz)%Z then Z.to_N (pz + Z.of_N (N.of_nat d)) else N.of_nat d in
              Forall (fun k => N.of_nat k <= n) (j :: ks)
  | None => True
  end ->
  yields literal (block_value literal c (empty_lines ks j r')) r' (scan_block_scalar str_ops F literal s).
Proof.
  intros s F literal c explicit digit_first hc ks j r' pz inds Hchars Hun Hhc HFhc HF HFl Hr Hrb Htab Hend Hind.
  unfold empty_lines. rewrite block_value_blanks.
  apply (scan_header _ s F literal c explicit digit_first hc (blank_lines ks ++ sps j ++ r') pz inds); auto.
  { apply follow_blank_lines. apply follow_sps. apply (follow_nb brk). exact Hrb. }
  { destruct explicit; tauto. }
  intros lk1 mh Hlk1 Hmh Hline.
  set (s1 := set_indent pz inds s).
  assert (Hs1 : forall cs lk m w, sc_indent (mv s1 cs lk m w) = pz) by reflexivity.
  assert (Hmk : forall cs lk m w, sc_mark (mv s1 cs lk m w) = m) by reflexivity.
  unfold bs_main. pstep ltac:(apply get_mv). rewrite !Hs1.
  set (mend := mark_after brk mh (blank_lines ks ++ sps j)).
  assert (Hcolend : m_col mend = N.of_nat j) by (apply col_after_blank_lines; exact Hmh).
  assert (Hlineend : m_line mend = m_line mh + N.of_nat (length ks)) by apply line_after_blank_lines.
  match goal with |- yields _ _ _ (bind ?ib ?k ?st) =>
    assert (Hib : exists lk2 indent, lk2 <> O /\ (r' <> [] -> (Z.of_nat j <= pz)%Z -> N.of_nat j < indent) /\
              ib st = Ok ((indent, N.of_nat (length ks)), mv s1 r' lk2 mend true))
  end.
  { destruct explicit as [d|]; cbn [inc_of].
    - destruct Hind as [Hd9 Hks]. cbn zeta in Hks.
      set (n := if (0 <=? pz)%Z then Z.to_N (pz + Z.of_N (N.of_nat d)) else N.of_nat d) in *.
      destruct (N.ltb_spec 0 (N.of_nat d)) as [_|Hbad]; [|lia].
      assert (Hn0 : n <> 0) by (subst n; destruct (0 <=? pz)%Z eqn:E; [apply Z.leb_le in E|]; lia).
      destruct (N.eqb_spec n 0) as [Hbad|_]; [contradiction|].
      pose proof (Forall_inv Hks) as Hj. pose proof (Forall_inv_tail Hks) as Hks'.
      assert (Hjn : r' <> [] -> (Z.of_nat j <= pz)%Z -> N.of_nat j < n).
      { intros Hne Hjp. subst n.
        destruct (0 <=? pz)%Z eqn:E; [apply Z.leb_le in E|apply Z.leb_gt in E]; lia. }
      clearbody n.
      destruct (skip_block_scalar_indent_spec ks j r' F F n 0 s1 lk1 mh) as [lk2 [Hle2 [Hne2 Hs]]]; auto.
      { inversion HF; subst. lia. }
      exists lk2, n. split; [exact Hne2|]. split; [exact Hjn|].
      mstep ltac:(exact Hs). rewrite N.add_0_l.
      cbv beta in Hj. replace (Nat.min j (N.to_nat n)) with j by lia. rewrite Nat.sub_diag. reflexivity.
    - change (0 <? 0) with false. cbv match. change (0 =? 0) with true. cbv match.
      destruct (skip_first_line_indent_spec ks j r' F F 0 0 s1 lk1 mh) as [lk2 [Hle2 [Hne2 Hs]]]; auto.
      { inversion HF; subst. lia. }
      eexists lk2, _. split; [exact Hne2|]. split; [|mstep ltac:(exact Hs); cbn [fst snd]; rewrite N.add_0_l; reflexivity].
      intros Hne Hjp. destruct (0 <? pz)%Z; lia. }
  destruct Hib as [lk2 [indent [Hne2 [Hind2 Hib]]]].
  pstep ltac:(exact Hib).
  pstep ltac:(apply next_is_mv). pstep ltac:(apply get_mv). rewrite !Hmk, !Hs1.
  destruct Hend as [->|Hend].
  - (* the end of the input *)
    change (is_z (hd0 [])) with true. cbv match.
    rewrite Hcolend, Hlineend, Hline.
    destruct (N.eqb_spec (m_line (sc_mark s) + 1 + N.of_nat (length ks)) (m_line (sc_mark s))) as [E|_]; [lia|].
    match goal with |- yields _ ?v _ (ret (_, TScalar _ (nls ?k [])) _) => assert (Ev : nls k [] = v) end.
    { rewrite app_length. destruct c; cbn [to_model]; try reflexivity.
      destruct j as [|j]; cbn [length].
      + change (0 <? N.of_nat 0) with false. rewrite N.add_0_r, Nat.add_0_r, nls_repeat, Nat2N.id, app_nil_r. reflexivity.
      + destruct (N.ltb_spec 0 (N.of_nat (S j))) as [_|Hbad]; [|lia].
        rewrite nls_repeat, app_nil_r. unfold lfs. f_equal. lia. }
    rewrite Ev. unfold yields. eexists. eexists. split; reflexivity.
  - assert (Hnz : hd0 r' <> 0).
    { destruct Hend as [[H _]|[_ H]]; [exact H|]. apply doc_ind_not_z in H. intro E. rewrite E in H. discriminate H. }
    assert (Hz : is_z (hd0 r') = false) by (apply N.eqb_neq; exact Hnz).
    rewrite Hz. cbv match.
    assert (Hne : r' <> []) by (intros ->; apply Hnz; reflexivity).
    rewrite Hcolend.
    (* the wrong-indentation test: a document marker at column 0 passes it *)
    match goal with |- yields _ _ _ (bind ?wr ?k ?st) =>
      assert (Hwr : exists lk3, lk3 <> O /\ wr st = Ok (false, mv s1 r' lk3 mend true)) end.
    { destruct Hend as [[_ Hjp]|[Hj0 Hde]].
      - exists lk2. split; [exact Hne2|].
        destruct (Z.ltb_spec pz (Z.of_N (N.of_nat j))) as [Hbad|_]; [lia|]. rewrite andb_false_r. reflexivity.
      - subst j. destruct ((N.of_nat 0 <? indent) && (pz <? Z.of_N (N.of_nat 0))%Z).
        + exists (Nat.max lk2 4). split; [lia|].
          mstep ltac:(apply look_mv). mstep ltac:(apply next_is_document_indicator_mv; lia). rewrite Hde. reflexivity.
        + exists lk2. split; [exact Hne2|reflexivity]. }
    destruct Hwr as [lk3 [Hne3 Hwr]]. pstep ltac:(exact Hwr).
    pstep ltac:(apply get_mv). rewrite !Hmk.
    assert (HFS : exists F', F = S F') by (destruct F; [lia|eexists; reflexivity]).
    destruct HFS as [F' HFS].
    replace (bs_loop F literal indent F) with (bs_loop F literal indent (S F')) by (rewrite HFS; reflexivity).
    assert (Hloop : exists lk4, bs_loop F literal indent (S F') [] 0 (N.of_nat (length ks)) false (mv s1 r' lk3 mend true)
                                = Ok (([], 0, N.of_nat (length ks)), mv s1 r' lk4 mend true)).
    { cbn [bs_loop]. destruct (N.eqb_spec (N.of_nat j) indent) as [E|Hneq].
      - (* column = indentation: only at a document marker, with content indentation 0 *)
        destruct Hend as [[_ Hjp]|[Hj0 Hde]]; [specialize (Hind2 Hne Hjp); lia|]. subst j.
        exists (Nat.max lk3 4).
        mstep ltac:(apply col_mv). mstep ltac:(apply next_is_mv). rewrite Hcolend, Hz, <- E.
        change (N.of_nat 0 =? N.of_nat 0) with true. cbn [negb orb]. change (N.of_nat 0 =? 0) with true. cbv match.
        mstep ltac:(mstep ltac:(apply look_mv); apply next_is_document_indicator_mv; lia). rewrite Hde. reflexivity.
      - exists lk3. mstep ltac:(apply col_mv). mstep ltac:(apply next_is_mv). rewrite Hcolend.
        destruct (N.eqb_spec (N.of_nat j) indent) as [E|_]; [contradiction|]. reflexivity. }
    destruct Hloop as [lk4 Hloop]. pstep ltac:(exact Hloop).
    unfold bs_finish.
    pstep ltac:(apply next_is_mv). pstep ltac:(apply col_mv). pstep ltac:(apply mark_mv).
    rewrite Hz. change (0 =? 0) with true. cbn [andb negb].
    match goal with |- yields _ ?v _ (ret (_, TScalar _ (rev ?a)) _) => assert (Ev : rev a = v) end.
    { destruct r' as [|c0 r0]; [congruence|]. rewrite app_nil_r.
      destruct c; cbn [to_model]; try reflexivity.
      rewrite nls_of_nat. reflexivity. }
    rewrite Ev. unfold yields. eexists. eexists. split; reflexivity.
Qed.

(* ------------------------------------------------------------------------------------------ *)
(* the input ends on the header line: "|", ">2-  # c" <eof> — the empty scalar                 *)
(* ------------------------------------------------------------------------------------------ *)
Lemma sbsi_eof : forall F fuel indent breaks s lk m w, (0 < F)%nat -> (0 < fuel)%nat ->
  exists lk', lk' <> O /\
  skip_block_scalar_indent str_ops F fuel indent breaks (mv s [] lk m w) = Ok (breaks, mv s [] lk' m w).
Proof.
  intros F fuel indent breaks s lk m w HF Hfuel. destruct fuel as [|fuel]; [lia|]. rewrite sbsi_eq.
  change (Nat.ltb (bufmaxlen str_ops) 2) with false. cbv iota.
  assert (Hnil : hd0 (@nil chr) <> 32) by discriminate.
  assert (Hss : forall cb lk0, (cb = true -> lk0 <> O) ->
            skip_spaces_to str_ops F indent cb (mv s [] lk0 m w) = Ok (tt, mv s [] lk0 m w)).
  { intros cb lk0 Hcb. pose proof (skip_spaces_to_spec 0 [] F indent cb s lk0 m w 0 Hnil HF Hcb eq_refl) as Hs.
    rewrite adv_0 in Hs. exact Hs. }
  assert (Hsp : exists lk', lk' <> O /\ sbsi_sp F indent (mv s [] lk m w) = Ok (tt, mv s [] lk' m w)).
  { unfold sbsi_sp. change (bufmaxlen str_ops) with 128%nat. destruct (indent <? N.of_nat (128 - 2)).
    - exists (Nat.max lk 128). split; [lia|]. mstep ltac:(apply look_mv). apply Hss. discriminate.
    - exists (Nat.max (Nat.max lk 128) 2). split; [lia|]. destruct F as [|F']; [lia|]. cbn [wide].
      change (bufmaxlen str_ops) with 128%nat.
      mstep ltac:(mstep ltac:(apply look_mv); mstep ltac:(apply Hss; lia);
                  mstep ltac:(apply col_mv); mstep ltac:(apply buf_is_empty_mv);
                  destruct (Nat.eqb_spec (Nat.max lk 128) 0) as [E|_]; [lia|]; cbv iota;
                  mstep ltac:(apply peek_mv); cbn [negb andb]; rewrite orb_true_r; reflexivity).
      apply look_mv. }
  destruct Hsp as [lk' [Hne Hsp]]. exists lk'. split; [exact Hne|].
  mstep ltac:(reflexivity). mstep ltac:(exact Hsp). mstep ltac:(apply next_is_mv). reflexivity.
Qed.

Theorem block_scalar_header_eof : forall (s : sc strin) F literal c (explicit : option nat) (digit_first : bool) (hc : list chr) pz inds,
  si_chars (sc_in s) = header literal c explicit digit_first ++ hc ->
  unroll_nb (sc_indents s) (sc_indent s) = (pz, inds) ->
  header_tail hc -> (2 * length hc + 2 < F)%nat ->
  match explicit with Some d => (1 <= d <= 9)%nat | None => True end ->
  yields literal [] [] (scan_block_scalar str_ops F literal s).
Proof.
  intros s F literal c explicit digit_first hc pz inds Hchars Hun Hhc HFhc Hd.
  apply (scan_header_line _ s F literal c explicit digit_first hc [] pz inds); auto.
  { rewrite app_nil_r. exact Hchars. }
  intros lk1 mh w1 Hlk1 Hline.
  set (s1 := set_indent pz inds s).
  assert (Hmk : forall cs lk m w, sc_mark (mv s1 cs lk m w) = m) by reflexivity.
  change (is_break (hd0 [])) with false. cbv match.
  pstep ltac:(reflexivity). pstep ltac:(apply look_ch_mv). change (hd0 [] =? 9) with false. cbv match.
  unfold bs_main. pstep ltac:(apply get_mv).
  assert (HF0 : (0 < F)%nat) by lia.
  match goal with |- yields _ _ _ (bind ?ib ?k ?st) =>
    assert (Hib : exists lk2 r, ib st = Ok (r, mv s1 [] lk2 mh w1))
  end.
  { match goal with |- context [if ?x =? 0 then _ else _] => destruct (x =? 0) end.
    - destruct F as [|F']; [lia|]. rewrite sfli_eq.
      eexists. eexists.
      mstep ltac:(mstep ltac:(apply (sfl_sp_spec 0 [] (S F') s1 (Nat.max lk1 1) mh w1); [discriminate|lia]);
                  rewrite adv_0; mstep ltac:(apply col_mv); mstep ltac:(apply next_is_mv); reflexivity).
      reflexivity.
    - match goal with |- context [skip_block_scalar_indent str_ops F F ?i 0] =>
        destruct (sbsi_eof F F i 0 s1 (Nat.max lk1 1) mh w1 HF0 HF0) as [lk2 [_ Hs]] end.
      eexists. eexists. mstep ltac:(exact Hs). reflexivity. }
  destruct Hib as [lk2 [[indent tbreaks] Hib]].
  pstep ltac:(exact Hib).
  pstep ltac:(apply next_is_mv). pstep ltac:(apply get_mv). rewrite !Hmk.
  change (is_z (hd0 [])) with true. cbv match. rewrite Hline, N.eqb_refl.
  unfold yields. eexists. eexists. split; [destruct c; reflexivity|reflexivity].
Qed.

End Brk.

(* ------------------------------------------------------------------------------------------ *)
(* the three break styles of the specification ([with_breaks]: 0 = LF, 1 = CR LF, 2 = CR)       *)
(* ------------------------------------------------------------------------------------------ *)
Definition kbrk (k : N) : list chr := if k =? 1 then [13; 10] else if k =? 2 then [13] else [10].
Lemma kbrk_style k : break_style (kbrk k).
Proof. unfold kbrk, break_style. destruct (k =? 1); [right; left; reflexivity|]. destruct (k =? 2); [right; right|left]; reflexivity. Qed.
Lemma with_breaks_wbrk k t : with_breaks k t = wbrk (kbrk k) t.
Proof. reflexivity. Qed.
Lemma with_breaks_lf t : with_breaks 0 t = t.
Proof. induction t as [|c t IH]; [reflexivity|]. unfold with_breaks in *. cbn [flat_map]. rewrite IH. destruct (c =? 10) eqn:E; [apply N.eqb_eq in E; subst|]; reflexivity. Qed.

(* T4 for every break style: the text is the rendering of the specification with its line feeds replaced *)
Theorem block_scalar_lines_k : forall k (s : sc strin) F literal c (explicit : option nat) (digit_first : bool) (hc : list chr)
    (lines : list bline) (j : nat) (r' : list chr) (n : nat) pz inds,
  si_chars (sc_in s) = with_breaks k (render_block n literal c explicit digit_first hc lines (EofRest [])) ++ sps j ++ r' ->
  unroll_nb (sc_indents s) (sc_indent s) = (pz, inds) ->
  header_tail hc -> (2 * length hc + 2 < F)%nat ->
  Forall (line_ok F n) lines -> Forall (line_col0 n) lines -> (n = O -> first_char n lines <> 9) ->
  (S (length lines) < F)%nat -> has_text lines = true ->
  ends_after n j r' -> hd0 r' <> 32 -> is_break (hd0 r') = false -> (r' = [] -> j = O) -> (r' <> [] -> hd0 r' <> 0) ->
  match explicit with
  | Some d => (1 <= d <= 9)%nat /\ N.of_nat n = (if (0 <=? pz)%Z then Z.to_N (pz + Z.of_N (N.of_nat d)) else N.of_nat d)
  | None => Z.to_N (pz + 1) <= N.of_nat n /\ exists txt, first_text lines = Some (O, txt) /\ txt <> []
  end ->
  yields literal (block_value literal c lines) r' (scan_block_scalar str_ops F literal s).
Proof. intros k. exact (block_scalar_lines (kbrk k) (kbrk_style k)). Qed.

Theorem block_scalar_lines_eof_k : forall k (s : sc strin) F literal c (explicit : option nat) (digit_first : bool) (hc : list chr)
    (lines : list bline) (n : nat) pz inds,
  si_chars (sc_in s) = with_breaks k (render_block n literal c explicit digit_first hc lines EofNone) ->
  unroll_nb (sc_indents s) (sc_indent s) = (pz, inds) ->
  header_tail hc -> (2 * length hc + 2 < F)%nat ->
  Forall (line_ok F n) lines -> Forall (line_col0 n) lines -> (n = O -> first_char n lines <> 9) ->
  (S (length lines) < F)%nat -> has_text lines = true ->
  last_line_nonempty lines ->
  match explicit with
  | Some d => (1 <= d <= 9)%nat /\ N.of_nat n = (if (0 <=? pz)%Z then Z.to_N (pz + Z.of_N (N.of_nat d)) else N.of_nat d)
  | None => Z.to_N (pz + 1) <= N.of_nat n /\ exists txt, first_text lines = Some (O, txt) /\ txt <> []
  end ->
  yields literal (block_value literal c lines) [] (scan_block_scalar str_ops F literal s).
Proof. intros k. exact (block_scalar_lines_eof (kbrk k) (kbrk_style k)). Qed.

Theorem block_scalar_empty_k : forall k (s : sc strin) F literal c (explicit : option nat) (digit_first : bool)
    (hc : list chr) (ks : list nat) (j : nat) (r' : list chr) pz inds,
  si_chars (sc_in s) = header literal c explicit digit_first ++ hc ++ kbrk k ++ blank_lines (kbrk k) ks ++ sps j ++ r' ->
  unroll_nb (sc_indents s) (sc_indent s) = (pz, inds) ->
  header_tail hc -> (2 * length hc + 2 < F)%nat ->
  Forall (fun k => (k < F)%nat) (j :: ks) -> (S (length ks) < F)%nat ->
  hd0 r' <> 32 -> is_break (hd0 r') = false -> hd0 (blank_lines (kbrk k) ks ++ sps j ++ r') <> 9 ->
  (r' = [] \/ (hd0 r' <> 0 /\ (Z.of_nat j <= pz)%Z) \/ (j = O /\ doc_ind_b r' = true)) ->
  match explicit with
  | Some d => (1 <= d <= 9)%nat /\
              let n := if (0 <=? pz)%Z then Z.to_N (pz + Z.of_N (N.of_nat d)) else N.of_nat d in
              Forall (fun k => N.of_nat k <= n) (j :: ks)
  | None => True
  end ->
  yields literal (block_value literal c (empty_lines ks j r')) r' (scan_block_scalar str_ops F literal s).
Proof. intros k. exact (block_scalar_empty (kbrk k) (kbrk_style k)). Qed.

(* ========================================================================================== *)
(* Part 5: the complete statement, examples on the whole pipeline, refutation witnesses         *)
(* ========================================================================================== *)
Require Import SFetch Pipe SBuf Drivers.
From Coq Require Import String.
Local Open Scope N_scope.
Local Open Scope list_scope.

(* the block scalars among the events of a run, and whether the run ended without an error *)
Definition block_scalars (r : list (event * span) * pend) : list (style * list N) * bool :=
  (flat_map (fun ev => match fst ev with
                       | EScalar v Literal _ _ => [(Literal, v)]
                       | EScalar v Folded _ _ => [(Folded, v)]
                       | _ => []
                       end) (fst r),
   match snd r with PDone => true | _ => false end).

Definition case_style (b : bcase) : style := if bc_literal b then Literal else Folded.
Definition expected (b : bcase) : list (style * list N) * bool := ([(case_style b, case_value b)], true).

(* a case of the specification on which the model pipeline (string input and buffered inputs of capacity 8 and 16)
   delivers exactly the specified scalar *)
Definition agrees (b : bcase) : Prop :=
  case_ok b = true /\
  block_scalars (run_str (case_text b)) = expected b /\
  block_scalars (run_buf 8 (case_text b)) = expected b /\
  block_scalars (run_buf 16 (case_text b)) = expected b.

Definition mkcase (literal : bool) (c : chomp) (explicit : option nat) (parent : option nat) (prefix hc : list N)
           (raw : list rline) (eof : eof_shape) : bcase :=
  {| bc_literal := literal; bc_chomp := c; bc_explicit := explicit; bc_digit_first := false; bc_parent := parent;
     bc_prefix := prefix; bc_hc := hc; bc_raw := raw; bc_eof := eof; bc_brk := 0 |}.

(* contexts: the text in front of the indicator and the indentation of the parent collection *)
Inductive outer : list N -> nat -> Prop :=
| outer_top p : outer (spaces p) p                                                   (* a collection at column p *)
| outer_map pre p q : outer pre p -> (p < q)%nat -> outer (pre ++ L "k:/" ++ spaces q) q   (* value on the next line *)
| outer_seq_line pre p q : outer pre p -> (p < q)%nat -> outer (pre ++ L "-/" ++ spaces q) q
| outer_seq_inline pre p : outer pre p -> outer (pre ++ L "- ") (p + 2).
Inductive ctx : option nat -> list N -> Prop :=
| ctx_bare : ctx None []
| ctx_doc : ctx None (L "--- ")
| ctx_map pre p : outer pre p -> ctx (Some p) (pre ++ L "k: ")
| ctx_seq pre p : outer pre p -> ctx (Some p) (pre ++ L "- ").

Definition first_block_scalar (toks : list token) : option (style * list N) :=
  hd_error (flat_map (fun t => match snd t with
                               | TScalar Literal v => [(Literal, v)]
                               | TScalar Folded v => [(Folded, v)]
                               | _ => []
                               end) toks).
Definition scan_buf (cap : nat) (s : list N) : list token * scan_end :=
  let F := (2 * List.length s + 10)%nat in
  scan_all (buf_ops cap) F (4 * F + 20) (init_sc {| b_buf := []; b_rest := s |}) [].

(* The complete statement of C05 on the model: every case of the specification (all line lists, both styles, every
   chomping, explicit / auto-detected indentation, header comment, every end shape, every line-break style) in every
   context, on the string input and on every buffered input (the wide-indent path included), scans to the
   specified scalar. *)
Definition C05_full : Prop :=
  forall b, case_ok b = true -> ctx (bc_parent b) (bc_prefix b) ->
    first_block_scalar (fst (scan_str (case_text b))) = Some (case_style b, case_value b) /\
    forall cap, (8 <= cap)%nat -> first_block_scalar (fst (scan_buf cap (case_text b))) = Some (case_style b, case_value b).

(* It does not hold of the faithful model.  One class of inputs is left (known_findings_c05.jsonl,
   top-level-column-0-content-starts-with-tab): a top-level scalar with auto-detected indentation whose first line
   starts with a tab at column 0.  The content indentation is 0 and the tab is content (l-nb-literal-text(0) = s-indent(0)
   nb-char+), but scan_block_scalar rejects a tab right behind the header line break before it knows the indentation
   ("a block scalar content cannot start with a tab").  The same line one line further down is accepted. *)
Definition witness_tab : bcase := mkcase true CClip None None [] [] [(O, [9; 120])] EofNewline.

Lemma witness_tab_fails :
  case_ok witness_tab = true /\ case_text witness_tab = [124; 10; 9; 120; 10] /\ case_value witness_tab = [9; 120; 10] /\
  first_block_scalar (fst (scan_str (case_text witness_tab))) = None /\
  (exists m, snd (scan_str (case_text witness_tab)) = SError 82 m).
Proof. vm_compute. repeat split. eexists. reflexivity. Qed.

(* one line further down the same content is accepted: "|\n\n\tx\n" *)
Definition witness_tab_second_line : bcase := mkcase true CClip None None [] [] [(O, []); (O, [9; 120])] EofNewline.
Lemma witness_tab_second_line_ok : agrees witness_tab_second_line /\ case_value witness_tab_second_line = [10; 9; 120; 10].
Proof. vm_compute. repeat split. Qed.

Lemma C05_full_is_refuted : ~ C05_full.
Proof.
  intros H. destruct (H witness_tab eq_refl ctx_bare) as [H1 _].
  destruct witness_tab_fails as [_ [_ [_ [H2 _]]]]. rewrite H2 in H1. discriminate H1.
Qed.

(* The witnesses of the three classes that refuted [C05_full] before the repairs 42046c7 and 001a921 of /repo: the
   model pipeline now delivers the specified value on them (string input, buffered inputs of capacity 8 and 16). *)
Definition former_witness_clip_eof : bcase := mkcase true CClip None None [] [] [R 1 "a"; R 1 ""] EofNone.
Definition former_witness_keep_eof : bcase := mkcase true CKeep None (Some O) (L "k: ") [] [R 2 "a"; R 1 ""] EofNone.
Definition former_witness_doc_start : bcase := mkcase true CClip None None [] [] [R 0 "a"] (EofRest (L "---/b/")).

Lemma former_witness_clip_eof_ok :
  agrees former_witness_clip_eof /\ case_text former_witness_clip_eof = L "|/ a/ " /\ case_value former_witness_clip_eof = L "a/".
Proof. vm_compute. repeat split. Qed.
Lemma former_witness_keep_eof_ok :
  agrees former_witness_keep_eof /\ case_text former_witness_keep_eof = L "k: |+/  a/ " /\ case_value former_witness_keep_eof = L "a//".
Proof. vm_compute. repeat split. Qed.
Lemma former_witness_doc_start_ok :
  agrees former_witness_doc_start /\ case_text former_witness_doc_start = L "|/a/---/b/" /\ case_value former_witness_doc_start = L "a/".
Proof. vm_compute. repeat split. Qed.
