From Coq Require Import List NArith ZArith Bool Arith Lia.
Import ListNotations.
Require Import Parser SBase SPrim SDir SScalar SFetch Pipe Drivers TokenGrammar FlowText BlockText ScanFlowProofs ScanBlockProofs EmitterRoundTripDefs EmitterRoundTripScan.
Open Scope N_scope.
Open Scope mon_scope.

#[local] Arguments N.add : simpl never.
#[local] Arguments N.sub : simpl never.
#[local] Arguments N.mul : simpl never.
#[local] Arguments N.ltb : simpl nomatch.
#[local] Arguments N.leb : simpl nomatch.
#[local] Arguments Z.of_N : simpl never.
#[local] Arguments Z.ltb : simpl never.
#[local] Arguments Z.leb : simpl never.
#[local] Arguments Z.eqb : simpl never.
#[local] Arguments Z.add : simpl never.
#[local] Arguments bind {I A B} m f s /.
#[local] Arguments ret {I A} a s /.
#[local] Arguments get {I} s /.
#[local] Arguments put {I} s _ /.
#[local] Arguments modify {I} f s /.
#[local] Arguments gets {I A} f s /.
#[local] Arguments fail {I A} site m _ /.
#[local] Arguments upd {I} s i m t /.
#[local] Arguments set_in {I} i s /.
#[local] Arguments set_mark {I} m s /.
#[local] Arguments set_tokens {I} t s /.
#[local] Arguments set_flags {I} s ss se adj ska ta lws /.
#[local] Arguments set_ska {I} b s /.
#[local] Arguments set_lws {I} b s /.
#[local] Arguments set_adj {I} n s /.
#[local] Arguments set_ta {I} b s /.
#[local] Arguments set_ss {I} b s /.
#[local] Arguments set_se {I} b s /.
#[local] Arguments set_struct {I} s sks ind inds fl tp ifms /.
#[local] Arguments set_sks {I} l s /.
#[local] Arguments set_indent {I} z l s /.
#[local] Arguments set_fl {I} n s /.
#[local] Arguments set_tp {I} n s /.
#[local] Arguments set_ifms {I} l s /.
#[local] Arguments skip_to_next_token : simpl never.
#[local] Arguments stale_simple_keys : simpl never.
#[local] Arguments plain_chunk : simpl never.
#[local] Arguments plain_blanks : simpl never.
#[local] Arguments scan_plain_scalar : simpl never.
#[local] Arguments fetch_stream_start : simpl never.
#[local] Arguments fetch_stream_end : simpl never.
#[local] Arguments fetch_directive : simpl never.
#[local] Arguments fetch_document_indicator : simpl never.
#[local] Arguments fetch_flow_collection_start : simpl never.
#[local] Arguments fetch_flow_collection_end : simpl never.
#[local] Arguments fetch_flow_entry : simpl never.
#[local] Arguments fetch_block_entry : simpl never.
#[local] Arguments fetch_key : simpl never.
#[local] Arguments fetch_value : simpl never.
#[local] Arguments fetch_flow_value : simpl never.
#[local] Arguments fetch_anchor : simpl never.
#[local] Arguments fetch_tag : simpl never.
#[local] Arguments fetch_block_scalar : simpl never.
#[local] Arguments fetch_flow_scalar : simpl never.
#[local] Arguments fetch_plain_scalar : simpl never.
#[local] Arguments fetch_next_token : simpl never.
#[local] Arguments fetch_more_tokens : simpl never.
#[local] Arguments next_token : simpl never.
#[local] Arguments scan_all : simpl never.
#[local] Arguments fnt_rest : simpl never.
#[local] Arguments skip_ws_to_eol : simpl never.
#[local] Arguments insert_token : simpl never.
#[local] Arguments need_comp : simpl never.
#[local] Arguments unroll_indent : simpl never.
#[local] Arguments roll_indent : simpl never.
#[local] Arguments roll_one_col_indent : simpl never.
#[local] Arguments unroll_non_block_indents : simpl never.
Ltac fin := unfold mkb, mkm; repeat (f_equal; try lia).
Ltac nm := unfold adv, nlm; cbn [m_index m_line m_col].
Tactic Notation "erw_b" uconstr(E) :=
  let H := fresh "E" in epose proof E as H; unfold mkb, mkm, be_tok, key_tok, newkey, lvl, nbl, staled, unposs in H; unfold unposs; erewrite H; clear H.
Ltac rw_b E := let H := fresh "E" in pose proof E as H; unfold mkb, mkm, be_tok, key_tok, newkey, lvl, nbl, staled, unposs in H; unfold unposs; rewrite H; clear H.

#[local] Arguments save_simple_key : simpl never.

(* C09 — the last-element induction of Proofs/EmitterRoundTripScan.v: block sequences. *)
Lemma tailL_cons {A} (f fl : nat -> A -> str) c y l : l <> [] -> tailL f fl c (y :: l) = f c y ++ spaces c ++ tailL f fl c l.
Proof. destruct l; [congruence|reflexivity]. Qed.

Lemma brl_first c n inl : bwf inl n = true -> nobi n = true -> exists x cs, brl c n = x :: cs /\ (x = 45 \/ wch x = true).
Proof.
  intros H Hb. pose proof (brender_brl n inl c H Hb) as E.
  destruct (brender_first c n (match inl return bwf inl n = true -> _ with true => fun h => or_introl h | false => fun h => or_intror h end H))
    as (x & cs & E2 & Hx).
  rewrite E in E2. destruct (brl c n) as [|y r].
  - cbn [app] in E2. injection E2 as <- _. destruct Hx as [Hx|Hx]; discriminate.
  - cbn [app] in E2. injection E2 as -> _. eauto.
Qed.

(* the state behind the "-" of the last item x of a sequence at column c *)
Definition after_dash_l (s : sc strin) (x : bnode) (c : nat) (cols : list N) : Prop :=
  match x with
  | BW _ | BS None _ | BM None _ => at_tok s (brl (c + 2) x) (c + 2) (N.of_nat c :: cols)
  | BS (Some d) _ | BM (Some d) _ => at_below s (lead c x ++ brl (c + 1 + d) x) (N.of_nat c :: cols)
  | BI _ => False
  end.

Lemma dash_item_l F s x c ext base opens :
  reach s (item_textL c x) c (ext ++ base) -> bwf true x = true -> nobi x = true ->
  Forall (fun e => (Z.of_nat c < Z.of_N e)%Z) ext -> joins opens c base -> (c + 2 <= F)%nat ->
  exists toks s', delivers F s toks s' /\ map snd toks = dash_toks (length ext) opens /\
                  after_dash_l s' x c (match joined opens c base with _ :: r => r | [] => [] end) /\
                  exists r, joined opens c base = N.of_nat c :: r.
Proof.
  intros Hat Hwf Hb Hext Hj HF. destruct (joined_cons opens c base Hj) as (r0 & Ej).
  unfold item_textL in Hat.
  assert (Hsp : lead c x = [32] ->
            exists toks s', delivers F s toks s' /\ map snd toks = dash_toks (length ext) opens /\
                            at_tok s' (brl (child_col c x) x) (c + 2) (joined opens c base)).
  { intros El. rewrite El in Hat. cbn [app] in Hat.
    destruct (brl_first (child_col c x) x true Hwf Hb) as (x0 & cs0 & E0 & Hx0).
    destruct (first_char_facts x0 Hx0) as (H1 & H2 & H3).
    rewrite E0 in Hat |- *.
    exact (dash_sp F s x0 cs0 c ext base opens Hat Hext Hj H1 H2 H3 HF). }
  rewrite Ej. cbn [after_dash_l].
  destruct x as [w|[d|] items|[d|] pairs|items]; cbn [lead child_col after_dash_l app] in *; [| | | | |discriminate].
  - destruct (Hsp eq_refl) as (toks & s' & H1 & H2 & H3).
    exists toks, s'. rewrite Ej in H3. repeat split; try assumption. eauto.
  - destruct (dash_nl F s (repeat 32 (c + 1 + d) ++ brl (c + 1 + d) (BS (Some d) items)) c ext base opens Hat Hext Hj HF)
      as (toks & s' & H1 & H2 & H3).
    exists toks, s'. rewrite Ej in H3. repeat split; try assumption. eauto.
  - destruct (Hsp eq_refl) as (toks & s' & H1 & H2 & H3).
    exists toks, s'. rewrite Ej in H3. repeat split; try assumption. eauto.
  - destruct (dash_nl F s (repeat 32 (c + 1 + d) ++ brl (c + 1 + d) (BM (Some d) pairs)) c ext base opens Hat Hext Hj HF)
      as (toks & s' & H1 & H2 & H3).
    exists toks, s'. rewrite Ej in H3. repeat split; try assumption. eauto.
  - destruct (Hsp eq_refl) as (toks & s' & H1 & H2 & H3).
    exists toks, s'. rewrite Ej in H3. repeat split; try assumption. eauto.
Qed.

Lemma dash_item_below_l F s x c top rest0 :
  at_below s (10 :: repeat 32 c ++ item_textL c x) (top :: rest0) -> bwf true x = true -> nobi x = true ->
  top < N.of_nat c -> (length (top :: rest0) < 255)%nat -> (c + 2 <= F)%nat ->
  exists toks s', delivers F s toks s' /\ map snd toks = dash_toks 0 true /\ after_dash_l s' x c (top :: rest0).
Proof.
  intros Hat Hwf Hb Hlt Hlen HF.
  unfold item_textL in Hat.
  assert (Hsp : lead c x = [32] ->
            exists toks s', delivers F s toks s' /\ map snd toks = dash_toks 0 true /\
                            at_tok s' (brl (child_col c x) x) (c + 2) (N.of_nat c :: top :: rest0)).
  { intros El. rewrite El in Hat. cbn [app] in Hat.
    destruct (brl_first (child_col c x) x true Hwf Hb) as (x0 & cs0 & E0 & Hx0).
    destruct (first_char_facts x0 Hx0) as (H1 & H2 & H3).
    rewrite E0 in Hat |- *.
    exact (dash_sp_below F s x0 cs0 c top rest0 Hat Hlt Hlen H1 H2 H3 HF). }
  destruct x as [w|[d|] items|[d|] pairs|items]; cbn [lead child_col after_dash_l app] in *; [| | | | |discriminate].
  - exact (Hsp eq_refl).
  - exact (dash_nl_below F s (repeat 32 (c + 1 + d) ++ brl (c + 1 + d) (BS (Some d) items)) c top rest0 Hat Hlt Hlen HF).
  - exact (Hsp eq_refl).
  - exact (dash_nl_below F s (repeat 32 (c + 1 + d) ++ brl (c + 1 + d) (BM (Some d) pairs)) c top rest0 Hat Hlt Hlen HF).
  - exact (Hsp eq_refl).
Qed.

(* the last item behind its "-" *)
Lemma seq_child_last F s x c cols :
  after_dash_l s x c cols -> LastOK true x -> (S (length cols) + bdepth x <= 255)%nat ->
  fuel_ok F (item_textL c x) c ->
  scanned_l F s 0 (tokens_of (blt x)) (N.of_nat c :: cols) (Z.of_nat c).
Proof.
  intros Had (Hwf & Hb & HC) Hd Hfuel. unfold fuel_ok, item_textL in Hfuel.
  destruct x as [w|[d|] items|[d|] pairs|items]; cbn [after_dash_l lead child_col app] in *; [| | | | |contradiction].
  - cbn [bwf] in Hwf. destruct (word_first w Hwf) as (c0 & w' & -> & Hw).
    cbn [brl] in Had, Hfuel. lens Hfuel.
    exists [], s, [], c0, w'. split; [apply delivers_nil|]. split; [exact Hw|]. split; [reflexivity|]. split; [|split; [constructor|lia]].
    left. exists (c + 2)%nat, (N.of_nat c), cols. split; [reflexivity|]. split; [lia|exact Had].
  - replace (Z.of_nat c) with (fst (stk (N.of_nat c :: cols))) by (cbn; lia).
    apply (HC eq_refl F (c + 1 + d)%nat (N.of_nat c :: cols) s); [right; exact Had | unfold top_lt; cbn; lia | cbn [length]; lia |].
    unfold fuel_ok. lens Hfuel. lensg. lia.
  - replace (Z.of_nat c) with (fst (stk (N.of_nat c :: cols))) by (cbn; lia).
    apply (HC eq_refl F (c + 2)%nat (N.of_nat c :: cols) s); [left; exact Had | unfold top_lt; cbn; lia | cbn [length]; lia |].
    unfold fuel_ok. lens Hfuel. lensg. lia.
  - replace (Z.of_nat c) with (fst (stk (N.of_nat c :: cols))) by (cbn; lia).
    apply (HC eq_refl F (c + 1 + d)%nat (N.of_nat c :: cols) s); [right; exact Had | unfold top_lt; cbn; lia | cbn [length]; lia |].
    unfold fuel_ok. lens Hfuel. lensg. lia.
  - replace (Z.of_nat c) with (fst (stk (N.of_nat c :: cols))) by (cbn; lia).
    apply (HC eq_refl F (c + 2)%nat (N.of_nat c :: cols) s); [left; exact Had | unfold top_lt; cbn; lia | cbn [length]; lia |].
    unfold fuel_ok. lens Hfuel. lensg. lia.
Qed.

Lemma tailL_item_first c l z : line_first (tailL item_text item_textL c (l ++ [z])).
Proof. destruct l as [|y [|y2 r]]; cbn [app tailL]; unfold item_text, item_textL; cbn [app line_first]; split; reflexivity. Qed.

Lemma app_snoc_ne {A} (l : list A) z : l ++ [z] <> [].
Proof. destruct l; discriminate. Qed.

(* the items behind the first one, the last of them being the last thing of the input *)
Lemma seq_tail_last F c cols : forall xs z, Forall (ChildOK true) xs -> LastOK true z ->
  (forall x, In x (xs ++ [z]) -> (S (length cols) + bdepth x <= 255)%nat) ->
  forall s ext, at_tok s (tailL item_text item_textL c (xs ++ [z])) c (ext ++ N.of_nat c :: cols) ->
  Forall (fun e => (Z.of_nat c < Z.of_N e)%Z) ext ->
  fuel_ok F (tailL item_text item_textL c (xs ++ [z])) c ->
  scanned_l F s (length ext) (flat_map item_toks (xs ++ [z])) (N.of_nat c :: cols) (Z.of_nat c).
Proof.
  induction xs as [|x r IH]; intros z Hok Hz Hdep s ext Hat Hext Hfuel.
  - cbn [app tailL flat_map] in *. rewrite app_nil_r. unfold item_toks.
    change (TBlockEntry :: tokens_of (blt z)) with ([TBlockEntry] ++ tokens_of (blt z)).
    destruct (dash_item_l F s z c ext (N.of_nat c :: cols) false (or_introl Hat) (proj1 Hz) (proj1 (proj2 Hz)) Hext
                ltac:(exists cols; reflexivity) ltac:(unfold fuel_ok in Hfuel; lia)) as (t1 & s1 & Hd1 & Hm1 & Had & _).
    cbn [joined] in Had.
    eapply scanned_head_l; [exact Hd1 | exact Hm1 |].
    apply seq_child_last; [exact Had | exact Hz | apply Hdep; left; reflexivity | exact Hfuel].
  - inversion Hok as [|? ? Hx Hr]; subst.
    change ((x :: r) ++ [z]) with (x :: (r ++ [z])) in *.
    rewrite (tailL_cons item_text item_textL c x (r ++ [z]) (app_snoc_ne r z)) in Hat, Hfuel.
    cbn [flat_map]. unfold item_toks at 1.
    change ((TBlockEntry :: tokens_of (blt x)) ++ flat_map item_toks (r ++ [z])) with ([TBlockEntry] ++ tokens_of (blt x) ++ flat_map item_toks (r ++ [z])).
    set (tl := tailL item_text item_textL c (r ++ [z])) in *.
    destruct (dash_item F s x c ext (N.of_nat c :: cols) false _ (or_introl Hat) (proj1 Hx) Hext ltac:(exists cols; reflexivity)
                ltac:(unfold fuel_ok in Hfuel; lia)) as (t1 & s1 & Hd1 & Hm1 & Had & _).
    cbn [joined] in Had. unfold spaces in Had, Hfuel.
    eapply scanned_seq_l; [exact Hd1 | exact Hm1 | | ].
    + apply (seq_child F s1 x c cols c tl); [exact Had | exact Hx | apply Hdep; left; reflexivity | apply tailL_item_first | lia | exact Hfuel].
    + intros s2 ext1 Hat2 Hf2. apply IH; [exact Hr | exact Hz | intros y Hy; apply Hdep; right; exact Hy | exact Hat2 | exact Hf2 |].
      unfold fuel_ok in *. fold tl. lens Hfuel. lia.
Qed.

Lemma coll_seq_last pl xs z : Forall (ChildOK true) xs -> LastOK true z -> LastScan (BS pl (xs ++ [z])).
Proof.
  intros Hok Hz F cc cols s Harr Htop Hdep Hfuel.
  rewrite brl_BS in Harr, Hfuel. rewrite tokens_BS.
  assert (Hlen : (length cols < 255)%nat) by (cbn [bdepth] in Hdep; lia).
  assert (Hdep' : forall y, In y (xs ++ [z]) -> (S (length cols) + bdepth y <= 255)%nat).
  { intros y Hy. pose proof (bdepth_item pl (xs ++ [z]) y Hy). lia. }
  destruct xs as [|x r].
  - (* the only item is the last one *)
    cbn [app tailL flat_map] in *. rewrite app_nil_r. unfold item_toks.
    assert (Hdash : exists t1 s1, delivers F s t1 s1 /\ map snd t1 = repeat TBlockEnd 0 ++ [TBlockSequenceStart; TBlockEntry]
                                  /\ after_dash_l s1 z cc cols).
    { destruct Harr as [Hat | Hbel].
      - destruct (dash_item_l F s z cc [] cols true (or_introl Hat) (proj1 Hz) (proj1 (proj2 Hz)) ltac:(constructor) (top_lt_joins cols cc Htop Hlen)
                    ltac:(unfold fuel_ok in Hfuel; lia)) as (t1 & s1 & H1 & H2 & H3 & _).
        exists t1, s1. repeat split; assumption.
      - destruct (at_below_cols _ _ _ Hbel) as (top & rest0 & ->).
        destruct (dash_item_below_l F s z cc top rest0 Hbel (proj1 Hz) (proj1 (proj2 Hz)) ltac:(unfold top_lt in Htop; cbn in Htop; lia) Hlen
                    ltac:(unfold fuel_ok in Hfuel; lia)) as (t1 & s1 & H1 & H2 & H3).
        exists t1, s1. repeat split; assumption. }
    destruct Hdash as (t1 & s1 & Hd1 & Hm1 & Had).
    change (TBlockSequenceStart :: (TBlockEntry :: tokens_of (blt z)) ++ [TBlockEnd])
      with (TBlockSequenceStart :: (TBlockEntry :: tokens_of (blt z)) ++ [TBlockEnd]).
    apply (scanned_close_l F s _ _ cc cols Htop).
    change (TBlockSequenceStart :: TBlockEntry :: tokens_of (blt z)) with ([TBlockSequenceStart; TBlockEntry] ++ tokens_of (blt z)).
    eapply scanned_head_l; [exact Hd1 | exact Hm1 |].
    apply seq_child_last; [exact Had | exact Hz | apply Hdep'; left; reflexivity | exact Hfuel].
  - inversion Hok as [|? ? Hx Hr]; subst.
    change ((x :: r) ++ [z]) with (x :: (r ++ [z])) in *.
    rewrite (tailL_cons item_text item_textL cc x (r ++ [z]) (app_snoc_ne r z)) in Harr, Hfuel.
    set (tl := tailL item_text item_textL cc (r ++ [z])) in *.
    assert (Hdash : exists t1 s1, delivers F s t1 s1 /\ map snd t1 = repeat TBlockEnd 0 ++ [TBlockSequenceStart; TBlockEntry]
                                  /\ after_dash s1 x cc cols (spaces cc ++ tl)).
    { destruct Harr as [Hat | Hbel].
      - destruct (dash_item F s x cc [] cols true (spaces cc ++ tl) (or_introl Hat) (proj1 Hx) ltac:(constructor) (top_lt_joins cols cc Htop Hlen)
                    ltac:(unfold fuel_ok in Hfuel; lia)) as (t1 & s1 & H1 & H2 & H3 & _).
        exists t1, s1. repeat split; assumption.
      - destruct (at_below_cols _ _ _ Hbel) as (top & rest0 & ->).
        destruct (dash_item_below F s x cc top rest0 (spaces cc ++ tl) Hbel (proj1 Hx) ltac:(unfold top_lt in Htop; cbn in Htop; lia) Hlen
                    ltac:(unfold fuel_ok in Hfuel; lia)) as (t1 & s1 & H1 & H2 & H3).
        exists t1, s1. repeat split; assumption. }
    destruct Hdash as (t1 & s1 & Hd1 & Hm1 & Had).
    cbn [flat_map]. unfold item_toks at 1.
    change (TBlockSequenceStart :: ((TBlockEntry :: tokens_of (blt x)) ++ flat_map item_toks (r ++ [z])) ++ [TBlockEnd])
      with (TBlockSequenceStart :: (TBlockEntry :: tokens_of (blt x) ++ flat_map item_toks (r ++ [z])) ++ [TBlockEnd]).
    apply (scanned_close_l F s _ _ cc cols Htop).
    change (TBlockSequenceStart :: TBlockEntry :: tokens_of (blt x) ++ flat_map item_toks (r ++ [z]))
      with ([TBlockSequenceStart; TBlockEntry] ++ tokens_of (blt x) ++ flat_map item_toks (r ++ [z])).
    unfold spaces in Had, Hfuel.
    eapply scanned_seq_l; [exact Hd1 | exact Hm1 | | ].
    + apply (seq_child F s1 x cc cols cc tl); [exact Had | exact Hx | apply Hdep'; left; reflexivity | apply tailL_item_first | lia | exact Hfuel].
    + intros s2 ext1 Hat2 Hf2. apply seq_tail_last; [exact Hr | exact Hz | intros y Hy; apply Hdep'; right; exact Hy | exact Hat2 | exact Hf2 |].
      unfold fuel_ok in *. fold tl. lens Hfuel. lia.
Qed.
Print Assumptions coll_seq_last.
